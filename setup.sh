#!/bin/sh
# Offline setup: nothing to build (TLA+ specs are interpreted by TLC, the harness is pure Python).
# Sanity-check the tools the checks need.
set -e
cd "$(dirname "$0")"
java -cp /opt/veriftools/tla/tla2tools.jar:/opt/veriftools/tla/CommunityModules-deps.jar tlc2.TLC -h 2>&1 | grep -q "model checking" || { echo "TLC not runnable"; exit 1; }
/venv/bin/python -c "import sys; sys.path.insert(0,'/repo'); import pycoin" || { echo "pycoin not importable from /repo"; exit 1; }
mkdir -p evidence replays
echo setup ok
