CONSTANTS NK = 5  NM = 2  MaxPasses = 1  MaxSteps = 1  MaxInserts = 1  EditFrom = "any"  MutSet = "all"
          Shapes <- NoShapes  Coins <- AllCoins  HashTypes <- StdHashTypes  Cases <- CasesReplayT
SPECIFICATION RSpec
CHECK_DEADLOCK FALSE
