------------------------------ MODULE X05_Units ------------------------------
(* X05 (c) - the small arithmetic conventions: amounts as decimal text, and   *)
(* the recommended fee.                                                       *)
(*                                                                            *)
(* C13's CoinDecimal.tla (read-only) already says how a whole number of       *)
(* satoshis and its text in BTC / mBTC correspond (digit shuffling).  Added   *)
(* here, still on digit sequences (21e14 does not fit a TLC integer):         *)
(*   - signed amounts, and texts that are NOT a whole number of satoshis      *)
(*     (more fractional digits than the unit has): the two neighbouring       *)
(*     satoshi counts, between which any documented or undocumented rounding  *)
(*     must land - or the text is refused;                                    *)
(*   - addition of amounts as decimal texts and of satoshi counts (Limbs.tla  *)
(*     with base 10, read-only), and that conversion is additive: no          *)
(*     "0.1 + 0.2" effect;                                                    *)
(*   - the recommended fee as a function of the serialised size (TxWire.tla,  *)
(*     read-only, gives the size of a transaction shape), and the transaction *)
(*     built with the "standard" fee (TxRules.tla, C13's rule book, read-only,*)
(*     with the fee set to the recommended fee of the transaction's size).    *)
EXTENDS CoinDecimal, FiniteSets, TLC

L10 == INSTANCE Limbs WITH B <- 10
W   == INSTANCE TxWire
IAdd(a, b) == a + b
ILeq(a, b) == a <= b
R   == INSTANCE TxRules WITH Add <- IAdd, Leq <- ILeq, Zero <- 0, One <- 1

Let1(S) == CHOOSE v \in S : TRUE

(* ---------------------------------------------------------------- digit sequences (most significant first) *)
Rev(s) == [i \in 1..Len(s) |-> s[Len(s) + 1 - i]]
\* Limbs wants no leading zero limb
ToL(ds) == LET c == Canon(ds) IN IF c = <<0>> THEN <<>> ELSE Rev(c)
AddD(a, b) == Canon(Rev(L10!LAdd(ToL(a), ToL(b))))
SuccD(a) == AddD(a, <<1>>)
LeqD(a, b) == L10!LLeq(ToL(a), ToL(b))
PadRight(s, n) == IF Len(s) >= n THEN s ELSE s \o Zeros(n - Len(s))
PadLeft(s, n)  == IF Len(s) >= n THEN s ELSE Zeros(n - Len(s)) \o s
MaxOf(a, b) == IF a >= b THEN a ELSE b

(* ---------------------------------------------------------------- amounts as text *)
\* a signed amount: [neg, int, frac]; a satoshi count: [neg, mag] with mag canonical digits; no negative zero
Amt(neg, int, frac) == [neg |-> neg, int |-> int, frac |-> frac]
Unsigned(c) == [int |-> c.int, frac |-> c.frac]
IsZeroAmt(c) == Canon(c.int) = <<0>> /\ StripRight(c.frac) = <<>>
Cnt(neg, mag) == [neg |-> neg /\ mag # <<0>>, mag |-> mag]

\* the digits that count (the first D of the fraction) and the rest
FracHead(c, D) == SubSeq(PadRight(c.frac, D), 1, D)
FracTail(c, D) == SubSeq(c.frac, D + 1, Len(c.frac))
FloorMag(c, D) == Canon(c.int \o FracHead(c, D))
IsWhole(c, D)  == \A i \in 1..Len(FracTail(c, D)) : FracTail(c, D)[i] = 0
CeilMag(c, D)  == IF IsWhole(c, D) THEN FloorMag(c, D) ELSE SuccD(FloorMag(c, D))
\* text -> satoshis.  A whole number of satoshis: exactly that count (CoinDecimal!CoinToSat).  Otherwise the text lies
\* strictly between two counts: the result is one of them (whatever the rounding rule) or the text is refused.
ToSat(c, D) == [exact |-> IsWhole(c, D),
                counts |-> {Cnt(c.neg, FloorMag(c, D)), Cnt(c.neg, CeilMag(c, D))}]
\* satoshis -> amount with exactly D fractional digits
FromSat(n, D) == LET c == SatToCoin(n.mag, D) IN Amt(n.neg, c.int, c.frac)

\* agreement with CoinDecimal where both speak
WholeIsCoinToSat(c, D) == IsWhole(c, D) <=> Representable(Unsigned(c), D)
WholeValue(c, D) == IsWhole(c, D) => FloorMag(c, D) = CoinToSat(Unsigned(c), D) /\ CeilMag(c, D) = FloorMag(c, D)
RoundTrip(n, D) == LET t == ToSat(FromSat(n, D), D) IN t.exact /\ t.counts = {n}

(* ---------------------------------------------------------------- addition *)
\* non-negative amounts as decimal texts: align the fractions, add the digit strings, put the point back
AmtAdd(c1, c2) ==
  LET F == MaxOf(Len(c1.frac), Len(c2.frac))
      s == PadLeft(AddD(c1.int \o PadRight(c1.frac, F), c2.int \o PadRight(c2.frac, F)), F + 1) IN
  Amt(FALSE, SubSeq(s, 1, Len(s) - F), SubSeq(s, Len(s) - F + 1, Len(s)))
\* conversion commutes with addition, both ways
Additive(c1, c2, D) == (IsWhole(c1, D) /\ IsWhole(c2, D)) =>
   /\ IsWhole(AmtAdd(c1, c2), D)
   /\ FloorMag(AmtAdd(c1, c2), D) = AddD(FloorMag(c1, D), FloorMag(c2, D))
AdditiveBack(a, b, D) ==
   SameCoin(Unsigned(AmtAdd(FromSat(Cnt(FALSE, a), D), FromSat(Cnt(FALSE, b), D))),
            Unsigned(FromSat(Cnt(FALSE, AddD(a, b)), D)))
\* order is preserved (weakly: different texts may round to the same count), whichever neighbour a rounding rule picks
LeqAmt(c1, c2) == LET F == MaxOf(Len(c1.frac), Len(c2.frac)) IN
                  LeqD(c1.int \o PadRight(c1.frac, F), c2.int \o PadRight(c2.frac, F))
Monotone(c1, c2, D) == LeqAmt(c1, c2) => /\ LeqD(FloorMag(c1, D), FloorMag(c2, D))
                                         /\ LeqD(CeilMag(c1, D), CeilMag(c2, D))

(* ---------------------------------------------------------------- integer lemmas (small numbers only) *)
\* the value of an amount in units of 10^-K, K >= Len(frac)
ValK(c, K) == Val(c.int) * Pow10(K) + Val(PadRight(c.frac, K))
ArithOk(c, D, K) ==
  LET v == ValK(c, K)  q == Pow10(K - D) IN
  /\ Val(FloorMag(c, D)) = v \div q
  /\ IsWhole(c, D) <=> (v % q = 0)
  /\ Val(CeilMag(c, D)) = (v + q - 1) \div q
AddOk(c1, c2, K) == ValK(AmtAdd(c1, c2), K) = ValK(c1, K) + ValK(c2, K)
AddDOk(a, b) == Val(AddD(a, b)) = Val(a) + Val(b) /\ IsCanon(AddD(a, b)) /\ (LeqD(a, b) <=> Val(a) <= Val(b))

(* ---------------------------------------------------------------- the recommended fee *)
\* "TX_FEE_PER_THOUSAND_BYTES = 10000": 10000 satoshi for every thousand bytes, or part thereof
FeePerK == 10000
Fee(size) == FeePerK * ((size + 999) \div 1000)
\* the same without division: the least multiple of FeePerK that pays 10 satoshi per byte
IsFee(size, f) == /\ f % FeePerK = 0 /\ f >= 10 * size /\ f - FeePerK < 10 * size
FeeLemmas(n) == /\ IsFee(n, Fee(n))
                /\ \A f \in {Fee(n) - FeePerK, Fee(n) + FeePerK} : ~IsFee(n, f)
                /\ Fee(n) <= Fee(n + 1)                                                   \* monotone
                /\ (n % 1000 = 0 => (Fee(n) = 10 * n /\ Fee(n + 1) = Fee(n) + FeePerK))    \* the steps
                /\ (n % 1000 # 0 => Fee(n + 1) = Fee(n))
                /\ Fee(0) = 0

\* a transaction shape: script lengths of the inputs (each with a witness stack: item lengths) and of the outputs
ShapeTx(ins, outs) ==
  [version |-> <<1, 0>>, lock |-> <<0, 0>>,
   ins  |-> [i \in 1..Len(ins) |-> [hash |-> W!Run(7, 32), index |-> <<i, 0>>, script |-> W!Run(81, ins[i].script),
                                    seq |-> <<65535, 65535>>,
                                    wit |-> [j \in 1..Len(ins[i].wit) |-> W!Run(2, ins[i].wit[j])]]],
   outs |-> [j \in 1..Len(outs) |-> [amount |-> <<0, 0, 0, 0>>, script |-> W!Run(106, outs[j])]]]
TxSize(ins, outs) == W!Size(W!Wire(ShapeTx(ins, outs)))
PlainIn(n) == [script |-> n, wit |-> <<>>]
\* without witnesses the size is the familiar sum
SizeFormula(ins, outs) ==
  (\A i \in 1..Len(ins) : ins[i].wit = <<>>) =>
     TxSize(ins, outs) = 4 + W!CompactSizeWidth(Len(ins)) + W!CompactSizeWidth(Len(outs)) + 4
                         + LET si[i \in 0..Len(ins)] == IF i = 0 THEN 0 ELSE si[i - 1] + 40 + W!CompactSizeWidth(ins[i].script) + ins[i].script
                               so[j \in 0..Len(outs)] == IF j = 0 THEN 0 ELSE so[j - 1] + 8 + W!CompactSizeWidth(outs[j]) + outs[j]
                           IN si[Len(ins)] + so[Len(outs)]

(* ---------------------------------------------------------------- building with the "standard" fee *)
(* create_tx(..., fee="standard"): the fee is the recommended fee for the transaction as it stands when the  *)
(* pool is split - unsigned (empty input scripts), all outputs present.  Amounts are 8 bytes whatever their   *)
(* value, so that size is the size of the returned transaction.  Everything else is C13's rule book.          *)
UnsignedSize(nin, outScripts) == TxSize([i \in 1..nin |-> PlainIn(0)], outScripts)
StdFee(nin, outScripts) == Fee(UnsignedSize(nin, outScripts))
\* closed form of the split (C13: TxBuild!Build; the rule book has exactly one solution - TxBuild!Unique)
StdBuild(sps, pays, fee) ==
  LET U == R!Unspec(pays)  n == Cardinality(U)
      pool == R!TotalIn(sps) - R!Total(R!Amts(pays)) - fee
      rank(i) == Cardinality({j \in U : j < i}) IN
  IF n > 0 /\ pool < n THEN [err |-> TRUE]
  ELSE [err |-> FALSE,
        tx |-> [ins |-> [i \in 1..Len(sps) |-> [src |-> sps[i].src, idx |-> sps[i].idx]],
                unspents |-> [i \in 1..Len(sps) |-> [amt |-> sps[i].amt, scr |-> sps[i].scr]],
                outs |-> [i \in 1..Len(pays) |->
                            [to |-> pays[i].to,
                             amt |-> IF pays[i].amt # 0 THEN pays[i].amt
                                     ELSE (pool \div n) + (IF rank(i) < pool % n THEN 1 ELSE 0)]]]]
StdOK(sps, pays, outScripts) ==
  LET fee == StdFee(Len(sps), outScripts)
      res == StdBuild(sps, pays, fee) IN
  /\ R!OutcomeOK(sps, pays, fee, IF res.err THEN [err |-> TRUE, tx |-> <<>>] ELSE res)
  /\ ~res.err /\ R!Unspec(pays) # {} => R!FeeReport(res.tx, R!TotalIn(sps), R!Total(R!Amts(res.tx.outs)), 1, fee)
=============================================================================
