--------------------------- MODULE MC_SighashReplay ---------------------------
(* Spec -> code binding for C04.  TLC enumerates                              *)
(*   coin x signature version x 1..MaxIn inputs x 0..MaxOut outputs x input   *)
(*   index x scenario (script, code-separator offset, signatures being         *)
(*   checked) x amount x all 256 hash types (20 for the scenarios FewHtIds,    *)
(*   whose subject is the rewriting of a long script code)                     *)
(* and prints, for each, the digest Sighash.tla demands as a blob (literal    *)
(* bytes, symbolic previous-transaction ids, SHA256 / SHA256d nodes).  The     *)
(* harness (props/c04.py) builds the same transaction from the printed table,  *)
(* evaluates the blob with hashlib and compares with what pycoin's             *)
(* SolutionChecker computes.                                                   *)
EXTENDS Sighash, TLC, Json

CONSTANTS MaxIn, MaxOut, CoinSet, ScenarioIds,
          FewHtIds      \* scenarios (long script codes) replayed with the hash types HtFew instead of all 256
\* every base type (and two of the "other" values of the low five bits) x ANYONECANPAY x FORKID
HtFew == {h + k : h \in {0, 1, 2, 3, 4}, k \in {0, 64, 128, 192}}

FF4 == Rep(255, 4)
Ver == LE32(2)
Lock == LE32(17)
InTab == << TxIn(Sym(1), LE32(0), <<1, 2>>, FF4),
            TxIn(Sym(2), LE32(7), <<>>, LE32(5)),
            TxIn(Sym(3), LE32(1), <<81>>, <<254, 255, 255, 255>>) >>
OutTab == << TxOut(<<1, 0, 0, 0, 0, 0, 0, 0>>, <<118, 169>>),
             TxOut(<<0, 0, 0, 0, 1, 0, 0, 0>>, <<>>),
             TxOut(<<255, 255, 255, 255, 255, 255, 255, 127>>, <<106, 1, 9>>) >>
Amounts == << <<64, 66, 15, 0, 0, 0, 0, 0>>, <<1, 2, 3, 4, 5, 6, 7, 128>> >>
TxOf(n, m) == Tx(Ver, SubSeq(InTab, 1, n), SubSeq(OutTab, 1, m), Lock)

\* signature blobs: 9 bytes (the shortest that can parse), 72 bytes with 0xAB bytes inside,
\* 76 bytes (the shortest whose push needs OP_PUSHDATA1); SigPad(n): n bytes, 254 <= n <= 259, as the
\* lax DER parser accepts them without DERSIG / STRICTENC (long-form lengths, R padded with zero
\* bytes) - 255 is the longest blob pushed with OP_PUSHDATA1, 256 the shortest that needs OP_PUSHDATA2
SigA == <<48, 6, 2, 1, 1, 2, 1, 1, 1>>
SigB == <<48, 69, 2, 33, 0>> \o Rep(171, 32) \o <<2, 32>> \o Rep(7, 32) \o <<129>>
SigC == <<48, 73, 2, 36, 0, 0, 0, 0>> \o Rep(9, 32) \o <<2, 33, 0>> \o Rep(7, 32) \o <<3>>
Sig75 == Rep(75, 75)
SigPad(n) == <<48, 129, n - 4, 2, 129, n - 41>> \o Rep(0, n - 73) \o Rep(n % 256, 32) \o <<2, 32>> \o Rep(7, 32) \o <<1>>
ASSUME \A n \in 254..259 : Len(SigPad(n)) = n
P2PKH == <<118, 169>> \o PushOf([j \in 1..20 |-> j]) \o <<136, 172>>
Seps == <<171>> \o P2PKH \o <<171, 171>> \o PushOf(<<171, 171>>) \o <<172, 171>>
Embedded == PushOf(SigA) \o <<171>> \o PushOf(SigB) \o PushOf(SigB)
            \o <<OP_PUSHDATA1, 9>> \o SigA                  \* non-minimal push of SigA: not the pattern
            \o PushOf(<<0>> \o PushOf(SigA))                \* the pattern inside push data: not an instruction
            \o <<172>> \o PushOf(SigA)
Scen(script, begin, sigs) == [script |-> script, begin |-> begin, sigs |-> sigs]
Scenarios == <<
    Scen(P2PKH, 0, <<>>),                                   \* 1
    Scen(P2PKH, 0, <<SigB>>),                               \* 2 signature not in the script
    Scen(Seps, 0, <<>>),                                    \* 3 separators first, doubled, in data, last
    Scen(Seps, 1, <<SigA>>),                                \* 4 the same after the first separator
    Scen(Embedded, 0, <<SigA, SigB>>),                      \* 5 two signatures (CHECKMULTISIG) embedded
    Scen(Embedded, Len(PushOf(SigA)) + 1, <<SigB>>),        \* 6
    Scen(<<>>, 0, <<SigA>>),                                \* 7 empty script code
    Scen(PushOf(SigC) \o PushOf(Sig75) \o <<172>>, 0, <<SigC, Sig75>>),   \* 8 PUSHDATA1 boundary 75 / 76
    Scen(PushOf(Rep(171, 249)) \o <<172>>, 0, <<>>),        \* 9 script code of 252 bytes
    Scen(PushOf(Rep(171, 250)) \o <<172>>, 0, <<>>),        \* 10 ... of 253: compact size 0xfd
    Scen(PushOf(Rep(5, 250)) \o <<171>> \o PushOf(SigA), 0, <<SigA>>),  \* 11 253 before, 242 after rewriting
    \* 12 blobs too short to be signatures, still removed by the interpreter: the patterns are
    \* 01 05, 00 (empty blob), 01 81 - never the number opcodes OP_5 (85) / OP_1NEGATE (79)
    Scen(<<85, 1, 5, 0, 79, 1, 129, 85, 172>>, 0, << <<5>>, <<>>, <<129>> >>),
    Scen(PushOf(SigPad(255)) \o PushOf(SigPad(256)) \o <<172>>, 0, <<SigPad(255), SigPad(256)>>),   \* 13 PUSHDATA2 boundary 255 / 256
    \* 14 around both boundaries: the neighbours 74 / 77 / 254 / 257, and pushes of the boundary blobs with
    \* the NEXT LARGER push opcode - well-formed instructions, but not the pattern: they stay
    Scen(PushOf(Rep(74, 74)) \o <<OP_PUSHDATA1, 75>> \o Sig75 \o <<OP_PUSHDATA2, 76, 0>> \o SigC \o PushOf(Rep(77, 77))
         \o PushOf(SigPad(254)) \o <<OP_PUSHDATA2, 255, 0>> \o SigPad(255) \o <<OP_PUSHDATA4, 0, 1, 0, 0>> \o SigPad(256)
         \o PushOf(SigPad(257)) \o <<172>>, 0,
         <<Rep(74, 74), Sig75, SigC, Rep(77, 77), SigPad(254), SigPad(255), SigPad(256), SigPad(257)>>)
>>
ASSUME \A k \in 1..Len(Scenarios) : WellFormed(Scenarios[k].script)
ASSUME Len(Scenarios[9].script) = 252 /\ Len(Scenarios[10].script) = 253
\* the boundary scenarios are what they claim: each push opcode on both sides of its boundary
ASSUME /\ PushOf(Sig75)[1] = 75 /\ SubSeq(PushOf(SigC), 1, 2) = <<OP_PUSHDATA1, 76>>
       /\ SubSeq(PushOf(SigPad(255)), 1, 2) = <<OP_PUSHDATA1, 255>>
       /\ SubSeq(PushOf(SigPad(256)), 1, 3) = <<OP_PUSHDATA2, 0, 1>>
       /\ DropSignatures(Scenarios[13].script, Scenarios[13].sigs) = <<172>>
       /\ Len(DropSignatures(Scenarios[14].script, Scenarios[14].sigs)) = 2 + 75 + 3 + 76 + 3 + 255 + 5 + 256 + 1

VARIABLES phase, coin, sv, n, m, i, sc, a, ht
vars == <<phase, coin, sv, n, m, i, sc, a, ht>>

Init == phase = "start" /\ coin = "" /\ sv = "" /\ n = 0 /\ m = 0 /\ i = 0 /\ sc = 0 /\ a = 0 /\ ht = 0
EmitTab == /\ phase = "start" /\ phase' = "tab"
           /\ UNCHANGED <<coin, sv, n, m, i, sc, a, ht>>
           /\ PrintT(ToJson([k |-> "tab", ver |-> Ver, lock |-> Lock, ins |-> InTab, outs |-> OutTab,
                             amounts |-> Amounts, scenarios |-> Scenarios]))
Pick == /\ phase = "tab" /\ phase' = "group"
        /\ coin' \in CoinSet /\ sv' \in SigVersionsOf(coin')
        /\ n' \in 1..MaxIn /\ m' \in 0..MaxOut /\ i' \in 1..n'
        /\ sc' \in ScenarioIds
        /\ UNCHANGED <<a, ht>>
\* a = 0: the rule does not read the amount (legacy); the harness then tries every amount
Case == /\ phase = "group" /\ phase' = "case"
        /\ a' \in (IF Algo(coin, sv) = "legacy" THEN {0} ELSE 1..Len(Amounts))
        /\ ht' \in (IF sc \in FewHtIds THEN HtFew ELSE 0..255)
        /\ UNCHANGED <<coin, sv, n, m, i, sc>>
        /\ LET S == Scenarios[sc]
               d == Digest(coin, sv, TxOf(n, m), i, S.script, S.begin, S.sigs,
                           Amounts[IF a' = 0 THEN 1 ELSE a'], ht')
               dev == Deviations(coin, sv, TxOf(n, m), i, S.script, S.begin, S.sigs,
                                 Amounts[IF a' = 0 THEN 1 ELSE a'], ht')
           IN PrintT(ToJson([k |-> "case", coin |-> coin, sv |-> sv, n |-> n, m |-> m, i |-> i,
                             sc |-> sc, a |-> a', ht |-> ht', d |-> d, dev |-> dev]))
Next == EmitTab \/ Pick \/ Case
Spec == Init /\ [][Next]_vars
=============================================================================
