--------------------------- MODULE MC_SighashReplay ---------------------------
(* Spec -> code binding for C04.  TLC enumerates                              *)
(*   coin x signature version x 1..MaxIn inputs x 0..MaxOut outputs x input   *)
(*   index x scenario (script, code-separator offset, signatures being         *)
(*   checked) x amount x all 256 hash types                                   *)
(* and prints, for each, the digest Sighash.tla demands as a blob (literal    *)
(* bytes, symbolic previous-transaction ids, SHA256 / SHA256d nodes).  The     *)
(* harness (props/c04.py) builds the same transaction from the printed table,  *)
(* evaluates the blob with hashlib and compares with what pycoin's             *)
(* SolutionChecker computes.                                                   *)
EXTENDS Sighash, TLC, Json

CONSTANTS MaxIn, MaxOut, CoinSet, ScenarioIds

FF4 == Rep(255, 4)
Ver == LE32(2)
Lock == LE32(17)
InTab == << TxIn(Sym(1), LE32(0), <<1, 2>>, FF4),
            TxIn(Sym(2), LE32(7), <<>>, LE32(5)),
            TxIn(Sym(3), LE32(1), <<81>>, <<254, 255, 255, 255>>) >>
OutTab == << TxOut(<<1, 0, 0, 0, 0, 0, 0, 0>>, <<118, 169>>),
             TxOut(<<0, 0, 0, 0, 1, 0, 0, 0>>, <<>>),
             TxOut(<<255, 255, 255, 255, 255, 255, 255, 127>>, <<106, 1, 9>>) >>
Amounts == << <<64, 66, 15, 0, 0, 0, 0, 0>>, <<1, 2, 3, 4, 5, 6, 7, 128>> >>
TxOf(n, m) == Tx(Ver, SubSeq(InTab, 1, n), SubSeq(OutTab, 1, m), Lock)

\* signature blobs: 9 bytes (the shortest that can parse), 72 bytes with 0xAB bytes inside,
\* 76 bytes (the shortest whose push needs OP_PUSHDATA1)
SigA == <<48, 6, 2, 1, 1, 2, 1, 1, 1>>
SigB == <<48, 69, 2, 33, 0>> \o Rep(171, 32) \o <<2, 32>> \o Rep(7, 32) \o <<129>>
SigC == <<48, 73, 2, 36, 0, 0, 0, 0>> \o Rep(9, 32) \o <<2, 33, 0>> \o Rep(7, 32) \o <<3>>
Sig75 == Rep(75, 75)
P2PKH == <<118, 169>> \o PushOf([j \in 1..20 |-> j]) \o <<136, 172>>
Seps == <<171>> \o P2PKH \o <<171, 171>> \o PushOf(<<171, 171>>) \o <<172, 171>>
Embedded == PushOf(SigA) \o <<171>> \o PushOf(SigB) \o PushOf(SigB)
            \o <<OP_PUSHDATA1, 9>> \o SigA                  \* non-minimal push of SigA: not the pattern
            \o PushOf(<<0>> \o PushOf(SigA))                \* the pattern inside push data: not an instruction
            \o <<172>> \o PushOf(SigA)
Scen(script, begin, sigs) == [script |-> script, begin |-> begin, sigs |-> sigs]
Scenarios == <<
    Scen(P2PKH, 0, <<>>),                                   \* 1
    Scen(P2PKH, 0, <<SigB>>),                               \* 2 signature not in the script
    Scen(Seps, 0, <<>>),                                    \* 3 separators first, doubled, in data, last
    Scen(Seps, 1, <<SigA>>),                                \* 4 the same after the first separator
    Scen(Embedded, 0, <<SigA, SigB>>),                      \* 5 two signatures (CHECKMULTISIG) embedded
    Scen(Embedded, Len(PushOf(SigA)) + 1, <<SigB>>),        \* 6
    Scen(<<>>, 0, <<SigA>>),                                \* 7 empty script code
    Scen(PushOf(SigC) \o PushOf(Sig75) \o <<172>>, 0, <<SigC, Sig75>>),   \* 8 PUSHDATA1 boundary 75 / 76
    Scen(PushOf(Rep(171, 249)) \o <<172>>, 0, <<>>),        \* 9 script code of 252 bytes
    Scen(PushOf(Rep(171, 250)) \o <<172>>, 0, <<>>),        \* 10 ... of 253: compact size 0xfd
    Scen(PushOf(Rep(5, 250)) \o <<171>> \o PushOf(SigA), 0, <<SigA>>),  \* 11 253 before, 242 after rewriting
    \* 12 blobs too short to be signatures, still removed by the interpreter: the patterns are
    \* 01 05, 00 (empty blob), 01 81 - never the number opcodes OP_5 (85) / OP_1NEGATE (79)
    Scen(<<85, 1, 5, 0, 79, 1, 129, 85, 172>>, 0, << <<5>>, <<>>, <<129>> >>)
>>
ASSUME \A k \in 1..Len(Scenarios) : WellFormed(Scenarios[k].script)
ASSUME Len(Scenarios[9].script) = 252 /\ Len(Scenarios[10].script) = 253

VARIABLES phase, coin, sv, n, m, i, sc, a, ht
vars == <<phase, coin, sv, n, m, i, sc, a, ht>>

Init == phase = "start" /\ coin = "" /\ sv = "" /\ n = 0 /\ m = 0 /\ i = 0 /\ sc = 0 /\ a = 0 /\ ht = 0
EmitTab == /\ phase = "start" /\ phase' = "tab"
           /\ UNCHANGED <<coin, sv, n, m, i, sc, a, ht>>
           /\ PrintT(ToJson([k |-> "tab", ver |-> Ver, lock |-> Lock, ins |-> InTab, outs |-> OutTab,
                             amounts |-> Amounts, scenarios |-> Scenarios]))
Pick == /\ phase = "tab" /\ phase' = "group"
        /\ coin' \in CoinSet /\ sv' \in SigVersionsOf(coin')
        /\ n' \in 1..MaxIn /\ m' \in 0..MaxOut /\ i' \in 1..n'
        /\ sc' \in ScenarioIds
        /\ UNCHANGED <<a, ht>>
\* a = 0: the rule does not read the amount (legacy); the harness then tries every amount
Case == /\ phase = "group" /\ phase' = "case"
        /\ a' \in (IF Algo(coin, sv) = "legacy" THEN {0} ELSE 1..Len(Amounts))
        /\ ht' \in 0..255
        /\ UNCHANGED <<coin, sv, n, m, i, sc>>
        /\ LET S == Scenarios[sc]
               d == Digest(coin, sv, TxOf(n, m), i, S.script, S.begin, S.sigs,
                           Amounts[IF a' = 0 THEN 1 ELSE a'], ht')
               dev == Deviations(coin, sv, TxOf(n, m), i, S.script, S.begin, S.sigs,
                                 Amounts[IF a' = 0 THEN 1 ELSE a'], ht')
           IN PrintT(ToJson([k |-> "case", coin |-> coin, sv |-> sv, n |-> n, m |-> m, i |-> i,
                             sc |-> sc, a |-> a', ht |-> ht', d |-> d, dev |-> dev]))
Next == EmitTab \/ Pick \/ Case
Spec == Init /\ [][Next]_vars
=============================================================================
