CONSTANTS Values = {0}  Wants = {"prv", "pub", "dflt"}  PathSet = "small"  MaxOps = 4  SeedLen = 16  KeyMode = "full"  TwoRoots = FALSE
SPECIFICATION Spec
VIEW View
INVARIANTS CacheTransparent ResultIsPure CompactSound MemoSound PublicStaysPublic ResOk
CHECK_DEADLOCK FALSE
