CONSTANTS MaxOps = 0
          Threads <- MCThreads3  Nets <- MCNets  Descr <- MCDescr  KindInfo <- MCKindInfo  Words <- MCWords
          EnvStrings <- MCEnvStrings  DirLists <- MCDirLists  CacheVals <- MCCacheVals  Lists <- MCLists
SPECIFICATION TSpec
CHECK_DEADLOCK FALSE
