CONSTANTS Mode = "b58c"  MaxLen = 0  MaxText = 0  LongZ = 0  LongN = 0  NPay = 187  Rich = TRUE  NPat = 2  NRnd = 0
SPECIFICATION Spec
INVARIANTS Guarantee ValidBasesDecode
CHECK_DEADLOCK FALSE
