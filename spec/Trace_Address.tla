---------------------------- MODULE Trace_Address ----------------------------
(* Code -> spec binding for C08: recorded sessions of pycoin's address layer  *)
(* are checked against Address.tla over the real prefix table.  A session is  *)
(* one text pushed through several networks (one parseable_str object, whose  *)
(* cache must be transparent) preceded by the encoder call that produced it.  *)
(* Events:                                                                    *)
(*   a = "enc": network n produced, for kind and hash h, the text whose       *)
(*              structure is s  (the structure is computed by the harness's   *)
(*              independent Base58Check / Bech32 decoders)                    *)
(*   a = "dec": network n read the text with structure s and answered         *)
(*              rk = "none" or rk = kind with hash rh                         *)
(* A text logged with e = "segx" is a valid Bech32 / Bech32m text with a      *)
(* version symbol whose further 5-bit symbols (field d) are logged as they    *)
(* are; Norm decides with Bech32!To8 (BIP173's regrouping rule) whether it    *)
(* has a program - then it is the Seg text of that program - or none.         *)
EXTENDS Address, Json, TLCExt
B == INSTANCE Bech32

Traces == JsonDeserialize(IOEnv.TRACE_FILE)
Nets == RealNets
NetOf(sym) == Nets[CHOOSE i \in DOMAIN Nets : Nets[i].sym = sym]

VARIABLES tid, l
tvars == <<tid, l>>
Ev == Traces[tid].ev

EncOk(e) == /\ e.kind \in AddrKindSet /\ Defined(NetOf(e.n), e.kind) /\ Len(e.h) = HashLen(e.kind)
            /\ AddrOf(NetOf(e.n), e.kind, e.h) = e.s
Norm(s) == IF s.e # "segx" THEN s
           ELSE LET cv == B!To8(s.d) IN IF cv.ok THEN Seg(s.hrp, s.ver, cv.bytes, s.var) ELSE s
DecOk(e) == LET D == IF e.s.e = "other" THEN NoAddr ELSE Decode(NetOf(e.n), Norm(e.s)) IN
            IF D.ok THEN e.ok /\ e.rk = D.kind /\ e.rh = D.h
            ELSE ~e.ok /\ e.rk = "none"
EventOk(e) == IF e.a = "enc" THEN EncOk(e) ELSE DecOk(e)

TInit == /\ TLCSet(1, [i \in 1..Len(Traces) |-> 1])
         /\ tid \in 1..Len(Traces) /\ l = 1
TNext == /\ l <= Len(Ev) /\ EventOk(Ev[l])
         /\ l' = l + 1 /\ UNCHANGED tid
TSpec == TInit /\ [][TNext]_tvars

\* register 1: per trace, the index of the first event that has not been matched yet
Reached == TLCSet(1, [TLCGet(1) EXCEPT ![tid] = IF l > @ THEN l ELSE @])
Post == LET hw == TLCGet(1)
            bad == {i \in 1..Len(Traces) : hw[i] <= Len(Traces[i].ev)} IN
        PrintT(ToJson([k |-> "rejected", n |-> Len(Traces), at |-> {<<i, hw[i]>> : i \in bad}]))
=============================================================================
