------------------------------ MODULE ScriptNum ------------------------------
(* Script integers (Bitcoin Core, script.h, class CScriptNum; DESIGN.md        *)
(* Appendix A "Numeric operands").                                            *)
(*                                                                            *)
(* A script integer travels on the stack as a byte string: little-endian      *)
(* magnitude, the most significant bit of the LAST byte is the sign, and the  *)
(* encoding produced by the interpreter is the shortest one:                  *)
(*    0 -> <<>>,  1 -> <<1>>,  127 -> <<127>>,  128 -> <<128, 0>>,            *)
(*   -1 -> <<129>>, -127 -> <<255>>, -128 -> <<128, 128>>, 255 -> <<255, 0>>. *)
(* Decoding accepts every byte string (<<128>> and <<0, 128>> are "negative   *)
(* zero" = 0, <<1, 0>> = 1); with MINIMALDATA only the shortest form of each  *)
(* value is accepted (Core: "non-minimally encoded script number").           *)
(*                                                                            *)
(* TLC integers are 32 bit, the property speaks about |v| < 2^71.  A value is *)
(* therefore the record [neg, mag]: sign and magnitude, the magnitude a       *)
(* little-endian byte sequence WITHOUT trailing zero bytes (so every integer  *)
(* has exactly one representation; zero is [FALSE, <<>>]).  FromInt/ToInt     *)
(* connect this to TLC's own integers where those suffice, and EncodeArith    *)
(* states the encoding a second time, arithmetically, for that range.         *)
(*                                                                            *)
(* This module is imported by ScriptPush/Disasm (C12) and is meant to be      *)
(* imported by the VM spec (C03).  It has no variables.                       *)
EXTENDS Naturals, Integers, Sequences

Byte == 0..255
IsBytes(b) == \A i \in 1..Len(b) : b[i] \in Byte

Zero == [neg |-> FALSE, mag |-> <<>>]

\* the canonical representation of an integer inside this spec
IsNum(v) == /\ v.neg \in BOOLEAN
            /\ IsBytes(v.mag)
            /\ (v.mag # <<>> => v.mag[Len(v.mag)] # 0)
            /\ (v.mag = <<>> => ~v.neg)

RECURSIVE StripZeros(_)
StripZeros(m) == IF m # <<>> /\ m[Len(m)] = 0 THEN StripZeros(SubSeq(m, 1, Len(m) - 1)) ELSE m

Neg(v) == IF v.mag = <<>> THEN v ELSE [v EXCEPT !.neg = ~v.neg]

(***************************************************************************)
(* CScriptNum::serialize.  The magnitude bytes; if the top byte already    *)
(* uses bit 7 one more byte carries the sign, otherwise the sign goes into *)
(* bit 7 of the top byte.                                                  *)
(***************************************************************************)
Encode(v) ==
  IF v.mag = <<>> THEN <<>>
  ELSE LET n   == Len(v.mag)
           top == v.mag[n]
           sgn == IF v.neg THEN 128 ELSE 0
       IN IF top >= 128 THEN Append(v.mag, sgn)
                        ELSE [v.mag EXCEPT ![n] = top + sgn]

(***************************************************************************)
(* CScriptNum::set_vch.  Every byte string denotes an integer: clear the   *)
(* sign bit, read the rest as a little-endian magnitude.  -0 is 0.         *)
(***************************************************************************)
Decode(b) ==
  IF b = <<>> THEN Zero
  ELSE LET n == Len(b)
           m == StripZeros([b EXCEPT ![n] = b[n] % 128])
       IN [neg |-> (b[n] >= 128) /\ m # <<>>, mag |-> m]

(***************************************************************************)
(* The MINIMALDATA test of CScriptNum's constructor, as Core writes it:    *)
(* "if the most-significant-byte - excluding the sign bit - is zero then   *)
(* we're not minimal.  One exception: if there's more than one byte and    *)
(* the most significant bit of the second-most-significant-byte is set it  *)
(* would conflict with the sign bit."                                      *)
(***************************************************************************)
Minimal(b) ==
  \/ b = <<>>
  \/ LET n == Len(b) IN \/ b[n] % 128 # 0
                        \/ n > 1 /\ b[n - 1] >= 128

\* what a decoder that is asked for minimality must do with b
DecodeStrict(b) == IF Minimal(b) THEN [ok |-> TRUE, v |-> Decode(b)] ELSE [ok |-> FALSE, v |-> Zero]

(***************************************************************************)
(* Lemmas (checked by TLC over the domains of MC_ScriptNum).               *)
(***************************************************************************)
\* every integer survives the round trip, and its encoding is a minimal form
LemmaRoundTrip(v) == IsNum(v) => /\ Decode(Encode(v)) = v
                                 /\ Minimal(Encode(v))
                                 /\ IsBytes(Encode(v))
\* decoding is total and lands on canonical values
LemmaDecodeTotal(b) == IsNum(Decode(b))
\* the strict decoder accepts exactly the encodings the encoder produces
LemmaMinimalIff(b) == Minimal(b) <=> Encode(Decode(b)) = b
\* two minimal forms of the same integer are the same byte string
LemmaUnique(b1, b2) == (Minimal(b1) /\ Minimal(b2) /\ Decode(b1) = Decode(b2)) => b1 = b2
\* a non-minimal form is strictly longer than the minimal form of its value
LemmaShorter(b) == ~Minimal(b) => Len(Encode(Decode(b))) < Len(b)
\* size law: k bytes hold exactly the magnitudes below 2^(8k-1)
LemmaSize(v) == IsNum(v) /\ v.mag # <<>> =>
                  Len(Encode(v)) = Len(v.mag) + (IF v.mag[Len(v.mag)] >= 128 THEN 1 ELSE 0)
\* negation flips exactly the sign bit of the last byte
LemmaNeg(v) == IsNum(v) /\ v.mag # <<>> =>
                  LET e == Encode(v)  f == Encode(Neg(v))  n == Len(e)
                  IN /\ Len(f) = n
                     /\ \A i \in 1..(n - 1) : f[i] = e[i]
                     /\ (f[n] - e[n] = 128 \/ e[n] - f[n] = 128)

(***************************************************************************)
(* Bridge to TLC integers, for |n| < 2^31.                                 *)
(***************************************************************************)
RECURSIVE MagOf(_)
MagOf(a) == IF a = 0 THEN <<>> ELSE <<a % 256>> \o MagOf(a \div 256)
Abs(n) == IF n < 0 THEN -n ELSE n
FromInt(n) == [neg |-> n < 0, mag |-> MagOf(Abs(n))]

RECURSIVE ValOf(_)
ValOf(m) == IF m = <<>> THEN 0 ELSE m[1] + 256 * ValOf(Tail(m))
Fits31(v) == Len(v.mag) <= 3 \/ (Len(v.mag) = 4 /\ v.mag[4] < 128)
ToInt(v) == IF v.neg THEN -ValOf(v.mag) ELSE ValOf(v.mag)

(***************************************************************************)
(* The same encoding said arithmetically (for |n| < 2^23): the width k is  *)
(* the least number of bytes with |n| < 2^(8k-1); the k bytes are the      *)
(* little-endian digits of |n|, plus 2^(8k-1) when n is negative.          *)
(***************************************************************************)
NumHalf(k) == CASE k = 0 -> 1 [] k = 1 -> 128 [] k = 2 -> 32768 [] k = 3 -> 8388608
NumWidth(a) == CHOOSE k \in 0..3 : a < NumHalf(k) /\ (k = 0 \/ a >= NumHalf(k - 1))
NumPow256(i) == CASE i = 0 -> 1 [] i = 1 -> 256 [] i = 2 -> 65536 [] i = 3 -> 16777216
EncodeArith(n) ==
  LET a == Abs(n)
      k == NumWidth(a)
      w == a + (IF n < 0 THEN NumHalf(k) ELSE 0)
  IN [i \in 1..k |-> (w \div NumPow256(i - 1)) % 256]
LemmaArith(n) == /\ Encode(FromInt(n)) = EncodeArith(n)
                 /\ ToInt(Decode(EncodeArith(n))) = n
                 /\ ToInt(FromInt(n)) = n

(***************************************************************************)
(* Wide test values as byte sequences: 2^k - 1, 2^k, 2^k + 1.              *)
(***************************************************************************)
Pow2Small(j) == CASE j = 0 -> 1 [] j = 1 -> 2 [] j = 2 -> 4 [] j = 3 -> 8
                  [] j = 4 -> 16 [] j = 5 -> 32 [] j = 6 -> 64 [] j = 7 -> 128
Rep(x, n) == [i \in 1..n |-> x]
MagPow2(k)   == Append(Rep(0, k \div 8), Pow2Small(k % 8))                           \* 2^k
MagPow2m1(k) == StripZeros(Append(Rep(255, k \div 8), Pow2Small(k % 8) - 1))         \* 2^k - 1
MagPow2p1(k) == IF k = 0 THEN <<2>>                                                  \* 2^k + 1
                ELSE IF k < 8 THEN <<Pow2Small(k) + 1>>
                ELSE [MagPow2(k) EXCEPT ![1] = 1]
=============================================================================
