CONSTANTS MaxIn = 2  MaxOut = 2
          CoinSet = {"BTC", "BCH", "BTG", "GRS"}
          ScenarioIds = {1, 3, 4, 5, 8, 12}
SPECIFICATION Spec
CHECK_DEADLOCK FALSE
