CONSTANTS MaxIn = 2  MaxOut = 2
          CoinSet = {"BTC", "BCH", "BTG", "GRS"}
          ScenarioIds = {1, 3, 4, 5, 8, 12, 13, 14}  FewHtIds = {13, 14}
SPECIFICATION Spec
CHECK_DEADLOCK FALSE
