CONSTANTS Tier = "t"  Emit = TRUE
SPECIFICATION Spec
INVARIANT TypeOK NoFail Progress RoundTrip Bip144Iff IdLemma
CHECK_DEADLOCK FALSE
