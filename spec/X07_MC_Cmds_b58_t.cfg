CONSTANTS Cmd = "b58"  Tier = "t"  U = "t"
SPECIFICATION Spec
INVARIANTS Lemmas LemmasDone
CHECK_DEADLOCK FALSE
