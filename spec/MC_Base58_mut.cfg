CONSTANTS MaxLen = 3  MaxText = 3  LongZ = 2  LongN = 2  Mut = "zeros"
SPECIFICATION Spec
INVARIANTS RoundTripBytes ZeroCount LengthBound Arithmetic RoundTripText CheckRoundTrip
CHECK_DEADLOCK FALSE
