-------------------------- MODULE MC_ECScalarClasses --------------------------
(* Scalar classes for the register machine of ECRegs.tla, enumerated (not      *)
(* sampled).  Rule (EC.tla, TableWidthRule): k*G is defined for every integer  *)
(* k independent of the bit width of N, so a multiplier may be wider than any  *)
(* fixed-size table or word an implementation happens to use.                  *)
(* The harness concretizes the symbols as b1 = 2^256 and b2 = 2^300 here, on   *)
(* every production curve and on user-constructed curves with orders wider     *)
(* than 256 bits (secp384r1, secp521r1).  The classes are then                 *)
(*   2^256-1, 2^256, 2^256+1, 2^257, 2^300-3, 2^300, 2^300+1, 2^256+2^300,     *)
(*   2^512, -2^256, 2^256-2^300 (negative), and N-1, N, N+1, 2N-1, -N-1, -2.   *)
(* Each behaviour: choose the generator's blinding factor (0 or 2^256), load   *)
(* P = 5*G, then ONE multiplication by a class scalar through each entry       *)
(* point: the general ladder on the point G, the fixed-base table without and  *)
(* with blinding, and the general ladder on P (P*k / k*P).                     *)
EXTENDS ECRegs

ClassForms == {PSub(PB1, PConst(1)), PB1, PAdd(PB1, PConst(1)), PAdd(PB1, PB1),
               PSub(PB2, PConst(3)), PB2, PAdd(PB2, PConst(1)), PAdd(PB1, PB2),
               PMul(PB1, PB1), PNeg(PB1), PSub(PB1, PB2)}
ScalarClasses == {<<0, f>> : f \in ClassForms}
                 \cup {<<1, PConst(0 - 1)>>, <<1, PZero>>, <<1, PConst(1)>>, <<2, PConst(0 - 1)>>,
                       <<0 - 1, PConst(0 - 1)>>, <<0, PConst(0 - 2)>>}
Blinds == {PZero, PB1}

CNext == \/ Len(hist) = 0 /\ \E bf \in Blinds : SetBlind(bf)
         \/ Len(hist) = 1 /\ Load(1, 0, PConst(5))
         \/ Len(hist) = 2 /\ \E c \in ScalarClasses :
               \/ Load(2, c[1], c[2]) \/ GenMulRaw(2, c[1], c[2]) \/ GenMulBlinded(2, c[1], c[2])
               \/ MulR(1, 2, c[1], c[2])
CSpec == Init /\ [][CNext]_vars
=============================================================================
