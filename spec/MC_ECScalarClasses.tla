-------------------------- MODULE MC_ECScalarClasses --------------------------
(* Scalar classes for the register machine of ECRegs.tla, enumerated (not      *)
(* sampled).  Rule (EC.tla, TableWidthRule): k*P is defined for every integer  *)
(* k independent of the bit width of N, so a multiplier may be wider than -    *)
(* or sit exactly on the edge of - any fixed-size table or machine word an     *)
(* implementation happens to use.  Two families of classes:                    *)
(*                                                                             *)
(* Family = "wide": the harness concretizes the symbols as b1 = 2^256 and      *)
(*   b2 = 2^300, on every production curve and on user-constructed curves with *)
(*   orders wider than 256 bits (secp384r1, secp521r1).  The classes are then  *)
(*   2^256-1, 2^256, 2^256+1, 2^257, 2^300-3, 2^300, 2^300+1, 2^256+2^300,     *)
(*   2^512, -2^256, 2^256-2^300 (negative), and N-1, N, N+1, 2N-1, -N-1, -2.   *)
(* Family = "word": b1 = 2^32, b2 = 2^63 on every production backend.  The     *)
(*   classes are the edges of 32- and 64-bit signed and unsigned words         *)
(*   2^32-1, 2^32, 2^32+1, 2^63-1, 2^63, 2^63+1, 2^64-1, 2^64 (written both    *)
(*   b1*b1 and b2+b2), 2^64+1, 2^64-2^32 (so that scalar + blinding factor b1  *)
(*   is 2^64), 2^95, 2^126, each also shifted by -N and +N (negative resp.     *)
(*   k >= N scalars whose reduction sits on the edge).                         *)
(*                                                                             *)
(* Each behaviour: choose the generator's blinding factor (0 or b1), load      *)
(* P = 5*G, then ONE multiplication by a class scalar through each entry       *)
(* point: the general ladder on the point G, the fixed-base table without and  *)
(* with blinding, the general ladder on P (P*k / k*P) and the key-agreement    *)
(* entry point on P's coordinates.                                             *)
EXTENDS ECRegs

CONSTANT Family

WideForms == {PSub(PB1, PConst(1)), PB1, PAdd(PB1, PConst(1)), PAdd(PB1, PB1),
              PSub(PB2, PConst(3)), PB2, PAdd(PB2, PConst(1)), PAdd(PB1, PB2),
              PMul(PB1, PB1), PNeg(PB1), PSub(PB1, PB2)}
WideClasses == {<<0, f>> : f \in WideForms}
               \cup {<<1, PConst(0 - 1)>>, <<1, PZero>>, <<1, PConst(1)>>, <<2, PConst(0 - 1)>>,
                     <<0 - 1, PConst(0 - 1)>>, <<0, PConst(0 - 2)>>}

PSq1 == PMul(PB1, PB1)
WordForms == {PSub(PB1, PConst(1)), PB1, PAdd(PB1, PConst(1)),
              PSub(PB2, PConst(1)), PB2, PAdd(PB2, PConst(1)),
              PSub(PSq1, PConst(1)), PSq1, PAdd(PSq1, PConst(1)), PAdd(PB2, PB2),
              PSub(PSq1, PB1), PMul(PB1, PB2), PMul(PB2, PB2)}
WordClasses == {<<m, f>> : m \in {0 - 1, 0, 1}, f \in WordForms}

ScalarClasses == IF Family = "word" THEN WordClasses ELSE WideClasses
Blinds == {PZero, PB1}

CNext == \/ Len(hist) = 0 /\ \E bf \in Blinds : SetBlind(bf)
         \/ Len(hist) = 1 /\ Load(1, 0, PConst(5))
         \/ Len(hist) = 2 /\ \E c \in ScalarClasses :
               \/ GenMulBlinded(2, c[1], c[2])
               \/ blind = PZero /\ (\/ Load(2, c[1], c[2]) \/ GenMulRaw(2, c[1], c[2])         \* these do not involve the blinding factor
                                    \/ MulR(1, 2, c[1], c[2]) \/ SharedKey(1, 2, c[1], c[2]))
CSpec == Init /\ [][CNext]_vars
=============================================================================
