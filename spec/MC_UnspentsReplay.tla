-------------------------- MODULE MC_UnspentsReplay --------------------------
(* Spec -> code binding for the authentication clause of C13.  A fixed world *)
(* of source transactions (Truth) is spent by every sequence of up to NIn    *)
(* distinct outpoints; the honest transaction/database pair is then altered  *)
(* by every combination of up to MaxMut single discrepancies, each at one    *)
(* input:                                                                    *)
(*   amount   the recorded amount is another one        (2 other values)     *)
(*   script   the recorded script is another one                             *)
(*   missing  the database does not know the source                          *)
(*   wrongtx  the database answers with a different transaction (other id)   *)
(*            whose outputs are exactly what the spender recorded            *)
(*   index    the outpoint names output n or n + 1 of a source with n outputs*)
(* TLC runs the Unspents machine (inputs in order; MC_Unspents shows the     *)
(* order is irrelevant) and prints the pair with the verdict: "raise", or    *)
(* "ret" and the fee to be returned.  The harness builds the real source     *)
(* transactions, spendables, transaction and database and calls              *)
(* validate_unspents.                                                        *)
EXTENDS Unspents, Json

CONSTANTS NIn, MaxMut

O(a, s) == [amt |-> a, scr |-> s]
Truth == << << O(5, 1), O(5, 2), O(7, 1) >>,
            << O(5, 1) >>,
            << O(3, 2), O(7, 2) >> >>
Srcs == 1..Len(Truth)
OtherId == 9               \* id of the transaction a lying database returns
Outpoints == {[src |-> s, idx |-> k] : s \in Srcs, k \in 0..2}
RealOutpoints == {p \in Outpoints : p.idx < Len(Truth[p.src])}
InSeqs == {q \in UNION {[1..n -> RealOutpoints] : n \in 1..NIn} :
             \A i, j \in 1..Len(q) : i # j => q[i] # q[j]}

AmtVals == {3, 5, 7}
Kinds == {"amount", "script", "missing", "wrongtx", "index"}
\* a mutation: kind, input it strikes, variant (which other amount / how far past the end)
Muts(n) == {[kind |-> kd, at |-> j, v |-> v] : kd \in Kinds, j \in 1..n, v \in 1..2}
Relevant(m) == m.v = 1 \/ m.kind \in {"amount", "index"}

HonestTx(q) ==
  [ins      |-> q,
   unspents |-> [i \in 1..Len(q) |-> Truth[q[i].src][q[i].idx + 1]],
   outs     |-> << [to |-> 1, amt |-> 2] >>]
HonestDb == [s \in Srcs |-> Stored(s, Truth[s])]

OtherAmt(a, v) == LET o == AmtVals \ {a} IN IF v = 1 THEN CHOOSE x \in o : \A y \in o : x <= y
                                                      ELSE CHOOSE x \in o : \A y \in o : x >= y
ApplyTx(t, m) ==
  CASE m.kind = "amount" -> [t EXCEPT !.unspents[m.at].amt = OtherAmt(@, m.v)]
    [] m.kind = "script" -> [t EXCEPT !.unspents[m.at].scr = 3 - @]
    [] m.kind = "index"  -> [t EXCEPT !.ins[m.at].idx = Len(Truth[t.ins[m.at].src]) + m.v - 1]
    [] OTHER -> t
ApplyDb(d, t, m) ==
  CASE m.kind = "missing" -> [d EXCEPT ![t.ins[m.at].src] = Missing]
    [] m.kind = "wrongtx" -> [d EXCEPT ![t.ins[m.at].src] = Stored(OtherId, Truth[t.ins[m.at].src])]
    [] OTHER -> d

RECURSIVE ApplyAllTx(_, _), ApplyAllDb(_, _, _)
ApplyAllTx(t, ms) == IF ms = << >> THEN t ELSE ApplyAllTx(ApplyTx(t, Head(ms)), Tail(ms))
ApplyAllDb(d, t, ms) == IF ms = << >> THEN d ELSE ApplyAllDb(ApplyDb(d, t, Head(ms)), t, Tail(ms))

\* mutation lists: none, one, or two (at different inputs, or of different kinds at one input)
KindNo(kd) == CASE kd = "amount" -> 1 [] kd = "script" -> 2 [] kd = "index" -> 3 [] kd = "missing" -> 4 [] kd = "wrongtx" -> 5
Rel(n)  == {x \in Muts(n) : Relevant(x)}
Rel1(n) == {x \in Rel(n) : x.v = 1}
PairOK(a, b) == \/ a.at < b.at
                \/ /\ a.at = b.at /\ KindNo(a.kind) < KindNo(b.kind)
                   /\ {a.kind, b.kind} # {"missing", "wrongtx"}
MutSeqs(n) == {<< >>} \cup {<< m >> : m \in Rel(n)}
              \cup (IF MaxMut < 2 THEN {} ELSE {p \in {<< a, b >> : a \in Rel1(n), b \in Rel1(n)} : PairOK(p[1], p[2])})

VARIABLES muts
rvars == <<uvars, muts>>

RInit == \E q \in InSeqs : \E ms \in MutSeqs(Len(q)) :
           /\ muts = ms
           /\ LET t0 == ApplyAllTx(HonestTx(q), ms) IN
              \* database lies are made of the honest transaction's outpoints (before index mutations)
              UStart(t0, ApplyAllDb(HonestDb, HonestTx(q), ms))

RECURSIVE SumAmt(_)
SumAmt(s) == IF s = << >> THEN 0 ELSE Head(s).amt + SumAmt(Tail(s))

Emit == PrintT(ToJson(
  [k    |-> "validate",
   ins  |-> [i \in 1..Len(tx.ins) |-> << tx.ins[i].src, tx.ins[i].idx >>],
   unsp |-> [i \in 1..Len(tx.unspents) |-> << tx.unspents[i].amt, tx.unspents[i].scr >>],
   outs |-> [i \in 1..Len(tx.outs) |-> << tx.outs[i].to, tx.outs[i].amt >>],
   db   |-> [s \in Srcs |-> [st |-> db[s].st, id |-> db[s].id,
                             outs |-> [i \in 1..Len(db[s].outs) |-> << db[s].outs[i].amt, db[s].outs[i].scr >>]]],
   truth |-> [s \in Srcs |-> [i \in 1..Len(Truth[s]) |-> << Truth[s][i].amt, Truth[s][i].scr >>]],
   muts |-> [i \in 1..Len(muts) |-> << muts[i].kind, muts[i].at, muts[i].v >>],
   status |-> status', why |-> why',
   fee  |-> SumAmt(tx.unspents) - SumAmt(tx.outs)]))

RExamine == /\ todo # {} /\ Examine(CHOOSE i \in todo : \A j \in todo : i <= j)
            /\ UNCHANGED muts /\ (status' = "raise" => Emit)
RReturn  == Return /\ UNCHANGED muts /\ Emit
RNext == RExamine \/ RReturn
RSpec == RInit /\ [][RNext]_rvars

RRetIffBacked == RetIffBacked
=============================================================================
