------------------------------- MODULE MC_Limbs -------------------------------
(* Lemmas of Limbs.tla.  One state per pair (a, b) of normal-form numbers    *)
(* drawn from LimbVals with at most MaxLen limbs; the machine walks through  *)
(* the pairs so that the work is shared by TLC's workers.                    *)
EXTENDS Limbs, FiniteSets, TLC

CONSTANTS LimbVals,   \* limb values to combine (all of 0..B-1 for small B; carry boundaries for 10^4)
          MaxLen

Nums == {s \in UNION {[1..n -> LimbVals] : n \in 0..MaxLen} : IsLimbs(s)}

VARIABLES a, b
Init == a \in Nums /\ b = << >>
Next == b = << >> /\ b' \in Nums \ {<< >>} /\ UNCHANGED a
Spec == Init /\ [][Next]_<<a, b>>

AddIsPlus   == Val(LAdd(a, b)) = Val(a) + Val(b)
AddNormal   == IsLimbs(LAdd(a, b))
AddComm     == LAdd(a, b) = LAdd(b, a)
CmpIsOrder  == LCmp(a, b) = (IF Val(a) < Val(b) THEN -1 ELSE IF Val(a) > Val(b) THEN 1 ELSE 0)
ValInjective == (Val(a) = Val(b)) = (a = b)
OfNatInverse == OfNat(Val(a)) = a /\ Val(OfNat(Val(b))) = Val(b)
=============================================================================
