------------------------------- MODULE DerSig -------------------------------
(* The ASN.1 DER encoding of an ECDSA signature                                *)
(*        Ecdsa-Sig-Value ::= SEQUENCE { r INTEGER, s INTEGER }                *)
(* written from X.690 (8.1.2 identifier, 8.1.3 length, 8.3 integer, 8.9        *)
(* sequence, 10.1 DER length rule) and SEC 1 C.8 - not from pycoin's code.     *)
(*                                                                             *)
(* A blob is a Seq(0..255).  The decoder is a parser STATE MACHINE: a state    *)
(* is a record [ph, i, lim, dev, r, s]; DerStep consumes one element           *)
(* (SEQUENCE header, first INTEGER, second INTEGER, end check) and DerRun      *)
(* iterates it to "done" or "fail".  The machine reads leniently (BER) and     *)
(* COLLECTS every deviation from DER it meets in `dev`, so one run classifies  *)
(* the blob:                                                                   *)
(*     ph = "fail"            not an encoding of two integers at all           *)
(*     ph = "done", dev = {}  THE strict DER encoding of (r, s)                *)
(*     ph = "done", dev # {}  readable, but not DER: trailing bytes (after the *)
(*                            sequence / after s inside it), non-minimal       *)
(*                            lengths, padded, empty or negative integers      *)
(* Integers are never TLC integers (they are 256 bits wide): a value is        *)
(* [neg |-> BOOLEAN, mag |-> the content octets]; lengths saturate at Huge.    *)
EXTENDS Integers, Sequences, FiniteSets, TLC

DByte == 0..255
Huge == 65536                 \* "longer than any blob considered"; keeps TLC below 2^31

TagSeq == 48                  \* 0x30  universal, constructed, SEQUENCE
TagInt == 2                   \* 0x02  universal, primitive, INTEGER

RECURSIVE BESat(_, _)         \* big-endian value of a byte string, saturating at Huge
BESat(s, acc) == IF s = <<>> THEN acc
                 ELSE LET v == acc * 256 + Head(s)
                      IN BESat(Tail(s), IF acc >= Huge \/ v >= Huge THEN Huge ELSE v)

(* ------------------------------------------------------------------ lengths *)
\* X.690 8.1.3: short form 0xxxxxxx; long form 1kkkkkkk followed by k octets, k in 1..126;
\* 0x80 is the indefinite form (constructed BER only, never DER); 0xFF is reserved.
\* DER (10.1): the definite form with the minimum number of octets.
ReadLen(b, i) ==
  IF i > Len(b) THEN [err |-> "trunc-len", val |-> 0, nxt |-> i, minimal |-> TRUE]
  ELSE LET o == b[i] IN
    IF o < 128 THEN [err |-> "", val |-> o, nxt |-> i + 1, minimal |-> TRUE]
    ELSE IF o = 128 THEN [err |-> "indefinite", val |-> 0, nxt |-> i, minimal |-> TRUE]
    ELSE IF o = 255 THEN [err |-> "reserved-len", val |-> 0, nxt |-> i, minimal |-> TRUE]
    ELSE LET k == o - 128 IN
      IF i + k > Len(b) THEN [err |-> "trunc-len", val |-> 0, nxt |-> i, minimal |-> TRUE]
      ELSE LET v == BESat(SubSeq(b, i + 1, i + k), 0)
           IN [err |-> "", val |-> v, nxt |-> i + k + 1, minimal |-> (b[i + 1] # 0 /\ v >= 128)]

(* ----------------------------------------------------------------- integers *)
\* X.690 8.3: one or more content octets, two's complement; if there are several, the
\* first nine bits are neither all 0 nor all 1.
IntDev(body) ==
     (IF body = <<>> THEN {"empty-int"} ELSE {})
  \cup (IF Len(body) >= 1 /\ body[1] >= 128 THEN {"negative"} ELSE {})
  \cup (IF Len(body) >= 2 /\ (  (body[1] = 0 /\ body[2] < 128)
                            \/ (body[1] = 255 /\ body[2] >= 128)) THEN {"padded-int"} ELSE {})
IntVal(body) == [neg |-> (Len(body) >= 1 /\ body[1] >= 128), mag |-> body]
NoInt == [neg |-> FALSE, mag |-> <<>>]

(* ------------------------------------------------------- the parser machine *)
Start(b) == [ph |-> "seq", i |-> 1, lim |-> Len(b) + 1, dev |-> {}, why |-> "", r |-> NoInt, s |-> NoInt]
Fail(st, why) == [st EXCEPT !.ph = "fail", !.why = why]

\* read the SEQUENCE header; lim becomes the index one past the sequence's contents
StepSeq(b, st) ==
  IF Len(b) = 0 THEN Fail(st, "empty")
  ELSE IF b[1] # TagSeq THEN Fail(st, "seq-tag")
  ELSE LET L == ReadLen(b, 2) IN
    IF L.err # "" THEN Fail(st, L.err)
    ELSE IF L.nxt + L.val > Len(b) + 1 THEN Fail(st, "trunc-seq")       \* contents run past the blob
    ELSE [st EXCEPT !.ph = "int1", !.i = L.nxt, !.lim = L.nxt + L.val,
                    !.dev = (IF L.minimal THEN {} ELSE {"long-len"})
                       \cup (IF L.nxt + L.val <= Len(b) THEN {"outer-trailing"} ELSE {})]

\* read one INTEGER that must lie inside the sequence (indices < lim)
StepInt(b, st, which) ==
  IF st.i >= st.lim THEN Fail(st, "missing-int")
  ELSE IF b[st.i] # TagInt THEN Fail(st, "int-tag")
  ELSE LET L == ReadLen(SubSeq(b, 1, st.lim - 1), st.i + 1) IN
    IF L.err # "" THEN Fail(st, L.err)
    ELSE IF L.nxt + L.val > st.lim THEN Fail(st, "trunc-int")           \* contents run past the sequence
    ELSE LET body == SubSeq(b, L.nxt, L.nxt + L.val - 1)
             d == st.dev \cup IntDev(body) \cup (IF L.minimal THEN {} ELSE {"long-len"})
         IN IF which = 1
            THEN [st EXCEPT !.ph = "int2", !.i = L.nxt + L.val, !.dev = d, !.r = IntVal(body)]
            ELSE [st EXCEPT !.ph = "tail", !.i = L.nxt + L.val, !.dev = d, !.s = IntVal(body)]

StepTail(b, st) == [st EXCEPT !.ph = "done",
                              !.dev = st.dev \cup (IF st.i < st.lim THEN {"inner-trailing"} ELSE {})]

DerStep(b, st) == CASE st.ph = "seq"  -> StepSeq(b, st)
                    [] st.ph = "int1" -> StepInt(b, st, 1)
                    [] st.ph = "int2" -> StepInt(b, st, 2)
                    [] st.ph = "tail" -> StepTail(b, st)
                    [] OTHER          -> st
Final(st) == st.ph \in {"done", "fail"}
RECURSIVE DerIter(_, _)
DerIter(b, st) == IF Final(st) THEN st ELSE DerIter(b, DerStep(b, st))
DerRun(b) == DerIter(b, Start(b))

Trailing == {"outer-trailing", "inner-trailing"}
Readable(run)    == run.ph = "done"
\* NOT an encoding of two integers under any reading of X.690, lenient (BER) or strict (DER): a tag is wrong, or a
\* length announces more octets than its container holds (the blob for the SEQUENCE: "trunc-seq"; the SEQUENCE for an
\* INTEGER: "trunc-int"), or an INTEGER is missing.  Whatever "well-formed" is taken to mean, such a blob is not.
Unreadable(run)  == run.ph = "fail"
StrictValid(run) == run.ph = "done" /\ run.dev = {}
HasTrailing(run) == run.ph = "done" /\ run.dev \cap Trailing # {}

(* ------------------------------------------------------------------ encoder *)
\* a non-negative integer is given by ANY big-endian magnitude (leading zeros allowed, <<>> = 0)
RECURSIVE StripZ(_)
StripZ(m) == IF m = <<>> THEN <<0>>
             ELSE IF m[1] = 0 /\ Len(m) > 1 THEN StripZ(Tail(m)) ELSE m
RECURSIVE MinBE(_)            \* minimal big-endian octets of n >= 1
MinBE(n) == IF n < 256 THEN <<n>> ELSE Append(MinBE(n \div 256), n % 256)
EncLen(n) == IF n < 128 THEN <<n>> ELSE LET o == MinBE(n) IN <<128 + Len(o)>> \o o
EncInt(m) == LET z == StripZ(m)
                 c == IF z[1] >= 128 THEN <<0>> \o z ELSE z        \* keep it positive
             IN <<TagInt>> \o EncLen(Len(c)) \o c
EncSig(r, s) == LET a == EncInt(r)  c == EncInt(s)
                IN <<TagSeq>> \o EncLen(Len(a) + Len(c)) \o a \o c
\* the non-negative value a readable integer denotes, as a minimal magnitude
MagOf(v) == StripZ(v.mag)

(* ------------------------------------------------------------------- lemmas *)
\* Decode(Encode(r, s)) = (r, s), strictly valid, nothing trailing
DecEnc(r, s) == LET run == DerRun(EncSig(r, s))
                IN StrictValid(run) /\ ~run.r.neg /\ ~run.s.neg
                   /\ MagOf(run.r) = StripZ(r) /\ MagOf(run.s) = StripZ(s)
\* Encode(Decode(b)) = b for every strictly valid b: the encoding is unique
EncDecR(b, run) == StrictValid(run) => EncSig(run.r.mag, run.s.mag) = b
EncDec(b) == EncDecR(b, DerRun(b))
\* bytes appended to a strict encoding are trailing bytes, inside or outside the sequence
OuterTrail(b, t) == b \o t
InnerTrail(r, s, t) == LET a == EncInt(r)  c == EncInt(s)
                       IN <<TagSeq>> \o EncLen(Len(a) + Len(c) + Len(t)) \o a \o c \o t
TrailLemma(r, s, t) == t # <<>> =>
     /\ LET run == DerRun(OuterTrail(EncSig(r, s), t))
        IN run.ph = "done" /\ run.dev = {"outer-trailing"} /\ MagOf(run.r) = StripZ(r) /\ MagOf(run.s) = StripZ(s)
     /\ LET run == DerRun(InnerTrail(r, s, t))
        IN run.ph = "done" /\ run.dev = {"inner-trailing"} /\ MagOf(run.r) = StripZ(r) /\ MagOf(run.s) = StripZ(s)
\* what follows the sequence does not change what is read from it
PrefixLemmaR(b, run) ==
     (run.ph = "done" /\ "outer-trailing" \in run.dev) =>
        LET run2 == DerRun(SubSeq(b, 1, run.lim - 1))
        IN run2.ph = "done" /\ run2.dev = run.dev \ {"outer-trailing"} /\ run2.r = run.r /\ run2.s = run.s
PrefixLemma(b) == PrefixLemmaR(b, DerRun(b))
=============================================================================
