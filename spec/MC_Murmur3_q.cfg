CONSTANTS Lens = {0, 1, 2, 3, 4, 5, 6, 7, 8, 9, 20, 36}  Fills = {"zero", "ones", "ramp", "mix"}
          SeedSet <- Seeds
INIT Init
NEXT Next
INVARIANTS SeedReduced ResultOK
CHECK_DEADLOCK FALSE
