--------------------------- MODULE X08_Trace_Solve ---------------------------
(* Code -> spec for X08: recorded calls of pycoin's tracer and solver.  Each   *)
(* event carries the script (tokens), the supply, the constraints pycoin's     *)
(* determine_constraints reported (rendered as terms of X08_Solve) and the     *)
(* outcome class of Tx.sign.  TLC recomputes the accepted stacks of the script *)
(* with ScriptVM and demands: every reported constraint holds on every         *)
(* accepted stack deep enough to carry the atoms it names (the constraints are *)
(* implied by the script), and the outcome is one X08_Solve!Outcomes allows.   *)
EXTENDS X08_Solve, Json, IOUtils

Traces == JsonDeserialize(IOEnv.TRACE_FILE)
VARIABLES tid, done
Pick1(S) == CHOOSE v \in S : TRUE
Sup(ev) == [keys |-> ToSet(ev.keys), pre |-> ev.pre]
\* first constraint (index) some accepted stack violates; 0 = none
BadConstraint(ev, acc) ==
  LET deepEnough == {a \in acc : Len(a[1]) > ev.maxatom}
      bad == {iK \in 1..Len(ev.cons) : \E a \in deepEnough : ~Sat(ev.cons[iK], AsgOf(a[1]))}
  IN IF bad = {} THEN 0 ELSE Min(bad)
Verdict3(ev, ps, n, acc) ==
  [k |-> "tv", tid |-> tid, deep |-> (\E iK \in 1..Len(ps) : ps[iK].na > MaxN) \/ ev.maxatom >= MaxN,
   nacc |-> Cardinality(acc), badc |-> BadConstraint(ev, acc),
   solv |-> Solvable(ev.toks, Sup(ev), acc), clean |-> SolvableClean(ev.toks, Sup(ev), acc),
   outcomeOk |-> ev.outcome \in Outcomes(ev.toks, Sup(ev), acc)]
Verdict2(ev, ps, n) == Pick1({Verdict3(ev, ps, n, acc) : acc \in {Accepted(ev.toks, ps, n)}})
Verdict(ev) == Pick1({Verdict2(ev, ps, Min({MaxN, Max({Depth(ps), ev.maxatom + 1})})) : ps \in {Paths(ev.toks)}})

TInit == tid \in 1..Len(Traces) /\ done = FALSE
TNext == /\ ~done /\ done' = TRUE /\ UNCHANGED tid
         /\ PrintT(ToJson(Verdict(Traces[tid])))
TSpec == TInit /\ [][TNext]_<<tid, done>>
ASSUME PrintT(ToJson([k |-> "hdr", n |-> Len(Traces)]))
=============================================================================
