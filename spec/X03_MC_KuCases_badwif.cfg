CONSTANTS Tier = "m"
  WifPayloadT <- BadWifPayloadT
SPECIFICATION Spec
INVARIANTS PipelineAgrees GridParses Tables Concrete Counts
CHECK_DEADLOCK FALSE
