CONSTANTS MaxSteps = 2  MaxInserts = 1  Mode = "replay"  Cases <- CasesQ
SPECIFICATION RSpec
CHECK_DEADLOCK FALSE
