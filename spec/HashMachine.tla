----------------------------- MODULE HashMachine -----------------------------
(* The hash primitives of C19 as a state machine that TLC executes:           *)
(*                                                                           *)
(*   ripemd160(m)     = RIPEMD-160(m)                                         *)
(*   hash160(m)       = RIPEMD-160(SHA-256(m))                                *)
(*   double_sha256(m) = SHA-256(SHA-256(m))                                   *)
(*   sha256(m)        = SHA-256(m)      (only to validate the spec itself)    *)
(*                                                                           *)
(* A pipeline is a sequence of stages.  Each stage pads its input in one      *)
(* step (Start / NextStage: message, 0x80, zeros, 64-bit bit length - little- *)
(* endian for RIPEMD-160, big-endian for SHA-256), then takes ONE TLC STEP    *)
(* PER ROUND (80 resp. 64 per 64-byte block), then one step per block for the *)
(* feed-forward.  The digest of a stage is the message of the next one.       *)
EXTENDS Ripemd160, Sha256

VARIABLES pipe,    \* name of the pipeline (constant along a behaviour)
          msg0,    \* the input message (constant along a behaviour)
          stages,  \* stages still to run after the current one
          alg,     \* "rmd160" | "sha256": the current stage
          pad,     \* padded message of the current stage
          blk,     \* index of the current 64-byte block, from 0
          j,       \* round within the block
          x,       \* message words of the block (SHA-256: sliding schedule window)
          reg,     \* working registers: RIPEMD-160 <<left line, right line>>, SHA-256 <<a..h>>
          h,       \* chaining value
          out      \* digest of the whole pipeline, <<>> while running
hvars == <<pipe, msg0, stages, alg, pad, blk, j, x, reg, h, out>>

Pipeline(p) == CASE p = "ripemd160"     -> << "rmd160" >>
                 [] p = "hash160"       -> << "sha256", "rmd160" >>
                 [] p = "double_sha256" -> << "sha256", "sha256" >>
                 [] p = "sha256"        -> << "sha256" >>
PipeNames == {"ripemd160", "hash160", "double_sha256", "sha256"}

(* ---- Merkle-Damgard strengthening ---------------------------------------------*)
\* number of zero bytes: the least k >= 0 with n + 1 + k + 8 a multiple of 64
PadZeros(n) == (64 - ((n + 9) % 64)) % 64
PadLen(n) == n + 1 + PadZeros(n) + 8
\* the 64-bit bit count 8n as 8 bytes, least significant first (n < 2^28)
BitLenLE(n) == LET bits == 8 * n
               IN  << bits % 256, (bits \div 256) % 256, (bits \div 65536) % 256, (bits \div 16777216) % 256, 0, 0, 0, 0 >>
Reverse8(s) == [i \in 1..8 |-> s[9 - i]]
Padded(a, m) ==
  LET n == Len(m)
      tail == IF a = "rmd160" THEN BitLenLE(n) ELSE Reverse8(BitLenLE(n))
  IN  m \o << 128 >> \o [i \in 1..PadZeros(n) |-> 0] \o tail

NRounds(a) == IF a = "rmd160" THEN 80 ELSE 64
IV(a) == IF a = "rmd160" THEN RmdIV ELSE ShaIV
InitReg(a, hh) == IF a = "rmd160" THEN << hh, hh >> ELSE hh
Block(p, b) == SubSeq(p, 64 * b + 1, 64 * b + 64)
BlockWords(a, p, b) == IF a = "rmd160" THEN RmdBlockWords(Block(p, b)) ELSE ShaBlockWords(Block(p, b))
Digest(a, hh) == IF a = "rmd160" THEN RmdDigest(hh) ELSE ShaDigest(hh)
Feed(a, hh, rg) == IF a = "rmd160" THEN RmdCombine(hh, rg[1], rg[2]) ELSE ShaCombine(hh, rg)

(* ---- the machine ------------------------------------------------------------------*)
StageStart(a, m) == /\ alg = a /\ pad = Padded(a, m) /\ blk = 0 /\ j = 0
                    /\ h = IV(a) /\ reg = InitReg(a, IV(a))
                    /\ x = BlockWords(a, Padded(a, m), 0)
Start(p, m) == /\ pipe = p /\ msg0 = m /\ out = << >>
               /\ stages = Tail(Pipeline(p))
               /\ StageStart(Head(Pipeline(p)), m)

RmdRound == /\ out = << >> /\ alg = "rmd160" /\ j < 80
            /\ reg' = << RmdStepL(reg[1], x, j), RmdStepR(reg[2], x, j) >>
            /\ j' = j + 1
            /\ UNCHANGED <<pipe, msg0, stages, alg, pad, blk, x, h, out>>

ShaRound == /\ out = << >> /\ alg = "sha256" /\ j < 64
            /\ reg' = ShaStep(reg, ShaWt(x, j), j)
            /\ x' = ShaWin(x, j)
            /\ j' = j + 1
            /\ UNCHANGED <<pipe, msg0, stages, alg, pad, blk, h, out>>

BlockDone == out = << >> /\ j = NRounds(alg)
LastBlock == 64 * (blk + 1) = Len(pad)

NextBlock == /\ BlockDone /\ ~LastBlock
             /\ h' = Feed(alg, h, reg)
             /\ reg' = InitReg(alg, h')
             /\ blk' = blk + 1 /\ j' = 0
             /\ x' = BlockWords(alg, pad, blk + 1)
             /\ UNCHANGED <<pipe, msg0, stages, alg, pad, out>>

NextStage == /\ BlockDone /\ LastBlock /\ stages # << >>
             /\ LET a == Head(stages)
                    m == Digest(alg, Feed(alg, h, reg))
                IN  /\ alg' = a /\ pad' = Padded(a, m) /\ blk' = 0 /\ j' = 0
                    /\ h' = IV(a) /\ reg' = InitReg(a, IV(a))
                    /\ x' = BlockWords(a, Padded(a, m), 0)
             /\ stages' = Tail(stages)
             /\ UNCHANGED <<pipe, msg0, out>>

Finish == /\ BlockDone /\ LastBlock /\ stages = << >>
          /\ h' = Feed(alg, h, reg)
          /\ out' = Digest(alg, h')
          /\ UNCHANGED <<pipe, msg0, stages, alg, pad, blk, j, x, reg>>

HNext == RmdRound \/ ShaRound \/ NextBlock \/ NextStage \/ Finish

(* ---- lemmas (invariants of every run) ----------------------------------------------*)
IsByteSeq(s) == \A i \in 1..Len(s) : s[i] \in 0..255
\* the input of the current stage is the prefix of pad up to the 0x80 marker; its length is
\* recovered from the announced bit length
StageLen == LET L == Len(pad)
                lenbytes == IF alg = "rmd160" THEN SubSeq(pad, L - 7, L) ELSE Reverse8(SubSeq(pad, L - 7, L))
            IN  (lenbytes[1] + 256 * lenbytes[2] + 65536 * lenbytes[3] + 16777216 * lenbytes[4]) \div 8
\* "padded length is a multiple of 64 and ends with the bit length", plus: padding is
\* minimal, starts with 0x80, is otherwise zero, and the upper length bytes are zero
PadOK == LET L == Len(pad)  n == StageLen
         IN  /\ L % 64 = 0 /\ L >= 64
             /\ n + 9 <= L /\ L < n + 9 + 64
             /\ pad[n + 1] = 128
             /\ \A i \in (n + 2)..(L - 8) : pad[i] = 0
             /\ (IF alg = "rmd160" THEN SubSeq(pad, L - 7, L) ELSE Reverse8(SubSeq(pad, L - 7, L))) = BitLenLE(n)
             /\ IsByteSeq(pad)
\* in the first stage the padded message starts with the message itself
PadPrefix == (Len(stages) + 1 = Len(Pipeline(pipe))) => (StageLen = Len(msg0) /\ SubSeq(pad, 1, Len(msg0)) = msg0)
HTypeOK == /\ alg \in {"rmd160", "sha256"}
           /\ j \in 0..NRounds(alg) /\ blk \in 0..(Len(pad) \div 64 - 1)
           /\ Len(x) = 16 /\ \A i \in 1..16 : IsWord(x[i])
           /\ Len(h) = (IF alg = "rmd160" THEN 5 ELSE 8) /\ \A i \in 1..Len(h) : IsWord(h[i])
           /\ IF alg = "rmd160" THEN /\ Len(reg) = 2
                                     /\ \A s \in 1..2 : Len(reg[s]) = 5 /\ \A i \in 1..5 : IsWord(reg[s][i])
                                ELSE Len(reg) = 8 /\ \A i \in 1..8 : IsWord(reg[i])
           /\ out # << >> => (Len(out) = (IF alg = "rmd160" THEN 20 ELSE 32) /\ IsByteSeq(out))
=============================================================================
