CONSTANTS MaxIn = 2  MaxOut = 1
CONSTANT BaseType <- BadBaseType
CONSTANT HtSet <- HtAll
SPECIFICATION Spec
INVARIANTS TwoFormsLemma MaskLemma
CHECK_DEADLOCK FALSE
