CONSTANTS Cmd = "keychain"  Tier = "q"  U = "q"
CONSTANT KcFill <- BadKcFill
SPECIFICATION Spec
INVARIANTS Lemmas LemmasDone
CHECK_DEADLOCK FALSE
