---- MODULE MC_BIP32Session_TTrace_1790367431 ----
EXTENDS MC_BIP32Session, Sequences, TLCExt, Toolbox, Naturals, TLC

_expression ==
    LET MC_BIP32Session_TEExpression == INSTANCE MC_BIP32Session_TEExpression
    IN MC_BIP32Session_TEExpression!expression
----

_trace ==
    LET MC_BIP32Session_TETrace == INSTANCE MC_BIP32Session_TETrace
    IN MC_BIP32Session_TETrace!trace
----

_inv ==
    ~(
        TLCGet("level") = Len(_TETrace)
        /\
        res = (2)
        /\
        hist = (<<[res |-> 2, o |-> 1, ix |-> [h |-> FALSE, v |-> 0], op |-> "derive", want |-> "prv"], [res |-> 2, o |-> 1, ix |-> [h |-> FALSE, v |-> 0], op |-> "derive", want |-> "prv"], [res |-> 2, o |-> 1, ix |-> [h |-> FALSE, v |-> 0], op |-> "derive", want |-> "pub"]>>)
        /\
        pure = ([key |-> [t |-> "pt", ts |-> <<[t |-> "l32", a |-> [k |-> [v |-> <<66, 105, 116, 99, 111, 105, 110, 32, 115, 101, 101, 100>>, t |-> "b"], t |-> "hmac512", m |-> [n |-> "seed", t |-> "sym", len |-> 16]]], [t |-> "l32", a |-> [k |-> [t |-> "r32", a |-> [k |-> [v |-> <<66, 105, 116, 99, 111, 105, 110, 32, 115, 101, 101, 100>>, t |-> "b"], t |-> "hmac512", m |-> [n |-> "seed", t |-> "sym", len |-> 16]]], t |-> "hmac512", m |-> [t |-> "cat", p |-> <<[t |-> "serP", a |-> [t |-> "pt", ts |-> <<[t |-> "l32", a |-> [k |-> [v |-> <<66, 105, 116, 99, 111, 105, 110, 32, 115, 101, 101, 100>>, t |-> "b"], t |-> "hmac512", m |-> [n |-> "seed", t |-> "sym", len |-> 16]]]>>, base |-> <<>>]], [v |-> <<0, 0, 0, 0>>, t |-> "b"]>>]]]>>, base |-> <<>>], depth |-> 1, pfp |-> [t |-> "first4", a |-> [t |-> "h160", a |-> [t |-> "serP", a |-> [t |-> "pt", ts |-> <<[t |-> "l32", a |-> [k |-> [v |-> <<66, 105, 116, 99, 111, 105, 110, 32, 115, 101, 101, 100>>, t |-> "b"], t |-> "hmac512", m |-> [n |-> "seed", t |-> "sym", len |-> 16]]]>>, base |-> <<>>]]]], cn |-> [h |-> FALSE, v |-> 0], chain |-> [t |-> "r32", a |-> [k |-> [t |-> "r32", a |-> [k |-> [v |-> <<66, 105, 116, 99, 111, 105, 110, 32, 115, 101, 101, 100>>, t |-> "b"], t |-> "hmac512", m |-> [n |-> "seed", t |-> "sym", len |-> 16]]], t |-> "hmac512", m |-> [t |-> "cat", p |-> <<[t |-> "serP", a |-> [t |-> "pt", ts |-> <<[t |-> "l32", a |-> [k |-> [v |-> <<66, 105, 116, 99, 111, 105, 110, 32, 115, 101, 101, 100>>, t |-> "b"], t |-> "hmac512", m |-> [n |-> "seed", t |-> "sym", len |-> 16]]]>>, base |-> <<>>]], [v |-> <<0, 0, 0, 0>>, t |-> "b"]>>]]]])
        /\
        n = (3)
        /\
        objs = (<<[cache |-> {<<<<0, FALSE, "any">>, 2>>}, node |-> [key |-> [t |-> "sum", ts |-> <<[t |-> "l32", a |-> [k |-> [v |-> <<66, 105, 116, 99, 111, 105, 110, 32, 115, 101, 101, 100>>, t |-> "b"], t |-> "hmac512", m |-> [n |-> "seed", t |-> "sym", len |-> 16]]]>>], depth |-> 0, pfp |-> [v |-> <<0, 0, 0, 0>>, t |-> "b"], cn |-> [h |-> FALSE, v |-> 0], chain |-> [t |-> "r32", a |-> [k |-> [v |-> <<66, 105, 116, 99, 111, 105, 110, 32, 115, 101, 101, 100>>, t |-> "b"], t |-> "hmac512", m |-> [n |-> "seed", t |-> "sym", len |-> 16]]]], def |-> [node |-> [key |-> [t |-> "sum", ts |-> <<[t |-> "l32", a |-> [k |-> [v |-> <<66, 105, 116, 99, 111, 105, 110, 32, 115, 101, 101, 100>>, t |-> "b"], t |-> "hmac512", m |-> [n |-> "seed", t |-> "sym", len |-> 16]]]>>], depth |-> 0, pfp |-> [v |-> <<0, 0, 0, 0>>, t |-> "b"], cn |-> [h |-> FALSE, v |-> 0], chain |-> [t |-> "r32", a |-> [k |-> [v |-> <<66, 105, 116, 99, 111, 105, 110, 32, 115, 101, 101, 100>>, t |-> "b"], t |-> "hmac512", m |-> [n |-> "seed", t |-> "sym", len |-> 16]]]], par |-> 0], path |-> <<>>], [cache |-> {}, node |-> [key |-> [t |-> "sum", ts |-> <<[t |-> "l32", a |-> [k |-> [v |-> <<66, 105, 116, 99, 111, 105, 110, 32, 115, 101, 101, 100>>, t |-> "b"], t |-> "hmac512", m |-> [n |-> "seed", t |-> "sym", len |-> 16]]], [t |-> "l32", a |-> [k |-> [t |-> "r32", a |-> [k |-> [v |-> <<66, 105, 116, 99, 111, 105, 110, 32, 115, 101, 101, 100>>, t |-> "b"], t |-> "hmac512", m |-> [n |-> "seed", t |-> "sym", len |-> 16]]], t |-> "hmac512", m |-> [t |-> "cat", p |-> <<[t |-> "serP", a |-> [t |-> "pt", ts |-> <<[t |-> "l32", a |-> [k |-> [v |-> <<66, 105, 116, 99, 111, 105, 110, 32, 115, 101, 101, 100>>, t |-> "b"], t |-> "hmac512", m |-> [n |-> "seed", t |-> "sym", len |-> 16]]]>>, base |-> <<>>]], [v |-> <<0, 0, 0, 0>>, t |-> "b"]>>]]]>>], depth |-> 1, pfp |-> [t |-> "first4", a |-> [t |-> "h160", a |-> [t |-> "serP", a |-> [t |-> "pt", ts |-> <<[t |-> "l32", a |-> [k |-> [v |-> <<66, 105, 116, 99, 111, 105, 110, 32, 115, 101, 101, 100>>, t |-> "b"], t |-> "hmac512", m |-> [n |-> "seed", t |-> "sym", len |-> 16]]]>>, base |-> <<>>]]]], cn |-> [h |-> FALSE, v |-> 0], chain |-> [t |-> "r32", a |-> [k |-> [t |-> "r32", a |-> [k |-> [v |-> <<66, 105, 116, 99, 111, 105, 110, 32, 115, 101, 101, 100>>, t |-> "b"], t |-> "hmac512", m |-> [n |-> "seed", t |-> "sym", len |-> 16]]], t |-> "hmac512", m |-> [t |-> "cat", p |-> <<[t |-> "serP", a |-> [t |-> "pt", ts |-> <<[t |-> "l32", a |-> [k |-> [v |-> <<66, 105, 116, 99, 111, 105, 110, 32, 115, 101, 101, 100>>, t |-> "b"], t |-> "hmac512", m |-> [n |-> "seed", t |-> "sym", len |-> 16]]]>>, base |-> <<>>]], [v |-> <<0, 0, 0, 0>>, t |-> "b"]>>]]]], def |-> [node |-> [key |-> [t |-> "sum", ts |-> <<[o |-> 1, t |-> "ref", len |-> 32, f |-> "k"], [t |-> "l32", a |-> [k |-> [o |-> 1, t |-> "ref", len |-> 32, f |-> "chain"], t |-> "hmac512", m |-> [t |-> "cat", p |-> <<[t |-> "serP", a |-> [t |-> "pt", ts |-> <<[o |-> 1, t |-> "ref", len |-> 32, f |-> "k"]>>, base |-> <<>>]], [v |-> <<0, 0, 0, 0>>, t |-> "b"]>>]]]>>], depth |-> 1, pfp |-> [t |-> "first4", a |-> [t |-> "h160", a |-> [t |-> "serP", a |-> [t |-> "pt", ts |-> <<[o |-> 1, t |-> "ref", len |-> 32, f |-> "k"]>>, base |-> <<>>]]]], cn |-> [h |-> FALSE, v |-> 0], chain |-> [t |-> "r32", a |-> [k |-> [o |-> 1, t |-> "ref", len |-> 32, f |-> "chain"], t |-> "hmac512", m |-> [t |-> "cat", p |-> <<[t |-> "serP", a |-> [t |-> "pt", ts |-> <<[o |-> 1, t |-> "ref", len |-> 32, f |-> "k"]>>, base |-> <<>>]], [v |-> <<0, 0, 0, 0>>, t |-> "b"]>>]]]], par |-> 1], path |-> <<[h |-> FALSE, v |-> 0]>>]>>)
    )
----

_init ==
    /\ res = _TETrace[1].res
    /\ n = _TETrace[1].n
    /\ pure = _TETrace[1].pure
    /\ objs = _TETrace[1].objs
    /\ hist = _TETrace[1].hist
----

_next ==
    /\ \E i,j \in DOMAIN _TETrace:
        /\ \/ /\ j = i + 1
              /\ i = TLCGet("level")
        /\ res  = _TETrace[i].res
        /\ res' = _TETrace[j].res
        /\ n  = _TETrace[i].n
        /\ n' = _TETrace[j].n
        /\ pure  = _TETrace[i].pure
        /\ pure' = _TETrace[j].pure
        /\ objs  = _TETrace[i].objs
        /\ objs' = _TETrace[j].objs
        /\ hist  = _TETrace[i].hist
        /\ hist' = _TETrace[j].hist

\* Uncomment the ASSUME below to write the states of the error trace
\* to the given file in Json format. Note that you can pass any tuple
\* to `JsonSerialize`. For example, a sub-sequence of _TETrace.
    \* ASSUME
    \*     LET J == INSTANCE Json
    \*         IN J!JsonSerialize("MC_BIP32Session_TTrace_1790367431.json", _TETrace)

=============================================================================

 Note that you can extract this module `MC_BIP32Session_TEExpression`
  to a dedicated file to reuse `expression` (the module in the 
  dedicated `MC_BIP32Session_TEExpression.tla` file takes precedence 
  over the module `MC_BIP32Session_TEExpression` below).

---- MODULE MC_BIP32Session_TEExpression ----
EXTENDS MC_BIP32Session, Sequences, TLCExt, Toolbox, Naturals, TLC

expression == 
    [
        \* To hide variables of the `MC_BIP32Session` spec from the error trace,
        \* remove the variables below.  The trace will be written in the order
        \* of the fields of this record.
        res |-> res
        ,n |-> n
        ,pure |-> pure
        ,objs |-> objs
        ,hist |-> hist
        
        \* Put additional constant-, state-, and action-level expressions here:
        \* ,_stateNumber |-> _TEPosition
        \* ,_resUnchanged |-> res = res'
        
        \* Format the `res` variable as Json value.
        \* ,_resJson |->
        \*     LET J == INSTANCE Json
        \*     IN J!ToJson(res)
        
        \* Lastly, you may build expressions over arbitrary sets of states by
        \* leveraging the _TETrace operator.  For example, this is how to
        \* count the number of times a spec variable changed up to the current
        \* state in the trace.
        \* ,_resModCount |->
        \*     LET F[s \in DOMAIN _TETrace] ==
        \*         IF s = 1 THEN 0
        \*         ELSE IF _TETrace[s].res # _TETrace[s-1].res
        \*             THEN 1 + F[s-1] ELSE F[s-1]
        \*     IN F[_TEPosition - 1]
    ]

=============================================================================



Parsing and semantic processing can take forever if the trace below is long.
 In this case, it is advised to uncomment the module below to deserialize the
 trace from a generated binary file.

\*
\*---- MODULE MC_BIP32Session_TETrace ----
\*EXTENDS MC_BIP32Session, IOUtils, TLC
\*
\*trace == IODeserialize("MC_BIP32Session_TTrace_1790367431.bin", TRUE)
\*
\*=============================================================================
\*

---- MODULE MC_BIP32Session_TETrace ----
EXTENDS MC_BIP32Session, TLC

trace == 
    <<
    ([res |-> 1,hist |-> <<>>,pure |-> [key |-> [t |-> "sum", ts |-> <<[t |-> "l32", a |-> [k |-> [v |-> <<66, 105, 116, 99, 111, 105, 110, 32, 115, 101, 101, 100>>, t |-> "b"], t |-> "hmac512", m |-> [n |-> "seed", t |-> "sym", len |-> 16]]]>>], depth |-> 0, pfp |-> [v |-> <<0, 0, 0, 0>>, t |-> "b"], cn |-> [h |-> FALSE, v |-> 0], chain |-> [t |-> "r32", a |-> [k |-> [v |-> <<66, 105, 116, 99, 111, 105, 110, 32, 115, 101, 101, 100>>, t |-> "b"], t |-> "hmac512", m |-> [n |-> "seed", t |-> "sym", len |-> 16]]]],n |-> 0,objs |-> <<[cache |-> {}, node |-> [key |-> [t |-> "sum", ts |-> <<[t |-> "l32", a |-> [k |-> [v |-> <<66, 105, 116, 99, 111, 105, 110, 32, 115, 101, 101, 100>>, t |-> "b"], t |-> "hmac512", m |-> [n |-> "seed", t |-> "sym", len |-> 16]]]>>], depth |-> 0, pfp |-> [v |-> <<0, 0, 0, 0>>, t |-> "b"], cn |-> [h |-> FALSE, v |-> 0], chain |-> [t |-> "r32", a |-> [k |-> [v |-> <<66, 105, 116, 99, 111, 105, 110, 32, 115, 101, 101, 100>>, t |-> "b"], t |-> "hmac512", m |-> [n |-> "seed", t |-> "sym", len |-> 16]]]], def |-> [node |-> [key |-> [t |-> "sum", ts |-> <<[t |-> "l32", a |-> [k |-> [v |-> <<66, 105, 116, 99, 111, 105, 110, 32, 115, 101, 101, 100>>, t |-> "b"], t |-> "hmac512", m |-> [n |-> "seed", t |-> "sym", len |-> 16]]]>>], depth |-> 0, pfp |-> [v |-> <<0, 0, 0, 0>>, t |-> "b"], cn |-> [h |-> FALSE, v |-> 0], chain |-> [t |-> "r32", a |-> [k |-> [v |-> <<66, 105, 116, 99, 111, 105, 110, 32, 115, 101, 101, 100>>, t |-> "b"], t |-> "hmac512", m |-> [n |-> "seed", t |-> "sym", len |-> 16]]]], par |-> 0], path |-> <<>>]>>]),
    ([res |-> 2,hist |-> <<[res |-> 2, o |-> 1, ix |-> [h |-> FALSE, v |-> 0], op |-> "derive", want |-> "prv"]>>,pure |-> [key |-> [t |-> "sum", ts |-> <<[t |-> "l32", a |-> [k |-> [v |-> <<66, 105, 116, 99, 111, 105, 110, 32, 115, 101, 101, 100>>, t |-> "b"], t |-> "hmac512", m |-> [n |-> "seed", t |-> "sym", len |-> 16]]], [t |-> "l32", a |-> [k |-> [t |-> "r32", a |-> [k |-> [v |-> <<66, 105, 116, 99, 111, 105, 110, 32, 115, 101, 101, 100>>, t |-> "b"], t |-> "hmac512", m |-> [n |-> "seed", t |-> "sym", len |-> 16]]], t |-> "hmac512", m |-> [t |-> "cat", p |-> <<[t |-> "serP", a |-> [t |-> "pt", ts |-> <<[t |-> "l32", a |-> [k |-> [v |-> <<66, 105, 116, 99, 111, 105, 110, 32, 115, 101, 101, 100>>, t |-> "b"], t |-> "hmac512", m |-> [n |-> "seed", t |-> "sym", len |-> 16]]]>>, base |-> <<>>]], [v |-> <<0, 0, 0, 0>>, t |-> "b"]>>]]]>>], depth |-> 1, pfp |-> [t |-> "first4", a |-> [t |-> "h160", a |-> [t |-> "serP", a |-> [t |-> "pt", ts |-> <<[t |-> "l32", a |-> [k |-> [v |-> <<66, 105, 116, 99, 111, 105, 110, 32, 115, 101, 101, 100>>, t |-> "b"], t |-> "hmac512", m |-> [n |-> "seed", t |-> "sym", len |-> 16]]]>>, base |-> <<>>]]]], cn |-> [h |-> FALSE, v |-> 0], chain |-> [t |-> "r32", a |-> [k |-> [t |-> "r32", a |-> [k |-> [v |-> <<66, 105, 116, 99, 111, 105, 110, 32, 115, 101, 101, 100>>, t |-> "b"], t |-> "hmac512", m |-> [n |-> "seed", t |-> "sym", len |-> 16]]], t |-> "hmac512", m |-> [t |-> "cat", p |-> <<[t |-> "serP", a |-> [t |-> "pt", ts |-> <<[t |-> "l32", a |-> [k |-> [v |-> <<66, 105, 116, 99, 111, 105, 110, 32, 115, 101, 101, 100>>, t |-> "b"], t |-> "hmac512", m |-> [n |-> "seed", t |-> "sym", len |-> 16]]]>>, base |-> <<>>]], [v |-> <<0, 0, 0, 0>>, t |-> "b"]>>]]]],n |-> 1,objs |-> <<[cache |-> {<<<<0, FALSE, "any">>, 2>>}, node |-> [key |-> [t |-> "sum", ts |-> <<[t |-> "l32", a |-> [k |-> [v |-> <<66, 105, 116, 99, 111, 105, 110, 32, 115, 101, 101, 100>>, t |-> "b"], t |-> "hmac512", m |-> [n |-> "seed", t |-> "sym", len |-> 16]]]>>], depth |-> 0, pfp |-> [v |-> <<0, 0, 0, 0>>, t |-> "b"], cn |-> [h |-> FALSE, v |-> 0], chain |-> [t |-> "r32", a |-> [k |-> [v |-> <<66, 105, 116, 99, 111, 105, 110, 32, 115, 101, 101, 100>>, t |-> "b"], t |-> "hmac512", m |-> [n |-> "seed", t |-> "sym", len |-> 16]]]], def |-> [node |-> [key |-> [t |-> "sum", ts |-> <<[t |-> "l32", a |-> [k |-> [v |-> <<66, 105, 116, 99, 111, 105, 110, 32, 115, 101, 101, 100>>, t |-> "b"], t |-> "hmac512", m |-> [n |-> "seed", t |-> "sym", len |-> 16]]]>>], depth |-> 0, pfp |-> [v |-> <<0, 0, 0, 0>>, t |-> "b"], cn |-> [h |-> FALSE, v |-> 0], chain |-> [t |-> "r32", a |-> [k |-> [v |-> <<66, 105, 116, 99, 111, 105, 110, 32, 115, 101, 101, 100>>, t |-> "b"], t |-> "hmac512", m |-> [n |-> "seed", t |-> "sym", len |-> 16]]]], par |-> 0], path |-> <<>>], [cache |-> {}, node |-> [key |-> [t |-> "sum", ts |-> <<[t |-> "l32", a |-> [k |-> [v |-> <<66, 105, 116, 99, 111, 105, 110, 32, 115, 101, 101, 100>>, t |-> "b"], t |-> "hmac512", m |-> [n |-> "seed", t |-> "sym", len |-> 16]]], [t |-> "l32", a |-> [k |-> [t |-> "r32", a |-> [k |-> [v |-> <<66, 105, 116, 99, 111, 105, 110, 32, 115, 101, 101, 100>>, t |-> "b"], t |-> "hmac512", m |-> [n |-> "seed", t |-> "sym", len |-> 16]]], t |-> "hmac512", m |-> [t |-> "cat", p |-> <<[t |-> "serP", a |-> [t |-> "pt", ts |-> <<[t |-> "l32", a |-> [k |-> [v |-> <<66, 105, 116, 99, 111, 105, 110, 32, 115, 101, 101, 100>>, t |-> "b"], t |-> "hmac512", m |-> [n |-> "seed", t |-> "sym", len |-> 16]]]>>, base |-> <<>>]], [v |-> <<0, 0, 0, 0>>, t |-> "b"]>>]]]>>], depth |-> 1, pfp |-> [t |-> "first4", a |-> [t |-> "h160", a |-> [t |-> "serP", a |-> [t |-> "pt", ts |-> <<[t |-> "l32", a |-> [k |-> [v |-> <<66, 105, 116, 99, 111, 105, 110, 32, 115, 101, 101, 100>>, t |-> "b"], t |-> "hmac512", m |-> [n |-> "seed", t |-> "sym", len |-> 16]]]>>, base |-> <<>>]]]], cn |-> [h |-> FALSE, v |-> 0], chain |-> [t |-> "r32", a |-> [k |-> [t |-> "r32", a |-> [k |-> [v |-> <<66, 105, 116, 99, 111, 105, 110, 32, 115, 101, 101, 100>>, t |-> "b"], t |-> "hmac512", m |-> [n |-> "seed", t |-> "sym", len |-> 16]]], t |-> "hmac512", m |-> [t |-> "cat", p |-> <<[t |-> "serP", a |-> [t |-> "pt", ts |-> <<[t |-> "l32", a |-> [k |-> [v |-> <<66, 105, 116, 99, 111, 105, 110, 32, 115, 101, 101, 100>>, t |-> "b"], t |-> "hmac512", m |-> [n |-> "seed", t |-> "sym", len |-> 16]]]>>, base |-> <<>>]], [v |-> <<0, 0, 0, 0>>, t |-> "b"]>>]]]], def |-> [node |-> [key |-> [t |-> "sum", ts |-> <<[o |-> 1, t |-> "ref", len |-> 32, f |-> "k"], [t |-> "l32", a |-> [k |-> [o |-> 1, t |-> "ref", len |-> 32, f |-> "chain"], t |-> "hmac512", m |-> [t |-> "cat", p |-> <<[t |-> "serP", a |-> [t |-> "pt", ts |-> <<[o |-> 1, t |-> "ref", len |-> 32, f |-> "k"]>>, base |-> <<>>]], [v |-> <<0, 0, 0, 0>>, t |-> "b"]>>]]]>>], depth |-> 1, pfp |-> [t |-> "first4", a |-> [t |-> "h160", a |-> [t |-> "serP", a |-> [t |-> "pt", ts |-> <<[o |-> 1, t |-> "ref", len |-> 32, f |-> "k"]>>, base |-> <<>>]]]], cn |-> [h |-> FALSE, v |-> 0], chain |-> [t |-> "r32", a |-> [k |-> [o |-> 1, t |-> "ref", len |-> 32, f |-> "chain"], t |-> "hmac512", m |-> [t |-> "cat", p |-> <<[t |-> "serP", a |-> [t |-> "pt", ts |-> <<[o |-> 1, t |-> "ref", len |-> 32, f |-> "k"]>>, base |-> <<>>]], [v |-> <<0, 0, 0, 0>>, t |-> "b"]>>]]]], par |-> 1], path |-> <<[h |-> FALSE, v |-> 0]>>]>>]),
    ([res |-> 2,hist |-> <<[res |-> 2, o |-> 1, ix |-> [h |-> FALSE, v |-> 0], op |-> "derive", want |-> "prv"], [res |-> 2, o |-> 1, ix |-> [h |-> FALSE, v |-> 0], op |-> "derive", want |-> "prv"]>>,pure |-> [key |-> [t |-> "sum", ts |-> <<[t |-> "l32", a |-> [k |-> [v |-> <<66, 105, 116, 99, 111, 105, 110, 32, 115, 101, 101, 100>>, t |-> "b"], t |-> "hmac512", m |-> [n |-> "seed", t |-> "sym", len |-> 16]]], [t |-> "l32", a |-> [k |-> [t |-> "r32", a |-> [k |-> [v |-> <<66, 105, 116, 99, 111, 105, 110, 32, 115, 101, 101, 100>>, t |-> "b"], t |-> "hmac512", m |-> [n |-> "seed", t |-> "sym", len |-> 16]]], t |-> "hmac512", m |-> [t |-> "cat", p |-> <<[t |-> "serP", a |-> [t |-> "pt", ts |-> <<[t |-> "l32", a |-> [k |-> [v |-> <<66, 105, 116, 99, 111, 105, 110, 32, 115, 101, 101, 100>>, t |-> "b"], t |-> "hmac512", m |-> [n |-> "seed", t |-> "sym", len |-> 16]]]>>, base |-> <<>>]], [v |-> <<0, 0, 0, 0>>, t |-> "b"]>>]]]>>], depth |-> 1, pfp |-> [t |-> "first4", a |-> [t |-> "h160", a |-> [t |-> "serP", a |-> [t |-> "pt", ts |-> <<[t |-> "l32", a |-> [k |-> [v |-> <<66, 105, 116, 99, 111, 105, 110, 32, 115, 101, 101, 100>>, t |-> "b"], t |-> "hmac512", m |-> [n |-> "seed", t |-> "sym", len |-> 16]]]>>, base |-> <<>>]]]], cn |-> [h |-> FALSE, v |-> 0], chain |-> [t |-> "r32", a |-> [k |-> [t |-> "r32", a |-> [k |-> [v |-> <<66, 105, 116, 99, 111, 105, 110, 32, 115, 101, 101, 100>>, t |-> "b"], t |-> "hmac512", m |-> [n |-> "seed", t |-> "sym", len |-> 16]]], t |-> "hmac512", m |-> [t |-> "cat", p |-> <<[t |-> "serP", a |-> [t |-> "pt", ts |-> <<[t |-> "l32", a |-> [k |-> [v |-> <<66, 105, 116, 99, 111, 105, 110, 32, 115, 101, 101, 100>>, t |-> "b"], t |-> "hmac512", m |-> [n |-> "seed", t |-> "sym", len |-> 16]]]>>, base |-> <<>>]], [v |-> <<0, 0, 0, 0>>, t |-> "b"]>>]]]],n |-> 2,objs |-> <<[cache |-> {<<<<0, FALSE, "any">>, 2>>}, node |-> [key |-> [t |-> "sum", ts |-> <<[t |-> "l32", a |-> [k |-> [v |-> <<66, 105, 116, 99, 111, 105, 110, 32, 115, 101, 101, 100>>, t |-> "b"], t |-> "hmac512", m |-> [n |-> "seed", t |-> "sym", len |-> 16]]]>>], depth |-> 0, pfp |-> [v |-> <<0, 0, 0, 0>>, t |-> "b"], cn |-> [h |-> FALSE, v |-> 0], chain |-> [t |-> "r32", a |-> [k |-> [v |-> <<66, 105, 116, 99, 111, 105, 110, 32, 115, 101, 101, 100>>, t |-> "b"], t |-> "hmac512", m |-> [n |-> "seed", t |-> "sym", len |-> 16]]]], def |-> [node |-> [key |-> [t |-> "sum", ts |-> <<[t |-> "l32", a |-> [k |-> [v |-> <<66, 105, 116, 99, 111, 105, 110, 32, 115, 101, 101, 100>>, t |-> "b"], t |-> "hmac512", m |-> [n |-> "seed", t |-> "sym", len |-> 16]]]>>], depth |-> 0, pfp |-> [v |-> <<0, 0, 0, 0>>, t |-> "b"], cn |-> [h |-> FALSE, v |-> 0], chain |-> [t |-> "r32", a |-> [k |-> [v |-> <<66, 105, 116, 99, 111, 105, 110, 32, 115, 101, 101, 100>>, t |-> "b"], t |-> "hmac512", m |-> [n |-> "seed", t |-> "sym", len |-> 16]]]], par |-> 0], path |-> <<>>], [cache |-> {}, node |-> [key |-> [t |-> "sum", ts |-> <<[t |-> "l32", a |-> [k |-> [v |-> <<66, 105, 116, 99, 111, 105, 110, 32, 115, 101, 101, 100>>, t |-> "b"], t |-> "hmac512", m |-> [n |-> "seed", t |-> "sym", len |-> 16]]], [t |-> "l32", a |-> [k |-> [t |-> "r32", a |-> [k |-> [v |-> <<66, 105, 116, 99, 111, 105, 110, 32, 115, 101, 101, 100>>, t |-> "b"], t |-> "hmac512", m |-> [n |-> "seed", t |-> "sym", len |-> 16]]], t |-> "hmac512", m |-> [t |-> "cat", p |-> <<[t |-> "serP", a |-> [t |-> "pt", ts |-> <<[t |-> "l32", a |-> [k |-> [v |-> <<66, 105, 116, 99, 111, 105, 110, 32, 115, 101, 101, 100>>, t |-> "b"], t |-> "hmac512", m |-> [n |-> "seed", t |-> "sym", len |-> 16]]]>>, base |-> <<>>]], [v |-> <<0, 0, 0, 0>>, t |-> "b"]>>]]]>>], depth |-> 1, pfp |-> [t |-> "first4", a |-> [t |-> "h160", a |-> [t |-> "serP", a |-> [t |-> "pt", ts |-> <<[t |-> "l32", a |-> [k |-> [v |-> <<66, 105, 116, 99, 111, 105, 110, 32, 115, 101, 101, 100>>, t |-> "b"], t |-> "hmac512", m |-> [n |-> "seed", t |-> "sym", len |-> 16]]]>>, base |-> <<>>]]]], cn |-> [h |-> FALSE, v |-> 0], chain |-> [t |-> "r32", a |-> [k |-> [t |-> "r32", a |-> [k |-> [v |-> <<66, 105, 116, 99, 111, 105, 110, 32, 115, 101, 101, 100>>, t |-> "b"], t |-> "hmac512", m |-> [n |-> "seed", t |-> "sym", len |-> 16]]], t |-> "hmac512", m |-> [t |-> "cat", p |-> <<[t |-> "serP", a |-> [t |-> "pt", ts |-> <<[t |-> "l32", a |-> [k |-> [v |-> <<66, 105, 116, 99, 111, 105, 110, 32, 115, 101, 101, 100>>, t |-> "b"], t |-> "hmac512", m |-> [n |-> "seed", t |-> "sym", len |-> 16]]]>>, base |-> <<>>]], [v |-> <<0, 0, 0, 0>>, t |-> "b"]>>]]]], def |-> [node |-> [key |-> [t |-> "sum", ts |-> <<[o |-> 1, t |-> "ref", len |-> 32, f |-> "k"], [t |-> "l32", a |-> [k |-> [o |-> 1, t |-> "ref", len |-> 32, f |-> "chain"], t |-> "hmac512", m |-> [t |-> "cat", p |-> <<[t |-> "serP", a |-> [t |-> "pt", ts |-> <<[o |-> 1, t |-> "ref", len |-> 32, f |-> "k"]>>, base |-> <<>>]], [v |-> <<0, 0, 0, 0>>, t |-> "b"]>>]]]>>], depth |-> 1, pfp |-> [t |-> "first4", a |-> [t |-> "h160", a |-> [t |-> "serP", a |-> [t |-> "pt", ts |-> <<[o |-> 1, t |-> "ref", len |-> 32, f |-> "k"]>>, base |-> <<>>]]]], cn |-> [h |-> FALSE, v |-> 0], chain |-> [t |-> "r32", a |-> [k |-> [o |-> 1, t |-> "ref", len |-> 32, f |-> "chain"], t |-> "hmac512", m |-> [t |-> "cat", p |-> <<[t |-> "serP", a |-> [t |-> "pt", ts |-> <<[o |-> 1, t |-> "ref", len |-> 32, f |-> "k"]>>, base |-> <<>>]], [v |-> <<0, 0, 0, 0>>, t |-> "b"]>>]]]], par |-> 1], path |-> <<[h |-> FALSE, v |-> 0]>>]>>]),
    ([res |-> 2,hist |-> <<[res |-> 2, o |-> 1, ix |-> [h |-> FALSE, v |-> 0], op |-> "derive", want |-> "prv"], [res |-> 2, o |-> 1, ix |-> [h |-> FALSE, v |-> 0], op |-> "derive", want |-> "prv"], [res |-> 2, o |-> 1, ix |-> [h |-> FALSE, v |-> 0], op |-> "derive", want |-> "pub"]>>,pure |-> [key |-> [t |-> "pt", ts |-> <<[t |-> "l32", a |-> [k |-> [v |-> <<66, 105, 116, 99, 111, 105, 110, 32, 115, 101, 101, 100>>, t |-> "b"], t |-> "hmac512", m |-> [n |-> "seed", t |-> "sym", len |-> 16]]], [t |-> "l32", a |-> [k |-> [t |-> "r32", a |-> [k |-> [v |-> <<66, 105, 116, 99, 111, 105, 110, 32, 115, 101, 101, 100>>, t |-> "b"], t |-> "hmac512", m |-> [n |-> "seed", t |-> "sym", len |-> 16]]], t |-> "hmac512", m |-> [t |-> "cat", p |-> <<[t |-> "serP", a |-> [t |-> "pt", ts |-> <<[t |-> "l32", a |-> [k |-> [v |-> <<66, 105, 116, 99, 111, 105, 110, 32, 115, 101, 101, 100>>, t |-> "b"], t |-> "hmac512", m |-> [n |-> "seed", t |-> "sym", len |-> 16]]]>>, base |-> <<>>]], [v |-> <<0, 0, 0, 0>>, t |-> "b"]>>]]]>>, base |-> <<>>], depth |-> 1, pfp |-> [t |-> "first4", a |-> [t |-> "h160", a |-> [t |-> "serP", a |-> [t |-> "pt", ts |-> <<[t |-> "l32", a |-> [k |-> [v |-> <<66, 105, 116, 99, 111, 105, 110, 32, 115, 101, 101, 100>>, t |-> "b"], t |-> "hmac512", m |-> [n |-> "seed", t |-> "sym", len |-> 16]]]>>, base |-> <<>>]]]], cn |-> [h |-> FALSE, v |-> 0], chain |-> [t |-> "r32", a |-> [k |-> [t |-> "r32", a |-> [k |-> [v |-> <<66, 105, 116, 99, 111, 105, 110, 32, 115, 101, 101, 100>>, t |-> "b"], t |-> "hmac512", m |-> [n |-> "seed", t |-> "sym", len |-> 16]]], t |-> "hmac512", m |-> [t |-> "cat", p |-> <<[t |-> "serP", a |-> [t |-> "pt", ts |-> <<[t |-> "l32", a |-> [k |-> [v |-> <<66, 105, 116, 99, 111, 105, 110, 32, 115, 101, 101, 100>>, t |-> "b"], t |-> "hmac512", m |-> [n |-> "seed", t |-> "sym", len |-> 16]]]>>, base |-> <<>>]], [v |-> <<0, 0, 0, 0>>, t |-> "b"]>>]]]],n |-> 3,objs |-> <<[cache |-> {<<<<0, FALSE, "any">>, 2>>}, node |-> [key |-> [t |-> "sum", ts |-> <<[t |-> "l32", a |-> [k |-> [v |-> <<66, 105, 116, 99, 111, 105, 110, 32, 115, 101, 101, 100>>, t |-> "b"], t |-> "hmac512", m |-> [n |-> "seed", t |-> "sym", len |-> 16]]]>>], depth |-> 0, pfp |-> [v |-> <<0, 0, 0, 0>>, t |-> "b"], cn |-> [h |-> FALSE, v |-> 0], chain |-> [t |-> "r32", a |-> [k |-> [v |-> <<66, 105, 116, 99, 111, 105, 110, 32, 115, 101, 101, 100>>, t |-> "b"], t |-> "hmac512", m |-> [n |-> "seed", t |-> "sym", len |-> 16]]]], def |-> [node |-> [key |-> [t |-> "sum", ts |-> <<[t |-> "l32", a |-> [k |-> [v |-> <<66, 105, 116, 99, 111, 105, 110, 32, 115, 101, 101, 100>>, t |-> "b"], t |-> "hmac512", m |-> [n |-> "seed", t |-> "sym", len |-> 16]]]>>], depth |-> 0, pfp |-> [v |-> <<0, 0, 0, 0>>, t |-> "b"], cn |-> [h |-> FALSE, v |-> 0], chain |-> [t |-> "r32", a |-> [k |-> [v |-> <<66, 105, 116, 99, 111, 105, 110, 32, 115, 101, 101, 100>>, t |-> "b"], t |-> "hmac512", m |-> [n |-> "seed", t |-> "sym", len |-> 16]]]], par |-> 0], path |-> <<>>], [cache |-> {}, node |-> [key |-> [t |-> "sum", ts |-> <<[t |-> "l32", a |-> [k |-> [v |-> <<66, 105, 116, 99, 111, 105, 110, 32, 115, 101, 101, 100>>, t |-> "b"], t |-> "hmac512", m |-> [n |-> "seed", t |-> "sym", len |-> 16]]], [t |-> "l32", a |-> [k |-> [t |-> "r32", a |-> [k |-> [v |-> <<66, 105, 116, 99, 111, 105, 110, 32, 115, 101, 101, 100>>, t |-> "b"], t |-> "hmac512", m |-> [n |-> "seed", t |-> "sym", len |-> 16]]], t |-> "hmac512", m |-> [t |-> "cat", p |-> <<[t |-> "serP", a |-> [t |-> "pt", ts |-> <<[t |-> "l32", a |-> [k |-> [v |-> <<66, 105, 116, 99, 111, 105, 110, 32, 115, 101, 101, 100>>, t |-> "b"], t |-> "hmac512", m |-> [n |-> "seed", t |-> "sym", len |-> 16]]]>>, base |-> <<>>]], [v |-> <<0, 0, 0, 0>>, t |-> "b"]>>]]]>>], depth |-> 1, pfp |-> [t |-> "first4", a |-> [t |-> "h160", a |-> [t |-> "serP", a |-> [t |-> "pt", ts |-> <<[t |-> "l32", a |-> [k |-> [v |-> <<66, 105, 116, 99, 111, 105, 110, 32, 115, 101, 101, 100>>, t |-> "b"], t |-> "hmac512", m |-> [n |-> "seed", t |-> "sym", len |-> 16]]]>>, base |-> <<>>]]]], cn |-> [h |-> FALSE, v |-> 0], chain |-> [t |-> "r32", a |-> [k |-> [t |-> "r32", a |-> [k |-> [v |-> <<66, 105, 116, 99, 111, 105, 110, 32, 115, 101, 101, 100>>, t |-> "b"], t |-> "hmac512", m |-> [n |-> "seed", t |-> "sym", len |-> 16]]], t |-> "hmac512", m |-> [t |-> "cat", p |-> <<[t |-> "serP", a |-> [t |-> "pt", ts |-> <<[t |-> "l32", a |-> [k |-> [v |-> <<66, 105, 116, 99, 111, 105, 110, 32, 115, 101, 101, 100>>, t |-> "b"], t |-> "hmac512", m |-> [n |-> "seed", t |-> "sym", len |-> 16]]]>>, base |-> <<>>]], [v |-> <<0, 0, 0, 0>>, t |-> "b"]>>]]]], def |-> [node |-> [key |-> [t |-> "sum", ts |-> <<[o |-> 1, t |-> "ref", len |-> 32, f |-> "k"], [t |-> "l32", a |-> [k |-> [o |-> 1, t |-> "ref", len |-> 32, f |-> "chain"], t |-> "hmac512", m |-> [t |-> "cat", p |-> <<[t |-> "serP", a |-> [t |-> "pt", ts |-> <<[o |-> 1, t |-> "ref", len |-> 32, f |-> "k"]>>, base |-> <<>>]], [v |-> <<0, 0, 0, 0>>, t |-> "b"]>>]]]>>], depth |-> 1, pfp |-> [t |-> "first4", a |-> [t |-> "h160", a |-> [t |-> "serP", a |-> [t |-> "pt", ts |-> <<[o |-> 1, t |-> "ref", len |-> 32, f |-> "k"]>>, base |-> <<>>]]]], cn |-> [h |-> FALSE, v |-> 0], chain |-> [t |-> "r32", a |-> [k |-> [o |-> 1, t |-> "ref", len |-> 32, f |-> "chain"], t |-> "hmac512", m |-> [t |-> "cat", p |-> <<[t |-> "serP", a |-> [t |-> "pt", ts |-> <<[o |-> 1, t |-> "ref", len |-> 32, f |-> "k"]>>, base |-> <<>>]], [v |-> <<0, 0, 0, 0>>, t |-> "b"]>>]]]], par |-> 1], path |-> <<[h |-> FALSE, v |-> 0]>>]>>])
    >>
----


=============================================================================

---- CONFIG MC_BIP32Session_TTrace_1790367431 ----
CONSTANTS
    Values = { 0 , 1 }
    Wants = { "prv" , "pub" , "dflt" }
    PathSet = "small"
    MaxOps = 3
    SeedLen = 16
    KeyMode = "noWant"

INVARIANT
    _inv

CHECK_DEADLOCK
    \* CHECK_DEADLOCK off because of PROPERTY or INVARIANT above.
    FALSE

INIT
    _init

NEXT
    _next

CONSTANT
    _TETrace <- _trace

ALIAS
    _expression
=============================================================================
\* Generated on Fri Sep 25 20:17:15 UTC 2026