CONSTANTS N = 8  EMIT = FALSE
SPECIFICATION Spec
INVARIANTS Mut_NoDupAgrees
CHECK_DEADLOCK FALSE
