CONSTANTS Mode = "msig"  MaxLen = 0  Dist = 0  WithBig = TRUE
          PushLens = {0, 1, 19, 20, 21, 32, 33, 34, 65}
SPECIFICATION Spec
INVARIANT Lemmas
CONSTRAINT Export
CHECK_DEADLOCK FALSE
VIEW View
