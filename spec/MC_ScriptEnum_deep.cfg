CONSTANTS MaxIns = 2  MaxStack = 9  Mode = "deep"  FreePushes = FALSE
SPECIFICATION ESpec
VIEW View
INVARIANT TypeOK
INVARIANT PcInScript
CHECK_DEADLOCK FALSE
