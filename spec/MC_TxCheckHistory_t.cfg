CONSTANTS Tier = "t"  Emit = TRUE  Depth = 4
SPECIFICATION Spec
INVARIANT ObjWellFormed VerdictIsOfCurrentFields CallsChangeNothing FitExact
CHECK_DEADLOCK FALSE
