------------------------------- MODULE TxRules -------------------------------
(* C13 - the rule book of transaction construction, stated over an abstract  *)
(* ordered additive monoid of amounts (Add, Leq, Zero, One).                 *)
(*                                                                           *)
(* The module is instantiated twice:                                         *)
(*   TxBuild.tla         Add <- integer +      (lemmas, exhaustive TLC)      *)
(*   Trace_TxBuild.tla   Add <- Limbs!LAdd     (amounts up to 21e14 and sums *)
(*                                              of them as base-10^4 limbs)  *)
(* so the text that judges recorded pycoin executions on realistic amounts   *)
(* is literally the text whose consequences TLC has explored on small ones;  *)
(* MC_Limbs shows that limb Add/Leq are the integer ones.                    *)
(*                                                                           *)
(* Everything is phrased additively (no subtraction, no division): the rule  *)
(* is a *relation* between request and result.  TxBuild.tla shows that the   *)
(* relation has exactly one solution, the closed form with div/mod, and that *)
(* dealing satoshis round-robin reaches it.                                  *)
(*                                                                           *)
(*   spendable  [src, idx, amt, scr]   output idx of transaction src, worth  *)
(*                                     amt, locked by script scr             *)
(*   payable    [to, amt]              amt = Zero: "unspecified" (split pool)*)
(*   tx         [ins  : Seq([src, idx]),        the outpoints spent          *)
(*               unspents : Seq([amt, scr]),    what each input is believed  *)
(*                                              to spend                     *)
(*               outs : Seq([to, amt])]                                      *)
EXTENDS Integers, Sequences, FiniteSets

CONSTANTS Add(_, _), Leq(_, _), Zero, One

Lt(a, b) == ~Leq(b, a)

RECURSIVE Total(_)
Total(s) == IF s = << >> THEN Zero ELSE Add(Head(s), Total(Tail(s)))

RECURSIVE Count(_)                      \* the amount n * One
Count(n) == IF n = 0 THEN Zero ELSE Add(One, Count(n - 1))

Amts(s) == [i \in 1..Len(s) |-> s[i].amt]

Unspec(pays) == {i \in 1..Len(pays) : pays[i].amt = Zero}
NU(pays) == Cardinality(Unspec(pays))

TotalIn(sps) == Total(Amts(sps))
\* what the request claims before anything is split: fixed outputs and the fee
Claimed(pays, fee) == Add(Total(Amts(pays)), fee)

\* ------------------------------------------------------------------ errors
\* Some output is unspecified and the inputs do not cover fixed outputs, fee
\* and one satoshi for each unspecified output: no transaction may result.
Insufficient(sps, pays, fee) ==
  /\ Unspec(pays) # {}
  /\ Lt(TotalIn(sps), Add(Claimed(pays, fee), Count(NU(pays))))

\* Every output fixed and outputs + fee exceed the inputs.  The property only
\* speaks about requests with unspecified outputs; here an implementation
\* may raise or build (then the reported fee is what it is, see FeeReport).
Overspent(sps, pays, fee) ==
  /\ Unspec(pays) = {}
  /\ Lt(TotalIn(sps), Claimed(pays, fee))

\* ------------------------------------------------------------------ outputs
ValidOuts(sps, pays, fee, outs) ==
  LET U == Unspec(pays) IN
  /\ Len(outs) = Len(pays)
  /\ \A i \in 1..Len(pays) : outs[i].to = pays[i].to
  /\ \A i \in (1..Len(pays)) \ U : outs[i].amt = pays[i].amt
  /\ U # {} =>
       /\ Add(Total(Amts(outs)), fee) = TotalIn(sps)                \* conservation
       /\ \A i \in U : outs[i].amt # Zero                           \* positive
       /\ \A i, j \in U : i < j =>
            /\ Leq(outs[j].amt, outs[i].amt)                        \* earlier >= later
            /\ Leq(outs[i].amt, Add(outs[j].amt, One))              \* at most one apart

\* ------------------------------------------------------------------ pairing
Paired(sps, tx) ==
  /\ Len(tx.ins) = Len(sps) /\ Len(tx.unspents) = Len(sps)
  /\ \A i \in 1..Len(sps) :
       /\ tx.ins[i] = [src |-> sps[i].src, idx |-> sps[i].idx]
       /\ tx.unspents[i] = [amt |-> sps[i].amt, scr |-> sps[i].scr]

\* ------------------------------------------------------------------ outcome
\* res = [err |-> BOOLEAN, tx |-> ..]
OutcomeOK(sps, pays, fee, res) ==
  IF res.err THEN Insufficient(sps, pays, fee) \/ Overspent(sps, pays, fee)
  ELSE /\ ~Insufficient(sps, pays, fee)
       /\ ValidOuts(sps, pays, fee, res.tx.outs)
       /\ Paired(sps, res.tx)

\* ------------------------------------------------------------------ fee
\* reported: total_in, total_out, fee as sign (-1, 0, 1) and magnitude
\* fee = total_in - total_out, total_in = what the inputs are believed to spend
FeeReport(tx, tin, tout, sign, mag) ==
  /\ tin = Total(Amts(tx.unspents))
  /\ tout = Total(Amts(tx.outs))
  /\ sign \in {-1, 0, 1}
  /\ (sign = 0) = (mag = Zero)
  /\ IF sign >= 0 THEN Add(tout, mag) = tin ELSE Add(tin, mag) = tout

\* the fee of a transaction built with unspecified outputs is the requested one
FeeAsRequested(pays, fee, sign, mag) ==
  Unspec(pays) # {} => mag = fee /\ sign = (IF fee = Zero THEN 0 ELSE 1)
=============================================================================
