CONSTANTS FullLen = 2  AlphaA = {0, 1, 127, 128, 129, 255}  MaxA = 6  AlphaB = {0, 127, 255}  MaxB = 10
          IntMax = 200000  BlockSize = 1000  MaxPow = 79  UniqLen = 4  Export = TRUE
SPECIFICATION Spec
INVARIANTS InvBytes InvUnique InvInt InvPow
CHECK_DEADLOCK FALSE
