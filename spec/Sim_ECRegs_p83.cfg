CONSTANTS P = 83  A = 1  B = 7  Gx = 0  Gy = 16  N = 79
          R = 3  Concrete = TRUE  B1 = 45  B2 = 78  MaxCoef = 100000  MaxSteps = 14  Emit = TRUE
SPECIFICATION Spec
INVARIANTS RegsRepresent EqualScalarsEqualPoints
CONSTRAINT EmitBehaviour
CHECK_DEADLOCK FALSE
