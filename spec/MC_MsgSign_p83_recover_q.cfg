CONSTANTS P = 83  A = 1  B = 7  Gx = 0  Gy = 16  N = 79  Mode = "recover"  RMax = 81
CONSTANT ESet <- EFew
CONSTANT DSet <- DFew
SPECIFICATION Spec
INVARIANT Holds
CHECK_DEADLOCK FALSE
