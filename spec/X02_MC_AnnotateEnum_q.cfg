CONSTANTS MaxIns = 2  Alpha = "full"  SigFam = "all"
SPECIFICATION ESpec
INVARIANTS Lemmas Teeth
CHECK_DEADLOCK FALSE
