CONSTANTS Cmd = "b58"  Tier = "q"  U = "q"
SPECIFICATION Spec
INVARIANTS Lemmas LemmasDone
CHECK_DEADLOCK FALSE
