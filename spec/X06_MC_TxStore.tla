---------------------------- MODULE X06_MC_TxStore ----------------------------
(* Model checking and spec -> code export for X06_TxStore.                     *)
(*  - as a MODEL run (INIT MInit, NEXT MNext, invariants / action properties): *)
(*    every history of at most MaxOps operations over the small universe below *)
(*    satisfies the property; with a named deviation switched on TLC must      *)
(*    find a violation (the _bad_ cfgs).                                          *)
(*  - as an EXPORT run (VIEW MView without the history variables): TLC visits  *)
(*    every reachable state once and evaluates every transition out of it; for *)
(*    each it prints the behaviour that led there, every operation with the    *)
(*    outcome and the directory contents the rule demands afterwards.  The     *)
(*    harness executes each behaviour on a real TxDb over real directories.    *)
(* The deviation switches come from the environment (the harness first finds   *)
(* out which deviations the tree has).                                         *)
EXTENDS X06_TxStore, Json, IOUtils

CONSTANTS MaxOps, MaxEdit, MaxSetLook, Univ,
          Ops,         \* the operations explored: a subset of OpsAll
          EditKinds,   \* blob classes an external edit may leave (subset of KindsAll)
          LookKinds,   \* answer classes a lookup method may be switched to
          FillSet, ValSet   \* which spenders are handed to Fill / Validate

SwBadFile == IF "X06_BADFILE" \in DOMAIN IOEnv THEN IOEnv.X06_BADFILE = "1" ELSE FALSE
SwOob == IF "X06_OOB" \in DOMAIN IOEnv THEN IOEnv.X06_OOB = "1" ELSE FALSE
Yes == TRUE
No == FALSE

\* ------------------------------------------------------------ universes
\* U2: two transactions: 1 (one output, no witness), 2 (two outputs, witness data)
\* U3: three: 3 has three outputs, no witness
MCIds == IF Univ = 2 THEN {1, 2} ELSE {1, 2, 3}
MCSegIds == {2}
MCNOut(t) == t
In(t, x, cl) == [t |-> t, x |-> x, cl |-> cl]
Sp(ins, out, val) == [ins |-> ins, out |-> out, val |-> val]
MCSpenders ==
  << Sp(<<In(1, 0, "right")>>, 1000, TRUE),
     Sp(<<In(2, 1, "right"), In(1, 0, "right")>>, 3000, TRUE),
     Sp(<<In(0, 0, "right")>>, 5000, FALSE),                      \* a coinbase transaction
     Sp(<<In(2, 2, "right")>>, 10, TRUE),                         \* index = number of outputs
     Sp(<<In(1, 0, "right"), In(2, 3, "right")>>, 10, TRUE),      \* index beyond
     Sp(<<In(2, 0, "amt")>>, 10, TRUE),
     Sp(<<In(2, 0, "scr"), In(2, 1, "right")>>, 10, TRUE),
     Sp(<<In(1, 0, "right"), In(2, 1, "other")>>, 10, TRUE),
     Sp(<<In(2, 0, "right"), In(0, 0, "right"), In(2, 1, "right")>>, 10, FALSE) >>   \* a null outpoint among others
MCSpendersBig ==
  MCSpenders \o
  << Sp(<<In(3, 2, "right"), In(1, 0, "right"), In(2, 0, "right")>>, 7000, TRUE),
     Sp(<<In(3, 3, "right")>>, 10, TRUE),
     Sp(<<In(3, 0, "right"), In(3, 1, "amt")>>, 10, TRUE) >>
MCSp == IF Univ = 2 THEN MCSpenders ELSE MCSpendersBig

OpsAll == {"put", "setitem", "get", "edit", "setlook", "fill", "validate"}
OpsCore == {"put", "get", "edit", "setlook"}
OpsUse == {"put", "setitem", "get", "edit", "fill", "validate"}
Cf(nro, w, nl) == [nro |-> nro, w |-> w, nl |-> nl]
MCConfsQ == {Cf(1, TRUE, 1), Cf(0, TRUE, 2), Cf(2, FALSE, 1), Cf(1, TRUE, 0)}
MCConfsT == {Cf(1, TRUE, 1), Cf(0, TRUE, 2), Cf(2, FALSE, 1), Cf(1, TRUE, 0), Cf(2, TRUE, 2), Cf(0, FALSE, 1), Cf(1, FALSE, 2)}
MCConfsOne == {Cf(1, TRUE, 1)}
MCConfsB2 == {Cf(1, TRUE, 1), Cf(2, FALSE, 1)}
MCConfsB == {Cf(1, TRUE, 1), Cf(2, FALSE, 1), Cf(0, TRUE, 2)}
SAll == 1..99
SFillQ == {2, 3, 5, 9}
SValQ == {2, 4, 5, 7, 8}
MCConfsU == {Cf(1, TRUE, 1), Cf(0, TRUE, 2)}

\* ------------------------------------------------------------ bounded exploration
VARIABLES ne, nsl, look0, acts
mvars == <<svars, ne, nsl, look0, acts>>

OtherOf(i) == CHOOSE j \in Ids : j # i
\* kinds: "none" "full" "other" "ostrip" "trail" "trunc" "empty" "junk" "strip" | "obj" "falsy" "raise"
KindsAll == {"none", "full", "other", "ostrip", "trail", "trunc", "empty", "junk", "strip"}
KindsFew == {"none", "full", "other", "trunc", "junk", "strip"}
LKindsAll == {"none", "full", "other", "strip", "obj", "falsy", "raise"}
LKindsFew == {"none", "full", "other", "raise"}
EditBlobsAll(i) == [none |-> {None}, full |-> {Full(i)}, other |-> {Full(OtherOf(i))}, trail |-> {Trail(i)}, trunc |-> {Trunc(i)},
                    empty |-> {Empty}, junk |-> {Junk}, strip |-> IF i \in SegIds THEN {Strip(i)} ELSE {},
                    ostrip |-> IF OtherOf(i) \in SegIds THEN {Strip(OtherOf(i))} ELSE {}]
EditBlobs(i) == UNION {EditBlobsAll(i)[kd] : kd \in EditKinds}
LookAll(i) == [none |-> {LNone}, full |-> {Full(i)}, other |-> {Full(OtherOf(i))}, obj |-> {LObj}, falsy |-> {LFalsy},
               raise |-> {LRaise}, strip |-> IF i \in SegIds THEN {Strip(i)} ELSE {}]
LookChoices(i) == UNION {LookAll(i)[kd] : kd \in LookKinds}

\* the lookup methods a store starts with: nothing known / knows everything / answers with the wrong
\* transaction / raises - in the orders that matter
Knows == [i \in Ids |-> Full(i)]
KnowsStripped == [i \in Ids |-> IF i \in SegIds THEN Strip(i) ELSE Full(i)]
Confused == [i \in Ids |-> Full(OtherOf(i))]
Raises == [i \in Ids |-> LRaise]
Objs == [i \in Ids |-> LObj]
LookInits(cf) == CASE cf.nl = 0 -> {<<>>}
                   [] cf.nl = 1 -> {<<NoLook>>, <<Knows>>, <<Confused>>, <<KnowsStripped>>}
                   [] OTHER -> {<<NoLook, Knows>>, <<Confused, Knows>>, <<Raises, KnowsStripped>>, <<Objs, NoLook>>, <<Knows, Raises>>}

\* compact text for the export: a blob is its class letter + id ("f2", "-", "t1" ..)
Letter == [none |-> "-", full |-> "f", strip |-> "s", trail |-> "x", trunc |-> "t", empty |-> "e", junk |-> "j",
           obj |-> "o", falsy |-> "z", raise |-> "r"]
BStr(b) == IF b.t = 0 THEN Letter[b.c] ELSE Letter[b.c] \o ToString(b.t)
DirStr(dd) == [i \in 1..Cardinality(Ids) |-> BStr(dd[i])]
DirsStr(ds) == [d \in 1..Len(ds) |-> DirStr(ds[d])]
LastStr(l) == CASE l.op = "edit" -> [op |-> "edit", d |-> l.d, i |-> l.i, b |-> BStr(l.b)]
                [] l.op = "setlook" -> [op |-> "setlook", m |-> l.m, i |-> l.i, a |-> BStr(l.a)]
                [] OTHER -> l
Obs == [last |-> LastStr(last'), dirs |-> DirsStr(dirs')]
Log == acts' = Append(acts, Obs)
\* asked at the end, each id on its own (of the long-lived object and of a fresh one): <<res, form, calls>>
FinGets == [i \in 1..Cardinality(Ids) |-> LET g == GetOutcome(conf, dirs', look', i) IN <<g.res, g.form, g.calls>>]
Emit == PrintT(ToJson([k |-> "beh", conf |-> conf, look0 |-> DirsStr(look0), acts |-> acts', fin |-> FinGets]))

MInit == /\ conf \in Confs
         /\ dirs = [d \in 1..NDirs(conf) |-> EmptyDir]
         /\ look \in LookInits(conf) /\ look0 = look
         /\ last = NoOp /\ asked = {} /\ n = 0 /\ ne = 0 /\ nsl = 0 /\ acts = <<>>

Keep == UNCHANGED <<ne, nsl, look0>>
MPut == \E t \in Ids : Put(t) /\ Keep /\ Log
MSetItem == \E k \in Ids : \E t \in {k, OtherOf(k)} : SetItem(k, t) /\ Keep /\ Log
MGet == \E i \in Ids : Get(i) /\ Keep /\ Log
MEdit == /\ ne < MaxEdit
         /\ \E d \in 1..NDirs(conf) : \E i \in Ids : \E b \in EditBlobs(i) : Edit(d, i, b)
         /\ ne' = ne + 1 /\ UNCHANGED <<nsl, look0>> /\ Log
MSetLook == /\ nsl < MaxSetLook
            /\ \E m \in 1..conf.nl : \E i \in Ids : \E a \in LookChoices(i) : SetLook(m, i, a)
            /\ nsl' = nsl + 1 /\ UNCHANGED <<ne, look0>> /\ Log
MFill == \E s \in FillSet \cap (1..Len(Spenders)) : \E ign \in BOOLEAN : Fill(s, ign) /\ Keep /\ Log
MValidate == \E s \in {x \in ValSet \cap (1..Len(Spenders)) : Spenders[x].val} : Validate(s) /\ Keep /\ Log
\* a behaviour whose last step had several allowed outcomes (the order of the fetches of a failing Validate) ends there
Open == n < MaxOps /\ ~(last.op = "validate" /\ last.orders > 1)
On(o) == o \in Ops
MNext == Open /\ (\/ (On("put") /\ MPut)
                  \/ (On("setitem") /\ MSetItem)
                  \/ (On("get") /\ MGet)
                  \/ (On("edit") /\ MEdit)
                  \/ (On("setlook") /\ MSetLook)
                  \/ (On("fill") /\ MFill)
                  \/ (On("validate") /\ MValidate))
MNextE == MNext /\ Emit
MSpec == MInit /\ [][MNext]_mvars
Closed == last.op = "validate" /\ last.orders > 1
MView == <<conf, dirs, look, asked, n, ne, nsl, Closed>>      \* export: one behaviour per transition of this graph
MViewM == <<conf, dirs, look, n, ne, nsl, last>>       \* model runs: everything but the printed history

\* the named properties over the bounded machine (PROPERTY needs temporal formulas over mvars' stuttering)
PMissWritesNothing == [][(last'.op = "get" /\ last'.res # "hit") => dirs' = dirs]_mvars
PReadOnlyKept == [][(last'.op \in {"get", "put", "setitem", "fill", "validate"}) => \A d \in 1..conf.nro : dirs'[d] = dirs[d]]_mvars
PGetWritesOnlyAsked ==
  [][(last'.op = "get") => \A d \in 1..NDirs(conf) : \A j \in Ids :
        dirs'[d][j] # dirs[d][j] => (d = WIdx(conf) /\ j = last'.i /\ last'.src = "look" /\ Usable(j, dirs'[d][j]))]_mvars

\* the spenders, for the harness (which builds the real transactions from them)
ASSUME PrintT(ToJson([k |-> "spenders", sp |-> Spenders]))

\* model mutations (cfg: Usable <- ...): the invariants must bite
AnyTxUsable(i, b) == AsTx(b).ok
=============================================================================
