CONSTANTS NK = 64  NM = 2  MaxPasses = 99
          Shapes <- NoShapesT  Coins <- AllCoins  HashTypes <- StdHashTypes
SPECIFICATION TSpec
CONSTRAINT ReachedDiag
POSTCONDITION Post
CHECK_DEADLOCK FALSE
