CONSTANTS Table = {"sane", "real"}  Mode = "lemma"  Fill = 17
SPECIFICATION Spec
INVARIANTS LemmaEquiv
CHECK_DEADLOCK FALSE
