--------------------------- MODULE X06_Trace_TxStore ---------------------------
(* Code -> spec binding for X06 (1): recorded histories of a real TxDb (real    *)
(* directories, fake lookup callables), longer and over more layers than the   *)
(* enumerated ones, are checked to be behaviours of X06_TxStore.  One logged   *)
(* event = one operation with what was observed: the answer class, which       *)
(* lookup methods were consulted, and what every directory held afterwards.    *)
(* The state is advanced by the spec's own actions; the observation must be    *)
(* the one the action yields, the directories must be the ones it leaves.      *)
(* The deviation switches are those the harness found the tree to have.        *)
EXTENDS X06_TxStore, Json, IOUtils

NOutT(t) == t
SwBadFile == IF "X06_BADFILE" \in DOMAIN IOEnv THEN IOEnv.X06_BADFILE = "1" ELSE FALSE
SwOob == IF "X06_OOB" \in DOMAIN IOEnv THEN IOEnv.X06_OOB = "1" ELSE FALSE
Progress == IF "X06_PROGRESS" \in DOMAIN IOEnv THEN IOEnv.X06_PROGRESS = "1" ELSE FALSE
NoConfs == {}
NoSpenders == <<>>
Ids3 == {1, 2, 3}
Seg2 == {2}

Traces == JsonDeserialize(IOEnv.TRACE_FILE)
ASSUME PrintT(ToJson([k |-> "hdr", n |-> Len(Traces)]))

VARIABLES tid, l, fin
tvars == <<svars, tid, l, fin>>
Ev == Traces[tid].ev
Cur == Ev[l]

TInit == /\ tid \in 1..Len(Traces) /\ l = 1 /\ fin = FALSE
         /\ conf = Traces[tid].conf
         /\ dirs = [d \in 1..NDirs(Traces[tid].conf) |-> EmptyDir]
         /\ look = Traces[tid].look0
         /\ last = NoOp /\ asked = {} /\ n = 0

Step == /\ l' = l + 1 /\ UNCHANGED <<tid, fin>>
        /\ dirs' = Cur.dirs                              \* what the directories really held afterwards
        /\ (Progress => PrintT(ToJson([k |-> "step", tid |-> tid, l |-> l])))
Open == l <= Len(Ev) /\ ~fin

TPut == Open /\ Cur.op = "put" /\ Put(Cur.t) /\ Step
TSetItem == Open /\ Cur.op = "setitem" /\ SetItem(Cur.k, Cur.t) /\ last'.ok = Cur.ok /\ Step
TGet == /\ Open /\ Cur.op = "get" /\ Get(Cur.i)
        /\ last'.res = Cur.res /\ last'.t = Cur.t /\ last'.form = Cur.form /\ last'.calls = Cur.calls
        /\ Step
TEdit == Open /\ Cur.op = "edit" /\ Edit(Cur.d, Cur.i, Cur.b) /\ Step
TSetLook == Open /\ Cur.op = "setlook" /\ SetLook(Cur.m, Cur.i, Cur.a) /\ Step
TFill == /\ Open /\ Cur.op = "fill" /\ FillX(Cur.sp, 0, Cur.ign)
         /\ \/ last'.st = Cur.st /\ last'.st \in {"keyerror", "raise"}
            \/ last'.st = "ok" /\ Cur.st = "ok" /\ last'.us = Cur.us /\ last'.missing = Cur.missing /\ last'.calls = Cur.calls
            \* the transaction is there, the output is not: any exception (the fetches so far have been made)
            \/ last'.st = "oob" /\ Cur.st \in {"raise", "keyerror"}
         /\ Step
TValidate == /\ Open /\ Cur.op = "validate" /\ ValidateX(Cur.sp, 0)
             /\ Cur.res \in last'.res /\ (Cur.res = "fee" => Cur.fee = last'.fee)
             /\ Step
TDone == /\ l = Len(Ev) + 1 /\ ~fin /\ fin' = TRUE
         /\ UNCHANGED <<svars, tid, l>>
         /\ PrintT(ToJson([k |-> "acc", tid |-> tid]))
TNext == TPut \/ TSetItem \/ TGet \/ TEdit \/ TSetLook \/ TFill \/ TValidate \/ TDone
TSpec == TInit /\ [][TNext]_tvars
=============================================================================
