------------------------------ MODULE MC_Merkle ------------------------------
(* Lemmas about Merkle.tla for every leaf count 1..N, and the export of the   *)
(* root terms the harness replays on pycoin.merkle.merkle().                  *)
EXTENDS Merkle, TLC, Json

CONSTANTS N,          \* largest leaf count
          EMIT        \* print the root terms (replay export)
VARIABLE n
L == Leaves(n)

\* the two definitions agree
TwoDefs == Root(L) = NodeHash(L, Height(n), 0)

\* shape: a perfectly levelled tree of the least height that holds n leaves, whose leaves read
\* left to right (a self-paired node read once) are the list
Shape == /\ Depth(Root(L)) = Height(n)
         /\ Balanced(Root(L))
         /\ Fringe(Root(L)) = L
         /\ Pow2(Height(n)) >= n
         /\ (Height(n) > 0 => Pow2(Height(n) - 1) < n)
         /\ \A h \in 0..Height(n) : Width(n, h) = Len(IF h = 0 THEN L ELSE [k \in 1..Width(n, h) |-> NodeHash(L, h, k - 1)])

\* the first few spelled out
Small == /\ (n = 1 => Root(L) = Leaf(1))
         /\ (n = 2 => Root(L) = Node(Leaf(1), Leaf(2)))
         /\ (n = 3 => Root(L) = Node(Node(Leaf(1), Leaf(2)), Node(Leaf(3), Leaf(3))))
         /\ (n = 5 => Root(L) = Node(Node(Node(Leaf(1), Leaf(2)), Node(Leaf(3), Leaf(4))),
                                     Node(Node(Leaf(5), Leaf(5)), Node(Leaf(5), Leaf(5)))))
         /\ (n = 6 => Root(L) = Node(Node(Node(Leaf(1), Leaf(2)), Node(Leaf(3), Leaf(4))),
                                     Node(Node(Leaf(5), Leaf(6)), Node(Leaf(5), Leaf(6)))))

\* every position is committed to, in order: replacing a leaf, or exchanging two, changes the root
Sensitive == /\ \A i \in 1..n : Root([L EXCEPT ![i] = Leaf(0)]) # Root(L)
             /\ \A i, j \in 1..n : i < j => Root([L EXCEPT ![i] = L[j], ![j] = L[i]]) # Root(L)
             /\ (n > 1 => Root(SubSeq(L, 1, n - 1)) # Root(L))

\* ... except for the duplication quirk (CVE-2012-2459): when the last node of some level is a
\* complete subtree standing alone at an odd position, repeating its leaves leaves the root unchanged
DupQuirk == \A k \in 0..Height(n) :
              (n % Pow2(k) = 0 /\ (n \div Pow2(k)) % 2 = 1 /\ n \div Pow2(k) > 1)
                 => Root(L \o SubSeq(L, n - Pow2(k) + 1, n)) = Root(L)
\* and no other repetition of a tail does
DupOnlyThen == \A c \in 1..n :
                 (Root(L \o SubSeq(L, n - c + 1, n)) = Root(L))
                   => \E k \in 0..Height(n) : c = Pow2(k) /\ n % c = 0 /\ (n \div c) % 2 = 1 /\ n \div c > 1

\* the hash function is a parameter of the construction, not of the shape
RECURSIVE Rename(_, _)
Rename(t, f) == IF t.op = "leaf" THEN t ELSE NodeF(f, Rename(t.l, f), Rename(t.r, f))
AnyHash == RootF("h256", L) = Rename(Root(L), "h256")

\* a deliberately wrong rule book (an unpaired last element is promoted unhashed): TwoDefs must fail for it
RECURSIVE RootNoDup(_)
RootNoDup(row) ==
  IF Len(row) = 1 THEN row[1]
  ELSE LET m == Len(row) IN
       RootNoDup([k \in 1..((m + 1) \div 2) |-> IF 2*k <= m THEN Node(row[2*k - 1], row[2*k]) ELSE row[2*k - 1]])
Mut_NoDupAgrees == RootNoDup(L) = NodeHash(L, Height(n), 0)

Emit(m) == IF EMIT THEN PrintT(ToJson([k |-> "root", n |-> m, height |-> Height(m), hashes |-> HashCount(m),
                                       t |-> Root(Leaves(m)), t1 |-> RootF("h256", Leaves(m))]))
           ELSE TRUE
Init == n = 1 /\ Emit(1)
Next == n < N /\ n' = n + 1 /\ Emit(n')
Spec == Init /\ [][Next]_n
=============================================================================
