------------------------------- MODULE MsgEC -------------------------------
(* A small self-contained elliptic-curve group for the C17 specs (the shared *)
(* EC.tla belongs to C01/C02 and was still changing while C17 was built).    *)
(* Short Weierstrass curve y^2 = x^3 + A*x + B over GF(P), P prime, with a   *)
(* generator (Gx, Gy) of prime order N = number of points (cofactor 1);      *)
(* textbook chord-and-tangent law (SEC 1 section 2.2.1).  Points are <<>>    *)
(* (infinity) or <<x, y>> with canonical coordinates.  Scalar multiplication *)
(* goes through the table of multiples of G (every point is one, lemma       *)
(* Cyclic), and is proved equal to repeated addition by MulIsIterated.       *)
(* The tables are tuples built by FoldLeft so that TLC holds them as values. *)
EXTENDS Integers, Sequences, SequencesExt, FiniteSets, TLC

CONSTANTS P, A, B, Gx, Gy, N

Inf == <<>>
Fp == 0..(P - 1)
G == <<Gx, Gy>>

\* inverse tables modulo the primes P and N, by the defining property
InvSeq(m) == FoldLeft(LAMBDA acc, a : Append(acc, CHOOSE b \in 1..(m - 1) : (a * b) % m = 1), <<>>, [a \in 1..(m - 1) |-> a])
InvPSeq == InvSeq(P)
InvNSeq == InvSeq(N)
InvP(a) == InvPSeq[a % P]          \* a not a multiple of P
InvN(a) == InvNSeq[a % N]          \* a not a multiple of N

Rhs(x) == (((((x * x) % P) * x) % P) + ((A * x) % P) + B) % P
OnCurveXY(x, y) == (y * y) % P = Rhs(x)

Neg(p) == IF p = Inf THEN Inf ELSE <<p[1], (P - p[2]) % P>>
Add(p, q) ==
  IF p = Inf THEN q
  ELSE IF q = Inf THEN p
  ELSE IF p[1] = q[1] /\ (p[2] + q[2]) % P = 0 THEN Inf                      \* q = -p
  ELSE LET l == IF p[1] = q[1]
                THEN (((3 * ((p[1] * p[1]) % P) + A) % P) * InvP(2 * p[2])) % P   \* tangent
                ELSE (((q[2] - p[2]) % P) * InvP((q[1] - p[1]) % P)) % P          \* chord
           x3 == (l * l - p[1] - q[1]) % P
       IN <<x3, (l * ((p[1] - x3) % P) - p[2]) % P>>
Sub(p, q) == Add(p, Neg(q))

\* GSeq[k] = k*G for k = 1..N (GSeq[N] = infinity)
GSeq == FoldLeft(LAMBDA acc, i : Append(acc, Add(acc[Len(acc)], G)), <<G>>, [i \in 1..(N - 1) |-> i])
GMul(k) == IF k % N = 0 THEN Inf ELSE GSeq[k % N]
DLog(pt) == IF pt = Inf THEN 0 ELSE CHOOSE k \in 1..(N - 1) : GSeq[k] = pt
MulT(k, Q) == GMul((k % N) * DLog(Q))

Affine == {GSeq[k] : k \in 1..(N - 1)}
Points == Affine \cup {Inf}

\* << point with even y, point with odd y >> for an abscissa x in 0..P-1, or << >>
PointsForX(x) == LET ys == {y \in Fp : OnCurveXY(x, y)} IN
                 IF ys = {} THEN <<>>
                 ELSE << <<x, CHOOSE y \in ys : y % 2 = 0>>, <<x, CHOOSE y \in ys : y % 2 = 1>> >>

(* ------------------------------ lemmas (MC_MsgSign, Mode = "curve") ------------------------------ *)
RECURSIVE MulIter(_, _)
MulIter(k, Q) == IF k = 0 THEN Inf ELSE Add(MulIter(k - 1, Q), Q)
Cyclic == /\ GSeq[N] = Inf /\ Len(GSeq) = N
          /\ Cardinality(Affine) = N - 1
          /\ Affine = {pt \in Fp \X Fp : OnCurveXY(pt[1], pt[2])}            \* every curve point is a multiple of G
InvOk == /\ \A a \in 1..(P - 1) : (a * InvP(a)) % P = 1
         /\ \A a \in 1..(N - 1) : (a * InvN(a)) % N = 1
GroupLaw(p, q) == /\ Add(p, q) \in Points /\ Add(p, q) = Add(q, p)
                  /\ Add(p, Inf) = p /\ Add(p, Neg(p)) = Inf
                  /\ \A r \in Points : Add(Add(p, q), r) = Add(p, Add(q, r))
                  /\ DLog(Add(p, q)) = (DLog(p) + DLog(q)) % N
MulIsIterated(p) == \A k \in 0..(N + 1) : MulT(k, p) = MulIter(k, p)
PointsForXOk == \A x \in Fp : LET r == PointsForX(x) IN
     IF r = <<>> THEN \A pt \in Affine : pt[1] # x
     ELSE /\ r[1] \in Affine /\ r[2] \in Affine /\ r[1][2] % 2 = 0 /\ r[2][2] % 2 = 1 /\ r[2] = Neg(r[1])
          /\ {pt \in Affine : pt[1] = x} = {r[1], r[2]}
=============================================================================
