CONSTANTS Tier = "q"  Depth = 3
CONSTANT Key <- BadKeyNoFields
SPECIFICATION Spec
INVARIANT AnswersOfCurrentFields
CHECK_DEADLOCK FALSE
