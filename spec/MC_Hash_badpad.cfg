\* expected to FAIL: see BadPadZeros
CONSTANTS Lens <- LensPad  Fills = {"mix"}  Pipes = {"ripemd160", "sha256"}  WithVectors = FALSE
          PadZeros <- BadPadZeros
INIT Init
NEXT Next
CONSTRAINT AtStart
INVARIANTS PadOK
CHECK_DEADLOCK FALSE
