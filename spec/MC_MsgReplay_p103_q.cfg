CONSTANTS P = 103  A = 0  B = 5  Gx = 2  Gy = 42  N = 97  WithText = FALSE
CONSTANTS DSet <- DFew  ESet <- ETwo  KSet <- KAll  HSet <- HSix  RSet <- RFew  SSet <- SFive  ERSet <- EOne
SPECIFICATION Spec
CHECK_DEADLOCK FALSE
