CONSTANTS P = 103  A = 0  B = 5  Gx = 2  Gy = 42  N = 97  WithText = FALSE
CONSTANTS DSet <- DThree  ESet <- ETwo  KSet <- KAll  HSet <- HSix  RSet <- RBound  SSet <- SFive  ERSet <- EOne
SPECIFICATION Spec
CHECK_DEADLOCK FALSE
