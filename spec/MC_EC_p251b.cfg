CONSTANTS P = 251  A = 1  B = 4  Gx = 0  Gy = 2  N = 271  Scope = "points"  Iterated = FALSE
SPECIFICATION Spec
INVARIANT GroupLaw
CHECK_DEADLOCK FALSE
