----------------------------- MODULE Trace_ECDSA -----------------------------
(* Code -> spec binding for C01.  A seeded recorder (props/c01.py) drives     *)
(* pycoin's sign / verify / recover with random keys and random 256-bit       *)
(* hashes and logs the calls, the results and - for signing with the default  *)
(* nonce - every HMAC invocation pycoin's rfc6979 module made (key, message,  *)
(* digest).  TLC replays each sign event through RFC6979.tla in oracle mode   *)
(* (one state per HMAC step; an invocation the RFC does not make, or makes    *)
(* with other input, is missing from the log and disables the step), derives  *)
(* the nonce with byte arithmetic, and then                                   *)
(*  Toy = TRUE  (curves of a few hundred points, larger than the enumerated   *)
(*     grids): recomputes (r, s, recid) with the formulas of ECDSA.tla, and   *)
(*     checks verify / recover results against Verify / Recover;              *)
(*  Toy = FALSE (secp256k1, secp256r1: 256-bit orders): checks what needs no  *)
(*     EC arithmetic - the nonce pycoin used IS the RFC 6979 nonce, r and s   *)
(*     lie in [1, q-1], and no nonce is shared by two different (key, hash)   *)
(*     pairs of the trace.  (r, s) themselves are compared in the harness     *)
(*     with the reference implementation of ECDSA.tla's SigOf.)               *)
EXTENDS ECDSA, RFC6979, Json, IOUtils, TLC, TLCExt

CONSTANT Toy
Traces == JsonDeserialize(IOEnv.TRACE_FILE)

VARIABLES tid, li, used      \* used: the <<x, h1, nonce>> triples of the sign events so far
tvars == <<tid, li, used, cs, pc, K, V, T, defs, cands, nonce>>
Ev == Traces[tid]
Cur == Ev[li]
AsSet(sq) == {sq[i] : i \in 1..Len(sq)}

TInit == /\ TLCSet(1, {}) /\ TLCSet(2, [i \in 1..Len(Traces) |-> 0])
         /\ tid \in 1..Len(Traces) /\ li = 1 /\ used = {}
         /\ cs = [oracle |-> <<>>] /\ pc = "idle"
         /\ K = <<>> /\ V = <<>> /\ T = <<>> /\ defs = <<>> /\ cands = <<>> /\ nonce = <<>>

SignBegin == /\ pc = "idle" /\ li <= Len(Ev) /\ Cur.op = "sign"
             /\ Len(Cur.oracle) > 0
             /\ Start([q |-> Cur.q, qlen |-> BBitLen(Cur.q), x |-> Cur.x, h1 |-> Cur.h1, hlen |-> 32,
                       oracle |-> Cur.oracle])
             /\ UNCHANGED <<tid, li, used>>
Drbg == pc \notin {"idle", "done"} /\ Next /\ UNCHANGED <<tid, li, used>>

SignOkToy == LET k0 == BToInt(nonce)
                 d == BToInt(cs.x)
                 z == BModInt(cs.h1, N)
                 sg == SigOf(d, z, k0)
             IN IF SigUsable(sg)
                THEN Cur.r = sg.r /\ Cur.s = sg.s /\ Cur.recid = sg.recid
                ELSE Verify(PubKey(d), z, Cur.r, Cur.s)      \* the retry path is not prescribed
SignOkProd == /\ Cur.k = nonce
              /\ ~BIsZero(Cur.rb) /\ BLess(Cur.rb, cs.q) /\ ~BIsZero(Cur.sb) /\ BLess(Cur.sb, cs.q)
              /\ \A u \in used : u[3] = nonce => (u[1] = cs.x /\ u[2] = cs.h1)
SignEnd == /\ pc = "done" /\ nonce # <<>>
           /\ IF Toy THEN SignOkToy ELSE SignOkProd
           /\ used' = used \cup {<<cs.x, cs.h1, nonce>>}
           /\ pc' = "idle" /\ li' = li + 1
           /\ UNCHANGED <<tid, cs, K, V, T, defs, cands, nonce>>

VerifyEv == /\ pc = "idle" /\ li <= Len(Ev) /\ Cur.op = "verify" /\ Toy
            /\ Cur.res = Verify(<<Cur.Q[1], Cur.Q[2]>>, BModInt(Cur.h1, N), Cur.r, Cur.s)
            /\ li' = li + 1 /\ UNCHANGED <<tid, used, cs, pc, K, V, T, defs, cands, nonce>>
RecoverEv == /\ pc = "idle" /\ li <= Len(Ev) /\ Cur.op = "recover" /\ Toy
             /\ LET z == BModInt(Cur.h1, N)
                    got == AsSet(Cur.res)
                IN /\ Recover(z, Cur.r, Cur.s, Cur.par) \subseteq got
                   /\ got \subseteq VerifyingKeys(z, Cur.r, Cur.s)
             /\ li' = li + 1 /\ UNCHANGED <<tid, used, cs, pc, K, V, T, defs, cands, nonce>>

TNext == SignBegin \/ Drbg \/ SignEnd \/ VerifyEv \/ RecoverEv
TSpec == TInit /\ [][TNext]_tvars

\* register 1: traces matched to their end; register 2: per trace, the number of events matched (reported for rejected traces)
Reached == /\ TLCSet(2, [TLCGet(2) EXCEPT ![tid] = IF @ < li - 1 THEN li - 1 ELSE @])
           /\ IF li = Len(Ev) + 1 THEN TLCSet(1, TLCGet(1) \cup {tid}) ELSE TRUE
Post == LET rej == (1..Len(Traces)) \ TLCGet(1) IN
        PrintT(ToJson([k |-> "rejected", n |-> Len(Traces), ids |-> rej,
                       matched |-> [i \in 1..Len(Traces) |-> IF i \in rej THEN TLCGet(2)[i] ELSE 0 - 1]]))
=============================================================================
