------------------------------ MODULE X06_MC_Keys ------------------------------
(* X06: the values behind the abstract keys of X06_Keychain.                   *)
(*                                                                             *)
(* For every root and every key of the world (X06_KcUniverse) this module      *)
(* builds, with the operators of BIP32.tla (property C09, reused read-only),   *)
(* the TERM of the key: masters from named seeds, every other key by           *)
(* CKDpriv along its path; and from it the terms of what a keychain deals in:  *)
(* the hash160 of the compressed and of the uncompressed SEC form (SEC 1:      *)
(* 02/03 || X and 04 || X || Y), the root's fingerprint, the private key, the  *)
(* public point.  A stdlib evaluator (hmac, hashlib, a 30-line curve - the one *)
(* of C09) finishes the terms into bytes; nothing of it comes from pycoin.     *)
(* Lemma Related: the key at <<B, p>> IS the key at <<A, at(B) \o p>>, as      *)
(* terms - deriving along a split path is deriving along the whole path.       *)
EXTENDS X06_KcUniverse, BIP32, Json

XY64(P) == [t |-> "xy64", a |-> P]
SecU(P) == Cat(<<B(<<4>>), XY64(P)>>)                      \* uncompressed SEC form

MasterNode(m) == IF UInfo[m].kind = "plain"
                 THEN [depth |-> 0, pfp |-> B(<<0, 0, 0, 0>>), cn |-> Idx(FALSE, 0), chain |-> B(<<>>),
                       key |-> Sum(<<Sym("key" \o m, 32)>>)]
                 ELSE Master(Sym("seed" \o m, 16))
NodeOf(k) == PrivPath(MasterNode(k[1]), k[2])
RootNode(r) == NodeOf(UKeyOf(r, <<>>))

KeyRec(k) == LET nd == NodeOf(k) IN
  [k |-> "key", name |-> KeyStr(k), master |-> k[1], path |-> PathStr(k[2]),
   se |-> Ser256(nd.key), xy |-> XY64(PubKey(nd)),
   hc |-> H160(SerP(PubKey(nd))), hu |-> H160(SecU(PubKey(nd))), fp |-> Fingerprint(nd)]
RootRec(r) == [k |-> "root", r |-> r, kind |-> UInfo[r].kind, master |-> UInfo[r].master, at |-> PathStr(UInfo[r].at),
               key |-> KeyStr(UKeyOf(r, <<>>))]

\* one initial state per key; its single step prints the key's terms
VARIABLES cur, shown
Init == cur \in UAllKeys /\ shown = FALSE
Next == /\ ~shown /\ shown' = TRUE /\ cur' = cur
        /\ PrintT(ToJson(KeyRec(cur)))
Spec == Init /\ [][Next]_<<cur, shown>>

Related == \A r \in URoots : \A p \in UAllPaths :
             UInfo[r].kind = "hd" => PrivPath(RootNode(r), p) = NodeOf(UKeyOf(r, p))
\* a public root can follow exactly the non-hardened paths (CKDpub refuses hardened steps)
RECURSIVE PubPath(_, _)
PubPath(x, path) == IF path = <<>> \/ x = Refused THEN x ELSE PubPath(CKDpub(x, Head(path)), Tail(path))
PubDerivable == \A r \in {x \in URoots : UInfo[x].kind = "hd"} : \A p \in UAllPaths :
                  LET y == PubPath(Neuter(RootNode(r)), p) IN
                  IF \E j \in 1..Len(p) : p[j].h THEN y = Refused
                  ELSE y # Refused /\ y.depth = RootNode(r).depth + Len(p)
ASSUME Related
ASSUME PubDerivable
ASSUME PrintT(ToJson([k |-> "world", roots |-> [r \in URoots |-> RootRec(r)],
                      ranges |-> [g \in 1..Len(URanges) |-> [text |-> RangeStr(g), paths |-> [j \in 1..Len(Paths(URanges[g])) |-> PathStr(Paths(URanges[g])[j])]]],
                      singles |-> [s \in 1..Len(USingles) |-> PathStr(USingles[s])],
                      qkeys |-> {KeyStr(k) : k \in UQKeys}, scripts |-> UScripts, nkeys |-> Cardinality(UAllKeys)]))
=============================================================================
