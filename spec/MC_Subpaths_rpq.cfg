CONSTANTS
  Tokens <- TokQ
  MaxTok = 4
  MaxPaths = 40
SPECIFICATION Spec
INVARIANTS MachineIsFold MachineIsDenotation SpellingIrrelevant CountLemma Shape BadIsSticky
ACTION_CONSTRAINT Emit
CHECK_DEADLOCK FALSE
