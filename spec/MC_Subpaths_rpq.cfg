CONSTANTS
  Tokens <- TokQ
  MaxTok = 4
  MaxPaths = 40
SPECIFICATION Spec
ACTION_CONSTRAINT Emit
CHECK_DEADLOCK FALSE
