\* expected to FAIL: see ByteAtMSB
CONSTANTS Configs <- ConfigsSmall  Pool <- PoolSmall  MaxAdds = 2
          ByteAt <- ByteAtMSB
SPECIFICATION Spec
INVARIANTS Layout
CHECK_DEADLOCK FALSE
