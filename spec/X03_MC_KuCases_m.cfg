CONSTANTS Tier = "m"
SPECIFICATION Spec
INVARIANTS PipelineAgrees GridParses Tables Concrete Counts
CHECK_DEADLOCK FALSE
