------------------------------- MODULE MC_Hash -------------------------------
(* Model-checking and spec -> code export for the hash part of C19.           *)
(* TLC runs HashMachine on every message of a grid (length x fill pattern x   *)
(* pipeline) plus the published test messages, checks the padding/type lemmas *)
(* in every state and prints each finished run (message, digest) for the      *)
(* harness, which executes the same call on pycoin in both RIPEMD-160         *)
(* configurations and on hashlib.                                             *)
EXTENDS HashMachine, Json, TLC

CONSTANTS Lens,         \* message lengths
          Fills,        \* fill patterns (names below)
          Pipes,        \* pipelines run on the grid
          WithVectors   \* also run the published test messages

Fill(f, n) == CASE f = "zero" -> [i \in 1..n |-> 0]
                [] f = "ones" -> [i \in 1..n |-> 255]
                [] f = "x80"  -> [i \in 1..n |-> 128]                 \* looks like the padding marker
                [] f = "ramp" -> [i \in 1..n |-> (i - 1) % 256]
                [] f = "mix"  -> [i \in 1..n |-> (7 * i * i + 31 * i + 11) % 256]
                [] f = "len"  -> [i \in 1..n |-> (n + 13 * i) % 256]  \* depends on the length

(* published test messages (RIPEMD-160 home page / FIPS 180-4 examples), as ASCII codes *)
VectorMsgs == <<
  << >>,                                                        \* ""
  << 97 >>,                                                     \* "a"
  << 97, 98, 99 >>,                                             \* "abc"
  << 109, 101, 115, 115, 97, 103, 101, 32, 100, 105, 103, 101, 115, 116 >>,   \* "message digest"
  [i \in 1..26 |-> 96 + i],                                     \* "abcdefghijklmnopqrstuvwxyz"
  [i \in 1..56 |-> 97 + (i - 1) \div 4 + ((i - 1) % 4)],          \* "abcdbcdecdefdefg...nopq"
  [i \in 1..62 |-> IF i <= 26 THEN 64 + i ELSE IF i <= 52 THEN 70 + i ELSE i - 5],  \* "A..Za..z0..9"
  [i \in 1..80 |-> 48 + (i % 10)] >>                              \* 8 times "1234567890"
VectorPipes == {"ripemd160", "sha256"}

LensPad == 0..200
LensAll == 0..260

Init == \/ \E n \in Lens, f \in Fills, p \in Pipes : Start(p, Fill(f, n))
        \/ /\ WithVectors
           /\ \E v \in 1..Len(VectorMsgs), p \in VectorPipes : Start(p, VectorMsgs[v])

EFinish == /\ Finish
           /\ PrintT(ToJson([k |-> "hash", pipe |-> pipe, msg |-> msg0, d |-> out']))
Next == RmdRound \/ ShaRound \/ NextBlock \/ NextStage \/ EFinish

\* teeth of the lemma: a padding rule that forgets the 0x80 marker when it sizes the zero run
\* (boundary 56/57 instead of 55/56) must violate PadOK (MC_Hash_badpad.cfg)
BadPadZeros(n) == (64 - ((n + 8) % 64)) % 64

\* for the padding lemma alone: look at the first state of every run only
AtStart == blk = 0 /\ j = 0 /\ Len(stages) + 1 = Len(Pipeline(pipe))
=============================================================================
