----------------------------- MODULE X06_Keychain -----------------------------
(* X06 (2): the keychain as a STORE - which key may it hand out for a hash     *)
(* after which registrations, and what survives closing and reopening its      *)
(* database file.  (What signing does with the answers is property C05.)       *)
(*                                                                             *)
(* Vocabulary.  A ROOT is a key object a caller holds: a hierarchical (BIP32)  *)
(* node or a plain key; two roots may be RELATED (B is the child A/0 of A).    *)
(* A root is handed over in a FORM: "prv" (with its private key) or "pub"      *)
(* (public only).  A PATH is a sequence of child indices [h, v] (Subpaths.tla, *)
(* property C09); a path RANGE is a string such as 0-2 or 0H/1,3 and denotes   *)
(* the list of paths Subpaths!Paths gives.  The KEY at <<root, path>> is named *)
(* by its position under the master: KeyOf(B, <<1>>) = KeyOf(A, <<0, 1>>).     *)
(* A key has two hash160s, of its compressed and of its uncompressed SEC form. *)
(*                                                                             *)
(* The store:                                                                  *)
(*   reg   registered <<root, path>> pairs    (kept in the database); each is  *)
(*         carried as <<root, path, KeyOf(root, path)>>                        *)
(*   scr   registered pay-to-script scripts   (kept in the database)           *)
(*   sec   <<root, form>> pairs handed over as secrets (memory only)           *)
(*   preg, pscr   what the database FILE holds (what a reopen will see)        *)
(*                                                                             *)
(* THE RULE.  Get(h):                                                          *)
(*   h is the hash160 or the sha256 of a registered script  -> that script     *)
(*   h is a hash160 of key k, and some root handed over as a secret reaches k  *)
(*     (it IS k, or <<root, p>> is registered, is k, and p can be derived in   *)
(*     the form the root was handed over: no hardened step from a public one)  *)
(*       - in form "prv": the answer is k's private key  (and says whether h   *)
(*         was the compressed or the uncompressed hash)                        *)
(*       - only in form "pub": k's public key without a secret, or nothing     *)
(*   otherwise: nothing (the caller's default)                                 *)
(* The answer is a function of reg, scr, sec NOW: not of the order of the      *)
(* calls, not of what was asked before, not of which of two related roots was  *)
(* registered first.  Registering or handing over twice changes nothing.       *)
(* Commit copies reg, scr to the file; Reopen (close the connection without    *)
(* committing, open the file again) starts from the file, with no secrets.     *)
EXTENDS Integers, Sequences, SequencesExt, FiniteSets, TLC, Subpaths

CONSTANTS Roots,        \* root names
          Info,         \* Info[r] = [kind |-> "hd" | "plain", master |-> root name, at |-> path from the master]
          Ranges,       \* a sequence of path-range strings (sequences of characters)
          Singles,      \* a sequence of single paths (for "register this one path for these roots")
          Scripts,      \* script names
          QKeys,        \* the keys <<master, path>> somebody asks about
          BackedSet,    \* {TRUE}: a database file, {FALSE}: in memory, BOOLEAN: both
          NoDerivCheck  \* model mutation: a public root "derives" hardened children too (must break PubOnlyPublic)

Forms == {"prv", "pub"}
KeyOf(r, p) == IF Info[r].kind = "plain" THEN <<r, <<>>>> ELSE <<Info[r].master, Info[r].at \o p>>
Hardened(p) == \E j \in 1..Len(p) : p[j].h
\* can the key at path p be computed from root r held in this form?
Derivable(r, form, p) == NoDerivCheck \/ form = "prv" \/ Info[r].kind = "plain" \/ ~Hardened(p)


\* ----------------------------------------------------------------- answers
\* the roots among the secrets that reach key k, with the form they were handed over in
Reach(regs, secs, k) ==
  {c \in secs : \/ KeyOf(c[1], <<>>) = k
                \/ \E e \in regs : e[3] = k /\ e[1] = c[1] /\ Derivable(c[1], c[2], e[2])}
\* the kinds of answer allowed for a hash160 of key k: "prv", "pub" (the key without its secret), "miss"
KeyAllowed(regs, secs, k) ==
  LET rc == Reach(regs, secs, k) IN
  IF \E c \in rc : c[2] = "prv" THEN {"prv"}
  ELSE IF rc # {} THEN {"pub", "miss"}
  ELSE {"miss"}

\* a query: <<"k", key, "c" | "u">>, <<"s160", script>>, <<"s256", script>>, <<"unknown">>
Queries == {<<"k", k, f>> : k \in QKeys, f \in {"c", "u"}} \cup {<<"s160", s>> : s \in Scripts}
           \cup {<<"s256", s>> : s \in Scripts} \cup {<<"unknown">>}
\* allowed answers: <<"script", s>>, <<"key", k, kind, f>>, <<"miss">>
Allowed(regs, scrs, secs, q) ==
  CASE q[1] \in {"s160", "s256"} -> IF q[2] \in scrs THEN {<<"script", q[2]>>} ELSE {<<"miss">>}
    [] q[1] = "k" -> {IF kd = "miss" THEN <<"miss">> ELSE <<"key", q[2], kd, q[3]>> : kd \in KeyAllowed(regs, secs, q[2])}
    [] OTHER -> {<<"miss">>}

\* circumstances under which known deviations of an implementation show (class tags of a query, from the state NOW)
RootsOf(regs, k) == {e[1] : e \in {x \in regs : x[3] = k}}
Tags(regs, secs, q) ==
  IF q[1] # "k" THEN {}
  ELSE LET k == q[2]
           rel == RootsOf(regs, k) \cup {r \in Roots : KeyOf(r, <<>>) = k} IN
       (IF \E r \in rel : <<r, "pub">> \in secs THEN {"pubsec"} ELSE {})
       \cup (IF Cardinality(RootsOf(regs, k)) >= 2 THEN {"tworoots"} ELSE {})
       \cup (IF \E e \in regs : e[3] = k /\ <<e[1], "pub">> \in secs /\ Hardened(e[2]) /\ Info[e[1]].kind = "hd"
             THEN {"hardpub"} ELSE {})

\* the other observers
RegKeys(regs) == {e[3] : e \in regs}
Interest(regs, scrs) == {<<"k", k>> : k \in RegKeys(regs)} \cup {<<"s", s>> : s \in scrs}
HasSecretsAllowed(secs) == IF \E c \in secs : c[2] = "prv" THEN {TRUE} ELSE IF secs # {} THEN {TRUE, FALSE} ELSE {FALSE}
\* "which registration makes you interested in this hash": any registered pair that is the key
PathsFor(regs, k) == {<<e[1], e[2]>> : e \in {x \in regs : x[3] = k}}

\* ----------------------------------------------------------------- the state machine
VARIABLES backed,     \* is there a database file (else the database lives in memory and cannot be reopened)
          rt,         \* rt[g] = Subpaths!Paths(Ranges[g]): the list of paths range g denotes (computed once, never changes)
          reg, scr, sec, preg, pscr,
          last, asked, n
kvars == <<backed, rt, reg, scr, sec, preg, pscr, last, asked, n>>

RangeList(g) == rt[g]
RangePaths(g) == {rt[g][j] : j \in 1..Len(rt[g])}

KInit == /\ backed \in BackedSet
         /\ rt = [g \in 1..Len(Ranges) |-> Paths(Ranges[g])]
         /\ reg = {} /\ scr = {} /\ sec = {} /\ preg = {} /\ pscr = {}
         /\ last = [op |-> "init"] /\ asked = {} /\ n = 0

\* registering a range from a root held in a form: every path must be derivable - or the very first one is not,
\* and then the call fails having registered nothing (ranges failing midway are not enumerated)
CanAddPaths(r, form, g) == \/ \A p \in RangePaths(g) : Derivable(r, form, p)
                           \/ ~Derivable(r, form, RangeList(g)[1])
AddPaths(r, form, g) ==
  /\ CanAddPaths(r, form, g)
  /\ LET ok == Derivable(r, form, RangeList(g)[1]) IN
     /\ reg' = IF ok THEN reg \cup {<<r, p, KeyOf(r, p)>> : p \in RangePaths(g)} ELSE reg
     /\ last' = [op |-> "addpaths", r |-> r, form |-> form, g |-> g, ok |-> ok, count |-> Len(RangeList(g))]
  /\ UNCHANGED <<backed, rt, scr, sec, preg, pscr, asked>> /\ n' = n + 1
\* one path for several roots at once (all in one form)
AddKeysPath(rs, form, s) ==
  /\ rs # {}
  /\ LET p == Singles[s]  ok == \A r \in rs : Derivable(r, form, p) IN
     /\ ok \/ Cardinality(rs) = 1
     /\ reg' = IF ok THEN reg \cup {<<r, p, KeyOf(r, p)>> : r \in rs} ELSE reg
     /\ last' = [op |-> "addkeyspath", rs |-> rs, form |-> form, s |-> s, ok |-> ok, count |-> Cardinality(rs)]
  /\ UNCHANGED <<backed, rt, scr, sec, preg, pscr, asked>> /\ n' = n + 1
AddSecrets(cs) ==
  /\ sec' = sec \cup cs
  /\ last' = [op |-> "addsecrets", cs |-> cs]
  /\ UNCHANGED <<backed, rt, reg, scr, preg, pscr, asked>> /\ n' = n + 1
ClearSecrets ==
  /\ sec' = {} /\ asked' = {}
  /\ last' = [op |-> "clearsecrets"]
  /\ UNCHANGED <<backed, rt, reg, scr, preg, pscr>> /\ n' = n + 1
AddScript(s) ==
  /\ scr' = scr \cup {s}
  /\ last' = [op |-> "addscript", s |-> s]
  /\ UNCHANGED <<backed, rt, reg, sec, preg, pscr, asked>> /\ n' = n + 1
\* the several-at-once call also commits (everything pending)
AddScripts(ss) ==
  /\ scr' = scr \cup ss
  /\ preg' = reg /\ pscr' = scr'
  /\ last' = [op |-> "addscripts", ss |-> ss]
  /\ UNCHANGED <<backed, rt, reg, sec, asked>> /\ n' = n + 1
Commit ==
  /\ preg' = reg /\ pscr' = scr
  /\ last' = [op |-> "commit"]
  /\ UNCHANGED <<backed, rt, reg, scr, sec, asked>> /\ n' = n + 1
Reopen ==
  /\ backed
  /\ reg' = preg /\ scr' = pscr /\ sec' = {} /\ asked' = {}
  /\ last' = [op |-> "reopen"]
  /\ UNCHANGED <<backed, rt, preg, pscr>> /\ n' = n + 1
Get(q) ==
  /\ last' = [op |-> "get", q |-> q, allowed |-> Allowed(reg, scr, sec, q), tags |-> Tags(reg, sec, q)]
  /\ asked' = asked \cup {<<q, Allowed(reg, scr, sec, q)>>}
  /\ UNCHANGED <<backed, rt, reg, scr, sec, preg, pscr>> /\ n' = n + 1

\* ----------------------------------------------------------------- lemmas about the rule
\* an answer with a key is only given when a secret reaches it; a public answer never when a private one is possible
AnswerReached ==
  last.op = "get" /\ last.q[1] = "k" =>
     \A a \in last.allowed : a[1] = "key" =>
        LET rc == Reach(reg, sec, last.q[2]) IN
        /\ a[2] = last.q[2] /\ a[4] = last.q[3] /\ rc # {}
        /\ a[3] = "prv" <=> \E c \in rc : c[2] = "prv"
\* a public root never yields a key behind a hardened step
PubOnlyPublic ==
  \A k \in QKeys : "pub" \in KeyAllowed(reg, sec, k) =>
     \E c \in sec : c[2] = "pub" /\ (KeyOf(c[1], <<>>) = k \/ \E e \in reg : e[1] = c[1] /\ e[3] = k /\ ~(Info[c[1]].kind = "hd" /\ Hardened(e[2])))
\* handing over the private form of a root upgrades every answer that root reaches, and changes no key
Upgrade ==
  last.op = "addsecrets" =>
     \A c \in last.cs : c[2] = "prv" =>
        \A e \in reg : e[1] = c[1] /\ e[3] \in QKeys => KeyAllowed(reg, sec, e[3]) = {"prv"}
\* the key carried with a registration is the key of its root and path (related roots name the same key)
RegConsistent == \A e \in reg \cup preg : e[3] = KeyOf(e[1], e[2])
\* scripts are found by their own hashes only
ScriptsOnly ==
  \A q \in Queries : \A a \in Allowed(reg, scr, sec, q) : a[1] = "script" => q[1] \in {"s160", "s256"} /\ q[2] = a[2] /\ a[2] \in scr
\* persistence: right after a commit, a reopen changes nothing but the secrets
KPersist == [][(last.op \in {"commit", "addscripts"} /\ last'.op = "reopen") => reg' = reg /\ scr' = scr]_kvars
\* monotone: registering and handing over never turns a private answer into something else
KMonotone == [][(last'.op \in {"addpaths", "addkeyspath", "addsecrets", "addscript", "addscripts", "commit", "get"}) =>
                  \A k \in QKeys : KeyAllowed(reg, sec, k) = {"prv"} => KeyAllowed(reg', sec', k) = {"prv"}]_kvars
\* idempotent: doing the same registration again changes nothing
KIdempotent == [][(last'.op = last.op /\ last.op \in {"addpaths", "addkeyspath", "addsecrets", "addscript"} /\ last' = last) =>
                    reg' = reg /\ scr' = scr /\ sec' = sec]_kvars
KTypeOK == /\ \A e \in reg \cup preg : e[1] \in Roots /\ e[2] \in Seq([h : BOOLEAN, v : Nat])
           /\ scr \subseteq Scripts /\ pscr \subseteq Scripts /\ sec \subseteq Roots \X Forms
=============================================================================
