CONSTANTS MaxLen = 2  MinEdits = 0  MaxEdits = 0
          CoinSet = {"BTC"}  SvSet = {"base"}  IdxSet = {1}
          ScriptIds = {1}  SigSetIds = {2, 3}  BeginSet = {0, 1}  HtBase = {1}
CONSTANT Key <- BadKeyNoBegin
SPECIFICATION Spec
INVARIANTS HistoryIndependent
CHECK_DEADLOCK FALSE
