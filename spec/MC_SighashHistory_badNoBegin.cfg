CONSTANTS MaxLen = 2
          CoinSet = {"BTC"}  SvSet = {"base"}  IdxSet = {1}
          ScriptIds = {1}  SigSetIds = {2, 3}  BeginSet = {0, 1}  HtBase = {1}
CONSTANT Key <- BadKeyNoBegin
SPECIFICATION Spec
INVARIANTS HistoryIndependent
CHECK_DEADLOCK FALSE
