CONSTANTS Mode = "corr"  MaxLen = 0  MaxText = 0  LongZ = 0  LongN = 0  NPay = 0  Rich = TRUE  NPat = 2  NRnd = 600
SPECIFICATION Spec
INVARIANTS Guarantee ValidBasesDecode
CHECK_DEADLOCK FALSE
