------------------------------- MODULE KeyEnc -------------------------------
(* Encodings of keys: the rule book for property C10.                          *)
(*                                                                             *)
(*  SEC   octet string <-> elliptic curve point, SEC 1 v2 sections 2.3.3 and   *)
(*        2.3.4 (compressed 02/03 || X, uncompressed 04 || X || Y), plus the   *)
(*        ANSI X9.62 "hybrid" form 06/07 || X || Y that Bitcoin's consensus    *)
(*        key parsing (and pycoin's non-strict mode) still admits.  The point  *)
(*        at infinity (the single octet 00) is not a public key.               *)
(*  WIF   Base58Check payload  prefix || 32-byte big-endian exponent           *)
(*        [|| 01 when the public key is to be used compressed]  (Bitcoin Core  *)
(*        DecodeSecret/EncodeSecret); the exponent lies in [1, n-1].           *)
(*  KEY   a private key is an integer in [1, n-1]; a public key is an affine   *)
(*        point with coordinates in [0, p-1] satisfying the curve equation.    *)
(*                                                                             *)
(* The curve is the parameter (P, A, B, Gx, Gy, N) of EC.tla.  Everything is   *)
(* stated twice: on BYTES for curves small enough for TLC integers (CL = 1 or  *)
(* 2 coordinate octets: every byte string can be decided), and on the FIELDS   *)
(* of a blob (length shape, prefix, "x < p", "y < p", "on curve", parity) so   *)
(* that the same table judges secp256k1 blobs whose fields an independent      *)
(* reference computes.  Lemma FieldsAgree ties the two together.               *)
(* Written from the standards, not from pycoin's code.                         *)
EXTENDS EC

KByte == 0..255

(* ---------------------------------------------------------------- integers as octets *)
\* number of octets of a field element: ceil(log2(P) / 8)   (SEC 1 2.3.5)
CL == IF P <= 256 THEN 1 ELSE IF P <= 65536 THEN 2 ELSE 3
RECURSIVE BEVal(_)               \* big-endian value (strings of <= 3 octets here)
BEVal(s) == IF s = <<>> THEN 0 ELSE BEVal(SubSeq(s, 1, Len(s) - 1)) * 256 + s[Len(s)]
RECURSIVE BEEnc(_, _)            \* v as exactly k octets, big-endian (v < 256^k)
BEEnc(v, k) == IF k = 0 THEN <<>> ELSE Append(BEEnc(v \div 256, k - 1), v % 256)

(* ------------------------------------------------------------------------- SEC, on fields *)
\* The fields of a candidate blob for a curve with coordinate length cl:
\*   shape  "c" (1 + cl octets), "u" (1 + 2 cl octets), "bad" (any other length, including 0)
\*   pfx    the first octet (-1 if there is none)
\*   xlt    the X octets denote an integer < p          ylt  same for the Y octets ("u" only)
\*   haspt  some point of the curve has abscissa x      ("c" only, meaningful when xlt)
\*   onc    (x, y) satisfies the curve equation         (meaningful when xlt /\ ylt, "u" only)
\*   ypar   y mod 2                                     ("u" only)
Shape(len, cl) == IF len = 1 + cl THEN "c" ELSE IF len = 1 + 2 * cl THEN "u" ELSE "bad"

\* SEC 1 2.3.4 "octet string to elliptic curve point", actions 2 and 3, for a PUBLIC KEY
\* (action 1, the point at infinity, is refused), plus the hybrid form when not strict.
SecOkF(f, strict) ==
  \/ /\ f.shape = "c" /\ f.pfx \in {2, 3}              \* 2.2: Y = 02 or 03, else "invalid"
     /\ f.xlt                                          \* 2.3: X converts to a field element
     /\ f.haspt                                        \* 2.4.1: a square root exists
  \/ /\ f.shape = "u" /\ f.pfx = 4                     \* 3.1: W = 04, else "invalid"
     /\ f.xlt /\ f.ylt                                 \* 3.2, 3.3: both convert to field elements
     /\ f.onc                                          \* 3.4: the point satisfies the equation
  \/ /\ ~strict
     /\ f.shape = "u" /\ f.pfx \in {6, 7}              \* X9.62 4.3.6 hybrid: 06 / 07 carry y~ too
     /\ f.xlt /\ f.ylt /\ f.onc
     /\ f.ypar = f.pfx - 6                             \* ... and y~ must agree with y
\* is the accepted key to be used compressed?  (the form it arrived in)
SecCompressedF(f) == f.shape = "c"

(* ------------------------------------------------------------------------- SEC, on bytes *)
\* the ordinates a given abscissa has on the curve (none or two)
Ys(x) == YsFor(x)
SecX(b) == BEVal(SubSeq(b, 2, 1 + CL))
SecY(b) == BEVal(SubSeq(b, 2 + CL, 1 + 2 * CL))
HasPoint(x) == x < P /\ Ys(x) # {}
FieldsOf(b) ==
  LET sh == Shape(Len(b), CL)
      x == IF sh # "bad" THEN SecX(b) ELSE 0
      y == IF sh = "u" THEN SecY(b) ELSE 0
  IN [shape |-> sh, pfx |-> IF Len(b) >= 1 THEN b[1] ELSE -1,
      xlt |-> sh # "bad" /\ x < P, ylt |-> sh = "u" /\ y < P,
      haspt |-> sh = "c" /\ HasPoint(x),
      onc |-> sh = "u" /\ x < P /\ y < P /\ OnCurveXY(x, y),
      ypar |-> y % 2]

\* the decoder, written directly from 2.3.4 on the octets (no detour through the fields)
NoPt == <<>>
SecDecode(b, strict) ==
  IF Len(b) = 1 + CL /\ b[1] \in {2, 3} THEN
       LET x == SecX(b)  yp == b[1] - 2
           ys == IF x < P THEN {y \in Ys(x) : y % 2 = yp} ELSE {}
       IN IF ys = {} THEN NoPt ELSE <<x, CHOOSE y \in ys : TRUE>>
  ELSE IF Len(b) = 1 + 2 * CL /\ (b[1] = 4 \/ (~strict /\ b[1] \in {6, 7})) THEN
       LET x == SecX(b)  y == SecY(b)
       IN IF x < P /\ y < P /\ OnCurveXY(x, y) /\ (b[1] = 4 \/ y % 2 = b[1] - 6)
          THEN <<x, y>> ELSE NoPt
  ELSE NoPt
SecAccepts(b, strict) == SecDecode(b, strict) # NoPt
SecCompressed(b) == Len(b) = 1 + CL

\* the encoder, SEC 1 2.3.3 (form 2 = hybrid, only ever produced to state the lemmas)
SecEncode(pt, form) ==
  CASE form = "c" -> <<2 + (pt[2] % 2)>> \o BEEnc(pt[1], CL)
    [] form = "u" -> <<4>> \o BEEnc(pt[1], CL) \o BEEnc(pt[2], CL)
    [] form = "h" -> <<6 + (pt[2] % 2)>> \o BEEnc(pt[1], CL) \o BEEnc(pt[2], CL)
FormOf(b) == IF Len(b) = 1 + CL THEN "c" ELSE IF b[1] = 4 THEN "u" ELSE "h"

(* lemmas about SEC, per blob / per point (dS, dL: the blob's strict / non-strict decoding) *)
\* the two statements of the rule agree on every byte string
FieldsAgreeR(b, dS, dL) == LET f == FieldsOf(b) IN (dS # NoPt) = SecOkF(f, TRUE) /\ (dL # NoPt) = SecOkF(f, FALSE)
\* an accepted blob decodes to a curve point and IS the encoding of that point: two different
\* accepted blobs of the same form therefore never decode to the same point (unique encoding)
CanonicalR(b, dS, dL) ==
   /\ dL # NoPt => dL \in Affine /\ SecEncode(dL, FormOf(b)) = b
   /\ dS # NoPt => FormOf(b) # "h"
\* strict acceptance implies non-strict acceptance with the same point
StrictIsLaxR(b, dS, dL) == dS # NoPt => dL = dS
SecLemmasR(b, dS, dL) == FieldsAgreeR(b, dS, dL) /\ CanonicalR(b, dS, dL) /\ StrictIsLaxR(b, dS, dL)
SecLemmas(b) == SecLemmasR(b, SecDecode(b, TRUE), SecDecode(b, FALSE))
\* Decode(Encode(P)) = P in every form and mode that admits the form
DecEncPt(pt) == /\ \A strict \in BOOLEAN : /\ SecDecode(SecEncode(pt, "c"), strict) = pt
                                           /\ SecDecode(SecEncode(pt, "u"), strict) = pt
                /\ SecDecode(SecEncode(pt, "h"), FALSE) = pt
                /\ SecDecode(SecEncode(pt, "h"), TRUE) = NoPt
                /\ SecCompressed(SecEncode(pt, "c")) /\ ~SecCompressed(SecEncode(pt, "u"))
\* a coordinate lifted by the field prime is never accepted, although it names the same residue
NoLift(pt) == \A form \in {"c", "u", "h"}, i \in {0, 1}, j \in {0, 1}, strict \in BOOLEAN :
   (i + j > 0 /\ pt[1] + i * P < 256 ^ CL /\ pt[2] + j * P < 256 ^ CL /\ (form = "c" => j = 0)) =>
       ~SecAccepts(SecEncode(<<pt[1] + i * P, pt[2] + j * P>>, form), strict)

(* ------------------------------------------------------------------------- keys *)
SeOk(k) == 1 <= k /\ k <= N - 1                      \* a private key
PubOf(k) == GMul(k)                                  \* its public key, k*G
PairOk(x, y) == x \in Fp /\ y \in Fp /\ OnCurveXY(x, y)     \* a public key given as integers
\* A public key handed in by a caller is a VALUE: the point at infinity (however it was obtained: k*G with
\* n | k, Q + (-Q), (None, None)) or a pair of integers.  Which object carries the value - a tuple, a list, a
\* point object of this curve or of ANOTHER curve - is irrelevant: the value must be an affine point of THIS curve.
PubOk(v) == v # Inf /\ PairOk(v[1], v[2])
\* the same on the fields of the value (isinf: the point at infinity; halfnone: one coordinate missing;
\* onc: the curve equation holds modulo p).  PubSilentF: not field elements but congruent to a point.
PubOkF(f) == ~f.isinf /\ ~f.halfnone /\ f.xlt /\ f.ylt /\ f.onc
PubSilentF(f) == ~f.isinf /\ ~f.halfnone /\ f.onc /\ ~(f.xlt /\ f.ylt)
\* Such a pair is not a public key (its coordinates are not field elements), yet it is congruent to exactly one:
\* the property names refusal for what is no point and a faithful round trip for every key a caller holds, so
\* the pair is either refused, or read as the point it is congruent to - and then every encoding of the key
\* that comes back is an encoding of THAT point (never of its negative, never undecodable).
LiftRead(x, y) == <<x % P, y % P>>
LiftOutcomeOk(x, y, accepted, secs) ==       \* secs: the points the key's SEC forms decode to
    accepted => \A q \in secs : q = LiftRead(x, y)

(* ------------------------------------------------------------------------- 32-byte exponents, WIF *)
\* n of secp256k1 (SEC 2, 2.4.1), big-endian
SecpN == << 255, 255, 255, 255, 255, 255, 255, 255, 255, 255, 255, 255, 255, 255, 255, 254,
            186, 174, 220, 230, 175, 72, 160, 59, 191, 210, 94, 140, 208, 54, 65, 65 >>
\* p of secp256k1 = 2^256 - 2^32 - 977
SecpP == << 255, 255, 255, 255, 255, 255, 255, 255, 255, 255, 255, 255, 255, 255, 255, 255,
            255, 255, 255, 255, 255, 255, 255, 255, 255, 255, 255, 254, 255, 255, 252, 47 >>
RECURSIVE BytesLT(_, _)          \* big-endian strings of equal length: a < b
BytesLT(a, b) == IF a = <<>> THEN FALSE
                 ELSE IF a[1] # b[1] THEN a[1] < b[1]
                 ELSE BytesLT(Tail(a), Tail(b))
AllZero(a) == \A i \in 1..Len(a) : a[i] = 0
Se32Ok(se, order) == Len(se) = 32 /\ ~AllZero(se) /\ BytesLT(se, order)

\* The text form of a public key on a network: the network's SEC prefix followed by the lower-case hexadecimal
\* digits of the SEC octets (characters are code points).  The prefix is configuration.
HexDigit(v) == IF v < 10 THEN 48 + v ELSE 87 + v
HexOf(b) == [i \in 1..(2 * Len(b)) |-> HexDigit(IF i % 2 = 1 THEN b[(i + 1) \div 2] \div 16 ELSE b[i \div 2] % 16)]
SecText(pfx, b) == pfx \o HexOf(b)

\* arithmetic on 32-byte strings, enough to name the boundary values n-1, n+1, 2^256-1, ...
RECURSIVE DecBytes(_)            \* a - 1 (a # 0)
DecBytes(a) == LET k == Len(a) IN
               IF a[k] > 0 THEN [a EXCEPT ![k] = a[k] - 1]
               ELSE Append(DecBytes(SubSeq(a, 1, k - 1)), 255)
RECURSIVE IncBytes(_)            \* a + 1 (a not all 0xff)
IncBytes(a) == LET k == Len(a) IN
               IF a[k] < 255 THEN [a EXCEPT ![k] = a[k] + 1]
               ELSE Append(IncBytes(SubSeq(a, 1, k - 1)), 0)
Small32(v) == [i \in 1..30 |-> 0] \o <<v \div 256, v % 256>>        \* v < 65536 as 32 octets
Fill32(b) == [i \in 1..32 |-> b]

\* the WIF payload (what Base58Check wraps) and its parser
WifPayload(pfx, se, compressed) == pfx \o se \o (IF compressed THEN <<1>> ELSE <<>>)
IsPfx(p, s) == Len(p) <= Len(s) /\ SubSeq(s, 1, Len(p)) = p
Rej(why) == [ok |-> FALSE, why |-> why, se |-> <<>>, compressed |-> FALSE]
WifParse(pfx, payload, order) ==
  IF ~IsPfx(pfx, payload) THEN Rej("prefix")
  ELSE LET d == SubSeq(payload, Len(pfx) + 1, Len(payload)) IN
    IF Len(d) = 32 THEN
         IF Se32Ok(d, order) THEN [ok |-> TRUE, why |-> "", se |-> d, compressed |-> FALSE] ELSE Rej("range")
    ELSE IF Len(d) = 33 /\ d[33] = 1 THEN
         IF Se32Ok(SubSeq(d, 1, 32), order)
         THEN [ok |-> TRUE, why |-> "", se |-> SubSeq(d, 1, 32), compressed |-> TRUE] ELSE Rej("range")
    ELSE IF Len(d) = 33 THEN Rej("marker")
    ELSE Rej("length")
\* lemmas: the payload of a valid key parses back to it; an accepted payload is the payload of its key
WifDecEnc(pfx, se, c, order) ==
   LET r == WifParse(pfx, WifPayload(pfx, se, c), order)
   IN IF Se32Ok(se, order) THEN r.ok /\ r.se = se /\ r.compressed = c ELSE ~r.ok /\ r.why = "range"
WifEncDec(pfx, payload, order) ==
   LET r == WifParse(pfx, payload, order) IN r.ok => WifPayload(pfx, r.se, r.compressed) = payload
=============================================================================
