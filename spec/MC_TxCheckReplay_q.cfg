CONSTANTS Tier = "q"  Emit = TRUE
SPECIFICATION Spec
INVARIANT Disjoint OnlySizeGap StrippedLeqTotal CumulativeIffFinal CapsRight NoEffect CoinbaseSigned
CHECK_DEADLOCK FALSE
