CONSTANTS Tier = "q"  Emit = TRUE
SPECIFICATION Spec
INVARIANT Disjoint OnlySizeGap StrippedLeqTotal CumulativeIffFinal CheckAgrees CapsRight NoEffect CoinbaseSigned
CHECK_DEADLOCK FALSE
