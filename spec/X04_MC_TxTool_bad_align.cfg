SPECIFICATION Spec
CONSTANTS
  MergeUns <- BadMergeUns
  Tier = "devc"
  Phase = "cases"
  Mutant = "none"
INVARIANTS
  Order
  Conservation
  ReportTrue
  OnlyNamedPaid
  EditsLocal
  Aligned
  RoundTrip
  SignHintOK
  StagesAgree
CHECK_DEADLOCK FALSE
