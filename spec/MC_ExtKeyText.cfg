SPECIFICATION Spec
INVARIANTS RoundTrip SelfReads OwnFamilyOnly
CHECK_DEADLOCK FALSE
