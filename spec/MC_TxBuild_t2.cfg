CONSTANTS Variant = "std"  MaxSum = 8  MaxIns = 3  MaxPays = 4  MaxFee = 3
          ScaleKs = {12}  ScaleRs = {0}
SPECIFICATION Spec
INVARIANTS TypeOK BuildOK DealInv DoneIsBuild Conservation Positivity AtMostOneApart ErrorIffInsufficient OutcomeOK FeeLemma
CHECK_DEADLOCK FALSE
