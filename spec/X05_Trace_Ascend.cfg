SPECIFICATION ASpec
CONSTRAINT Reached
POSTCONDITION Post
CHECK_DEADLOCK FALSE
