------------------------------ MODULE Subpaths ------------------------------
(* Key-path strings and key-path RANGES (C09).                                *)
(*                                                                            *)
(* A path string is a "/"-separated list of child numbers; a child number is  *)
(* decimal digits optionally followed by ONE hardening mark - any of ' p H,   *)
(* all three spell the same thing (BIP32 writes i' or i_H).  A path RANGE     *)
(* additionally allows, in every component, a ","-separated list of items,    *)
(* each a single number or an inclusive span "a-b", the hardening mark applies*)
(* to the whole item.  A range denotes the list of paths obtained by taking   *)
(* one alternative per component, first component most significant, the       *)
(* alternatives of a component in the order written, spans ascending.         *)
(*     0/1H/0-2     => 0/1H/0  0/1H/1  0/1H/2                                 *)
(*     0/2,5,9-11   => 0/2 0/5 0/9 0/10 0/11                                  *)
(*     5-6/7-8p,15  => 5/7H 5/8H 5/15 6/7H 6/8H 6/15                          *)
(* The empty string is the empty path (the node itself).                      *)
(*                                                                            *)
(* Strings are sequences of one-character strings.  A child index is the pair *)
(* [h, v]: hardening flag and a 31-bit value (2^31 + v does not fit TLC).     *)
(* The parser is a finite-state machine (Step) consuming one character at a   *)
(* time; Denote is an independent definition by splitting; MC_Subpaths checks *)
(* that they agree on every string over a small alphabet.                     *)
EXTENDS Integers, Sequences, SequencesExt, FiniteSets, TLC

Digits == <<"0", "1", "2", "3", "4", "5", "6", "7", "8", "9">>
IsDigit(c) == \E i \in 1..10 : Digits[i] = c
DigitVal(c) == (CHOOSE i \in 1..10 : Digits[i] = c) - 1
HardMarks == {"'", "p", "H"}
MaxIndex == 2147483647                     \* 2^31 - 1, the largest child value

\* acc * 10 + d, or -1 when that exceeds 2^31 - 1 (no TLC overflow on the way)
Push(acc, d) == IF acc = -1 \/ acc > 214748364 \/ (acc = 214748364 /\ d > 7) THEN -1 ELSE acc * 10 + d

---------------------------------------------------------------------------
(* The machine.  ph: "start"  a number must begin here                        *)
(*               "lo"     inside the (first) number of an item                *)
(*               "hi0"    just after "-": a number must begin                 *)
(*               "hi"     inside the upper bound                              *)
(*               "hard"   just after a hardening mark: item is closed         *)
(*               "bad"    not a path range                                    *)
(* items: closed items of the open component; comps: closed components.      *)
(* An item is [lo, hi, h].  n counts characters consumed.                     *)
P0 == [ph |-> "start", lo |-> 0, hi |-> 0, items |-> <<>>, comps |-> <<>>, n |-> 0]
Bad(st) == [st EXCEPT !.ph = "bad", !.n = @ + 1]

\* the item under construction, closed with hardening flag h
OpenItem(st, h) == IF st.ph = "lo" THEN [lo |-> st.lo, hi |-> st.lo, h |-> h]
                   ELSE [lo |-> st.lo, hi |-> st.hi, h |-> h]
CloseItem(st, h) == [st EXCEPT !.items = Append(@, OpenItem(st, h)), !.lo = 0, !.hi = 0]
CloseComp(st) == [st EXCEPT !.comps = Append(@, st.items), !.items = <<>>]

Step(st, c) ==
  CASE st.ph = "bad" -> Bad(st)
    [] st.ph = "start" -> IF IsDigit(c) THEN [st EXCEPT !.ph = "lo", !.lo = DigitVal(c), !.n = @ + 1] ELSE Bad(st)
    [] st.ph = "hi0"   -> IF IsDigit(c) THEN [st EXCEPT !.ph = "hi", !.hi = DigitVal(c), !.n = @ + 1] ELSE Bad(st)
    [] st.ph \in {"lo", "hi"} ->
         IF IsDigit(c) THEN
            LET v == Push(IF st.ph = "lo" THEN st.lo ELSE st.hi, DigitVal(c)) IN
            IF v = -1 THEN Bad(st)
            ELSE IF st.ph = "lo" THEN [st EXCEPT !.lo = v, !.n = @ + 1] ELSE [st EXCEPT !.hi = v, !.n = @ + 1]
         ELSE IF c = "-" /\ st.ph = "lo" THEN [st EXCEPT !.ph = "hi0", !.n = @ + 1]
         ELSE IF c \in HardMarks THEN [CloseItem(st, TRUE) EXCEPT !.ph = "hard", !.n = @ + 1]
         ELSE IF c = "," THEN [CloseItem(st, FALSE) EXCEPT !.ph = "start", !.n = @ + 1]
         ELSE IF c = "/" THEN [CloseComp(CloseItem(st, FALSE)) EXCEPT !.ph = "start", !.n = @ + 1]
         ELSE Bad(st)
    [] st.ph = "hard" ->
         IF c = "," THEN [st EXCEPT !.ph = "start", !.n = @ + 1]
         ELSE IF c = "/" THEN [CloseComp(st) EXCEPT !.ph = "start", !.n = @ + 1]
         ELSE Bad(st)

Run(s) == FoldLeft(Step, P0, s)

\* end of input: the list of components, or "bad"
Accepting(st) == \/ st.ph \in {"lo", "hi", "hard"}
                 \/ st.ph = "start" /\ st.n = 0            \* the empty string
Comps(st) == IF st.n = 0 THEN <<>>
             ELSE IF st.ph = "hard" THEN CloseComp(st).comps
             ELSE CloseComp(CloseItem(st, FALSE)).comps

---------------------------------------------------------------------------
(* Meaning of a list of components: the list of index paths.                  *)
Idx(h, v) == [h |-> h, v |-> v]
ItemAlts(it) == [k \in 1..(IF it.hi >= it.lo THEN it.hi - it.lo + 1 ELSE 0) |-> Idx(it.h, it.lo + k - 1)]
CompAlts(items) == FoldLeft(LAMBDA acc, it : acc \o ItemAlts(it), <<>>, items)

RECURSIVE Product(_)
\* all ways to pick one alternative per component; earlier components vary slowest
Product(altss) ==
  IF altss = <<>> THEN << <<>> >>
  ELSE LET rest == Product(Tail(altss)) IN
       FoldLeft(LAMBDA acc, a : acc \o [j \in 1..Len(rest) |-> <<a>> \o rest[j]], <<>>, Head(altss))

Expand(comps) == Product([i \in 1..Len(comps) |-> CompAlts(comps[i])])

\* how many paths (saturating at Cap so that "0-2147483647/0-2147483647" neither overflows nor is expanded)
Cap == 1000000
ItemCount(it) == IF it.hi < it.lo THEN 0 ELSE IF it.hi - it.lo >= Cap THEN Cap ELSE it.hi - it.lo + 1
SatAdd(a, b) == IF a + b >= Cap THEN Cap ELSE a + b
SatMul(a, b) == IF a = 0 \/ b = 0 THEN 0 ELSE IF a > Cap \div b THEN Cap ELSE IF a * b >= Cap THEN Cap ELSE a * b
CompCount(items) == FoldLeft(LAMBDA acc, it : SatAdd(acc, ItemCount(it)), 0, items)
NumPaths(comps) == FoldLeft(LAMBDA acc, items : SatMul(acc, CompCount(items)), 1, comps)

\* The result for a whole string: [ok, comps]; its paths are Expand(comps)
Parse(s) == LET st == Run(s) IN
            IF Accepting(st) THEN [ok |-> TRUE, comps |-> Comps(st)]
            ELSE [ok |-> FALSE, comps |-> <<>>]
Paths(s) == Expand(Parse(s).comps)

\* a string that names exactly one path: no "," and no "-" (what subkey_for_path takes)
IsSinglePath(s) == Accepting(Run(s)) /\ \A i \in 1..Len(s) : s[i] \notin {",", "-"}
SinglePath(s) == Paths(s)[1]

---------------------------------------------------------------------------
(* Independent definition by splitting (used only as a cross-check).          *)
RECURSIVE SplitOn(_, _)
SplitOn(s, sep) ==          \* pieces between separators, as Python's str.split
  IF \A i \in 1..Len(s) : s[i] # sep THEN <<s>>
  ELSE LET k == CHOOSE k \in 1..Len(s) : s[k] = sep /\ \A j \in 1..k-1 : s[j] # sep
       IN <<SubSeq(s, 1, k - 1)>> \o SplitOn(SubSeq(s, k + 1, Len(s)), sep)

AllDigits(s) == s # <<>> /\ \A i \in 1..Len(s) : IsDigit(s[i])
Value(s) == FoldLeft(LAMBDA acc, c : Push(acc, DigitVal(c)), 0, s)      \* -1 = too large

\* an item string -> [ok, lo, hi, h]
DItem(r) ==
  LET h == r # <<>> /\ r[Len(r)] \in HardMarks
      body == IF h THEN SubSeq(r, 1, Len(r) - 1) ELSE r
      parts == SplitOn(body, "-")
      okN(x) == AllDigits(x) /\ Value(x) # -1
  IN IF Len(parts) = 1 /\ okN(parts[1]) THEN [ok |-> TRUE, lo |-> Value(parts[1]), hi |-> Value(parts[1]), h |-> h]
     ELSE IF Len(parts) = 2 /\ okN(parts[1]) /\ okN(parts[2])
          THEN [ok |-> TRUE, lo |-> Value(parts[1]), hi |-> Value(parts[2]), h |-> h]
     ELSE [ok |-> FALSE, lo |-> 0, hi |-> 0, h |-> FALSE]

Denote(s) ==
  IF s = <<>> THEN [ok |-> TRUE, comps |-> <<>>]
  ELSE LET comps == SplitOn(s, "/")
           its == [i \in 1..Len(comps) |-> LET rs == SplitOn(comps[i], ",") IN [j \in 1..Len(rs) |-> DItem(rs[j])]]
       IN IF \A i \in 1..Len(its) : \A j \in 1..Len(its[i]) : its[i][j].ok
          THEN [ok |-> TRUE, comps |-> [i \in 1..Len(its) |-> [j \in 1..Len(its[i]) |->
                                                [lo |-> its[i][j].lo, hi |-> its[i][j].hi, h |-> its[i][j].h]]]]
          ELSE [ok |-> FALSE, comps |-> <<>>]

\* every hardening mark rewritten to one spelling
Respell(s, m) == [i \in 1..Len(s) |-> IF s[i] \in HardMarks THEN m ELSE s[i]]
=============================================================================
