---- MODULE MC_Bloom_TTrace_1790364342 ----
EXTENDS Sequences, TLCExt, Toolbox, MC_Bloom, Naturals, TLC

_expression ==
    LET MC_Bloom_TEExpression == INSTANCE MC_Bloom_TEExpression
    IN MC_Bloom_TEExpression!expression
----

_trace ==
    LET MC_Bloom_TETrace == INSTANCE MC_Bloom_TETrace
    IN MC_Bloom_TETrace!trace
----

_inv ==
    ~(
        TLCGet("level") = Len(_TETrace)
        /\
        size = (1)
        /\
        added = ({<<>>})
        /\
        tweak = (<<0>>)
        /\
        nfuncs = (1)
        /\
        bits = ({0})
    )
----

_init ==
    /\ added = _TETrace[1].added
    /\ size = _TETrace[1].size
    /\ tweak = _TETrace[1].tweak
    /\ nfuncs = _TETrace[1].nfuncs
    /\ bits = _TETrace[1].bits
----

_next ==
    /\ \E i,j \in DOMAIN _TETrace:
        /\ \/ /\ j = i + 1
              /\ i = TLCGet("level")
        /\ added  = _TETrace[i].added
        /\ added' = _TETrace[j].added
        /\ size  = _TETrace[i].size
        /\ size' = _TETrace[j].size
        /\ tweak  = _TETrace[i].tweak
        /\ tweak' = _TETrace[j].tweak
        /\ nfuncs  = _TETrace[i].nfuncs
        /\ nfuncs' = _TETrace[j].nfuncs
        /\ bits  = _TETrace[i].bits
        /\ bits' = _TETrace[j].bits

\* Uncomment the ASSUME below to write the states of the error trace
\* to the given file in Json format. Note that you can pass any tuple
\* to `JsonSerialize`. For example, a sub-sequence of _TETrace.
    \* ASSUME
    \*     LET J == INSTANCE Json
    \*         IN J!JsonSerialize("MC_Bloom_TTrace_1790364342.json", _TETrace)

=============================================================================

 Note that you can extract this module `MC_Bloom_TEExpression`
  to a dedicated file to reuse `expression` (the module in the 
  dedicated `MC_Bloom_TEExpression.tla` file takes precedence 
  over the module `MC_Bloom_TEExpression` below).

---- MODULE MC_Bloom_TEExpression ----
EXTENDS Sequences, TLCExt, Toolbox, MC_Bloom, Naturals, TLC

expression == 
    [
        \* To hide variables of the `MC_Bloom` spec from the error trace,
        \* remove the variables below.  The trace will be written in the order
        \* of the fields of this record.
        added |-> added
        ,size |-> size
        ,tweak |-> tweak
        ,nfuncs |-> nfuncs
        ,bits |-> bits
        
        \* Put additional constant-, state-, and action-level expressions here:
        \* ,_stateNumber |-> _TEPosition
        \* ,_addedUnchanged |-> added = added'
        
        \* Format the `added` variable as Json value.
        \* ,_addedJson |->
        \*     LET J == INSTANCE Json
        \*     IN J!ToJson(added)
        
        \* Lastly, you may build expressions over arbitrary sets of states by
        \* leveraging the _TETrace operator.  For example, this is how to
        \* count the number of times a spec variable changed up to the current
        \* state in the trace.
        \* ,_addedModCount |->
        \*     LET F[s \in DOMAIN _TETrace] ==
        \*         IF s = 1 THEN 0
        \*         ELSE IF _TETrace[s].added # _TETrace[s-1].added
        \*             THEN 1 + F[s-1] ELSE F[s-1]
        \*     IN F[_TEPosition - 1]
    ]

=============================================================================



Parsing and semantic processing can take forever if the trace below is long.
 In this case, it is advised to uncomment the module below to deserialize the
 trace from a generated binary file.

\*
\*---- MODULE MC_Bloom_TETrace ----
\*EXTENDS IOUtils, MC_Bloom, TLC
\*
\*trace == IODeserialize("MC_Bloom_TTrace_1790364342.bin", TRUE)
\*
\*=============================================================================
\*

---- MODULE MC_Bloom_TETrace ----
EXTENDS MC_Bloom, TLC

trace == 
    <<
    ([size |-> 1,added |-> {},tweak |-> <<0>>,nfuncs |-> 1,bits |-> {}]),
    ([size |-> 1,added |-> {<<>>},tweak |-> <<0>>,nfuncs |-> 1,bits |-> {0}])
    >>
----


=============================================================================

---- CONFIG MC_Bloom_TTrace_1790364342 ----
CONSTANTS
    Configs <- ConfigsSmall
    Pool <- PoolSmall
    MaxAdds = 2
    ByteAt <- ByteAtMSB

INVARIANT
    _inv

CHECK_DEADLOCK
    \* CHECK_DEADLOCK off because of PROPERTY or INVARIANT above.
    FALSE

INIT
    _init

NEXT
    _next

CONSTANT
    _TETrace <- _trace

ALIAS
    _expression
=============================================================================
\* Generated on Fri Sep 25 19:25:44 UTC 2026