CONSTANTS P = 283  A = 0  B = 3  Gx = 1  Gy = 2  N = 277
          SecLens <- LensQ
          Stage = "toykey"
          SecPfx = {4}  SecXs = {0}  SecYs = {0}  SecLongYs = {0} DerPos <- PosNone  DerExt <- One0  DerExtLen = 0
SPECIFICATION Spec
INVARIANT NoBad
CHECK_DEADLOCK FALSE
