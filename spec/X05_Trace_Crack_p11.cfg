CONSTANTS P = 11  A = 1  B = 6  Gx = 2  Gy = 4  N = 13
SPECIFICATION TSpec
CHECK_DEADLOCK FALSE
