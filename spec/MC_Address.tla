----------------------------- MODULE MC_Address ------------------------------
(* C08 - the Address rule book over the REAL prefix table (or a synthetic     *)
(* one).  One TLC state per case; every state prints what the rules demand:   *)
(*   Mode "cases": a text built for network N (a good address of kind K for   *)
(*        hash h, or a mutation: other payload length, other witness version, *)
(*        other checksum constant) and, for EVERY network M of the table,     *)
(*        what M must read from it (Decode(M,S)); plus the two offender lists *)
(*        of the cross-acceptance clause: networks M that accept N's address  *)
(*        although they would not produce it for the same script - under the  *)
(*        rules (genuine property of the table) and under a parser that       *)
(*        ignores payload lengths.                                            *)
(*   Mode "keys":  address terms for keys (Key / BIP49 / BIP84 address()).    *)
(*   Mode "hist":  sessions on ONE key object and its public copy: a sequence *)
(*        of questions (address / hash in the compressed, uncompressed or     *)
(*        default form) with copies taken in between; the rules give every    *)
(*        answer from the key and the requested form alone, so the export     *)
(*        lists, per question, the forms whose address may be answered -      *)
(*        independent of the network (the terms are those of mode "keys").    *)
(*   Mode "lemma": nothing is printed; RoundTrip / KindsApart / CrossOk are   *)
(*        invariants (used with the synthetic tables: "sane" must satisfy     *)
(*        them, "clash" and "multibyte" must violate them).                   *)
EXTENDS Address, Json

CONSTANTS Table, Mode, Fill
B == INSTANCE Bech32
VARIABLES c, phase, done
vars == <<c, phase, done>>

Chars(str) == str    \* synthetic tables write hrps as tuples of character codes
Net(sym, a, s, hrp) == [sym |-> sym, p2pkh |-> a, p2sh |-> s, hrp |-> hrp, stub |-> FALSE, chk |-> "sha256d"]
Synth(t) ==
  CASE t = "sane"  -> << Net("AAA", <<0>>, <<5>>, <<97, 97>>), Net("BBB", <<111>>, <<196>>, <<116, 98>>),
                         Net("CCC", <<0>>, <<5>>, <<97, 97>>),          \* same parameters as AAA: allowed
                         Net("DDD", <<28, 184>>, <<28, 189>>, <<>>), Net("EEE", <<48>>, <<>>, <<>>) >>
    [] t = "clash" -> << Net("AAA", <<0>>, <<5>>, <<>>), Net("BBB", <<60>>, <<60>>, <<>>) >>      \* two kinds, one prefix
    [] t = "swap"  -> << Net("AAA", <<0>>, <<5>>, <<>>), Net("BBB", <<5>>, <<0>>, <<>>) >>        \* BBB reads AAA's P2SH as P2PKH
    [] t = "multi" -> << Net("AAA", <<28>>, <<5>>, <<>>), Net("DDD", <<28, 184>>, <<28, 189>>, <<>>) >>  \* apart only by length
    [] t = "chk"   -> << Net("AAA", <<0>>, <<5>>, <<>>), [Net("GGG", <<5>>, <<0>>, <<>>) EXCEPT !.chk = "groestl"] >>
    [] t = "hrp"   -> << Net("AAA", <<0>>, <<5>>, <<97, 97>>), Net("BBB", <<0>>, <<5>>, <<97, 97>>) >>
NetsOf(t) == IF t = "real" THEN RealNets ELSE Synth(t)
\* in mode "lemma" the case names its table (several synthetic tables are checked in one run)
Nets == NetsOf(IF Mode = "lemma" THEN c.tab ELSE Table)
NetIds == DOMAIN Nets

\* ---- hash grid: the first byte matters (it can complete a multi-byte version), the rest is Fill
SecondBytes == {Nets[i].p2pkh[2] : i \in {j \in NetIds : Len(Nets[j].p2pkh) >= 2}}
               \cup {Nets[i].p2sh[2] : i \in {j \in NetIds : Len(Nets[j].p2sh) >= 2}}
Firsts(K) == IF IsB58Kind(K) THEN SecondBytes \cup {0, Fill, 255} ELSE {0, Fill, 255}
Hash(len, first) == IF len = 0 THEN <<>> ELSE <<first>> \o Rep(Fill, len - 1)

\* ---- cases -----------------------------------------------------------------
\* c = [n, kind, len, first, ver, var, pd]: the text AddrOf would give with these (possibly wrong) ingredients.
\* pd (segwit texts): how the data symbols deviate from the 8-to-5 regrouping of the program - `or` is added into the
\* padding bits of the last symbol (0: none; always below 2^PadBits, so no program bit changes), `ext` are further
\* symbols appended.  What such a symbol sequence IS (a program of another length, or nothing) is B!To8's verdict.
NoPd == [or |-> 0, ext |-> <<>>]
PadBits(len) == (5 - ((8 * len) % 5)) % 5
OrVals(len) == IF PadBits(len) = 0 THEN {} ELSE {1, 2 ^ (PadBits(len) - 1), 2 ^ PadBits(len) - 1}
SymsOf(cs) == LET base == B!To5(Hash(cs.len, cs.first)) IN
  (IF cs.pd.or = 0 THEN base ELSE [base EXCEPT ![Len(base)] = @ + cs.pd.or]) \o cs.pd.ext
SegText(hrp, ver, syms, var) == LET cv == B!To8(syms) IN
  IF cv.ok THEN Seg(hrp, ver, cv.bytes, var) ELSE SegX(hrp, ver, syms, var)
Text(cs) == LET N == Nets[cs.n] IN
  IF IsB58Kind(cs.kind) THEN B58(N.chk, Pfx(N, cs.kind) \o Hash(cs.len, cs.first))
  ELSE IF cs.pd = NoPd THEN Seg(N.hrp, cs.ver, Hash(cs.len, cs.first), cs.var)
  ELSE SegText(N.hrp, cs.ver, SymsOf(cs), cs.var)
Good(cs) == /\ cs.len = HashLen(cs.kind) /\ cs.pd = NoPd
            /\ (IsB58Kind(cs.kind) \/ (cs.ver = WitVer(cs.kind) /\ cs.var = Variant(cs.kind)))
CaseP(n, K, len, first, ver, var, pd) == [n |-> n, kind |-> K, len |-> len, first |-> first, ver |-> ver, var |-> var, pd |-> pd]
Case(n, K, len, first, ver, var) == CaseP(n, K, len, first, ver, var, NoPd)
CasesOf(n) ==
  LET N == Nets[n] IN
  UNION {
    IF ~Defined(N, K) THEN {}
    ELSE IF IsB58Kind(K)
    THEN {Case(n, K, 20, f, 0, "") : f \in Firsts(K)}
         \cup {Case(n, K, l, Fill, 0, "") : l \in {0, 1, 19, 21, 32, 33}}
    ELSE {Case(n, K, HashLen(K), f, WitVer(K), Variant(K)) : f \in Firsts(K)}
         \cup {Case(n, K, l, Fill, WitVer(K), Variant(K)) : l \in {HashLen(K) - 1, HashLen(K) + 1, 2, 40}}
         \cup {Case(n, K, HashLen(K), Fill, WitVer(K), IF Variant(K) = "bech32" THEN "bech32m" ELSE "bech32")}
         \cup (IF K = "p2tr" THEN {Case(n, K, 32, Fill, v, "bech32m") : v \in {2, 16}}
                               \cup {Case(n, K, 20, Fill, 1, "bech32m")} ELSE {})
         \* the program of a good address, spelt with other padding: non-zero padding bits, one more symbol
         \cup {CaseP(n, K, HashLen(K), Fill, WitVer(K), Variant(K), [or |-> v, ext |-> <<>>]) : v \in OrVals(HashLen(K))}
         \cup {CaseP(n, K, HashLen(K), Fill, WitVer(K), Variant(K), [or |-> 0, ext |-> <<x>>]) : x \in {0, 31}}
    : K \in AddrKindSet }
AllCases == UNION {CasesOf(n) : n \in NetIds}

SegChars(S) == B!Bech32Encode(S.hrp, <<S.ver>> \o (IF S.e = "segx" THEN S.d ELSE B!To5(S.d)),
                             IF S.var = "bech32" THEN B!BECH32 ELSE B!BECH32M)
TextTerm(S) == IF S.e = "b58c" THEN [op |-> "b58c", chk |-> S.var, a |-> Bytes(S.d)] ELSE [op |-> "chars", a |-> SegChars(S)]

Tok(x) == IF IsPush(x) THEN <<"push", x.len, x.enc, x.id>> ELSE <<"op", x.n>>
Toks(s) == [i \in DOMAIN s |-> Tok(s[i])]
ScriptOf(K) == Toks(Build(K, [h |-> Data(HashLen(K), 1)]))   \* data id 1 stands for the hash

\* what every network M of the table makes of the text S (in table order); for a good address of
\* (kind, h) on N also: x  = M offends the cross-acceptance clause under the rules,
\*                      xl = M offends it under a parser that ignores the payload length,
\*                      lk = the kinds such a parser would read
Expect(cs, S) == [i \in NetIds |->
   LET M == Nets[i]
       D == Decode(M, S)
       h == Hash(cs.len, cs.first) IN
   [m |-> M.sym, ok |-> D.ok, kind |-> D.kind, h |-> D.h,
    script |-> IF D.ok THEN ScriptOf(D.kind) ELSE <<>>,
    x  |-> Good(cs) /\ ~CrossOk(Nets[cs.n], M, cs.kind, h),
    xl |-> Good(cs) /\ ~CrossOkLoose(Nets[cs.n], M, cs.kind, h),
    lk |-> LooseKinds(M, S)]]

\* ---- keys --------------------------------------------------------------------
Keys == JsonDeserialize(IOEnv.KEY_TABLE)   \* [secc |-> bytes, secu |-> bytes] (points computed by the harness)

\* ---- sessions on one key object ------------------------------------------------
\* The object k is made from a secret exponent ("key": a plain private key created with the compression mark `marked`;
\* "bip32": a private hierarchical node, always marked compressed); p is k's public copy, taken by the op "copy" (a
\* later "copy" replaces it).  ask(o, f): the address and the hash of object o in form f ("c" compressed, "u"
\* uncompressed, "d" the object's default).  RULE: the address of a key is a function of the key and the form only -
\* the answer is KeyAddrTerm over the SEC serialisation of that form, whatever was asked before and of whichever
\* object.  The default form of k is the mark it was created with; the property does not say which mark a copy
\* carries, so for ask(p, "d") either form's address is allowed.
MaxHist == 3
HForms == {"c", "u", "d"}
HAsk(o, f) == [a |-> "ask", o |-> o, f |-> f]
HCopy == [a |-> "copy", o |-> "k", f |-> ""]
HOps == {HAsk(o, f) : o \in {"k", "p"}, f \in HForms} \cup {HCopy}
HWellFormed(ops) == /\ ops[Len(ops)].a = "ask"
                    /\ \A i \in DOMAIN ops : ops[i].o = "p" => \E j \in 1..(i - 1) : ops[j] = HCopy
HSeqs == {ops \in UNION {[1..l -> HOps] : l \in 1..MaxHist} : HWellFormed(ops)}
AllowedForms(marked, o, f) == IF f # "d" THEN {f} ELSE IF o = "k" THEN {IF marked THEN "c" ELSE "u"} ELSE {"c", "u"}
HistCases == {[obj |-> "key", marked |-> m, ops |-> ops] : m \in BOOLEAN, ops \in HSeqs}
             \cup {[obj |-> "bip32", marked |-> TRUE, ops |-> ops] : ops \in HSeqs}

InitCases == phase = "cases" /\ c \in AllCases
InitHist  == phase = "hist" /\ c \in HistCases
InitKeys  == phase = "keys" /\ c \in {[n |-> n, key |-> k] : n \in NetIds, k \in DOMAIN Keys}
InitLemma == phase = "lemma" /\ c \in UNION {{[tab |-> t, n |-> n, m |-> m] : n \in DOMAIN NetsOf(t), m \in DOMAIN NetsOf(t)} : t \in Table}
Init == /\ done = FALSE
        /\ CASE Mode = "cases" -> InitCases [] Mode = "keys" -> InitKeys [] Mode = "lemma" -> InitLemma [] Mode = "hist" -> InitHist

EmitCase == LET S == Text(c) N == Nets[c.n] IN
  PrintT(ToJson([k |-> "case", n |-> N.sym, kind |-> c.kind, good |-> Good(c), len |-> c.len, first |-> c.first,
                 ver |-> c.ver, var |-> c.var, pd |-> c.pd, h |-> Hash(c.len, c.first), text |-> TextTerm(S),
                 script |-> IF Good(c) THEN ScriptOf(c.kind) ELSE <<>>,
                 rt |-> IF Good(c) THEN RoundTrip(N, c.kind, Hash(c.len, c.first)) ELSE TRUE,
                 expect |-> Expect(c, S)]))
EmitKey == LET N == Nets[c.n] K == Keys[c.key] IN
  PrintT(ToJson([k |-> "key", n |-> N.sym, key |-> c.key,
                 addr_c |-> IF Defined(N, "p2pkh") THEN <<KeyAddrTerm(N, K.secc)>> ELSE <<>>,
                 addr_u |-> IF Defined(N, "p2pkh") THEN <<KeyAddrTerm(N, K.secu)>> ELSE <<>>,
                 bip49 |-> IF Defined(N, "p2sh") THEN <<Bip49AddrTerm(N, K.secc)>> ELSE <<>>,
                 bip84 |-> IF Defined(N, "p2wpkh") THEN <<Bip84AddrTerm(N, K.secc)>> ELSE <<>>,
                 \* the same address rules over the hash of the UNcompressed serialisation, for callers that ask for it
                 \* (the key's hash is then HASH160 of that form; a library may also refuse - segwit policy - but it
                 \* may not answer with the address of another hash)
                 bip49_u |-> IF Defined(N, "p2sh") THEN <<Bip49AddrTerm(N, K.secu)>> ELSE <<>>,
                 bip84_u |-> IF Defined(N, "p2wpkh") THEN <<Bip84AddrTerm(N, K.secu)>> ELSE <<>>]))
EmitHist == PrintT(ToJson([k |-> "hist", obj |-> c.obj, marked |-> c.marked,
                           ops |-> [i \in DOMAIN c.ops |-> [a |-> c.ops[i].a, o |-> c.ops[i].o, f |-> c.ops[i].f,
                                     allow |-> IF c.ops[i].a = "ask" THEN AllowedForms(c.marked, c.ops[i].o, c.ops[i].f) ELSE {}]]]))
\* one export step per case (the print is the last conjunct: every variable is determined)
Export == /\ ~done /\ done' = TRUE /\ UNCHANGED <<c, phase>>
          /\ CASE phase = "cases" -> EmitCase [] phase = "keys" -> EmitKey [] phase = "hist" -> EmitHist [] OTHER -> TRUE
Next == Export
Spec == Init /\ [][Next]_vars

\* ---- lemmas as invariants (Table is a SET of table names in mode "lemma"; on the real table the same
\*      facts are EXPORTED, because a clash there is a finding about the configuration, not a model error)
HGrid(K) == {Hash(HashLen(K), f) : f \in Firsts(K)}
LemmaRoundTrip == phase = "lemma" => \A K \in AddrKindSet : \A h \in HGrid(K) : RoundTrip(Nets[c.n], K, h)
LemmaKindsApart == phase = "lemma" => \A K1 \in AddrKindSet, K2 \in AddrKindSet : ~KindsClash(Nets[c.n], K1, K2)
LemmaCross == phase = "lemma" => \A K \in AddrKindSet : \A h \in HGrid(K) : CrossOk(Nets[c.n], Nets[c.m], K, h)
LemmaCrossLoose == phase = "lemma" => \A K \in AddrKindSet : \A h \in HGrid(K) : CrossOkLoose(Nets[c.n], Nets[c.m], K, h)
\* RoundTrip fails exactly where two kinds clash (so exporting the clashes is exporting the failures)
LemmaEquiv == phase = "lemma" =>
   ((\A K \in AddrKindSet : \A h \in HGrid(K) : RoundTrip(Nets[c.n], K, h))
      <=> (\A K1 \in AddrKindSet, K2 \in AddrKindSet : ~KindsClash(Nets[c.n], K1, K2)))

\* ---- teeth of the model: deliberately broken tables must break the lemmas (constant-level, checked at start-up)
HS(K) == {<<f>> \o Rep(Fill, HashLen(K) - 1) : f \in {0, Fill, 184, 255}}
TabRoundTrip(T) == \A n \in DOMAIN T : \A K \in AddrKindSet : \A h \in HS(K) : RoundTrip(T[n], K, h)
TabCross(T) == \A n \in DOMAIN T, m \in DOMAIN T : \A K \in AddrKindSet : \A h \in HS(K) : CrossOk(T[n], T[m], K, h)
TabCrossLoose(T) == \A n \in DOMAIN T, m \in DOMAIN T : \A K \in AddrKindSet : \A h \in HS(K) : CrossOkLoose(T[n], T[m], K, h)
ASSUME BrokenTablesBreakTheLemmas ==
  /\ ~TabRoundTrip(Synth("clash"))                                   \* two kinds share a version byte on one network
  /\ TabRoundTrip(Synth("swap")) /\ ~TabCross(Synth("swap"))           \* version bytes coincide across kinds of two networks
  /\ TabCross(Synth("multi")) /\ ~TabCrossLoose(Synth("multi"))        \* apart only because payload lengths are checked
  /\ TabCross(Synth("sane")) /\ TabCrossLoose(Synth("sane")) /\ TabRoundTrip(Synth("sane"))
  /\ TabCross(Synth("chk")) /\ TabCross(Synth("hrp"))
=============================================================================
