-------------------------- MODULE X01_WalletReplay --------------------------
(* Spec -> code binding for X01: enumerate every behaviour of X01_Wallet at   *)
(* the granularity of the wallet's public calls and print it with the state   *)
(* the rule book demands after each call (records, last block index, the      *)
(* balance for 0..KMax confirmations, and for a send the set of outpoints     *)
(* that may be spent).  The harness executes each behaviour on pycoin's       *)
(* SQLite3Wallet, once fed with exactly these operations and once through a   *)
(* real BlockChain, and compares after every call.                            *)
(* The rule-book switches come from the environment (the harness first finds  *)
(* out, with TLC, which named deviations the tree under test has).            *)
EXTENDS X01_Wallet, Json, IOUtils

SwRI == IOEnv.X01_RI = "1"
SwKC == IOEnv.X01_KC = "1"
SwKM == IOEnv.X01_KM = "1"
SwUZ == IOEnv.X01_UZ = "1"
SwZS == IOEnv.X01_ZS = "1"

VARIABLES acts, outs, mids    \* mids: the states after the operations of the delivery in progress
rpvars == <<xvars, acts, outs, mids>>

ObsCore == [ws |-> [q \in OPs |-> Enc(ws'[q])], lbi |-> lbi',
            bal |-> [c \in 1..(KMax + 1) |-> Balance(ws', lbi', c - 1, SW)]]
\* mid: the state after each single operation of a delivery (a caller may hand them over one by one)
Obs == [ws |-> ObsCore.ws, lbi |-> ObsCore.lbi, bal |-> ObsCore.bal, mid |-> <<>>]
ObsD == [ws |-> ObsCore.ws, lbi |-> ObsCore.lbi, bal |-> ObsCore.bal, mid |-> Append(mids, ObsCore)]
Emit == PrintT(ToJson([k |-> "beh", base |-> Base, par |-> par, wt |-> wt, txin |-> txin, own |-> own,
                       cont |-> cont', acts |-> acts', outs |-> outs']))

RInit == XInit /\ acts = <<>> /\ outs = <<>> /\ mids = <<>>
RPick == Pick /\ UNCHANGED <<acts, outs, mids>>
RDeliver == \E B \in SUBSET Hashes :
              /\ Deliver(B)
              /\ acts' = Append(acts, [a |-> "D", B |-> B, chain |-> chain', ops |-> lastops'])
              /\ mids' = <<>>
              /\ IF pend' = <<>> THEN outs' = Append(outs, Obs) /\ Emit ELSE outs' = outs
RProc == /\ (ProcAdd \/ ProcRemove)
         /\ IF atomic
            THEN /\ acts' = acts
                 /\ IF pend' = <<>> THEN outs' = Append(outs, ObsD) /\ mids' = <<>> /\ Emit
                                    ELSE outs' = outs /\ mids' = Append(mids, ObsCore)
            ELSE /\ acts' = Append(acts, [a |-> "A", b |-> Head(pend)[2], i |-> Base + Head(pend)[3]])
                 /\ outs' = Append(outs, Obs) /\ mids' = mids
                 /\ Emit
RMempool == \E t \in Txs :
              /\ Mempool(t)
              /\ acts' = Append(acts, [a |-> "M", t |-> t])
              /\ outs' = Append(outs, Obs) /\ mids' = mids /\ Emit
RSendOk == \E a \in SendAmts : \E X \in SendChoices(ws, lbi, a) :
              /\ SendOkX(a, X)
              /\ acts' = Append(acts, [a |-> "S", amt |-> a, ok |-> TRUE, X |-> X, change |-> SumVal(X) - a - Fee,
                                      allowed |-> TLCEval(SendChoices(ws, lbi, a))])
              /\ outs' = Append(outs, Obs) /\ mids' = mids /\ Emit
RSendFail == \E a \in SendAmts :
              /\ SendFail(a)
              /\ acts' = Append(acts, [a |-> "S", amt |-> a, ok |-> FALSE, X |-> {}, change |-> 0, allowed |-> {}])
              /\ outs' = Append(outs, Obs) /\ mids' = mids /\ Emit
RRewind == \E i \in Base..(Base + N) :
              /\ Rewind(i)
              /\ acts' = Append(acts, [a |-> "R", i |-> i])
              /\ outs' = Append(outs, Obs) /\ mids' = mids /\ Emit
RNext == RPick \/ RDeliver \/ RProc \/ RMempool \/ RSendOk \/ RSendFail \/ RRewind
\* The histories are NOT part of the view: TLC visits every state of X01_Wallet once, with the
\* history of the path that reached it first, and evaluates (hence prints) every transition out
\* of it.  The export therefore holds one concrete behaviour per transition of the model.
RView == XView
=============================================================================
