CONSTANTS Mode = "b58"  MaxLen = 6  MaxText = 4  LongZ = 8  LongN = 40  NPay = 0  Rich = FALSE  NPat = 2  NRnd = 0
SPECIFICATION Spec
INVARIANTS Guarantee ValidBasesDecode LongFormAgrees
CHECK_DEADLOCK FALSE
