CONSTANTS MaxSmall = 1200  MaxExp = 14
SPECIFICATION Spec
INVARIANTS GridOK
CHECK_DEADLOCK FALSE
