CONSTANTS P = 11  A = 1  B = 6  Gx = 2  Gy = 4  N = 13
          SignZ = {1, 2, 3, 4, 5, 6, 7, 8, 9, 10, 11, 12, 13, 14, 15, 16, 17, 18, 19, 20, 21, 22, 23, 24, 25, 26}  VerZ = {1, 2, 3, 4, 5, 6, 7, 8, 9, 10, 11, 12, 13, 14, 26}  VerQ = {2, 3, 4, 5, 6, 7, 8, 9, 10, 11, 12, 13}  RecZ = {1, 2, 3, 4, 5, 6, 7, 8, 9, 10, 11, 12, 13, 14}
SPECIFICATION Spec
INVARIANT ReturnedVerifies
CHECK_DEADLOCK FALSE
