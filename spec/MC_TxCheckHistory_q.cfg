CONSTANTS Tier = "q"  Emit = TRUE  Depth = 3
SPECIFICATION Spec
INVARIANT ObjWellFormed VerdictIsOfCurrentFields CallsChangeNothing FitExact
CHECK_DEADLOCK FALSE
