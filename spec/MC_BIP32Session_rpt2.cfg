CONSTANTS Values = {2147483647}  Wants = {"prv", "pub", "dflt"}  PathSet = "none"  MaxOps = 4  SeedLen = 16  KeyMode = "full"  TwoRoots = FALSE
SPECIFICATION Spec
VIEW View
INVARIANTS CacheTransparent ResultIsPure CompactSound MemoSound PublicStaysPublic ResOk
ACTION_CONSTRAINT Emit
CHECK_DEADLOCK FALSE
