------------------------------ MODULE ElectrumKD ------------------------------
(* Electrum's original ("old style", pre-BIP32) deterministic wallet (C09).   *)
(*                                                                            *)
(*   master private key  k  = parse256(stretch(seed)),                        *)
(*        stretch(seed): x0 = seed; x_{i+1} = SHA256(x_i || seed), 100000 x   *)
(*        (seed is the 32-character hex TEXT, hashed as ASCII)                *)
(*   master public key   mpk = x || y of K = k G (64 bytes, no 0x04)          *)
(*   sequence number     z(n, c) = parse256(SHA256d( dec(n) ":" dec(c) ":" mpk))*)
(*        n = address index, c = 0 receiving / 1 change, dec = decimal ASCII  *)
(*   private child       k + z  (mod order)                                   *)
(*   public child        K + z G                                              *)
(* The public side needs only mpk: watching wallets derive the same keys.     *)
(* Terms as in BIP32.tla (scalars are sums, so going public is structural).   *)
EXTENDS BIP32

H256d(x)   == [t |-> "h256d", a |-> x]
XY64(K)    == [t |-> "xy64", a |-> K]
Stretch(s) == [t |-> "stretch", a |-> s, n |-> 100000]

RECURSIVE DecDigitsOf(_)
DecDigitsOf(n) == IF n < 10 THEN <<n>> ELSE Append(DecDigitsOf(n \div 10), n % 10)
DecAscii(n) == [i \in 1..Len(DecDigitsOf(n)) |-> 48 + DecDigitsOf(n)[i]]
Colon == 58

MasterFromSeed(seedText) == Sum(<<Stretch(seedText)>>)
Mpk(K) == XY64(K)
SeqNum(n, c, K) == H256d(Cat(<<B(DecAscii(n) \o <<Colon>> \o DecAscii(c) \o <<Colon>>), Mpk(K)>>))

PrivChild(k, n, c) == ScalarAdd(SeqNum(n, c, PointOf(k)), k)
PubChild(K, n, c)  == PointAdd(SeqNum(n, c, K), K)

\* a wallet is a scalar (private) or a point (watching only)
EIsPrivate(w) == IsScalar(w)
EPub(w) == IF IsScalar(w) THEN PointOf(w) ELSE w
EChild(w, n, c) == IF IsScalar(w) THEN PrivChild(w, n, c) ELSE PubChild(w, n, c)

\* path strings: "n" (receiving) or "n/c"
EPathIndices(s) == LET p == SinglePath(s) IN IF Len(p) = 1 THEN <<p[1].v, 0>> ELSE <<p[1].v, p[2].v>>
EIsPath(s) == IsSinglePath(s) /\ Len(SinglePath(s)) \in {1, 2} /\ \A i \in 1..Len(SinglePath(s)) : ~SinglePath(s)[i].h

\* named (compact) forms for export
ELiftPrv(o) == Sum(<<Ref(o, "k", 32)>>)
ELiftPub(o) == Pt(<<Ref(o, "K", 33)>>, <<>>)
=============================================================================
