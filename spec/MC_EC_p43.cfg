CONSTANTS P = 43  A = 0  B = 7  Gx = 2  Gy = 12  N = 31  Scope = "full"  Iterated = TRUE
SPECIFICATION Spec
INVARIANT GroupLaw
CHECK_DEADLOCK FALSE
