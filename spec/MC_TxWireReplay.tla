--------------------------- MODULE MC_TxWireReplay ---------------------------
(* Spec -> code binding for C07 (transactions).  TLC enumerates the cases of  *)
(* TxGrid; for each it serialises the abstract transaction (TxWire), runs the *)
(* parser state machine (TxParse) over those bytes, checks the round-trip     *)
(* lemmas in every state, and on reaching a terminal state prints the case    *)
(* with everything the implementation must reproduce: the bytes, the parsed   *)
(* transaction, whether the form is BIP144, and the id terms.                 *)
(*   mode "wire"   bytes = Wire(tx), parsed with segwit allowed               *)
(*   mode "noseg"  bytes = Stripped(tx), parsed with segwit NOT allowed       *)
(*   mode "ext"    bytes = Wire(tx) followed by the unspents extension        *)
(*   mode "ltcmweb" bytes = WireLTC(tx, TRUE): Litecoin's form with the MWEB   *)
(*                 bit set and MWEB byte 0, parsed by the Litecoin dialect     *)
EXTENDS TxParse, TxGrid, Json

CONSTANTS Emit,          \* print the cases (replay) or only check the lemmas
          Bug            \* "none"; or the name of a deliberately wrong serialiser the lemmas must reject

Cases == {[mode |-> "wire", tx |-> t, us |-> <<>>] : t \in AllTx}
         \cup {[mode |-> "noseg", tx |-> t, us |-> <<>>] : t \in FamB2 \cup {x \in FamC : Len(x.outs) <= 1} \cup FamA2}
         \cup {[mode |-> "ltcmweb", tx |-> t, us |-> <<>>] : t \in LtcBase}
         \cup {[mode |-> "ext", tx |-> t, us |-> u] : t \in {x \in ExtBase : Len(x.ins) = 1}, u \in UnspentLists(1)}
         \cup {[mode |-> "ext", tx |-> t, us |-> u] : t \in {x \in ExtBase : Len(x.ins) = 2}, u \in UnspentLists(2)}
         \cup {[mode |-> "ext", tx |-> t, us |-> u] : t \in {x \in ExtBase : Len(x.ins) = 3}, u \in UnspentLists(3)}

\* teeth of the lemmas: a serialiser that forgets empty witness items (the classic slip) must break RoundTrip
BuggyWire(tx) == Wire([tx EXCEPT !.ins = [i \in 1..Len(tx.ins) |->
                          [tx.ins[i] EXCEPT !.wit = SelectSeq(tx.ins[i].wit, LAMBDA w : w # <<>>)]]])
InputOf(c) == CASE c.mode = "wire"  -> IF Bug = "drop-empty-witness-items" THEN BuggyWire(c.tx) ELSE Wire(c.tx)
                [] c.mode = "noseg" -> Stripped(c.tx)
                [] c.mode = "ext"   -> WireExt(c.tx, c.us)
                [] c.mode = "ltcmweb" -> WireLTC(c.tx, TRUE)
ExpectedTx(c) == IF c.mode = "noseg" THEN StripWitness(c.tx) ELSE c.tx

VARIABLE case
vars == <<case, pvars>>

\* ---------------------------------------------------------------- export
ShowIn(x)  == [hash |-> Show(x.hash), index |-> x.index, script |-> Show(x.script), seq |-> x.seq,
               wit |-> [k \in 1..Len(x.wit) |-> Show(x.wit[k])]]
ShowOut(o) == [amount |-> o.amount, script |-> Show(o.script)]
ShowTx(t)  == [version |-> t.version, lock |-> t.lock,
               ins |-> [i \in 1..Len(t.ins) |-> ShowIn(t.ins[i])],
               outs |-> [j \in 1..Len(t.outs) |-> ShowOut(t.outs[j])]]
ShowTerm(t) == [op |-> t.op, arg |-> Show(t.arg)]

Record ==
  [k |-> "tx", mode |-> case.mode,
   tx |-> ShowTx(case.tx),
   us |-> [i \in 1..Len(case.us) |-> ShowOut(case.us[i])],
   \* which entries of the extension the property binds (non-zero amounts)
   usbound |-> [i \in 1..Len(case.us) |-> ~IsZero(case.us[i].amount)],
   bip144 |-> HasWitness(case.tx),
   bytes |-> Show(InputOf(case)),
   stripped |-> Show(Stripped(case.tx)),
   \* what re-serialising the parsed transaction must give: its standard form (an implementation that
   \* cannot represent the MWEB marker writes the fields it has)
   reser |-> IF case.mode = "ltcmweb" THEN Show(Wire(ptx')) ELSE <<"=bytes">>,
   hogex |-> pf'.hogex,
   end |-> pc',
   standard |-> (pc' = "done" /\ pf'.canon /\ ~pf'.superfluous /\ pf'.ext # "bad"),
   parsed |-> IF ptx' = case.tx THEN [same |-> "tx"]
              ELSE IF ptx' = StripWitness(case.tx) THEN [same |-> "stripped"]
              ELSE [same |-> "no", tx |-> ShowTx(ptx')],
   punspents |-> [i \in 1..Len(pf'.unspents) |-> ShowOut(pf'.unspents[i])],
   txid |-> ShowTerm(TxId(case.tx)),
   wtxid |-> ShowTerm(WTxId(case.tx))]

\* The cases are dealt to NCH initial states and picked in a first step, so that TLC's workers
\* share the work of serialising them (initial states are computed by one thread).
NCH == 128
CaseSeq == SetToSeq(Cases)
Init == /\ case \in 0..(NCH - 1)
        /\ pc = "pick" /\ rest = <<>> /\ ptx = <<>> /\ cnt = 0 /\ wi = 0 /\ pf = <<>>
Pick == /\ pc = "pick"
        /\ \E j \in {j \in 1..Len(CaseSeq) : j % NCH = case} :
              /\ case' = CaseSeq[j]
              /\ PStartD(InputOf(CaseSeq[j]), CaseSeq[j].mode # "noseg", CaseSeq[j].mode = "ltcmweb")
Next == \/ Pick
        \/ /\ pc # "pick" /\ PNext /\ UNCHANGED case
           /\ (Emit /\ pc' \in Terminal) => PrintT(ToJson(Record))
Spec == Init /\ [][Next]_vars

\* ---------------------------------------------------------------- lemmas, checked in every state
AllPicked == pc = "pick" => Len(CaseSeq) = Cardinality(Cases)
TypeOK == (pc = "version" => IsTx(case.tx)) /\ WellFormed(rest)
NoFail == pc \notin {"fail", "unspec"}
Progress == pc \in Terminal \/ ENABLED Next
\* Parse(SerializeTx(tx)) = tx; all input consumed; the form is recognised as standard;
\* re-serialising what was parsed gives the input back
RoundTrip == pc = "done" =>
               /\ ptx = ExpectedTx(case)
               /\ pf.unspents = case.us
               /\ rest = <<>>
               /\ Standard
               /\ IF case.mode = "ltcmweb"
                  THEN pf.hogex /\ WireLTC(ptx, TRUE) = InputOf(case)
                  ELSE ~pf.hogex /\ WireExt(ptx, pf.unspents) = InputOf(case)
\* the extended form is used iff some witness stack is non-empty; it is recognisable by marker and flag
Bip144Iff == pc = "version" =>
               LET w == Wire(case.tx) IN
               /\ HasWitness(case.tx) <=> (Take(Drop(w, 4), 2) = Marker)
               /\ ~HasWitness(case.tx) => w = Stripped(case.tx)
               /\ HasWitness(case.tx) => Size(w) > Size(Stripped(case.tx)) + 2
\* Litecoin: flag 0x08 / 0x09 exactly as the witness data dictates; the Bitcoin dialect does not know them
LtcFlagLemma == (pc = "version" /\ case.mode = "ltcmweb") =>
               LET w == InputOf(case) IN
               /\ Take(Drop(w, 4), 2) = Lit(<<0, IF HasWitness(case.tx) THEN 9 ELSE 8>>)
               /\ Size(w) = Size(Wire(case.tx)) + (IF HasWitness(case.tx) THEN 1 ELSE 3)
\* the id does not depend on witness data; the witness id does
IdLemma == pc = "version" =>
               /\ TxId(case.tx) = TxId(StripWitness(case.tx))
               /\ HasWitness(case.tx) => WTxId(case.tx) # WTxId(StripWitness(case.tx))
               /\ ~HasWitness(case.tx) => WTxId(case.tx) = TxId(case.tx)
=============================================================================
