----------------------------- MODULE TxBuildApa -----------------------------
(* Optional cross-check with Apalache (SMT, unbounded integers): the closed   *)
(* form of TxBuild!Share satisfies the rule book for EVERY pool >= n and      *)
(* n in 1..4 split outputs - conservation, positivity, at most one apart,    *)
(* earlier >= later.  TLC checks the same on small values; the harness does   *)
(* not rely on this module (./check runs it only if apalache-mc is there,     *)
(* under a timeout, thorough tier).                                           *)
EXTENDS Integers

VARIABLES
  \* @type: Int;
  pool,
  \* @type: Int;
  n

Share(r) == (pool \div n) + (IF r < pool % n THEN 1 ELSE 0)
ShareIf(r) == IF r < n THEN Share(r) ELSE 0

Init == /\ n \in 1..4
        /\ pool \in Nat
        /\ pool >= n
Next == UNCHANGED <<pool, n>>

Inv == /\ ShareIf(0) + ShareIf(1) + ShareIf(2) + ShareIf(3) = pool
       /\ \A r \in 0..3 : r < n => Share(r) >= 1
       /\ \A r \in 0..3 : \A s \in 0..3 :
            (r < s /\ s < n) => (Share(r) - Share(s) = 0 \/ Share(r) - Share(s) = 1)
=============================================================================
