CONSTANTS MaxOps = 4  MaxEdit = 2  MaxSetLook = 1  Univ = 2  Ops <- OpsCore
          EditKinds <- KindsFew  LookKinds <- LKindsFew  FillSet <- SAll  ValSet <- SAll
          Ids <- MCIds  SegIds <- MCSegIds  NOut <- MCNOut  Confs <- MCConfsQ  Spenders <- MCSp
          BadFileRaises <- Yes  OobIndexError <- No
INIT MInit
NEXT MNext
VIEW MViewM
INVARIANTS TypeOK AnswerIsAsked WrittenThrough PutThenGet FilledRight ValidatedRight AskAgainSame
PROPERTIES PMissWritesNothing PReadOnlyKept PGetWritesOnlyAsked
CHECK_DEADLOCK FALSE
