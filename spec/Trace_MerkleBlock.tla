-------------------------- MODULE Trace_MerkleBlock --------------------------
(* Code -> spec binding for C14.  A recorded run is ONE call into pycoin with *)
(* its inputs (as the terms the bytes were made from) and what came back:     *)
(*                                                                            *)
(*  kind "mb"     network.message.parse("merkleblock", ..): total n, flag     *)
(*                bytes, hashes and the header's merkle root as terms over    *)
(*                the block's symbolic leaves; res = [ok, tx (terms)].        *)
(*                TLC runs the BIP37 verifier of PartialMerkle.tla over the   *)
(*                logged proof, node by node, and compares the logged result  *)
(*                with what the property demands (PartialMerkle.Demand).      *)
(*                The recorder's own claim "this proof is honest" is checked  *)
(*                too (TLCSet 2: a recorder bug, not a finding).              *)
(*  kind "block"  Block.parse of a block of n transactions whose header       *)
(*                carries the logged root term: accepted iff that term is     *)
(*                Merkle.Root of the n leaves.  The block id the spec assigns *)
(*                is printed as a term; the harness evaluates it and compares *)
(*                it with the logged id.                                      *)
(*  kind "merkle" merkle(hashes) on n leaves: the root term is printed for    *)
(*                the same comparison.                                        *)
EXTENDS PartialMerkle, BlockWire, Json, IOUtils, TLCExt, TLC

Traces == JsonDeserialize(IOEnv.TRACE_FILE)
VARIABLES tid, vs
T == Traces[tid]
Idle == [st |-> "idle"]

PrintTerms ==
  CASE T.kind = "merkle" -> PrintT(ToJson([k |-> "mroot", tid |-> tid, t |-> Root(Leaves(T.n))]))
    [] T.kind = "block" -> PrintT(ToJson([k |-> "bid", tid |-> tid, id |-> IdDisplay(T.h), image |-> HeaderParts(T.h),
                                          accept |-> (T.h.root = Root(Leaves(T.n)))]))
    [] OTHER -> TRUE

TInit == /\ TLCSet(1, {}) /\ TLCSet(2, {})
         /\ tid \in 1..Len(Traces)
         /\ vs = IF T.kind = "mb" THEN VInit(T.n, T.flags, T.hashes, T.want) ELSE Idle
         /\ PrintTerms
TDescend == T.kind = "mb" /\ CanDescend(vs) /\ vs' = DescendOf(vs) /\ UNCHANGED tid
TAscend  == T.kind = "mb" /\ CanAscend(vs)  /\ vs' = AscendOf(vs)  /\ UNCHANGED tid
TFinish  == T.kind = "mb" /\ CanFinish(vs)  /\ vs' = FinishOf(vs)  /\ UNCHANGED tid
TNext == TDescend \/ TAscend \/ TFinish
TSpec == TInit /\ [][TNext]_<<tid, vs>>

Lv == Leaves(T.n)
Conforms ==
  CASE T.kind = "mb" ->
         LET d == Demand(vs, Lv) IN
         CASE d = "accept" -> T.res.ok /\ T.res.tx = vs.matched
           [] d = "reject" -> ~T.res.ok
           [] OTHER -> TRUE
    [] T.kind = "block" -> T.res.ok = (T.h.root = Root(Lv))
    [] OTHER -> TRUE
RecorderOk == (T.kind = "mb" /\ T.honest) => Demand(vs, Lv) = "accept"
Final == IF T.kind = "mb" THEN Done(vs) ELSE TRUE
Reached ==
  IF Final
  THEN /\ (Conforms => TLCSet(1, TLCGet(1) \cup {tid}))
       /\ (~RecorderOk => TLCSet(2, TLCGet(2) \cup {tid}))
       /\ (T.kind = "mb" => PrintT(ToJson([k |-> "tv", tid |-> tid, demand |-> Demand(vs, Lv), core |-> vs.st, fail |-> vs.fail,
                                                  root |-> vs.ret, matched |-> vs.matched])))
  ELSE TRUE
Post == PrintT(ToJson([k |-> "rejected", n |-> Len(Traces), ids |-> (1..Len(Traces)) \ TLCGet(1), badrec |-> TLCGet(2)]))
=============================================================================
