CONSTANTS Tier = "t"  Emit = FALSE
SPECIFICATION Spec
INVARIANT TypeOK NoFail Progress RoundTrip WidthLemma TxStd
CHECK_DEADLOCK FALSE
