CONSTANTS Tier = "t"  Emit = FALSE
SPECIFICATION Spec
INVARIANT TypeOK NoFail RoundTrip WidthLemma TxStd
CHECK_DEADLOCK FALSE
