CONSTANTS Values = {0, 1}  Wants = {"prv", "pub", "dflt"}  PathSet = "small"  MaxOps = 3  SeedLen = 16  KeyMode = "full"  TwoRoots = FALSE
SPECIFICATION Spec
VIEW View
INVARIANTS CacheTransparent ResultIsPure CompactSound MemoSound PublicStaysPublic ResOk
CHECK_DEADLOCK FALSE
