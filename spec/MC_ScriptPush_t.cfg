CONSTANTS Lens <- LensThorough
          Firsts = {0, 1, 2, 16, 17, 75, 76, 128, 129, 130, 255}  Fills = {0, 171, 255}  AllOneByte = TRUE  SmallTotal = 90
          RawFull = 2  RawAlpha = {0, 1, 2, 3, 75, 76, 77, 78, 79, 80, 81, 96, 97, 99, 104, 255}  RawMax = 4  Export = TRUE
SPECIFICATION Spec
INVARIANTS TypeOK InvEncoder InvEnc InvTrunc InvFetch InvAlt InvHuge InvParse
CHECK_DEADLOCK FALSE
