---------------------------- MODULE ParseDispatch ----------------------------
(* C18 - text parsing is total, faithful and keeps kinds apart.               *)
(*                                                                            *)
(* Rule book: what each text-parsing entry point of a network must make of a  *)
(* text, as a function of the text's STRUCTURE and of the network's record    *)
(* (NetTable).  Sources: Base58Check payload layouts of addresses (Address),  *)
(* WIF (version ++ 32-byte exponent [++ 01], exponent in 1..n-1), BIP32       *)
(* serialisation (version(4) depth(1) fingerprint(4) index(4) chain(32)       *)
(* key(33); key = 00 ++ exponent for private versions, a compressed SEC1      *)
(* point for public versions; BIP32 "invalid extended keys" test vector 5),   *)
(* SEC1 point encodings, BIP173/350 (through Address), and the documented     *)
(* text forms of pycoin's parse API ("H:" hex seed, "P:" passphrase, "E:"     *)
(* electrum, "<X>/<Y>", "<X>,even", numerals, "<SYM>SEC:" + hex, scripts).    *)
(*                                                                            *)
(* A TEXT is represented by its structure T (what an independent decoder      *)
(* reads from it; bytes are concrete):                                        *)
(*   f = "b58c"   valid Base58Check under checksum function w, payload d      *)
(*   f = "b58bad" Base58 text whose checksum does not match                   *)
(*   f = "seg"    valid Bech32/Bech32m text: hrp a, version v, program d,     *)
(*                checksum constant w ("bech32" / "bech32m")                  *)
(*   f = "segbad" Bech32-like text with a wrong checksum                      *)
(*   f = "bech"   valid Bech32/Bech32m text (hrp a, data symbols d, constant  *)
(*                w) that is NOT of the segwit shape: the data part is empty, *)
(*                or what follows the first symbol does not regroup into      *)
(*                bytes (BIP173: more than 4 or non-zero padding bits).  No   *)
(*                entry point has a use for it: every one answers none        *)
(*   f = "colon"  tag a, ':', rest; w = "hex" (rest is hex for bytes d) or    *)
(*                "nothex"; w2 = "utf8" (d2 = UTF-8 bytes of rest) / "noutf8" *)
(*                The tag ends at the FIRST ':'; the rest is EVERYTHING after *)
(*                it and may contain ':' itself (then it is no hex)           *)
(*   f = "num"    a plain numeral of v digits; w = "dec" (all digits decimal: *)
(*                d = value read in base 10) or "hex" (d = value in base 16); *)
(*                d2 = the bytes the digits denote as hex (v even), else <<>> *)
(*   f = "pair"   X sep Y: w = sep ("/" or ","), d = X, w2 = "even" | "odd" | *)
(*                "num", d2 = Y (values as minimal big-endian bytes)          *)
(*   f = "hexsec" textual prefix a (not empty) followed by hex for bytes d    *)
(*                (w = "hex"), or by something that is not hex (w = "nothex") *)
(*   f = "script" the usual notation of the token script toks                 *)
(*   f = "junk"   anything else (a = characters): totality only               *)
(* `on` is the answer of the curve oracle for the one place of the text where *)
(* a point is named (extended public key, SEC bytes, X[/Y] of a pair, the 64  *)
(* bytes of an electrum public key): TRUE iff the coordinates are below the   *)
(* field prime and (for X alone) some Y / (for X,Y) this Y satisfies the      *)
(* curve equation.  TLC cannot take 256-bit square roots: the oracle bit is   *)
(* supplied with the text (from the table KnownX below, which the harness     *)
(* verifies, or by the harness's own affine arithmetic for recorded texts).   *)
(*                                                                            *)
(* An OUTCOME is none, an object (kind + value) or "any" (the rules leave the *)
(* answer open; the call must still not raise).  Out(N, e, T) is the SET of   *)
(* outcomes entry point e of network N may produce for T.                     *)
EXTENDS Address

TX(f) == [f |-> f, d |-> <<>>, d2 |-> <<>>, a |-> <<>>, v |-> 0, w |-> "", w2 |-> "", on |-> FALSE, toks |-> <<>>]

ONone == [r |-> "none", k |-> "", p |-> FALSE, d |-> <<>>, d2 |-> <<>>, b |-> FALSE, s |-> "", toks |-> <<>>]
OAny  == [ONone EXCEPT !.r = "any"]
Obj(k) == [ONone EXCEPT !.r = "obj", !.k = k]
OContract(K, h) == [Obj("contract") EXCEPT !.s = K, !.d = h]        \* the script Build(K, h)
OScript(toks) == [Obj("script") EXCEPT !.toks = toks]
OKeyPrv(se, comp) == [Obj("key") EXCEPT !.p = TRUE, !.d = se, !.b = comp]
OKeyPub(x, odd, comp) == [Obj("key") EXCEPT !.d = x, !.d2 = <<odd>>, !.b = comp]
OExt(fam, prv, body) == [Obj(fam) EXCEPT !.p = prv, !.d = body]     \* body = the 74 bytes after the version
OSeed(ms) == [Obj("seed32") EXCEPT !.p = TRUE, !.d = ms]            \* BIP32 master node of HMAC-SHA512("Bitcoin seed", ms)
OElectrum(s, d) == [Obj("electrum") EXCEPT !.s = s, !.d = d, !.p = (s # "pub")]

Ch(str) == str    \* (character tuples are written as tuples of codes)
TagH == <<72>>  TagP == <<80>>  TagE == <<69>>

\* ---- SEC1 ------------------------------------------------------------------
SecX(b) == SubSeq(b, 2, 33)
SecY(b) == SubSeq(b, 34, 65)
ValidSec(b, on) == \/ Len(b) = 33 /\ b[1] \in {2, 3} /\ ValidCoord(SecX(b)) /\ on
                   \/ Len(b) = 65 /\ b[1] = 4 /\ ValidCoord(SecX(b)) /\ ValidCoord(SecY(b)) /\ on
HybridSec(b) == Len(b) = 65 /\ b[1] \in {6, 7}      \* X9.62 hybrid form: left open
KeyOfSec(b) == IF Len(b) = 33 THEN OKeyPub(SecX(b), b[1] - 2, TRUE)
               ELSE OKeyPub(SecX(b), b[65] % 2, FALSE)

\* ---- checksummed Base58 kinds ------------------------------------------------
IsB58(N, T) == T.f = "b58c" /\ T.w = N.chk
AsAddr(T) == B58(T.w, T.d)
P2(N, K, T) == IF IsB58(N, T) /\ Reads(N, K, AsAddr(T)) THEN {OContract(K, HashIn(N, K, AsAddr(T)))} ELSE {ONone}

WifBody(N, T) == Drop(T.d, Len(N.wif))
Wif(N, T) ==
  IF ~(IsB58(N, T) /\ N.wif # <<>> /\ StartsWith(T.d, N.wif)) THEN {ONone}
  ELSE LET b == WifBody(N, T) IN
       IF Len(b) = 32 /\ ValidSecret(b) THEN {OKeyPrv(b, FALSE)}
       ELSE IF Len(b) = 33 /\ b[33] = 1 /\ ValidSecret(SubSeq(b, 1, 32)) THEN {OKeyPrv(SubSeq(b, 1, 32), TRUE)}
       ELSE {ONone}

ExtPfx(N, fam, pp) ==
  CASE fam = "bip32" -> IF pp = "prv" THEN N.b32prv ELSE N.b32pub
    [] fam = "bip49" -> IF pp = "prv" THEN N.b49prv ELSE N.b49pub
    [] fam = "bip84" -> IF pp = "prv" THEN N.b84prv ELSE N.b84pub
ExtKeyData(body) == SubSeq(body, 42, 74)
Ext(N, fam, pp, T) ==
  LET pf == ExtPfx(N, fam, pp) IN
  IF ~(IsB58(N, T) /\ pf # <<>> /\ StartsWith(T.d, pf) /\ Len(T.d) = Len(pf) + 74) THEN {ONone}
  ELSE LET body == Drop(T.d, Len(pf))
           kd == ExtKeyData(body) IN
       \* BIP32 (test vector 5) calls a key field that does not match the version invalid; pycoin's own
       \* test-suite feeds a private key under a public version and expects it to be read: left open
       \* between none and the object the key field denotes
       LET prv == IF kd[1] = 0 /\ ValidSecret(Tail(kd)) THEN {OExt(fam, TRUE, body)} ELSE {}
           pub == IF ValidSec(kd, T.on) THEN {OExt(fam, FALSE, body)} ELSE {}
       IN IF pp = "prv" THEN (IF prv # {} THEN prv ELSE {ONone} \cup pub)
          ELSE (IF pub # {} THEN pub ELSE {ONone} \cup prv)

\* ---- segwit ------------------------------------------------------------------
AsSeg(T) == Seg(T.a, T.v, T.d, T.w)
SegK(N, K, T) == IF T.f = "seg" /\ Reads(N, K, AsSeg(T)) THEN {OContract(K, T.d)} ELSE {ONone}

\* ---- colon forms ---------------------------------------------------------------
Seed(N, T) ==
  IF T.f # "colon" THEN {ONone}
  ELSE IF T.a = TagH THEN (IF T.w = "hex" THEN {OSeed(T.d)} ELSE {ONone})
  ELSE IF T.a = TagP THEN (IF T.w2 = "utf8" THEN {OSeed(T.d2)} ELSE {ONone})
  ELSE IF T.a \in {<<>>, <<72, 80>>} THEN {OAny}       \* ":..." and "HP:..." are not documented forms: left open
  ELSE {ONone}
Electrum(N, which, T) ==
  IF ~(T.f = "colon" /\ T.a = TagE /\ T.w = "hex") THEN {ONone}
  ELSE CASE which = "seed" -> IF Len(T.d) = 16 THEN {OElectrum("seed", T.d)} ELSE {ONone}
         [] which = "prv"  -> IF Len(T.d) = 32 /\ ValidSecret(T.d) THEN {OElectrum("prv", T.d)} ELSE {ONone}
         [] which = "pub"  -> IF Len(T.d) = 64 /\ ValidCoord(SubSeq(T.d, 1, 32)) /\ ValidCoord(SubSeq(T.d, 33, 64)) /\ T.on
                              THEN {OElectrum("pub", T.d)} ELSE {ONone}

\* ---- numerals, pairs, SEC text ---------------------------------------------------
SecretExponent(N, T) ==
  IF T.f # "num" THEN {ONone}
  ELSE IF Len(T.d) <= 32 /\ ValidSecret(Pad32(T.d)) THEN {OKeyPrv(Pad32(T.d), TRUE)} ELSE {ONone}
PublicPair(N, T) ==
  IF T.f # "pair" THEN {ONone}
  ELSE IF ~(Len(T.d) <= 32 /\ ValidCoord(Pad32(T.d)) /\ T.on) THEN {ONone}
  ELSE IF T.w2 = "num"
       THEN (IF Len(T.d2) \in 1..32 /\ ValidCoord(Pad32(T.d2)) THEN {OKeyPub(Pad32(T.d), T.d2[Len(T.d2)] % 2, TRUE)} ELSE {ONone})
       ELSE {OKeyPub(Pad32(T.d), IF T.w2 = "odd" THEN 1 ELSE 0, TRUE)}
SecText(N, T) ==
  LET b == IF T.f = "num" THEN T.d2 ELSE T.d IN
  IF ~(\/ T.f = "num" /\ T.v % 2 = 0
       \/ T.f = "hexsec" /\ T.w = "hex" /\ T.a = N.sec) THEN {ONone}
  ELSE IF HybridSec(b) THEN {OAny}
  ELSE IF ValidSec(b, T.on) THEN {KeyOfSec(b)} ELSE {ONone}

\* ---- scripts (the script language itself is property C12: only the texts this module builds are judged)
ScriptText(N, T) ==
  CASE T.f = "script" -> {OScript(T.toks)}
    [] T.f \in {"num", "junk"} -> {OAny}           \* numerals are also pushes; junk is open
    [] OTHER -> {ONone}                            \* ':' '/' ',' and Base58/Bech32 words are no script tokens (harness checks the text has a non-hex character)

\* ---- entry points ------------------------------------------------------------------
BaseEntries == <<"p2pkh", "p2sh", "p2pkh_segwit", "p2sh_segwit", "p2tr", "wif",
                 "bip32_prv", "bip32_pub", "bip49_prv", "bip49_pub", "bip84_prv", "bip84_pub",
                 "bip32_seed", "hd_seed", "electrum_seed", "electrum_prv", "electrum_pub",
                 "secret_exponent", "public_pair", "sec", "script",
                 "input", "tx", "spendable", "script_preimage">>
\* the catch-all parsers try their constituents in this order and return the first object
Dispatch(e) ==
  CASE e = "bip32" -> <<"bip32_prv", "bip32_pub">>
    [] e = "bip49" -> <<"bip49_prv", "bip49_pub">>
    [] e = "bip84" -> <<"bip84_prv", "bip84_pub">>
    [] e = "address" -> <<"p2pkh", "p2sh", "p2pkh_segwit", "p2sh_segwit", "p2tr">>
    [] e = "payable" -> <<"address", "script">>
    [] e = "hierarchical_key" -> <<"bip32_seed", "bip32", "bip49", "bip84", "electrum_seed", "electrum_prv", "electrum_pub">>
    [] e = "private_key" -> <<"wif", "secret_exponent">>
    [] e = "secret" -> <<"private_key", "hierarchical_key">>
    [] e = "public_key" -> <<"public_pair", "sec">>
    [] e = "parse" -> <<"payable", "secret">>
CompositeEntries == <<"bip32", "bip49", "bip84", "address", "payable", "hierarchical_key", "private_key",
                      "secret", "public_key", "parse">>
Entries == BaseEntries \o CompositeEntries
IsComposite(e) == \E i \in DOMAIN CompositeEntries : CompositeEntries[i] = e

Base(N, e, T) ==
  CASE e = "p2pkh" -> P2(N, "p2pkh", T)
    [] e = "p2sh" -> P2(N, "p2sh", T)
    [] e = "p2pkh_segwit" -> SegK(N, "p2wpkh", T)
    [] e = "p2sh_segwit" -> SegK(N, "p2wsh", T)
    [] e = "p2tr" -> SegK(N, "p2tr", T)
    [] e = "wif" -> Wif(N, T)
    [] e = "bip32_prv" -> Ext(N, "bip32", "prv", T) [] e = "bip32_pub" -> Ext(N, "bip32", "pub", T)
    [] e = "bip49_prv" -> Ext(N, "bip49", "prv", T) [] e = "bip49_pub" -> Ext(N, "bip49", "pub", T)
    [] e = "bip84_prv" -> Ext(N, "bip84", "prv", T) [] e = "bip84_pub" -> Ext(N, "bip84", "pub", T)
    [] e \in {"bip32_seed", "hd_seed"} -> Seed(N, T)
    [] e = "electrum_seed" -> Electrum(N, "seed", T)
    [] e = "electrum_prv" -> Electrum(N, "prv", T)
    [] e = "electrum_pub" -> Electrum(N, "pub", T)
    [] e = "secret_exponent" -> SecretExponent(N, T)
    [] e = "public_pair" -> PublicPair(N, T)
    [] e = "sec" -> SecText(N, T)
    [] e = "script" -> ScriptText(N, T)
    [] e \in {"input", "tx", "spendable", "script_preimage"} -> {ONone}     \* documented as not supported

\* a catch-all answers with an object one of its constituents gives; none only if all of them may say none
Combine(sets) ==
  LET all == UNION sets
      objs == {o \in all : o.r = "obj"} IN
  IF OAny \in all THEN {OAny}
  ELSE IF objs = {} THEN {ONone}
  ELSE objs \cup (IF \A s \in sets : ONone \in s THEN {ONone} ELSE {})

\* Groestlcoin family in this sandbox (stub = TRUE, limitation L3): its Base58Check texts carry a groestl
\* checksum that cannot be computed here, and pycoin disables its catch-all parsers.  What CAN be said
\* without the library: a text whose checksum is valid under double-SHA256 is not a Groestlcoin text
\* (a coincidental groestl match has probability 2^-32 per text), so for T.f = "b58c" the ordinary rules
\* apply - IsB58 fails because T.w # N.chk - and every entry point answers none, whatever was parsed
\* before.  For the other forms the answers of a stubbed network are left open (the call must not raise).
\* Out never looks at anything but (N, e, T): an answer does not depend on what the same text object was
\* asked before, by this or by another network (history independence of a shared parseable_str).
RECURSIVE Out(_, _, _)
Out(N, e, T) ==
  IF T.f = "junk" \/ (N.stub /\ T.f # "b58c") THEN {OAny}
  ELSE IF IsComposite(e) THEN Combine({Out(N, Dispatch(e)[i], T) : i \in DOMAIN Dispatch(e)})
  ELSE Base(N, e, T)

\* ---- kinds of checksummed text on one network (C18 "keeps kinds apart") -------------
\* a kind = [name, pfx, lens]: the payloads it accepts start with pfx and have one of the total lengths
CKinds(N) ==
  LET add(name, fam, pfx, bodylens) ==
        IF pfx = <<>> THEN {} ELSE {[name |-> name, fam |-> fam, pfx |-> pfx, lens |-> {Len(pfx) + l : l \in bodylens}]} IN
  add("p2pkh", "p2pkh", N.p2pkh, {20}) \cup add("p2sh", "p2sh", N.p2sh, {20}) \cup add("wif", "wif", N.wif, {32, 33})
  \cup add("bip32_prv", "bip32", N.b32prv, {74}) \cup add("bip32_pub", "bip32", N.b32pub, {74})
  \cup add("bip49_prv", "bip49", N.b49prv, {74}) \cup add("bip49_pub", "bip49", N.b49pub, {74})
  \cup add("bip84_prv", "bip84", N.b84prv, {74}) \cup add("bip84_pub", "bip84", N.b84pub, {74})
\* (the private and the public version of one family are one kind of text: an extended key)
Clash(A, B) == A.fam # B.fam /\ Compatible(A.pfx, B.pfx) /\ (A.lens \cap B.lens) # {}
ClashLoose(A, B) == A.fam # B.fam /\ Compatible(A.pfx, B.pfx)          \* a parser that ignores lengths
NamePairs(N) == {<<A.name, B.name>> : A \in CKinds(N), B \in CKinds(N)}
Clashes(N) == {p \in NamePairs(N) : \E A \in CKinds(N), B \in CKinds(N) : p = <<A.name, B.name>> /\ Clash(A, B)}
ClashesLoose(N) == {p \in NamePairs(N) : \E A \in CKinds(N), B \in CKinds(N) : p = <<A.name, B.name>> /\ ClashLoose(A, B)}
\* on a text: at most one checksummed kind answers
CheckedKinds == <<"p2pkh", "p2sh", "wif", "bip32", "bip49", "bip84">>
Answering(N, T) == {CheckedKinds[i] : i \in {j \in DOMAIN CheckedKinds : \E o \in Out(N, CheckedKinds[j], T) : o.r = "obj"}}
KindsApartOn(N, T) == Cardinality(Answering(N, T)) <= 1

\* ---- faithfulness: the text an object re-serialises to, and what it must parse to -----------
\* (extended keys, WIF, addresses, compressed public keys; seeds and electrum keys need hashes: harness)
HasReser(N, o) == ~N.stub /\ o.r = "obj" /\ (o.k \in {"contract", "script", "bip32", "bip49", "bip84"} \/ (o.k = "key" /\ (o.p \/ o.b)))
Reser(N, o) ==
  CASE o.k = "contract" -> (IF IsB58Kind(o.s) THEN [TX("b58c") EXCEPT !.d = Pfx(N, o.s) \o o.d, !.w = N.chk]
                            ELSE [TX("seg") EXCEPT !.a = N.hrp, !.v = WitVer(o.s), !.d = o.d, !.w = Variant(o.s)])
    [] o.k = "script" -> [TX("script") EXCEPT !.toks = o.toks]
    [] o.k = "key" /\ o.p -> [TX("b58c") EXCEPT !.d = N.wif \o o.d \o (IF o.b THEN <<1>> ELSE <<>>), !.w = N.chk]
    [] o.k = "key" /\ ~o.p -> [TX("hexsec") EXCEPT !.a = N.sec, !.w = "hex", !.d = <<2 + o.d2[1]>> \o o.d, !.on = TRUE]
    [] o.k \in {"bip32", "bip49", "bip84"} ->
         [TX("b58c") EXCEPT !.d = ExtPfx(N, o.k, IF o.p THEN "prv" ELSE "pub") \o o.d, !.w = N.chk, !.on = TRUE]
\* the entry points that must give the object back from its own serialisation
ReparseBy(o) ==
  CASE o.k = "contract" -> {"address", "payable", "parse"}
    [] o.k = "script" -> {"script", "payable"}
    [] o.k = "key" /\ o.p -> {"wif", "private_key", "secret", "parse"}
    [] o.k = "key" /\ ~o.p -> {"sec", "public_key"}
    [] o.k \in {"bip32", "bip49", "bip84"} -> {o.k, "hierarchical_key"} \cup (IF o.p THEN {"secret", "parse"} ELSE {})
    [] o.k = "seed32" -> {"bip32", "hierarchical_key", "secret", "parse"}
    [] o.k = "electrum" -> {"hierarchical_key"}
Faithful(N, o) == HasReser(N, o) => \A e \in ReparseBy(o) : Out(N, e, Reser(N, o)) = {o}

\* Faithfulness speaks about the OBJECT, not about one of its methods: Reser(N, o) is the text of o through every public
\* accessor by which an object of its kind states its own text (Via: the names under which pycoin's objects do so; an
\* object is asked through those it really has).  What an object PRINTS about itself (repr / str) may besides be the text
\* of its public counterpart - a private extended key shows its public half: same header and chain code under the family's
\* public version, key field = compressed SEC of k*G, an uninterpreted term (TLC cannot multiply curve points; the harness
\* finishes it) - but never a text of another kind or family.
Via(o) ==
  CASE o.k \in {"bip32", "bip49", "bip84"} -> {"hwif", "as_text"}
    [] o.k = "key" /\ o.p -> {"wif", "as_text"}
    [] o.k = "key" /\ ~o.p -> {"as_text"}
    [] o.k = "contract" -> {"address"}
    [] o.k = "script" -> {"disassemble"}
    [] OTHER -> {}
Printers == {"repr", "str"}
PublicHalf(N, o) ==
  IF o.k \in {"bip32", "bip49", "bip84"} /\ o.p /\ ExtPfx(N, o.k, "pub") # <<>>
  THEN <<[op |-> "extpub", pfx |-> ExtPfx(N, o.k, "pub"), head |-> SubSeq(o.d, 1, 41), k |-> SubSeq(o.d, 43, 74)]>>
  ELSE <<>>
=============================================================================
