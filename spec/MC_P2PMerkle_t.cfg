CONSTANTS N = 12
SPECIFICATION Spec
INVARIANT Accepted
CHECK_DEADLOCK FALSE
