------------------------------ MODULE X07_Cmds ------------------------------
(* X07: the small command-line front-ends msg, keychain, coinc, block, b58   *)
(* do what their arguments say and say the truth about it.                    *)
(*                                                                            *)
(* Every command is the same small machine over an INVOCATION (a record of    *)
(* classified argument tokens):                                               *)
(*     args --Classify--> classified --Act--> acted --Report--> reported      *)
(* Classify decides from the tokens alone whether the invocation is served    *)
(* or refused (and why); Act computes the value the arguments DENOTE and the  *)
(* effect on the one piece of outside state a command has (the keychain       *)
(* file); Report says what must be printed and how the command must end.      *)
(* A SESSION is a short sequence of invocations that share the keychain file  *)
(* and may feed what an earlier one printed to a later one.                   *)
(*                                                                            *)
(* What a token denotes is not defined here but in the rule books of the      *)
(* listed properties, imported read-only:                                     *)
(*   MsgSign / MsgText (C17)  digest of a message under a network's magic,    *)
(*                            compact signatures, the verification verdict    *)
(*   X06_Keychain + Subpaths + X06_KcUniverse (X06, C09)   what a keychain    *)
(*                            file answers after which registrations          *)
(*   Disasm / ScriptPush (C12) script text <-> bytes, minimal pushes          *)
(*   Address / NetTable (C08)  the address texts of a script on a network     *)
(*   BlockWire / TxWire / Bytes / Merkle (C14, C07)  block and transaction    *)
(*                            bytes, ids                                      *)
(*   Base58 (C11)             Base58 and Base58Check                          *)
(*                                                                            *)
(* ENDINGS.  "ok": exit status 0.  "fail": the command did its job and the    *)
(* answer is negative (a signature that does not verify): the verdict is      *)
(* printed, exit status not 0.  "refuse": the arguments denote nothing (or    *)
(* name something that cannot be read): a message on stderr, exit status not  *)
(* 0, nothing on stdout, no effect.  An exception that escapes from the       *)
(* command's main function is none of the three.                              *)
(*                                                                            *)
(* OUTPUT.  A line is a sequence of PIECES: literal text, the hex / decimal   *)
(* rendering of a value, the text a term denotes, a signature (any compact    *)
(* signature that commits to the named key, form and digest - signing is      *)
(* free in its nonce), or "any" (free text).  Values are TERMS over the       *)
(* imported modules' operators; hashes, Base58Check, Bech32 and 256-bit       *)
(* curve points are left to the stdlib evaluators of the harness.             *)
EXTENDS Integers, Sequences, SequencesExt, FiniteSets, TLC, Json, IOUtils, X06_KcUniverse

MR  == INSTANCE X07_MsgRules
DS  == INSTANCE Disasm
AD  == INSTANCE Address
BW  == INSTANCE BlockWire
B58 == INSTANCE Base58

\* configuration read from the registry by the harness: network display names (the message magic)
Facts == JsonDeserialize(IOEnv.X07_FACTS)
NetRec(sym) == CHOOSE r7 \in ToSet(AD!RealNets) : r7.sym = sym
NameOf(sym) == (CHOOSE r7 \in ToSet(Facts.names) : r7.sym = sym).name

\* ------------------------------------------------------------------ pieces and terms
L(s) == [t |-> "lit", s |-> s]
Hx(a) == [t |-> "hex", a |-> a]                \* lowercase hex of the bytes of term a
Dc(x) == [t |-> "dec", n |-> x]                \* decimal of a number given as 16-bit limbs, least significant first
DcN(i) == [t |-> "decn", n |-> i]              \* decimal of a small natural
Txt(a) == [t |-> "text", a |-> a]              \* the text term a denotes (address, Base58 text)
Sg(sig, d) == [t |-> "sig", sig |-> sig, dig |-> d]   \* any compact signature text by sig.signer, in sig.comp form, over digest d
Cps(cs) == [t |-> "cps", a |-> cs]             \* literal text given as code points
AnyText == [t |-> "any"]
Optional == [t |-> "optional"]                 \* this line may be missing (the verdict is then told on stderr)

Sym(nm) == [op |-> "sym", name |-> nm]         \* a value the harness binds (secret exponent / SEC form of an abstract key)
RunT(r) == [op |-> "run", v |-> r]             \* ScriptPush's run-length bytes
Lit8(bs) == AD!Bytes(bs)
Cat2(x, y) == AD!Cat(x, y)
Sha256T(x) == [op |-> "sha256", a |-> x]

Status == {"ok", "fail", "refuse"}
Refuse(why) == [st |-> "refuse", why |-> why, out |-> <<>>, err |-> <<>>, open |-> FALSE, aux |-> [before |-> <<>>]]
\* a command that takes several arguments of the same kind may have served the ones before the first it refuses
\* (aux.before: their lines) or none of them
RefuseAfter(why, before) == [Refuse(why) EXCEPT !.aux = [before |-> before]]
FirstBad(S) == CHOOSE i \in S : \A j \in S : i <= j
Served(st, out) == [st |-> st, why |-> "", out |-> out, err |-> <<>>, open |-> FALSE, aux |-> [before |-> <<>>]]
\* where the rule books leave the ending to the implementation: either served with `out` or refused
Open(out, why) == [st |-> "ok", why |-> why, out |-> out, err |-> <<>>, open |-> TRUE, aux |-> [before |-> <<>>]]

(* ========================================================================= msg *)
(* msg [-n NET] sign WIF (-m TEXT | -i FILE | <stdin)                           *)
(* msg [-n NET] verify SIGNATURE [ADDRESS] (-m TEXT | -i FILE | <stdin)         *)
(*                                                                            *)
(* Abstract keys 1..NK; a key is used in compressed or uncompressed form.       *)
(* WIF token      [cls, key, comp, net]   cls "wif": the WIF of the key in that *)
(*                form under net's prefix; "address" (a public thing: cannot   *)
(*                sign); "garbage"                                             *)
(* signature token [cls, signer, comp, net, msg, h]  cls "ok": a compact       *)
(*                signature by signer in form comp over the digest of msg      *)
(*                under net's magic; the other                                 *)
(*                classes are MsgSign's classes of texts that commit to no key *)
(* address token  [cls, key, comp, net]   cls "none" | "addr" | "garbage"      *)
MsgDigest(net, m) == MR!MS!DigestTerm(NameOf(net), m)
SigTok(signer, comp, net, msg) == [cls |-> "ok", signer |-> signer, comp |-> comp, net |-> net, msg |-> msg, h |-> 0]
BadSigTok(cls, h) == [cls |-> cls, signer |-> 0, comp |-> FALSE, net |-> "", msg |-> <<>>, h |-> h]
SigDig(sig) == MsgDigest(sig.net, sig.msg)     \* the digest an "ok" token was made for
KeyQ(k) == <<"key", k>>                        \* the public key of abstract key k, as MsgSign's Q
\* what recovering the token under digest d gives (MsgSign!RecoverCompact on abstract keys): the signer under the
\* digest it was made for, a key nobody holds under any other digest (ideal signatures; MC_MsgSign proves it on toy curves)
Stranger(sig, d) == <<"stranger", sig.signer, sig.comp, sig.net, sig.msg, d>>
MsgRecover(sig, d) ==
  IF sig.cls # "ok" THEN [ok |-> FALSE, Q |-> MR!MS!NoKey, comp |-> FALSE, cls |-> sig.cls]
  ELSE [ok |-> TRUE, Q |-> IF SigDig(sig) = d THEN KeyQ(sig.signer) ELSE Stranger(sig, d), comp |-> sig.comp, cls |-> "ok"]
\* the address texts of one hash on two networks are the same text iff the prefixes are
SameAddrText(n1, n2) == NetRec(n1).p2pkh = NetRec(n2).p2pkh /\ NetRec(n1).chk = NetRec(n2).chk
SameWifText(n1, n2) == NetRec(n1).wif = NetRec(n2).wif /\ NetRec(n1).chk = NetRec(n2).chk
KeyAddr(net, k, comp) ==
  AD!KeyAddrTerm(NetRec(net), Sym((IF comp THEN "secc" ELSE "secu") \o ToString(k)))
RecAddr(net, sig, d) ==        \* address of the key recovered under another digest: independent curve arithmetic
  [op |-> "recaddr", net |-> net, sig |-> sig, dig |-> d, pfx |-> NetRec(net).p2pkh, chk |-> NetRec(net).chk]
CommitAddr(net, sig, d) == IF SigDig(sig) = d THEN KeyAddr(net, sig.signer, sig.comp) ELSE RecAddr(net, sig, d)
WifTerm(net, k, comp) ==
  [op |-> "b58c", chk |-> NetRec(net).chk,
   a |-> Cat2(Lit8(NetRec(net).wif), Cat2(Sym("se" \o ToString(k)), Lit8(IF comp THEN <<1>> ELSE <<>>)))]

\* the source of the message: exactly one of -m / -i / stdin; a named file must exist
MsgSrcProblem(inv) == IF inv.src = "both" THEN "usage" ELSE IF inv.src = "nofile" THEN "unreadable" ELSE ""
MsgClassify(inv) ==
  IF inv.sub = "none" THEN "usage"
  ELSE IF MsgSrcProblem(inv) # "" THEN MsgSrcProblem(inv)
  ELSE IF inv.sub = "sign"
       THEN (IF inv.wif.cls = "wif" /\ SameWifText(inv.wif.net, inv.net) THEN "" ELSE "nokey")
       ELSE ""
\* the verdict of MsgSign!VerifyRc for the address token (key AND form), and the address must be this network's text
MsgVerdict(inv, rc) ==
  /\ inv.addr.cls = "addr"
  /\ MR!MS!VerifyRc(MR!MS!AddrOf(KeyQ(inv.addr.key), inv.addr.comp), rc)
  /\ SameAddrText(inv.addr.net, inv.net)
MsgServed(inv) ==
  LET d == MsgDigest(inv.net, inv.msg) IN
  IF inv.sub = "sign" THEN Served("ok", << <<Sg(SigTok(inv.wif.key, inv.wif.comp, inv.net, inv.msg), d)>> >>)
  ELSE LET rc == MsgRecover(inv.sig, d) IN
       IF inv.addr.cls = "none"
       THEN (IF rc.ok THEN Served("ok", << <<Txt(CommitAddr(inv.net, inv.sig, d))>> >>)
                      ELSE Served("fail", << <<Optional, L("bad signature"), AnyText>> >>))
       ELSE IF MsgVerdict(inv, rc) THEN Served("ok", << <<L("signature ok")>> >>)
       ELSE IF rc.ok THEN Served("fail", << <<L("bad signature, matches "), Txt(CommitAddr(inv.net, inv.sig, d))>> >>)
       ELSE Served("fail", << <<L("bad signature"), AnyText>> >>)
\* aux: the digest terms the harness needs to make signature texts of the token classes (its reference signer)
MsgOutcome(inv) ==
  IF MsgClassify(inv) # "" THEN Refuse(MsgClassify(inv))
  ELSE [MsgServed(inv) EXCEPT !.aux = [before |-> <<>>, dig |-> MsgDigest(inv.net, inv.msg),
                                       sigdig |-> IF inv.sub = "verify" /\ inv.sig.cls = "ok" THEN SigDig(inv.sig) ELSE [op |-> "none"]]]

(* ==================================================================== keychain *)
(* keychain [-n NET] [-m SIGCOUNT] FILE PATHRANGE KEY [KEY ...]                 *)
(* The worlds of X06_KcUniverse: roots (hierarchical keys, two of them related, *)
(* and a plain key), path ranges as character strings.                          *)
(* key token  [cls, r, form]: cls "hd" (the extended key text of root r in its  *)
(*            private or public form), "wif" (a plain key: no hierarchy),        *)
(*            "othernet" (another network's extended key), "garbage"            *)
(* The FILE holds registrations <<root, path, key>> and scripts (X06_Keychain's *)
(* reg and scr after a commit).                                                 *)
EmptyFile == [reg |-> {}, scr |-> {}]
KC(file, secs) == INSTANCE X06_Keychain WITH
   Roots <- URoots, Info <- UInfo, Ranges <- URanges, Singles <- USingles, Scripts <- {}, QKeys <- UQKeys,
   BackedSet <- {TRUE}, NoDerivCheck <- FALSE,
   backed <- TRUE, rt <- <<>>, reg <- file.reg, scr <- file.scr, sec <- secs, preg <- file.reg, pscr <- file.scr,
   last <- [op |-> "init"], asked <- {}, n <- 0

KcPaths(inv) == Paths(inv.range)                      \* Subpaths!Paths: the list of paths the range string denotes
KcKeyProblem(tok) == tok.cls # "hd"
KcClassify(inv) ==
  IF ~Parse(inv.range).ok THEN "range"
  ELSE IF \E i \in 1..Len(inv.keys) : KcKeyProblem(inv.keys[i]) THEN "key"
  ELSE IF inv.m > Len(inv.keys) \/ inv.m < 0 THEN "sigcount"
  ELSE IF \E i \in 1..Len(inv.keys) : \E j \in 1..Len(KcPaths(inv)) :
            ~KC(EmptyFile, {})!Derivable(inv.keys[i].r, inv.keys[i].form, KcPaths(inv)[j]) THEN "hardened-from-public"
  ELSE ""
\* the script a multisig invocation registers for path p: m of the keys at p (the order of the keys is the rule
\* books' freedom: as given or sorted)
MsId(inv, p) == <<"ms", inv.m, [i \in 1..Len(inv.keys) |-> KeyStr(UKeyOf(inv.keys[i].r, p))]>>
MsScriptT(id) == [op |-> "multisig", m |-> id[2], keys |-> id[3]]
KcFill(file, inv) ==
  LET ps == KcPaths(inv) IN
  [reg |-> file.reg \cup {<<inv.keys[i].r, ps[j], UKeyOf(inv.keys[i].r, ps[j])>> : i \in 1..Len(inv.keys), j \in 1..Len(ps)},
   scr |-> file.scr \cup (IF inv.m > 0 THEN {MsId(inv, ps[j]) : j \in 1..Len(ps)} ELSE {})]
KcEffect(file, inv) == IF KcClassify(inv) = "" THEN KcFill(file, inv) ELSE file
KcOutcome(inv) ==
  LET why == KcClassify(inv)  ps == KcPaths(inv) IN
  IF why # "" THEN Refuse(why)
  ELSE [Served("ok", IF inv.m > 0
                     THEN [j \in 1..Len(ps) |-> <<Txt(AD!AddrTerm(NetRec(inv.net), "p2sh", AD!H160(MsScriptT(MsId(inv, ps[j])))))>>]
                     ELSE <<>>)
        EXCEPT !.err = << <<DcN(Len(ps) * Len(inv.keys)), L(" total paths")>> >>]
\* what the file answers afterwards (X06_Keychain!Allowed) to a fresh keychain opened on it and handed `secs`
KcProbe(file, secs, q) == [q |-> q, secs |-> secs, allowed |-> KC(file, secs)!Allowed(file.reg, file.scr, secs, q),
                           tags |-> KC(file, secs)!Tags(file.reg, secs, q)]
KcQueries(file) == {<<"k", k, f>> : k \in UQKeys, f \in {"c", "u"}} \cup {<<"s160", s>> : s \in file.scr}
                   \cup {<<"s256", s>> : s \in file.scr}
KcInterest(file) == KC(EmptyFile, {})!Interest(file.reg, file.scr)

(* ======================================================================= coinc *)
(* coinc [-n NET] SCRIPTTEXT [SCRIPTTEXT ...]                                   *)
(* A script text is a blank-separated list of items:                            *)
(*   [k "op", name]     an opcode name of Disasm's table                        *)
(*   [k "data", d]      [hex]: the shortest push of the data (ScriptPush)       *)
(*   [k "raw", d]       0xhex: these bytes, verbatim                            *)
(*   [k "bad", cls]     a token that is none of them                            *)
(*   [k "lower", name]  an opcode name in lower case: served as the opcode or   *)
(*                      refused (the documentation spells names in upper case)  *)
ItemBytes(it) == CASE it.k = "op" -> DS!ROne(DS!OpOfName(it.name))
                   [] it.k = "lower" -> DS!ROne(DS!OpOfName(it.name))
                   [] it.k = "data" -> DS!EncodePush(it.d)
                   [] it.k = "raw" -> it.d
                   [] OTHER -> <<>>
RECURSIVE CompileItems(_)
CompileItems(its) == IF its = <<>> THEN <<>> ELSE DS!RCat(ItemBytes(its[1]), CompileItems(Tail(its)))
ItemsBad(its) == \E i \in 1..Len(its) : its[i].k = "bad"
ItemsOpen(its) == \E i \in 1..Len(its) : its[i].k = "lower"
\* the six lines for one script s (run-length bytes)
ScriptHashT(s) == AD!H160(RunT(s))
CoincLines(net, s) ==
  LET N7 == NetRec(net)
      p2sh == AD!AddrTerm(N7, "p2sh", ScriptHashT(s))
      \* (C12: only claimed scripts - known opcodes, minimal pushes - carry a demand on their text)
      dis == IF DS!Claimed(s) THEN [cls |-> "claimed", alts |-> {DS!Disassemble(s, alt) : alt \in BOOLEAN}]
             ELSE [cls |-> "free", alts |-> {}]
  IN << <<L("0x"), Hx(RunT(s))>>,
        <<Txt(p2sh)>>,
        <<Hx(Cat2(Lit8(<<169, 20>>), Cat2(ScriptHashT(s), Lit8(<<135>>))))>>,
        IF AD!Defined(N7, "p2wsh") THEN <<Txt(AD!AddrTerm(N7, "p2wsh", Sha256T(RunT(s))))>> ELSE <<AnyText>>,
        IF AD!Defined(N7, "p2wsh") THEN <<Hx(Cat2(Lit8(<<0, 32>>), Sha256T(RunT(s))))>> ELSE <<AnyText>>,
        <<[t |-> "asm", cls |-> dis.cls, alts |-> dis.alts, s |-> s]>> >>
CoincOutcome(inv) ==
  IF \E a \in 1..Len(inv.texts) : ItemsBad(inv.texts[a])
  THEN RefuseAfter("script-text", FlattenSeq([a \in 1..(FirstBad({x \in 1..Len(inv.texts) : ItemsBad(inv.texts[x])}) - 1) |->
                                                CoincLines(inv.net, CompileItems(inv.texts[a]))]))
  ELSE LET lines == FlattenSeq([a \in 1..Len(inv.texts) |-> CoincLines(inv.net, CompileItems(inv.texts[a]))]) IN
       IF \E a \in 1..Len(inv.texts) : ItemsOpen(inv.texts[a]) THEN Open(lines, "lower-case-name")
       ELSE IF ~AD!Defined(NetRec(inv.net), "p2wsh") THEN Open(lines, "no-segwit-on-network")
       ELSE Served("ok", lines)
\* (c) as lemmas: the compiled bytes of a text made of names and [hex] items are a claimed script, its
\* disassembly compiles back to it, every push in it is the shortest one
PlainItems(its) == \A i \in 1..Len(its) : its[i].k \in {"op", "data"}
CoincFixpoint(its) ==
  PlainItems(its) =>
    LET s == CompileItems(its) IN
    /\ DS!Claimed(s)
    /\ \A alt \in BOOLEAN : DS!Compile(DS!Disassemble(s, alt)) = s
    /\ Len(DS!Disassemble(s, FALSE)) = Len(its)
    /\ \A i \in 1..Len(its) : its[i].k = "data" =>
          LET o == DS!PushOpFor(its[i].d) IN
          /\ DS!CanPush(o, its[i].d)
          /\ o \in 1..78 => DS!Disassemble(s, FALSE)[i] = DS!DataTok(its[i].d) /\ DS!CheckMinimalPush(its[i].d, o)
          /\ o \notin 1..78 => DS!Disassemble(s, FALSE)[i].t = "op"

(* ======================================================================= block *)
(* block [-n NET] FILE [FILE ...]                                               *)
(* file token [h, txs, honest, dmg, cut]: the bytes BlockWire!BlockParts(header,  *)
(*   txs) - the header is h, with the merkle root of the transactions in place    *)
(*   of h.root when `honest` - whole ("none"), cut after `cut` bytes ("cut"),     *)
(*   followed by stray bytes ("trail"), or no such file ("missing").  A block has *)
(*   at least one transaction.  A header that does not commit to the transactions *)
(*   that follow it (BlockWire!MerkleOk) is no block: refused.                    *)
HdrOf(f) == IF f.honest THEN BW!HonestHeader(f.h, f.txs) ELSE f.h
\* the calendar (proleptic Gregorian, UTC) of a 32-bit time stamp given as two 16-bit limbs
DaysOf(tm) == ((tm[2] * 512) + (tm[1] \div 128)) \div 675             \* floor(t / 86400), 86400 = 128 * 675
SecsOf(tm) == (((tm[2] * 512) + (tm[1] \div 128)) % 675) * 128 + (tm[1] % 128)
CivilOf(days) ==
  LET z == days + 719468
      era == z \div 146097
      doe == z - era * 146097
      yoe == (doe - (doe \div 1460) + (doe \div 36524) - (doe \div 146096)) \div 365
      doy == doe - (365 * yoe + (yoe \div 4) - (yoe \div 100))
      mp == (5 * doy + 2) \div 153
      d == doy - ((153 * mp + 2) \div 5) + 1
      m == IF mp < 10 THEN mp + 3 ELSE mp - 9
  IN [y |-> yoe + era * 400 + (IF m <= 2 THEN 1 ELSE 0), m |-> m, d |-> d]
D2(i) == ToString(i \div 10) \o ToString(i % 10)
D4(i) == ToString(i \div 1000) \o ToString((i \div 100) % 10) \o D2(i % 100)
IsoOf(tm) == LET c == CivilOf(DaysOf(tm))  s == SecsOf(tm) IN
             D4(c.y) \o "-" \o D2(c.m) \o "-" \o D2(c.d) \o "T" \o D2(s \div 3600) \o ":" \o D2((s \div 60) % 60)
             \o ":" \o D2(s % 60) \o "+00:00"
BlockSize(h, txs) == 80 + BW!CompactSizeWidth(Len(txs)) + FoldLeft(LAMBDA acc, i : acc + BW!Size(BW!Wire(txs[i])), 0, [i \in 1..Len(txs) |-> i])
TxHead(i, tx) ==
  << <<L("Tx #"), DcN(i - 1), L(":")>>,
     <<L("Version: "), [t |-> "dec2", n |-> tx.version], L("  tx hash "), Hx(BW!Rev(BW!TxId(tx))), L("  "), DcN(BW!Size(BW!Wire(tx))), L(" bytes")>> >>
  \o (IF BW!HasWitness(tx) THEN << <<L("      segwit tx hash "), Hx(BW!Rev(BW!WTxId(tx)))>> >> ELSE <<>>)
  \o << <<L("TxIn count: "), DcN(Len(tx.ins)), L("; TxOut count: "), DcN(Len(tx.outs))>> >>
\* the dump: eight header lines, then per transaction its head lines (the rest of a transaction's dump is X04's subject)
BlockDump(h, txs) ==
  [head |-> << <<DcN(BlockSize(h, txs)), L(" bytes   block hash "), Hx(BW!IdDisplay(h))>>,
               <<L("version "), Dc(h.version)>>,
               <<L("prior block hash "), Hx(BW!PrevDisplay(h))>>,
               <<L("merkle root "), Hx(h.root)>>,
               <<L("timestamp "), L(IsoOf(h.time))>>,
               <<L("difficulty "), Dc(h.bits)>>,
               <<L("nonce "), Dc(h.nonce)>>,
               <<DcN(Len(txs)), L(IF Len(txs) = 1 THEN " transaction" ELSE " transactions")>> >>,
   txs |-> [i \in 1..Len(txs) |-> TxHead(i, txs[i])]]
FileProblem(f) == IF f.dmg = "missing" THEN "unreadable"
                  ELSE IF f.dmg = "cut" /\ f.cut < BlockSize(f.h, f.txs) THEN "truncated"
                  ELSE IF ~BW!MerkleOk(HdrOf(f), f.txs) THEN "bad-merkle-root" ELSE ""
BlockOutcome(inv) ==
  LET bad == {i \in 1..Len(inv.files) : FileProblem(inv.files[i]) # ""} IN
  IF bad # {} THEN RefuseAfter(FileProblem(inv.files[FirstBad(bad)]),
                               [i \in 1..(FirstBad(bad) - 1) |-> <<[t |-> "blockdump", d |-> BlockDump(HdrOf(inv.files[i]), inv.files[i].txs)]>>])
  ELSE LET dumps == [i \in 1..Len(inv.files) |-> <<[t |-> "blockdump", d |-> BlockDump(HdrOf(inv.files[i]), inv.files[i].txs)]>>] IN
       \* stray bytes after the block: the dump of the leading block, or a refusal - never anything else
       IF \E i \in 1..Len(inv.files) : inv.files[i].dmg = "trail" THEN Open(dumps, "stray-bytes") ELSE Served("ok", dumps)
\* the size line counts exactly the bytes of the image (header, count, transactions in their own standard form)
BlockSizeLemma(h, txs) ==
  BW!AllLiteral(BW!BlockParts(h, txs)) => BW!Size(BW!Flat(BW!BlockParts(h, txs))) = BlockSize(h, txs)

(* ========================================================================= b58 *)
(* b58 [-b] TEXT [TEXT ...]   TEXT as code points.                              *)
(*   hex (unless -b): even number of hex digits -> the bytes; lines: hex,       *)
(*        Base58, Base58Check of the bytes                                      *)
(*   else Base58 (every character in the alphabet): lines: hex of the decoded   *)
(*        bytes, their Base58 text, and "valid hashed b58" + "contents:  "hex   *)
(*        of the payload when the last four bytes are the checksum of the rest, *)
(*        else "not hashed b58"                                                 *)
(*   else refused.  "Best guess": a text that is both is taken as hex.          *)
HexVal(c) == IF c \in 48..57 THEN c - 48 ELSE IF c \in 97..102 THEN c - 87 ELSE IF c \in 65..70 THEN c - 55 ELSE 0 - 1
IsHexText(t) == Len(t) % 2 = 0 /\ \A i \in 1..Len(t) : HexVal(t[i]) >= 0
HexBytes(t) == [i \in 1..(Len(t) \div 2) |-> HexVal(t[2 * i - 1]) * 16 + HexVal(t[2 * i])]
HexText(bs) == DS!HexOf(bs)
AlphaStr == << "1","2","3","4","5","6","7","8","9","A","B","C","D","E","F","G","H","J","K","L","M","N","P","Q","R","S","T","U","V","W","X","Y","Z",
               "a","b","c","d","e","f","g","h","i","j","k","m","n","o","p","q","r","s","t","u","v","w","x","y","z" >>
ASSUME Len(AlphaStr) = 58 /\ \A i7 \in 1..58 : \A j7 \in 1..58 : i7 # j7 => AlphaStr[i7] # AlphaStr[j7]
B58Str(bs) == FoldLeft(LAMBDA acc, dg : acc \o AlphaStr[dg + 1], "", B58!Enc58Digits(bs))
\* token [cls "text", t] (characters chosen here) or [cls "checked", p] (the Base58Check text of payload p)
B58Lines(tok, forceb) ==
  IF tok.cls = "checked"
  THEN [ok |-> TRUE,
        out |-> << <<Hx([op |-> "withcheck", a |-> Lit8(tok.p)])>>, <<Txt([op |-> "b58c", chk |-> "sha256d", a |-> Lit8(tok.p)])>>,
                   <<L("valid hashed b58")>>, <<L("contents:  "), L(HexText(tok.p))>> >>]
  ELSE IF ~forceb /\ IsHexText(tok.t)
  THEN LET bs == HexBytes(tok.t) IN
       [ok |-> TRUE, out |-> << <<L(HexText(bs))>>, <<L(B58Str(bs))>>, <<Txt([op |-> "b58c", chk |-> "sha256d", a |-> Lit8(bs)])>> >>]
  ELSE LET d == B58!Dec58(tok.t) IN
       IF ~d.ok THEN [ok |-> FALSE, out |-> <<>>]
       \* (the harness makes sure the chosen characters do not carry a valid checksum by accident)
       ELSE [ok |-> TRUE, out |-> << <<L(HexText(d.b))>>, <<L(B58Str(d.b))>>, <<L("not hashed b58")>> >>]
B58Outcome(inv) ==
  LET rs == [i \in 1..Len(inv.toks) |-> B58Lines(inv.toks[i], inv.b)] IN
  IF \E i \in 1..Len(rs) : ~rs[i].ok
  THEN RefuseAfter("neither-hex-nor-base58", FlattenSeq([i \in 1..(FirstBad({x \in 1..Len(rs) : ~rs[x].ok}) - 1) |-> rs[i].out]))
  ELSE Served("ok", FlattenSeq([i \in 1..Len(rs) |-> rs[i].out]))
\* decoding and encoding again gives the text back (Base58 is a bijection): the second line of a Base58 input is the input
B58Echo(t) == B58!Dec58(t).ok => B58!Enc58(B58!Dec58(t).b) = t

(* ------------------------------------------------------ what is exported / compared per invocation *)
\* the secrets a fresh keychain is handed before it is asked: none, the private forms of every root / of one root named
RootsNamed(ses) == UNION { {ses[i].keys[t].r : t \in {u \in 1..Len(ses[i].keys) : ses[i].keys[u].cls = "hd"}} : i \in {x \in 1..Len(ses) : ses[x].cmd = "keychain"} }
SecSets(ses) == { {}, {<<r, "prv">> : r \in RootsNamed(ses)} } \cup { {<<r, "prv">>} : r \in RootsNamed(ses) }
RangeText(rg) == FoldLeft(LAMBDA acc, ch : acc \o ch, "", rg)
KcInterestNames(file) == { IF x[1] = "k" THEN <<"k", KeyStr(x[2])>> ELSE <<"s", x[2]>> : x \in KcInterest(file) }
KcView(e, ses) ==
  [paths |-> IF Parse(e.inv.range).ok THEN [j \in 1..Len(KcPaths(e.inv)) |-> PathStr(KcPaths(e.inv)[j])] ELSE <<>>,
   interest |-> KcInterestNames(e.file),
   probes |-> { [q |-> IF q[1] = "k" THEN <<"k", KeyStr(q[2]), q[3]>> ELSE q,
                 secs |-> secs,
                 allowed |-> { IF a[1] = "key" THEN <<"key", KeyStr(a[2]), a[3], a[4]>> ELSE a : a \in KcProbe(e.file, secs, q).allowed },
                 tags |-> KcProbe(e.file, secs, q).tags] : secs \in SecSets(ses), q \in KcQueries(e.file) }]
LogRec(e, ses) ==
  IF e.inv.cmd = "keychain"
  THEN [inv |-> [e.inv EXCEPT !.range = RangeText(e.inv.range)], res |-> e.res, view |-> KcView(e, ses)]
  ELSE [inv |-> e.inv, res |-> e.res]

(* ================================================================ the machine *)
Outcome(inv) == CASE inv.cmd = "msg" -> MsgOutcome(inv)
                  [] inv.cmd = "keychain" -> KcOutcome(inv)
                  [] inv.cmd = "coinc" -> CoincOutcome(inv)
                  [] inv.cmd = "block" -> BlockOutcome(inv)
                  [] inv.cmd = "b58" -> B58Outcome(inv)

VARIABLES c7ses,     \* the session: a sequence of invocations
          c7k,       \* the invocation being served
          c7pc,      \* "idle" | "args" | "classified" | "acted" | "reported" | "done"
          c7cls,     \* "" (served) or why the invocation is refused
          c7file,    \* the keychain file
          c7new,     \* the keychain file as the invocation under way would leave it
          c7log      \* one record per invocation served so far: [inv, res, file]
c7vars == <<c7ses, c7k, c7pc, c7cls, c7file, c7new, c7log>>

Cur == c7ses[c7k]
CInit == c7ses = <<>> /\ c7k = 0 /\ c7pc = "idle" /\ c7cls = "" /\ c7file = EmptyFile /\ c7new = EmptyFile /\ c7log = <<>>
Begin(ses) == /\ c7pc = "idle" /\ ses # <<>>
              /\ c7ses' = ses /\ c7k' = 1 /\ c7pc' = "args"
              /\ UNCHANGED <<c7cls, c7file, c7new, c7log>>
Classify == /\ c7pc = "args"
            /\ c7cls' = Outcome(Cur).why /\ c7pc' = "classified"
            /\ UNCHANGED <<c7ses, c7k, c7file, c7new, c7log>>
\* only the keychain command has an effect, and only when it is served
Act == /\ c7pc = "classified"
       /\ c7new' = IF Cur.cmd = "keychain" /\ Outcome(Cur).st # "refuse" THEN KcFill(c7file, Cur) ELSE c7file
       /\ c7pc' = "acted"
       /\ UNCHANGED <<c7ses, c7k, c7cls, c7file, c7log>>
Report == /\ c7pc = "acted"
          /\ c7log' = Append(c7log, [inv |-> Cur, res |-> Outcome(Cur), file |-> c7new])
          /\ c7file' = c7new
          /\ c7pc' = "reported"
          /\ UNCHANGED <<c7ses, c7k, c7cls, c7new>>
Advance == /\ c7pc = "reported"
           /\ IF c7k < Len(c7ses) THEN c7k' = c7k + 1 /\ c7pc' = "args" ELSE c7k' = c7k /\ c7pc' = "done"
           /\ UNCHANGED <<c7ses, c7cls, c7file, c7new, c7log>>

(* ---------------------------------------------------------------- lemmas over a finished session *)
Done == c7pc = "done"
\* (e) a refused invocation prints nothing and leaves the file as it was
RefusalsAreClean ==
  \A i \in 1..Len(c7log) : c7log[i].res.st = "refuse" =>
     /\ c7log[i].res.out = <<>>
     /\ c7log[i].file = (IF i = 1 THEN EmptyFile ELSE c7log[i - 1].file)
\* (a) a signature printed by `msg sign` verifies for exactly the signer's address in the signer's form, for the
\* same message, on networks with the same magic and the same address text
IsSign(e) == e.inv.cmd = "msg" /\ e.inv.sub = "sign" /\ e.res.st = "ok"
IsVerifyOf(e, s) == /\ e.inv.cmd = "msg" /\ e.inv.sub = "verify" /\ e.res.st # "refuse"
                    /\ e.inv.sig = s.res.out[1][1].sig
SignVerifyAgree ==
  Done => \A i \in 1..Len(c7log), j \in 1..Len(c7log) :
    (IsSign(c7log[i]) /\ IsVerifyOf(c7log[j], c7log[i])) =>
      LET s == c7log[i].inv  v == c7log[j].inv
          same == NameOf(s.net) = NameOf(v.net) /\ s.msg = v.msg IN
      IF v.addr.cls = "none"
      THEN c7log[j].res.st = "ok"
           /\ (same <=> c7log[j].res.out = << <<Txt(KeyAddr(v.net, s.wif.key, s.wif.comp))>> >>)
      ELSE (c7log[j].res.st = "ok") <=> (/\ same /\ v.addr.cls = "addr" /\ v.addr.key = s.wif.key /\ v.addr.comp = s.wif.comp
                                         /\ SameAddrText(v.addr.net, v.net))
\* (a) texts that commit to no key never verify and never print an address
NoKeyNoVerdict ==
  \A i \in 1..Len(c7log) :
    (c7log[i].inv.cmd = "msg" /\ c7log[i].inv.sub = "verify" /\ c7log[i].res.st # "refuse" /\ c7log[i].inv.sig.cls # "ok")
      => c7log[i].res.st = "fail" /\ \A l \in 1..Len(c7log[i].res.out) : \A p \in 1..Len(c7log[i].res.out[l]) : c7log[i].res.out[l][p].t # "text"
\* (b) serving the same keychain invocation again changes nothing; the file only grows; what is in the file is
\* exactly the keys the ranges denote under the given roots
KcIdempotent ==
  \A i \in 2..Len(c7log) :
    (c7log[i].inv.cmd = "keychain" /\ c7log[i].inv = c7log[i - 1].inv) => c7log[i].file = c7log[i - 1].file
KcMonotone ==
  \A i \in 2..Len(c7log) : c7log[i].inv.cmd = "keychain" =>
      c7log[i - 1].file.reg \subseteq c7log[i].file.reg /\ c7log[i - 1].file.scr \subseteq c7log[i].file.scr
KcExact ==
  \A i \in 1..Len(c7log) : c7log[i].inv.cmd = "keychain" =>
    LET before == IF i = 1 THEN EmptyFile ELSE c7log[i - 1].file
        inv == c7log[i].inv
        added == c7log[i].file.reg \ before.reg IN
    /\ \A e \in added : /\ \E t \in 1..Len(inv.keys) : inv.keys[t].r = e[1]
                        /\ \E j \in 1..Len(KcPaths(inv)) : KcPaths(inv)[j] = e[2]
                        /\ e[3] = UKeyOf(e[1], e[2])
    /\ c7log[i].res.st = "ok" =>
         \A t \in 1..Len(inv.keys), j \in 1..Len(KcPaths(inv)) :
            <<inv.keys[t].r, KcPaths(inv)[j], UKeyOf(inv.keys[t].r, KcPaths(inv)[j])>> \in c7log[i].file.reg
\* (b) private roots handed over later upgrade every answer they reach, whatever form filled the file
KcUpgrade ==
  \A i \in 1..Len(c7log) : (c7log[i].inv.cmd = "keychain" /\ c7log[i].res.st = "ok") =>
    LET f == c7log[i].file  inv == c7log[i].inv
        prv == {<<inv.keys[t].r, "prv">> : t \in 1..Len(inv.keys)} IN
    \A t \in 1..Len(inv.keys), j \in 1..Len(KcPaths(inv)) :
       LET k == UKeyOf(inv.keys[t].r, KcPaths(inv)[j]) IN
       /\ KC(f, prv)!KeyAllowed(f.reg, prv, k) = {"prv"}
       /\ KC(f, {})!KeyAllowed(f.reg, {}, k) = {"miss"}
\* (c), (d), b58: the lemmas of the value computed, on every invocation of the session
ValueLemmas ==
  \A i \in 1..Len(c7log) :
    LET inv == c7log[i].inv IN
    /\ inv.cmd = "coinc" => \A a \in 1..Len(inv.texts) : CoincFixpoint(inv.texts[a])
    /\ inv.cmd = "block" => \A a \in 1..Len(inv.files) : inv.files[a].dmg # "missing" => BlockSizeLemma(inv.files[a].h, inv.files[a].txs) /\ (inv.files[a].honest => BW!MerkleOk(HdrOf(inv.files[a]), inv.files[a].txs))
    /\ inv.cmd = "b58" => \A a \in 1..Len(inv.toks) : inv.toks[a].cls = "text" => B58Echo(inv.toks[a].t)
\* the machine's stages agree with the outcome function (the log is what the stages computed)
StagesAgree ==
  /\ c7pc \in {"classified", "acted"} => c7cls = Outcome(Cur).why
  /\ c7pc = "acted" => (c7cls # "" => c7new = c7file)
=============================================================================
