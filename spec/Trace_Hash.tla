------------------------------ MODULE Trace_Hash ------------------------------
(* Code -> spec binding for the hash part of C19.  A recorded event is one    *)
(* call of pycoin (ripemd160 / hash160 / double_sha256, in the native or the  *)
(* pure-Python configuration) with its argument and the digest it returned.   *)
(* TLC recomputes the digest with HashMachine (one step per round, so the     *)
(* cost is linear in the message length) and accepts the event only if the    *)
(* logged digest is the one the machine produces.  Accepted events are        *)
(* reported one per line (multi-worker safe); the harness takes the           *)
(* complement as the rejected ones.                                           *)
EXTENDS HashMachine, Json, IOUtils, TLC

Traces == JsonDeserialize(IOEnv.TRACE_FILE)
\* printed once: the harness checks that TLC read as many traces as it sent
ASSUME PrintT(ToJson([k |-> "hdr", n |-> Len(Traces)]))
VARIABLE tid
tvars == <<hvars, tid>>

TInit == \E t \in 1..Len(Traces) : tid = t /\ Start(Traces[t].p, Traces[t].m)
TStep == (RmdRound \/ ShaRound \/ NextBlock \/ NextStage) /\ UNCHANGED tid
TFinish == /\ Finish /\ UNCHANGED tid
           /\ out' = Traces[tid].d
           /\ PrintT(ToJson([k |-> "acc", tid |-> tid]))
TNext == TStep \/ TFinish
TSpec == TInit /\ [][TNext]_tvars
=============================================================================
