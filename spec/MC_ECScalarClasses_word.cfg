CONSTANTS P = 11  A = 1  B = 6  Gx = 2  Gy = 4  N = 13
          R = 2  Concrete = FALSE  B1 = 0  B2 = 0  MaxCoef = 100000  MaxSteps = 3  Emit = TRUE  Family = "word"
SPECIFICATION CSpec
CONSTRAINT EmitBehaviour
CHECK_DEADLOCK FALSE
