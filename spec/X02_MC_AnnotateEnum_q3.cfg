CONSTANTS MaxIns = 3  Alpha = "small"  SigFam = "few"
SPECIFICATION ESpec
INVARIANTS Lemmas Teeth
CHECK_DEADLOCK FALSE
