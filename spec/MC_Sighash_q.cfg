CONSTANTS MaxIn = 2  MaxOut = 2
CONSTANT HtSet <- HtQuick
SPECIFICATION Spec
INVARIANTS CommitmentLemma TwoFormsLemma MaskLemma CoinLemma SingleBugLemma ShapeLemma
PROPERTY Frame
CHECK_DEADLOCK FALSE
