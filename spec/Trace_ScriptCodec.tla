-------------------------- MODULE Trace_ScriptCodec --------------------------
(* Code -> spec binding for C12 (and the R2 ground-truth check of the specs  *)
(* themselves).  A trace is a list of events; TLC recomputes every logged    *)
(* result from ScriptNum / ScriptPush / Disasm.                              *)
(*                                                                           *)
(* Stateless events (one library call each):                                 *)
(*   enc   int_to_script_bytes(+-mag) = out                                  *)
(*   dec   int_from_script_bytes(b, require_minimal=strict) -> value | raise *)
(* A script session keeps a state (the script assembled so far, the cursor): *)
(*   new                        empty script, cursor 0                       *)
(*   push  d       the library appended its push of d; logged: whole script  *)
(*   raw   bytes   the recorder appended bytes itself (opcodes, non-minimal  *)
(*                 pushes)                                                   *)
(*   cut   k       the recorder truncated the script to k bytes              *)
(*   seek          cursor back to 0                                          *)
(*   getop vmin    get_opcode at the cursor: res "ok" (op, data, new pc),    *)
(*                 "bad" (malformed), "nonminimal" (MINIMALDATA error raised)*)
(*                 as ScriptPush!Fetch reports: a push that is cut short is  *)
(*                 malformed with and without vmin, whatever it announces    *)
(*   walk          ScriptTools.get_opcodes over the whole script: the logged  *)
(*                 <<pc, new pc>> steps; it must terminate, the cursor must  *)
(*                 move forward in every step, and up to the first malformed *)
(*                 instruction the steps are the spec's instructions         *)
(*   asm           disassemble the script, compile the text: logged tokens   *)
(*                 and recompiled bytes                                      *)
(* Ground truth recorded from Bitcoin Core (tests/btc/data/script_tests.json)*)
(*   core_num      a number and the bytes Core pushes for it                 *)
(*   core_push     a push-only scriptSig and Core's verdict (minflag: under  *)
(*                 MINIMALDATA)                                              *)
(*   core_numarg   a stack item used as a number under MINIMALDATA           *)
EXTENDS Disasm, ScriptNum, Json, IOUtils, TLC, TLCExt

Traces == JsonDeserialize(IOEnv.TRACE_FILE)
VARIABLES tid, l, scr, pc
tvars == <<tid, l, scr, pc>>
Ev == Traces[tid].ev
Cur == Ev[l]

TInit == /\ TLCSet(1, {})
         /\ tid \in 1..Len(Traces) /\ l = 1 /\ scr = <<>> /\ pc = 0

Stateless(cond) == cond /\ UNCHANGED <<scr, pc>>

TEnc == Cur.a = "enc" /\ Stateless(Encode([neg |-> Cur.neg, mag |-> Cur.mag]) = Cur.out)
TDec == Cur.a = "dec" /\
        Stateless(/\ Cur.exc = (Cur.strict /\ ~Minimal(Cur.b))
                  /\ ~Cur.exc => Decode(Cur.b) = [neg |-> Cur.neg, mag |-> Cur.mag])

TNew == Cur.a = "new" /\ scr' = <<>> /\ pc' = 0
TPush == /\ Cur.a = "push"
         /\ scr' = RCat(scr, EncodePush(Cur.d)) /\ scr' = Cur.script /\ UNCHANGED pc
TRaw == Cur.a = "raw" /\ scr' = RCat(scr, Cur.bytes) /\ scr' = Cur.script /\ UNCHANGED pc
TCut == Cur.a = "cut" /\ scr' = RTake(scr, Cur.k) /\ scr' = Cur.script /\ UNCHANGED pc
TSeek == Cur.a = "seek" /\ pc' = 0 /\ UNCHANGED scr
TGetOp ==
  /\ Cur.a = "getop" /\ pc < RLen(scr)
  /\ LET r == DecodeAt(scr, pc)
         rep == Fetch(r, Cur.vmin) IN
     IF rep = "malformed" THEN Cur.res = "bad" /\ pc' = pc
     ELSE IF rep = "nonminimal" THEN Cur.res = "nonminimal" /\ pc' = pc
     ELSE /\ Cur.res = "ok" /\ Cur.op = r.op /\ Cur.pc = r.pc /\ pc' = r.pc
          /\ Cur.nodata = ~IsPush(r)
          /\ IsPush(r) => Cur.data = PushedValue(r)
  /\ UNCHANGED scr
TWalk ==
  /\ Cur.a = "walk" /\ ~Cur.hang
  /\ \A i \in 1..Len(Cur.steps) : Cur.steps[i][2] > Cur.steps[i][1]
  /\ LET p == Parse(scr, 0) IN
     /\ \A i \in 1..Len(p) : p[i].ph = "done" => (i <= Len(Cur.steps) /\ Cur.steps[i] = <<p[i].at, p[i].pc>>)
     /\ WellFormed(scr) => Len(Cur.steps) = Len(p)
  /\ UNCHANGED <<scr, pc>>
TAsm ==
  /\ Cur.a = "asm"
  /\ Claimed(scr) => Cur.re = scr
  /\ (Cur.parsed /\ \A i \in 1..Len(Cur.toks) : Cur.toks[i].t = "op" => Cur.toks[i].name \in AllNames)
        => Compile(Cur.toks) = Cur.re
  /\ UNCHANGED <<scr, pc>>

\* ---- ground truth from Core's vectors
CoreErr(rep) == CASE rep = "malformed" -> "BAD_OPCODE" [] rep = "nonminimal" -> "MINIMALDATA" [] OTHER -> "OK"
TCoreNum == Cur.a = "core_num" /\
            Stateless(LET v == [neg |-> Cur.neg, mag |-> Cur.mag] IN
                      IsNum(v) /\ Encode(v) = Cur.out /\ Decode(Cur.out) = v /\ Minimal(Cur.out))
TCorePush == Cur.a = "core_push" /\
             Stateless(Cur.verdict = CoreErr(ScriptReport(Cur.script, Cur.minflag)))
TCoreNumArg == Cur.a = "core_numarg" /\
               Stateless(Cur.verdict = (IF Minimal(Cur.b) THEN "OK" ELSE "UNKNOWN_ERROR"))

TNext == /\ l <= Len(Ev)
         /\ \/ TEnc \/ TDec \/ TNew \/ TPush \/ TRaw \/ TCut \/ TSeek \/ TGetOp \/ TWalk \/ TAsm
            \/ TCoreNum \/ TCorePush \/ TCoreNumArg
         /\ l' = l + 1 /\ UNCHANGED tid
TSpec == TInit /\ [][TNext]_tvars

\* every reached (trace, position) pair is remembered; the harness reads off how far each trace got
Reached == TLCSet(1, TLCGet(1) \cup {<<tid, l>>})
Furthest(t) == CHOOSE m \in 1..(Len(Traces[t].ev) + 1) :
                  /\ <<t, m>> \in TLCGet(1)
                  /\ \A m2 \in (m + 1)..(Len(Traces[t].ev) + 1) : <<t, m2>> \notin TLCGet(1)
Post == PrintT(ToJson([k |-> "reached", r |-> [t \in 1..Len(Traces) |-> Furthest(t)]]))
=============================================================================
