CONSTANTS MaxIns = 3  Alpha = "full"  SigFam = "all"
SPECIFICATION ESpec
INVARIANTS Lemmas Teeth
CHECK_DEADLOCK FALSE
