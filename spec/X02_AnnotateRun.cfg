SPECIFICATION RSpec
INVARIANT RestAgrees
CHECK_DEADLOCK FALSE
