CONSTANTS B = 10  LimbVals = {0, 1, 2, 3, 4, 5, 6, 7, 8, 9}  MaxLen = 2
SPECIFICATION Spec
INVARIANTS AddIsPlus AddNormal AddComm CmpIsOrder ValInjective OfNatInverse
CHECK_DEADLOCK FALSE
