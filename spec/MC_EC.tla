------------------------------- MODULE MC_EC -------------------------------
(* TLC proves, for the curve named by the constants, that the formulas of     *)
(* EC.tla form a cyclic group of order N and that SMul (halving)   *)
(* is "Q added to itself k times" (SMul = Mul).  One initial state per ordered pair of     *)
(* points; the lemmas about that pair are evaluated when TLC generates the    *)
(* pair's single successor, so the work spreads over all workers.             *)
EXTENDS EC

CONSTANT Scope,        \* "full": all ordered pairs of points; "points": single-point lemmas only (mid-size curves
                       \* used for traces); "assume": only the ASSUMEs (curve sanity: cyclic of order N, PointsForX)
         Iterated      \* TRUE: also compare SMul with the recursive Mul for every k in -2N..2N (small curves;
                       \* on the others MulStep is the induction step of the same statement)

VARIABLES p, q, ph
vars == <<p, q, ph>>

\* curve-level lemmas, evaluated once (in the state p = q = Inf; TLC evaluates ASSUMEs without its
\* cache of constant definitions, which makes them many times slower there)
CurveOk == P % 2 = 1 /\ N % 2 = 1 /\ NonSingular /\ Cyclic /\ InvTabOk
PfxOk   == \A x \in Fp : PointsForXOk(x)

Init == /\ p \in (IF Scope = "assume" THEN {Inf} ELSE Points)
        /\ q \in (IF Scope = "full" THEN Points ELSE {Inf})
        /\ ph = 0
Check == ph = 0 /\ ph' = 1 /\ UNCHANGED <<p, q>>
Next == Check
Spec == Init /\ [][Next]_vars

PairLemmas == /\ Closure(p, q) /\ Commut(p, q) /\ Assoc(p, q)
              /\ ReprInvariant(p, q)
              /\ \A k \in {0 - 1, 2, 3} : SMul(k, Add(p, q)) = Add(SMul(k, p), SMul(k, q))
PointLemmas == /\ Identity(p) /\ Inverse(p) /\ MulStep(p) /\ OrderKills(p) /\ MulPeriodic(p)
               /\ MulHomomorphic(p, Inf)
               /\ (Iterated => MulIsIterated(p))
               /\ \A b \in 0..(N - 1) : SMul(b, G) = p => BlindingCancels(b)   \* every blinding factor, once
GroupLaw == ph = 1 => /\ PairLemmas
                      /\ (q = Inf => PointLemmas)
                      /\ (p = Inf /\ q = Inf => CurveOk /\ PfxOk)
=============================================================================
