------------------------------- MODULE MC_EC -------------------------------
(* TLC proves, for the curve named by the constants, that the formulas of     *)
(* EC.tla form a cyclic group of order N and that SMul (halving)   *)
(* is "Q added to itself k times" (SMul = Mul).  One initial state per ordered pair of     *)
(* points; the lemmas about that pair are evaluated when TLC generates the    *)
(* pair's single successor, so the work spreads over all workers.             *)
EXTENDS EC

CONSTANT Scope,        \* "full": all ordered pairs of points; "points": single-point lemmas only (mid-size curves
                       \* used for traces); "assume": only the ASSUMEs (curve sanity: cyclic of order N, PointsForX)
         Iterated      \* TRUE: also compare SMul with the recursive Mul for every k in -2N..2N (small curves;
                       \* on the others MulStep is the induction step of the same statement)

VARIABLES pa, pb, ph
vars == <<pa, pb, ph>>

\* curve-level lemmas, evaluated once (in the state p = q = Inf; TLC evaluates ASSUMEs without its
\* cache of constant definitions, which makes them many times slower there)
CurveOk(n) == P % 2 = 1 /\ n % 2 = 1 /\ NonSingular /\ Cyclic(n) /\ InvTabOk(P, n)
PfxOk(S)   == \A x \in S : PointsForXOk(x)

Init == /\ pa \in (IF Scope = "assume" THEN {Inf} ELSE Points)
        /\ pb \in (IF Scope = "full" THEN Points ELSE {Inf})
        /\ ph = 0
Check == ph = 0 /\ ph' = 1 /\ UNCHANGED <<pa, pb>>
Next == Check
Spec == Init /\ [][Next]_vars

PairLemmas == /\ Closure(pa, pb) /\ Commut(pa, pb) /\ Assoc(pa, pb)
              /\ ReprInvariant(pa, pb)
              /\ \A k \in {0 - 1, 2, 3} : SMul(k, Add(pa, pb)) = Add(SMul(k, pa), SMul(k, pb))
PointLemmas == /\ Identity(pa) /\ Inverse(pa) /\ MulStep(pa) /\ OrderKills(pa) /\ MulPeriodic(pa)
               /\ MulHomomorphic(pa, Inf)
               /\ (Iterated => MulIsIterated(pa))
               /\ \A b \in 0..(N - 1) : SMul(b, G) = pa => BlindingCancels(b)   \* every blinding factor, once
GroupLaw == ph = 1 => /\ PairLemmas
                      /\ (pb = Inf => PointLemmas)
                      /\ (pa = Inf /\ pb = Inf => CurveOk(N) /\ PfxOk(Fp) /\ (Iterated => TableWidthRuleAll(N)))
=============================================================================
