------------------------------- MODULE MC_EC -------------------------------
(* TLC proves, for the curve named by the constants, that the formulas of     *)
(* EC.tla form a cyclic group of order N and that MulT (discrete-log table)   *)
(* is "Q added to itself k times".  One initial state per ordered pair of     *)
(* points; the lemmas about that pair are evaluated when TLC generates the    *)
(* pair's single successor, so the work spreads over all workers.             *)
EXTENDS EC

CONSTANT Iterated      \* TRUE: also compare MulT with the recursive Mul for every k (small curves)

VARIABLES p, q, ph
vars == <<p, q, ph>>

ASSUME CurveOk == P % 2 = 1 /\ N % 2 = 1 /\ NonSingular /\ Cyclic /\ InvTabOk
ASSUME PfxOk   == \A x \in Fp : PointsForXOk(x)

Init == p \in Points /\ q \in Points /\ ph = 0
Check == ph = 0 /\ ph' = 1 /\ UNCHANGED <<p, q>>
Next == Check
Spec == Init /\ [][Next]_vars

PairLemmas == /\ Closure(p, q) /\ Commut(p, q) /\ Assoc(p, q)
              /\ ReprInvariant(p, q) /\ AddIsDLogAdd(p, q)
              /\ \A k \in SmallK : MulT(k, Add(p, q)) = Add(MulT(k, p), MulT(k, q))
PointLemmas == /\ Identity(p) /\ Inverse(p) /\ MulStep(p) /\ OrderKills(p) /\ MulPeriodic(p)
               /\ MulHomomorphic(p, Inf)
               /\ (Iterated => MulIsIterated(p))
               /\ BlindingCancels(DLog[p])          \* p ranges over all points, so DLog[p] over all blinding factors
GroupLaw == ph = 1 => PairLemmas /\ (q = Inf => PointLemmas)
=============================================================================
