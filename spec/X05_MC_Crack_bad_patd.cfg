CONSTANTS P = 11  A = 1  B = 6  Gx = 2  Gy = 4  N = 13
          DS = {1, 7}  KS = {1, 2, 3, 4, 5, 6, 7, 8, 9, 10, 11, 12}
          Z1 = {1, 2, 13}
          Z2 = {1, 2, 13}  D2 = {1}
          OS1 = {}  DeepD = {}  M = 17  Dealers = 4
          PatD <- BadPatD
SPECIFICATION Spec
INVARIANTS LemmasHold TablesOk
CHECK_DEADLOCK FALSE
