CONSTANTS Tier = "q"  Emit = TRUE  Bug = "none"
SPECIFICATION Spec
INVARIANT AllPicked TypeOK NoFail RoundTrip Bip144Iff LtcFlagLemma IdLemma
CHECK_DEADLOCK FALSE
