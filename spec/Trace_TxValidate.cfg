CONSTANTS MaxSteps = 999  MaxInserts = 2
SPECIFICATION TSpec
CONSTRAINT Reached
POSTCONDITION Post
CHECK_DEADLOCK FALSE
