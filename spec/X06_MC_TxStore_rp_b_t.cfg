CONSTANTS MaxOps = 4  MaxEdit = 2  MaxSetLook = 0  Univ = 2  Ops <- OpsCore
          EditKinds <- KindsAll  LookKinds <- LKindsAll  FillSet <- SAll  ValSet <- SAll
          Ids <- MCIds  SegIds <- MCSegIds  NOut <- MCNOut  Confs <- MCConfsB2  Spenders <- MCSp
          BadFileRaises <- SwBadFile  OobIndexError <- SwOob
INIT MInit
NEXT MNextE
VIEW MView
CHECK_DEADLOCK FALSE
