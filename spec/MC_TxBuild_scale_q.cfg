CONSTANTS Variant = "std"  MaxSum = 5  MaxIns = 2  MaxPays = 4  MaxFee = 2
          ScaleKs = {12, 24}  ScaleRs = {0, 1, 2, 3, 4, 5, 7, 11, 23}
SPECIFICATION Spec
INVARIANTS Scale
CHECK_DEADLOCK FALSE
