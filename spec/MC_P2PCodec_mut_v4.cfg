CONSTANTS Tier = "q"  Emit = FALSE
CONSTANT V4Prefix <- V4PrefixBad
SPECIFICATION Spec
INVARIANT RoundTrip Widths Typed Truncated ByteOrder
CHECK_DEADLOCK FALSE
