SPECIFICATION Spec
INVARIANT VariantsOk
CHECK_DEADLOCK FALSE
