CONSTANTS MaxIns = 2  MaxStack = 3  Mode = "operands"  FreePushes = TRUE
SPECIFICATION ESpec
VIEW View
INVARIANT TypeOK
INVARIANT PcInScript
CHECK_DEADLOCK FALSE
