CONSTANTS P = 83  A = 1  B = 7  Gx = 0  Gy = 16  N = 79
          DS = {1, 39, 78}  KS = {1, 2, 3, 4, 5, 6, 7, 8, 9, 10, 11, 12, 13, 14, 15, 16, 17, 18, 19, 20, 21, 22, 23, 24, 25, 26, 27, 28, 29, 30, 31, 32, 33, 34, 35, 36, 37, 38, 39, 40, 41, 42, 43, 44, 45, 46, 47, 48, 49, 50, 51, 52, 53, 54, 55, 56, 57, 58, 59, 60, 61, 62, 63, 64, 65, 66, 67, 68, 69, 70, 71, 72, 73, 74, 75, 76, 77, 78}
          Z1 = {1, 2, 3, 19, 20, 21, 38, 39, 40, 41, 59, 60, 76, 77, 78, 79}
          Z2 = {1, 2, 39, 40, 41, 77, 78, 79}  D2 = {2, 77}
          OS1 = {}  DeepD = {}  M = 90  Dealers = 64
SPECIFICATION Spec
INVARIANTS LemmasHold TablesOk
CHECK_DEADLOCK FALSE
