----------------------------- MODULE CoinDecimal -----------------------------
(* C13 - amounts as decimal text.  A satoshi count is a sequence of decimal  *)
(* digits, most significant first, canonical (no leading zero; zero is <<0>>).*)
(* An amount in a unit of 10^D satoshis (BTC: D = 8, mBTC: D = 5) is the pair*)
(* [int, frac]: digits before and after the decimal point.  Conversion is    *)
(* pure digit shuffling - the point moves D places - so it is exact by       *)
(* construction; nothing here needs numbers beyond a single digit, and the   *)
(* replay/trace modules can handle 21e14 without touching TLC's integers.    *)
(* MC_CoinDecimal checks the shuffling against integer arithmetic where the  *)
(* values fit (small D, few digits).                                         *)
EXTENDS Integers, Sequences

Digit == 0..9
IsDigits(s) == \A i \in 1..Len(s) : s[i] \in Digit
Zeros(n) == [i \in 1..n |-> 0]

RECURSIVE Canon(_)      \* strip leading zeros, keep one digit
Canon(s) == IF Len(s) > 1 /\ Head(s) = 0 THEN Canon(Tail(s)) ELSE IF s = << >> THEN << 0 >> ELSE s
IsCanon(s) == IsDigits(s) /\ s # << >> /\ (Len(s) > 1 => s[1] # 0)

RECURSIVE StripRight(_) \* strip trailing zeros (of a fraction)
StripRight(s) == IF s # << >> /\ s[Len(s)] = 0 THEN StripRight(SubSeq(s, 1, Len(s) - 1)) ELSE s

\* satoshis -> amount with exactly D fractional digits
SatToCoin(ds, D) ==
  LET p == IF Len(ds) <= D THEN Zeros(D + 1 - Len(ds)) \o ds ELSE ds IN
  [int |-> SubSeq(p, 1, Len(p) - D), frac |-> SubSeq(p, Len(p) - D + 1, Len(p))]

\* amount -> satoshis; defined when the fraction has at most D digits (a
\* longer fraction is not a whole number of satoshis unless its tail is zero)
Representable(c, D) == Len(StripRight(c.frac)) <= D
CoinToSat(c, D) ==
  LET f == StripRight(c.frac) IN Canon(c.int \o f \o Zeros(D - Len(f)))

\* two amounts denote the same number
SameCoin(c1, c2) == Canon(c1.int) = Canon(c2.int) /\ StripRight(c1.frac) = StripRight(c2.frac)

\* ------------------------------------------------------------ text
Ch == << "0", "1", "2", "3", "4", "5", "6", "7", "8", "9" >>
Chars(ds) == [i \in 1..Len(ds) |-> Ch[ds[i] + 1]]
\* the spellings of one amount the replay feeds to the parser: fraction in
\* full, fraction without trailing zeros, and no point when nothing follows it
Spell(c, style) ==
  LET f == IF style = "full" THEN c.frac ELSE StripRight(c.frac) IN
  IF f = << >> /\ style = "bare" THEN Chars(c.int) ELSE Chars(c.int) \o << "." >> \o Chars(f)
Styles == {"full", "trim", "bare"}

\* ------------------------------------------------------------ numbers (lemmas only)
RECURSIVE Val(_)
Val(s) == IF s = << >> THEN 0 ELSE Val(SubSeq(s, 1, Len(s) - 1)) * 10 + s[Len(s)]
RECURSIVE Pow10(_)
Pow10(n) == IF n = 0 THEN 1 ELSE 10 * Pow10(n - 1)
RECURSIVE Digits(_)
Digits(n) == IF n < 10 THEN << n >> ELSE Digits(n \div 10) \o << n % 10 >>
=============================================================================
