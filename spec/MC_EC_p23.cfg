CONSTANTS P = 23  A = 1  B = 19  Gx = 2  Gy = 11  N = 19  Scope = "full"  Iterated = TRUE
SPECIFICATION Spec
INVARIANT GroupLaw
CHECK_DEADLOCK FALSE
