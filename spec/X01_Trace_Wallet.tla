-------------------------- MODULE X01_Trace_Wallet --------------------------
(* Code -> spec binding for X01: recorded runs of pycoin's SQLite3Wallet fed   *)
(* by a real BlockChain are checked to be behaviours of the composition        *)
(* ChainTrack + X01_Wallet.  One logged event = one public call with what it   *)
(* left behind: for a delivery the chain and operations the tracker reported   *)
(* (validated by ChainTrack's CTDeliver) and, for every call, the wallet's     *)
(* records, its last block index and its balance for 0..KMax confirmations     *)
(* (validated by the rule book of X01_Wallet).  For a send the logged set of   *)
(* spent outpoints must be one the rule book allows.                           *)
(* Every trace names the rule-book switches it is to be judged by (field sw):  *)
(* the harness uses this to find out which named deviations a tree has, and    *)
(* judges all other traces by that rule book.  When a trace is judged by the   *)
(* rule book without deviations the property itself (StateIsReplay, BalanceOk) *)
(* is checked on the logged states as well.                                    *)
EXTENDS X01_Wallet, Json, IOUtils, TLCExt

Traces == JsonDeserialize(IOEnv.TRACE_FILE)
VARIABLES tid, l
tvars == <<xvars, tid, l>>
Hdr == Traces[tid]
Ev == Traces[tid].ev
Cur == Ev[l]
TSw == Traces[tid].sw
\* (with the first block at an index above 0 the index-0 sentinel cannot show)
Faithful == TSw.ri /\ TSw.kc /\ TSw.km /\ TSw.uz /\ (~TSw.zs \/ Base > 0)

TInit == /\ TLCSet(1, {})
         /\ tid \in 1..Len(Traces) /\ l = 1
         /\ par = Traces[tid].par /\ wt = Traces[tid].wt
         /\ delivered = {} /\ nlocked = 0 /\ chain = <<>> /\ lastops = <<>>
         /\ idx = [h \in Hashes |-> -1]
         /\ txin = [t \in Txs |-> ToSet(Traces[tid].txin[t])]
         /\ own = Traces[tid].own
         /\ cont = [h \in Hashes |-> ToSet(Traces[tid].cont[h])]
         /\ ws = [q \in OPs |-> NoRec] /\ lbi = -1 /\ wview = <<>>
         /\ pend = <<>> /\ atomic = TRUE
         /\ seen = {} /\ mseen = {} /\ sent = {}
         /\ phase = "run" /\ ndel = 0 /\ nmem = 0 /\ nsend = 0 /\ nrew = 0

\* got_ops_callback(ops): every operation in turn
StepOp(acc, o) ==
  IF o[1] = "add"
  THEN [s |-> ConfirmAll(acc.s, cont[o[2]], Base + o[3], TSw), lb |-> Base + o[3],
        v |-> Append(acc.v, o[2]), sn |-> acc.sn \cup cont[o[2]]]
  ELSE [s |-> Rollback(acc.s, Base + o[3], TSw), lb |-> Base + o[3] - 1,
        v |-> SubSeq(acc.v, 1, Len(acc.v) - 1), sn |-> acc.sn]
RunOps(ops) == FoldLeft(StepOp, [s |-> ws, lb |-> lbi, v |-> wview, sn |-> seen], ops)

\* the logged state equals the state the rule book demands; judged by the faithful rule book
\* the logged state must also be the replay of the wallet's chain (the property itself)
Matches(e) ==
  /\ [q \in OPs |-> Enc(ws'[q])] = e.ws
  /\ lbi' = e.lbi
  /\ \A c \in 0..KMax : Balance(ws', lbi', c, TSw) = e.bal[c + 1]
  /\ Faithful => /\ StateIsReplay'
                 /\ LbiOk'
                 /\ \A c \in 0..KMax : e.bal[c + 1] = IdealBalance(wview, c)'

\* the state logged after a prefix of a delivery's operations (when they were handed over one by one)
MatchMid(r, m) ==
  /\ [q \in OPs |-> Enc(r.s[q])] = m.ws
  /\ r.lb = m.lbi
  /\ \A c \in 0..KMax : Balance(r.s, r.lb, c, TSw) = m.bal[c + 1]

Same == UNCHANGED <<txin, own, cont, pend, atomic, phase, ndel, nmem, nsend, nrew, tid>>

TDeliver == /\ l <= Len(Ev) /\ Cur.a = "D"
            /\ wview = chain
            /\ chain' = Cur.chain /\ lastops' = Cur.ops /\ idx' = Cur.idx
            /\ CTDeliver(ToSet(Cur.arg))
            /\ \E r \in {RunOps(Cur.ops)} :
                 ws' = r.s /\ lbi' = r.lb /\ wview' = r.v /\ seen' = r.sn
            /\ wview' = chain'
            /\ Len(Cur.mid) \in {0, Len(Cur.ops)}
            /\ \A j \in 1..Len(Cur.mid) : \E r \in {RunOps(SubSeq(Cur.ops, 1, j))} : MatchMid(r, Cur.mid[j])
            /\ UNCHANGED <<mseen, sent>> /\ Same
            /\ Matches(Cur)
            /\ l' = l + 1
TMempool == /\ l <= Len(Ev) /\ Cur.a = "M"
            /\ \A q \in txin[Cur.t] : own[q] => TxOf(q) \in seen
            /\ ws' = MempoolTx(ws, Cur.t, TSw)
            /\ seen' = seen \cup {Cur.t} /\ mseen' = mseen \cup {Cur.t}
            /\ UNCHANGED <<ctvars, lbi, wview, sent>> /\ Same
            /\ Matches(Cur)
            /\ l' = l + 1
TSendOk == /\ l <= Len(Ev) /\ Cur.a = "S" /\ Cur.ok = 1
           /\ ToSet(Cur.X) \in SendChoices(ws, lbi, Cur.amt)
           /\ Cur.change = SumVal(ToSet(Cur.X)) - Cur.amt - Fee
           /\ ws' = MarkSent(ws, ToSet(Cur.X)) /\ sent' = sent \cup ToSet(Cur.X)
           /\ UNCHANGED <<ctvars, lbi, wview, seen, mseen>> /\ Same
           /\ Matches(Cur)
           /\ l' = l + 1
TSendFail == /\ l <= Len(Ev) /\ Cur.a = "S" /\ Cur.ok = 0
             /\ ~CanSend(ws, lbi, Cur.amt)
             /\ UNCHANGED <<ctvars, ws, lbi, wview, seen, mseen, sent>> /\ Same
             /\ Matches(Cur)
             /\ l' = l + 1
TRewind == /\ l <= Len(Ev) /\ Cur.a = "R"
           /\ Cur.i \in Base..lbi
           /\ ws' = Rollback(ws, Cur.i, TSw) /\ lbi' = Cur.i - 1
           /\ wview' = SubSeq(wview, 1, Cur.i - Base)
           /\ UNCHANGED <<ctvars, seen, mseen, sent>> /\ Same
           /\ Matches(Cur)
           /\ l' = l + 1
\* the caller feeds the next block of the reported chain again
TAddOne == /\ l <= Len(Ev) /\ Cur.a = "A"
           /\ Len(wview) < Len(chain) /\ Cur.b = chain[Len(wview) + 1] /\ Cur.i = lbi + 1
           /\ ws' = ConfirmAll(ws, cont[Cur.b], Cur.i, TSw) /\ lbi' = Cur.i
           /\ wview' = Append(wview, Cur.b) /\ seen' = seen \cup cont[Cur.b]
           /\ UNCHANGED <<ctvars, mseen, sent>> /\ Same
           /\ Matches(Cur)
           /\ l' = l + 1
TNext == TDeliver \/ TMempool \/ TSendOk \/ TSendFail \/ TRewind \/ TAddOne
TSpec == TInit /\ [][TNext]_tvars

Reached == IF l = Len(Ev) + 1 THEN TLCSet(1, TLCGet(1) \cup {tid}) ELSE TRUE
Post == PrintT(ToJson([k |-> "rejected", n |-> Len(Traces), ids |-> (1..Len(Traces)) \ TLCGet(1)]))
=============================================================================
