------------------------------ MODULE MC_SigEnum ------------------------------
(* Spec -> code binding for OP_CHECKSIG(VERIFY) / OP_CHECKMULTISIG(VERIFY):   *)
(* every stack built from a table of real signatures and keys (valid, high-S, *)
(* undefined hash type, non-DER but parsable, garbage, empty, for another     *)
(* digest; compressed, uncompressed, hybrid, malformed keys) x every subset   *)
(* of the signature flags x sigversion.  The table's bytes and the            *)
(* "signature verifies for key" relation come from the harness (real          *)
(* secp256k1 signatures over a pinned digest); which checks apply, in which   *)
(* order, and the multisig matching are ScriptVM's.                           *)
EXTENDS ScriptVM, Json, IOUtils

CONSTANTS MaxKeys, MaxSigs

Tab == JsonDeserialize(IOEnv.SIGTAB_FILE)
Sigs == ToSet(Tab.sigs)        \* CHECKSIG operand classes
Keys == ToSet(Tab.keys)
MSigs == ToSet(Tab.msigs)      \* smaller alphabets for the multisig product
MKeys == ToSet(Tab.mkeys)

VARIABLES cfg, res
svars == <<cfg, res>>

SigFlags == SUBSET {"DERSIG", "LOW_S", "STRICTENC", "NULLFAIL"}
MultiFlags == SUBSET {"NULLDUMMY", "NULLFAIL", "STRICTENC", "DERSIG"}
Ctx0 == [version |-> 1, locktime |-> <<0, 0, 0, 0>>, sequence |-> <<255, 255, 255, 255>>]
EnvOf(script, flags, sv) == [script |-> script, flags |-> flags, sv |-> sv, ctx |-> Ctx0,
                             hashes |-> <<>>, sigs |-> Tab.oracle, sigmode |-> "fixed"]

SeqsUpTo(S, n) == UNION {[1..k -> S] : k \in 0..n}
Num(k) == IF k = 0 THEN <<>> ELSE <<k>>

SInit == /\ res = <<>>
         /\ cfg \in ([op : {OP_CHECKSIG, OP_CHECKSIGVERIFY}, flags : SigFlags, sv : {"base", "wit", "witpk"}]
                     \cup [op : {OP_CHECKMULTISIG, OP_CHECKMULTISIGVERIFY}, flags : MultiFlags, sv : {"base", "witpk"}])

Flags(c) == IF c.sv = "witpk" THEN c.flags \cup {"WITNESS_PUBKEYTYPE"} ELSE c.flags
Sv(c) == IF c.sv = "base" THEN "base" ELSE "wit"

Stacks(c) ==
  IF c.op \in {OP_CHECKSIG, OP_CHECKSIGVERIFY}
  THEN {<<s, k>> : s \in Sigs, k \in Keys} \cup {<<k>> : k \in Keys} \cup {<<>>}
  ELSE UNION { {<<d>> \o ss \o <<Num(m)>> \o ks \o <<Num(Len(ks))>> : m \in {Len(ss), Len(ss) + 1}} :
                 d \in {<<>>, <<0>>}, ss \in SeqsUpTo(MSigs, MaxSigs), ks \in SeqsUpTo(MKeys, MaxKeys) }

Emit(c, stack, vm) ==
  PrintT(ToJson([k |-> "sigcase", op |-> c.op, flags |-> Flags(c), sv |-> Sv(c), stack |-> stack,
                 status |-> vm.status, err |-> vm.err, out |-> vm.stack]))

SNext == /\ res = <<>>
         /\ \E stack \in Stacks(cfg) :
              LET vm == Step(InitVM(stack), EnvOf(<<cfg.op>>, Flags(cfg), Sv(cfg))) IN
              /\ vm.status # "need"      \* the table's oracle is complete
              /\ res' = <<stack, vm.status, vm.err, vm.stack>>
              /\ Emit(cfg, stack, vm)
         /\ UNCHANGED cfg
SSpec == SInit /\ [][SNext]_svars

\* lemmas
ResultShape == res # <<>> /\ res[2] = "run" =>
                 LET out == res[4] IN
                 IF cfg.op \in {OP_CHECKSIG, OP_CHECKMULTISIG}
                 THEN out # <<>> /\ out[Len(out)] \in {<<>>, <<1>>}
                 ELSE TRUE
\* NULLFAIL: a false result is only ever produced from empty signatures
NullFail == (res # <<>> /\ res[2] = "run" /\ "NULLFAIL" \in cfg.flags /\ cfg.op = OP_CHECKSIG /\ Len(res[1]) = 2
             /\ res[4][Len(res[4])] = <<>>) => res[1][1] = <<>>
NoNeed == res # <<>> => res[2] \in {"run", "fail"}
=============================================================================
