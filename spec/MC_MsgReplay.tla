---------------------------- MODULE MC_MsgReplay ----------------------------
(* Spec -> code binding for C17 on toy curves.  TLC enumerates                *)
(*   "sign"  every (key d, digest e, nonce k): the compact signature text the *)
(*           standard demands (both key forms), the recovery id, and the      *)
(*           verdicts of a set of verification probes (same / other key,      *)
(*           address in both forms, other digest);                            *)
(*   "rec"   every compact signature (header h, r, s) x digest e, in and out  *)
(*           of range: the recovered key and form, or the reason there is     *)
(*           none (then verification must answer FALSE);                      *)
(*   "text"  signature TEXTS that are not the base64 of 65 bytes, or are it   *)
(*           with huge r / s: verification must answer FALSE;                 *)
(* and prints one JSON record per case; harness/vf/props/c17.py executes each *)
(* on pycoin's MessageSigner(network, Generator(P, A, B, (Gx, Gy), N)).       *)
EXTENDS MsgSign, Json

CONSTANTS DSet, ESet, KSet,           \* sign cases
          HSet, RSet, SSet, ERSet,    \* rec cases
          WithText                    \* BOOLEAN: emit the text cases

VARIABLES kind, a, b, c, h, ph
vars == <<kind, a, b, c, h, ph>>

\* named constant sets for the cfg files
DAll == Scalars                       EAll == 1..(N + 2)
DFew == {1, 2, (N - 1) \div 2, (N + 1) \div 2, N - 1}
DThree == {1, (N - 1) \div 2, N - 1}
EFew == {1, 2, N - 1, N, N + 1}       ETwo == {3, N + 1}       EOne == {N + 3}
HAll == {0, 26} \cup 27..35 \cup {255}
HFew == {26, 27, 28, 29, 30, 33, 34, 35}
HSix == {26, 27, 29, 30, 34, 35}
RBound == 0..8 \cup (N - 2)..(N + 1) \cup (P - N - 1)..(P - N + 1) \cup {P - 1, P}
RAll == 0..(P + 1)                    RFew == 0..(N + 1) \cup {P - N - 1, P - N, P - 1, P}
SAll == 0..(N + 1)                    SFew == {0, 1, 2, (N - 1) \div 2, N - 2, N - 1, N, N + 1}
SFive == {0, 1, (N - 1) \div 2, N - 1, N}
KAll == Scalars

Next1(d) == IF d = N - 1 THEN 1 ELSE d + 1

(* ------------------------------------------------------------------ sign *)
\* a = d, b = e, c = current nonce, h = the nonce the caller supplied
SInit == kind = "sign" /\ a \in DSet /\ b \in ESet /\ c \in KSet /\ h = c /\ ph = 0
\* the property tolerates any way of choosing another nonce; pycoin takes k + 1
RetryIncrementNonce == /\ kind = "sign" /\ ph = 0 /\ ~SignTry(a, b, c).ok /\ c + 1 \in Scalars
                       /\ c' = c + 1 /\ UNCHANGED <<kind, a, b, h, ph>>
Probe(rc, kd, d2, c2, e2) == [kd |-> kd, d |-> d2, comp |-> c2, e |-> e2,
                              exp |-> VerifyRc(IF kd = "key" THEN KeyOf(PubKey(d2)) ELSE AddrOf(PubKey(d2), c2), rc)]
\* probes for the signature made with form comp: rc1 / rc2 = what it recovers to under e / e + 1
Probes(d, e, rc1, rc2) ==
  << Probe(rc1, "key", d, TRUE, e), Probe(rc1, "key", Next1(d), TRUE, e),
     Probe(rc1, "addr", d, TRUE, e), Probe(rc1, "addr", d, FALSE, e), Probe(rc1, "addr", Next1(d), TRUE, e),
     Probe(rc2, "key", d, TRUE, e + 1), Probe(rc2, "addr", d, TRUE, e + 1), Probe(rc2, "addr", d, FALSE, e + 1) >>
SignRecord(d, e, k0, sg) ==
  [k |-> "sign", d |-> d, e |-> e, k0 |-> k0, kf |-> sg.k, r |-> sg.r, s |-> sg.s, recid |-> sg.recid, Q |-> PubKey(d),
   tc |-> Str(CompactText(sg.recid, TRUE, sg.r, sg.s)), tu |-> Str(CompactText(sg.recid, FALSE, sg.r, sg.s)),
   pc |-> Probes(d, e, RecoverCompactV(HeaderByte(sg.recid, TRUE), sg.r, sg.s, e), RecoverCompactV(HeaderByte(sg.recid, TRUE), sg.r, sg.s, e + 1)),
   pu |-> Probes(d, e, RecoverCompactV(HeaderByte(sg.recid, FALSE), sg.r, sg.s, e), RecoverCompactV(HeaderByte(sg.recid, FALSE), sg.r, sg.s, e + 1))]
SignEmit == /\ kind = "sign" /\ ph = 0
            /\ \E sg \in {SignTry(a, b, c)} : sg.ok /\ PrintT(ToJson(SignRecord(a, b, h, sg)))
            /\ ph' = 1 /\ UNCHANGED <<kind, a, b, c, h>>

(* ------------------------------------------------------------------- rec *)
\* a = e, b = r, c = s, h = header byte
RInit == kind = "rec" /\ a \in ERSet /\ b \in RSet /\ c \in SSet /\ h \in HSet /\ ph = 0
RecRecord(e, r, s, hb, rc) ==
  [k |-> "rec", e |-> e, r |-> r, s |-> s, h |-> hb, text |-> Str(B64Encode(Compact(hb, BE32(r), BE32(s)))),
   ok |-> rc.ok, cls |-> rc.cls, Q |-> rc.Q, comp |-> rc.comp,
   \* a key that must NOT verify: another point (the recovered one + G, or 2G / G when that is infinity)
   other |-> IF rc.ok THEN (IF Add(rc.Q, G) = Inf THEN Add(G, G) ELSE Add(rc.Q, G)) ELSE G]
RecEmit == /\ kind = "rec" /\ ph = 0
           /\ \E rc \in {RecoverCompactV(h, b, c, a)} : PrintT(ToJson(RecRecord(a, b, c, h, rc)))
           /\ ph' = 1 /\ UNCHANGED <<kind, a, b, c, h>>

(* ------------------------------------------------------------------ text *)
\* one fixed good signature (d = 3, e = 5, first usable nonce from 7) is damaged in the ways of the property
TD == 3   TE == 5
TSig == Sign(TD, TE, 7)
TBytes == Compact(HeaderByte(TSig.recid, TRUE), BE32(TSig.r), BE32(TSig.s))
TGood == B64Encode(TBytes)
Chars(str) == str          \* (texts below are written as tuples of one-character strings)
Huge(pos) == [TBytes EXCEPT ![pos] = 255]
Texts ==
  << [n |-> "good",            t |-> TGood],
     [n |-> "empty",           t |-> <<>>],
     [n |-> "one_char",        t |-> <<"A">>],
     [n |-> "three_chars",     t |-> <<"a", "b", "c">>],
     [n |-> "five_chars",      t |-> <<"A", "A", "A", "A", "A">>],
     [n |-> "no_alphabet",     t |-> <<"!", "!", "!", "!">>],
     [n |-> "pad_only",        t |-> <<"=", "=", "=", "=">>],
     [n |-> "cut_last",        t |-> SubSeq(TGood, 1, 87)],
     [n |-> "cut_last2",       t |-> SubSeq(TGood, 1, 86)],
     [n |-> "cut_group",       t |-> SubSeq(TGood, 1, 84)],
     [n |-> "pad_in_middle",   t |-> SubSeq(TGood, 1, 40) \o <<"=">> \o SubSeq(TGood, 42, 88)],
     [n |-> "bang_in_middle",  t |-> SubSeq(TGood, 1, 40) \o <<"!">> \o SubSeq(TGood, 42, 88)],
     [n |-> "pad_replaced",    t |-> SubSeq(TGood, 1, 87) \o <<"A">>],
     [n |-> "extra_group",     t |-> SubSeq(TGood, 1, 87) \o <<"A", "A", "A", "A", "A">>],
     [n |-> "len0",            t |-> B64Encode(<<>>)],
     [n |-> "len1",            t |-> B64Encode(<<TBytes[1]>>)],
     [n |-> "len33",           t |-> B64Encode(SubSeq(TBytes, 1, 33))],
     [n |-> "len64",           t |-> B64Encode(SubSeq(TBytes, 1, 64))],
     [n |-> "len66",           t |-> B64Encode(TBytes \o <<0>>)],
     [n |-> "len66_front",     t |-> B64Encode(<<0>> \o TBytes)],
     [n |-> "len130",          t |-> B64Encode(TBytes \o TBytes)],
     [n |-> "r_huge_top",      t |-> B64Encode(Huge(2))],
     [n |-> "r_huge_mid",      t |-> B64Encode(Huge(20))],
     [n |-> "r_huge_bit31",    t |-> B64Encode(Huge(30))],
     [n |-> "s_huge_top",      t |-> B64Encode(Huge(34))],
     [n |-> "s_huge_bit31",    t |-> B64Encode(Huge(62))],
     [n |-> "all_ff",          t |-> B64Encode([i \in 1..65 |-> 255])],
     [n |-> "all_00",          t |-> B64Encode([i \in 1..65 |-> 0])],
     \* characters outside ASCII (written <U+hhhh> here, the harness puts the character in): not base64 either
     [n |-> "nonascii_latin",     t |-> SubSeq(TGood, 1, 40) \o <<"<U+00E9>">> \o SubSeq(TGood, 42, 88)],
     [n |-> "nonascii_lookalike", t |-> <<"<U+0397>">> \o SubSeq(TGood, 2, 88)],       \* Greek capital Eta for the first character
     [n |-> "nonascii_linesep",   t |-> TGood \o <<"<U+2028>">>],
     [n |-> "nonascii_surrogate", t |-> SubSeq(TGood, 1, 87) \o <<"<U+D800>">>],
     [n |-> "nonascii_only",      t |-> <<"<U+00E9>", "<U+00E9>", "<U+00E9>", "<U+00E9>">>],
     [n |-> "lenient_newline", t |-> TGood \o <<"\n">>],
     [n |-> "lenient_space",   t |-> <<" ">> \o TGood],
     [n |-> "lenient_bits",    t |-> SubSeq(TGood, 1, 86) \o <<B64Sym(B64Index(TGood[87]) + 1), "=">>] >>
\* what a decoder that skips foreign characters and ignores padding rules would read
LenientBytes(cs) == FoldLeft(B64Step, B64Start, SelectSeq(cs, LAMBDA ch : ch \in B64Set)).out
TInit == kind = "text" /\ WithText /\ a \in 1..Len(Texts) /\ b = 0 /\ c = 0 /\ h = 0 /\ ph = 0
TextRecord(i) ==
  LET t == Texts[i].t IN
  [k |-> "text", name |-> Texts[i].n, text |-> Str(t), cls |-> TextClass(t), d |-> TD, e |-> TE,
   sigcls |-> IF TextClass(t) = "65" THEN RecoverCompact(B64Decode(t).v, TE).cls ELSE "-",
   exp |-> VerifyText(KeyOf(PubKey(TD)), t, TE),
   expaddr |-> VerifyText(AddrOf(PubKey(TD), TRUE), t, TE),
   \* R1: where strict decoding fails but a lenient reading is the good signature, any boolean is allowed
   free |-> ~B64Decode(t).ok /\ Len(LenientBytes(t)) = 65 /\ VerifyCompact(KeyOf(PubKey(TD)), LenientBytes(t), TE)]
TextEmit == /\ kind = "text" /\ ph = 0 /\ PrintT(ToJson(TextRecord(a)))
            /\ ph' = 1 /\ UNCHANGED <<kind, a, b, c, h>>

Init == SInit \/ RInit \/ TInit
Next == RetryIncrementNonce \/ SignEmit \/ RecEmit \/ TextEmit
Spec == Init /\ [][Next]_vars
\* sanity of the fixed text cases
ASSUME TSig.ok /\ VerifyText(KeyOf(PubKey(TD)), TGood, TE) /\ Len(TGood) = 88
=============================================================================
