CONSTANTS Generic = {"BTC", "DCR", "POLIS", "DOGE", "GRS", "LTC"}  Table = "real"  Mode = "cases"
SPECIFICATION Spec
INVARIANTS GridOk
CHECK_DEADLOCK FALSE
