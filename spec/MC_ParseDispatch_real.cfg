CONSTANTS Generic = {"BTC", "DCR", "POLIS", "DOGE", "GRS", "LTC"}  Table = "real"  Mode = "cases"
SPECIFICATION Spec
INVARIANTS GridOk FaithfulOk ApartOk
CHECK_DEADLOCK FALSE
