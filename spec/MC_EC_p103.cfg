CONSTANTS P = 103  A = 0  B = 5  Gx = 2  Gy = 42  N = 97  Scope = "full"  Iterated = FALSE
SPECIFICATION Spec
INVARIANT GroupLaw
CHECK_DEADLOCK FALSE
