CONSTANTS MaxLen = 3  MinEdits = 1  MaxEdits = 1
          CoinSet = {"BTC"}  SvSet = {"witness_v0"}  IdxSet = {1}
          ScriptIds = {1}  SigSetIds = {2}  BeginSet = {0}  HtBase = {1}
CONSTANT Key <- BadKeyNoTx
SPECIFICATION Spec
INVARIANTS HistoryIndependent
CHECK_DEADLOCK FALSE
