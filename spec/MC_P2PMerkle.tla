---------------------------- MODULE MC_P2PMerkle ----------------------------
(* C16: the merkleblock messages of the case space (spec/P2PGrid.tla).        *)
(*                                                                            *)
(* A merkleblock payload is header, uint32 total, hashes, flag bytes (BIP37). *)
(* A parser may verify the partial merkle tree while it reads (pycoin's       *)
(* does), so the field values a round trip is demanded for are the proofs of  *)
(* an honest prover.  They come from C14's PartialMerkle.tla (used as it is): *)
(* Build(lv, M), the depth-first traversal of BIP37 / Core's                  *)
(* TraverseAndBuild, one flag bit per node visited, packed 8 per byte.        *)
(*                                                                            *)
(* The dimension enumerated here is the SIZE OF THE TRAVERSAL: for every      *)
(* block size n in 1..N and every number of flag bits b that some match set   *)
(* of n transactions produces, one proof (the CHOOSE-n match set).  With      *)
(* N = 9 the sizes are 1..18 and 20: flag bytes that end in padding, flag     *)
(* bytes filled to the last bit (8, 16; N = 12: 24) and both neighbours.      *)
(*                                                                            *)
(* Each proof is run through the verifier state machine of PartialMerkle      *)
(* (Descend / Ascend / Finish); the lemma Accepted states that it is accepted *)
(* having read exactly b bits and every hash - only then is it printed.       *)
(* Hashes are the uninterpreted terms of Merkle.tla; the harness evaluates    *)
(* them with hashlib and hands the bytes to MC_P2PReplay through P2P_POOL.    *)
EXTENDS PartialMerkle, TLC, Json

CONSTANT N
VARIABLES c, vs

NBitsOf(n, M) == Len(Build(Leaves(n), M).bits)
Sizes(n) == {NBitsOf(n, M) : M \in SUBSET (1..n)}
Rep(n, b) == CHOOSE M \in SUBSET (1..n) : NBitsOf(n, M) = b

Lv == Leaves(c.n)
Out == [k |-> "proof", n |-> c.n, m |-> {i \in 1..c.n : i \in c.M}, bits |-> c.b,
        hashes |-> c.p.hashes, flags |-> c.p.flags, root |-> Root(Lv),
        matched |-> vs'.matched, verdict |-> vs'.st]

Init == \E n \in 1..N : \E b \in Sizes(n) :
          LET M == Rep(n, b) p == Proof(Leaves(n), M) IN
          /\ c = [n |-> n, b |-> b, M |-> M, p |-> p]
          /\ vs = VInit(n, p.flags, p.hashes, Root(Leaves(n)))
Next == /\ Running(vs) /\ vs' = VStep(vs) /\ UNCHANGED c
        /\ Done(vs') => PrintT(ToJson(Out))
Spec == Init /\ [][Next]_<<c, vs>>

\* ---------------------------------------------------------------- lemmas
\* the proof is accepted, every flag bit and every hash is read, the flag bytes are the bits packed 8 per byte
Accepted == Done(vs) =>
  /\ vs.st = "accept" /\ vs.fail = {}
  /\ vs.bitpos = c.b /\ vs.hpos = Len(c.p.hashes)
  /\ Len(c.p.flags) = NBytes(c.b)
  /\ vs.matched = MatchedIds(Lv, c.M)
  /\ Demand(vs, Lv) = "accept"
\* the sizes wanted are there: a traversal that fills its last flag byte, and one bit less / more
ASSUME Boundaries == N >= 9 => \A b \in {7, 8, 9, 15, 16, 17} : \E n \in 1..N : b \in Sizes(n)
ASSUME PrintT(ToJson([k |-> "nproofs", n |-> Cardinality(UNION {{<<n, b>> : b \in Sizes(n)} : n \in 1..N})]))
=============================================================================
