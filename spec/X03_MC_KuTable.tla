---------------------------- MODULE X03_MC_KuTable ----------------------------
(* X03 - the tables over one abstract key, and their lemmas.                  *)
(*                                                                            *)
(* The harness names the templates the enumerated cases refer to (X03_TPLS:   *)
(* class, family, private?, network, depth, child number); TLC prints each as *)
(* a sequence of rows [k, lab, v, legacy] whose values are terms over the key *)
(* "self", and checks on each the lemmas of mutual consistency of             *)
(* X03_KuTable under EVERY option set.                                        *)
EXTENDS X03_KuConc, Json, IOUtils

Tpls == JsonDeserialize(IOEnv.X03_TPLS)
VARIABLES ti, phase
vars == <<ti, phase>>

TK == Tpls[ti]
Init == ti \in DOMAIN Tpls /\ phase = "pick"
Emit == /\ phase = "pick" /\ phase' = "done" /\ UNCHANGED ti
        /\ PrintT(ToJson([k |-> "tpl", i |-> ti, key |-> TK, rows |-> Template(TK)]))
Next == Emit
Spec == Init /\ [][Next]_vars

OptSets == {[pub |-> FALSE, json |-> j, unc |-> u, sel |-> s, brief |-> b] :
               j \in BOOLEAN, u \in BOOLEAN, s \in {"", "w", "W", "a"},
               b \in {<<>>, <<"wif", "address">>, <<"hash160">>, <<"public_pair_x", "chain_code", "p2sh_segwit">>}}
Lemmas == phase = "done" =>
  LET o == TplObj(TK)  N == Net(TK.net)  rows == Template(TK) IN
  /\ Tabulable(o, N)
  /\ TplKeyOf(o, TK.net) = TK
  /\ TableLemmas(o, N)
  /\ \A opts \in OptSets : JsonTextAgree(opts, rows) /\ SingleIsRow(opts, rows)
  \* the options never invent a row, never reorder, and the text form never shows a legacy row
  /\ \A opts \in OptSets : LET sh == Shown(opts, Selected(opts, rows)) IN
        /\ \A i \in DOMAIN sh : HasRow(rows, sh[i].k) /\ RowOf(rows, sh[i].k) = sh[i] /\ (~opts.json => ~sh[i].legacy)
        /\ \A i, j \in DOMAIN sh : i < j =>
              (CHOOSE a \in DOMAIN rows : rows[a] = sh[i]) < (CHOOSE a \in DOMAIN rows : rows[a] = sh[j])
=============================================================================
