CONSTANTS P = 67  A = 0  B = 2  Gx = 2  Gy = 12  N = 73  Scope = "full"  Iterated = FALSE
SPECIFICATION Spec
INVARIANT GroupLaw
CHECK_DEADLOCK FALSE
