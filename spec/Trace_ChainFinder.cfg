CONSTANTS N = 8  W = 9  MaxAdd = 99  MaxLock = 99  AllowDup = TRUE
          MeldInterior = TRUE  SkipLocked = TRUE  KeepOnLock = TRUE
SPECIFICATION TSpec
CONSTRAINT Reached
POSTCONDITION Post
CHECK_DEADLOCK FALSE
