------------------------------ MODULE NetTable ------------------------------
(* C08 / C18 - the table of registered networks, as CONFIGURATION.            *)
(*                                                                            *)
(* The harness reads every registered network symbol of pycoin               *)
(* (pycoin.networks.registry.network_codes, pycoin/symbols) and writes       *)
(* one record per network to a JSON file whose name TLC finds in the          *)
(* environment variable NET_TABLE.  The table is data: nothing in the rule    *)
(* books (Address, Classify, ParseDispatch) depends on any particular value   *)
(* in it; they quantify over whatever it contains.  The MC_* modules replace  *)
(* it by small synthetic tables to check the lemmas on sane and on            *)
(* deliberately broken configurations.                                        *)
(*                                                                            *)
(* A network record:                                                          *)
(*   sym      symbol ("BTC")                                                  *)
(*   p2pkh    version bytes of a Base58Check pay-to-pubkey-hash address       *)
(*   p2sh     version bytes of a Base58Check pay-to-script-hash address       *)
(*   wif      version bytes of a WIF private key                              *)
(*   b32prv, b32pub, b49prv, b49pub, b84prv, b84pub                           *)
(*            4 version bytes of the extended-key serialisations              *)
(*   hrp      human-readable part of segwit addresses, as character codes     *)
(*   sec      the textual prefix of a public key in text form ("BTCSEC:")     *)
(*   chk      checksum function of the network's Base58Check texts             *)
(*            ("sha256d"; "groestl" for the Groestlcoin family)                *)
(*   stub     TRUE for networks whose text layer is disabled in this sandbox  *)
(*            (Groestlcoin family: groestlcoin_hash is not installed, L3)     *)
(* A byte string is a sequence over 0..255; an absent prefix is <<>>.         *)
EXTENDS Naturals, Sequences, SequencesExt, FiniteSets, Json, IOUtils, TLC

RealNets == JsonDeserialize(IOEnv.NET_TABLE)

Byte == 0..255
StartsWith(d, p) == Len(p) <= Len(d) /\ SubSeq(d, 1, Len(p)) = p
Drop(d, k) == SubSeq(d, k + 1, Len(d))
Rep(b, n) == [i \in 1..n |-> b]
IsPrefixOf(p, q) == StartsWith(q, p)
\* two prefixes are compatible when one of them begins with the other
Compatible(p, q) == IsPrefixOf(p, q) \/ IsPrefixOf(q, p)

\* ---- 256-bit quantities are big-endian byte strings of equal length ----
RECURSIVE BLess(_, _)
BLess(a, b) == IF a = <<>> \/ b = <<>> THEN FALSE
               ELSE IF Head(a) # Head(b) THEN Head(a) < Head(b)
               ELSE BLess(Tail(a), Tail(b))
BLeq(a, b) == a = b \/ BLess(a, b)
Zero32 == Rep(0, 32)

\* secp256k1: group order and field prime (SEC 2, section 2.4.1)
OrderN == Rep(255, 15) \o <<254, 186, 174, 220, 230, 175, 72, 160, 59, 191, 210, 94, 140, 208, 54, 65, 65>>
FieldP == Rep(255, 27) \o <<254, 255, 255, 252, 47>>
ASSUME CurveConstLen == Len(OrderN) = 32 /\ Len(FieldP) = 32
\* a secret exponent is valid iff 1 <= e <= n-1
ValidSecret(e32) == Len(e32) = 32 /\ e32 # Zero32 /\ BLess(e32, OrderN)
ValidCoord(x32) == Len(x32) = 32 /\ BLess(x32, FieldP)

\* minimal big-endian form (numbers written in text)
RECURSIVE Strip0(_)
Strip0(b) == IF b # <<>> /\ Head(b) = 0 THEN Strip0(Tail(b)) ELSE b
Pad32(b) == Rep(0, 32 - Len(b)) \o b
=============================================================================
