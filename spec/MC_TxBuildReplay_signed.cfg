CONSTANTS Variant = "std"  MaxSum = 4  MaxIns = 2  MaxPays = 3  MaxFee = 1
          ScaleKs = {12}  ScaleRs = {0}
          SrcPatterns = {"rev"}  ToPatterns = {"distinct"}
          EmitScaled = FALSE
SPECIFICATION RSpec
INVARIANTS DoneIsBuild OutcomeOK
CHECK_DEADLOCK FALSE
