CONSTANTS P = 43  A = 0  B = 7  Gx = 2  Gy = 12  N = 31  WithText = TRUE
CONSTANTS DSet <- DFew  ESet <- ETwo  KSet <- KAll  HSet <- HFew  RSet <- RFew  SSet <- SFew  ERSet <- EOne
SPECIFICATION Spec
CHECK_DEADLOCK FALSE
