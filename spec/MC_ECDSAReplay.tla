---------------------------- MODULE MC_ECDSAReplay ----------------------------
(* Spec -> code binding for C01 on a toy curve.  TLC runs the signing state   *)
(* machine for every (d, z, first nonce) and evaluates Verify / Recover of    *)
(* ECDSA.tla for complete grids, printing what the standard demands:          *)
(*  sign  d, z, k0 -> r, s, recid and the number of retries.  Signing is a    *)
(*        machine of named actions: TryNonce computes (r, s) from the current *)
(*        nonce; RetryIncrementNonce (pycoin's k += 1, tolerated by the       *)
(*        property, which only constrains the first nonce) moves on when r or *)
(*        s is 0; Return prints.  With retries > 0 the record carries `valid',*)
(*        the set of all (r, s) valid for (d*G, z) (lemma ValidAreNonceImages)*)
(*        and the harness accepts any member of it.                           *)
(*  ver   (key Q, hash z) -> the set of (r, s) in (1..N-1)^2 that verify; the *)
(*        harness probes pycoin on a larger grid (-1..2N)^2: everything else  *)
(*        must be rejected.                                                   *)
(*  rec   (z, r) -> for every s: keys that must be returned for y-parity 0/1, *)
(*        and all keys under which (r, s) verifies (the only ones allowed;    *)
(*        computed as RecoverAll, equal to the set of verifying keys by lemma *)
(*        VerifyIffRecoverable, which MC_ECDSA checks by enumerating keys).   *)
EXTENDS ECDSA, Json, TLC

CONSTANTS SignZ, VerZ, VerQ, RecZ     \* VerQ: indices into PtSeq (2..N) of the public keys of the verify table

VARIABLES mode, vd, vz, vk0, vk, vst, vsig, vtries
vars == <<mode, vd, vz, vk0, vk, vst, vsig, vtries>>
NoSig == [r |-> 0, s |-> 0, x |-> 0, recid |-> 0]

Init == \/ /\ mode = "sign" /\ vd \in 1..(N - 1) /\ vz \in SignZ /\ vk0 \in 1..(N - 1)
           /\ vk = vk0 /\ vst = "try" /\ vsig = NoSig /\ vtries = 0
        \/ /\ mode = "ver" /\ vd \in VerQ /\ vz \in VerZ
           /\ vk0 = 0 /\ vk = 0 /\ vst = "row" /\ vsig = NoSig /\ vtries = 0
        \/ /\ mode = "rec" /\ vd \in 1..(N - 1) /\ vz \in RecZ          \* vd plays r
           /\ vk0 = 0 /\ vk = 0 /\ vst = "row" /\ vsig = NoSig /\ vtries = 0

TryNonce == /\ mode = "sign" /\ vst = "try"
            /\ vsig' = SigOf(vd, vz, vk)
            /\ vst' = IF SigUsable(vsig') THEN "usable" ELSE "retry"
            /\ UNCHANGED <<mode, vd, vz, vk0, vk, vtries>>
RetryIncrementNonce == /\ mode = "sign" /\ vst = "retry"
                       /\ vk' = NextNonce(vk) /\ vtries' = vtries + 1 /\ vst' = "try"
                       /\ UNCHANGED <<mode, vd, vz, vk0, vsig>>
Return == /\ mode = "sign" /\ vst = "usable" /\ vst' = "returned"
          /\ UNCHANGED <<mode, vd, vz, vk0, vk, vsig, vtries>>
          /\ PrintT(ToJson([k |-> "sign", d |-> vd, z |-> vz, k0 |-> vk0, r |-> vsig.r, s |-> vsig.s,
                            recid |-> vsig.recid, tries |-> vtries, kused |-> vk,
                            valid |-> IF vtries > 0 THEN NonceImages(vd, vz) ELSE {}]))

VerRow == /\ mode = "ver" /\ vst = "row" /\ vst' = "printed"
          /\ UNCHANGED <<mode, vd, vz, vk0, vk, vsig, vtries>>
          /\ LET Q == PtSeq[vd] IN
             PrintT(ToJson([k |-> "ver", Q |-> Q, z |-> vz,
                            acc |-> {<<r, s>> \in (1..(N - 1)) \X (1..(N - 1)) : Verify(Q, vz, r, s)}]))
RecRow == /\ mode = "rec" /\ vst = "row" /\ vst' = "printed"
          /\ UNCHANGED <<mode, vd, vz, vk0, vk, vsig, vtries>>
          /\ PrintT(ToJson([k |-> "rec", z |-> vz, r |-> vd,
                            rows |-> [s \in 1..(N - 1) |->
                                       [must0 |-> Recover(vz, vd, s, 0), must1 |-> Recover(vz, vd, s, 1),
                                        may |-> RecoverAll(vz, vd, s)]],
                            \* s outside [1, n-1]: no key verifies such a signature, so nothing may be recovered from it
                            outs |-> {<<s, VerifyingKeys(vz, vd, s)>> : s \in {0 - 1, 0, N, N + 1, 2 * N - 1}}]))

Next == TryNonce \/ RetryIncrementNonce \/ Return \/ VerRow \/ RecRow
Spec == Init /\ [][Next]_vars

\* the machine's own sanity: what is returned verifies (SignSound restated on the machine)
ReturnedVerifies == (mode = "sign" /\ vst = "returned") =>
                       /\ Verify(PubKey(vd), vz, vsig.r, vsig.s)
                       /\ (vtries = 0 => vk = vk0)
=============================================================================
