CONSTANTS P = 43  A = 0  B = 7  Gx = 2  Gy = 12  N = 31  Mode = "recover"  RMax = 33
CONSTANT ESet <- EFew
CONSTANT SSet <- SFew
CONSTANT DSet <- DAll
SPECIFICATION Spec
INVARIANT Holds
CHECK_DEADLOCK FALSE
