-------------------------- MODULE MC_ParseDispatch ---------------------------
(* C18 - the ParseDispatch rule book over the REAL prefix table (or a         *)
(* synthetic one).  TLC builds, for every network, a grid of text structures  *)
(* (every checksummed-Base58 role of the network x payload shapes and         *)
(* contents at the boundaries, segwit texts, colon forms, numerals, pairs,    *)
(* SEC texts, scripts, junk) and prints for each the outcome every entry      *)
(* point must produce.  The harness turns the structure into characters and   *)
(* calls pycoin.                                                              *)
(*   Mode "cases":  one state per (network, text); export.                    *)
(*   Mode "clash":  one state per network; export of the kinds of checksummed *)
(*                  text that are not apart (by the rules / by prefix only).  *)
(* Invariants (all modes): the grid is well-formed (GridOk), every object the *)
(* rules return re-serialises to a text the rules parse back to the same      *)
(* object (FaithfulOk), and - on tables that are apart - at most one          *)
(* checksummed kind answers a text (ApartOk).                                 *)
EXTENDS ParseDispatch, Json

CONSTANTS Table, Mode, Generic     \* Generic: symbols of the networks that also get the network-independent forms ("*" = all)
VARIABLES cur, done
vars == <<cur, done>>

\* ---- tables ----------------------------------------------------------------------
SNet(sym, a, s, w, hrp, xprv, xpub, sec) ==
  [sym |-> sym, p2pkh |-> a, p2sh |-> s, wif |-> w, hrp |-> hrp, b32prv |-> xprv, b32pub |-> xpub,
   b49prv |-> <<>>, b49pub |-> <<>>, b84prv |-> <<>>, b84pub |-> <<>>, sec |-> sec, stub |-> FALSE, chk |-> "sha256d"]
Synth(t) ==
  CASE t = "sane" -> << SNet("AAA", <<0>>, <<5>>, <<128>>, <<97, 97>>, <<4, 136, 173, 228>>, <<4, 136, 178, 30>>, <<65, 65, 65, 83, 69, 67, 58>>),
                        [SNet("DDD", <<7, 63>>, <<7, 26>>, <<34, 222>>, <<>>, <<2, 253, 164, 232>>, <<2, 253, 169, 38>>, <<68, 68, 68, 83, 69, 67>>)
                           EXCEPT !.b84prv = <<4, 178, 67, 12>>, !.b84pub = <<4, 178, 71, 70>>] >>
    [] t = "polis" -> << SNet("PPP", <<55>>, <<60>>, <<60>>, <<>>, <<3, 226, 93, 126>>, <<3, 226, 89, 69>>, <<80, 80, 80, 83, 69, 67>>) >>
    [] t = "same"  -> << SNet("QQQ", <<55>>, <<55>>, <<60>>, <<>>, <<3, 226, 93, 126>>, <<3, 226, 93, 126>>, <<81, 81, 81, 83, 69, 67>>) >>
Nets == IF Table = "real" THEN RealNets ELSE Synth(Table)
NetIds == DOMAIN Nets

\* ---- constants of the curve (the harness re-checks every claim of KnownX with its own arithmetic) ----
Gx == <<121, 190, 102, 126, 249, 220, 187, 172, 85, 160, 98, 149, 206, 135, 11, 7, 2, 155, 252, 219, 45, 206, 40, 217, 89, 242, 129, 91, 22, 248, 23, 152>>
Gy == <<72, 58, 218, 119, 38, 163, 196, 101, 93, 164, 251, 252, 14, 17, 8, 168, 253, 23, 180, 72, 166, 133, 84, 25, 156, 71, 208, 143, 251, 16, 212, 184>>
G2x == <<198, 4, 127, 148, 65, 237, 125, 109, 48, 69, 64, 110, 149, 192, 124, 216, 92, 119, 142, 75, 140, 239, 60, 167, 171, 172, 9, 185, 92, 112, 158, 229>>
G2y == <<26, 225, 104, 254, 166, 61, 195, 57, 163, 197, 132, 25, 70, 108, 234, 238, 247, 246, 50, 101, 50, 102, 208, 225, 35, 100, 49, 169, 80, 207, 229, 42>>
GyBad == [Gy EXCEPT ![32] = 185]
Xoff == Pad32(<<10>>)                              \* no curve point has x = 10
PPlus1 == [FieldP EXCEPT ![32] = 48]               \* p + 1: not a field element (x = 1 is on the curve)
X1 == Pad32(<<1>>)
\* [x, y ("" = any), on]
KnownX == { [x |-> Gx, on |-> TRUE], [x |-> G2x, on |-> TRUE], [x |-> X1, on |-> TRUE],
            [x |-> Xoff, on |-> FALSE], [x |-> PPlus1, on |-> FALSE], [x |-> Zero32, on |-> FALSE] }
KnownXY == { [x |-> Gx, y |-> Gy, on |-> TRUE], [x |-> G2x, y |-> G2y, on |-> TRUE], [x |-> Gx, y |-> GyBad, on |-> FALSE],
             [x |-> Xoff, y |-> Gy, on |-> FALSE], [x |-> PPlus1, y |-> Gy, on |-> FALSE] }
IsKnownX(x) == \E e \in KnownX : e.x = x
OnX(x) == \E e \in KnownX : e.x = x /\ e.on
IsKnownXY(x, y) == \E e \in KnownXY : e.x = x /\ e.y = y
OnXY(x, y) == \E e \in KnownXY : e.x = x /\ e.y = y /\ e.on
\* the oracle for SEC bytes: (known?, on?)
NeedsOracle(b) == (Len(b) = 33 /\ b[1] \in {2, 3}) \/ (Len(b) = 65 /\ b[1] = 4)
SecKnown(b) == NeedsOracle(b) => (IF Len(b) = 33 THEN IsKnownX(SecX(b)) ELSE IsKnownXY(SecX(b), SecY(b)))
SecOn(b) == NeedsOracle(b) /\ (IF Len(b) = 33 THEN OnX(SecX(b)) ELSE OnXY(SecX(b), SecY(b)))

One32 == X1
Mid32 == Rep(17, 32)
NM1 == [OrderN EXCEPT ![32] = 64]
Max32 == Rep(255, 32)
SeVals == {Zero32, One32, Mid32, NM1, OrderN, Max32}

\* ---- Base58Check payload grid ---------------------------------------------------------
H(n) == Rep(17, n)
ExtBody(kd) == <<1>> \o <<1, 2, 3, 4>> \o <<0, 0, 0, 5>> \o Rep(34, 32) \o kd
KeyDatas == {<<0>> \o se : se \in {One32, Zero32, OrderN, NM1}}
            \cup {<<2>> \o Gx, <<3>> \o Gx, <<2>> \o G2x, <<2>> \o Xoff, <<2>> \o PPlus1, <<4>> \o Gx, <<1>> \o Gx}
\* header fields at their byte boundaries: depth 0 (a master key: zero fingerprint and index), 127 / 128 / 255
\* (an unsigned byte), hardened and all-ones child numbers, a fingerprint with the high bit set
ExtBodyH(dp, fp, ix, kd) == <<dp>> \o fp \o ix \o Rep(34, 32) \o kd
ExtHdr == {ExtBodyH(0, <<0, 0, 0, 0>>, <<0, 0, 0, 0>>, kd) : kd \in {<<0>> \o One32, <<2>> \o Gx}}
          \cup {ExtBodyH(dp, <<255, 254, 253, 252>>, ix, kd) : dp \in {127, 128, 255}, ix \in {<<128, 0, 0, 0>>, <<255, 255, 255, 255>>},
                                                              kd \in {<<0>> \o One32, <<2>> \o Gx}}
ExtFull == {ExtBody(kd) : kd \in KeyDatas}
           \cup {SubSeq(ExtBody(<<0>> \o One32), 1, l) : l \in {0, 4, 9, 40, 73}}
           \cup {ExtBody(<<2>> \o Gx) \o <<0>>, ExtBody(<<4>> \o Gx \o Gy), ExtBody(<<0>> \o One32) \o <<7>>}
           \cup ExtHdr
ExtLite == {ExtBody(<<0>> \o One32), ExtBody(<<2>> \o Gx)}
WifFull == SeVals \cup {se \o <<1>> : se \in SeVals} \cup {One32 \o <<0>>, One32 \o <<2>>, Rep(1, 31), One32 \o <<1, 1>>}
WifLite == {One32, One32 \o <<1>>}
AddrFull == {H(20), H(19), H(21), H(0)}
Roles(N) == {r \in {[name |-> "p2pkh", pfx |-> N.p2pkh], [name |-> "p2sh", pfx |-> N.p2sh], [name |-> "wif", pfx |-> N.wif],
                    [name |-> "ext", pfx |-> N.b32prv], [name |-> "ext", pfx |-> N.b32pub],
                    [name |-> "ext", pfx |-> N.b49prv], [name |-> "ext", pfx |-> N.b49pub],
                    [name |-> "ext", pfx |-> N.b84prv], [name |-> "ext", pfx |-> N.b84pub],
                    [name |-> "foreign", pfx |-> <<238, 238>>]} : r.pfx # <<>>}
Bodies(role) ==
  CASE role = "p2pkh" -> AddrFull \cup WifLite \cup ExtLite
    [] role = "p2sh"  -> AddrFull \cup WifLite \cup ExtLite
    [] role = "wif"   -> {H(20)} \cup WifFull \cup ExtLite
    [] role = "ext"   -> {H(20)} \cup WifLite \cup ExtFull
    [] role = "foreign" -> {H(20), One32 \o <<1>>, ExtBody(<<0>> \o One32)}
\* oracle bit of a payload: the SEC bytes of an extended PUBLIC key sit at 46..78 of a 78-byte payload
PayOn(d) == Len(d) = 78 /\ SecOn(SubSeq(d, 46, 78))
PayKnown(d) == Len(d) = 78 => SecKnown(SubSeq(d, 46, 78))
\* (the texts are built under double-SHA256 for every network: for the Groestlcoin family they carry that
\*  family's version bytes under the WRONG checksum function and must be refused)
B58T(N, d) == [TX("b58c") EXCEPT !.d = d, !.w = "sha256d", !.on = PayOn(d)]
B58Grid(N) == UNION {{B58T(N, r.pfx \o b) : b \in Bodies(r.name)} : r \in Roles(N)}
              \cup {[TX("b58bad") EXCEPT !.d = (IF N.p2pkh # <<>> THEN N.p2pkh ELSE <<0>>) \o H(20), !.w = "sha256d"]}

\* ---- segwit grid ------------------------------------------------------------------------
OtherHrp == <<122, 122>>
SegShapes == {<<0, 20, "bech32">>, <<0, 32, "bech32">>, <<1, 32, "bech32m">>, <<0, 20, "bech32m">>, <<1, 32, "bech32">>,
              <<0, 21, "bech32">>, <<0, 19, "bech32">>, <<0, 0, "bech32">>, <<1, 0, "bech32m">>, <<0, 0, "bech32m">>, <<1, 20, "bech32m">>, <<1, 33, "bech32m">>, <<2, 32, "bech32m">>, <<16, 32, "bech32m">>}
SegT(hrp, sh) == [TX("seg") EXCEPT !.a = hrp, !.v = sh[1], !.d = H(sh[2]), !.w = sh[3]]
SegGrid(N) == {SegT(hrp, sh) : hrp \in ({N.hrp} \ {<<>>}) \cup {OtherHrp}, sh \in SegShapes}
              \cup {[TX("segbad") EXCEPT !.a = IF N.hrp # <<>> THEN N.hrp ELSE OtherHrp, !.d = H(20), !.w = "bech32"]}

\* ---- Bech32 texts that are not of the segwit shape: empty data part; a version symbol followed by ONE
\*      symbol (5 bits: no byte, too much padding); two symbols with non-zero padding bits
BechT(hrp, syms, const) == [TX("bech") EXCEPT !.a = hrp, !.d = syms, !.w = const]
BechGrid(N) == {BechT(hrp, syms, c) : hrp \in ({N.hrp} \ {<<>>}) \cup {OtherHrp, <<97>>},
                                      syms \in {<<>>, <<0, 0>>, <<1, 31>>, <<0, 1, 1>>, <<16, 0, 0, 1>>}, c \in {"bech32", "bech32m"}}

\* ---- colon forms ---------------------------------------------------------------------------
HexDigit(k) == IF k < 10 THEN 48 + k ELSE 87 + k
HexAscii(b) == [i \in 1..(2 * Len(b)) |-> HexDigit(IF i % 2 = 1 THEN b[(i + 1) \div 2] \div 16 ELSE b[i \div 2] % 16)]
\* (d2 is always the UTF-8 of the rest: for a hex rest, the ASCII of its lower-case digits)
ColonHex(tag, bytes, on) == [TX("colon") EXCEPT !.a = tag, !.w = "hex", !.d = bytes, !.w2 = "utf8", !.d2 = HexAscii(bytes), !.on = on]
ColonText(tag, utf8) == [TX("colon") EXCEPT !.a = tag, !.w = "nothex", !.d2 = utf8, !.w2 = "utf8"]
ColonBad(tag) == [TX("colon") EXCEPT !.a = tag, !.w = "nothex", !.w2 = "noutf8"]
Zz == <<122, 122>>       \* "zz": not hex
\* rests that contain the separator themselves (the tag ends at the FIRST ':'): any text is a pass phrase - the key of the
\* WHOLE rest, with the ':' leading, trailing, alone, repeated, between hex digits -, while hex followed / preceded by ':'
\* is no hex: the hex forms refuse it whatever stands before the second ':' (a seed, an electrum seed / private / public key)
Cl == <<58>>
Ab == <<97, 98>>
ColonInRest ==
  { ColonText(TagP, <<97>> \o Cl \o <<98>>), ColonText(TagP, Cl), ColonText(TagP, Ab \o Cl), ColonText(TagP, Cl \o Ab),
    ColonText(TagP, <<97>> \o Cl \o <<98>> \o Cl \o <<99>>), ColonText(TagP, HexAscii(H(4)) \o Cl \o HexAscii(H(4))),
    ColonText(TagH, HexAscii(H(16)) \o Cl \o HexAscii(<<0>>)), ColonText(TagH, HexAscii(H(16)) \o Cl), ColonText(TagH, Cl \o HexAscii(H(16))),
    ColonText(TagE, HexAscii(H(16)) \o Cl \o Zz), ColonText(TagE, HexAscii(H(16)) \o Cl \o HexAscii(H(16))),
    ColonText(TagE, HexAscii(One32) \o Cl \o <<49>>), ColonText(TagE, HexAscii(Gx \o Gy) \o Cl),
    ColonText(<<88>>, <<97>> \o Cl \o <<98>>) }
IsHexAscii(s) == Len(s) % 2 = 0 /\ \A i \in DOMAIN s : s[i] \in (48..57) \cup (97..102)
ColonGrid ==
  { ColonHex(TagH, H(16), FALSE), ColonHex(TagH, <<>>, FALSE), ColonText(TagH, Zz), ColonBad(TagH),
    ColonText(TagP, <<97, 98, 99>>), ColonHex(TagP, H(4), FALSE), ColonHex(TagP, <<>>, FALSE), ColonBad(TagP),
    ColonHex(TagE, H(16), FALSE), ColonHex(TagE, H(15), FALSE), ColonText(TagE, Zz), ColonBad(TagE),
    ColonHex(TagE, One32, FALSE), ColonHex(TagE, Zero32, FALSE), ColonHex(TagE, OrderN, FALSE), ColonHex(TagE, NM1, FALSE),
    ColonHex(TagE, Gx \o Gy, TRUE), ColonHex(TagE, Gx \o GyBad, FALSE), ColonHex(TagE, PPlus1 \o Gy, FALSE),
    ColonHex(<<88>>, H(16), FALSE), ColonText(<<88>>, Zz),
    ColonText(<<>>, <<97, 98, 99>>), ColonHex(<<72, 80>>, H(16), FALSE) }
  \cup ColonInRest

\* ---- numerals --------------------------------------------------------------------------------
RECURSIVE DecDigits(_)
DecDigits(k) == IF k < 10 THEN <<k>> ELSE Append(DecDigits(k \div 10), k % 10)
DigitsAsHexBytes(ds) == IF Len(ds) % 2 = 1 THEN <<>> ELSE [i \in 1..(Len(ds) \div 2) |-> ds[2 * i - 1] * 16 + ds[2 * i]]
DecNum(k) == [TX("num") EXCEPT !.w = "dec", !.v = Len(DecDigits(k)), !.d = IF k = 0 THEN <<>> ELSE IF k < 256 THEN <<k>> ELSE <<k \div 256, k % 256>>,
                               !.d2 = DigitsAsHexBytes(DecDigits(k)), !.on = FALSE]
HasLetter(b) == \E i \in DOMAIN b : b[i] \div 16 >= 10 \/ b[i] % 16 >= 10
HexNum(b) == [TX("num") EXCEPT !.w = "hex", !.v = 2 * Len(b), !.d = Strip0(b), !.d2 = b, !.on = SecOn(b)]
HexNums == {NM1, OrderN, <<255>>, <<2>> \o Gx, <<3>> \o G2x, <<2>> \o Xoff, <<2>> \o PPlus1, <<4>> \o Gx \o Gy, <<4>> \o Gx \o GyBad,
            <<5>> \o Gx, Rep(255, 33), <<0>> \o One32 \o <<171>>}
NumGrid == {DecNum(k) : k \in {0, 1, 5, 11, 255, 1234}} \cup {HexNum(b) : b \in HexNums}

\* ---- pairs -------------------------------------------------------------------------------------
PairT(sep, x, mode, y, on) == [TX("pair") EXCEPT !.w = sep, !.d = Strip0(x), !.w2 = mode, !.d2 = Strip0(y), !.on = on]
PairGrid == {PairT(sep, x, m, <<>>, OnX(x)) : sep \in {"/", ","}, x \in {Gx, G2x, Xoff, PPlus1, Zero32, X1}, m \in {"even", "odd"}}
            \cup {PairT(sep, e.x, "num", e.y, e.on) : sep \in {"/", ","}, e \in KnownXY}

\* ---- SEC with a textual prefix ---------------------------------------------------------------------
OtherSec == <<90, 90, 90, 83, 69, 67, 58>>      \* "ZZZSEC:"
SecBodies == {<<2>> \o Gx, <<3>> \o G2x, <<4>> \o Gx \o Gy, <<2>> \o Xoff, <<4>> \o Gx \o GyBad, <<2>> \o PPlus1, <<5>> \o Gx, H(20)}
HexSecGrid(N) == {[TX("hexsec") EXCEPT !.a = pf, !.w = "hex", !.d = b, !.on = SecOn(b)] : pf \in {N.sec, OtherSec}, b \in SecBodies}
                 \cup {[TX("hexsec") EXCEPT !.a = N.sec, !.w = "nothex"]}

\* ---- scripts, junk ----------------------------------------------------------------------------------
ScriptGrid == {[TX("script") EXCEPT !.toks = s] :
                 s \in { Build("p2pkh", [h |-> Data(20, 3)]), Build("p2sh", [h |-> Data(20, 2)]), Build("p2wsh", [h |-> Data(32, 2)]),
                         Build("multisig", [m |-> 1, keys |-> <<Data(33, 2), Data(65, 3)>>]),
                         Build("nulldata", [rest |-> <<Push(20, "min", 2)>>]), <<SmallInt(1)>>, <<Op("DUP"), Push(19, "min", 2)>> }}
JunkGrid == {[TX("junk") EXCEPT !.v = i] : i \in 1..24}        \* the harness owns the list of junk texts (totality only)

Grid(N) == B58Grid(N) \cup SegGrid(N) \cup BechGrid(N) \cup HexSecGrid(N)
           \cup (IF "*" \in Generic \/ N.sym \in Generic THEN ColonGrid \cup NumGrid \cup PairGrid \cup ScriptGrid \cup JunkGrid ELSE {})

\* ---- export ---------------------------------------------------------------------------------------------
Tok(x) == IF IsPush(x) THEN <<"push", x.len, x.enc, x.id>> ELSE <<"op", x.n>>
Toks(s) == [i \in DOMAIN s |-> Tok(s[i])]
\* an outcome, with the token script a contract stands for (data id 1 = the hash o.d)
XO(o) == [o EXCEPT !.toks = IF o.k = "contract" THEN Toks(Build(o.s, [h |-> Data(HashLen(o.s), 1)])) ELSE Toks(o.toks)]
XT(T) == [T EXCEPT !.toks = Toks(T.toks)]
NotNone(N, T, i) == {o \in Out(N, Entries[i], T) : o # ONone}
Answers(N, T) == UNION {{<<Entries[i], XO(o)>> : o \in NotNone(N, T, i)} : i \in DOMAIN Entries}
\* entries that must answer none are all the others; entries that MAY answer none besides an object:
MayNone(N, T) == {Entries[i] : i \in {j \in DOMAIN Entries : ONone \in Out(N, Entries[j], T) /\ Out(N, Entries[j], T) # {ONone}}}
Objects(N, T) == UNION {{o \in Out(N, Entries[i], T) : o.r = "obj"} : i \in DOMAIN Entries}
\* objects without a Reser here (seeds, electrum): who must give them back from the text of their own API
ReparseOf(N, T) == {[o |-> XO(o), by |-> ReparseBy(o)] : o \in {x \in Objects(N, T) : ~HasReser(N, x) /\ ~N.stub /\ x.k \in {"seed32", "electrum"}}}
ReserOf(N, T) == {[o |-> XO(o), t |-> XT(Reser(N, o)), by |-> ReparseBy(o), via |-> Via(o), printers |-> Printers, half |-> PublicHalf(N, o)] :
                    o \in {x \in Objects(N, T) : HasReser(N, x)}}

\* ---- a class label for a text on a network (the signature findings are keyed by) -------------------------
Starts(N, T) == {k.name : k \in {x \in CKinds(N) : StartsWith(T.d, x.pfx)}}
Fits(N, T) == {k.name : k \in {x \in CKinds(N) : StartsWith(T.d, x.pfx) /\ Len(T.d) \in x.lens}}
LenClass(n) == IF n \in {0, 16, 20, 32, 33, 64, 65} THEN ToString(n) ELSE "other"
ClassOf(N, T) ==
  CASE T.f = "b58c" -> [f |-> T.f, starts |-> Starts(N, T), fits |-> Fits(N, T)]
    [] T.f = "seg" -> [f |-> T.f, own |-> T.a = N.hrp, ver |-> T.v, len |-> Len(T.d), var |-> T.w]
    [] T.f = "bech" -> [f |-> T.f, own |-> T.a = N.hrp, n |-> Len(T.d), var |-> T.w]
    [] T.f = "colon" -> [f |-> T.f, tag |-> T.a, w |-> T.w, w2 |-> T.w2, len |-> LenClass(Len(T.d)), on |-> T.on,
                         se |-> Len(T.d) = 32 /\ ValidSecret(T.d)]
    [] T.f = "num" -> [f |-> T.f, w |-> T.w, even |-> T.v % 2 = 0, len |-> LenClass(Len(T.d2)), b0 |-> IF T.d2 = <<>> THEN 0 ELSE T.d2[1],
                       on |-> T.on, se |-> Len(T.d) <= 32 /\ ValidSecret(Pad32(T.d))]
    [] T.f = "pair" -> [f |-> T.f, y |-> IF T.w2 = "num" THEN "num" ELSE "parity", on |-> T.on, inrange |-> Len(T.d) <= 32 /\ ValidCoord(Pad32(T.d))]
    [] T.f = "hexsec" -> [f |-> T.f, own |-> T.a = N.sec, w |-> T.w, len |-> LenClass(Len(T.d)), b0 |-> IF T.d = <<>> THEN 0 ELSE T.d[1], on |-> T.on]
    [] OTHER -> [f |-> T.f]

\* three phases so that the work is spread over the workers: one initial state per network ("net"), a step
\* that picks a text of the network's grid ("case"), a step that exports it ("done")
NoT == TX("none")
Init == done = "net" /\ cur \in {[n |-> n, t |-> NoT] : n \in NetIds}
Pick == /\ done = "net" /\ Mode = "cases" /\ done' = "case"
        /\ \E T \in Grid(Nets[cur.n]) : cur' = [cur EXCEPT !.t = T]
EmitCase == LET N == Nets[cur.n] T == cur.t IN
  PrintT(ToJson([k |-> "t", n |-> N.sym, t |-> XT(T), cls |-> ClassOf(N, T), ans |-> Answers(N, T), maynone |-> MayNone(N, T),
                 apart |-> KindsApartOn(N, T), answering |-> Answering(N, T),
                 faithful |-> \A o \in Objects(N, T) : Faithful(N, o), reser |-> ReserOf(N, T), reparse |-> ReparseOf(N, T)]))
EmitClash == LET N == Nets[cur.n] IN
  PrintT(ToJson([k |-> "clash", n |-> N.sym, strict |-> Clashes(N), loose |-> ClashesLoose(N) \ Clashes(N)]))
ExportCase == done = "case" /\ done' = "done" /\ UNCHANGED cur /\ EmitCase
ExportClash == done = "net" /\ Mode = "clash" /\ done' = "done" /\ UNCHANGED cur /\ EmitClash
Next == Pick \/ ExportCase \/ ExportClash
Spec == Init /\ [][Next]_vars

\* once per run: the constants the harness must agree with (R2), and the dispatch tables
ASSUME PrintT(ToJson([k |-> "consts", n |-> OrderN, p |-> FieldP,
                      knownx |-> KnownX, knownxy |-> KnownXY,
                      entries |-> Entries, composite |-> [i \in DOMAIN CompositeEntries |-> <<CompositeEntries[i], Dispatch(CompositeEntries[i])>>]]))

\* ---- invariants ---------------------------------------------------------------------------------------------
\* the grid only names points the oracle table knows, hex numerals are not decimal numerals
GridOk == done = "case" =>
   LET T == cur.t IN
   /\ (T.f = "b58c" => PayKnown(T.d))
   /\ (T.f = "num" /\ T.w = "hex" => HasLetter(T.d2) /\ (NeedsOracle(T.d2) => SecKnown(T.d2)))
   /\ (T.f = "hexsec" /\ T.w = "hex" /\ NeedsOracle(T.d) => SecKnown(T.d))
   /\ (T.f = "colon" /\ T.w = "nothex" /\ T.w2 = "utf8" => ~IsHexAscii(T.d2))
\* every object the rules return re-serialises to a text that the rules parse back to it
FaithfulOk == done = "case" => \A o \in Objects(Nets[cur.n], cur.t) : Faithful(Nets[cur.n], o)
\* on a table whose kinds are apart, no text is answered by two checksummed kinds
ApartOk == done = "case" => (Clashes(Nets[cur.n]) = {} => KindsApartOn(Nets[cur.n], cur.t))
TableApart == Mode = "clash" => Clashes(Nets[cur.n]) = {}
TableApartLoose == Mode = "clash" => ClashesLoose(Nets[cur.n]) = {}
=============================================================================
