CONSTANTS Fam = "bits"  MaxProg = 42  NPat = 4  NStr = 4  MaxBits = 5
SPECIFICATION Spec
INVARIANT Lemma
CHECK_DEADLOCK FALSE
