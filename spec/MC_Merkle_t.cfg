CONSTANTS N = 130  EMIT = TRUE
SPECIFICATION Spec
INVARIANTS TwoDefs Shape Small Sensitive DupQuirk DupOnlyThen AnyHash
CHECK_DEADLOCK FALSE
