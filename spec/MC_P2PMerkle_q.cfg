CONSTANTS N = 9
SPECIFICATION Spec
INVARIANT Accepted
CHECK_DEADLOCK FALSE
