CONSTANTS CacheMode = "set_only"  MaxOuts = 4
SPECIFICATION SSpec
INVARIANTS HistoryIndependent
CHECK_DEADLOCK FALSE
