CONSTANTS Tier = "q"  Emit = TRUE
SPECIFICATION Spec
INVARIANT RoundTrip Widths Typed Truncated ByteOrder
CHECK_DEADLOCK FALSE
