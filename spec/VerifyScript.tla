---------------------------- MODULE VerifyScript ----------------------------
(* C03 - Bitcoin Core's VerifyScript / VerifyWitnessProgram (segwit era,      *)
(* pre-taproot) as a state machine around ScriptVM: scriptSig -> scriptPubKey *)
(* -> P2SH redeem script -> witness program, CLEANSTACK, WITNESS_UNEXPECTED.  *)
(* One Advance = one interpreter instruction or one pipeline decision.        *)
(*                                                                            *)
(*   sp = [kind, sig, pk, wit, stack, sv, flags, ctx, hashes, sigs, sigmode]  *)
(*        kind "spend": check scriptSig/witness against scriptPubKey;         *)
(*        kind "eval" : evaluate the single script `pk` on `stack` under `sv` *)
(*   st = [phase, vm, script, sv, copy, hadwit, inner, status, err, need, stack] *)
EXTENDS ScriptVM

EnvOf(st, sp) == [script |-> st.script, flags |-> sp.flags, sv |-> st.sv, ctx |-> sp.ctx,
                  hashes |-> sp.hashes, sigs |-> sp.sigs, sigmode |-> sp.sigmode]

IsP2SH(s) == Len(s) = 23 /\ s[1] = OP_HASH160 /\ s[2] = 20 /\ s[23] = OP_EQUAL
IsWitnessProgram(s) == /\ Len(s) >= 4 /\ Len(s) <= 42
                       /\ (s[1] = 0 \/ (s[1] >= OP_1 /\ s[1] <= OP_16))
                       /\ s[2] + 2 = Len(s)
WitVersion(s) == IF s[1] = 0 THEN 0 ELSE s[1] - 80
WitProgram(s) == SubSeq(s, 3, Len(s))

SFail(st, e) == [st EXCEPT !.status = "fail", !.err = e]
SNeed(st, n) == [st EXCEPT !.status = "need", !.need = n]
Begin(st, phase, script, stack, sv) ==
  LET env0 == [script |-> script] IN
  [st EXCEPT !.phase = phase, !.script = script, !.sv = sv,
             !.vm = Prelude(InitVM(stack), env0)]

Start(sp) ==
  LET st0 == [phase |-> "init", vm |-> InitVM(<<>>), script |-> <<>>, sv |-> "base", copy |-> <<>>,
              hadwit |-> FALSE, inner |-> <<>>, status |-> "run", err |-> "", need |-> <<>>, stack |-> <<>>]
  IN IF sp.kind = "eval" THEN Begin(st0, "eval", sp.pk, sp.stack, sp.sv)
     ELSE IF "SIGPUSHONLY" \in sp.flags /\ ~IsPushOnly(sp.sig) THEN SFail(st0, "SIG_PUSHONLY")
     ELSE Begin(st0, "sig", sp.sig, <<>>, "base")

Final(st, sp, stack) ==
  IF "CLEANSTACK" \in sp.flags /\ Len(stack) # 1 THEN SFail(st, "CLEANSTACK")
  ELSE IF "WITNESS" \in sp.flags /\ ~st.hadwit /\ sp.wit # <<>> THEN SFail(st, "WITNESS_UNEXPECTED")
  ELSE [st EXCEPT !.status = "ok", !.stack = stack]

P2WPKHScript(program) == <<OP_DUP, OP_HASH160, 20>> \o program \o <<OP_EQUALVERIFY, OP_CHECKSIG>>

\* VerifyWitnessProgram; `next` is the phase that evaluates the witness script
Witness(st, sp, prog, next) ==
  LET ver == WitVersion(prog)  program == WitProgram(prog)  w == sp.wit
      st1 == [st EXCEPT !.hadwit = TRUE]
      TooBig(items) == \E i \in 1..Len(items) : Len(items[i]) > MAX_ELEMENT_SIZE
  IN IF ver = 0 /\ Len(program) = 32
     THEN IF w = <<>> THEN SFail(st1, "WITNESS_PROGRAM_WITNESS_EMPTY")
          ELSE LET script == w[Len(w)]  items == SubSeq(w, 1, Len(w) - 1) IN
               IF ~HashHas(EnvOf(st, sp), OP_SHA256, script) THEN SNeed(st, <<"hash", OP_SHA256, script>>)
               ELSE IF HashGet(EnvOf(st, sp), OP_SHA256, script) # program THEN SFail(st1, "WITNESS_PROGRAM_MISMATCH")
               ELSE IF TooBig(items) THEN SFail(st1, "PUSH_SIZE")
               ELSE Begin(st1, next, script, items, "wit")
     ELSE IF ver = 0 /\ Len(program) = 20
     THEN IF Len(w) # 2 THEN SFail(st1, "WITNESS_PROGRAM_MISMATCH")
          ELSE IF TooBig(w) THEN SFail(st1, "PUSH_SIZE")
          ELSE Begin(st1, next, P2WPKHScript(program), w, "wit")
     ELSE IF ver = 0 THEN SFail(st1, "WITNESS_PROGRAM_WRONG_LENGTH")
     ELSE IF "DISCOURAGE_UPGRADABLE_WITNESS_PROGRAM" \in sp.flags THEN SFail(st1, "DISCOURAGE_UPGRADABLE_WITNESS_PROGRAM")
     ELSE Final(st1, sp, <<<<1>>>>)      \* future versions succeed unevaluated; stack.resize(1)

\* a phase's script finished without error: decide what comes next
After(st, sp) ==
  LET stack == st.vm.stack
      Falsy == stack = <<>> \/ ~CastToBool(stack[Len(stack)])
  IN CASE st.phase = "eval" -> [st EXCEPT !.status = "ok", !.stack = stack]
       [] st.phase = "sig" -> Begin([st EXCEPT !.copy = stack], "pk", sp.pk, stack, "base")
       [] st.phase = "pk" ->
            IF Falsy THEN SFail(st, "EVAL_FALSE")
            ELSE IF "WITNESS" \in sp.flags /\ IsWitnessProgram(sp.pk)
            THEN IF sp.sig # <<>> THEN SFail(st, "WITNESS_MALLEATED")
                 ELSE Witness(st, sp, sp.pk, "wit")
            ELSE IF "P2SH" \in sp.flags /\ IsP2SH(sp.pk)
            THEN IF ~IsPushOnly(sp.sig) THEN SFail(st, "SIG_PUSHONLY")
                 ELSE LET c == st.copy IN
                      Begin([st EXCEPT !.inner = c[Len(c)]], "p2sh", c[Len(c)], SubSeq(c, 1, Len(c) - 1), "base")
            ELSE Final(st, sp, stack)
       [] st.phase = "p2sh" ->
            IF Falsy THEN SFail(st, "EVAL_FALSE")
            ELSE IF "WITNESS" \in sp.flags /\ IsWitnessProgram(st.inner)
            THEN IF sp.sig # PushEnc(st.inner) THEN SFail(st, "WITNESS_MALLEATED_P2SH")
                 ELSE Witness(st, sp, st.inner, "p2shwit")
            ELSE Final(st, sp, stack)
       [] st.phase \in {"wit", "p2shwit"} ->
            IF Len(stack) # 1 THEN SFail(st, "CLEANSTACK_WITNESS")
            ELSE IF Falsy THEN SFail(st, "EVAL_FALSE")
            ELSE Final(st, sp, stack)

Advance(st, sp) ==
  LET vm == st.vm  env == EnvOf(st, sp) IN
  IF vm.status = "fail" THEN SFail(st, vm.err)
  ELSE IF vm.status = "need" THEN SNeed(st, vm.need)
  ELSE IF vm.status = "done" THEN After(st, sp)
  ELSE IF AtEnd(vm, env) THEN [st EXCEPT !.vm = Finish(vm)]
  ELSE [st EXCEPT !.vm = Step(vm, env)]
=============================================================================
