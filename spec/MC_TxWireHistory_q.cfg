CONSTANTS Tier = "q"  Depth = 3
SPECIFICATION Spec
INVARIANT AnswersOfCurrentFields CallsChangeNothing ObjWellFormed EditsMatter
CHECK_DEADLOCK FALSE
