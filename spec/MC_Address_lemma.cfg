CONSTANTS Table = {"sane", "hrp", "multi", "chk"}  Mode = "lemma"  Fill = 17
SPECIFICATION Spec
INVARIANTS LemmaRoundTrip LemmaKindsApart LemmaCross LemmaEquiv
CHECK_DEADLOCK FALSE
