CONSTANTS Tier = "q"  Emit = TRUE
SPECIFICATION Spec
INVARIANT TypeOK TextRoundTrip CharsRoundTrip DictRoundTrip BinRoundTrip BinPrefix
CHECK_DEADLOCK FALSE
