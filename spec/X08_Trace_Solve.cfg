SPECIFICATION TSpec
CONSTANTS
  HashHas <- ToyHashHas
  HashGet <- ToyHashGet
  SigHas <- ToySigHas
  SigGet <- ToySigGet
CHECK_DEADLOCK FALSE
