--------------------------- MODULE MC_SpendShapes ---------------------------
(* Spec -> code binding for the VerifyScript pipeline: TLC enumerates the     *)
(* SHAPES of spends - how the output is locked (bare, P2SH, native and        *)
(* P2SH-wrapped witness v0, future witness version, malformed program, the    *)
(* 23-byte P2SH look-alike), which leaf script sits inside, how the unlocking *)
(* data deviates from the canonical solution, and the flag set (only          *)
(* combinations Core permits).  The harness concretises each shape into real  *)
(* scripts, keys and signatures; MC_ScriptRun then computes the consensus     *)
(* verdict on the concrete bytes and pycoin's check_solution must agree.      *)
EXTENDS Integers, Sequences, FiniteSets, TLC, Json

CONSTANT Tier   \* "quick" | "thorough"

Wrapped == {"bare", "p2sh", "p2wsh", "p2sh-p2wsh"}
\* witv1-40 / witv0-40: 40-byte program (script of exactly 42 bytes, the upper bound of a witness program);
\* witv1-2: 2-byte program (4 bytes, the lower bound); wit41: OP_1 <41 bytes> (43 bytes: NOT a witness program);
\* witv16: version 16
Plain == {"p2wpkh", "p2sh-p2wpkh", "witv1", "witv0bad", "p2sh19", "p2sh-witv1",
          "witv1-40", "witv0-40", "witv1-2", "wit41", "witv16", "wit1"}
\* fad2 / fad2r: <sigA> DROP K CHECKSIGVERIFY K CHECKSIG solved by (sigB, sigA) / (sigA, sigB): two checks in one
\* script whose script codes differ because FindAndDelete removes the embedded signature only when IT is checked;
\* codesep2: K CHECKSIGVERIFY CODESEPARATOR K CHECKSIG (script codes differ by the separator position)
\* fad2p75 / fad2p76: fad2 with the embedded signature padded (lax DER) to exactly 75 / 76 bytes: the push-size boundary
\* of the pattern FindAndDelete looks for (largest direct push / smallest OP_PUSHDATA1 push)
TwoCheck == {"fad2", "fad2r", "codesep2", "fad2p75", "fad2p76"}
\* (p2pku: an uncompressed key - WITNESS_PUBKEYTYPE binds it inside witness programs only)
Leaves == IF Tier = "quick" THEN {"true", "p2pk", "p2pku", "p2pkh", "multisig", "big", "ifnm"} \cup TwoCheck
          ELSE {"true", "false", "p2pk", "p2pku", "p2pkh", "multisig", "multisig2of3", "big", "big10001", "ifnm", "cltv"} \cup TwoCheck
SigKinds == {"canon", "nop", "extra", "pd1", "badsig"}
WitKinds == {"canon", "empty", "extra", "big", "wrongscript", "unexpected"}

Base == {"P2SH"}
FlagSets == IF Tier = "quick"
  THEN { {}, {"P2SH"}, {"P2SH", "WITNESS"}, {"P2SH", "WITNESS", "CLEANSTACK"},
         {"P2SH", "WITNESS", "DISCOURAGE_UPGRADABLE_WITNESS_PROGRAM", "SIGPUSHONLY"},
         {"P2SH", "WITNESS", "CLEANSTACK", "MINIMALIF", "WITNESS_PUBKEYTYPE", "NULLFAIL", "MINIMALDATA", "NULLDUMMY",
          "DERSIG", "LOW_S", "STRICTENC"} }
  ELSE { f \in SUBSET {"P2SH", "WITNESS", "CLEANSTACK", "SIGPUSHONLY", "DISCOURAGE_UPGRADABLE_WITNESS_PROGRAM",
                       "MINIMALIF", "WITNESS_PUBKEYTYPE", "NULLFAIL", "MINIMALDATA"} :
           /\ ("WITNESS" \in f => "P2SH" \in f)
           /\ ("CLEANSTACK" \in f => {"P2SH", "WITNESS"} \subseteq f)
           /\ ("MINIMALIF" \in f <=> "WITNESS_PUBKEYTYPE" \in f)     \* keep the product manageable
           /\ ("NULLFAIL" \in f <=> "MINIMALDATA" \in f)
           /\ ("SIGPUSHONLY" \in f <=> "DISCOURAGE_UPGRADABLE_WITNESS_PROGRAM" \in f) }

IsWitnessKind(pk) == pk \in {"p2wsh", "p2sh-p2wsh", "p2wpkh", "p2sh-p2wpkh", "witv1", "witv0bad", "p2sh-witv1",
                             "witv1-40", "witv0-40", "witv1-2", "witv16"}
HasRedeemPush(pk) == pk \in {"p2sh", "p2sh-p2wsh", "p2sh-p2wpkh", "p2sh-witv1"}

Valid(s) ==
  /\ (s.pk \in Wrapped <=> s.leaf # "none")
  /\ (s.sigk = "pd1" => HasRedeemPush(s.pk))
  /\ (s.sigk = "badsig" => (s.leaf \in {"p2pk", "p2pku", "p2pkh", "multisig", "multisig2of3"} \cup TwoCheck \/ s.pk \in {"p2wpkh", "p2sh-p2wpkh"}))
  /\ (s.witk = "unexpected" <=> (~IsWitnessKind(s.pk) /\ s.witk # "canon"))
  /\ (s.witk \in {"empty", "extra", "big", "wrongscript"} => IsWitnessKind(s.pk))
  /\ (s.witk = "wrongscript" => s.pk \in {"p2wsh", "p2sh-p2wsh"})
  /\ (s.leaf = "big10001" => s.pk \in {"p2wsh", "p2sh-p2wsh"})

Shapes == {s \in [pk : Wrapped \cup Plain, leaf : Leaves \cup {"none"}, sigk : SigKinds, witk : WitKinds, flags : FlagSets] : Valid(s)}

VARIABLE done
SInit == done = FALSE
SNext == /\ ~done /\ done' = TRUE
         /\ \A s \in Shapes : PrintT(ToJson([k |-> "shape", pk |-> s.pk, leaf |-> s.leaf, sigk |-> s.sigk,
                                              witk |-> s.witk, flags |-> s.flags]))
SSpec == SInit /\ [][SNext]_done
\* Core only permits these flag combinations (asserted in VerifyScript)
FlagsPermitted == \A f \in FlagSets : ("WITNESS" \in f => "P2SH" \in f) /\ ("CLEANSTACK" \in f => {"P2SH", "WITNESS"} \subseteq f)
ASSUME FlagsPermitted
=============================================================================
