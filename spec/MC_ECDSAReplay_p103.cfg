CONSTANTS P = 103  A = 0  B = 5  Gx = 2  Gy = 42  N = 97
          SignZ = {1, 2, 96, 97, 98}  VerZ = {1, 97, 98}  VerQ = {2, 50, 96, 97}  RecZ = {1, 97}
SPECIFICATION Spec
INVARIANT ReturnedVerifies
CHECK_DEADLOCK FALSE
