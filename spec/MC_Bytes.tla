------------------------------ MODULE MC_Bytes ------------------------------
(* Lemmas about Bytes.tla checked by TLC.                                    *)
(*  (1) the compact-size parser, run as a state machine one byte per step    *)
(*      over CompactSizeNum(x) for x on every width boundary, finishes       *)
(*      exactly at the last byte with the value x, the expected width and    *)
(*      the canonical flag set; over-long encodings are flagged;             *)
(*  (2) the run-length byte strings behave like flat sequences (Expand is    *)
(*      the reference semantics) - ASSUMEs over all strings on {0,1,253} of  *)
(*      length <= 4;                                                         *)
(*  (3) limb arithmetic and decimal conversion agree with TLC's integers     *)
(*      where those exist.                                                   *)
EXTENDS Bytes

Two16 == 65536
Nums == { <<0>>, <<1>>, <<252>>, <<253>>, <<254>>, <<255>>, <<256>>, <<65535>>,
          <<0, 1>>, <<1, 1>>, <<65535, 32767>>, <<0, 32768>>, <<65535, 65535>>,
          <<0, 0, 1>>, <<1, 0, 1>>, <<65535, 65535, 65535, 32767>>, <<0, 0, 0, 32768>>,
          <<65535, 65535, 65535, 65535>> }
WidthOf(x) == LET t == Trim(x) IN
              IF Len(t) <= 1 /\ NatOf(t) < 253 THEN 1 ELSE IF Len(t) <= 1 THEN 3 ELSE IF Len(t) = 2 THEN 5 ELSE 9

\* over-long (non-canonical) encodings: flat bytes
Overlong == { <<253, 0, 0>>, <<253, 252, 0>>, <<254, 255, 255, 0, 0>>, <<254, 0, 0, 0, 0>>,
              <<255, 255, 255, 255, 255, 0, 0, 0, 0>>, <<255, 1, 0, 0, 0, 0, 0, 0, 0>> }

VARIABLES kind, num, enc, m, fed
vars == <<kind, num, enc, m, fed>>

Init == /\ m = CSStart /\ fed = 0
        /\ \/ kind = "canon" /\ num \in Nums /\ enc = Expand(CompactSizeNum(num))
           \/ kind = "overlong" /\ enc \in Overlong /\ num = <<>>
Next == /\ enc # <<>>
        /\ m' = CSFeed(m, Head(enc)) /\ enc' = Tail(enc) /\ fed' = fed + 1
        /\ UNCHANGED <<kind, num>>
Spec == Init /\ [][Next]_vars

FinishesAtEnd == (m.st = "done") <=> (enc = <<>>)
ValueRight == (m.st = "done" /\ kind = "canon") =>
                 /\ NumEq(CSValue(m), num)
                 /\ m.width = fed /\ m.width = WidthOf(num)
                 /\ CSCanonical(m)
OverlongFlagged == (m.st = "done" /\ kind = "overlong") => (~CSCanonical(m) /\ m.width = fed)

\* ---------------------------------------------------------------- (2) byte strings
Alpha == {0, 1, 253}
RECURSIVE SeqsUpTo(_)
SeqsUpTo(n) == IF n = 0 THEN {<<>>} ELSE LET P == SeqsUpTo(n - 1) IN P \cup {Append(s, a) : s \in {p \in P : Len(p) = n - 1}, a \in Alpha}
Flat == SeqsUpTo(4)
Prefix(f, n) == SubSeq(f, 1, IF n > Len(f) THEN Len(f) ELSE n)
Suffix(f, n) == SubSeq(f, (IF n > Len(f) THEN Len(f) ELSE n) + 1, Len(f))

ASSUME LitLaw == \A f \in Flat : WellFormed(Lit(f)) /\ Expand(Lit(f)) = f /\ Size(Lit(f)) = Len(f)
ASSUME CatLaw == \A f \in Flat, g \in Flat :
                    /\ WellFormed(Cat(Lit(f), Lit(g)))
                    /\ Cat(Lit(f), Lit(g)) = Lit(f \o g)
ASSUME TakeDropLaw == \A f \in Flat : \A n \in 0..5 :
                    /\ Take(Lit(f), n) = Lit(Prefix(f, n))
                    /\ Drop(Lit(f), n) = Lit(Suffix(f, n))
                    /\ Cat(Take(Lit(f), n), Drop(Lit(f), n)) = Lit(f)
ASSUME RunLaw == /\ Run(7, 0) = <<>>
                 /\ Cat(Run(7, 65536), Run(7, 3)) = Run(7, 65539)
                 /\ Size(Cat(Run(7, 65536), Run(8, 1000000))) = 1065536
                 /\ Take(Run(7, 65536), 65535) = Run(7, 65535)
                 /\ Drop(Cat(Run(7, 65536), Run(8, 2)), 65535) = Cat(Run(7, 1), Run(8, 2))
                 /\ Reverse8(Lit(<<1, 2, 2, 3>>)) = Lit(<<3, 2, 2, 1>>)
ASSUME ShowLaw == /\ Show(Lit(<<1, 0, 0, 171>>)) = <<"010000ab">>
                  /\ Show(Cat(Lit(<<1>>), Cat(Run(171, 65536), Lit(<<2, 2>>)))) = <<"01", "*abx65536", "0202">>
                  /\ Show(<<>>) = <<>>

\* ---------------------------------------------------------------- (3) numbers
SmallNats == {0, 1, 9, 10, 255, 256, 65535, 65536, 65537, 99999, 100000, 16777216, 2147483647}
ASSUME LimbLaw == \A n \in SmallNats : Small(Limbs(n, 4)) /\ NatOf(Limbs(n, 4)) = n /\ NatOf(Trim(Limbs(n, 4))) = n
ASSUME LELaw == /\ LE(1, 4) = Lit(<<1, 0, 0, 0>>)
                /\ LE(258, 2) = Lit(<<2, 1>>)
                /\ LE(16909060, 4) = Lit(<<4, 3, 2, 1>>)
                /\ LE(5, 1) = Lit(<<5>>)
                /\ LE16(<<65535, 65535, 65535, 32767>>) = Lit(<<255, 255, 255, 255, 255, 255, 255, 127>>)
                /\ \A n \in SmallNats : NatOf(FromLE(LE(n, 4))) = n
ASSUME OrderLaw == \A a \in SmallNats, b \in SmallNats :
                      /\ Less(Limbs(a, 3), Limbs(b, 2)) <=> a < b
                      /\ Leq(Limbs(a, 2), Limbs(b, 4)) <=> a <= b
ASSUME AddLaw == /\ \A a \in SmallNats, b \in SmallNats :
                      (a < 1000000000 /\ b < 1000000000) => NatOf(Trim(AddN(Limbs(a, 2), Limbs(b, 2)))) = a + b
                 /\ AddN(<<65535, 65535, 65535, 65535>>, <<1>>) = <<0, 0, 0, 0, 1>>
                 /\ Pred(<<0, 0, 1>>) = <<65535, 65535, 0>>
                 /\ Succ(<<65535, 65535>>) = <<0, 0, 1>>
ASSUME MulLaw == /\ \A a \in SmallNats : a < 100000 => NatOf(Trim(MulSmall(Limbs(a, 2), 10000))) = a * 10000
                 \* 21,000,000 * 10^8 = 0x000775F05A074000
                 /\ Trim(MulSmall(MulSmall(Limbs(21000000, 2), 10000), 10000)) = <<16384, 23047, 30192, 7>>
ASSUME DecLaw == /\ Dec(<<0, 0>>) = <<0>>
                 /\ Dec(Limbs(1234567890, 2)) = <<1, 2, 3, 4, 5, 6, 7, 8, 9, 0>>
                 /\ Dec(<<65535, 65535, 65535, 65535>>) = <<1,8,4,4,6,7,4,4,0,7,3,7,0,9,5,5,1,6,1,5>>
                 /\ \A x \in Nums : FromDec(Dec(x), 4) = [i \in 1..4 |-> IF i <= Len(x) THEN x[i] ELSE 0]
=============================================================================
