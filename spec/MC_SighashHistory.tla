-------------------------- MODULE MC_SighashHistory --------------------------
(* HISTORY dimension of C04.  One transaction object, one SolutionChecker and  *)
(* one sighash closure per (signature version, input) live through a SEQUENCE  *)
(* of requests - as they do while a script with several signature checks is    *)
(* evaluated (`<sigA> <pubA> CHECKSIGVERIFY <pubB> CHECKSIG`: the first check  *)
(* removes the push of sigA, the second removes sigB, which does not occur) -  *)
(* and, between two requests, through EDITS of the transaction object (a       *)
(* wallet signs, then replaces an output, bumps a sequence number, appends an  *)
(* input, and signs or validates again).  The rule book has no memory: the     *)
(* digest of a request depends on its CURRENT arguments and on the CURRENT     *)
(* fields of the transaction only (HistoryIndependent), just as computing a    *)
(* digest never modifies the transaction.                                      *)
(*                                                                             *)
(* The module is implementation shaped in one respect: Ask answers through a   *)
(* memo keyed by Key(r, t).  With Key = every argument of the request and every *)
(* field of the transaction the memo is invisible and HistoryIndependent holds *)
(* (MC_SighashHistory_*.cfg); with a key that forgets WHICH signature pushes   *)
(* are removed (BadKeyNoSigs), the code-separator offset (BadKeyNoBegin) or    *)
(* the transaction's fields (BadKeyNoTx) TLC finds the history that returns a  *)
(* stale digest (MC_SighashHistory_bad*.cfg, model self-tests).                *)
(* Every history of length MaxLen (with at least MinEdits edits) is printed    *)
(* with the digest demanded at each request and the fields after each edit;    *)
(* props/c04.py runs it on long-lived pycoin objects and each request again on *)
(* fresh objects built from the current fields.                                *)
EXTENDS Sighash, TLC, Json

CONSTANTS MaxLen,       \* length of the histories (requests + edits)
          MinEdits, MaxEdits,   \* how many of the steps are edits of the transaction
          CoinSet, SvSet, IdxSet, ScriptIds, SigSetIds, BeginSet, HtBase

FF4 == Rep(255, 4)
TheTx == Tx(LE32(2),
            << TxIn(Sym(1), LE32(0), <<1, 2>>, FF4), TxIn(Sym(2), LE32(7), <<>>, LE32(5)) >>,
            << TxOut(<<1, 0, 0, 0, 0, 0, 0, 0>>, <<118, 169>>), TxOut(<<0, 0, 0, 0, 1, 0, 0, 0>>, <<>>) >>,
            LE32(17))
Amts == << <<64, 66, 15, 0, 0, 0, 0, 0>>, <<1, 2, 3, 4, 5, 6, 7, 128>> >>     \* coin spent by each input

SigA == <<48, 6, 2, 1, 1, 2, 1, 1, 1>>
SigB == <<48, 69, 2, 33, 0>> \o Rep(171, 32) \o <<2, 32>> \o Rep(7, 32) \o <<129>>
PubA == <<2>> \o Rep(10, 32)
PubB == <<3>> \o Rep(11, 32)
OP_CHECKSIG == 172
OP_CHECKSIGVERIFY == 173
\* script, and the offset just after its OP_CODESEPARATOR
Scripts == <<
    [script |-> PushOf(SigA) \o PushOf(PubA) \o <<OP_CHECKSIGVERIFY, OP_CODESEPARATOR>> \o PushOf(PubB) \o <<OP_CHECKSIG>>,
     sep |-> Len(PushOf(SigA)) + Len(PushOf(PubA)) + 2],
    [script |-> PushOf(SigB) \o PushOf(PubA) \o <<OP_CHECKSIGVERIFY, OP_CODESEPARATOR>> \o PushOf(SigA) \o PushOf(PubB) \o <<OP_CHECKSIG>>,
     sep |-> Len(PushOf(SigB)) + Len(PushOf(PubA)) + 2] >>
SigSets == << <<>>, <<SigA>>, <<SigB>>, <<SigA, SigB>> >>
ASSUME \A k \in 1..Len(Scripts) : WellFormed(Scripts[k].script) /\ Scripts[k].script[Scripts[k].sep] = OP_CODESEPARATOR

\* a request: everything the closure is given, by table index
Req(sv, i, s, b, g, ht) == [sv |-> sv, i |-> i, s |-> s, b |-> b, g |-> g, ht |-> ht]
HtOf(coin) == {h + (IF UsesForkId(coin) THEN 64 ELSE 0) : h \in HtBase}
Pool(coin) == {Req(sv, i, s, b, g, ht) : sv \in SigVersionsOf(coin) \cap SvSet, i \in IdxSet, s \in ScriptIds,
                                         b \in BeginSet, g \in SigSetIds, ht \in HtOf(coin)}
\* the state of the transaction object: its fields and the coins its inputs spend
T0 == [tx |-> TheTx, amts |-> Amts]
\* the digest of a request: a function of the request and the current fields alone
Demanded(coin, t, r) == Digest(coin, r.sv, t.tx, r.i, Scripts[r.s].script, IF r.b = 1 THEN Scripts[r.s].sep ELSE 0,
                               SigSets[r.g], t.amts[r.i], r.ht)

(* edits of the object between two requests: e = [f |-> field, j |-> position (0: none)] *)
Bump(bs) == [bs EXCEPT ![1] = (@ + 1) % 256]
Ed(f, j) == [f |-> f, j |-> j]
NewIn == TxIn(Sym(3), LE32(3), <<>>, LE32(9))
NewAmt == <<9, 9, 0, 0, 0, 0, 0, 0>>
NewOut == TxOut(<<5, 0, 0, 0, 0, 0, 0, 0>>, <<81>>)
EditsOf(t) ==
    {Ed("ver", 0), Ed("lock", 0), Ed("ins.append", 0), Ed("outs.append", 0)}
    \cup {Ed(f, j) : f \in {"in.prev", "in.idx", "in.sigscript", "in.seq", "amount"}, j \in 1..Len(t.tx.ins)}
    \cup {Ed(f, j) : f \in {"out.val", "out.script"}, j \in 1..Len(t.tx.outs)}
    \cup (IF Len(t.tx.outs) > 0 THEN {Ed("outs.droplast", 0)} ELSE {})
    \* (the requests of the pool name inputs 1..Len(TheTx.ins): no input is ever removed)
Apply(t, e) ==
    LET f == e.f
        j == e.j
    IN CASE f = "ver" -> [t EXCEPT !.tx.ver = Bump(@)]
         [] f = "lock" -> [t EXCEPT !.tx.lock = Bump(@)]
         [] f = "amount" -> [t EXCEPT !.amts[j] = Bump(@)]
         [] f = "in.prev" -> [t EXCEPT !.tx.ins[j].prev = Sym(90 + j)]
         [] f = "in.idx" -> [t EXCEPT !.tx.ins[j].idx = Bump(@)]
         [] f = "in.sigscript" -> [t EXCEPT !.tx.ins[j].script = @ \o <<0>>]
         [] f = "in.seq" -> [t EXCEPT !.tx.ins[j].seq = Bump(@)]
         [] f = "out.val" -> [t EXCEPT !.tx.outs[j].val = Bump(@)]
         [] f = "out.script" -> [t EXCEPT !.tx.outs[j].script = @ \o <<172>>]
         [] f = "ins.append" -> [t EXCEPT !.tx.ins = Append(@, NewIn), !.amts = Append(@, NewAmt)]
         [] f = "outs.append" -> [t EXCEPT !.tx.outs = Append(@, NewOut)]
         [] f = "outs.droplast" -> [t EXCEPT !.tx.outs = Front(@)]
\* memo keys (cfg: Key <- FullKey | BadKeyNoSigs | BadKeyNoBegin | BadKeyNoTx)
FullKey(r, t) == [r |-> r, t |-> t]
BadKeyNoSigs(r, t) == [r |-> [r EXCEPT !.g = 0], t |-> t]
BadKeyNoBegin(r, t) == [r |-> [r EXCEPT !.b = 0], t |-> t]
BadKeyNoTx(r, t) == [r |-> r, t |-> 0]
Key(r, t) == FullKey(r, t)

VARIABLES coin, hist, memo, cur
vars == <<coin, hist, memo, cur>>
Init == coin \in CoinSet /\ hist = <<>> /\ memo = <<>> /\ cur = T0
Hit(k) == {j \in 1..Len(memo) : memo[j].key = k}
NEdits == Cardinality({j \in 1..Len(hist) : hist[j].k = "edit"})
\* what the harness is told about a step: the request and the digest demanded NOW / the edit and the fields after it
ShowT(t) == [ver |-> t.tx.ver, lock |-> t.tx.lock, ins |-> t.tx.ins, outs |-> t.tx.outs, amts |-> t.amts]
Show(h) == IF h.k = "ask" THEN [k |-> "ask", r |-> h.r, exp |-> Demanded(coin, h.t, h.r)]
           ELSE [k |-> "edit", e |-> h.e, after |-> ShowT(h.t)]
Emit == Len(hist') = MaxLen =>
           PrintT(ToJson([k |-> "hist", coin |-> coin, steps |-> [j \in 1..MaxLen |-> Show(hist'[j])]]))
\* a history ends in a request (an edit nobody looks at afterwards is invisible) and begins with one
\* (nothing can be stale before the first request); the edits still owed must fit in
Ask(r) ==
    /\ Len(hist) < MaxLen
    /\ 2 * (MinEdits - NEdits) <= MaxLen - Len(hist) - 1
    /\ LET k == Key(r, cur)
           out == IF Hit(k) # {} THEN memo[CHOOSE j \in Hit(k) : TRUE].out ELSE Demanded(coin, cur, r)
       IN /\ hist' = Append(hist, [k |-> "ask", r |-> r, t |-> cur, out |-> out])
          /\ memo' = IF Hit(k) # {} THEN memo ELSE Append(memo, [key |-> k, out |-> out])
    /\ UNCHANGED <<coin, cur>>
    /\ Emit
Edit(e) ==
    /\ Len(hist) < MaxLen - 1 /\ hist # <<>> /\ Last(hist).k = "ask" /\ NEdits < MaxEdits
    /\ cur' = Apply(cur, e)
    /\ hist' = Append(hist, [k |-> "edit", e |-> e, t |-> cur'])
    /\ UNCHANGED <<coin, memo>>
EmitTab == /\ hist = <<>> /\ memo = <<>> /\ coin = CHOOSE c \in CoinSet : TRUE
           /\ UNCHANGED vars
           /\ PrintT(ToJson([k |-> "tab", start |-> ShowT(T0), scripts |-> Scripts, sigsets |-> SigSets]))
Asks == \E r \in Pool(coin) : Ask(r)
Edits == \E e \in EditsOf(cur) : Edit(e)
Next == EmitTab \/ Asks \/ Edits
Spec == Init /\ [][Next]_vars

(* the lemma: every answer ever given is the digest of its own request on the fields the *)
(* transaction had at that moment                                                        *)
HistoryIndependent == \A j \in 1..Len(hist) : hist[j].k = "ask" => hist[j].out = Demanded(coin, hist[j].t, hist[j].r)
(* the pool is worth the trouble: requests that agree on (script, begin, hash type, input,  *)
(* version) but remove different signatures do differ in their digests, so a memo that        *)
(* forgets the signatures cannot be right                                                     *)
SigsMatter == hist = <<>> => \A r \in Pool(coin) :
                 (r.sv = "base" /\ RemovesSignatures(coin, r.sv) /\ r.g = 2 /\ r.s = 1 /\ r.b = 0 /\ 3 \in SigSetIds)
                     => Demanded(coin, T0, r) # Demanded(coin, T0, [r EXCEPT !.g = 3])
(* ... and so are the edits: each one changes the digest of some request of the pool (the     *)
(* scriptSig of an input is signed by nobody - that edit must change NO digest), so a memo    *)
(* that forgets the fields cannot be right                                                    *)
EditsMatter == hist = <<>> => \A e \in EditsOf(T0) :
                 (e.f = "in.sigscript") <=> (\A r \in Pool(coin) : Demanded(coin, Apply(T0, e), r) = Demanded(coin, T0, r))
=============================================================================
