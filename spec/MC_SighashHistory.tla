-------------------------- MODULE MC_SighashHistory --------------------------
(* HISTORY dimension of C04.  One transaction object, one SolutionChecker and  *)
(* one sighash closure per (signature version, input) live through a SEQUENCE  *)
(* of requests - as they do while a script with several signature checks is    *)
(* evaluated (`<sigA> <pubA> CHECKSIGVERIFY <pubB> CHECKSIG`: the first check  *)
(* removes the push of sigA, the second removes sigB, which does not occur).   *)
(* The rule book has no memory: the digest of a request depends on its CURRENT *)
(* arguments only (HistoryIndependent), just as computing a digest never       *)
(* modifies the transaction.                                                   *)
(*                                                                             *)
(* The module is implementation shaped in one respect: Ask answers through a   *)
(* memo keyed by Key(r).  With Key(r) = every argument of the request the memo *)
(* is invisible and HistoryIndependent holds (MC_SighashHistory_*.cfg); with a *)
(* key that forgets WHICH signature pushes are removed (BadKeyNoSigs) or the   *)
(* code-separator offset (BadKeyNoBegin) TLC finds the two-request history     *)
(* that returns a stale digest (MC_SighashHistory_bad*.cfg, model self-tests). *)
(* Every history of length MaxLen is printed with the digest demanded at each  *)
(* step; props/c04.py runs it on long-lived pycoin objects and on fresh ones.  *)
EXTENDS Sighash, TLC, Json

CONSTANTS MaxLen,       \* length of the histories
          CoinSet, SvSet, IdxSet, ScriptIds, SigSetIds, BeginSet, HtBase

FF4 == Rep(255, 4)
TheTx == Tx(LE32(2),
            << TxIn(Sym(1), LE32(0), <<1, 2>>, FF4), TxIn(Sym(2), LE32(7), <<>>, LE32(5)) >>,
            << TxOut(<<1, 0, 0, 0, 0, 0, 0, 0>>, <<118, 169>>), TxOut(<<0, 0, 0, 0, 1, 0, 0, 0>>, <<>>) >>,
            LE32(17))
Amts == << <<64, 66, 15, 0, 0, 0, 0, 0>>, <<1, 2, 3, 4, 5, 6, 7, 128>> >>     \* coin spent by each input

SigA == <<48, 6, 2, 1, 1, 2, 1, 1, 1>>
SigB == <<48, 69, 2, 33, 0>> \o Rep(171, 32) \o <<2, 32>> \o Rep(7, 32) \o <<129>>
PubA == <<2>> \o Rep(10, 32)
PubB == <<3>> \o Rep(11, 32)
OP_CHECKSIG == 172
OP_CHECKSIGVERIFY == 173
\* script, and the offset just after its OP_CODESEPARATOR
Scripts == <<
    [script |-> PushOf(SigA) \o PushOf(PubA) \o <<OP_CHECKSIGVERIFY, OP_CODESEPARATOR>> \o PushOf(PubB) \o <<OP_CHECKSIG>>,
     sep |-> Len(PushOf(SigA)) + Len(PushOf(PubA)) + 2],
    [script |-> PushOf(SigB) \o PushOf(PubA) \o <<OP_CHECKSIGVERIFY, OP_CODESEPARATOR>> \o PushOf(SigA) \o PushOf(PubB) \o <<OP_CHECKSIG>>,
     sep |-> Len(PushOf(SigB)) + Len(PushOf(PubA)) + 2] >>
SigSets == << <<>>, <<SigA>>, <<SigB>>, <<SigA, SigB>> >>
ASSUME \A k \in 1..Len(Scripts) : WellFormed(Scripts[k].script) /\ Scripts[k].script[Scripts[k].sep] = OP_CODESEPARATOR

\* a request: everything the closure is given, by table index
Req(sv, i, s, b, g, ht) == [sv |-> sv, i |-> i, s |-> s, b |-> b, g |-> g, ht |-> ht]
HtOf(coin) == {h + (IF UsesForkId(coin) THEN 64 ELSE 0) : h \in HtBase}
Pool(coin) == {Req(sv, i, s, b, g, ht) : sv \in SigVersionsOf(coin) \cap SvSet, i \in IdxSet, s \in ScriptIds,
                                         b \in BeginSet, g \in SigSetIds, ht \in HtOf(coin)}
\* the digest of a request: a function of the request alone
Demanded(coin, r) == Digest(coin, r.sv, TheTx, r.i, Scripts[r.s].script, IF r.b = 1 THEN Scripts[r.s].sep ELSE 0,
                            SigSets[r.g], Amts[r.i], r.ht)

\* memo keys (cfg: Key <- FullKey | BadKeyNoSigs | BadKeyNoBegin)
FullKey(r) == r
BadKeyNoSigs(r) == [r EXCEPT !.g = 0]
BadKeyNoBegin(r) == [r EXCEPT !.b = 0]
Key(r) == FullKey(r)

VARIABLES coin, hist, memo
vars == <<coin, hist, memo>>
Init == coin \in CoinSet /\ hist = <<>> /\ memo = <<>>
Hit(k) == {j \in 1..Len(memo) : memo[j].key = k}
Ask(r) ==
    /\ Len(hist) < MaxLen
    /\ LET k == Key(r)
           out == IF Hit(k) # {} THEN memo[CHOOSE j \in Hit(k) : TRUE].out ELSE Demanded(coin, r)
       IN /\ hist' = Append(hist, [r |-> r, out |-> out])
          /\ memo' = IF Hit(k) # {} THEN memo ELSE Append(memo, [key |-> k, out |-> out])
    /\ UNCHANGED coin
    /\ (Len(hist') = MaxLen =>
           PrintT(ToJson([k |-> "hist", coin |-> coin, reqs |-> [j \in 1..MaxLen |-> hist'[j].r],
                          exp |-> [j \in 1..MaxLen |-> Demanded(coin, hist'[j].r)]])))
EmitTab == /\ hist = <<>> /\ memo = <<>> /\ coin = CHOOSE c \in CoinSet : TRUE
           /\ UNCHANGED vars
           /\ PrintT(ToJson([k |-> "tab", ver |-> TheTx.ver, lock |-> TheTx.lock, ins |-> TheTx.ins, outs |-> TheTx.outs,
                             amts |-> Amts, scripts |-> Scripts, sigsets |-> SigSets]))
Next == EmitTab \/ \E r \in Pool(coin) : Ask(r)
Spec == Init /\ [][Next]_vars

(* the lemma: every answer ever given is the digest of its own request *)
HistoryIndependent == \A j \in 1..Len(hist) : hist[j].out = Demanded(coin, hist[j].r)
(* the pool is worth the trouble: requests that agree on (script, begin, hash type, input,  *)
(* version) but remove different signatures do differ in their digests, so a memo that        *)
(* forgets the signatures cannot be right                                                     *)
SigsMatter == \A r \in Pool(coin) :
                 (r.sv = "base" /\ RemovesSignatures(coin, r.sv) /\ r.g = 2 /\ r.s = 1 /\ r.b = 0 /\ 3 \in SigSetIds)
                     => Demanded(coin, r) # Demanded(coin, [r EXCEPT !.g = 3])
=============================================================================
