SPECIFICATION Spec
CONSTANTS
  Tier = "deva"
  Phase = "cases"
  Mutant = "sign_first_only"
INVARIANTS
  Order
  Conservation
  ReportTrue
  OnlyNamedPaid
  EditsLocal
  Aligned
  RoundTrip
  SignHintOK
  StagesAgree
CHECK_DEADLOCK FALSE
