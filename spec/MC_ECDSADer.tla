------------------------------ MODULE MC_ECDSADer ------------------------------
(* C01 at the DER wrapper (Key.verify): "verification ... rejects ... any r or *)
(* s outside [1, n-1]" must also hold for the (r, s) a DER blob PRESENTS.      *)
(* Reuses C10's spec/DerSig.tla (X.690 parser machine, read-only).             *)
(*                                                                             *)
(* Input (from the harness): valid signatures (r, s) of 256-bit curves as      *)
(* big-endian magnitudes.  For each, TLC builds the encodings below, runs the  *)
(* parser machine DerRun on every blob and prints the verdict the property     *)
(* demands of Key.verify(hash, blob):                                          *)
(*   "true"    the blob is THE DER encoding of the valid (r, s)                 *)
(*   "false"   the blob is not readable as two INTEGERs, or it presents a      *)
(*             negative r or s (two's complement: top bit of the first content *)
(*             octet set) - a value outside [1, n-1]                           *)
(*   "either"  readable, non-negative, same values, but not DER (padded        *)
(*             integer, non-minimal length, trailing bytes): the property does *)
(*             not say whether a lax reader may accept it (R1)                 *)
(* Variants: canonical; pad octet of r / of s removed (only where the value's  *)
(* top bit is set: the INTEGER becomes negative); extra 0x00 pad octet on r /  *)
(* on s; long-form length of the SEQUENCE / of r; one byte after s inside the  *)
(* SEQUENCE; one byte after the SEQUENCE; last byte cut off.                   *)
EXTENDS DerSig, Json, IOUtils

Given == JsonDeserialize(IOEnv.CASE_FILE)      \* sequence of [r |-> bytes, s |-> bytes]

\* an INTEGER with exactly the given content octets (no normalisation)
RawInt(c) == <<TagInt>> \o EncLen(Len(c)) \o c
RawSig(a, c) == <<TagSeq>> \o EncLen(Len(a) + Len(c)) \o a \o c
TopSet(m) == StripZ(m)[1] >= 128
PosContent(m) == LET z == StripZ(m) IN IF z[1] >= 128 THEN <<0>> \o z ELSE z
LongLen(n) == <<129, n>>                          \* 0x81 n : non-minimal for n < 128

Variants(r, s) ==
  LET a == EncInt(r)   c == EncInt(s) IN
     {<<"canonical", EncSig(r, s)>>,
      <<"extra_pad_r", RawSig(RawInt(<<0>> \o PosContent(r)), c)>>,
      <<"extra_pad_s", RawSig(a, RawInt(<<0>> \o PosContent(s)))>>,
      <<"long_len_seq", <<TagSeq>> \o LongLen(Len(a) + Len(c)) \o a \o c>>,
      <<"long_len_r", RawSig(<<TagInt>> \o LongLen(Len(PosContent(r))) \o PosContent(r), c)>>,
      <<"inner_trailing", InnerTrail(r, s, <<0>>)>>,
      <<"outer_trailing", OuterTrail(EncSig(r, s), <<0>>)>>,
      <<"truncated", SubSeq(EncSig(r, s), 1, Len(EncSig(r, s)) - 1)>>}
     \cup (IF TopSet(r) THEN {<<"negative_r", RawSig(RawInt(StripZ(r)), c)>>} ELSE {})
     \cup (IF TopSet(s) THEN {<<"negative_s", RawSig(a, RawInt(StripZ(s)))>>} ELSE {})
     \cup (IF TopSet(r) /\ TopSet(s) THEN {<<"negative_r_s", RawSig(RawInt(StripZ(r)), RawInt(StripZ(s)))>>} ELSE {})

\* the verdict for a blob that is meant to present the valid signature (r, s)
Verdict(run, r, s) ==
  IF ~Readable(run) THEN "false"
  ELSE IF run.r.neg \/ run.s.neg THEN "false"
  ELSE IF MagOf(run.r) # StripZ(r) \/ MagOf(run.s) # StripZ(s) THEN "other-value"
  ELSE IF StrictValid(run) THEN "true" ELSE "either"

VARIABLES ci, done
vars == <<ci, done>>
Init == ci \in 1..Len(Given) /\ done = FALSE
Emit == /\ ~done /\ done' = TRUE /\ UNCHANGED ci
        /\ LET r == Given[ci].r   s == Given[ci].s IN
           PrintT(ToJson([k |-> "der", ci |-> ci,
                          blobs |-> {[name |-> v[1], blob |-> v[2], verdict |-> Verdict(DerRun(v[2]), r, s),
                                      dev |-> DerRun(v[2]).dev, why |-> DerRun(v[2]).why] : v \in Variants(r, s)}]))
Spec == Init /\ [][Emit]_vars

\* the variants are what their names say (checked on the given signatures)
VariantsOk == \A v \in Variants(Given[ci].r, Given[ci].s) :
   LET run == DerRun(v[2])  vd == Verdict(run, Given[ci].r, Given[ci].s) IN
     /\ vd # "other-value"
     /\ (v[1] = "canonical" <=> vd = "true")
     /\ (v[1] \in {"negative_r", "negative_s", "negative_r_s"} => vd = "false" /\ "negative" \in run.dev)
     /\ (v[1] = "truncated" => vd = "false")
     /\ (v[1] \in {"extra_pad_r", "extra_pad_s"} => vd = "either" /\ run.dev = {"padded-int"})
     /\ (v[1] \in {"long_len_seq", "long_len_r"} => vd = "either" /\ run.dev = {"long-len"})
     /\ (v[1] = "inner_trailing" => run.dev = {"inner-trailing"}) /\ (v[1] = "outer_trailing" => run.dev = {"outer-trailing"})
=============================================================================
