CONSTANTS Generic = {"*"}  Table = "sane"  Mode = "clash"
SPECIFICATION Spec
INVARIANTS GridOk FaithfulOk ApartOk TableApart
CHECK_DEADLOCK FALSE
