---------------------------- MODULE Trace_ECSession ----------------------------
(* Code -> spec for the several-curves-in-one-process dimension of C02: long    *)
(* seeded random sessions (random x, random 30-bit k) over two generator        *)
(* objects of different curves over the SAME field (p = 251: orders 241 and     *)
(* 271) recorded from one pycoin process; every logged answer must be           *)
(* ECSession!Answer(call): a function of the curve and the arguments only.      *)
(* Event: [c, op, v, res]; res as in Trace_EC (<<-1, -1>> when pycoin raised).  *)
EXTENDS ECSession, IOUtils, TLCExt

Traces == JsonDeserialize(IOEnv.TRACE_FILE)
VARIABLES tid, li
tvars == <<tid, li, hist>>
Ev == Traces[tid]
Cur == Ev[li]

TInit == /\ TLCSet(1, {}) /\ TLCSet(2, [i \in 1..Len(Traces) |-> 0])
         /\ tid \in 1..Len(Traces) /\ li = 1 /\ hist = <<>>
TStep == /\ li <= Len(Ev)
         /\ Cur.res = Answer(<<Cur.c, Cur.op, Cur.v>>)
         /\ li' = li + 1 /\ UNCHANGED <<tid, hist>>
TSpec == TInit /\ [][TStep]_tvars

Reached == /\ TLCSet(2, [TLCGet(2) EXCEPT ![tid] = IF @ < li - 1 THEN li - 1 ELSE @])
           /\ IF li = Len(Ev) + 1 THEN TLCSet(1, TLCGet(1) \cup {tid}) ELSE TRUE
Post == LET rej == (1..Len(Traces)) \ TLCGet(1) IN
        PrintT(ToJson([k |-> "rejected", n |-> Len(Traces), ids |-> rej,
                       matched |-> [i \in 1..Len(Traces) |-> IF i \in rej THEN TLCGet(2)[i] ELSE 0 - 1]]))
=============================================================================
