CONSTANTS Tier = "m"
  Publicize <- BadPublicize
SPECIFICATION Spec
INVARIANTS PipelineAgrees GridParses Tables Concrete Counts
CHECK_DEADLOCK FALSE
