------------------------------ MODULE BlockWire ------------------------------
(* C14: the wire format of block headers, blocks and BIP37 merkleblock        *)
(* messages, the block id, and the rule that ties a block's transactions to   *)
(* its header.                                                                *)
(*                                                                            *)
(* Bitcoin protocol documentation / Core primitives/block.h:                  *)
(*   header (80 bytes) = version(4, LE) || hashPrevBlock(32) ||               *)
(*                       hashMerkleRoot(32) || time(4, LE) || bits(4, LE) ||  *)
(*                       nonce(4, LE)                                         *)
(*   block id          = SHA256(SHA256(header)); shown byte-reversed in hex   *)
(*   block             = header || compactsize(#tx) || tx_1 || .. || tx_n     *)
(*                       (each tx in its standard form, BIP144 if it has      *)
(*                       witness data: TxWire.Wire)                           *)
(*   merkle root       = Merkle.Root of the TXIDs (never the wtxids) in block *)
(*                       order; a block whose header says otherwise is        *)
(*                       invalid ("bad-txnmrklroot")                          *)
(*   merkleblock (BIP37) = header || total_transactions(4, LE) ||             *)
(*                       compactsize(#hashes) || hashes(32 each) ||           *)
(*                       compactsize(#flag bytes) || flag bytes               *)
(*                                                                            *)
(* 32-byte digests inside these structures are TERMS (Merkle.tla); a wire     *)
(* image is therefore a sequence of PARTS, each a term of 32 bytes or a       *)
(* literal  [op |-> "b", v |-> byte string of module Bytes].  The harness     *)
(* evaluates the parts with hashlib and concatenates.  32-bit fields are two  *)
(* 16-bit limbs, least significant first (TLC integers stop at 2^31).         *)
EXTENDS TxWire, Merkle

B(bytes) == [op |-> "b", v |-> bytes]
H256dCat(parts) == [op |-> "h256d_cat", parts |-> parts]        \* double SHA-256 of the concatenated parts
Rev(t) == [op |-> "rev", arg |-> t]                             \* the bytes of t in reverse order (display form)
\* values different from every value an honest party computes (collision-freeness again)
Alien(i) == [op |-> "x", i |-> i]
Flip(t, bit) == [op |-> "flip", arg |-> t, bit |-> bit]          \* t with bit `bit` (0..255, bit 0 = lsb of byte 0) inverted

\* ---------------------------------------------------------------- header
IsHeader(h) == /\ IsNum(h.version, 2) /\ IsNum(h.time, 2) /\ IsNum(h.bits, 2) /\ IsNum(h.nonce, 2)
               /\ h.prev.op \in STRING /\ h.root.op \in STRING
HeaderParts(h) == << B(LE16(h.version)), h.prev, h.root,
                     B(CatAll(<<LE16(h.time), LE16(h.bits), LE16(h.nonce)>>)) >>
BlockId(h) == H256dCat(HeaderParts(h))
IdDisplay(h) == Rev(BlockId(h))             \* Block.id(): hex of this
PrevDisplay(h) == Rev(h.prev)               \* Block.previous_block_id(): hex of this

\* ---------------------------------------------------------------- block
TxRoot(txs) == Root([i \in 1..Len(txs) |-> TxId(txs[i])])
BlockParts(h, txs) == HeaderParts(h) \o << B(CompactSize(Len(txs))) >> \o [i \in 1..Len(txs) |-> B(Wire(txs[i]))]
\* the header commits to exactly these transactions in this order
MerkleOk(h, txs) == h.root = TxRoot(txs)
HonestHeader(h, txs) == [h EXCEPT !.root = TxRoot(txs)]

\* ---------------------------------------------------------------- merkleblock message
MerkleBlockParts(h, total, hashes, flags) ==
  HeaderParts(h) \o << B(Cat(LE16(total), CompactSize(Len(hashes)))) >> \o hashes
                 \o << B(Cat(CompactSize(Len(flags)), Lit(flags))) >>

\* ---------------------------------------------------------------- block message
\* the payload of a "block" message is the block itself (protocol documentation, message "block")
BlockMsgParts(h, txs) == BlockParts(h, txs)

\* ---------------------------------------------------------------- where the formats apply
(* Everything above is a function of the bytes.  The library serves several networks from one process; some have  *)
(* transaction / block classes of their own (Litecoin) or another header layout (Bitcoin Gold).  What a network   *)
(* with Bitcoin's format answers does not depend on which other networks the process loaded, nor on whether they  *)
(* were loaded before or after it.  LoadOrders: the configurations in which the message cases are executed (each  *)
(* in a process of its own, all networks loaded first); Driven: the networks asked (Bitcoin's format).            *)
LoadOrders == << <<"BTC", "XTN", "LTC", "BTG">>, <<"BTG", "LTC", "XTN", "BTC">>, <<"BTC", "BTG", "XTN", "LTC">>,
                 <<"LTC", "BTG", "BTC", "XTN">> >>
Driven == {"BTC", "XTN", "LTC"}
LastOf(i) == LoadOrders[i][Len(LoadOrders[i])]
ASSUME LoadOrdersOk == \A i \in 1..Len(LoadOrders) :
         /\ \A a, b \in 1..Len(LoadOrders[i]) : LoadOrders[i][a] = LoadOrders[i][b] => a = b
         /\ \E a \in 1..Len(LoadOrders[i]) : LoadOrders[i][a] \in Driven
\* every driven network is loaded last in one configuration and before others in another; a network with a layout
\* of its own is loaded last in one and first in another
ASSUME FirstAndLast == /\ \A net \in Driven : (\E i \in 1..Len(LoadOrders) : LastOf(i) = net) /\ (\E i \in 1..Len(LoadOrders) : LastOf(i) # net)
                       /\ \E i \in 1..Len(LoadOrders) : LastOf(i) \notin Driven
                       /\ \E i \in 1..Len(LoadOrders) : LoadOrders[i][1] \notin Driven

\* ---------------------------------------------------------------- reading a wire image made of literals only
AllLiteral(parts) == \A i \in 1..Len(parts) : parts[i].op = "b"
Flat(parts) == CatAll([i \in 1..Len(parts) |-> parts[i].v])
\* header: fixed offsets 0, 4, 36, 68, 72, 76; fewer than 80 bytes is no header
ParseHeader(s) ==
  IF Size(Take(s, 80)) < 80 THEN [ok |-> FALSE]
  ELSE [ok |-> TRUE,
        h |-> [version |-> FromLE(Take(s, 4)),
               prev |-> B(Take(Drop(s, 4), 32)),
               root |-> B(Take(Drop(s, 36), 32)),
               time |-> FromLE(Take(Drop(s, 68), 4)),
               bits |-> FromLE(Take(Drop(s, 72), 4)),
               nonce |-> FromLE(Take(Drop(s, 76), 4))],
        rest |-> Drop(s, 80)]
\* block up to its transactions: header, count, and the bytes that hold the transactions
ParseBlockHead(s) ==
  LET p == ParseHeader(s) IN
  IF ~p.ok THEN [ok |-> FALSE]
  ELSE LET c == ReadCompactSize(p.rest) IN
       IF ~c.ok THEN [ok |-> FALSE] ELSE [ok |-> TRUE, h |-> p.h, count |-> c.n, body |-> c.rest]
=============================================================================
