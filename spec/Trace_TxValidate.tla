-------------------------- MODULE Trace_TxValidate --------------------------
(* Code -> spec binding for C06: recorded histories of mutations applied to   *)
(* real signed transactions, with what the library reported after each        *)
(* (is_solution_ok for every input and bad_solution_count(), on the           *)
(* long-lived object, on a fresh object parsed from its bytes, and once more  *)
(* on the long-lived one), are checked to be behaviours of TxValidate.tla     *)
(* with exactly the verdicts the specification computes.                      *)
EXTENDS TxValidate, Json, IOUtils, TLCExt, FiniteSetsExt

Traces == JsonDeserialize(IOEnv.TRACE_FILE)
VARIABLES tid, l
tvars == <<vars, tid, l>>
T == Traces[tid]
Ev == T.ev
Cur == Ev[l]

TInit == /\ TLCSet(1, {}) /\ TLCSet(2, {})
         /\ tid \in 1..Len(Traces) /\ l = 1
         /\ InitWith(T.nin, T.nout, T.H, T.S, T.N)

TStep == /\ l <= Len(Ev)
         /\ Apply([m |-> Cur.m, a |-> Cur.a, b |-> Cur.b])
         /\ Cur.ok                                   \* no exception escaped
         /\ Cur.long = Verdicts' /\ Cur.fresh = Verdicts' /\ Cur.again = Verdicts'
         \* the checker's own entry point (one checker, all contexts prepared first): same verdicts for the
         \* inputs whose spent output is known
         /\ \A p \in 1..Len(ins') : Cur.known[p] => Cur.checker[p] = Verdicts'[p]
         /\ Cur.long_bad = BadCount' /\ Cur.fresh_bad = BadCount'
         /\ l' = l + 1 /\ UNCHANGED tid
TSpec == TInit /\ [][TStep]_tvars

Reached == /\ TLCSet(2, TLCGet(2) \cup {<<tid, l>>})
           /\ IF l = Len(Ev) + 1 THEN TLCSet(1, TLCGet(1) \cup {tid}) ELSE TRUE
Rejected == (1..Len(Traces)) \ TLCGet(1)
\* (for each rejected trace: the 0-based index of the first event that could not be matched)
Post == PrintT(ToJson([k |-> "rejected", n |-> Len(Traces), ids |-> Rejected,
                       at |-> {<<t, Max({p[2] : p \in {q \in TLCGet(2) : q[1] = t}}) - 1>> : t \in Rejected}]))
=============================================================================
