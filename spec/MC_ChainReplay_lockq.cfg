CONSTANTS N = 3  W = 2  MaxAdd = 2  MaxLock = 1  AllowDup = TRUE
          MeldInterior = TRUE  SkipLocked = TRUE  KeepOnLock = TRUE
SPECIFICATION RSpec
CHECK_DEADLOCK FALSE
