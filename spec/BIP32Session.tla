---------------------------- MODULE BIP32Session ----------------------------
(* A library session over BIP32.tla (C09): node OBJECTS that memoise their    *)
(* children, public copies, path strings - and the lemma that none of this    *)
(* history is observable.                                                     *)
EXTENDS BIP32

(* State:                                                                     *)
(*   objs[o] = [node, cache, path]                                            *)
(*   cache   set of <<key, o'>>: derivations already made from o              *)
(*   path    (ghost) the index path from the master this object stands for    *)
(*   def     (ghost) how it came to be: [par, node, how] - the node as a       *)
(*           one-step term over the fields of object par (BIP32!Lift) and the  *)
(*           call that made it, for export                                     *)
(* Object 1 is the master private key.  The lemma (CacheTransparent) is that  *)
(* every object is what its path says, whatever was derived before, in what   *)
(* order and through which copies: memoisation is not observable.             *)
(*   root    (ghost) which root object it descends from                       *)
(* With TwoRoots a second root exists from the start (object 2): the master's  *)
(* PUBLIC key under ANOTHER chain code - what a process holds after reading   *)
(* an extended public key that shares the key and nothing else.  Nothing a    *)
(* node answers may depend on what another object was asked: every answer is  *)
(* the CKD of ITS node (ResultIsPure), every object what ITS root and path    *)
(* say (CacheTransparent).                                                    *)
CONSTANTS KeyMode,     \* "full" | "noHard" | "noWant" | "noChain": what the memo is keyed by (the latter three are wrong on purpose)
          TwoRoots     \* BOOLEAN
VARIABLES objs, res,   \* res: result of the last call: an object id, or 0 for a refusal
          pure         \* (ghost) what the last call returns by the memo-free definition: a node or Refused

CacheKey(x, ix, want) ==
  CASE KeyMode = "full"   -> <<ix.v, ix.h, Want(x, want)>>
    [] KeyMode = "noHard" -> <<ix.v, FALSE, Want(x, want)>>
    [] KeyMode = "noWant" -> <<ix.v, ix.h, "any">>
    [] KeyMode = "noChain" -> <<ix.v, ix.h, Want(x, want)>>

Obj(node, path, par, d, how, root) == [node |-> node, cache |-> {}, path |-> path, root |-> root,
                                       def |-> [par |-> par, node |-> d, how |-> how]]
\* KeyMode "noChain" (wrong on purpose): public derivations are looked up in the memo of EVERY public object holding the same key,
\* whatever its chain code - a process-wide memo filed under serP(K) || ser32(i)
Cached(os, o, k) ==
  IF KeyMode = "noChain" /\ ~IsPrivate(os[o].node)
  THEN UNION {{e \in os[j].cache : e[1] = k} : j \in {jj \in 1..Len(os) : ~IsPrivate(os[jj].node) /\ os[jj].node.key = os[o].node.key}}
  ELSE {e \in os[o].cache : e[1] = k}

\* one derivation on object o of object list os: [objs, res]
DeriveOn(os, o, ix, want) ==
  LET x == os[o].node
      k == CacheKey(x, ix, want)
      hit == Cached(os, o, k) IN
  IF hit # {} THEN [objs |-> os, res |-> (CHOOSE e \in hit : TRUE)[2]]
  ELSE LET r == Derive(x, ix, want) IN
       IF r = Refused THEN [objs |-> os, res |-> 0]
       ELSE [objs |-> Append([os EXCEPT ![o].cache = @ \cup {<<k, Len(os) + 1>>}],
                             Obj(r, Append(os[o].path, ix), o, Derive(Lift(o, x), ix, want), <<"derive", ix, Want(x, want)>>, os[o].root)),
             res |-> Len(os) + 1]

\* a fresh public copy of o (never memoised)
CopyOn(os, o) == [objs |-> Append(os, Obj(Neuter(os[o].node), os[o].path, o, Neuter(Lift(o, os[o].node)), <<"copy">>, os[o].root)), res |-> Len(os) + 1]

\* follow a list of indices from o, each child as its parent is; stop at a refusal
RECURSIVE WalkOn(_, _, _)
WalkOn(os, o, path) ==
  IF path = <<>> THEN [objs |-> os, res |-> o]
  ELSE LET d == DeriveOn(os, o, Head(path), "dflt") IN
       IF d.res = 0 THEN d ELSE WalkOn(d.objs, d.res, Tail(path))

ForPathOn(os, o, s) ==
  LET w == WalkOn(os, o, PathIndices(s)) IN
  IF w.res # 0 /\ HasDotPub(s) /\ IsPrivate(w.objs[w.res].node) THEN CopyOn(w.objs, w.res) ELSE w

\* the same calls without any memo
RECURSIVE PureWalk(_, _)
PureWalk(x, path) == IF path = <<>> THEN x
                     ELSE LET y == Derive(x, Head(path), "dflt") IN IF y = Refused THEN Refused ELSE PureWalk(y, Tail(path))
PureForPath(x, s) == LET y == PureWalk(x, PathIndices(s)) IN
                     IF y # Refused /\ HasDotPub(s) THEN Neuter(y) ELSE y

\* the second root: the master's key under an unrelated chain code
OtherChain == Sym("chain2", 32)
Rechain(x) == [x EXCEPT !.chain = OtherChain]
RootNode(seed, r) == IF r = 1 THEN Master(seed) ELSE Rechain(Master(seed))
SInit(seed) == /\ objs = <<Obj(Master(seed), <<>>, 0, Master(seed), <<"master">>, 1)>>
                         \o (IF TwoRoots THEN <<Obj(Neuter(Rechain(Master(seed))), <<>>, 1, Neuter(Rechain(Lift(1, Master(seed)))), <<"rechain">>, 2)>> ELSE <<>>)
               /\ res = 1 /\ pure = Master(seed)
SDerive(o, ix, want) == /\ Specified(objs[o].node, ix, want)
                        /\ LET d == DeriveOn(objs, o, ix, want) IN objs' = d.objs /\ res' = d.res
                        /\ pure' = Derive(objs[o].node, ix, want)
SCopy(o) == /\ LET d == CopyOn(objs, o) IN objs' = d.objs /\ res' = d.res
            /\ pure' = Neuter(objs[o].node)
SForPath(o, s) == /\ IsPathString(s)
                  /\ LET d == ForPathOn(objs, o, s) IN objs' = d.objs /\ res' = d.res
                  /\ pure' = PureForPath(objs[o].node, s)

\* what an object must be: a function of its path and of being private or not
Canonical(seed, r, path, private) == IF private THEN PrivPath(RootNode(seed, r), path) ELSE Neuter(PrivPath(RootNode(seed, r), path))
CacheTransparentFor(seed) == \A o \in 1..Len(objs) :
  objs[o].node = Canonical(seed, objs[o].root, objs[o].path, IsPrivate(objs[o].node))
\* the two roots really are different nodes with one key (otherwise the second root adds nothing)
RootsDiffer(seed) == TwoRoots => /\ objs[2].node.key = PubKey(objs[1].node) /\ objs[2].node.chain # objs[1].node.chain
                                 /\ \A ix \in {Idx(FALSE, 0), Idx(TRUE, 0)} :
                                       /\ PubData(objs[2].node, ix) = PubData(Neuter(objs[1].node), ix)
                                       /\ (~ix.h => CKDpub(objs[2].node, ix) # CKDpub(Neuter(objs[1].node), ix))
\* the call returned what the memo-free definition returns
ResultIsPure == IF res = 0 THEN pure = Refused ELSE pure # Refused /\ objs[res].node = pure
\* the compact (one-step, named-parent) description of every object unfolds to the object
CompactSound == \A o \in 2..Len(objs) :
  UnfoldNode(objs[o].def.node, objs[objs[o].def.par].node) = objs[o].node
=============================================================================
