CONSTANTS NK = 4  NM = 2  MaxPasses = 3
          Shapes <- ShapesQ  Coins <- CoinsD  HashTypes <- HTd  Passes <- DeepPasses  KcAdds <- NoKcAdds
CONSTANT Edits <- FewEdits
SPECIFICATION Spec
INVARIANTS TypeOK ValidIff SignedSane NeverValidWithFewKeys Confluence ValidDependsOnUnionOnly
PROPERTIES Monotone ValidUntouched FrameKept UnaskedUntouched EditOnlyLoses
CHECK_DEADLOCK FALSE
