CONSTANTS NK = 4  NM = 2  MaxPasses = 3
          Shapes <- ShapesQ  Coins <- CoinsQ  HashTypes <- HTq  Passes <- DeepPasses
SPECIFICATION Spec
INVARIANTS TypeOK ValidIff SignedSane NeverValidWithFewKeys Confluence ValidDependsOnUnionOnly OutcomesCharacterized
PROPERTIES Monotone ValidUntouched FrameKept UnaskedUntouched
CHECK_DEADLOCK FALSE
