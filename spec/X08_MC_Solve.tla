---------------------------- MODULE X08_MC_Solve ----------------------------
(* Model checking and spec -> code export for X08_Solve.  TLC enumerates the  *)
(* scripts of a bounded grammar (sequences of fragments: key checks, key-hash *)
(* and preimage locks, multisig cores, stack shuffles, conditionals, lock     *)
(* time prefixes, single opcodes), runs the tracer and ScriptVM on every      *)
(* stack over the script's value domain, checks TraceSound / TraceExact and   *)
(* exports each script with, per supply class, whether it is solvable (and    *)
(* solvable leaving a clean stack).  The harness turns each record into real  *)
(* scripts / keys / wrappings / coins and runs pycoin's solver.               *)
EXTENDS X08_Solve, Json, IOUtils

CONSTANT Tier      \* "dev" | "quick" | "thorough"

PK(i) == <<KTok(i), "CHECKSIG">>
PKV(i) == <<KTok(i), "CHECKSIGVERIFY">>
PKH(i) == <<"DUP", "HASH160", HKTok(i), "EQUALVERIFY", "CHECKSIG">>
PKHV(i) == <<"DUP", "HASH160", HKTok(i), "EQUALVERIFY", "CHECKSIGVERIFY">>
MS12 == <<"1", "K1", "K2", "2", "CHECKMULTISIG">>
MS22 == <<"2", "K1", "K2", "2", "CHECKMULTISIG">>
MS12V == <<"1", "K1", "K2", "2", "CHECKMULTISIGVERIFY">>
MS23 == <<"2", "K1", "K2", "K3", "3", "CHECKMULTISIG">>
\* fragments that check something
Cores == {PK(1), PK(2), PKV(1), PKV(2), PKH(1), PKHV(1), MS12, MS22, MS12V,
          <<"HASH160", "HK1", "EQUALVERIFY">>, <<"HASH160", "HP1", "EQUALVERIFY">>, <<"HASH160", "HP1", "EQUAL">>,
          <<"SHA256", "SP1", "EQUALVERIFY">>, <<"SHA256", "SP1", "EQUAL">>, <<"CHECKSIG">>, <<"CHECKSIGVERIFY">>}
Locks == {<<"1", "CLTV", "DROP">>, <<"L200", "CLTV", "DROP">>, <<"1", "CSV", "DROP">>, <<"CLTV">>}
Singles == {<<t>> : t \in {"DUP", "DROP", "SWAP", "OVER", "2DUP", "NIP", "TUCK", "ROT", "IFDUP", "SIZE", "DEPTH", "NOT",
                           "VERIFY", "EQUAL", "EQUALVERIFY", "HASH160", "SHA256", "TOALT", "FROMALT", "RETURN",
                           "0", "1", "K1", "HK1", "IF", "NOTIF", "ELSE", "ENDIF", "NOP",
                           "ADD", "0NOTEQUAL", "BOOLAND", "BOOLOR", "2DROP", "PICK", "HASH256", "RIPEMD160", "NUMEQUAL", "CSV",
                           "CHECKMULTISIG", "CHECKMULTISIGVERIFY", "2", "K2"}}
Frags == Cores \cup Locks \cup Singles \cup {MS23}
CondArms == {PK(1), PK(2), PKH(1), PKV(1) \o <<"1">>, MS12, <<"HASH160", "HP1", "EQUAL">>, <<"1">>, <<"0">>, <<>>}
Conds == {<<c>> \o a \o <<"ELSE">> \o b \o <<"ENDIF">> : c \in {"IF", "NOTIF"}, a \in CondArms, b \in CondArms}
         \cup {<<"IF">> \o a \o <<"ENDIF">> : a \in CondArms}
Cat2(A, B) == {a \o b : a \in A, b \in B}
SmallFrags == {PK(1), PKV(2), PKH(1), MS12, <<"HASH160", "HP1", "EQUALVERIFY">>, <<"SHA256", "SP1", "EQUALVERIFY">>,
               <<"1", "CLTV", "DROP">>} \cup {<<t>> : t \in {"DUP", "DROP", "SWAP", "OVER", "2DUP", "IFDUP", "NOT", "VERIFY", "1", "TOALT", "FROMALT", "SIZE"}}
TinyFrags == {<<t>> : t \in {"DUP", "DROP", "SWAP", "OVER", "2DUP", "VERIFY", "1", "K2"}}
Scripts ==
  IF Tier = "dev" THEN Cores \cup Cat2(Singles, {PK(1), MS12}) \cup {MS23} \cup Cat2({PK(1), MS12}, {<<"DROP">>, <<"DROP", "1">>})
  ELSE IF Tier = "quick" THEN Frags \cup Cat2(Frags, Frags) \cup Conds \cup Cat2(Conds, {PK(2), <<"VERIFY", "1">>})
  ELSE Frags \cup Cat2(Frags, Frags) \cup Conds \cup Cat2(Conds, SmallFrags) \cup Cat2(SmallFrags, Conds)
       \cup Cat2(Cat2(TinyFrags, TinyFrags), Cores) \cup Cat2(Cores, Cat2(TinyFrags, TinyFrags))
\* scripts outside the fragment grammar that every run must contain: a key count no multisig may have; a constant of the
\* script in the signature position of a check that is meant to fail
Extra == {<<"BIG", "CHECKMULTISIG">>, <<"HK1", "K1", "CHECKSIG", "NOT">>, <<"1", "L200", "CHECKMULTISIG">>,
          <<"IFDUP", "1", "K1", "K2", "2", "CHECKMULTISIG">>}
ScriptSeq == SetToSeq(Scripts \cup Extra)
NS == Len(ScriptSeq)
Lanes == 64

Pick1(S) == CHOOSE v \in S : TRUE
Supplies(toks) == [keys : SUBSET KeysIn(toks), pre : IF HasPre(toks) THEN BOOLEAN ELSE {FALSE}]
SupRec(toks, sup, acc) == [keys |-> SetToSeq(sup.keys), pre |-> sup.pre, solv |-> Solvable(toks, sup, acc),
                           clean |-> SolvableClean(toks, sup, acc)]
Work3(id, toks, ps, n, acc) ==
  [k |-> "case", id |-> id, toks |-> toks, n |-> n, np |-> Len(ps), full |-> toks \in Extra,
   stuck |-> \E iK \in 1..Len(ps) : ps[iK].status = "stuck",
   deep |-> \E iK \in 1..Len(ps) : ps[iK].na > MaxN,
   nacc |-> Cardinality(acc),
   sound |-> TraceSound(ps, acc), exact |-> TraceExact(toks, ps, acc, n), need |-> NeedsOracle2(toks, ps, n),
   sup |-> SetToSeq({SupRec(toks, sup, acc) : sup \in Supplies(toks)})]
Work2(id, toks, ps, n) == Pick1({Work3(id, toks, ps, n, acc) : acc \in {Accepted(toks, ps, n)}})
Work(id) == LET toks == ScriptSeq[id] IN Pick1({Work2(id, toks, ps, Depth(ps)) : ps \in {Paths(toks)}})

\* deliberately wrong tracers (configurations X08_MC_Solve_bad_*.cfg substitute them): the lemmas must notice
BadFill(st, n) ==
  IF Len(st.stack) >= n THEN st
  ELSE LET more == n - Len(st.stack) IN
       [st EXCEPT !.stack = [jK \in 1..more |-> AtomT(st.na + jK - 1)] \o st.stack, !.na = st.na + more]
BadNullFail(t) == CAnn

VARIABLES lane, cur, res
MInit == lane \in 1..Lanes /\ cur = 0 /\ res = [sound |-> TRUE, exact |-> TRUE, need |-> FALSE]
MNext == /\ cur' = IF cur = 0 THEN lane ELSE cur + Lanes
         /\ cur' <= NS
         /\ UNCHANGED lane
         /\ \E w \in {Work(cur')} : /\ res' = [sound |-> w.sound, exact |-> w.exact, need |-> w.need]
                                    /\ PrintT(ToJson(w))
MSpec == MInit /\ [][MNext]_<<lane, cur, res>>
LemmasHold == res.sound /\ res.exact /\ ~res.need
ASSUME PrintT(ToJson([k |-> "hdr", n |-> NS, tier |-> Tier]))
\* the judge's flag sets come from Signer.tla (C05) through X08_Policy
Pol == INSTANCE X08_Policy
ASSUME \A c \in Pol!X08Coins : PrintT(ToJson([k |-> "policy", coin |-> c, flags |-> Pol!PolicyOf(c), consensus |-> Pol!ConsensusOf(c), sigbyte |-> Pol!SigByteOf(c),
                                                witness |-> Pol!WitnessOn(c), report |-> Pol!ReportFlags]))
=============================================================================
