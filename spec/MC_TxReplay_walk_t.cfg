CONSTANTS MaxSteps = 20  MaxInserts = 2  Mode = "walk"  Cases <- WalkCasesT
SPECIFICATION WSpec
CHECK_DEADLOCK FALSE
