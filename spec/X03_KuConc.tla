------------------------------ MODULE X03_KuConc ------------------------------
(* X03 - from terms to printed values, and back into the parser.              *)
(*                                                                            *)
(* A table of X03_KuTable is a sequence of rendering terms.  When the leaves  *)
(* of the key are literal bytes, TLC itself reduces a value to what must be   *)
(* PRINTED - up to the functions it cannot compute, which are looked up in a  *)
(* table of facts F supplied with the key:                                    *)
(*     F.hmac  <<key, msg, HMAC-SHA512>>      F.h160  <<x, RIPEMD160(SHA256 x)>>*)
(*     F.pub   <<k, serP(k G)>>               F.add   <<IL, serP(K), serP(IL G + K)>>*)
(*     F.xy    <<serP(K), X || Y>>            F.h256d, F.stretch (Electrum)   *)
(* (rows are sequences; a missing row makes the value <<>>, which matches     *)
(* nothing).  Concatenation, IL/IR splitting, k + IL mod n, field layouts,    *)
(* version bytes, "which rows", text structure - everything else - is         *)
(* computed here.  The 256-bit arithmetic and the look-ups are those of       *)
(* Trace_BIP32.tla (instantiated; its trace variables are not used).          *)
(*                                                                            *)
(* A printed value is [enc, d, s, hrp, ver]:                                  *)
(*   "str"     the characters s                                               *)
(*   "hex"     the bytes d, two digits per byte                               *)
(*   "hexmin"  the integer with big-endian bytes d (no leading zero byte) in  *)
(*             hex without leading zeros;  "dec": the same in decimal         *)
(*   "b58c"    Base58Check of payload d under checksum function s             *)
(*   "seg"     segwit address: hrp, version ver, program d, checksum s        *)
(*   "input"   the item as typed                                              *)
(* StructOf turns a printed value back into the text structure ParseDispatch  *)
(* reads, so that "feeding a printed field back reproduces the table" is a    *)
(* statement TLC checks (Refeeds) - on the enumerated keys with the facts of  *)
(* the pool, and on recorded runs with the facts of the run.                  *)
EXTENDS X03_KuTable

TB == INSTANCE Trace_BIP32 WITH tid <- 0, l <- 0, objs <- <<>>, memo <- {}

NoFacts == [hmac |-> <<>>, h160 |-> <<>>, pub |-> <<>>, add |-> <<>>, xy |-> <<>>, h256d |-> <<>>, stretch |-> <<>>]

RECURSIVE XB(_, _), XS(_, _), XP(_, _)
XB(x, F) ==
  CASE x.t = "b" -> x.v
    [] x.t = "cat" -> FoldLeft(LAMBDA acc, y : acc \o XB(y, F), <<>>, x.p)
    [] x.t = "hmac512" -> TB!Look2(F.hmac, XB(x.k, F), XB(x.m, F))
    [] x.t = "l32" -> LET v == XB(x.a, F) IN IF Len(v) = 64 THEN SubSeq(v, 1, 32) ELSE <<>>
    [] x.t = "r32" -> LET v == XB(x.a, F) IN IF Len(v) = 64 THEN SubSeq(v, 33, 64) ELSE <<>>
    [] x.t = "ser256" -> XS(x.a, F)
    [] x.t = "serP" -> XP(x.a, F)
    [] x.t = "xy64" -> TB!Look1(F.xy, XP(x.a, F))
    [] x.t = "h160" -> TB!Look1(F.h160, XB(x.a, F))
    [] x.t = "h256d" -> TB!Look1(F.h256d, XB(x.a, F))
    [] x.t = "stretch" -> TB!Look1(F.stretch, XB(x.a, F))
    [] x.t = "first4" -> LET v == XB(x.a, F) IN IF Len(v) >= 4 THEN SubSeq(v, 1, 4) ELSE <<>>
\* a sum of 32-byte strings mod n (each below n: a tweak IL >= n is outside the model)
XS(k, F) == LET vs == [i \in 1..Len(k.ts) |-> XB(k.ts[i], F)] IN
            IF \E i \in 1..Len(vs) : ~TB!IsBytes(vs[i], 32) \/ TB!Geq(vs[i], TB!NB) THEN <<>>
            ELSE FoldLeft(LAMBDA acc, v : TB!AddModN(acc, v), vs[1], Tail(vs))
\* (sum ts) G is a fact about the sum; base + t1 G + t2 G + .. is added point by point, each step a fact <<t, P, t G + P>>
XP(K, F) == IF K.base = <<>> THEN TB!Look1(F.pub, XS(Sum(K.ts), F))
            ELSE FoldLeft(LAMBDA acc, t : TB!Look2(F.add, XB(t, F), acc), XB(K.base[1], F), K.ts)

\* the object with its key material reduced to literal bytes (same object: every row prints the same)
LiteralObj(o, F) ==
  IF o.cls = "contract" THEN [o EXCEPT !.node.key = B(XB(@, F))]
  ELSE [o EXCEPT !.node.key = IF IsScalar(@) THEN Sum(<<B(XS(@, F))>>) ELSE Pt(<<B(XP(@, F))>>, <<>>),
                 !.node.pfp = B(XB(@, F)), !.node.chain = B(XB(@, F))]
Strip0(b) == PD!Strip0(b)
PV(enc, d, s) == [enc |-> enc, d |-> d, s |-> s, hrp |-> <<>>, ver |-> 0]
ConcVal(v, F) ==
  CASE v.x = "lit"    -> PV("str", <<>>, v.s)
    [] v.x = "input"  -> PV("input", <<>>, "")
    [] v.x = "hex"    -> PV("hex", XB(v.a, F), "")
    [] v.x = "hexmin" -> PV("hexmin", Strip0(XB(v.a, F)), "")
    [] v.x = "dec"    -> PV("dec", Strip0(XB(v.a, F)), "")
    [] v.x = "parity" -> LET b == XB(v.a, F) IN
                         IF b = <<>> THEN PV("str", <<>>, "?") ELSE PV("str", <<>>, IF b[Len(b)] % 2 = 1 THEN "odd" ELSE "even")
    [] v.x = "text"   ->
         LET t == v.a IN
         IF "t" \in DOMAIN t THEN PV("b58c", XB(t.a, F), "sha256d")                       \* BIP32!B58Check
         ELSE IF t.op = "b58c" THEN PV("b58c", t.a.a[1].a \o XB(t.a.a[2], F), t.chk)       \* Address!AddrTerm, Base58 kinds
         ELSE [enc |-> "seg", d |-> XB(t.a, F), s |-> t.var, hrp |-> t.hrp, ver |-> t.ver]  \* Address!AddrTerm, segwit kinds
ConcRows(rows, F) == [i \in DOMAIN rows |-> [k |-> rows[i].k, lab |-> rows[i].lab, legacy |-> rows[i].legacy, c |-> ConcVal(rows[i].v, F)]]
\* a value that could not be reduced (a fact is missing, or the term is malformed)
Reduced(c) == c.enc \in {"str", "input"} \/ c.d # <<>>

\* ----------------------------------------------------------------- printed value -> text structure
(* Only values that ku prints and its parser reads are turned back: Base58    *)
(* and segwit texts, SEC hex (a numeral of 66 / 130 hex digits; the harness   *)
(* makes sure it is not made of decimal digits only), the decimal exponent.   *)
StructOf(c) ==
  CASE c.enc = "b58c" -> [PD!TX("b58c") EXCEPT !.d = c.d, !.w = c.s, !.on = TRUE]
    [] c.enc = "seg"  -> [PD!TX("seg") EXCEPT !.a = c.hrp, !.v = c.ver, !.d = c.d, !.w = c.s]
    [] c.enc = "hex"  -> [PD!TX("num") EXCEPT !.w = "hex", !.v = 2 * Len(c.d), !.d = Strip0(c.d), !.d2 = c.d, !.on = TRUE]
    [] c.enc = "dec"  -> [PD!TX("num") EXCEPT !.w = "dec", !.d = c.d]

\* ----------------------------------------------------------------- feeding a printed field back
(* Refed(o, k): the object the printed value of row k of o's table denotes.   *)
P2pkhStyle(o) == o.cls \in {"key", "electrum"} \/ (o.cls = "hd" /\ o.fam = "bip32")
Refed(o, k) ==
  LET K == ObjPub(o) IN
  CASE k \in {"wif", "wif_uncompressed", "secret_exponent"} -> KeyObj(ObjKey(o))
    [] k \in {"key_pair_as_sec", "key_pair_as_sec_uncompressed"} -> KeyObj(K)
    [] k = "wallet_key" -> o
    [] k = "public_version" -> Publicize(o)
    [] k = "address" -> (CASE o.cls = "contract" -> o
                           [] P2pkhStyle(o) -> Contract("p2pkh", HashC(K))
                           [] o.fam = "bip49" -> Contract("p2sh", H160(WitScript(HashC(K))))
                           [] o.fam = "bip84" -> Contract("p2wpkh", HashC(K)))
    [] k = "address_uncompressed" -> Contract("p2pkh", HashU(K))
    [] k = "address_segwit" -> Contract("p2wpkh", HashC(K))
    [] k = "p2sh_segwit" -> Contract("p2sh", H160(WitScript(HashC(K))))
RefeedKeys == <<"wif", "wif_uncompressed", "secret_exponent", "key_pair_as_sec", "key_pair_as_sec_uncompressed",
                "wallet_key", "public_version", "address", "address_uncompressed", "address_segwit", "p2sh_segwit">>
\* the rows of o's table that can be fed back
Refeedable(o, N) == LET rows == Table(o, N) IN
  SelectSeq(RefeedKeys, LAMBDA k : HasRow(rows, k) /\ ~(o.cls = "contract" /\ k # "address"))

(* The lemma: parse the printed value of row k (on the same network, -n) -    *)
(* the parser's rule book must return exactly one object, and its table must  *)
(* print, row by row, what the table of Refed(o, k) prints ("input" aside).   *)
SameBut(rows1, rows2) == /\ Len(rows1) = Len(rows2)
                         /\ \A i \in DOMAIN rows1 : rows1[i] = rows2[i] \/ rows1[i].k = "input"
RefeedOk(o, N, k, F) ==
  LET c == ConcVal(RowOf(Table(o, N), k).v, F)
      r == KuParse(<<N.sym>>, StructOf(c)) IN
  /\ Reduced(c)
  /\ r.st = "obj"
  /\ LET o2 == ObjOf(r.o) IN
     /\ TplKeyOf(o2, N.sym) = TplKeyOf(Refed(o, k), N.sym)
     /\ SameBut(ConcRows(Table(o2, N), F), ConcRows(Table(Refed(o, k), N), F))
Refeeds(o, N, F) == \A i \in DOMAIN Refeedable(o, N) : RefeedOk(o, N, Refeedable(o, N)[i], F)

\* the printed WIF rows decode (KeyEnc!WifParse) to the printed exponent and to the compression flag of the row
WifRowsDecode(o, N, F) ==
  ObjPrivate(o) =>
    LET rows == ConcRows(Table(o, N), F)
        se == PD!Pad32(RowOf(rows, "secret_exponent").c.d)
        wc == KE!WifParse(N.wif, RowOf(rows, "wif").c.d)
        wu == KE!WifParse(N.wif, RowOf(rows, "wif_uncompressed").c.d) IN
    /\ wc.ok /\ wc.se = se /\ wc.compressed
    /\ wu.ok /\ wu.se = se /\ ~wu.compressed
    /\ RowOf(rows, "wif").c.d = KE!WifPayload(N.wif, se, TRUE)
    /\ RowOf(rows, "secret_exponent_hex").c.d = RowOf(rows, "secret_exponent").c.d
\* the printed public pair is the pair inside both printed SEC forms, and is k G for the printed exponent
PairRowsAgree(o, N, F) ==
  o.cls # "contract" =>
    LET rows == ConcRows(Table(o, N), F)
        x == PD!Pad32(RowOf(rows, "public_pair_x").c.d)
        y == PD!Pad32(RowOf(rows, "public_pair_y").c.d)
        sc == RowOf(rows, "key_pair_as_sec").c.d
        su == RowOf(rows, "key_pair_as_sec_uncompressed").c.d IN
    /\ Len(sc) = 33 /\ sc = <<2 + (y[32] % 2)>> \o x
    /\ su = <<4>> \o x \o y
    /\ RowOf(rows, "public_pair_x_hex").c.d = Strip0(x) /\ RowOf(rows, "public_pair_y_hex").c.d = Strip0(y)
    /\ RowOf(rows, "y_parity").c.s = (IF y[32] % 2 = 1 THEN "odd" ELSE "even")
    /\ (ObjPrivate(o) => TB!Look1(F.pub, PD!Pad32(RowOf(rows, "secret_exponent").c.d)) = sc)
ConcLemmas(o, N, F) == WifRowsDecode(o, N, F) /\ PairRowsAgree(o, N, F) /\ Refeeds(o, N, F)
=============================================================================
