------------------------------ MODULE Spendable ------------------------------
(* pycoin's "spendable": an unspent transaction output together with where   *)
(* it lives, in its three interchange forms.                                 *)
(*                                                                           *)
(*   [amount |-> Num(4), script |-> Bytes, hash |-> Bytes(32), index |-> Num(2),*)
(*    bia |-> Num(4), spent |-> BOOLEAN, bis |-> Num(4)]                      *)
(*   (bia / bis: block index where it became available / was spent)          *)
(*                                                                           *)
(* text   tx_id/tx_out_idx/script_hex/satoshi_count/bia/spent/bis - the form *)
(*        the `tx` command documents; tx_id is the display form of the hash  *)
(*        (byte-reversed hex), numbers are decimal, spent is 0 or 1;         *)
(* dict   the JSON-able dictionary with the keys below;                      *)
(* binary the serialised output (8-byte amount, length-prefixed script, as   *)
(*        in a transaction) followed by hash, 4-byte index, compact-size     *)
(*        bia, one byte spent, compact-size bis.                             *)
(* Text is modelled as the sequence of its "/"-separated fields; a field is  *)
(* [t |-> "hex", v |-> Bytes] or [t |-> "dec", v |-> digits].                *)
EXTENDS TxWire

IsSpendable(s) == /\ IsNum(s.amount, 4) /\ WellFormed(s.script)
                  /\ WellFormed(s.hash) /\ Size(s.hash) = 32
                  /\ IsNum(s.index, 2) /\ IsNum(s.bia, 4) /\ IsNum(s.bis, 4)
                  /\ s.spent \in BOOLEAN

Bit(b) == IF b THEN 1 ELSE 0
Hex(b) == [t |-> "hex", v |-> b]
DecF(n) == [t |-> "dec", v |-> Dec(n)]

\* ---------------------------------------------------------------- text
Separator == "/"
TextFields(s) == << Hex(Reverse8(s.hash)), DecF(s.index), Hex(s.script), DecF(s.amount),
                    DecF(s.bia), DecF(<<Bit(s.spent)>>), DecF(s.bis) >>
ParseText(f) ==
  [hash |-> Reverse8(f[1].v), index |-> FromDec(f[2].v, 2), script |-> f[3].v, amount |-> FromDec(f[4].v, 4),
   bia |-> FromDec(f[5].v, 4), spent |-> ~IsZero(FromDec(f[6].v, 1)), bis |-> FromDec(f[7].v, 4)]

\* ---------------------------------------------------------------- dictionary
IntF(n) == [t |-> "int", v |-> n]
DictForm(s) == [coin_value |-> IntF(s.amount), script_hex |-> Hex(s.script), tx_hash_hex |-> Hex(Reverse8(s.hash)),
                tx_out_index |-> IntF(s.index), block_index_available |-> IntF(s.bia),
                does_seem_spent |-> IntF(<<Bit(s.spent)>>), block_index_spent |-> IntF(s.bis)]
Pad(n, k) == [i \in 1..k |-> IF i <= Len(n) THEN n[i] ELSE 0]
ParseDict(d) ==
  [hash |-> Reverse8(d.tx_hash_hex.v), index |-> Pad(d.tx_out_index.v, 2), script |-> d.script_hex.v,
   amount |-> Pad(d.coin_value.v, 4), bia |-> Pad(d.block_index_available.v, 4),
   spent |-> ~IsZero(d.does_seem_spent.v), bis |-> Pad(d.block_index_spent.v, 4)]

\* ---------------------------------------------------------------- binary
OutPart(s) == SerOut([amount |-> s.amount, script |-> s.script])
BinForm(s) == CatAll(<< OutPart(s), s.hash, LE16(s.index), CompactSizeNum(s.bia),
                        Lit(<<Bit(s.spent)>>), CompactSizeNum(s.bis) >>)
\* cursor parser: each field is read where the previous one ended
ParseBin(b) ==
  LET a  == ReadFixed(b, 8)
      sc == ReadVarBytes(a.rest)
      h  == ReadFixed(sc.rest, 32)
      x  == ReadFixed(h.rest, 4)
      c1 == ReadCompactSize(x.rest)
      f  == ReadFixed(c1.rest, 1)
      c2 == ReadCompactSize(f.rest) IN
  IF ~(a.ok /\ sc.ok /\ h.ok /\ x.ok /\ c1.ok /\ f.ok /\ c2.ok) THEN [ok |-> FALSE]
  ELSE [ok |-> TRUE, rest |-> c2.rest, canon |-> sc.canon /\ c1.canon /\ c2.canon,
        s |-> [amount |-> FromLE(a.v), script |-> sc.v, hash |-> h.v, index |-> FromLE(x.v),
               bia |-> c1.num, spent |-> f.v[1][1] # 0, bis |-> c2.num]]
=============================================================================
