------------------------------ MODULE Spendable ------------------------------
(* pycoin's "spendable": an unspent transaction output together with where   *)
(* it lives, in its three interchange forms.                                 *)
(*                                                                           *)
(*   [amount |-> Num(4), script |-> Bytes, hash |-> Bytes(32), index |-> Num(2),*)
(*    bia |-> Num(4), spent |-> BOOLEAN, bis |-> Num(4)]                      *)
(*   (bia / bis: block index where it became available / was spent)          *)
(*                                                                           *)
(* text   tx_id/tx_out_idx/script_hex/satoshi_count/bia/spent/bis - the form *)
(*        the `tx` command documents; tx_id is the display form of the hash  *)
(*        (byte-reversed hex), numbers are decimal, spent is 0 or 1;         *)
(* dict   the JSON-able dictionary with the keys below;                      *)
(* binary the serialised output (8-byte amount, length-prefixed script, as   *)
(*        in a transaction) followed by hash, 4-byte index, compact-size     *)
(*        bia, one byte spent, compact-size bis.                             *)
(* Text is modelled as the sequence of its "/"-separated fields; a field is  *)
(* [t |-> "hex", v |-> Bytes] or [t |-> "dec", v |-> digits].                *)
EXTENDS TxWire

IsSpendable(s) == /\ IsNum(s.amount, 4) /\ WellFormed(s.script)
                  /\ WellFormed(s.hash) /\ Size(s.hash) = 32
                  /\ IsNum(s.index, 2) /\ IsNum(s.bia, 4) /\ IsNum(s.bis, 4)
                  /\ s.spent \in BOOLEAN

Bit(b) == IF b THEN 1 ELSE 0
Hex(b) == [t |-> "hex", v |-> b]
DecF(n) == [t |-> "dec", v |-> Dec(n)]

\* ---------------------------------------------------------------- text
Separator == "/"
TextFields(s) == << Hex(Reverse8(s.hash)), DecF(s.index), Hex(s.script), DecF(s.amount),
                    DecF(s.bia), DecF(<<Bit(s.spent)>>), DecF(s.bis) >>
ParseText(f) ==
  [hash |-> Reverse8(f[1].v), index |-> FromDec(f[2].v, 2), script |-> f[3].v, amount |-> FromDec(f[4].v, 4),
   bia |-> FromDec(f[5].v, 4), spent |-> ~IsZero(FromDec(f[6].v, 1)), bis |-> FromDec(f[7].v, 4)]

\* The same text as characters (ASCII codes), and a parser of characters: split at the separator, read
\* hexadecimal / decimal fields.  Used on short scripts (a character per element).
SepChar == 47                                            \* "/"
HexChar(n) == IF n < 10 THEN 48 + n ELSE 87 + n           \* 0-9 a-f (lower case)
HexChars(b) == FoldLeft(LAMBDA acc, x : acc \o <<HexChar(x \div 16), HexChar(x % 16)>>, <<>>, Expand(b))
DecChars(ds) == [i \in 1..Len(ds) |-> 48 + ds[i]]
FieldChars(f) == IF f.t = "hex" THEN HexChars(f.v) ELSE DecChars(f.v)
TextChars(s) == LET f == TextFields(s) IN
  FoldLeft(LAMBDA acc, i : acc \o (IF i = 1 THEN <<>> ELSE <<SepChar>>) \o FieldChars(f[i]), <<>>, [i \in 1..Len(f) |-> i])
\* split at the separator: a sequence of character sequences
SplitFields(cs) == FoldLeft(LAMBDA acc, c : IF c = SepChar THEN Append(acc, <<>>)
                                           ELSE [acc EXCEPT ![Len(acc)] = Append(@, c)], << <<>> >>, cs)
HexVal(c) == IF c >= 48 /\ c <= 57 THEN c - 48 ELSE IF c >= 97 /\ c <= 102 THEN c - 87 ELSE IF c >= 65 /\ c <= 70 THEN c - 55 ELSE 0 - 1
IsHexField(cs) == Len(cs) % 2 = 0 /\ \A i \in 1..Len(cs) : HexVal(cs[i]) >= 0
IsDecField(cs) == Len(cs) >= 1 /\ \A i \in 1..Len(cs) : cs[i] >= 48 /\ cs[i] <= 57
UnHex(cs) == Lit([i \in 1..(Len(cs) \div 2) |-> 16 * HexVal(cs[2*i - 1]) + HexVal(cs[2*i])])
UnDec(cs) == [i \in 1..Len(cs) |-> cs[i] - 48]
\* the text of a spendable has the seven fields (the shorter forms the tools accept are not modelled)
ParseTextChars(cs) ==
  LET f == SplitFields(cs) IN
  IF Len(f) # 7 \/ ~IsHexField(f[1]) \/ Len(f[1]) # 64 \/ ~IsHexField(f[3])
     \/ \E i \in {2, 4, 5, 6, 7} : ~IsDecField(f[i])
  THEN [ok |-> FALSE]
  ELSE [ok |-> TRUE,
        s |-> ParseText(<<Hex(UnHex(f[1])), [t |-> "dec", v |-> UnDec(f[2])], Hex(UnHex(f[3])), [t |-> "dec", v |-> UnDec(f[4])],
                          [t |-> "dec", v |-> UnDec(f[5])], [t |-> "dec", v |-> UnDec(f[6])], [t |-> "dec", v |-> UnDec(f[7])]>>)]

\* ---------------------------------------------------------------- dictionary
IntF(n) == [t |-> "int", v |-> n]
DictForm(s) == [coin_value |-> IntF(s.amount), script_hex |-> Hex(s.script), tx_hash_hex |-> Hex(Reverse8(s.hash)),
                tx_out_index |-> IntF(s.index), block_index_available |-> IntF(s.bia),
                does_seem_spent |-> IntF(<<Bit(s.spent)>>), block_index_spent |-> IntF(s.bis)]
Pad(n, k) == [i \in 1..k |-> IF i <= Len(n) THEN n[i] ELSE 0]
ParseDict(d) ==
  [hash |-> Reverse8(d.tx_hash_hex.v), index |-> Pad(d.tx_out_index.v, 2), script |-> d.script_hex.v,
   amount |-> Pad(d.coin_value.v, 4), bia |-> Pad(d.block_index_available.v, 4),
   spent |-> ~IsZero(d.does_seem_spent.v), bis |-> Pad(d.block_index_spent.v, 4)]

\* ---------------------------------------------------------------- binary
OutPart(s) == SerOut([amount |-> s.amount, script |-> s.script])
BinForm(s) == CatAll(<< OutPart(s), s.hash, LE16(s.index), CompactSizeNum(s.bia),
                        Lit(<<Bit(s.spent)>>), CompactSizeNum(s.bis) >>)
\* cursor parser: each field is read where the previous one ended
ParseBin(b) ==
  LET a  == ReadFixed(b, 8)
      sc == ReadVarBytes(a.rest)
      h  == ReadFixed(sc.rest, 32)
      x  == ReadFixed(h.rest, 4)
      c1 == ReadCompactSize(x.rest)
      f  == ReadFixed(c1.rest, 1)
      c2 == ReadCompactSize(f.rest) IN
  IF ~(a.ok /\ sc.ok /\ h.ok /\ x.ok /\ c1.ok /\ f.ok /\ c2.ok) THEN [ok |-> FALSE]
  ELSE [ok |-> TRUE, rest |-> c2.rest, canon |-> sc.canon /\ c1.canon /\ c2.canon,
        s |-> [amount |-> FromLE(a.v), script |-> sc.v, hash |-> h.v, index |-> FromLE(x.v),
               bia |-> c1.num, spent |-> f.v[1][1] # 0, bis |-> c2.num]]
=============================================================================
