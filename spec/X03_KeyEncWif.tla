---------------------------- MODULE X03_KeyEncWif ----------------------------
(* KeyEnc.tla is parameterised by a curve small enough for TLC integers; its  *)
(* WIF rule book (payload layout, parser, 32-byte exponent range against the  *)
(* secp256k1 order SecpN) does not depend on that curve.  This module fixes   *)
(* the parameter (the toy curve y^2 = x^3 + 7 over GF(43)) once, so that      *)
(* modules whose own vocabulary uses the names P, A, B, N can import the WIF  *)
(* operators read-only.                                                       *)
EXTENDS Naturals, Sequences
KE == INSTANCE KeyEnc WITH P <- 43, A <- 0, B <- 7, Gx <- 2, Gy <- 12, N <- 31

WifPayload(pfx, se, compressed) == KE!WifPayload(pfx, se, compressed)
WifParse(pfx, payload) == KE!WifParse(pfx, payload, KE!SecpN)
Se32Ok(se) == KE!Se32Ok(se, KE!SecpN)
SecpN == KE!SecpN
SecpP == KE!SecpP
=============================================================================
