CONSTANTS Tier = "q"  Emit = FALSE  Bug = "none"
SPECIFICATION Spec
INVARIANT AllPicked TypeOK NoFail Progress RoundTrip Bip144Iff LtcFlagLemma IdLemma
CHECK_DEADLOCK FALSE
