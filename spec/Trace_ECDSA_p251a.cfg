CONSTANTS P = 251  A = 1  B = 25  Gx = 0  Gy = 5  N = 241  Toy = TRUE  MaxCand = 99
SPECIFICATION TSpec
CONSTRAINT Reached
POSTCONDITION Post
CHECK_DEADLOCK FALSE
