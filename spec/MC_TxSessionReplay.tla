-------------------------- MODULE MC_TxSessionReplay --------------------------
(* Spec -> code binding for the history dimension of C13.  TLC enumerates     *)
(* EVERY session of SessionLen actions of TxSession.tla (queries and writers  *)
(* in every order) and prints it with, after each action, the answer the      *)
(* standard demands (and the other answers it admits) and the current fields.  The harness performs the session *)
(* on ONE pycoin Tx object, compares each answer, and also compares the       *)
(* object's totals with those of a fresh object built from the printed fields.*)
EXTENDS TxSession, Json

CONSTANT SessionLen
VARIABLES acts, obs
rvars == <<svars, acts, obs>>

UnT(un)  == [i \in 1..Len(un) |-> << un[i].amt, un[i].scr >>]
InT(in)  == [i \in 1..Len(in) |-> << in[i].src, in[i].idx >>]
OutT(o)  == [i \in 1..Len(o) |-> << o[i].to, o[i].amt >>]
DbT(d)   == [s \in 1..2 |-> [st |-> DBs[d][s].st, id |-> DBs[d][s].id, outs |-> UnT(DBs[d][s].outs)]]

\* the constant world is printed once, the sessions refer to its lists/databases by index/name
World == PrintT(ToJson([k |-> "world",
                 ins   |-> InT(Ins),
                 truth |-> [s \in 1..2 |-> UnT(Truth[s])],
                 lists |-> [j \in 1..Len(Lists) |-> UnT(Lists[j])],
                 pays  |-> OutT(Pays),
                 dbs   |-> [d \in DbNames |-> DbT(d)],
                 outs0 |-> OutT(InitOuts)]))
Emit == Len(acts') = SessionLen => PrintT(ToJson([k |-> "session", born |-> born, acts |-> acts', obs |-> obs']))

RInit == SInit /\ acts = << >> /\ obs = << >> /\ World
RNext == /\ Len(acts) < SessionLen
         /\ SNext
         /\ acts' = Append(acts, last'.a)
         \* r: what the machine (which refuses when the shape is wrong) answers; also: the other admissible answers
         /\ obs' = Append(obs, [r |-> last'.r, also |-> AllowedFor(last'.a, ins', unspents', outs') \ {last'.r},
                                ins |-> InT(ins'), un |-> UnT(unspents'), outs |-> OutT(outs')])
         /\ Emit
RSpec == RInit /\ [][RNext]_rvars
=============================================================================
