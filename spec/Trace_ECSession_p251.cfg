CONSTANTS P1 = 251  A1 = 1  B1 = 25  Gx1 = 0  Gy1 = 5  N1 = 241
          P2 = 251  A2 = 1  B2 = 4  Gx2 = 0  Gy2 = 2  N2 = 271
          Symbolic = {}  XS = {}  KS = {}  Depth = 0  ToyOps = {}
SPECIFICATION TSpec
CONSTRAINT Reached
POSTCONDITION Post
CHECK_DEADLOCK FALSE
