CONSTANTS NK = 12  NM = 2  MaxPasses = 99  MaxSteps = 99  MaxInserts = 99
          Shapes <- NoShapesT  Coins <- AllCoins  HashTypes <- StdHashTypes
SPECIFICATION TSpec
CHECK_DEADLOCK FALSE
