CONSTANTS MaxLen = 3  MinEdits = 1  MaxEdits = 1
          CoinSet = {"BTC", "LTC", "BCH", "BTG", "GRS"}  SvSet = {"base", "witness_v0"}  IdxSet = {1, 2}
          ScriptIds = {1}  SigSetIds = {2}  BeginSet = {0}  HtBase = {1, 131}
SPECIFICATION Spec
INVARIANTS HistoryIndependent EditsMatter
CHECK_DEADLOCK FALSE
