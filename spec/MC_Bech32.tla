----------------------------- MODULE MC_Bech32 -----------------------------
(* Lemmas about Bech32.tla checked by TLC, one family per cfg (constant Fam): *)
(*  "roundtrip"  SegwitDecode(SegwitRaw(hrp,v,prog)) = (v,prog) exactly when  *)
(*               the triple is Encodable, and is a rejection otherwise, for    *)
(*               every version symbol 0..31, every length 0..MaxProg, several  *)
(*               program patterns and hrps (incl. one containing '1' and one   *)
(*               that hits the 90 character limit); upper case form decodes    *)
(*               to the same; one upper-cased letter is rejected               *)
(*  "bits"       To8(To5(b)) = b; To8(d) accepted => To5(To8(d)) = d           *)
(*               (canonical: a bijection); both agree with the accumulator     *)
(*               formulation of the BIP173 reference code                      *)
(*  "subst"      every 1- and 2-symbol substitution in the data part of the    *)
(*               strings Strs, and every 1-character substitution anywhere,    *)
(*               is rejected by Bech32Decode                                   *)
(*  "affine"     Polymod(a xor b) = Polymod(a) xor Polymod(b) xor Polymod(0^n) *)
(*               and the exhaustive reason for it: the reduction term is       *)
(*               additive in the 5 bits shifted out                            *)
(* The <= 4 error guarantee itself is MC_Bech32Syn.                            *)
EXTENDS Bech32, TLC
CONSTANTS Fam, MaxProg, NPat, NStr, MaxBits
VARIABLES c
vars == <<c>>

Pattern(n, p) == [i \in 1..n |-> CASE p = 1 -> 0
                                    [] p = 2 -> 255
                                    [] p = 3 -> (i * 37 + 11) % 256
                                    [] OTHER -> (i * i * 7 + 3 * i + 250) % 256]
Hrps == << <<98, 99>>, <<116, 98>>, <<98, 99, 114, 116>>, <<97>>, <<63>>,      \* bc tb bcrt a ?
           <<120, 49, 121>>,                                                    \* x1y
           [i \in 1..19 |-> 96 + i] >>                                          \* abcdefghijklmnopqrs: 90/91 boundary
\* ---------------------------------------------------------------- roundtrip
RtInit == c \in [f : {"rt"}, h : DOMAIN Hrps, v : 0..31, n : {0 - 1}, p : {0}]
RtNext == c.n = 0 - 1 /\ \E n \in 0..MaxProg, p \in 1..NPat : c' = [c EXCEPT !.n = n, !.p = p]
RoundTrip ==
  (c.f = "rt" /\ c.n >= 0) =>
    LET hrp == Hrps[c.h]  prog == Pattern(c.n, c.p)
        raw == SegwitRaw(hrp, c.v, prog)
        d == SegwitDecode(hrp, raw)
    IN /\ Len(raw) = RawLen(hrp, prog)
       /\ ~MixedCase(raw) /\ raw = LowerStr(raw)
       /\ IF Encodable(hrp, c.v, prog)
          THEN /\ d = [ok |-> TRUE, why |-> "", ver |-> c.v, prog |-> prog]
               /\ SegwitDecode(hrp, UpperStr(raw)) = d
               /\ \A i \in DOMAIN raw : (IsLower(raw[i]) /\ \E j \in DOMAIN raw : j # i /\ IsLower(raw[j])) =>
                     SegwitDecode(hrp, [raw EXCEPT ![i] = Upper(raw[i])]).why = "mixed-case"
               /\ ~SegwitDecode(IF c.h = 1 THEN Hrps[2] ELSE Hrps[1], raw).ok
          ELSE ~d.ok /\ d.why \in {"version", "program-length", "too-long"}
\* ---------------------------------------------------------------- bits
\* the accumulator formulation of the BIP173 reference implementation
ConvAcc(data, frombits, tobits, pad) ==
  LET maxv == 2 ^ tobits - 1
      step(st, v) ==
        LET acc1 == (st.acc * (2 ^ frombits) + v) % (2 ^ (frombits + tobits - 1))
            b1 == st.bits + frombits
        IN IF b1 >= 2 * tobits
           THEN [acc |-> acc1, bits |-> b1 - 2 * tobits,
                 out |-> st.out \o <<(acc1 \div (2 ^ (b1 - tobits))) % (2 ^ tobits), (acc1 \div (2 ^ (b1 - 2 * tobits))) % (2 ^ tobits)>>]
           ELSE IF b1 >= tobits
           THEN [acc |-> acc1, bits |-> b1 - tobits, out |-> Append(st.out, (acc1 \div (2 ^ (b1 - tobits))) % (2 ^ tobits))]
           ELSE [acc |-> acc1, bits |-> b1, out |-> st.out]
      fin == FoldLeft(step, [acc |-> 0, bits |-> 0, out |-> <<>>], data)
      rest == (fin.acc * (2 ^ (tobits - fin.bits))) % (2 ^ tobits)
  IN IF pad THEN [ok |-> TRUE, out |-> IF fin.bits > 0 THEN Append(fin.out, rest) ELSE fin.out]
     ELSE IF fin.bits >= frombits \/ rest # 0 THEN [ok |-> FALSE, out |-> <<>>]
     ELSE [ok |-> TRUE, out |-> fin.out]
ByteSyms == {0, 1, 8, 127, 128, 255}
FiveSyms == {0, 1, 2, 4, 8, 15, 16, 31}
BitsInit == c \in [f : {"b8", "b5"}, x : {<<>>}]
BitsNext == /\ Len(c.x) < MaxBits
            /\ \E s \in (IF c.f = "b8" THEN ByteSyms ELSE FiveSyms) : c' = [c EXCEPT !.x = Append(c.x, s)]
BitsLemma ==
  /\ c.f = "b8" => LET d == To5(c.x) IN
       /\ Len(d) = (8 * Len(c.x) + 4) \div 5 /\ \A i \in DOMAIN d : d[i] \in 0..31
       /\ To8(d) = [ok |-> TRUE, why |-> "", bytes |-> c.x]
       /\ ConvAcc(c.x, 8, 5, TRUE) = [ok |-> TRUE, out |-> d]
  /\ c.f = "b5" => LET r == To8(c.x)  a == ConvAcc(c.x, 5, 8, FALSE) IN
       /\ r.ok = a.ok /\ r.bytes = a.out
       /\ r.ok => To5(r.bytes) = c.x
       \* a non-canonical encoding of the same bytes is never accepted
       /\ (Len(c.x) > 0 /\ ~r.ok /\ r.why = "padding-nonzero") =>
             To8([c.x EXCEPT ![Len(c.x)] = (c.x[Len(c.x)] \div (2 ^ ((5 * Len(c.x)) % 8))) * (2 ^ ((5 * Len(c.x)) % 8))]).ok
\* ---------------------------------------------------------------- subst
Strs == << Bech32Encode(<<97>>, <<>>, BECH32),                             \* a12uel5l (BIP173)
           Bech32Encode(<<63>>, <<>>, BECH32M),                            \* ?1v759aa (BIP350)
           SegwitRaw(<<98, 99>>, 16, <<117, 30>>),                         \* bc1sw50qgdz25j (BIP350)
           SegwitRaw(<<116, 98>>, 0, Pattern(20, 3)),
           SegwitRaw(<<98, 99>>, 1, Pattern(32, 4)) >>
SepPos(s) == CHOOSE i \in DOMAIN s : s[i] = 49 /\ \A j \in (i + 1)..Len(s) : s[j] # 49
\* e: sequence of <<position in the data part, xor value 1..31>>
Corrupt(s, e) == LET sp == SepPos(s) IN
  [i \in DOMAIN s |-> IF \E k \in DOMAIN e : e[k][1] = i - sp
                      THEN LET k == CHOOSE k \in DOMAIN e : e[k][1] = i - sp
                           IN Charset[(SymOf(s[i]) ^^ e[k][2]) + 1]
                      ELSE s[i]]
DataLen(s) == Len(s) - SepPos(s)
SubInit == \/ c \in [f : {"sub"}, k : 1..NStr, e : {<<>>}]
           \/ \E k \in 1..NStr : \E i \in DOMAIN Strs[k] : \E ch \in 33..126 :
                 ch # Strs[k][i] /\ c = [f |-> "chr", k |-> k, i |-> i, ch |-> ch]
SubNext == /\ c.f = "sub" /\ Len(c.e) < 2
           /\ \E i \in 1..DataLen(Strs[c.k]), a \in 1..31 :
                 /\ (c.e # <<>> => i > c.e[Len(c.e)][1])
                 /\ c' = [c EXCEPT !.e = Append(c.e, <<i, a>>)]
Detected12 ==
  /\ (c.f = "sub" /\ c.e # <<>>) => Bech32Decode(Corrupt(Strs[c.k], c.e)).why = "checksum"
  /\ (c.f = "sub" /\ c.e = <<>>) => Bech32Decode(Strs[c.k]).ok
  /\ c.f = "chr" => ~Bech32Decode([Strs[c.k] EXCEPT ![c.i] = c.ch]).ok
\* ---------------------------------------------------------------- affine
XorSeq(a, b) == [i \in DOMAIN a |-> a[i] ^^ b[i]]
Zs(n) == [i \in 1..n |-> 0]
\* the reduction selected by the 5 bits shifted out of the register
Red(top) == PolymodStep(top * Two25, 0)
ASSUME RedAdditive == \A t1 \in 0..31, t2 \in 0..31 : Red(t1 ^^ t2) = Red(t1) ^^ Red(t2)
ASSUME RedIsGen == \A i \in 0..4 : Red(2 ^ i) = GEN[i + 1]
ASSUME GenFits == \A i \in 1..5 : GEN[i] < 2 ^ 30
\* step(c, v) = shift(low 25 bits) xor v xor Red(top 5 bits): each part additive, so step is
RegSamples == {2 ^ k : k \in 0..29} \cup {0, 2 ^ 30 - 1, BECH32M, GEN[1], GEN[5], 123456789, 987654321}
ASSUME StepSplits == \A r \in RegSamples, v \in {0, 1, 31} :
                        PolymodStep(r, v) = (((r % Two25) * 32) ^^ v) ^^ Red(r \div Two25)
LongWord(n, k) == [i \in 1..n |-> ((i * i * (2 * k + 1) + 7 * i * k + k) % 64) \div 2]
AffInit == \/ c \in [f : {"aff"}, a : {<<>>}, b : {<<>>}]
           \/ \E k1 \in 1..6, k2 \in 1..6, n \in {39, 71, 89} : c = [f |-> "afl", a |-> LongWord(n, k1), b |-> LongWord(n, k2 + 6)]
AffNext == /\ c.f = "aff" /\ Len(c.a) < 3
           /\ \E s \in {0, 1, 2, 16, 31}, t \in {0, 1, 2, 16, 31} : c' = [c EXCEPT !.a = Append(c.a, s), !.b = Append(c.b, t)]
Affine == c.f \in {"aff", "afl"} =>
            /\ Polymod(XorSeq(c.a, c.b)) = (Polymod(c.a) ^^ Polymod(c.b)) ^^ Polymod(Zs(Len(c.a)))
            /\ PolyLin(XorSeq(c.a, c.b)) = PolyLin(c.a) ^^ PolyLin(c.b)
            /\ Polymod(c.a) = PolyLin(c.a) ^^ Polymod(Zs(Len(c.a)))
            /\ PolyLin(Zs(Len(c.a))) = 0

Init == CASE Fam = "roundtrip" -> RtInit [] Fam = "bits" -> BitsInit [] Fam = "subst" -> SubInit [] OTHER -> AffInit
Next == CASE Fam = "roundtrip" -> RtNext [] Fam = "bits" -> BitsNext [] Fam = "subst" -> SubNext [] OTHER -> AffNext
Spec == Init /\ [][Next]_vars
Lemma == CASE Fam = "roundtrip" -> RoundTrip [] Fam = "bits" -> BitsLemma [] Fam = "subst" -> Detected12 [] OTHER -> Affine
=============================================================================
