CONSTANTS Configs <- ConfigsSmall  Pool <- PoolSmall  MaxAdds = 3
          RConfigs <- ConfigsReplayQ  Pool2 <- OpPoolSmall  FreeLen = 3  WithScripts = TRUE
SPECIFICATION RSpec
INVARIANTS BTypeOK AtMost
CHECK_DEADLOCK FALSE
