\* weighted forests on 4 headers (a heavier orphan branch must win after it connects)
CONSTANTS N = 4  W = 2  MaxAdd = 3  MaxLock = 0  AllowDup = FALSE
          MeldInterior = TRUE  SkipLocked = TRUE  KeepOnLock = TRUE
SPECIFICATION RSpec
CHECK_DEADLOCK FALSE
