CONSTANTS Mode = "armour" MaxLines = 3 MarkerLines = FALSE MaxLen = 0 Prefixed = TRUE
SPECIFICATION Spec
INVARIANT Holds
CHECK_DEADLOCK FALSE
