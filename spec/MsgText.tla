------------------------------ MODULE MsgText ------------------------------
(* The TEXT side of Bitcoin "signed messages" (C17), written from the rule   *)
(* book, not from pycoin:                                                    *)
(*   - the digest  H256d( VarBytes(magic_N) ++ VarBytes(utf8(msg)) )         *)
(*     (Bitcoin Core: MessageHash, `CHashWriter << MESSAGE_MAGIC << msg`,    *)
(*     both serialised as compact-size-prefixed strings; altcoins replace    *)
(*     the network name inside the magic);                                   *)
(*   - the 65-byte compact signature  header || r || s  (key.cpp SignCompact *)
(*     / pubkey.cpp RecoverCompact: header = 27 + recid + 4*compressed) and  *)
(*     its base64 text (RFC 4648);                                           *)
(*   - the armoured text form (Inputs.IO / Multibit style, after RFC 2440    *)
(*     section 7) as a LINE STATE MACHINE: Format / ParseSigned.             *)
(* No elliptic-curve arithmetic here (see MsgSign.tla).                      *)
(*                                                                           *)
(* A TEXT is a sequence of Unicode scalar values (integers); a BYTE STRING a *)
(* sequence of 0..255; base64 text a sequence of one-character strings.      *)
(* Hashes are uninterpreted terms [op |-> "h256d", arg |-> <<pieces>>]       *)
(* finished by the stdlib evaluator of the harness (limitation L1).          *)
EXTENDS Integers, Sequences, SequencesExt, FiniteSets, TLC

Byte == 0..255
\* Let1({ e(v) : v \in {a} }) is "LET v == a IN e(v)" with a evaluated ONCE (TLC re-evaluates a LET
\* definition or an operator argument at every use when it checks invariants).
Let1(S) == CHOOSE v \in S : TRUE

(* ===================================================================== UTF-8 *)
\* RFC 3629.  Surrogates are not scalar values and have no encoding.
IsScalar(c) == c \in 0..1114111 /\ c \notin 55296..57343
Utf8(c) == IF c < 128 THEN <<c>>
           ELSE IF c < 2048 THEN <<192 + c \div 64, 128 + (c % 64)>>
           ELSE IF c < 65536 THEN <<224 + c \div 4096, 128 + ((c \div 64) % 64), 128 + (c % 64)>>
           ELSE <<240 + c \div 262144, 128 + ((c \div 4096) % 64), 128 + ((c \div 64) % 64), 128 + (c % 64)>>
Utf8Len(c) == IF c < 128 THEN 1 ELSE IF c < 2048 THEN 2 ELSE IF c < 65536 THEN 3 ELSE 4
Utf8Text(t) == FlattenSeq([i \in 1..Len(t) |-> Utf8(t[i])])

\* a RUN TEXT is a sequence of <<scalar, count>> (count >= 1): "a" * 70000 is one run.
\* (canonical: adjacent runs have different scalars, so equal texts are equal run texts)
RunText(t) == FoldLeft(LAMBDA acc, ch : IF acc # <<>> /\ acc[Len(acc)][1] = ch
                                         THEN [acc EXCEPT ![Len(acc)] = <<ch, @[2] + 1>>]
                                         ELSE Append(acc, <<ch, 1>>), <<>>, t)
RunBytes(rt) == FoldLeft(LAMBDA acc, r : acc + r[2] * Utf8Len(r[1]), 0, rt)
RunChars(rt) == FoldLeft(LAMBDA acc, r : acc + r[2], 0, rt)
ExpandRuns(rt) == FlattenSeq([i \in 1..Len(rt) |-> [j \in 1..rt[i][2] |-> rt[i][1]]])

(* ============================================================== compact size *)
\* Bitcoin's variable-length integer (serialize.h WriteCompactSize), n < 2^31
CompactSize(n) == IF n < 253 THEN <<n>>
                  ELSE IF n <= 65535 THEN <<253, n % 256, n \div 256>>
                  ELSE <<254, n % 256, (n \div 256) % 256, (n \div 65536) % 256, n \div 16777216>>
VarBytes(bs) == CompactSize(Len(bs)) \o bs

(* ================================================================ the digest *)
\* " Signed Message:\n"
MagicSuffix == <<32, 83,105,103,110,101,100, 32, 77,101,115,115,97,103,101, 58, 10>>
\* name: the network's name as bytes ("Bitcoin" -> the standard magic "Bitcoin Signed Message:\n")
MagicFor(name) == name \o MagicSuffix
\* the flat preimage (short messages; used by the lemmas)
Preimage(magic, msgbytes) == VarBytes(magic) \o VarBytes(msgbytes)
\* the same as an uninterpreted term over a run text
TLit(bs) == [op |-> "b", v |-> bs]
TRep(bs, n) == [op |-> "rep", v |-> bs, n |-> n]
DigestTerm(name, rt) ==
  [op |-> "h256d",
   arg |-> << TLit(VarBytes(MagicFor(name))), TLit(CompactSize(RunBytes(rt))) >>
           \o [i \in 1..Len(rt) |-> IF rt[i][2] = 1 THEN TLit(Utf8(rt[i][1])) ELSE TRep(Utf8(rt[i][1]), rt[i][2])]]
\* "Bitcoin"
NameBitcoin == <<66,105,116,99,111,105,110>>
\* the pinned standard form: 0x18 "Bitcoin Signed Message:\n"
StdMagicPinned == VarBytes(MagicFor(NameBitcoin)) =
   <<24, 66,105,116,99,111,105,110, 32, 83,105,103,110,101,100, 32, 77,101,115,115,97,103,101, 58, 10>>

(* ==================================================================== base64 *)
B64Chars == << "A","B","C","D","E","F","G","H","I","J","K","L","M","N","O","P","Q","R","S","T","U","V","W","X","Y","Z",
               "a","b","c","d","e","f","g","h","i","j","k","l","m","n","o","p","q","r","s","t","u","v","w","x","y","z",
               "0","1","2","3","4","5","6","7","8","9","+","/" >>
B64Sym(v) == B64Chars[v + 1]
\* RFC 4648 section 4: 3 bytes -> 4 sextets; 1 or 2 trailing bytes -> "==" or "=" padding
B64Group(a, b, c) == << a \div 4, (a % 4) * 16 + b \div 16, (b % 16) * 4 + c \div 64, c % 64 >>
B64Encode(bs) ==
  LET n == Len(bs)  full == n \div 3  rem == n % 3
      body == FlattenSeq([q \in 1..full |-> LET g == B64Group(bs[3*q - 2], bs[3*q - 1], bs[3*q])
                                            IN <<B64Sym(g[1]), B64Sym(g[2]), B64Sym(g[3]), B64Sym(g[4])>>])
      tail == IF rem = 0 THEN <<>>
              ELSE IF rem = 1 THEN LET g == B64Group(bs[n], 0, 0) IN <<B64Sym(g[1]), B64Sym(g[2]), "=", "=">>
              ELSE LET g == B64Group(bs[n - 1], bs[n], 0) IN <<B64Sym(g[1]), B64Sym(g[2]), B64Sym(g[3]), "=">>
  IN body \o tail
\* a sequence of one-character strings as one string (for export)
Str(cs) == FoldLeft(LAMBDA acc, c : acc \o c, "", cs)

B64Set == {B64Chars[i] : i \in 1..64}
B64Val == [c \in B64Set |-> (CHOOSE i \in 1..64 : B64Chars[i] = c) - 1]
B64Index(c) == IF c \in B64Set THEN B64Val[c] ELSE 0 - 1
\* Strict decoding (RFC 4648 sections 3.3, 3.5) as a character machine: acc holds nb (< 8) pending bits.
\* Only alphabet characters, "=" only at the end, length a multiple of 4, the padding completes the
\* last group, pending bits zero.  Result [ok, v].
B64Start == [acc |-> 0, nb |-> 0, out |-> <<>>, pad |-> 0, bad |-> FALSE, n |-> 0]
B64Step(st, c) ==
  IF st.bad THEN st
  ELSE IF c = "=" THEN [st EXCEPT !.pad = @ + 1, !.n = @ + 1]
  ELSE IF st.pad > 0 \/ c \notin B64Set THEN [st EXCEPT !.bad = TRUE]
  ELSE IF st.nb = 0 THEN [st EXCEPT !.acc = B64Val[c], !.nb = 6, !.n = @ + 1]
  ELSE LET v == st.acc * 64 + B64Val[c]
           keep == IF st.nb = 6 THEN 16 ELSE IF st.nb = 4 THEN 4 ELSE 1        \* 2^(nb + 6 - 8)
       IN [st EXCEPT !.acc = v % keep, !.nb = st.nb - 2, !.out = Append(@, v \div keep), !.n = @ + 1]
B64Decode(cs) ==
  Let1({ IF /\ ~st.bad /\ st.n % 4 = 0 /\ st.acc = 0
            /\ st.pad = (IF st.nb = 4 THEN 2 ELSE IF st.nb = 2 THEN 1 ELSE 0) /\ st.nb # 6
         THEN [ok |-> TRUE, v |-> st.out] ELSE [ok |-> FALSE, v |-> <<>>]
         : st \in {FoldLeft(B64Step, B64Start, cs)} })

(* ======================================================== compact signatures *)
\* header byte: 27 + recovery id (0..3) + 4 if the signer's public key is used in compressed form
HeaderByte(recid, comp) == 27 + recid + (IF comp THEN 4 ELSE 0)
HeaderOk(h) == h \in 27..34
HeaderRecid(h) == (h - 27) % 4
HeaderComp(h) == (h - 27) \div 4 = 1
\* a small natural (< 2^31) as 32 big-endian bytes
BE32(v) == [i \in 1..32 |-> IF i <= 28 THEN 0
                             ELSE IF i = 29 THEN v \div 16777216
                             ELSE IF i = 30 THEN (v \div 65536) % 256
                             ELSE IF i = 31 THEN (v \div 256) % 256 ELSE v % 256]
\* value of the 32 big-endian bytes bs[o+1..o+32] when it is below 2^31, else -1 ("huge")
BEValAt(bs, o) == IF (\E i \in 1..28 : bs[o + i] # 0) \/ bs[o + 29] >= 128 THEN 0 - 1
                  ELSE bs[o + 29] * 16777216 + bs[o + 30] * 65536 + bs[o + 31] * 256 + bs[o + 32]
BEVal(bs) == BEValAt(bs, 0)
Compact(h, rb, sb) == <<h>> \o rb \o sb                       \* 1 + 32 + 32 bytes
CompactText(recid, comp, r, s) == B64Encode(Compact(HeaderByte(recid, comp), BE32(r), BE32(s)))

(* ============================================================ armoured text *)
LF == 10   CR == 13   SP == 32   COLON == 58
D5 == <<45,45,45,45,45>>                                       \* -----
TBegin == <<66,69,71,73,78>>                                   \* BEGIN
TEnd == <<69,78,68>>                                           \* END
TSignedMessage == <<83,73,71,78,69,68, 32, 77,69,83,83,65,71,69>>   \* SIGNED MESSAGE
TSignature == <<83,73,71,78,65,84,85,82,69>>                   \* SIGNATURE
TAddress == <<97,100,100,114,101,115,115>>                     \* address
UpperAscii(t) == [i \in 1..Len(t) |-> IF t[i] \in 97..122 THEN t[i] - 32 ELSE t[i]]
LowerAscii(t) == [i \in 1..Len(t) |-> IF t[i] \in 65..90 THEN t[i] + 32 ELSE t[i]]

HeaderLine(NAME) == D5 \o TBegin \o <<SP>> \o NAME \o <<SP>> \o TSignedMessage \o D5
SigMarkLine      == D5 \o TBegin \o <<SP>> \o TSignature \o D5
FooterLine(NAME) == D5 \o TEnd \o <<SP>> \o NAME \o <<SP>> \o TSignedMessage \o D5

\* -----BEGIN <NAME> SIGNED MESSAGE----- / message / -----BEGIN SIGNATURE----- / address / signature /
\* -----END <NAME> SIGNED MESSAGE-----   (envelope lines are LF-terminated, none after the footer)
Format(NAME, msg, addr, sig) ==
  HeaderLine(NAME) \o <<LF>> \o msg \o <<LF>> \o SigMarkLine \o <<LF>> \o addr \o <<LF>> \o sig \o <<LF>> \o FooterLine(NAME)

StartsWith(l, pre) == Len(l) >= Len(pre) /\ SubSeq(l, 1, Len(pre)) = pre
EndsWith(l, suf) == Len(l) >= Len(suf) /\ SubSeq(l, Len(l) - Len(suf) + 1, Len(l)) = suf
HasSub(l, sub) == \E i \in 1..(Len(l) - Len(sub) + 1) : SubSeq(l, i, i + Len(sub) - 1) = sub
\* any line ending in "SIGNED MESSAGE-----" opens the message (junk in front of it is ignored)
IsHeaderLine(l) == EndsWith(l, TSignedMessage \o D5)
\* "-----BEGIN SIGNATURE-----" or "-----BEGIN <CAPS AND SPACES>SIGNATURE-----" (Multibit: BEGIN BITCOIN SIGNATURE)
IsSigMark(l) == LET pre == D5 \o TBegin \o <<SP>>  suf == TSignature \o D5 IN
                /\ Len(l) >= Len(pre) + Len(suf) /\ StartsWith(l, pre) /\ EndsWith(l, suf)
                /\ \A i \in (Len(pre) + 1)..(Len(l) - Len(suf)) : l[i] \in 65..90 \/ l[i] = SP

HasCRLF(t) == \E i \in 1..(Len(t) - 1) : t[i] = CR /\ t[i + 1] = LF
\* every CR LF pair becomes LF
DropCR(t) == FoldLeft(LAMBDA acc, i : IF t[i] = CR /\ i < Len(t) /\ t[i + 1] = LF THEN acc ELSE Append(acc, t[i]),
                      <<>>, [i \in 1..Len(t) |-> i])
\* k separators -> k + 1 lines
SplitOn(t, sep) == FoldLeft(LAMBDA acc, c : IF c = sep THEN Append(acc, <<>>) ELSE [acc EXCEPT ![Len(acc)] = Append(@, c)],
                            << <<>> >>, t)
JoinLines(ls, nl) == FlattenSeq([i \in 1..Len(ls) |-> IF i = 1 THEN ls[i] ELSE nl \o ls[i]])

WS == {9, 10, 11, 12, 13, 32}
RECURSIVE LStrip(_)
LStrip(l) == IF l # <<>> /\ l[1] \in WS THEN LStrip(Tail(l)) ELSE l
RECURSIVE RStrip(_)
RStrip(l) == IF l # <<>> /\ l[Len(l)] \in WS THEN RStrip(SubSeq(l, 1, Len(l) - 1)) ELSE l
Strip(l) == RStrip(LStrip(l))

\* ---- the line machine.  pre: before the header; body: message lines; hdr: after the signature marker
PInit == [mode |-> "pre", body |-> <<>>, hdr |-> <<>>]
PStep(st, l) ==
  CASE st.mode = "pre"  -> IF IsHeaderLine(l) THEN [st EXCEPT !.mode = "body"] ELSE st
    [] st.mode = "body" -> \* the line right after the header is always message text (an empty message is one empty line)
                           IF Len(st.body) >= 1 /\ IsSigMark(l) THEN [st EXCEPT !.mode = "hdr"]
                           ELSE [st EXCEPT !.body = Append(@, l)]
    [] st.mode = "hdr"  -> \* a second marker: the text quotes a signed message; outside this spec's domain
                           IF IsSigMark(l) THEN [st EXCEPT !.mode = "ambiguous"] ELSE [st EXCEPT !.hdr = Append(@, l)]
    [] OTHER -> st

\* the trailer is read like mail headers: blank lines ignored, lines trimmed, "Label: value" lines skipped
\* except "Address:", the first plain line is the address; the line before the END line is the signature
ColonAt(l) == CHOOSE i \in 1..Len(l) : l[i] = COLON /\ \A j \in 1..(i - 1) : l[j] # COLON
RECURSIVE AddrFrom(_, _)
AddrFrom(H, i) ==
  IF i > Len(H) THEN <<>>
  ELSE LET l == H[i] IN
       IF StartsWith(l, D5 \o TEnd) THEN <<>>
       ELSE IF \E j \in 1..Len(l) : l[j] = COLON
            THEN LET c == ColonAt(l)
                     label == Strip(SubSeq(l, 1, c - 1))
                     rest == SubSeq(l, c + 1, Len(l))
                     val == IF \E j \in 1..Len(rest) : rest[j] = COLON THEN SubSeq(rest, 1, ColonAt(rest) - 1) ELSE rest
                 IN IF LowerAscii(label) = TAddress THEN Strip(val) ELSE AddrFrom(H, i + 1)
            ELSE l
PErr == [ok |-> FALSE, msg |-> <<>>, addr |-> <<>>, sig |-> <<>>]
PFinish(st, dos) ==
  IF st.mode # "hdr" THEN PErr
  ELSE LET H == SelectSeq([i \in 1..Len(st.hdr) |-> Strip(st.hdr[i])], LAMBDA x : x # <<>>) IN
       IF Len(H) < 2 THEN PErr
       ELSE IF ~HasSub(H[Len(H)], D5 \o TEnd) THEN PErr
       ELSE LET sig == H[Len(H) - 1]  addr == AddrFrom(H, 1) IN
            IF addr = <<>> \/ addr = sig THEN PErr
            ELSE [ok |-> TRUE, msg |-> JoinLines(st.body, IF dos THEN <<CR, LF>> ELSE <<LF>>), addr |-> addr, sig |-> sig]

\* A text that contains CR LF anywhere is in DOS style: every CR LF is one line break and the
\* message is returned with CR LF breaks; otherwise lines end at LF.
ParseSigned(t) ==
  LET dos == HasCRLF(t)
      u == IF dos THEN DropCR(t) ELSE t
  IN PFinish(FoldLeft(PStep, PInit, SplitOn(u, LF)), dos)

\* ---- the domain of the round-trip clause
\* message = lines without CR/LF joined by ONE style (LF or CR LF); no line is a signature marker
CleanLine(l) == (\A i \in 1..Len(l) : l[i] # CR /\ l[i] # LF) /\ ~IsSigMark(l)
MsgDomain(ls) == Len(ls) >= 1 /\ \A i \in 1..Len(ls) : CleanLine(ls[i])
\* address / signature tokens: non-empty, no blanks, no colon, not an END line, different from each other
TokenOk(x) == x # <<>> /\ (\A i \in 1..Len(x) : x[i] \notin WS /\ x[i] # COLON) /\ ~StartsWith(x, D5 \o TEnd)
RoundTrip(NAME, ls, nl, addr, sig) ==
  LET m == JoinLines(ls, nl) IN
  ParseSigned(Format(NAME, m, addr, sig)) = [ok |-> TRUE, msg |-> m, addr |-> addr, sig |-> sig]
=============================================================================
