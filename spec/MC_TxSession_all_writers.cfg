CONSTANTS CacheMode = "all_writers"  MaxOuts = 4
SPECIFICATION SSpec
INVARIANTS HistoryIndependent Shape MemoRight
CHECK_DEADLOCK FALSE
