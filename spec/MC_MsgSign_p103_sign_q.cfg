CONSTANTS P = 103  A = 0  B = 5  Gx = 2  Gy = 42  N = 97  Mode = "sign"  RMax = 0
CONSTANT ESet <- ETwo
CONSTANT SSet <- SFew
CONSTANT DSet <- DThree
SPECIFICATION Spec
INVARIANT Holds
CHECK_DEADLOCK FALSE
