CONSTANTS P = 1019  A = 1  B = 24  Gx = 1  Gy = 364  N = 1009  Scope = "points"  Iterated = FALSE
SPECIFICATION Spec
INVARIANT GroupLaw
CHECK_DEADLOCK FALSE
