CONSTANTS MaxOps = 3  MaxEdit = 1  MaxSetLook = 1  Univ = 3  Ops <- OpsAll
          EditKinds <- KindsAll  LookKinds <- LKindsAll  FillSet <- SAll  ValSet <- SAll
          Ids <- MCIds  SegIds <- MCSegIds  NOut <- MCNOut  Confs <- MCConfsQ  Spenders <- MCSp
          BadFileRaises <- No  OobIndexError <- No
INIT MInit
NEXT MNext
VIEW MViewM
INVARIANTS TypeOK AnswerIsAsked WrittenThrough PutThenGet FilledRight ValidatedRight AskAgainSame
PROPERTIES PMissWritesNothing PReadOnlyKept PGetWritesOnlyAsked
CHECK_DEADLOCK FALSE
