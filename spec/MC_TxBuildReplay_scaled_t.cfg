CONSTANTS Variant = "std"  MaxSum = 7  MaxIns = 2  MaxPays = 4  MaxFee = 2
          ScaleKs = {12}  ScaleRs = {0}
          SrcPatterns = {"own"}  ToPatterns = {"distinct"}
          EmitScaled = TRUE
SPECIFICATION RSpec
INVARIANTS DoneIsBuild OutcomeOK
CHECK_DEADLOCK FALSE
