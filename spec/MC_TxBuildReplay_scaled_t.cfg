CONSTANTS Variant = "std"  MaxSum = 9  MaxIns = 2  MaxPays = 4  MaxFee = 3
          ScaleKs = {12}  ScaleRs = {0}
          SrcPatterns = {"own"}  ToPatterns = {"distinct"}
          EmitScaled = TRUE
SPECIFICATION RSpec
INVARIANTS DoneIsBuild OutcomeOK
CHECK_DEADLOCK FALSE
