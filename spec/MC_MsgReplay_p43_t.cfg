CONSTANTS P = 43  A = 0  B = 7  Gx = 2  Gy = 12  N = 31  WithText = TRUE
CONSTANTS DSet <- DAll  ESet <- EFew  KSet <- KAll  HSet <- HAll  RSet <- RAll  SSet <- SAll  ERSet <- ETwo
SPECIFICATION Spec
CHECK_DEADLOCK FALSE
