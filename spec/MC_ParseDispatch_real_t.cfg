CONSTANTS Generic = {"*"}  Table = "real"  Mode = "cases"
SPECIFICATION Spec
INVARIANTS GridOk
CHECK_DEADLOCK FALSE
