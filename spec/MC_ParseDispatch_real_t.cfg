CONSTANTS Generic = {"*"}  Table = "real"  Mode = "cases"
SPECIFICATION Spec
INVARIANTS GridOk FaithfulOk ApartOk
CHECK_DEADLOCK FALSE
