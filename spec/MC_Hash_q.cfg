CONSTANTS Lens = {0, 1, 2, 3, 55, 56, 57, 63, 64, 65, 119, 120, 121, 128, 200}
          Fills = {"zero", "ones", "x80", "mix"}
          Pipes = {"ripemd160", "hash160", "double_sha256"}  WithVectors = TRUE
INIT Init
NEXT Next
INVARIANTS PadOK PadPrefix HTypeOK
CHECK_DEADLOCK FALSE
