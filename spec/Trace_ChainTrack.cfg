CONSTANTS N = 8  W = 9
SPECIFICATION TSpec
CONSTRAINT Reached
POSTCONDITION Post
CHECK_DEADLOCK FALSE
