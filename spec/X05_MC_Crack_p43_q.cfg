CONSTANTS P = 43  A = 0  B = 7  Gx = 2  Gy = 12  N = 31
          DS = {1, 30}  KS = {1, 2, 3, 4, 5, 6, 7, 8, 9, 10, 11, 12, 13, 14, 15, 16, 17, 18, 19, 20, 21, 22, 23, 24, 25, 26, 27, 28, 29, 30}
          Z1 = {1, 2, 15, 16, 30, 31}
          Z2 = {1, 2, 15, 16, 17, 29, 30, 31}  D2 = {2, 29}
          OS1 = {}  DeepD = {}  M = 40  Dealers = 32
SPECIFICATION Spec
INVARIANTS LemmasHold TablesOk
CHECK_DEADLOCK FALSE
