SPECIFICATION Spec
CONSTANTS
  Distribute <- BadDistribute
  Tier = "deva"
  Phase = "cases"
  Mutant = "none"
INVARIANTS
  Order
  Conservation
  ReportTrue
  OnlyNamedPaid
  EditsLocal
  Aligned
  RoundTrip
  SignHintOK
  StagesAgree
CHECK_DEADLOCK FALSE
