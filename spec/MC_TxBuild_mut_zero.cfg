CONSTANTS Variant = "zero"  MaxSum = 5  MaxIns = 1  MaxPays = 3  MaxFee = 1
          ScaleKs = {12}  ScaleRs = {0}
SPECIFICATION Spec
INVARIANTS BuildOK
CHECK_DEADLOCK FALSE
