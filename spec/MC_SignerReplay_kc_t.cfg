CONSTANTS NK = 5  NM = 2  MaxPasses = 5  Mode = "kc"  PruneNoop = FALSE  WithPairs = FALSE
          Cases <- KcCasesT  Shapes <- NoShapes  Coins <- AllCoins  HashTypes <- StdHashTypes
SPECIFICATION RSpec
CHECK_DEADLOCK FALSE
