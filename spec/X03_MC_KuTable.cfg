SPECIFICATION Spec
INVARIANTS Lemmas
CHECK_DEADLOCK FALSE
