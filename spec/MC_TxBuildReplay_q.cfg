CONSTANTS Variant = "std"  MaxSum = 8  MaxIns = 2  MaxPays = 4  MaxFee = 3
          ScaleKs = {12}  ScaleRs = {0}
          SrcPatterns = {"rev", "shared"}  ToPatterns = {"distinct"}
          EmitScaled = FALSE
SPECIFICATION RSpec
INVARIANTS DoneIsBuild OutcomeOK
CHECK_DEADLOCK FALSE
