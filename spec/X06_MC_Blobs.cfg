SPECIFICATION Spec
INVARIANT ClassOk
CHECK_DEADLOCK FALSE
