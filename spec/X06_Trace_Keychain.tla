--------------------------- MODULE X06_Trace_Keychain ---------------------------
(* Code -> spec binding for X06 (2): recorded histories of a real Keychain over *)
(* a real SQLite file (or an in-memory database) in the larger world "x" of    *)
(* X06_KcUniverse (seven roots, three of them related, ten path ranges up to   *)
(* three levels deep, ~100 keys) are checked to be behaviours of X06_Keychain. *)
(* One logged event = one call with what was observed: for a lookup the answer *)
(* (projected to <<"key", key, "prv"|"pub", "c"|"u">>, <<"script", s>>,        *)
(* <<"miss">>), after every call the set of hashes the keychain declares an    *)
(* interest in and has_secrets().  The state is advanced by the spec's own     *)
(* actions; an answer must be one the rule allows NOW.                         *)
(* An answer outside the rule is tolerated only where the state carries one of *)
(* the circumstance tags of X06_Keychain!Tags (the known deviations live       *)
(* there); it is printed as a "dev" record and judged by the harness against   *)
(* the list of known findings.  Anywhere else it rejects the trace.            *)
EXTENDS X06_KcUniverse, X06_Keychain, Json, IOUtils

Progress == IF "X06_PROGRESS" \in DOMAIN IOEnv THEN IOEnv.X06_PROGRESS = "1" ELSE FALSE
No == FALSE
Both == BOOLEAN
Traces == JsonDeserialize(IOEnv.TRACE_FILE)
ASSUME PrintT(ToJson([k |-> "hdr", n |-> Len(Traces)]))

VARIABLES tid, l, fin
tkvars == <<kvars, tid, l, fin>>
Ev == Traces[tid].ev
Cur == Ev[l]
ToSetOf(s) == {s[j] : j \in 1..Len(s)}

TInit == /\ tid \in 1..Len(Traces) /\ l = 1 /\ fin = FALSE
         /\ KInit /\ backed = Traces[tid].backed

\* the observers, logged after every call
Seen == /\ ToSetOf(Cur.interest) = Interest(reg', scr')
        /\ Cur.hs \in HasSecretsAllowed(sec')
TStep == /\ l' = l + 1 /\ UNCHANGED <<tid, fin>> /\ Seen
        /\ (Progress => PrintT(ToJson([k |-> "step", tid |-> tid, l |-> l])))
Open == l <= Len(Ev) /\ ~fin

TAddPaths == /\ Open /\ Cur.op = "addpaths" /\ AddPaths(Cur.r, Cur.form, Cur.g)
             /\ last'.ok = Cur.ok /\ (Cur.ok => last'.count = Cur.count) /\ TStep
TAddKeysPath == /\ Open /\ Cur.op = "addkeyspath" /\ AddKeysPath(ToSetOf(Cur.rs), Cur.form, Cur.s)
                /\ last'.ok = Cur.ok /\ (Cur.ok => last'.count = Cur.count) /\ TStep
TAddSecrets == Open /\ Cur.op = "addsecrets" /\ AddSecrets(ToSetOf(Cur.cs)) /\ TStep
TClear == Open /\ Cur.op = "clearsecrets" /\ ClearSecrets /\ TStep
TAddScript == Open /\ Cur.op = "addscript" /\ AddScript(Cur.s) /\ TStep
TAddScripts == Open /\ Cur.op = "addscripts" /\ AddScripts(ToSetOf(Cur.ss)) /\ TStep
TCommit == Open /\ Cur.op = "commit" /\ Commit /\ TStep
TReopen == Open /\ Cur.op = "reopen" /\ Reopen /\ TStep
TGet == /\ Open /\ Cur.op = "get" /\ Get(Cur.q)
        /\ \/ Cur.ans \in last'.allowed
           \/ /\ Cur.ans \notin last'.allowed /\ last'.tags # {}
              /\ PrintT(ToJson([k |-> "dev", tid |-> tid, l |-> l, q |-> Cur.q, allowed |-> last'.allowed,
                                tags |-> last'.tags, ans |-> Cur.ans]))
        /\ TStep
TDone == /\ l = Len(Ev) + 1 /\ ~fin /\ fin' = TRUE
         /\ UNCHANGED <<kvars, tid, l>>
         /\ PrintT(ToJson([k |-> "acc", tid |-> tid]))
TNext == TAddPaths \/ TAddKeysPath \/ TAddSecrets \/ TClear \/ TAddScript \/ TAddScripts \/ TCommit \/ TReopen \/ TGet \/ TDone
TSpec == TInit /\ [][TNext]_tkvars
=============================================================================
