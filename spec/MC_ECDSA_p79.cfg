CONSTANTS P = 79  A = 0  B = 3  Gx = 1  Gy = 2  N = 97
          ZSet = {1, 2, 50, 96, 97, 98}  ZDeep = {97}
SPECIFICATION Spec
INVARIANT ECDSALemmas
CHECK_DEADLOCK FALSE
