CONSTANTS P = 79  A = 0  B = 3  Gx = 1  Gy = 2  N = 97
          ZSet = {97}  ZDeep = {}
SPECIFICATION Spec
INVARIANT ECDSALemmas
CHECK_DEADLOCK FALSE
