CONSTANTS P = 103  A = 0  B = 5  Gx = 2  Gy = 42  N = 97
          SecLens <- LensQ
          Stage = "pubrep"
          SecPfx = {4}  SecXs = {0}  SecYs = {0}  SecLongYs = {0} DerPos <- PosNone  DerExt <- One0  DerExtLen = 0
SPECIFICATION Spec
INVARIANT NoBad
CHECK_DEADLOCK FALSE
