---------------------------- MODULE MC_C11Replay ----------------------------
(* Spec -> code binding for C11.  TLC enumerates the cases of one family       *)
(* (constant Mode) and prints, for each, the input and the outcome that        *)
(* Base58.tla / Bech32.tla demand; harness/vf/props/c11.py runs every case on  *)
(* pycoin and compares.  One state = one case; `out` is the printed record.    *)
(*                                                                             *)
(*  "b58"    byte strings over {0,1,57,58,255} (all, up to MaxLen), character  *)
(*           strings over alphabet and non-alphabet characters (all, up to     *)
(*           MaxText), long inputs 0^z ++ pattern: Enc58 / Dec58; byte strings *)
(*           of several hundred bytes (lengths next to powers of two and next  *)
(*           to text lengths 256 / 512, without, with one, with mostly and     *)
(*           with only leading zeros)                                          *)
(*  "terms"  the checksum terms First4(SHA256d(payload)) of the payload list   *)
(*  "b58c"   Base58Check of the payload list (checksums supplied by the        *)
(*           evaluator in C11_H4_FILE) and corruptions: every checksum byte    *)
(*           flipped, characters substituted (inside and outside the alphabet),*)
(*           payload bytes flipped, truncation/extension.  Where the verdict   *)
(*           depends on a hash of NEW data the record carries the term and     *)
(*           exp = "iff": accept iff cks = value(term)                         *)
(*  "seg"    (hrp, version symbol 0..17 and 31, length 0..42, pattern): what   *)
(*           encode must return and what decode must say about the raw string  *)
(*  "corr"   corruptions of valid addresses by class: substitutions, case,     *)
(*           wrong constant, padding, length, version, characters outside the  *)
(*           charset / the printable range (incl. code points beyond ASCII     *)
(*           that Unicode case mapping or width folding sends onto the very    *)
(*           letter they replace, in lower, upper and mixed case strings),     *)
(*           structure, expected-hrp mismatch,                                 *)
(*           1..4 seeded random substitutions; invariant Guarantee states what *)
(*           the BCH code promises for them                                    *)
(*  "bits"   8->5 (padded) and 5->8 (strict) regrouping of all short strings   *)
(*  "vec"    the published vectors (C11_VEC_FILE, taken from pycoin's tests    *)
(*           directory and the BIPs) through the same operators: ground truth  *)
EXTENDS Base58, Bech32, Json, IOUtils, TLC
CONSTANTS Mode, MaxLen, MaxText, LongZ, LongN, NPay, Rich, NPat, NRnd
VARIABLES c, out
vars == <<c, out>>

BPattern(n, p) == [i \in 1..n |-> CASE p = 1 -> 255
                                     [] p = 2 -> (i * 37 + 11) % 256
                                     [] p = 3 -> IF i = n THEN 1 ELSE 0
                                     [] p = 5 -> 0
                                     [] OTHER -> (i * i * 7 + 3 * i + 250) % 256]
PPattern(n, p) == [i \in 1..n |-> CASE p = 1 -> (i * 37 + 11) % 256
                                     [] p = 2 -> 0
                                     [] p = 3 -> 255
                                     [] OTHER -> (i * i * 7 + 3 * i + 250) % 256]
\* ------------------------------------------------------------------ b58
ByteSyms == {0, 1, 57, 58, 255}
CharSyms == {49, 50, 122, 90, 48, 108, 32, 56448} \cup (IF Rich THEN {73, 79, 233} ELSE {})
(* The rule book's ToRadix recurses once per output digit; for inputs of several *)
(* hundred bytes the same schoolbook division is iterated instead (one fold step *)
(* per output digit, bound = an upper bound on their number).  Invariant         *)
(* LongFormAgrees ties it to Enc58 / Dec58 on every state of the "long" grid.    *)
IterRadix(ds, from, to, bound) ==
  LET step(acc, j) == IF acc.s = <<>> THEN acc
                      ELSE LET dm == DivMod(acc.s, from, to) IN [s |-> StripZeros(dm.q), out |-> <<dm.r>> \o acc.out]
  IN FoldLeft(step, [s |-> StripZeros(ds), out |-> <<>>], [j \in 1..bound |-> j]).out
Enc58L(b) == LET z == LeadingZeros(b)                                  \* B2; 58^2 > 256: at most 2 digits per byte
                 ds == Zeros(z) \o IterRadix(SubSeq(b, z + 1, Len(b)), 256, 58, 2 * (Len(b) - z))
             IN [i \in DOMAIN ds |-> Alphabet[ds[i] + 1]]
Dec58L(s) == IF ~Valid58(s) THEN [ok |-> FALSE, b |-> <<>>]            \* B3; 256 > 58: at most 1 byte per digit
             ELSE LET ds == [i \in DOMAIN s |-> DigitOf(s[i])]  z == LeadingZeros(ds)
                  IN [ok |-> TRUE, b |-> Zeros(z) \o IterRadix(SubSeq(ds, z + 1, Len(ds)), 58, 256, Len(ds) - z)]
\* byte lengths next to powers of two, and those whose text is next to 256 / 512 characters
XLens == {186, 187, 188, 255, 256, 257, 370, 371, 374, 375, 376, 511, 512, 513, 1024} \cup (IF Rich THEN {127, 128, 129, 700, 1023, 1025, 2048} ELSE {})
XZeros(n) == {0, 1, n - 9, n}
B58Succ ==
  CASE c.m = "root" -> {[m |-> "enc", x |-> <<>>], [m |-> "dec", x |-> <<>>]}
                       \cup [m : {"long"}, z : 0..LongZ, p : 1..5, n : {0}]
                       \cup UNION {[m : {"xlong"}, n : {n}, z : XZeros(n), p : IF Rich THEN {2, 4} ELSE {4}] : n \in XLens}
    [] c.m = "enc" -> IF Len(c.x) < MaxLen THEN {[c EXCEPT !.x = Append(c.x, s)] : s \in ByteSyms} ELSE {}
    [] c.m = "dec" -> IF Len(c.x) < MaxText THEN {[c EXCEPT !.x = Append(c.x, s)] : s \in CharSyms} ELSE {}
    [] c.m = "long" -> IF c.n < LongN THEN {[c EXCEPT !.n = c.n + 1]} ELSE {}
    [] c.m = "xlong" -> {}
B58Out(cs) ==
  CASE cs.m = "enc" -> [k |-> "b58enc", b |-> cs.x, s |-> Enc58(cs.x)]
    [] cs.m = "long" -> LET b == Zeros(cs.z) \o BPattern(cs.n, cs.p) IN [k |-> "b58enc", b |-> b, s |-> Enc58(b)]
    [] cs.m = "xlong" -> LET b == Zeros(cs.z) \o BPattern(cs.n - cs.z, cs.p) IN [k |-> "b58enc", b |-> b, s |-> Enc58L(b)]
    [] cs.m = "dec" -> LET d == Dec58(cs.x) IN [k |-> "b58dec", s |-> cs.x, ok |-> d.ok, b |-> d.b]
LongFormAgrees == (Mode = "b58" /\ c.m = "long") => /\ Enc58L(out.b) = out.s
                                                    /\ Dec58L(out.s) = Dec58(out.s)
                                                    /\ Dec58L(out.s).b = out.b
\* ------------------------------------------------------------------ b58c
VerPrefixes == << <<>>, <<0>>, <<5>>, <<111>>, <<128>>, <<255>>, <<4, 136, 178, 30>>, <<0, 0>> >>
BodyLens == <<0, 1, 20, 32, 33, 74>>
NCombo == Len(VerPrefixes) * Len(BodyLens) * 3
\* <<payload length, leading zeros>>: payload + 4 checksum bytes next to the byte lengths of the "xlong" grid
LongPays == << <<183, 0>>, <<184, 0>>, <<252, 0>>, <<253, 1>>, <<366, 0>>, <<367, 0>>, <<371, 1>>, <<372, 0>>, <<372, 363>>,
               <<508, 0>>, <<509, 0>>, <<509, 500>>, <<1020, 0>> >>
Payload(i) == IF i <= NCombo
              THEN VerPrefixes[(i - 1) \div 18 + 1] \o BPattern(BodyLens[((i - 1) % 18) \div 3 + 1], ((i - 1) % 3) + 2)
              ELSE IF i <= NCombo + 26 THEN Zeros(i - NCombo - 1)
              ELSE IF i <= NCombo + 30 THEN Zeros(<<32, 33, 40, 64>>[i - NCombo - 26])
              ELSE LET e == LongPays[i - NCombo - 30] IN Zeros(e[2]) \o BPattern(e[1] - e[2], 4)
NPayAll == NCombo + 30 + Len(LongPays)
IsLongPay(i) == i > NCombo + 30
H == JsonDeserialize(IOEnv.C11_H4_FILE)         \* <<[p |-> payload, h4 |-> value of H4Term(payload)], ...>>
HashFor(i) == IF H[i].p = Payload(i) THEN H[i].h4 ELSE Assert(FALSE, <<"hash table does not answer term", i>>)
Valid58Check(i) == Enc58Check(Payload(i), HashFor(i))
Enc58CheckL(p, h4) == Enc58L(p \o h4)           \* B4 with the iterated division
NonAlpha == {48, 79, 73, 108, 32, 43, 47, 233, 8364, 56448}    \* 0 O I l space + / e-acute euro, a lone surrogate
\* positions of a string of length n that are corrupted (all of them when Rich or short)
Positions(n) == IF Rich \/ n <= 40 THEN 1..n ELSE {1, 2, 3, n \div 2, n - 2, n - 1, n} \cap 1..n
AlphaSubs(ch) == LET d == DigitOf(ch) IN
  IF Rich THEN ({Alphabet[((d + j) % 58) + 1] : j \in {1, 2, 3, 7, 19, 29, 39, 51, 55, 56, 57}} \cup {49, 122}) \ {ch}
  ELSE {Alphabet[((d + 1) % 58) + 1], Alphabet[((d + 57) % 58) + 1], 49, 122} \ {ch}
B58cSucc ==
  CASE c.m = "root" -> \* the quick grid keeps the 74-byte bodies for three of the eight prefixes only
                       [m : {"valid"}, i : {i \in 1..NPay : Rich \/ i > NCombo \/ ((i - 1) % 18) < 15 \/ ((i - 1) \div 18) \in {0, 1, 6}}]
    [] c.m = "valid" /\ IsLongPay(c.i) ->
         \* long payloads: the string itself, a wrong checksum byte, a character outside the alphabet
         LET p == Payload(c.i)  h4 == HashFor(c.i)  s == Enc58CheckL(p, h4)
             base == [i |-> c.i, p |-> p, h4 |-> h4, s |-> s, pos |-> 0, d |-> 0, w |-> ""]
         IN {[base EXCEPT !.pos = q, !.d = 1] @@ [m |-> "cks"] : q \in {1, 4}}
            \cup {[base EXCEPT !.pos = q, !.d = ch] @@ [m |-> "sub"] : q \in {1, Len(s) \div 2, Len(s)}, ch \in {48, 8364}}
    [] c.m = "valid" /\ ~IsLongPay(c.i) ->
         LET p == Payload(c.i)  h4 == HashFor(c.i)  s == Enc58Check(p, h4)
             base == [i |-> c.i, p |-> p, h4 |-> h4, s |-> s, pos |-> 0, d |-> 0, w |-> ""]
         IN {[base EXCEPT !.pos = q, !.d = d] @@ [m |-> "cks"] : q \in 1..4, d \in {1, 128, 255}}
            \cup UNION {{[base EXCEPT !.pos = q, !.d = ch] @@ [m |-> "sub"] : ch \in AlphaSubs(s[q]) \cup NonAlpha} : q \in Positions(Len(s))}
            \cup {[base EXCEPT !.pos = n] @@ [m |-> "trunc"] : n \in {0, 1, 2, 3, 4, 5, Len(s) - 1} \cap 0..(Len(s) - 1)}
            \cup {[base EXCEPT !.w = w] @@ [m |-> "ext"] : w \in {"lead1", "trail1", "trailz", "double"}}
            \cup {[base EXCEPT !.pos = q, !.d = d] @@ [m |-> "pay"] : q \in Positions(Len(p)), d \in {1, 128}}
    [] OTHER -> {}
Verdict(s) == LET sp == Split58Check(s) IN
  IF sp.ok THEN [exp |-> "iff", why |-> "", payload |-> sp.payload, cks |-> sp.cks, term |-> H4Term(sp.payload)]
  ELSE [exp |-> "reject", why |-> sp.why, payload |-> <<>>, cks |-> <<>>, term |-> H4Term(<<>>)]
B58cOut(cs) ==
  CASE cs.m = "valid" -> LET p == Payload(cs.i)  h4 == HashFor(cs.i) IN
         [k |-> "b58c", cls |-> "valid", s |-> IF IsLongPay(cs.i) THEN Enc58CheckL(p, h4) ELSE Enc58Check(p, h4),
          exp |-> "accept", why |-> "", payload |-> p, cks |-> h4, term |-> H4Term(p)]
    [] cs.m = "cks" -> LET h2 == [cs.h4 EXCEPT ![cs.pos] = cs.h4[cs.pos] ^^ cs.d] IN
         \* same payload, so same hash, different checksum bytes: a definite rejection
         [k |-> "b58c", cls |-> "cks-flip", s |-> IF IsLongPay(cs.i) THEN Enc58L(cs.p \o h2) ELSE Enc58(cs.p \o h2), exp |-> "reject", why |-> "checksum", payload |-> cs.p, cks |-> h2, term |-> H4Term(cs.p)]
    [] cs.m = "sub" -> LET t == [cs.s EXCEPT ![cs.pos] = cs.d] IN
         [k |-> "b58c", cls |-> IF cs.d \in AlphabetSet THEN "sub-alpha" ELSE "sub-nonalpha", s |-> t] @@ Verdict(t)
    [] cs.m = "trunc" -> [k |-> "b58c", cls |-> "trunc", s |-> SubSeq(cs.s, 1, cs.pos)] @@ Verdict(SubSeq(cs.s, 1, cs.pos))
    [] cs.m = "ext" -> LET t == CASE cs.w = "lead1" -> <<49>> \o cs.s [] cs.w = "trail1" -> cs.s \o <<49>>
                                  [] cs.w = "trailz" -> cs.s \o <<122>> [] OTHER -> cs.s \o cs.s
                       IN [k |-> "b58c", cls |-> "ext-" \o cs.w, s |-> t] @@ Verdict(t)
    [] cs.m = "pay" -> LET p2 == [cs.p EXCEPT ![cs.pos] = cs.p[cs.pos] ^^ cs.d]  t == Enc58(p2 \o cs.h4)
                       IN [k |-> "b58c", cls |-> "payload-flip", s |-> t] @@ Verdict(t)
\* ------------------------------------------------------------------ seg
Hrps == << <<98, 99>>, <<116, 98>>, <<98, 99, 114, 116>>, <<97>>, <<63>>,      \* bc tb bcrt a ?
           <<120, 49, 121>>,                                                    \* x1y
           [i \in 1..19 |-> 96 + i],                                            \* abcdefghijklmnopqrs
           <<108, 116, 99>>, <<33, 126>> >>                                     \* ltc !~
B32Sum(s) == LET d == Bech32Decode(s) IN
  [ok |-> d.ok, why |-> d.why, hrp |-> d.hrp, data |-> d.data,
   spec |-> IF ~d.ok THEN 0 ELSE IF d.const = BECH32 THEN 1 ELSE 2]
SegSucc ==
  CASE c.m = "root" -> [m : {"grp"}, h : 1..(IF Rich THEN Len(Hrps) ELSE 7), v : 0..17 \cup {31}]
    [] c.m = "grp" -> [m : {"seg"}, h : {c.h}, v : {c.v}, n : 0..42, p : 1..NPat]
    [] OTHER -> {}
SegOut(cs) ==
  IF cs.m = "grp" THEN [k |-> "grp"]
  ELSE LET hrp == Hrps[cs.h]  prog == PPattern(cs.n, cs.p)  raw == SegwitRaw(hrp, cs.v, prog) IN
       [k |-> "seg", hrp |-> hrp, ver |-> cs.v, prog |-> prog, enc |-> Encodable(hrp, cs.v, prog),
        raw |-> raw, dec |-> SegwitDecode(hrp, raw), b32 |-> B32Sum(raw)]
\* ------------------------------------------------------------------ corr
Bases == << [hrp |-> Hrps[1], ver |-> 0, prog |-> PPattern(20, 1)],
            [hrp |-> Hrps[1], ver |-> 0, prog |-> PPattern(32, 4)],
            [hrp |-> Hrps[1], ver |-> 1, prog |-> PPattern(32, 1)],
            [hrp |-> Hrps[2], ver |-> 1, prog |-> PPattern(32, 2)],
            [hrp |-> Hrps[1], ver |-> 16, prog |-> <<117, 30>>],
            [hrp |-> Hrps[2], ver |-> 2, prog |-> PPattern(40, 4)],
            [hrp |-> Hrps[6], ver |-> 3, prog |-> PPattern(7, 1)],
            [hrp |-> Hrps[7], ver |-> 5, prog |-> PPattern(39, 4)],
            [hrp |-> Hrps[2], ver |-> 0, prog |-> PPattern(20, 3)] >>
\* tables: evaluated once
BaseStrTab == [k \in DOMAIN Bases |-> SegwitRaw(Bases[k].hrp, Bases[k].ver, Bases[k].prog)]
BaseDataTab == [k \in DOMAIN Bases |-> <<Bases[k].ver>> \o To5(Bases[k].prog)]
BaseStr(k) == BaseStrTab[k]
BaseData(k) == BaseDataTab[k]
Seed == atoi(IOEnv.C11_SEED) % 65537
Lcg(x) == (75 * x + 74) % 65537
RECURSIVE LcgN(_, _)
LcgN(x, n) == IF n = 0 THEN x ELSE LcgN(Lcg(x), n - 1)
\* r-th draw of the stream of (base k, sample idx)
Draw(k, idx, r) == LcgN((Seed * 31 + k * 2003 + idx * 7 + 1) % 65537, r + 2)
OtherConst(ver) == IF ver = 0 THEN BECH32M ELSE BECH32
XorSet == IF Rich THEN 1..31 ELSE {1, 16, 31}
HrpSubChars == {33, 49, 65, 98, 113, 126}
DataBadChars == {98, 105, 111, 49, 32, 127, 128, 233, 256, 66}
(* Code points beyond ASCII that a Unicode case mapping sends onto an ASCII letter lc (given in lower case): *)
(* the single-character mappings (KELVIN SIGN lower-cases to k, LONG S upper-cases to S, DOTLESS I upper-   *)
(* cases to I, I WITH DOT ABOVE lower-cases to i + combining dot); Rich: also those whose upper case is the *)
(* letter plus a mark or a second letter (SpecialCasing.txt: sharp s, ligatures, j-caron, h/t/w/y/a/n forms) *)
CaseAlikes(lc) ==
  (CASE lc = 107 -> {8490} [] lc = 115 -> {383} [] lc = 105 -> {304, 305} [] OTHER -> {})
  \cup (IF ~Rich THEN {} ELSE
        CASE lc = 115 -> {223, 64261, 64262} [] lc = 102 -> {64256, 64257, 64258} [] lc = 106 -> {496} [] lc = 104 -> {7830}
          [] lc = 116 -> {7831, 64261} [] lc = 119 -> {7832} [] lc = 121 -> {7833} [] lc = 97 -> {7834} [] lc = 110 -> {329} [] OTHER -> {})
FullWidth(ch) == 65248 + ch          \* U+FF01..U+FF5E are the full-width forms of 33..126
CaseForms == {"lower", "upper", "mixed"}
\* the valid string in one of the three case forms (mixed: upper-case hrp, lower-case data part)
InForm(k, form) == LET s == BaseStr(k)  hl == Len(Bases[k].hrp) IN
  [i \in DOMAIN s |-> IF form = "upper" \/ (form = "mixed" /\ i <= hl) THEN Upper(s[i]) ELSE s[i]]
NParts == 8
CorrSucc ==
  CASE c.m = "root" -> [m : {"base"}, k : 1..Len(Bases)] \cup [m : {"struct"}, w : 1..14]
    [] c.m = "base" -> [m : {"part"}, k : {c.k}, part : 0..(NParts - 1)]     \* only spreads the work over TLC's workers
    [] c.m = "part" ->
         LET s == BaseStr(c.k)  hl == Len(Bases[c.k].hrp)  dl == Len(s) - hl - 1
             mine(q) == q % NParts = c.part
             first == c.part = 0 IN
         [m : {"sub1"}, k : {c.k}, pos : {q \in (hl + 2)..Len(s) : mine(q)}, x : XorSet]
         \cup {[m |-> "subh", k |-> c.k, pos |-> q, ch |-> ch] : q \in {q \in 1..(hl + 1) : mine(q)}, ch \in HrpSubChars}
         \cup {[m |-> "upper1", k |-> c.k, pos |-> q] : q \in {q \in DOMAIN s : IsLower(s[q]) /\ mine(q)}}
         \cup [m : {"bad"}, k : {c.k}, pos : {q \in (IF Rich THEN (hl + 2)..Len(s) ELSE {hl + 2, hl + 3, Len(s) - 6, Len(s) - 5, Len(s)}) : mine(q)}, ch : DataBadChars]
         \cup [m : {"rnd"}, k : {c.k}, idx : {q \in 1..NRnd : mine(q)}, w : 1..4]
         \cup UNION {[m : {"alike"}, k : {c.k}, pos : {q}, ch : CaseAlikes(Lower(s[q])), form : CaseForms] : q \in {q \in DOMAIN s : mine(q)}}
         \cup [m : {"wide"}, k : {c.k}, pos : {q \in (IF Rich THEN DOMAIN s ELSE {1, hl + 2, hl + 3, Len(s) - 6, Len(s)}) : mine(q)}, form : CaseForms]
         \cup (IF first THEN [m : {"case"}, k : {c.k}, w : {"all", "hrp", "data"}] ELSE {})
         \cup (IF c.part = 1 THEN [m : {"forge"}, k : {c.k}, w : {"wrongconst", "padbit1", "padbit2", "padbit3", "padbit4", "extrazero", "extrazero2", "dropsym",
                                               "ver17", "ver31", "nodata", "veronly", "flipver"}] ELSE {})
         \cup (IF c.part = 2 THEN [m : {"hrp"}, k : {c.k}, w : 1..4] ELSE {})
         \cup (IF c.part = 3 THEN [m : {"edit"}, k : {c.k}, w : {"droplast", "dropfirstdata", "dup", "appendq", "swap", "nosep", "sepb", "twosep"}] ELSE {})
    [] OTHER -> {}
\* forged data parts carry a VALID checksum (computed by the encoder rules) so that the named rule decides
Forge(k, w) ==
  LET b == Bases[k]  d == BaseData(k)  n == Len(d)
      padbits == (5 - ((8 * Len(b.prog)) % 5)) % 5
      pb(j) == IF j <= padbits THEN [d EXCEPT ![n] = d[n] + 2 ^ (j - 1)] ELSE Append(d, 2 ^ (j - 1))
  IN CASE w = "wrongconst" -> Bech32Encode(b.hrp, d, OtherConst(b.ver))
       [] w = "padbit1" -> Bech32Encode(b.hrp, pb(1), ConstFor(b.ver))
       [] w = "padbit2" -> Bech32Encode(b.hrp, pb(2), ConstFor(b.ver))
       [] w = "padbit3" -> Bech32Encode(b.hrp, pb(3), ConstFor(b.ver))
       [] w = "padbit4" -> Bech32Encode(b.hrp, pb(4), ConstFor(b.ver))
       [] w = "extrazero" -> Bech32Encode(b.hrp, Append(d, 0), ConstFor(b.ver))
       [] w = "extrazero2" -> Bech32Encode(b.hrp, d \o <<0, 0>>, ConstFor(b.ver))
       [] w = "dropsym" -> Bech32Encode(b.hrp, Front(d), ConstFor(b.ver))
       [] w = "ver17" -> Bech32Encode(b.hrp, [d EXCEPT ![1] = 17], BECH32M)
       [] w = "ver31" -> Bech32Encode(b.hrp, [d EXCEPT ![1] = 31], BECH32M)
       [] w = "nodata" -> Bech32Encode(b.hrp, <<>>, ConstFor(b.ver))
       [] w = "veronly" -> Bech32Encode(b.hrp, <<b.ver>>, ConstFor(b.ver))
       [] OTHER -> \* version symbol moved to the other class, checksum recomputed for the new class
                   LET v2 == IF b.ver = 0 THEN 1 ELSE 0 IN Bech32Encode(b.hrp, [d EXCEPT ![1] = v2], ConstFor(v2))
Edit(k, w) ==
  LET s == BaseStr(k)  hl == Len(Bases[k].hrp)  n == Len(s) IN
  CASE w = "droplast" -> Front(s)
    [] w = "dropfirstdata" -> SubSeq(s, 1, hl + 1) \o SubSeq(s, hl + 3, n)
    [] w = "dup" -> SubSeq(s, 1, hl + 2) \o SubSeq(s, hl + 2, n)
    [] w = "appendq" -> Append(s, 113)
    [] w = "swap" -> [s EXCEPT ![n] = s[n - 1], ![n - 1] = s[n]]
    [] w = "nosep" -> SubSeq(s, 1, hl) \o SubSeq(s, hl + 2, n)
    [] w = "sepb" -> [s EXCEPT ![hl + 1] = 98]
    [] OTHER -> SubSeq(s, 1, hl + 1) \o <<49>> \o SubSeq(s, hl + 2, n)
OtherHrps(k) == << IF Bases[k].hrp = Hrps[1] THEN Hrps[2] ELSE Hrps[1], Append(Bases[k].hrp, 99), Front(Bases[k].hrp),
                   UpperStr(Bases[k].hrp) >>
\* strings that are wrong by structure; hrp expected is bc
LongHrp(n) == [i \in 1..n |-> 97 + (i % 26)]
Struct(w) ==
  CASE w = 1 -> <<>>
    [] w = 2 -> <<49>>
    [] w = 3 -> <<98, 99, 49>>
    [] w = 4 -> <<98, 99>>
    [] w = 5 -> SubSeq(Bech32Encode(<<98, 99>>, <<>>, BECH32), 1, 8)                       \* 5 checksum characters
    [] w = 6 -> Tail(Tail(Bech32Encode(<<98, 99>>, <<0>> \o To5(PPattern(20, 1)), BECH32)))   \* separator first: empty hrp
    [] w = 7 -> Bech32Encode(<<>>, <<0>> \o To5(PPattern(20, 1)), BECH32)                  \* empty hrp, checksum for it
    [] w = 8 -> Bech32Encode(LongHrp(83), <<>>, BECH32M)                                  \* 83+1+6 = 90: valid Bech32m, no address
    [] w = 9 -> Bech32Encode(LongHrp(84), <<>>, BECH32M)                                  \* 91 characters
    [] w = 10 -> Bech32Encode(LongHrp(40), <<1>> \o To5(PPattern(32, 1)), BECH32M)        \* 40+1+53+6 = 100 characters
    [] w = 13 -> CrossA        \* valid v0 and valid v11, 4 characters apart: both must be ACCEPTED
    [] w = 14 -> CrossB
    [] w = 11 -> Bech32Encode(<<98, 99>>, <<0>> \o To5(PPattern(20, 1)), BECH32) \o <<32>>  \* trailing space
    [] OTHER -> <<32>> \o Bech32Encode(<<98, 99>>, <<0>> \o To5(PPattern(20, 1)), BECH32)   \* leading space
\* 1..w random substitutions in the data part: <<position, xor>> draws (coinciding positions merge)
RndString(k, idx, w) ==
  LET s == BaseStr(k)  hl == Len(Bases[k].hrp)  dl == Len(s) - hl - 1
      e == [j \in 1..w |-> <<hl + 1 + (Draw(k, idx * 4 + w, 2 * j) % dl) + 1, (Draw(k, idx * 4 + w, 2 * j + 1) % 31) + 1>>]
      x(i) == FoldLeft(LAMBDA acc, j : IF e[j][1] = i THEN acc ^^ e[j][2] ELSE acc, 0, [j \in 1..w |-> j])
  IN [i \in DOMAIN s |-> IF i > hl + 1 /\ x(i) # 0 THEN Charset[(SymOf(s[i]) ^^ x(i)) + 1] ELSE s[i]]
CorrCase(cs) ==        \* <<class, expected hrp, string>>
  CASE cs.m = "struct" -> <<"struct-" \o ToString(cs.w), Hrps[1], Struct(cs.w)>>
    [] cs.m \in {"base", "part"} -> <<"valid", Bases[cs.k].hrp, BaseStr(cs.k)>>
    [] cs.m = "sub1" -> LET s == BaseStr(cs.k) IN <<"sub1-data", Bases[cs.k].hrp, [s EXCEPT ![cs.pos] = Charset[(SymOf(s[cs.pos]) ^^ cs.x) + 1]]>>
    [] cs.m = "subh" -> <<"sub1-hrp", Bases[cs.k].hrp, [BaseStr(cs.k) EXCEPT ![cs.pos] = cs.ch]>>
    [] cs.m = "upper1" -> <<"upper-one", Bases[cs.k].hrp, [BaseStr(cs.k) EXCEPT ![cs.pos] = Upper(BaseStr(cs.k)[cs.pos])]>>
    [] cs.m = "case" -> LET s == BaseStr(cs.k)  hl == Len(Bases[cs.k].hrp) IN
         <<"upper-" \o cs.w, Bases[cs.k].hrp,
           [i \in DOMAIN s |-> IF cs.w = "all" \/ (cs.w = "hrp" /\ i <= hl) \/ (cs.w = "data" /\ i > hl) THEN Upper(s[i]) ELSE s[i]]>>
    [] cs.m = "bad" -> <<"bad-char", Bases[cs.k].hrp, [BaseStr(cs.k) EXCEPT ![cs.pos] = cs.ch]>>
    [] cs.m = "alike" -> <<"nonascii-" \o cs.form, Bases[cs.k].hrp, [InForm(cs.k, cs.form) EXCEPT ![cs.pos] = cs.ch]>>
    [] cs.m = "wide" -> <<"nonascii-" \o cs.form, Bases[cs.k].hrp, [InForm(cs.k, cs.form) EXCEPT ![cs.pos] = FullWidth(@)]>>
    [] cs.m = "forge" -> <<"forge-" \o cs.w, Bases[cs.k].hrp, Forge(cs.k, cs.w)>>
    [] cs.m = "hrp" -> <<"expected-hrp-" \o ToString(cs.w), OtherHrps(cs.k)[cs.w], BaseStr(cs.k)>>
    [] cs.m = "edit" -> <<"edit-" \o cs.w, Bases[cs.k].hrp, Edit(cs.k, cs.w)>>
    [] cs.m = "rnd" -> <<"rnd-" \o ToString(cs.w), Bases[cs.k].hrp, RndString(cs.k, cs.idx, cs.w)>>
CorrOut(cs) ==
  LET t == CorrCase(cs)
      base == IF cs.m = "struct" THEN <<>> ELSE BaseStr(cs.k)
      \* number of characters that differ from the valid string, when it is a same-length substitution
      nd == IF Len(t[3]) = Len(base) /\ cs.m # "struct" THEN Cardinality({i \in DOMAIN base : base[i] # t[3][i]}) ELSE 0 - 1
      hl == IF cs.m = "struct" THEN 0 ELSE Len(Bases[cs.k].hrp)
      dataonly == nd > 0 /\ \A i \in 1..(hl + 1) : base[i] = t[3][i]
      \* the version character stays in its class (0 / non-0), so the same constant applies
      sameclass == dataonly /\ ((base[hl + 2] = 113) <=> (t[3][hl + 2] = 113))
  IN [k |-> "corr", cls |-> t[1], hrp |-> t[2], s |-> t[3], dec |-> SegwitDecode(t[2], t[3]), b32 |-> B32Sum(t[3]),
      ndiff |-> nd, guaranteed |-> (sameclass /\ nd \in 1..4 /\ cs.m \in {"sub1", "rnd", "edit", "forge"})]
(* What Bech32's BCH code promises (MC_Bech32Syn): a string that differs from   *)
(* a valid one in 1..4 data characters and keeps the version class is rejected.  *)
Guarantee == (Mode = "corr" /\ c.m # "root" /\ out.guaranteed) => ~out.dec.ok
ValidBasesDecode == (Mode = "corr" /\ c.m = "base") =>
                      out.dec = [ok |-> TRUE, why |-> "", ver |-> Bases[c.k].ver, prog |-> Bases[c.k].prog]
\* ------------------------------------------------------------------ vec
V == JsonDeserialize(IOEnv.C11_VEC_FILE)
VecSucc == IF c.m = "root" THEN [m : {"vec"}, i : 1..Len(V)] ELSE {}
VecOut(cs) ==
  LET v == V[cs.i] IN
  CASE v.t = "b32" -> LET d == B32Sum(v.s) IN
         [k |-> "vec", i |-> cs.i, t |-> v.t, b32 |-> d,
          re |-> IF d.ok THEN Bech32Encode(d.hrp, d.data, IF d.spec = 1 THEN BECH32 ELSE BECH32M) ELSE <<>>]
    [] v.t = "seg" -> [k |-> "vec", i |-> cs.i, t |-> v.t, dec |-> SegwitDecode(v.hrp, v.s),
                       re |-> LET d == SegwitDecode(v.hrp, v.s) IN IF d.ok THEN SegwitRaw(v.hrp, d.ver, d.prog) ELSE <<>>]
    [] v.t = "b58" -> [k |-> "vec", i |-> cs.i, t |-> v.t, s |-> Enc58(v.b), d |-> Dec58(v.s)]
    [] OTHER -> [k |-> "vec", i |-> cs.i, t |-> v.t, sp |-> Split58Check(v.s), s |-> Enc58(v.b \o v.h4)]
\* ------------------------------------------------------------------ bits
BitByteSyms == {0, 1, 8, 127, 128, 255}
BitFiveSyms == {0, 1, 2, 4, 8, 15, 16, 31}
BitsSucc ==
  CASE c.m = "root" -> {[m |-> "b8", x |-> <<>>], [m |-> "b5", x |-> <<>>]}
    [] c.m = "b8" -> IF Len(c.x) < MaxLen THEN {[c EXCEPT !.x = Append(c.x, v)] : v \in BitByteSyms} ELSE {}
    [] c.m = "b5" -> IF Len(c.x) < MaxText THEN {[c EXCEPT !.x = Append(c.x, v)] : v \in BitFiveSyms} ELSE {}
BitsOut(cs) == IF cs.m = "b8" THEN [k |-> "bits8", x |-> cs.x, ok |-> TRUE, out |-> To5(cs.x)]
               ELSE LET r == To8(cs.x) IN [k |-> "bits5", x |-> cs.x, ok |-> r.ok, out |-> r.bytes]
\* ------------------------------------------------------------------ terms
TermSucc == IF c.m = "root" THEN [m : {"term"}, i : 1..NPayAll] ELSE {}
TermOut(cs) == [k |-> "term", i |-> cs.i, p |-> Payload(cs.i), t |-> H4Term(Payload(cs.i))]

Succ == CASE Mode = "b58" -> B58Succ [] Mode = "b58c" -> B58cSucc [] Mode = "seg" -> SegSucc
          [] Mode = "corr" -> CorrSucc [] Mode = "vec" -> VecSucc [] Mode = "bits" -> BitsSucc [] OTHER -> TermSucc
Out(cs) == CASE Mode = "b58" -> B58Out(cs) [] Mode = "b58c" -> B58cOut(cs) [] Mode = "seg" -> SegOut(cs)
             [] Mode = "corr" -> CorrOut(cs) [] Mode = "vec" -> VecOut(cs) [] Mode = "bits" -> BitsOut(cs) [] OTHER -> TermOut(cs)
Init == c = [m |-> "root"] /\ out = [k |-> "root"]
Next == \E cs \in Succ : /\ c' = cs
                         /\ out' = Out(cs)
                         /\ PrintT(ToJson(out'))
Spec == Init /\ [][Next]_vars
=============================================================================
