CONSTANT MaxLen = 6
SPECIFICATION CSpec
INVARIANT SameExec
INVARIANT SameDepth
INVARIANT SameError
INVARIANT CountersMeaning
CHECK_DEADLOCK FALSE
