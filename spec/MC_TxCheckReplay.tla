--------------------------- MODULE MC_TxCheckReplay ---------------------------
(* Spec -> code binding for C20.  TLC enumerates transactions on the           *)
(* boundaries of every rule of TxCheck, for Bitcoin and Groestlcoin, checks    *)
(* the lemmas (the reject and accept obligations never overlap; a running      *)
(* total exceeds the cap iff the final total does, for in-range values; the    *)
(* witness-stripped size never exceeds the total size; calls leave the object  *)
(* unchanged) and prints each case with the verdict the property demands.      *)
EXTENDS TxCheck, TxGrid, Json

CONSTANT Emit

\* ---------------------------------------------------------------- values around the cap
Half(M) == LET step(acc, i) == LET j == Len(M) + 1 - i
                                   t == acc[2] * 65536 + M[j]
                               IN <<[acc[1] EXCEPT ![j] = t \div 2], t % 2>>
           IN Trim(FoldLeft(step, <<M, 0>>, [i \in 1..Len(M) |-> i])[1])
Values(M) == LET base == { Val(FALSE, <<0>>), Val(FALSE, <<1>>), Val(FALSE, Pred(M)), Val(FALSE, M), Val(FALSE, Succ(M)),
                           Val(TRUE, <<1>>), Val(FALSE, Half(M)), Val(FALSE, Succ(Half(M))), Val(FALSE, A64m) }
             IN IF Tier = "q" THEN base
                ELSE base \cup { Val(TRUE, M), Val(FALSE, A63), Val(FALSE, <<0, 0, 0, 0, 1>>), Val(FALSE, Pred(Half(M))) }
O(v, l) == [value |-> v, script |-> Script(106, l)]
OutLists3(M) == {<<>>} \cup {<<O(a, 0)>> : a \in Values(M)}
                \cup {<<O(a, 0), O(b, 1)>> : a \in Values(M), b \in Values(M)}
                \cup {<<O(a, 0), O(b, 1), O(c, 0)>> : a \in Values(M), b \in Values(M), c \in Values(M)}
FewOuts(M) == { <<>>, <<O(Val(FALSE, <<1>>), 0)>>, <<O(Val(FALSE, M), 1)>>, <<O(Val(FALSE, Succ(M)), 0)>>,
                <<O(Val(FALSE, Pred(M)), 0), O(Val(FALSE, <<1>>), 0)>>, <<O(Val(FALSE, M), 0), O(Val(FALSE, <<1>>), 0)>> }

\* ---------------------------------------------------------------- outpoints
HA == HashX(10)
HB == HashX(11)
One == <<1, 0>>
\* normal, same tx other index, other tx, the null outpoint, hash-null only, index-null only
Kinds == { <<HA, Zero32N>>, <<HA, One>>, <<HB, Zero32N>>, <<NullHash, NullIndex>>, <<NullHash, Zero32N>>, <<HA, NullIndex>> }
CbLens == IF Tier = "q" THEN {0, 1, 2, 100, 101} ELSE {0, 1, 2, 3, 99, 100, 101, 253}
I(k, l, w) == In(k[1], k[2], Script(81, l), Max32N, w)
InLists == {<<>>}
           \cup {<<I(k, l, w)>> : k \in Kinds, l \in CbLens, w \in {<<>>, <<Item(32)>>}}
           \cup {<<I(k1, 3, <<>>), I(k2, 0, <<>>)>> : k1 \in Kinds, k2 \in Kinds}
           \cup {<<I(k1, 3, <<>>), I(k2, 0, <<>>), I(k3, 1, <<>>)>> : k1 \in Kinds, k2 \in Kinds, k3 \in Kinds}
FewIns == { <<I(<<HA, Zero32N>>, 3, <<>>)>>,                                   \* ordinary
            <<I(<<NullHash, NullIndex>>, 2, <<>>)>>,                            \* well-formed coinbase
            <<I(<<HA, Zero32N>>, 0, <<Item(1)>>), I(<<HB, Zero32N>>, 0, <<>>)>> }
          \cup (IF Tier = "q" THEN {} ELSE
                { <<I(<<NullHash, NullIndex>>, 101, <<>>)>>, <<I(<<HA, One>>, 1, <<>>), I(<<HA, One>>, 1, <<>>)>>, <<>> })

\* ---------------------------------------------------------------- sizes around 1,000,000 bytes
\* one input whose script (or witness item) is as long as it takes for the serialisation to have a given size
Base(sl, wl) == [version |-> V1, lock |-> Zero32N,
                 ins |-> <<In(HA, Zero32N, Script(81, sl), Max32N, IF wl < 0 THEN <<>> ELSE <<Item(wl)>>)>>,
                 outs |-> <<O(Val(FALSE, <<1>>), 0)>>]
\* overheads measured on the spec's own serialisation, with blobs long enough for 5-byte length prefixes
StrippedOver == StrippedSize(Base(70000, 0 - 1)) - 70000
TotalOver    == TotalSize(Base(0, 70000)) - 70000
SizeCases == {Base(n - StrippedOver, 0 - 1) : n \in {999999, 1000000, 1000001}}      \* stripped = total = n
             \cup {Base(0, n - TotalOver) : n \in {1000000, 1000001, 1200000}}       \* small stripped, total = n
             \cup {Base(1000000 - StrippedOver, 500), Base(1000001 - StrippedOver, 500)}   \* stripped on the limit, total above

TxOf(ins, outs) == [version |-> V1, ins |-> ins, outs |-> outs, lock |-> Zero32N]
\* (binary unions, not UNION over the coins: TLC builds a binary union by sorting, a generalised one by
\* testing membership element by element)
CasesOf(c) ==
   {[coin |-> c, tx |-> TxOf(ins, outs)] : ins \in FewIns, outs \in OutLists3(MaxMoney(c))}
   \cup {[coin |-> c, tx |-> TxOf(ins, outs)] : ins \in InLists, outs \in FewOuts(MaxMoney(c))}
   \cup {[coin |-> c, tx |-> t] : t \in SizeCases}
Cases == CasesOf("BTC") \cup CasesOf("GRS")

VARIABLES case,     \* the case being examined
          facts     \* what TxCheck says about it, computed once when the case is picked
vars == <<case, facts, cvars>>

Facts(t, M) == [defects |-> Defects(t, M), mustAccept |-> MustAccept(t, M),
                stripped |-> StrippedSize(t), total |-> TotalSize(t), coinbase |-> IsCoinbase(t),
                badValue |-> BadValue(t, M), badTotal |-> BadTotal(t, M),
                finalOver |-> ~Leq(Total(t.outs, Len(t.outs)), M)]
VerdictOf(f) == IF f.defects # {} THEN "reject" ELSE IF f.mustAccept THEN "accept" ELSE "any"

ShowVal(v) == [neg |-> v.neg, mag |-> v.mag]
ShowCIn(x) == [hash |-> Show(x.hash), index |-> x.index, script |-> Show(x.script), seq |-> x.seq,
               wit |-> [k \in 1..Len(x.wit) |-> Show(x.wit[k])]]
Record ==
  LET M == MaxMoney(case'.coin) t == case'.tx IN
  [k |-> "chk", coin |-> case'.coin, maxmoney |-> M,
   version |-> t.version, lock |-> t.lock,
   ins |-> [i \in 1..Len(t.ins) |-> ShowCIn(t.ins[i])],
   outs |-> [j \in 1..Len(t.outs) |-> [value |-> ShowVal(t.outs[j].value), script |-> Show(t.outs[j].script)]],
   verdict |-> VerdictOf(facts'),
   defects |-> facts'.defects,
   coinbase |-> facts'.coinbase,
   stripped |-> facts'.stripped, total |-> facts'.total]

NCH == 128
CaseSeq == SetToSeq(Cases)
Init == /\ case \in 0..(NCH - 1) /\ facts = <<>>
        /\ obj = <<>> /\ coin = "" /\ calls = 0 - 1 /\ result = "none"
Pick == /\ calls = 0 - 1
        /\ \E j \in {j \in 1..Len(CaseSeq) : j % NCH = case} :
              /\ case' = CaseSeq[j]
              /\ obj' = CaseSeq[j].tx /\ coin' = CaseSeq[j].coin /\ calls' = 0 /\ result' = "none"
              /\ facts' = Facts(CaseSeq[j].tx, MaxMoney(CaseSeq[j].coin))
        /\ Emit => PrintT(ToJson(Record))
\* two calls deep: every call, and every call after every call
Calls == /\ calls \in 0..1 /\ CNext /\ UNCHANGED <<case, facts>>
Next == Pick \/ Calls
Spec == Init /\ [][Next]_vars

\* ---------------------------------------------------------------- lemmas
Picked == calls >= 0
Fresh == calls = 0            \* lemmas about the transaction itself are evaluated once per case
M0 == MaxMoney(coin)
\* no transaction is under both obligations
Disjoint == Fresh => ~(facts.defects # {} /\ facts.mustAccept)
\* ... and the two together leave only the size gap open
OnlySizeGap == (Fresh /\ VerdictOf(facts) = "any") => (facts.stripped <= MaxSize /\ facts.total > MaxSize)
StrippedLeqTotal == Fresh => facts.stripped <= facts.total
\* for values that are each in range the running total crosses the cap iff the final total does
CumulativeIffFinal == (Fresh /\ ~facts.badValue) => (facts.badTotal <=> facts.finalOver)
\* the object machine's check() (which evaluates TxCheck!Verdict itself) agrees with the cached facts
CheckAgrees == (calls = 1 /\ result \in {"accept", "reject"}) =>
                  (VerdictOf(facts) = "any" \/ result = VerdictOf(facts))
\* the caps are the published ones: 21,000,000 and 105,000,000 coins of 10^8 units
CapsRight == (calls = 0 - 1) =>
             /\ MaxMoney("BTC") = <<16384, 23047, 30192, 7>>          \* 0x000775F05A074000 = 2,100,000,000,000,000
             /\ MaxMoney("GRS") = <<16384, 49700, 19889, 37>>         \* 0x00254DB1C2244000 = 10,500,000,000,000,000
\* no call changes the transaction
NoEffect == Picked => (obj = case.tx /\ coin = case.coin)
\* a coinbase is never reported to have unsigned inputs; is_coinbase answers the definition
CoinbaseSigned == (Picked /\ IsCoinbase(obj) /\ result = "some") => FALSE
=============================================================================
