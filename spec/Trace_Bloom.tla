------------------------------ MODULE Trace_Bloom ------------------------------
(* Code -> spec binding for murmur3 and the Bloom filter of C19.  A trace is   *)
(* a recorded history of one pycoin BloomFilter: its parameters and a list of  *)
(* events, each an API call with its arguments and what was observed after it: *)
(*   add_item / add_hash160 / add_address / add_spendable : the bytes of        *)
(*       filter_bytes that changed (periodically: all non-zero bytes) and the  *)
(*       answers of check_bit on sampled positions;                            *)
(*   murmur3 : data, seed (any width) and the returned value.                  *)
(* TLC replays the calls with Bloom.tla / Murmur3.tla and accepts a trace only *)
(* if every observation is the one the specification prescribes.               *)
EXTENDS Bloom, Json, IOUtils, TLC

Traces == JsonDeserialize(IOEnv.TRACE_FILE)
\* printed once: the harness checks that TLC read as many traces as it sent
ASSUME PrintT(ToJson([k |-> "hdr", n |-> Len(Traces)]))
VARIABLES tid, l
tvars == <<bvars, tid, l>>
Ev == Traces[tid].ev
Cur == Ev[l]

TInit == \E t \in 1..Len(Traces) :
           /\ tid = t /\ l = 1
           /\ BInit(Traces[t].size, Traces[t].nfuncs, Traces[t].tweak)

IdxWord(i) == WordLE(i[1], i[2], i[3], i[4])
\* e.fbd: the bytes of filter_bytes whose value changed in this call, as <<byte number, new value>>.
\* Bits are only ever added, so the new pairs of SparseBytes are exactly the changed bytes (a byte
\* that the implementation cleared would be logged with value 0, which no pair of SparseBytes has).
\* e.full = 1: the event also carries all non-zero bytes (first call, every 50th, last call).
Observed(e) == /\ SparseBytes' \ SparseBytes = ToSet(e.fbd)
               /\ e.full = 1 => SparseBytes' = ToSet(e.fb)
               /\ \A c \in ToSet(e.cb) : (c[2] = 1) <=> (c[1] \in bits')
TAdd == /\ l <= Len(Ev)
        /\ \/ Cur.op = "add_item" /\ AddItem(Cur.b)
           \/ Cur.op = "add_hash160" /\ AddHash160(Cur.b)
           \/ Cur.op = "add_address" /\ AddAddress(Cur.b)
           \/ Cur.op = "add_spendable" /\ AddSpendable(Cur.b, IdxWord(Cur.i))
        /\ Observed(Cur)
        /\ l' = l + 1 /\ UNCHANGED tid
TMurmur == /\ l <= Len(Ev) /\ Cur.op = "murmur3"
           /\ Murmur3(Cur.b, Cur.seed) = Cur.h
           /\ l' = l + 1 /\ UNCHANGED <<bvars, tid>>
TDone == /\ l = Len(Ev) + 1
         /\ l' = l + 1 /\ UNCHANGED <<bvars, tid>>
         /\ PrintT(ToJson([k |-> "acc", tid |-> tid]))
TNext == TAdd \/ TMurmur \/ TDone
TSpec == TInit /\ [][TNext]_tvars
=============================================================================
