CONSTANTS Fam = "roundtrip"  MaxProg = 42  NPat = 1  NStr = 3  MaxBits = 4
SPECIFICATION Spec
INVARIANT Lemma
CHECK_DEADLOCK FALSE
