CONSTANTS N = 3  W = 2  MaxAdd = 3  MaxLock = 2  AllowDup = TRUE
          MeldInterior = TRUE  SkipLocked = TRUE  KeepOnLock = TRUE
SPECIFICATION RSpec
CHECK_DEADLOCK FALSE
