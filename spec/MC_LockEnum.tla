------------------------------ MODULE MC_LockEnum ------------------------------
(* Spec -> code binding for OP_CHECKLOCKTIMEVERIFY / OP_CHECKSEQUENCEVERIFY     *)
(* (BIP65 / BIP112): every operand class x every transaction context class x    *)
(* flag set.  Operand classes sit on the rule boundaries: negative, zero, the   *)
(* 500,000,000 threshold, equal / one above the context value, the type bit     *)
(* (1 << 22), the disable bit (1 << 31, needs a 5-byte operand), non-minimal    *)
(* encodings, 5- and 6-byte operands.  Contexts: tx version 0..3 and 2^31-1, lock time on *)
(* both sides of the threshold, input sequence final / plain / type bit /       *)
(* disable bit with satisfying low bits.                                        *)
EXTENDS ScriptVM, Json

Operands == { <<>>, <<1>>, <<10>>, <<11>>, <<100>>, <<101>>, <<129>>, <<10, 0>>, <<0, 128>>,
              <<255, 100, 205, 29>>,            \* 499,999,999
              <<0, 101, 205, 29>>,              \* 500,000,000
              <<1, 101, 205, 29>>,              \* 500,000,001
              <<10, 0, 64>>, <<9, 0, 64>>, <<11, 0, 64>>,          \* type bit set, value 10 / 9 / 11
              <<10, 0, 0, 128, 0>>,             \* bit 31 set (disable flag), 5 bytes
              <<10, 0, 64, 128, 0>>,
              <<255, 255, 255, 255, 0>>,        \* 2^32 - 1
              <<0, 0, 0, 0, 1>>,                \* 2^32
              <<255, 255, 255, 255, 127>>,      \* largest 5-byte number
              <<10, 0, 0, 0, 0>>,               \* non-minimal 5-byte 10
              <<0, 0, 0, 0, 0, 1>>,             \* 6 bytes: too long
              <<10, 0, 1>>,                     \* 65546: same low 16 bits as 10
              <<255, 255, 0>>, <<255, 255, 64>> }
Versions == {0, 1, 2, 3, 2147483647}       \* BIP112 compares the version as an unsigned number with 2
LockTimes == { <<0, 0, 0, 0>>, <<100, 0, 0, 0>>, <<255, 100, 205, 29>>, <<0, 101, 205, 29>>, <<1, 101, 205, 29>>,
               <<255, 255, 255, 255>> }
Sequences == { <<255, 255, 255, 255>>, <<254, 255, 255, 255>>, <<10, 0, 0, 0>>, <<10, 0, 64, 0>>, <<10, 0, 0, 128>>,
               <<10, 0, 64, 128>>, <<0, 0, 0, 0>>, <<10, 0, 1, 0>>, <<255, 255, 0, 0>> }
FlagSets == { {}, {"CHECKLOCKTIMEVERIFY", "CHECKSEQUENCEVERIFY"},
              {"CHECKLOCKTIMEVERIFY", "CHECKSEQUENCEVERIFY", "MINIMALDATA"},
              {"DISCOURAGE_UPGRADABLE_NOPS"}, {"CHECKLOCKTIMEVERIFY"}, {"CHECKSEQUENCEVERIFY"} }

VARIABLES cfg, res
lvars == <<cfg, res>>
LInit == /\ res = <<>>
         /\ cfg \in [op : {OP_CLTV, OP_CSV}, version : Versions, locktime : LockTimes, sequence : Sequences, flags : FlagSets]
\* the lock time only matters to CLTV, the version only to CSV: keep the product small
Relevant(c) == (c.op = OP_CLTV => c.version = 2) /\ (c.op = OP_CSV => c.locktime = <<0, 0, 0, 0>>)
LNext == /\ res = <<>> /\ Relevant(cfg)
         /\ \E stack \in {<<x>> : x \in Operands} \cup {<<>>} :
              LET dummy == 0
                  env == [script |-> <<cfg.op>>, flags |-> cfg.flags, sv |-> "base",
                          ctx |-> [version |-> cfg.version, locktime |-> cfg.locktime, sequence |-> cfg.sequence],
                          hashes |-> <<>>, sigs |-> <<>>, sigmode |-> "fixed"]
                  vm == Step(InitVM(stack), env)
              IN /\ res' = <<stack, vm.status, vm.stack>>
                 /\ PrintT(ToJson([k |-> "lock", op |-> cfg.op, version |-> cfg.version, locktime |-> cfg.locktime,
                                   sequence |-> cfg.sequence, flags |-> cfg.flags, stack |-> stack,
                                   status |-> vm.status, err |-> vm.err, out |-> vm.stack]))
         /\ UNCHANGED cfg
LSpec == LInit /\ [][LNext]_lvars
\* lemma: a successful lock-time check never changes the stack
StackUnchanged == (res # <<>> /\ res[2] = "run") => res[3] = res[1]
=============================================================================
