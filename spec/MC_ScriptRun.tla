---------------------------- MODULE MC_ScriptRun ----------------------------
(* Runs the consensus specification (ScriptVM + VerifyScript) on cases read   *)
(* from a JSON file: Core's script_tests.json / tx_valid / tx_invalid (spec   *)
(* fidelity), TLC- and harness-generated spends and limit scenarios.  Prints  *)
(* the verdict (and final stack) of every case, or the oracle entry it needs. *)
EXTENDS VerifyScript, Json, IOUtils

Cases == JsonDeserialize(IOEnv.CASES_FILE)
VARIABLES cid, st
Case(c) == [kind |-> c.kind, sig |-> c.sig, pk |-> c.pk, wit |-> c.wit, stack |-> c.stack, sv |-> c.sv,
            flags |-> ToSet(c.flags), ctx |-> c.ctx, hashes |-> c.hashes, sigs |-> c.sigs, sigmode |-> c.sigmode]
Report(s) == PrintT(ToJson([k |-> "res", id |-> cid, status |-> s.status, err |-> s.err, phase |-> s.phase,
                            stack |-> s.stack, need |-> s.need]))
RInit == /\ cid \in 1..Len(Cases)
         /\ st = Start(Case(Cases[cid]))
         /\ (st.status # "run" => Report(st))     \* decided before the first step
RNext == /\ st.status = "run"
         /\ st' = Advance(st, Case(Cases[cid]))
         /\ UNCHANGED cid
         /\ (st'.status # "run" => Report(st'))
RSpec == RInit /\ [][RNext]_<<cid, st>>
=============================================================================
