----------------------------- MODULE X08_Policy -----------------------------
(* The flag sets X08 judges unlocking data under, taken from Signer.tla (C05): *)
(* Bitcoin Core's standard script verification flags per coin, which coins     *)
(* carry the fork-id bit, which have witness programs.  Signer's state         *)
(* variables play no part in these constant operators.                         *)
EXTENDS Integers, Sequences, FiniteSets
Sg == INSTANCE Signer WITH NK <- 1, NM <- 1, Shapes <- {}, Coins <- {"BTC"}, HashTypes <- {1}, MaxPasses <- 1,
        coin <- "BTC", shape <- <<>>, signed <- <<>>, valid <- <<>>, frame <- <<>>, unlock <- <<>>, offered <- <<>>,
        nouts <- 1, kcReg <- {}, kcSec <- {}, kcScr <- FALSE, npass <- 0
X08Coins == {"BTC", "BCH", "LTC"}
PolicyOf(c) == Sg!PolicyFlags(c)
SigByteOf(c) == Sg!SigByte(c, 1)
WitnessOn(c) == Sg!HasWitness(c)
\* the rules every block must obey on these chains (BIP16, BIP66, BIP65, BIP112; BIP141 / BIP147 where witness programs exist)
ConsensusOf(c) == IF WitnessOn(c) THEN {"P2SH", "DERSIG", "CHECKLOCKTIMEVERIFY", "CHECKSEQUENCEVERIFY", "WITNESS", "NULLDUMMY"}
                  ELSE {"P2SH", "DERSIG", "CHECKLOCKTIMEVERIFY", "CHECKSEQUENCEVERIFY"}
ASSUME \A c \in X08Coins : ConsensusOf(c) \subseteq PolicyOf(c)
\* the flags pycoin's own report (is_solution_ok) validates under
ReportFlags == {"P2SH", "WITNESS"}
=============================================================================
