CONSTANTS Mode = "digest" MaxLines = 0 MarkerLines = FALSE MaxLen = 3 Prefixed = TRUE
SPECIFICATION Spec
INVARIANT Holds
CHECK_DEADLOCK FALSE
