----------------------------- MODULE MC_MsgText -----------------------------
(* TLC checks the text-side lemmas of C17 (MsgText.tla):                      *)
(*   Mode = "armour"  ParseSigned(Format(NAME, m, a, s)) = (m, a, s) for every *)
(*        message made of up to MaxLines lines from Lines, joined by LF or by  *)
(*        CR LF (one style per message), every NAME / address / signature      *)
(*        token of the sets below.  With MarkerLines = TRUE the message may    *)
(*        contain a signature-marker line: outside the domain, the lemma must  *)
(*        FAIL (a control that the lemma is not vacuous);                      *)
(*   Mode = "digest"  the digest preimage VarBytes(magic) ++ VarBytes(msg) is  *)
(*        injective in (magic, msg) over all byte strings up to length MaxLen  *)
(*        over {0, 1, 2} (with Prefixed = FALSE, plain concatenation: must     *)
(*        FAIL).                                                               *)
(* The ASSUMEs pin constants (the standard magic, marker strings written as   *)
(* code points, UTF-8 boundaries, base64 vectors of RFC 4648 section 10).     *)
EXTENDS MsgText

CONSTANTS Mode, MaxLines, MarkerLines, MaxLen, Prefixed
VARIABLES a, b, c, ph, holds
vars == <<a, b, c, ph, holds>>

Asc(str) == str
\* ---- pinned constants
ASSUME StdMagicPinned
ASSUME Utf8Ok == \A cp \in {0, 10, 65, 127, 128, 233, 2047, 2048, 8364, 55295, 57344, 65535, 65536, 128512, 1114111} :
                   \A u \in {Utf8(cp)} :
                   /\ IsScalar(cp) /\ Len(u) = Utf8Len(cp)
                   /\ \A i \in 2..Len(u) : u[i] \in 128..191
                   /\ CASE Len(u) = 1 -> u[1] = cp
                        [] Len(u) = 2 -> u[1] \in 194..223 /\ (u[1] - 192) * 64 + (u[2] - 128) = cp
                        [] Len(u) = 3 -> u[1] \in 224..239 /\ (u[1] - 224) * 4096 + (u[2] - 128) * 64 + (u[3] - 128) = cp
                        [] Len(u) = 4 -> u[1] \in 240..244 /\ (u[1] - 240) * 262144 + (u[2] - 128) * 4096 + (u[3] - 128) * 64 + (u[4] - 128) = cp
\* U+00E9 -> C3 A9, U+20AC -> E2 82 AC, U+1F600 -> F0 9F 98 80 (RFC 3629 style examples)
ASSUME Utf8Vectors == Utf8(233) = <<195, 169>> /\ Utf8(8364) = <<226, 130, 172>> /\ Utf8(128512) = <<240, 159, 152, 128>>
\* RFC 4648 section 10: "", "f", "fo", "foo", "foob", "fooba", "foobar"
Foobar == <<102, 111, 111, 98, 97, 114>>
ASSUME B64Vectors ==
  /\ Str(B64Encode(<<>>)) = "" /\ Str(B64Encode(SubSeq(Foobar, 1, 1))) = "Zg==" /\ Str(B64Encode(SubSeq(Foobar, 1, 2))) = "Zm8="
  /\ Str(B64Encode(SubSeq(Foobar, 1, 3))) = "Zm9v" /\ Str(B64Encode(SubSeq(Foobar, 1, 4))) = "Zm9vYg=="
  /\ Str(B64Encode(SubSeq(Foobar, 1, 5))) = "Zm9vYmE=" /\ Str(B64Encode(Foobar)) = "Zm9vYmFy"
  /\ \A n \in 0..6 : B64Decode(B64Encode(SubSeq(Foobar, 1, n))) = [ok |-> TRUE, v |-> SubSeq(Foobar, 1, n)]
  /\ \A n \in 0..7 : \A bs \in [1..n -> {0, 255}] : B64Decode(B64Encode(bs)) = [ok |-> TRUE, v |-> bs]
  /\ ~B64Decode(<<"Z", "h", "=", "=">>).ok /\ ~B64Decode(<<"Z", "g", "=">>).ok /\ ~B64Decode(<<"Z", "g">>).ok
  /\ ~B64Decode(<<"Z", "=", "g", "=">>).ok /\ ~B64Decode(<<"Z", "g", "=", "=", "Z", "g", "=", "=">>).ok
ASSUME CompactSizeOk ==
  /\ CompactSize(0) = <<0>> /\ CompactSize(252) = <<252>> /\ CompactSize(253) = <<253, 253, 0>>
  /\ CompactSize(65535) = <<253, 255, 255>> /\ CompactSize(65536) = <<254, 0, 0, 1, 0>> /\ CompactSize(16909060) = <<254, 4, 3, 2, 1>>
\* the digest term denotes the flat preimage
FlatTerm(t) == FlattenSeq([i \in 1..Len(t.arg) |-> IF t.arg[i].op = "b" THEN t.arg[i].v
                                                   ELSE FlattenSeq([j \in 1..t.arg[i].n |-> t.arg[i].v])])
ASSUME TermOk == \A rt \in { <<>>, <<<<97, 1>>>>, <<<<233, 1>>, <<10, 1>>, <<8364, 2>>>>, <<<<97, 252>>>>, <<<<97, 253>>>>, <<<<128512, 70>>, <<13, 1>>, <<10, 1>>>> } :
                   FlatTerm(DigestTerm(NameBitcoin, rt)) = Preimage(MagicFor(NameBitcoin), Utf8Text(ExpandRuns(rt)))

(* ------------------------------------------------------------------ armour *)
NAMES == { <<66,73,84,67,79,73,78>>, <<66,73,84,67,79,73,78, 32, 67,65,83,72>>, <<66,52>> }       \* BITCOIN, BITCOIN CASH, B4
ADDRS == { <<49,65>>, <<98,99,49,113>> }                                                        \* 1A, bc1q
SIGS  == { <<72,120,61>>, <<49,65>> }                                                           \* Hx=, 1A (= an address: refused pair)
Lines0 == { <<>>, <<97>>, <<32>>, <<97, 32, 98>>, <<58>>, <<65,100,100,114,101,115,115, 58, 32, 120>>,
            D5 \o TBegin \o <<SP>> \o TSignature \o <<45,45,45,45>>,                               \* marker with 4 dashes: text
            <<120>> \o SigMarkLine,                                                              \* marker with junk in front: text
            HeaderLine(<<66,73,84,67,79,73,78>>), FooterLine(<<66,73,84,67,79,73,78>>),
            <<8232>>, <<133, 11, 12>>, <<32, 97, 9>> }
Lines == IF MarkerLines THEN Lines0 \cup {SigMarkLine} ELSE Lines0
SeqsUpTo(S, n) == UNION {[1..k -> S] : k \in 1..n}

ArmourLemma(ls, nl, nas) ==
  /\ (~MarkerLines => MsgDomain(ls))
  /\ TokenOk(nas[2]) /\ TokenOk(nas[3])
  /\ (nas[2] # nas[3] => RoundTrip(nas[1], ls, nl, nas[2], nas[3]))
  /\ (nas[2] = nas[3] => ~ParseSigned(Format(nas[1], JoinLines(ls, nl), nas[2], nas[3])).ok)

(* ------------------------------------------------------------------ digest *)
Strs == UNION {[1..k -> {0, 1, 2}] : k \in 0..MaxLen}
Pre(m, x) == IF Prefixed THEN Preimage(m, x) ELSE m \o x
DigestLemma(m1, x1) == \A m2 \in Strs, x2 \in Strs : (Pre(m1, x1) = Pre(m2, x2)) => (m1 = m2 /\ x1 = x2)

Init == /\ ph = 0 /\ holds = TRUE
        /\ IF Mode = "armour" THEN a \in SeqsUpTo(Lines, MaxLines) /\ b \in {<<LF>>, <<CR, LF>>} /\ c \in NAMES \X ADDRS \X SIGS
           ELSE a \in Strs /\ b \in Strs /\ c = 0
Next == /\ ph = 0 /\ ph' = 1 /\ UNCHANGED <<a, b, c>>
        /\ holds' = IF Mode = "armour" THEN ArmourLemma(a, b, c) ELSE DigestLemma(a, b)
Spec == Init /\ [][Next]_vars
Holds == holds
=============================================================================
