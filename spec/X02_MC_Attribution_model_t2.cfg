CONSTANTS NK = 5  NM = 2  MaxPasses = 1  MaxSteps = 3  MaxInserts = 1  EditFrom = "signed"  MutSet = "all"
          Shapes <- NoShapes  Coins <- AllCoins  HashTypes <- StdHashTypes  Cases <- CasesDev
SPECIFICATION MSpec
INVARIANTS AttributionIsSigned CommitmentInvariance NoInvention RetagKills TransplantKills OpenOnlyInCorner ValidIffAttributed
PROPERTIES EditOnlyRemoves SigningOnlyAdds
CHECK_DEADLOCK FALSE
