CONSTANTS P = 11  A = 1  B = 6  Gx = 2  Gy = 4  N = 13  Toy = FALSE  MaxCand = 99
SPECIFICATION TSpec
CONSTRAINT Reached
POSTCONDITION Post
CHECK_DEADLOCK FALSE
