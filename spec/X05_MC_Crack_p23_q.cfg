CONSTANTS P = 23  A = 1  B = 19  Gx = 2  Gy = 11  N = 19
          DS = {1, 18}  KS = {1, 2, 3, 4, 5, 6, 7, 8, 9, 10, 11, 12, 13, 14, 15, 16, 17, 18}
          Z1 = {1, 2, 3, 4, 5, 6, 7, 8, 9, 10, 11, 12, 13, 14, 15, 16, 17, 18, 19}
          Z2 = {1, 2, 9, 10, 11, 17, 18, 19}  D2 = {2, 17}
          OS1 = {}  DeepD = {}  M = 24  Dealers = 32
SPECIFICATION Spec
INVARIANTS LemmasHold TablesOk
CHECK_DEADLOCK FALSE
