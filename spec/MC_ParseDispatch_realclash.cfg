CONSTANTS Generic = {"*"}  Table = "real"  Mode = "clash"
SPECIFICATION Spec
CHECK_DEADLOCK FALSE
