CONSTANTS P = 83  A = 1  B = 7  Gx = 0  Gy = 16  N = 79
          SecLens <- LensQ
          Stage = "pubrep"
          SecPfx = {4}  SecXs = {0}  SecYs = {0}  SecLongYs = {0} DerPos <- PosNone  DerExt <- One0  DerExtLen = 0
SPECIFICATION Spec
INVARIANT NoBad
CHECK_DEADLOCK FALSE
