------------------------------- MODULE TxParse ------------------------------
(* Parsing the transaction wire format (module TxWire) as a cursor state     *)
(* machine over the byte string, one step per syntactic item: version,       *)
(* marker/flag, input count, each input, output count, each output, each     *)
(* witness count, each witness item, lock time, each entry of the optional   *)
(* unspents extension.  Terminal states: "done" (a transaction was read),    *)
(* "fail" (the input ends early or announces an impossible length) and       *)
(* "unspec" (a marker with a flag other than 1: outside the standard).       *)
(* Dialect "ltc" (Litecoin): flags 0x08 and 0x09 are known too; bit 3 puts    *)
(* an MWEB part - here only the single byte 0 - between the witness stacks    *)
(* and the lock time.                                                        *)
EXTENDS TxWire

\* ---------------------------------------------------------------- parsing
VARIABLES pc,      \* "version" "marker" "nin" "in" "nout" "out" "wit" "witem" "lock" "ext" | "done" "fail" "unspec"
          rest,    \* the unread part of the input (the cursor)
          ptx,     \* the transaction read so far
          cnt,     \* items still to read in the current list
          wi,      \* index of the input whose witness stack is being read
          pf       \* flags: [allow, segwit, canon, superfluous, ext, unspents]
pvars == <<pc, rest, ptx, cnt, wi, pf>>

Terminal == {"done", "fail", "unspec"}

PStartStateD(bytes, allowSegwit, ltc) ==
  [pc |-> "version", rest |-> bytes,
   ptx |-> [version |-> <<0, 0>>, ins |-> <<>>, outs |-> <<>>, lock |-> <<0, 0>>],
   cnt |-> 0, wi |-> 1,
   pf |-> [allow |-> allowSegwit, ltc |-> ltc, segwit |-> FALSE, mweb |-> FALSE, hogex |-> FALSE,
           canon |-> TRUE, superfluous |-> FALSE, ext |-> "none", unspents |-> <<>>]]
\* as an initial predicate and as an action (for specifications that pick their input in a step)
PInitD(bytes, allowSegwit, ltc) ==
  LET s == PStartStateD(bytes, allowSegwit, ltc) IN
  pc = s.pc /\ rest = s.rest /\ ptx = s.ptx /\ cnt = s.cnt /\ wi = s.wi /\ pf = s.pf
PStartD(bytes, allowSegwit, ltc) ==
  LET s == PStartStateD(bytes, allowSegwit, ltc) IN
  pc' = s.pc /\ rest' = s.rest /\ ptx' = s.ptx /\ cnt' = s.cnt /\ wi' = s.wi /\ pf' = s.pf
\* the Bitcoin dialect
PInit(bytes, allowSegwit) == PInitD(bytes, allowSegwit, FALSE)
PStart(bytes, allowSegwit) == PStartD(bytes, allowSegwit, FALSE)

Fail == pc' = "fail" /\ UNCHANGED <<rest, ptx, cnt, wi, pf>>

PVersion ==
  /\ pc = "version"
  /\ LET r == ReadFixed(rest, 4) IN
     IF ~r.ok THEN Fail
     ELSE /\ ptx' = [ptx EXCEPT !.version = FromLE(r.v)]
          /\ rest' = r.rest /\ pc' = "marker" /\ UNCHANGED <<cnt, wi, pf>>

\* BIP144: a zero byte where the input count would be announces the extended form; the flag byte must be 1.
\* (Only transactions with >= 1 input are serialised unambiguously: a legacy transaction with no input
\* has a zero byte there too.)  Any other flag value is outside the standard: "unspec".
PMarker ==
  /\ pc = "marker"
  /\ IF pf.allow /\ rest # <<>> /\ rest[1][1] = 0
     THEN IF Size(Take(rest, 2)) < 2 THEN Fail
          ELSE LET f == ByteAt(Take(rest, 2), 2) IN
               IF f = 1 \/ (pf.ltc /\ f \in {8, 9})
               THEN /\ rest' = Drop(rest, 2)
                    /\ pf' = [pf EXCEPT !.segwit = f \in {1, 9}, !.mweb = f \in {8, 9}]
                    /\ pc' = "nin" /\ UNCHANGED <<ptx, cnt, wi>>
               ELSE pc' = "unspec" /\ UNCHANGED <<rest, ptx, cnt, wi, pf>>
     ELSE pc' = "nin" /\ UNCHANGED <<rest, ptx, cnt, wi, pf>>

\* what follows the witness stacks (or the outputs when there are none)
AfterWit == IF pf.mweb THEN "mweb" ELSE "lock"
AfterOuts == IF pf.segwit /\ Len(ptx.ins) > 0 THEN "wit" ELSE AfterWit

PCount(here, loop, after) ==
  /\ pc = here
  /\ LET c == ReadCompactSize(rest) IN
     IF ~c.ok \/ c.n < 0 THEN Fail
     ELSE /\ rest' = c.rest /\ cnt' = c.n
          /\ pf' = [pf EXCEPT !.canon = @ /\ c.canon]
          /\ pc' = IF c.n = 0 THEN after ELSE loop
          /\ UNCHANGED <<ptx, wi>>

PCountIn  == PCount("nin", "in", "nout")
PCountOut == PCount("nout", "out", AfterOuts)

PIn ==
  /\ pc = "in"
  /\ LET h == ReadFixed(rest, 32)
         x == ReadFixed(h.rest, 4)
         s == ReadVarBytes(x.rest)
         q == ReadFixed(s.rest, 4) IN
     IF ~(h.ok /\ x.ok /\ s.ok /\ q.ok) THEN Fail
     ELSE /\ ptx' = [ptx EXCEPT !.ins = Append(@, [hash |-> h.v, index |-> FromLE(x.v), script |-> s.v,
                                                     seq |-> FromLE(q.v), wit |-> <<>>])]
          /\ rest' = q.rest /\ cnt' = cnt - 1
          /\ pf' = [pf EXCEPT !.canon = @ /\ s.canon]
          /\ pc' = IF cnt = 1 THEN "nout" ELSE "in"
          /\ UNCHANGED wi

POut ==
  /\ pc = "out"
  /\ LET a == ReadFixed(rest, 8)
         s == ReadVarBytes(a.rest) IN
     IF ~(a.ok /\ s.ok) THEN Fail
     ELSE /\ ptx' = [ptx EXCEPT !.outs = Append(@, [amount |-> FromLE(a.v), script |-> s.v])]
          /\ rest' = s.rest /\ cnt' = cnt - 1
          /\ pf' = [pf EXCEPT !.canon = @ /\ s.canon]
          /\ pc' = IF cnt = 1 THEN AfterOuts ELSE "out"
          /\ UNCHANGED wi

NextStack == IF wi = Len(ptx.ins) THEN AfterWit ELSE "wit"

PWitCount ==
  /\ pc = "wit"
  /\ LET c == ReadCompactSize(rest) IN
     IF ~c.ok \/ c.n < 0 THEN Fail
     ELSE /\ rest' = c.rest /\ cnt' = c.n
          /\ pf' = [pf EXCEPT !.canon = @ /\ c.canon]
          /\ IF c.n = 0 THEN pc' = NextStack /\ wi' = wi + 1
                        ELSE pc' = "witem" /\ wi' = wi
          /\ UNCHANGED ptx

PWitItem ==
  /\ pc = "witem"
  /\ LET s == ReadVarBytes(rest) IN
     IF ~s.ok THEN Fail
     ELSE /\ ptx' = [ptx EXCEPT !.ins[wi].wit = Append(@, s.v)]
          /\ rest' = s.rest /\ cnt' = cnt - 1
          /\ pf' = [pf EXCEPT !.canon = @ /\ s.canon]
          /\ IF cnt = 1 THEN pc' = NextStack /\ wi' = wi + 1
                        ELSE pc' = "witem" /\ wi' = wi

\* Litecoin's MWEB part: one byte; 0 = no MWEB transaction attached.  Anything else announces a body that is
\* not modelled: "unspec".
PMweb ==
  /\ pc = "mweb"
  /\ LET r == ReadFixed(rest, 1) IN
     IF ~r.ok THEN Fail
     ELSE IF r.v[1][1] = 0
          THEN /\ rest' = r.rest /\ pf' = [pf EXCEPT !.hogex = TRUE]
               /\ pc' = "lock" /\ UNCHANGED <<ptx, cnt, wi>>
          ELSE pc' = "unspec" /\ UNCHANGED <<rest, ptx, cnt, wi, pf>>

\* after the lock time the transaction is complete; whatever follows is the unspents extension
PLock ==
  /\ pc = "lock"
  /\ LET r == ReadFixed(rest, 4) IN
     IF ~r.ok THEN Fail
     ELSE /\ ptx' = [ptx EXCEPT !.lock = FromLE(r.v)]
          /\ rest' = r.rest
          /\ pf' = [pf EXCEPT !.superfluous = pf.segwit /\ ~HasWitness(ptx)]
          /\ IF r.rest = <<>> \/ Len(ptx.ins) = 0
             THEN pc' = "done" /\ cnt' = 0
             ELSE pc' = "ext" /\ cnt' = Len(ptx.ins)
          /\ UNCHANGED wi

\* one spent output per input; if they cannot all be read there is no extension
PExt ==
  /\ pc = "ext"
  /\ LET a == ReadFixed(rest, 8)
         s == ReadVarBytes(a.rest) IN
     IF ~(a.ok /\ s.ok)
     THEN /\ pf' = [pf EXCEPT !.ext = "bad", !.unspents = <<>>]
          /\ pc' = "done" /\ UNCHANGED <<rest, ptx, cnt, wi>>
     ELSE /\ pf' = [pf EXCEPT !.unspents = Append(@, [amount |-> FromLE(a.v), script |-> s.v]),
                              !.canon = @ /\ s.canon,
                              !.ext = IF cnt = 1 THEN "ok" ELSE @]
          /\ rest' = s.rest /\ cnt' = cnt - 1
          /\ pc' = IF cnt = 1 THEN "done" ELSE "ext"
          /\ UNCHANGED <<ptx, wi>>

PNext == \/ PVersion \/ PMarker \/ PCountIn \/ PIn \/ PCountOut \/ POut
         \/ PWitCount \/ PWitItem \/ PMweb \/ PLock \/ PExt

\* the bytes were in the standard form the property speaks about
Standard == pc = "done" /\ pf.canon /\ ~pf.superfluous /\ pf.ext # "bad"
=============================================================================
