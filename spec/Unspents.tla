------------------------------- MODULE Unspents -------------------------------
(* C13 - the procedure that authenticates what a transaction believes it     *)
(* spends (rules: UnspentRules.tla), as a state machine.  It examines the    *)
(* inputs one at a time in an arbitrary order; TLC shows (MC_Unspents) that  *)
(* the verdict does not depend on the order and is exactly AllBacked, for    *)
(* every transaction and every database within the bounds.                   *)
EXTENDS UnspentRules

\* ------------------------------------------------------------ the machine
VARIABLES tx, db,
          todo,      \* inputs not yet examined
          status,    \* "run" | "ret" | "raise"
          why        \* reason of the raise
uvars == <<tx, db, todo, status, why>>

UStart(t, d) == /\ tx = t /\ db = d
                /\ todo = 1..Len(t.ins) /\ status = "run" /\ why = "ok"

Examine(i) == /\ status = "run" /\ i \in todo
              /\ IF Backed(tx, db, i)
                 THEN todo' = todo \ {i} /\ UNCHANGED <<status, why>>
                 ELSE status' = "raise" /\ why' = Reason(tx, db, i) /\ UNCHANGED todo
              /\ UNCHANGED <<tx, db>>

Return == /\ status = "run" /\ todo = {}
          /\ status' = "ret"
          /\ UNCHANGED <<tx, db, todo, why>>

UNext == (\E i \in todo : Examine(i)) \/ Return

\* ------------------------------------------------------------ lemmas
Final == status \in {"ret", "raise"}
\* never returns normally when something differs; returns when nothing does
RetIffBacked == Final => ((status = "ret") = AllBacked(tx, db))
\* a raise names a real discrepancy of some input
RaiseHasReason == status = "raise" => why # "ok" /\ \E i \in 1..Len(tx.ins) : Reason(tx, db, i) = why
\* the machine cannot get stuck before a verdict
Progress == status = "run" => (todo # {} \/ ENABLED Return)
=============================================================================
