SPECIFICATION MSpec
CONSTANTS
  Tier = "quick"
  HashHas <- ToyHashHas
  HashGet <- ToyHashGet
  SigHas <- ToySigHas
  SigGet <- ToySigGet
INVARIANT LemmasHold
CHECK_DEADLOCK FALSE
