CONSTANTS MaxIn = 2  MaxOut = 1
CONSTANT HashSequence <- BadHashSequence
SPECIFICATION Spec
INVARIANTS CommitmentLemma
CHECK_DEADLOCK FALSE
