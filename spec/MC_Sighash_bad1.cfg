CONSTANTS MaxIn = 2  MaxOut = 1
CONSTANT HashSequence <- BadHashSequence
CONSTANT HtSet <- HtAll
SPECIFICATION Spec
INVARIANTS CommitmentLemma
CHECK_DEADLOCK FALSE
