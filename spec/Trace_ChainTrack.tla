--------------------------- MODULE Trace_ChainTrack ---------------------------
(* Code -> spec binding for C15 at the level of the PROPERTY itself: recorded *)
(* runs of pycoin's BlockChain (what was delivered / locked, and what the API  *)
(* reported afterwards) are checked to be behaviours of ChainTrack.tla.  No    *)
(* implementation state is involved, so this is cheap (one state per call)     *)
(* and is run on thousands of seeded random histories with up to N headers.    *)
EXTENDS ChainTrack, Json, IOUtils, TLCExt, TLC

Traces == JsonDeserialize(IOEnv.TRACE_FILE)
VARIABLES tid, l
tvars == <<ctvars, tid, l>>
Ev == Traces[tid].ev
Cur == Ev[l]

TInit == /\ TLCSet(1, {})
         /\ tid \in 1..Len(Traces) /\ l = 1
         /\ par = Traces[tid].par /\ wt = Traces[tid].wt
         /\ delivered = {} /\ nlocked = 0 /\ chain = <<>> /\ lastops = <<>>
         /\ idx = [h \in Hashes |-> -1]

TDeliver == /\ l <= Len(Ev) /\ Cur.a = "D" /\ Cur.exc = 0
            /\ chain' = Cur.chain /\ lastops' = Cur.ops /\ idx' = Cur.idx
            /\ Cur.locked = nlocked
            /\ CTDeliver(ToSet(Cur.arg))
            /\ l' = l + 1 /\ UNCHANGED tid
TLock == /\ l <= Len(Ev) /\ Cur.a = "L" /\ Cur.exc = 0
         /\ Cur.chain = chain /\ Cur.idx = idx
         /\ \/ Cur.locked = Cur.arg[1] /\ CTLock(Cur.arg[1])
            \/ Cur.locked = nlocked /\ CTRelock(Cur.arg[1])
         /\ l' = l + 1 /\ UNCHANGED tid
TNext == TDeliver \/ TLock
TSpec == TInit /\ [][TNext]_tvars

Reached == IF l = Len(Ev) + 1 THEN TLCSet(1, TLCGet(1) \cup {tid}) ELSE TRUE
Post == PrintT(ToJson([k |-> "rejected", n |-> Len(Traces), ids |-> (1..Len(Traces)) \ TLCGet(1)]))
=============================================================================
