---------------------------- MODULE Trace_TxBuild ----------------------------
(* Code -> spec binding for C13: recorded executions of pycoin on realistic   *)
(* amounts (up to 21e14 satoshi per spendable, random payable lists, random   *)
(* databases, random decimal amounts) are checked against the rule book.      *)
(* Amounts are base-10^4 limbs (least significant first) and TxRules is      *)
(* instantiated with limb arithmetic, so conservation, positivity, the       *)
(* at-most-one-apart/earlier-larger split, the error condition, the fee      *)
(* report and the pairing are decided by TLC on the real numbers; the        *)
(* authentication verdict by UnspentRules!AllBacked; decimal text by         *)
(* CoinDecimal's digit shuffling.                                            *)
(*                                                                           *)
(* A trace is a list of events about ONE transaction:                        *)
(*   build     request + (error | the transaction: outputs, outpoints,        *)
(*             unspents, total_in, total_out, fee)                            *)
(*   validate  the unspents the transaction holds at that moment, a database,*)
(*             and whether validate_unspents returned (with which fee)       *)
(*   conv      a conversion call: direction, unit, satoshi digits, text      *)
(* The state carries the transaction from its build to later validations.    *)
EXTENDS Integers, Sequences, FiniteSets, Json, IOUtils, TLC, TLCExt

B == 10000
Lm == INSTANCE Limbs WITH B <- B
L  == INSTANCE TxRules WITH Add <- Lm!LAdd, Leq <- Lm!LLeq, Zero <- Lm!LZero, One <- Lm!LOne
U  == INSTANCE UnspentRules
CD == INSTANCE CoinDecimal

Traces == JsonDeserialize(IOEnv.TRACE_FILE)

VARIABLES tid, l,
          tx,      \* the transaction built by this trace (U-shaped record), or NoTx
          built    \* TRUE once a build event produced a transaction
tvars == <<tid, l, tx, built>>
Ev == Traces[tid].ev
Cur == Ev[l]
NoTx == [ins |-> << >>, unspents |-> << >>, outs |-> << >>]

\* ---- decoding of logged tuples into the records of the rule book
Sp(t)  == [src |-> t[1], idx |-> t[2], amt |-> t[3], scr |-> t[4]]
Pay(t) == [to |-> t[1], amt |-> t[2]]
In(t)  == [src |-> t[1], idx |-> t[2]]
Un(t)  == [amt |-> t[1], scr |-> t[2]]
Map(s, F(_)) == [i \in 1..Len(s) |-> F(s[i])]
DbEntry(e) == IF e.st = "tx" THEN U!Stored(e.id, Map(e.outs, Un)) ELSE U!Missing

WfAmts(s) == \A i \in 1..Len(s) : Lm!IsLimbs(s[i])

\* ---- build
BuildOK(e) ==
  LET sps  == Map(e.sps, Sp)
      pays == Map(e.pays, Pay)
      t    == [ins |-> Map(e.ins, In), unspents |-> Map(e.unsp, Un), outs |-> Map(e.outs, Pay)]
      res  == [err |-> e.err, tx |-> t] IN
  /\ WfAmts(L!Amts(sps)) /\ WfAmts(L!Amts(pays)) /\ Lm!IsLimbs(e.fee)
  /\ L!OutcomeOK(sps, pays, e.fee, res)
  /\ ~e.err => /\ WfAmts(L!Amts(t.outs)) /\ WfAmts(L!Amts(t.unspents))
               /\ Lm!IsLimbs(e.tin) /\ Lm!IsLimbs(e.tout) /\ Lm!IsLimbs(e.fmag)
               /\ L!FeeReport(t, e.tin, e.tout, e.fsign, e.fmag)
               /\ L!FeeAsRequested(pays, e.fee, e.fsign, e.fmag)

TBuild == /\ l <= Len(Ev) /\ Cur.k = "build" /\ ~built
          /\ BuildOK(Cur)
          /\ IF Cur.err THEN tx' = NoTx /\ built' = FALSE
             ELSE /\ tx' = [ins |-> Map(Cur.ins, In), unspents |-> Map(Cur.unsp, Un), outs |-> Map(Cur.outs, Pay)]
                  /\ built' = TRUE
          /\ l' = l + 1 /\ UNCHANGED tid

\* ---- validate: the recorder may have re-paired the inputs with other unspents
\* (set_unspents) before the call; the event says what the transaction held
TValidate ==
  /\ l <= Len(Ev) /\ Cur.k = "validate" /\ built
  /\ Len(Cur.unsp) = Len(tx.ins) /\ WfAmts(L!Amts(Map(Cur.unsp, Un)))
  /\ LET t  == [tx EXCEPT !.unspents = Map(Cur.unsp, Un)]
         db == [s \in 1..Len(Cur.db) |-> DbEntry(Cur.db[s])] IN
     /\ \A i \in 1..Len(t.ins) : t.ins[i].src \in DOMAIN db
     /\ Cur.ret = U!AllBacked(t, db)
     /\ Cur.ret => /\ Lm!IsLimbs(Cur.fmag)
                   /\ L!FeeReport(t, L!Total(L!Amts(t.unspents)), L!Total(L!Amts(t.outs)), Cur.fsign, Cur.fmag)
     /\ tx' = t
  /\ l' = l + 1 /\ UNCHANGED <<tid, built>>

\* ---- conv
DigitOf(ch) == CHOOSE d \in 0..9 : CD!Ch[d + 1] = ch
IsDigitCh(ch) == \E d \in 0..9 : CD!Ch[d + 1] = ch
\* text of digits with at most one point -> [int, frac]; a missing integer part reads as 0
ParseCoin(t) ==
  LET P == {i \in 1..Len(t) : t[i] = "."}
      p == IF P = {} THEN Len(t) + 1 ELSE CHOOSE i \in P : TRUE
      ip == [i \in 1..(p - 1) |-> DigitOf(t[i])] IN
  [int |-> IF ip = << >> THEN << 0 >> ELSE ip, frac |-> [i \in 1..(Len(t) - p) |-> DigitOf(t[p + i])]]
WfCoinText(t) == /\ Cardinality({i \in 1..Len(t) : t[i] = "."}) <= 1
                 /\ \A i \in 1..Len(t) : t[i] = "." \/ IsDigitCh(t[i])
                 /\ \E i \in 1..Len(t) : t[i] # "."
WfSatText(t) == t # << >> /\ \A i \in 1..Len(t) : IsDigitCh(t[i])

TConv ==
  /\ l <= Len(Ev) /\ Cur.k = "conv"
  /\ WfSatText(Cur.sat) /\ WfCoinText(Cur.coin) /\ Cur.D \in {5, 8}
  /\ LET sat == [i \in 1..Len(Cur.sat) |-> DigitOf(Cur.sat[i])]
         c   == ParseCoin(Cur.coin) IN
     /\ CD!IsCanon(sat)
     /\ IF Cur.dir = "s2c"
        THEN CD!SameCoin(CD!SatToCoin(sat, Cur.D), c)           \* satoshis in, amount text out
        ELSE CD!Representable(c, Cur.D) /\ CD!CoinToSat(c, Cur.D) = sat   \* text in, satoshis out
  /\ l' = l + 1 /\ UNCHANGED <<tid, tx, built>>

TInit == /\ TLCSet(1, {})
         /\ tid \in 1..Len(Traces) /\ l = 1 /\ tx = NoTx /\ built = FALSE
TNext == TBuild \/ TValidate \/ TConv
TSpec == TInit /\ [][TNext]_tvars

Reached == IF l = Len(Ev) + 1 THEN TLCSet(1, TLCGet(1) \cup {tid}) ELSE TRUE
Post == PrintT(ToJson([k |-> "rejected", n |-> Len(Traces), ids |-> (1..Len(Traces)) \ TLCGet(1)]))
=============================================================================
