---------------------------- MODULE Trace_TxBuild ----------------------------
(* Code -> spec binding for C13: recorded executions of pycoin on realistic   *)
(* amounts (up to 21e14 satoshi per spendable, random payable lists, random   *)
(* databases, random decimal amounts) are checked against the rule book.      *)
(* Amounts are base-10^4 limbs (least significant first) and TxRules is      *)
(* instantiated with limb arithmetic, so conservation, positivity, the       *)
(* at-most-one-apart/earlier-larger split, the error condition, the fee      *)
(* report and the pairing are decided by TLC on the real numbers; the        *)
(* authentication verdict by UnspentRules!AllBacked; decimal text by         *)
(* CoinDecimal's digit shuffling.                                            *)
(*                                                                           *)
(* A trace is a list of events about ONE transaction:                        *)
(*   build     request + (error | the transaction: outputs, outpoints,        *)
(*             unspents, total_in, total_out, fee)                            *)
(*   validate  the unspents the transaction holds at that moment, a database,*)
(*             and whether validate_unspents returned (with which fee)       *)
(*   conv      a conversion call: direction, unit, satoshi digits, text      *)
(*   set / assign / fromdb / append / replace / remove_in / append_in        *)
(*             the object is edited (TxSession.tla's writers), with whether   *)
(*             the call raised                                               *)
(*   tin / tout / fee                           total_in(), total_out(),     *)
(*             fee() of the long-lived object (ok: answered, or refused)     *)
(* When the unspents list has no longer one entry per input (TxSession.tla,  *)
(* SHAPE) a question about the inputs' value must be refused if some input   *)
(* has no unspent, and is refused or answered from the entries paired with   *)
(* the inputs if there are surplus entries.                                  *)
(* The state carries the transaction from its build through every edit: TLC  *)
(* applies the logged edits itself and demands that each answer is the one   *)
(* the CURRENT fields determine (history independence), on the real amounts. *)
EXTENDS Integers, Sequences, FiniteSets, Json, IOUtils, TLC, TLCExt

B == 10000
Lm == INSTANCE Limbs WITH B <- B
L  == INSTANCE TxRules WITH Add <- Lm!LAdd, Leq <- Lm!LLeq, Zero <- Lm!LZero, One <- Lm!LOne
U  == INSTANCE UnspentRules
CD == INSTANCE CoinDecimal

Traces == JsonDeserialize(IOEnv.TRACE_FILE)

VARIABLES tid, l,
          tx,      \* the transaction built by this trace (U-shaped record), or NoTx
          built    \* TRUE once a build event produced a transaction
tvars == <<tid, l, tx, built>>
Ev == Traces[tid].ev
Cur == Ev[l]
NoTx == [ins |-> << >>, unspents |-> << >>, outs |-> << >>]

\* ---- decoding of logged tuples into the records of the rule book
Sp(t)  == [src |-> t[1], idx |-> t[2], amt |-> t[3], scr |-> t[4]]
Pay(t) == [to |-> t[1], amt |-> t[2]]
In(t)  == [src |-> t[1], idx |-> t[2]]
Un(t)  == [amt |-> t[1], scr |-> t[2]]
Map(s, F(_)) == [i \in 1..Len(s) |-> F(s[i])]
DbEntry(e) == IF e.st = "tx" THEN U!Stored(e.id, Map(e.outs, Un)) ELSE U!Missing

WfAmts(s) == \A i \in 1..Len(s) : Lm!IsLimbs(s[i])

\* ---- build
BuildOK(e) ==
  LET sps  == Map(e.sps, Sp)
      pays == Map(e.pays, Pay)
      t    == [ins |-> Map(e.ins, In), unspents |-> Map(e.unsp, Un), outs |-> Map(e.outs, Pay)]
      res  == [err |-> e.err, tx |-> t] IN
  /\ WfAmts(L!Amts(sps)) /\ WfAmts(L!Amts(pays)) /\ Lm!IsLimbs(e.fee)
  /\ L!OutcomeOK(sps, pays, e.fee, res)
  /\ ~e.err => /\ WfAmts(L!Amts(t.outs)) /\ WfAmts(L!Amts(t.unspents))
               /\ Lm!IsLimbs(e.tin) /\ Lm!IsLimbs(e.tout) /\ Lm!IsLimbs(e.fmag)
               /\ L!FeeReport(t, e.tin, e.tout, e.fsign, e.fmag)
               /\ L!FeeAsRequested(pays, e.fee, e.fsign, e.fmag)

TBuild == /\ l <= Len(Ev) /\ Cur.k = "build" /\ ~built
          /\ BuildOK(Cur)
          /\ IF Cur.err THEN tx' = NoTx /\ built' = FALSE
             ELSE /\ tx' = [ins |-> Map(Cur.ins, In), unspents |-> Map(Cur.unsp, Un), outs |-> Map(Cur.outs, Pay)]
                  /\ built' = TRUE
          /\ l' = l + 1 /\ UNCHANGED tid

\* ---- validate: against the fields TLC tracks (the logged unspents must be those)
DbOf(e) == [s \in 1..Len(e.db) |-> DbEntry(e.db[s])]
SrcsKnown(db) == \A i \in 1..Len(tx.ins) : tx.ins[i].src \in DOMAIN db
\* the shape of the object (TxSession.tla) and the entries paired with the inputs
Shaped  == Len(tx.unspents) = Len(tx.ins)
Short   == Len(tx.unspents) < Len(tx.ins)
Paired  == [tx EXCEPT !.unspents = SubSeq(@, 1, Len(tx.ins))]           \* (not Short)
CurIn  == L!Total(L!Amts(Paired.unspents))
CurOut == L!Total(L!Amts(tx.outs))
\* a question about the inputs' value was answered (then: from the paired entries) or refused
\* (admissible whenever the shape is wrong; the only admissible outcome when an input has no unspent)
Answered(ok, right) == IF Short THEN ~ok ELSE IF Shaped THEN ok /\ right ELSE ok => right
TValidate ==
  /\ l <= Len(Ev) /\ Cur.k = "validate" /\ built
  /\ Map(Cur.unsp, Un) = tx.unspents
  /\ LET db == DbOf(Cur) IN
     /\ SrcsKnown(db)
     /\ IF Short THEN ~Cur.ret
        ELSE /\ Cur.ret => U!AllBacked(Paired, db)
             /\ Shaped => (Cur.ret = U!AllBacked(tx, db))
             /\ Cur.ret => Lm!IsLimbs(Cur.fmag) /\ L!FeeReport(Paired, CurIn, CurOut, Cur.fsign, Cur.fmag)
  /\ l' = l + 1 /\ UNCHANGED <<tid, tx, built>>

\* ---- the session: writers
TSet ==      \* checked setter: a list of the wrong length raises and changes nothing
  /\ l <= Len(Ev) /\ Cur.k = "set" /\ built
  /\ WfAmts(L!Amts(Map(Cur.un, Un)))
  /\ IF Len(Cur.un) = Len(tx.ins)
     THEN Cur.ok /\ tx' = [tx EXCEPT !.unspents = Map(Cur.un, Un)]
     ELSE ~Cur.ok /\ UNCHANGED tx
  /\ l' = l + 1 /\ UNCHANGED <<tid, built>>
TAssign ==   \* tx.unspents = list (of any length)
  /\ l <= Len(Ev) /\ Cur.k = "assign" /\ built
  /\ WfAmts(L!Amts(Map(Cur.un, Un))) /\ Cur.ok
  /\ tx' = [tx EXCEPT !.unspents = Map(Cur.un, Un)]
  /\ l' = l + 1 /\ UNCHANGED <<tid, built>>
TFromDb ==
  /\ l <= Len(Ev) /\ Cur.k = "fromdb" /\ built
  /\ LET db == DbOf(Cur) IN
     /\ SrcsKnown(db)
     /\ Cur.ok = U!Fetchable(tx, db)
     /\ IF Cur.ok THEN tx' = [tx EXCEPT !.unspents = U!Fetched(tx, db)] ELSE UNCHANGED tx
  /\ l' = l + 1 /\ UNCHANGED <<tid, built>>
TAppend ==
  /\ l <= Len(Ev) /\ Cur.k = "append" /\ built /\ Lm!IsLimbs(Cur.out[2])
  /\ tx' = [tx EXCEPT !.outs = Append(@, Pay(Cur.out))]
  /\ l' = l + 1 /\ UNCHANGED <<tid, built>>
TReplace ==
  /\ l <= Len(Ev) /\ Cur.k = "replace" /\ built /\ Lm!IsLimbs(Cur.out[2])
  /\ Cur.i \in 1..Len(tx.outs)
  /\ tx' = [tx EXCEPT !.outs[Cur.i] = Pay(Cur.out)]
  /\ l' = l + 1 /\ UNCHANGED <<tid, built>>
TRemoveIn == \* the last input is dropped; the unspents are not told
  /\ l <= Len(Ev) /\ Cur.k = "remove_in" /\ built /\ Len(tx.ins) > 1
  /\ tx' = [tx EXCEPT !.ins = SubSeq(@, 1, Len(@) - 1)]
  /\ l' = l + 1 /\ UNCHANGED <<tid, built>>
TAppendIn == \* one more input
  /\ l <= Len(Ev) /\ Cur.k = "append_in" /\ built
  /\ tx' = [tx EXCEPT !.ins = Append(@, In(Cur.inp))]
  /\ l' = l + 1 /\ UNCHANGED <<tid, built>>
\* ---- the session: queries (answers are functions of the current fields)
TTin  == /\ l <= Len(Ev) /\ Cur.k = "tin" /\ built
         /\ Answered(Cur.ok, Cur.v = CurIn)
         /\ l' = l + 1 /\ UNCHANGED <<tid, tx, built>>
TTout == /\ l <= Len(Ev) /\ Cur.k = "tout" /\ built /\ Cur.v = CurOut
         /\ l' = l + 1 /\ UNCHANGED <<tid, tx, built>>
TFee  == /\ l <= Len(Ev) /\ Cur.k = "fee" /\ built
         /\ Answered(Cur.ok, Lm!IsLimbs(Cur.fmag) /\ L!FeeReport(Paired, CurIn, CurOut, Cur.fsign, Cur.fmag))
         /\ l' = l + 1 /\ UNCHANGED <<tid, tx, built>>

\* ---- conv
DigitOf(ch) == CHOOSE d \in 0..9 : CD!Ch[d + 1] = ch
IsDigitCh(ch) == \E d \in 0..9 : CD!Ch[d + 1] = ch
\* text of digits with at most one point -> [int, frac]; a missing integer part reads as 0
ParseCoin(t) ==
  LET P == {i \in 1..Len(t) : t[i] = "."}
      p == IF P = {} THEN Len(t) + 1 ELSE CHOOSE i \in P : TRUE
      ip == [i \in 1..(p - 1) |-> DigitOf(t[i])] IN
  [int |-> IF ip = << >> THEN << 0 >> ELSE ip, frac |-> [i \in 1..(Len(t) - p) |-> DigitOf(t[p + i])]]
WfCoinText(t) == /\ Cardinality({i \in 1..Len(t) : t[i] = "."}) <= 1
                 /\ \A i \in 1..Len(t) : t[i] = "." \/ IsDigitCh(t[i])
                 /\ \E i \in 1..Len(t) : t[i] # "."
WfSatText(t) == t # << >> /\ \A i \in 1..Len(t) : IsDigitCh(t[i])

TConv ==
  /\ l <= Len(Ev) /\ Cur.k = "conv"
  /\ WfSatText(Cur.sat) /\ WfCoinText(Cur.coin) /\ Cur.D \in {5, 8}
  /\ LET sat == [i \in 1..Len(Cur.sat) |-> DigitOf(Cur.sat[i])]
         c   == ParseCoin(Cur.coin) IN
     /\ CD!IsCanon(sat)
     /\ IF Cur.dir = "s2c"
        THEN CD!SameCoin(CD!SatToCoin(sat, Cur.D), c)           \* satoshis in, amount text out
        ELSE CD!Representable(c, Cur.D) /\ CD!CoinToSat(c, Cur.D) = sat   \* text in, satoshis out
  /\ l' = l + 1 /\ UNCHANGED <<tid, tx, built>>

TInit == /\ TLCSet(1, {})
         /\ tid \in 1..Len(Traces) /\ l = 1 /\ tx = NoTx /\ built = FALSE
TNext == \/ TBuild \/ TValidate \/ TConv
         \/ TSet \/ TAssign \/ TFromDb \/ TAppend \/ TReplace \/ TRemoveIn \/ TAppendIn
         \/ TTin \/ TTout \/ TFee
TSpec == TInit /\ [][TNext]_tvars

Reached == IF l = Len(Ev) + 1 THEN TLCSet(1, TLCGet(1) \cup {tid}) ELSE TRUE
Post == PrintT(ToJson([k |-> "rejected", n |-> Len(Traces), ids |-> (1..Len(Traces)) \ TLCGet(1)]))
=============================================================================
