CONSTANTS Mode = "bits"  MaxLen = 5  MaxText = 5  LongZ = 8  LongN = 40  NPay = 0  Rich = FALSE  NPat = 2  NRnd = 0
SPECIFICATION Spec
INVARIANTS Guarantee ValidBasesDecode
CHECK_DEADLOCK FALSE
