CONSTANTS NIn = 2  NSrc = 2  MaxIdx = 1  MaxOuts = 1  Amt = {1, 2}  Scr = {1, 2}
SPECIFICATION MSpec
INVARIANTS MRetIffBacked RaiseHasReason MProgress
CHECK_DEADLOCK FALSE
