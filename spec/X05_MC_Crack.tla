----------------------------- MODULE X05_MC_Crack -----------------------------
(* X05 on one toy curve: TLC proves the lemmas of X05_Crack.tla on EVERY      *)
(* (d, k, z1, z2, e1, e2) and prints, per work item, what a recovery helper   *)
(* owes its caller (spec -> code replay).                                     *)
(*                                                                            *)
(* Work items (one TLC state each, dealt to Dealers initial states so that    *)
(* the lemmas and the export run on all workers):                             *)
(*   <<"sig", d, k, z1>>   the first signature of a true case; the row lists, *)
(*       for every second digest z2 in Z2 and every low-s pattern, the        *)
(*       outcome of Part 1 - also for a second signer with ANOTHER key and    *)
(*       the same nonce, for another nonce, and for a copied signature.       *)
(*   <<"obs", r, s1, z1>>  ANY observation (not necessarily made by one key   *)
(*       and one nonce): outcome for every (s2, z2).        [s1 in OS1]      *)
(*   <<"b32", kpar>>       toy BIP32: for every il in 0..M-1 the validity of   *)
(*       the index, the child key and the ascent from EVERY claimed child key. *)
EXTENDS X05_Crack, Json

CONSTANTS DS, KS,     \* the keys and nonces of the "sig" rows (subsets of 1..N-1)
          Z1,          \* the first digests of the "sig" rows (subset of 1..N)
          Z2,          \* the second digests of a "sig" row (subset of 1..N; N stands for 0: the library refuses to sign 0)
          D2,          \* other keys of the "otherkey" variant
          OS1,         \* arbitrary observations: the values of s1 enumerated (may be empty)
          DeepD,       \* the keys d for whose rows ClosedForm / StrictIsCand (definition = closed form) are checked on every case
          M,           \* toy BIP32: il ranges over 0..M-1
          Dealers

VARIABLES ph, it
vars == <<ph, it>>

ZAll == 1..N
ZL == Z2      \* the second digests the lemmas range over
Pats == << <<1, 1>>, <<1, -1>>, <<-1, 1>>, <<-1, -1>> >>
RVals == {XRT[kX] : kX \in ZnStar} \ {0}

SigItems == {<<"sig", dd, kk, zz>> : dd \in DS, kk \in KS, zz \in Z1}
ObsItems == {<<"obs", rr, ss, zz>> : rr \in RVals, ss \in OS1, zz \in Zn}
B32Items == {<<"b32", kk>> : kk \in ZnStar}
Items == SigItems \cup ObsItems \cup B32Items
\* deal by a cheap hash of the item's numbers
Deal(x) == (x[2] * 7 + x[Len(x)] * 3 + Len(x)) % Dealers

Init == ph = "deal" /\ it \in 0..(Dealers - 1)
Pick == ph = "deal" /\ \E x \in {y \in Items : Deal(y) = it} : ph' = "work" /\ it' = x

Out(oo) == Let1({<<o.must, o.may>> : o \in {oo}})
Case(second, z1, z2, e1, e2) == [second |-> second, zsame |-> (z1 - z2) % N = 0, e1 |-> e1, e2 |-> e2]
\* ---- a "sig" row
SigRowA(d, k, z1, a) ==
  IF ~SigUsable(a) THEN [k |-> "sig", d |-> d, kk |-> k, z1 |-> z1, usable |-> FALSE]
  ELSE [k |-> "sig", d |-> d, kk |-> k, z1 |-> z1, usable |-> TRUE, r |-> a.r, s1 |-> a.s,
        fromk |-> FromK(a.r, a.s, z1, k),
        fromkflip |-> FromK(a.r, (N - a.s) % N, z1, N - k),
        \* same key, same nonce: for each z2 (with a usable second signature) and each pattern
        same |-> [iz \in 1..N |-> IF iz \notin Z2 THEN <<>> ELSE
                    Let1({IF ~SigUsable(b) THEN <<>>
                    ELSE <<b.s, [ip \in 1..4 |->
                            Let1({<<o.must, o.may, Coincidence(ClassOutcome(Case("same", z1, iz, Pats[ip][1], Pats[ip][2])), o, k)>> :
                                    o \in {Outcome(a.r, Flip(a.s, Pats[ip][1]), z1 % N, b.r, Flip(b.s, Pats[ip][2]), iz % N)}})]>> : b \in {SigT(d, iz, k)}})],
        \* another key, same nonce (patterns <<1,1>> and <<1,-1>>)
        otherkey |-> {<<d2, iz, b.s, Out(Outcome(a.r, a.s, z1 % N, b.r, b.s, iz % N)),
                                     Out(Outcome(a.r, a.s, z1 % N, b.r, Flip(b.s, -1), iz % N))>> :
                         <<d2, iz, b>> \in {<<dx, zx, SigT(dx, zx, k)>> : dx \in D2 \ {d}, zx \in Z2 \ {z1}}},
        \* same key, another nonce
        othernonce |-> {<<k2, b.r, b.s, Out(Outcome(a.r, a.s, z1 % N, b.r, b.s, (z1 % N) + 1))>> :
                         <<k2, b>> \in {<<kx, SigT(d, z1 + 1, kx)>> : kx \in {NextNonce(k), NextNonce(NextNonce(k))} \ {k, N - k}}},
        \* the first signature's (r, s) presented again, for every other digest
        copy |-> [iz \in 1..N |-> IF iz \notin Z2 THEN <<>> ELSE Out(Outcome(a.r, a.s, z1 % N, a.r, a.s, iz % N))]]

SigRow(d, k, z1) == Let1({SigRowA(d, k, z1, a) : a \in {SigT(d, z1, k)}})

\* ---- an "obs" row
ObsRow(r, s1, z1) ==
  [k |-> "obs", r |-> r, s1 |-> s1, z1 |-> z1,
   rows |-> [s2 \in ZnStar |-> [iz \in 1..N |-> Out(Outcome(r, s1, z1, r, s2, iz % N))]]]

\* ---- a "b32" row
B32Row(kpar) ==
  [k |-> "b32", kpar |-> kpar, K |-> PtTabX[kpar],
   rows |-> [j \in 1..M |-> LET il == j - 1 IN
               [il |-> il, valid |-> ToyValid(kpar, il), child |-> IF ToyValid(kpar, il) THEN ToyCKD(kpar, il) ELSE 0,
                asc |-> [c \in 1..(N + 1) |-> ToyAscend(PtTabX[kpar], c - 1, il)]]]]

Row(x) == CASE x[1] = "sig" -> SigRow(x[2], x[3], x[4])
            [] x[1] = "obs" -> ObsRow(x[2], x[3], x[4])
            [] x[1] = "b32" -> B32Row(x[2])
Work == ph = "work" /\ ph' = "done" /\ UNCHANGED it /\ PrintT(ToJson(Row(it)))
Next == Pick \/ Work
Spec == Init /\ [][Next]_vars

(* ------------------------------- lemmas ------------------------------- *)
SigLemmas(d, k, z1) ==
  \A a \in {SigT(d, z1, k)} :
  /\ SigTOk(d, z1, k) /\ LowSIsNegNonce(d, k, z1) /\ SignsIsSigOf(d, k, z1) /\ FromKSound(d, k, z1)
  /\ SigUsable(a) =>
       \A z2 \in ZL : \A e1 \in Sgn, e2 \in Sgn :
         \A b \in {SigT(d, z2, k)} :
         SigUsable(b) =>
           \A s1 \in {Flip(a.s, e1)}, s2 \in {Flip(b.s, e2)} :
           \A o \in {Outcome(a.r, s1, z1 % N, b.r, s2, z2 % N)} :
           /\ TruthIsCand(d, k, z1, z2, e1, e2)
           /\ ((z1 - z2) % N = 0 => SameDigestUndetermined(d, k, z1, e1, e2))
           /\ ClassAgrees(ClassOutcome(Case("same", z1, z2, e1, e2)), o, k)
           /\ (d \in DeepD => (StrictIsCand(a.r, s1, z1 % N, s2, z2 % N) /\ ClosedForm(a.r, s1, z1 % N, s2, z2 % N)))
           \* whatever may be returned reproduces r
           /\ \A kx \in o.may : XRT[kx] = a.r
           /\ (o.must # 0 => o.must \in o.may)
ObsLemmas(r, s1, z1) ==
  \A s2 \in ZnStar, z2 \in Zn : /\ ClosedForm(r, s1, z1, s2, z2)
                                /\ (z2 % 4 = 0 => StrictIsCand(r, s1, z1, s2, z2))
B32Lemmas(kpar) == \A il \in 0..(M - 1) : \A ix \in {T!Idx(FALSE, 0), T!Idx(FALSE, 2147483647)} : ToyCompose(kpar, il, ix)

\* deliberately wrong definitions (X05_MC_Crack_bad_*.cfg substitute them): the lemmas must notice
BadPatD(r, s1, z1, f1, k) == (((s1 * k - z1) % N) * InvT[r]) % N           \* forgets which signature was normalised
BadFlip(s, e) == s                                                          \* "normalisation changes nothing"
BadToyValid(kpar, il) == il <= N /\ (il + kpar) % N # 0                     \* IL = n taken for a valid tweak

LemmasHold == ph = "work" =>
  CASE it[1] = "sig" -> SigLemmas(it[2], it[3], it[4])
    [] it[1] = "obs" -> ObsLemmas(it[2], it[3], it[4])
    [] it[1] = "b32" -> B32Lemmas(it[2])
TablesOk == ph = "deal" /\ it = 0 => XRTOk

=============================================================================
