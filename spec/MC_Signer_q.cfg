CONSTANTS NK = 3  NM = 2  MaxPasses = 2
          Shapes <- ShapesW  Coins <- CoinsQ  HashTypes <- HTq  Passes <- WidePasses
CONSTANT Edits <- NoEdits
SPECIFICATION Spec
INVARIANTS TypeOK ValidIff SignedSane NeverValidWithFewKeys Confluence ValidDependsOnUnionOnly
PROPERTIES Monotone ValidUntouched FrameKept UnaskedUntouched EditOnlyLoses
CHECK_DEADLOCK FALSE
