--------------------------- MODULE MC_TxWireHistory ---------------------------
(* C07, the HISTORY dimension: one long-lived transaction object, asked for    *)
(* its ids and its bytes BETWEEN edits of its fields (a wallet builds a         *)
(* transaction, looks at the id, bumps the lock time or a sequence number,      *)
(* signs - which writes scriptSigs and witness stacks -, looks at the ids       *)
(* again).  The ids and the serialisation are functions of the CURRENT fields:  *)
(*   id = H256d(Stripped(fields)),  witness id = H256d(Wire(fields)),           *)
(* whatever was asked or changed before.                                        *)
(*                                                                             *)
(* The machine is implementation shaped in one respect: a call answers through *)
(* a memo keyed by Key(call, fields).  With Key = the call and every field the *)
(* memo is invisible and AnswersOfCurrentFields holds; with a key that forgets *)
(* the fields (BadKeyNoFields) or only the witness stacks (BadKeyNoWitness)    *)
(* TLC finds the call - edit - call history that returns a stale answer         *)
(* (MC_TxWireHistory_bad*.cfg, model self-tests).                               *)
(* Every history of Depth steps is printed with the fields after each step and *)
(* what each call must return THEN; the harness runs it on one pycoin object    *)
(* and, at every call, on a fresh object built from the current fields.         *)
EXTENDS TxWire, Json, TLC

CONSTANTS Depth,       \* steps per history (calls + edits); the first and the last step are calls
          Tier         \* "q" | "t": the objects the histories start from

\* ---------------------------------------------------------------- field values (as in TxGrid, which is not extended
\* here: TLC would build all its transaction families at start-up, per worker)
Zero32N == <<0, 0>>
Max32N  == <<65535, 65535>>
V1 == <<1, 0>>
V2 == <<2, 0>>
A0    == <<0, 0, 0, 0>>
A1    == <<1, 0, 0, 0>>
A32m  == <<65535, 65535, 0, 0>>              \* 2^32-1
A32   == <<0, 0, 1, 0>>                      \* 2^32
A63   == <<0, 0, 0, 32768>>                  \* 2^63
A64m  == <<65535, 65535, 65535, 65535>>      \* 2^64-1
Hash(k) == Run(k, 32)
HashX(k) == Cat(Run(k, 1), Run(255 - k, 31))  \* a hash with structure: catches a reversed hash
Script(fill, n) == Run(fill, n)
Item(n) == Run(238, n)
In(h, x, s, q, w) == [hash |-> h, index |-> x, script |-> s, seq |-> q, wit |-> w]
Out(a, s) == [amount |-> a, script |-> s]
MkTx(v, ins, outs, l) == [version |-> v, ins |-> ins, outs |-> outs, lock |-> l]
InB(k, p) == In(Hash(k), <<k, 0>>, Script(100 + k, p[1]), IF k = 2 THEN Zero32N ELSE Max32N, p[2])
ManyIns(n, wlast) == [i \in 1..n |-> In(Hash(i % 256), <<i, 0>>, IF i % 2 = 0 THEN <<>> ELSE Script(i % 256, 1),
                                        <<i, i>>, IF i = n THEN wlast ELSE <<>>)]

\* ---------------------------------------------------------------- where the histories start
SegOne == MkTx(V2, <<In(HashX(17), Zero32N, <<>>, Max32N, <<Item(1), Item(33)>>)>>,
               <<Out(A32, Script(118, 25))>>, Zero32N)                                  \* one input, with a witness
SegMix == MkTx(V1, <<InB(1, <<1, <<>>>>), InB(2, <<0, <<Item(0)>>>>)>>,
               <<Out(A1, <<>>), Out(A63, Script(172, 1))>>, Max32N)                       \* witness and non-witness inputs
Legacy == MkTx(V1, <<In(Hash(51), <<7, 0>>, Script(81, 3), Max32N, <<>>)>>,
               <<Out(A1, Script(9, 1))>>, Zero32N)                                      \* no witness anywhere
Starts == IF Tier = "q" THEN {SegOne, SegMix, Legacy}
          ELSE {SegOne, SegMix, Legacy,
                MkTx(V2, ManyIns(3, <<Item(2)>>), <<>>, Max32N)}                          \* three inputs, no output

VARIABLES hobj,     \* the fields of the object now
          hstart,   \* ... at the beginning
          hacts,    \* the steps so far: [op, at]
          houts,    \* after each step: the fields, and (calls) the answer given
          hmemo
hvars == <<hobj, hstart, hacts, houts, hmemo>>

\* ---------------------------------------------------------------- calls: functions of the fields
CallNames == {"id", "w_id", "bytes"}
Answer(c, t) == CASE c = "id" -> TxId(t)
                  [] c = "w_id" -> WTxId(t)
                  [] c = "bytes" -> [wire |-> Wire(t), stripped |-> Stripped(t), bip144 |-> HasWitness(t)]

\* memo keys (cfg: Key <- FullKey | BadKeyNoFields | BadKeyNoWitness)
FullKey(c, t) == [c |-> c, t |-> t]
BadKeyNoFields(c, t) == [c |-> c, t |-> 0]
BadKeyNoWitness(c, t) == [c |-> c, t |-> StripWitness(t)]
Key(c, t) == FullKey(c, t)
Hit(kk) == {n \in 1..Len(hmemo) : hmemo[n].key = kk}

\* ---------------------------------------------------------------- edits of the fields
Other(S, cur) == CHOOSE v \in S : v # cur
NIn == Len(hobj.ins)
NOut == Len(hobj.outs)
Ends == {1, NIn}                    \* per-input edits touch the first and the last input
WitVals == {<<>>, <<Item(0)>>, <<Item(1), Item(253)>>}
NewInW == In(HashX(90), <<3, 0>>, <<>>, Zero32N, <<Item(2)>>)
NewInL == In(HashX(91), <<4, 0>>, Script(82, 2), Max32N, <<>>)
NewOut == Out(A32m, Script(106, 2))
\* <<op, position, fields after>>
EditSet ==
  {<<"set_version", 0, [hobj EXCEPT !.version = v]>> : v \in {V1, V2, Max32N} \ {hobj.version}}
  \cup {<<"set_lock", 0, [hobj EXCEPT !.lock = v]>> : v \in {Zero32N, <<1, 0>>, Max32N} \ {hobj.lock}}
  \cup {<<"set_seq", i, [hobj EXCEPT !.ins[i].seq = Other({Zero32N, <<65534, 65535>>}, @)]>> : i \in Ends}
  \cup {<<"set_in_script", i, [hobj EXCEPT !.ins[i].script = Other({<<>>, Script(0, 253)}, @)]>> : i \in Ends}
  \cup {<<"set_outpoint", i, [hobj EXCEPT !.ins[i].hash = HashX(3), !.ins[i].index = <<i, 1>>]>> : i \in {NIn}}
  \cup {<<"set_amount", j, [hobj EXCEPT !.outs[j].amount = Other({A0, A64m}, @)]>> : j \in 1..NOut}
  \cup {<<"set_out_script", j, [hobj EXCEPT !.outs[j].script = Other({<<>>, Script(172, 253)}, @)]>> : j \in {NOut} \ {0}}
  \* a witness stack replaced through the object's own method, and by assigning the input's attribute (as the parser does)
  \cup {e \in {<<op, i, [hobj EXCEPT !.ins[i].wit = w]>> : op \in {"set_witness", "attr_witness"}, i \in Ends, w \in WitVals} :
             e[3] # hobj}
  \cup {<<"append_in", NIn + 1, [hobj EXCEPT !.ins = Append(@, x)]>> : x \in {NewInW, NewInL}}
  \cup (IF NIn > 1 THEN {<<"remove_in", NIn, [hobj EXCEPT !.ins = Front(@)]>>} ELSE {})
  \cup {<<"append_out", NOut + 1, [hobj EXCEPT !.outs = Append(@, NewOut)]>>}
  \cup (IF NOut > 0 THEN {<<"remove_out", NOut, [hobj EXCEPT !.outs = Front(@)]>>} ELSE {})

\* ---------------------------------------------------------------- export
ShowIn(x)  == [hash |-> Show(x.hash), index |-> x.index, script |-> Show(x.script), seq |-> x.seq,
               wit |-> [n \in 1..Len(x.wit) |-> Show(x.wit[n])]]
ShowOut(o) == [amount |-> o.amount, script |-> Show(o.script)]
ShowTx(t)  == [version |-> t.version, lock |-> t.lock,
               ins |-> [n \in 1..Len(t.ins) |-> ShowIn(t.ins[n])],
               outs |-> [n \in 1..Len(t.outs) |-> ShowOut(t.outs[n])]]
ShowTerm(t) == [op |-> t.op, arg |-> Show(t.arg)]
\* what every call must answer on these fields
Facts(t) == [txid |-> ShowTerm(TxId(t)), wtxid |-> ShowTerm(WTxId(t)),
             wire |-> Show(Wire(t)), stripped |-> Show(Stripped(t)), bip144 |-> HasWitness(t)]
ShowStep(o) == [obj |-> ShowTx(o.obj), facts |-> Facts(o.obj)]
Emit == Len(hacts') = Depth =>
          PrintT(ToJson([k |-> "whist", start |-> ShowTx(hstart), acts |-> hacts',
                         outs |-> [n \in 1..Depth |-> ShowStep(houts'[n])]]))

\* ---------------------------------------------------------------- the machine
Init == /\ hobj \in Starts /\ hstart = hobj
        /\ hacts = <<>> /\ houts = <<>> /\ hmemo = <<>>
Call(c) ==
  /\ Len(hacts) < Depth
  /\ LET kk == Key(c, hobj)
         ans == IF Hit(kk) # {} THEN hmemo[CHOOSE n \in Hit(kk) : TRUE].ans ELSE Answer(c, hobj)
     IN /\ hacts' = Append(hacts, [op |-> c, at |-> 0])
        /\ houts' = Append(houts, [obj |-> hobj, call |-> c, ans |-> ans])
        /\ hmemo' = IF Hit(kk) # {} THEN hmemo ELSE Append(hmemo, [key |-> kk, ans |-> ans])
  /\ UNCHANGED <<hobj, hstart>>
  /\ Emit
\* an edit follows a call (nothing can be stale before the first one) and is followed by one
Edit(e) ==
  /\ hacts # <<>> /\ Len(hacts) < Depth - 1 /\ Last(hacts).op \in CallNames
  /\ hobj' = e[3]
  /\ hacts' = Append(hacts, [op |-> e[1], at |-> e[2]])
  /\ houts' = Append(houts, [obj |-> hobj', call |-> "", ans |-> 0])
  /\ UNCHANGED <<hstart, hmemo>>
Calls == \E c \in CallNames : Call(c)
Edits == \E e \in EditSet : Edit(e)
Next == Calls \/ Edits
Spec == Init /\ [][Next]_hvars

\* ---------------------------------------------------------------- lemmas
\* every answer ever given is the one the fields of that moment define - whatever came before
AnswersOfCurrentFields ==
  \A n \in 1..Len(houts) : houts[n].call # "" => houts[n].ans = Answer(houts[n].call, houts[n].obj)
\* a call changes no field
CallsChangeNothing ==
  \A n \in 1..Len(houts) : houts[n].call # "" => houts[n].obj = (IF n = 1 THEN hstart ELSE houts[n - 1].obj)
ObjWellFormed == IsTx(hobj) /\ Len(hobj.ins) >= 1
\* the edits are worth the trouble: each one changes the witness id, and each one except a change of witness
\* data changes the id; a stripped-away witness makes the two ids coincide
EditsMatter ==
  hacts = <<>> =>
    \A e \in EditSet :
       /\ WTxId(e[3]) # WTxId(hobj)
       /\ (TxId(e[3]) # TxId(hobj)) <=> (e[1] \notin {"set_witness", "attr_witness"})
       /\ ~HasWitness(e[3]) => WTxId(e[3]) = TxId(e[3])
=============================================================================
