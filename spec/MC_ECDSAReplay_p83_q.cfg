CONSTANTS P = 83  A = 1  B = 7  Gx = 0  Gy = 16  N = 79
          SignZ = {1, 79}  VerZ = {1, 80}  VerQ = {2, 79}  RecZ = {1, 79}
SPECIFICATION Spec
INVARIANT ReturnedVerifies
CHECK_DEADLOCK FALSE
