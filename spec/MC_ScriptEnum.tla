---------------------------- MODULE MC_ScriptEnum ----------------------------
(* Spec -> code binding for the interpreter: a bounded exploration of         *)
(* ScriptVM.  A state is the machine after some script prefix; a transition   *)
(* appends one instruction of the alphabet and executes it.  The VIEW hides   *)
(* the script text, so TLC visits every distinct machine state once and the   *)
(* harness receives, per transition, one script that reaches it together      *)
(* with the state consensus demands (verdict, stack, "may the script end      *)
(* here").  Hash and signature opcodes are exercised by MC_ScriptRun cases    *)
(* and MC_SigEnum instead (they need oracles).                                *)
EXTENDS ScriptVM, Json

CONSTANTS MaxIns,      \* instructions per script (see FreePushes)
          MaxStack,    \* bound on |stack| of explored (non-terminal) states
          Mode,        \* "main" | "deep" (six-element initial stack, stack opcodes only) | "operands"
          FreePushes   \* TRUE: data pushes do not count towards MaxIns (operand-class coverage:
                       \* every stack of <= MaxStack values x every opcode)

VARIABLES script, vm, cfg, n
evars == <<script, vm, cfg, n>>

Pushes == { <<0>>, <<79>>, <<81>>, <<82>>, <<83>>, <<96>>,
            <<1, 0>>, <<1, 128>>, <<1, 1>>, <<1, 129>>, <<1, 127>>, <<1, 255>>, <<1, 17>>,
            <<2, 0, 128>>, <<2, 1, 0>>, <<2, 255, 0>>, <<2, 0, 1>>, <<2, 128, 0>>,
            <<4, 255, 255, 255, 127>>, <<4, 255, 255, 255, 255>>, <<4, 0, 0, 0, 128>>,
            <<5, 0, 0, 0, 0, 1>>, <<5, 0, 0, 0, 128, 0>>, <<5, 0, 0, 64, 0, 128>>,
            <<76, 1, 5>>, <<76, 0>>, <<77, 1, 0, 7>>, <<3, 0, 0, 64>>, <<3, 5, 0, 64>>, <<4, 10, 0, 0, 128>> }
Ops == { <<97>>, <<99>>, <<100>>, <<103>>, <<104>>, <<105>>, <<106>>, <<107>>, <<108>>, <<109>>, <<110>>, <<111>>,
         <<112>>, <<113>>, <<114>>, <<115>>, <<116>>, <<117>>, <<118>>, <<119>>, <<120>>, <<121>>, <<122>>, <<123>>,
         <<124>>, <<125>>, <<130>>, <<135>>, <<136>>, <<139>>, <<140>>, <<143>>, <<144>>, <<145>>, <<146>>, <<147>>,
         <<148>>, <<154>>, <<155>>, <<156>>, <<157>>, <<158>>, <<159>>, <<160>>, <<161>>, <<162>>, <<163>>, <<164>>,
         <<165>>, <<171>>, <<176>>, <<177>>, <<178>>, <<185>>,
         <<98>>, <<101>>, <<102>>, <<80>>, <<137>>, <<138>>, <<126>>, <<141>>, <<153>>, <<186>>, <<255>> }
StackOps == { <<109>>, <<110>>, <<111>>, <<112>>, <<113>>, <<114>>, <<115>>, <<116>>, <<117>>, <<118>>, <<119>>,
              <<120>>, <<121>>, <<122>>, <<123>>, <<124>>, <<125>>, <<107>>, <<108>>, <<82>>, <<0>>, <<84>>, <<85>> }
\* operand classes: false/true encodings, negative zero, non-minimal numbers, 4-byte extremes, 5-byte numbers
SmallPushes == { <<0>>, <<79>>, <<81>>, <<82>>, <<1, 0>>, <<1, 128>>, <<1, 1>>, <<2, 1, 0>>, <<2, 0, 128>>,
                 <<4, 255, 255, 255, 127>>, <<5, 0, 0, 0, 0, 0>>, <<5, 1, 0, 0, 0, 0>>, <<5, 0, 0, 0, 0, 1>> }
Alphabet == IF Mode = "deep" THEN StackOps
            ELSE IF Mode = "operands" THEN SmallPushes \cup Ops
            ELSE Pushes \cup SmallPushes \cup Ops

Ctx1 == [version |-> 2, locktime |-> <<100, 0, 0, 0>>, sequence |-> <<10, 0, 0, 0>>]
Ctx2 == [version |-> 1, locktime |-> <<0, 101, 205, 29>>, sequence |-> <<255, 255, 255, 255>>]
Ctx3 == [version |-> 2, locktime |-> <<100, 0, 0, 0>>, sequence |-> <<10, 0, 64, 0>>]
Configs == <<
  [flags |-> {}, sv |-> "base", ctx |-> Ctx1],
  [flags |-> {"MINIMALDATA"}, sv |-> "base", ctx |-> Ctx1],
  [flags |-> {"MINIMALDATA", "DISCOURAGE_UPGRADABLE_NOPS", "CHECKLOCKTIMEVERIFY", "CHECKSEQUENCEVERIFY"}, sv |-> "base", ctx |-> Ctx1],
  [flags |-> {"CHECKLOCKTIMEVERIFY", "CHECKSEQUENCEVERIFY", "MINIMALIF"}, sv |-> "wit", ctx |-> Ctx2],
  [flags |-> {"CHECKLOCKTIMEVERIFY", "CHECKSEQUENCEVERIFY", "DISCOURAGE_UPGRADABLE_NOPS", "MINIMALIF"}, sv |-> "base", ctx |-> Ctx3] >>

EnvOf(s, c) == [script |-> s, flags |-> Configs[c].flags, sv |-> Configs[c].sv, ctx |-> Configs[c].ctx,
                hashes |-> <<>>, sigs |-> <<>>, sigmode |-> "fixed"]
InitStack == IF Mode = "deep" THEN << <<1>>, <<2>>, <<>>, <<4>>, <<5>>, <<6>> >> ELSE <<>>

EInit == /\ script = <<>> /\ n = 0
         /\ cfg \in 1..Len(Configs)
         /\ vm = InitVM(InitStack)
         /\ PrintT(ToJson([k |-> "cfg", id |-> cfg, flags |-> Configs[cfg].flags, sv |-> Configs[cfg].sv,
                           ctx |-> Configs[cfg].ctx]))

Emit == PrintT(ToJson([k |-> "tr", script |-> script', cfg |-> cfg, init |-> InitStack,
                       status |-> vm'.status, err |-> vm'.err, stack |-> vm'.stack, alt |-> vm'.alt,
                       open |-> Len(vm'.vf)]))
ENext == /\ vm.status = "run" /\ n < MaxIns
         /\ Len(vm.stack) <= MaxStack /\ Len(vm.alt) <= 2 /\ Len(vm.vf) <= 2
         /\ \E ins \in Alphabet :
              /\ script' = script \o ins
              /\ vm' = Step(vm, EnvOf(script \o ins, cfg))
         /\ n' = IF FreePushes /\ script'[Len(script) + 1] <= 96 /\ script'[Len(script) + 1] # 80 THEN n ELSE n + 1
         /\ UNCHANGED cfg
         /\ Emit
ESpec == EInit /\ [][ENext]_evars
View == <<vm.stack, vm.alt, vm.vf, vm.status, cfg>>

\* lemmas checked on every explored state
TypeOK == /\ vm.status \in {"run", "fail"}
          /\ \A i \in 1..Len(vm.stack) : \A j \in 1..Len(vm.stack[i]) : vm.stack[i][j] \in 0..255
          /\ Len(vm.stack) + Len(vm.alt) <= MAX_STACK
\* a failed machine has no successor (failure is absorbing) - by construction of ENext; results of
\* arithmetic are minimally encoded numbers of at most 5 bytes
PcInScript == vm.status = "run" => vm.pc = Len(script) + 1
=============================================================================
