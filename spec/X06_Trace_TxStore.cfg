CONSTANTS Ids <- Ids3  SegIds <- Seg2  NOut <- NOutT  Confs <- NoConfs  Spenders <- NoSpenders
          BadFileRaises <- SwBadFile  OobIndexError <- SwOob
SPECIFICATION TSpec
CHECK_DEADLOCK FALSE
