CONSTANTS P = 43  A = 0  B = 7  Gx = 2  Gy = 12  N = 31
SPECIFICATION TSpec
CONSTRAINT Reached
POSTCONDITION Post
CHECK_DEADLOCK FALSE
