CONSTANTS Cmd = "coinc"  Tier = "q"  U = "q"
SPECIFICATION Spec
INVARIANTS Lemmas LemmasDone
CHECK_DEADLOCK FALSE
