CONSTANTS P = 83  A = 1  B = 7  Gx = 0  Gy = 16  N = 79  Scope = "full"  Iterated = FALSE
SPECIFICATION Spec
INVARIANT GroupLaw
CHECK_DEADLOCK FALSE
