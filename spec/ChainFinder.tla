---------------------------- MODULE ChainFinder ----------------------------
(* C15 - the IMPLEMENTATION's shape: pycoin.blockchain.BlockChain driving     *)
(* pycoin.blockchain.ChainFinder.  One action per critical section of the     *)
(* code; ChainFinder.meld_new_hashes is split into one step per               *)
(* `new_hashes.pop()` so that TLC explores every pop order (the order of      *)
(* set.pop() is invisible to callers).                                        *)
(*                                                                            *)
(* Named deviations kept in the model on purpose:                             *)
(*   MeldInterior = FALSE  : the meld loop as it was before the fix           *)
(*                           (only the bottom of the walked path is looked up *)
(*                           in descendents_by_top) - finding F15a.           *)
(*   SkipLocked   = FALSE  : add_headers re-registers a header that is        *)
(*                           already part of the locked prefix - finding F15b.*)
(*   KeepOnLock   = FALSE  : lock_to_index forgets the reported chain and     *)
(*                           recomputes it (may flip between tied chains)     *)
(* The refinement to ChainTrack (the property) is checked as a TLC property.  *)
EXTENDS Integers, Sequences, FiniteSets, SequencesExt, FiniteSetsExt, TLC

CONSTANTS N, W, MaxAdd, MaxLock, AllowDup, MeldInterior, SkipLocked, KeepOnLock

Hashes == 1..N
None == -99

VARIABLES par, wt,
          \* --- ChainFinder
          known,      \* keys of parent_lookup
          tfb,        \* trees_from_bottom : bottom -> path (leaf first, missing parent last)
          dbt,        \* descendents_by_top: top -> set of bottoms
          newh,       \* new_hashes still to pop
          \* --- BlockChain
          locked,     \* _locked_chain (hashes, anchor side first)
          anchor,     \* parent_hash
          cache,      \* _longest_chain_cache (leaf first, without the anchor)
          h2i,        \* hash_to_index_lookup (-1 = absent)
          delivered,  \* every header ever handed to add_headers
          oldc,       \* old_longest_chain saved by add_headers
          phase,      \* "idle" | "add" | "lock"
          err,        \* "" or the exception the code would raise
          nadd, nlock,
          \* --- what the API reported when the last call returned (observable state)
          rdelivered, rlocked, rchain, rops, ridx

fvars == <<known, tfb, dbt, newh>>
bvars == <<locked, anchor, cache, h2i, delivered, oldc, phase, err, nadd, nlock>>
rvars == <<rdelivered, rlocked, rchain, rops, ridx>>
vars == <<par, wt, fvars, bvars, rvars>>

CT == INSTANCE ChainTrack WITH delivered <- rdelivered, nlocked <- rlocked,
                               chain <- rchain, lastops <- rops, idx <- ridx

Get(f, k, d) == IF k \in DOMAIN f THEN f[k] ELSE d
Put(f, k, v) == [x \in (DOMAIN f) \cup {k} |-> IF x = k THEN v ELSE f[x]]
Del(f, k) == [x \in (DOMAIN f) \ {k} |-> f[x]]

\* the previous_block_hash of header h: an orphan root's parent is a value never delivered
Parent(h) == IF par[h] = -1 THEN 0 - h ELSE par[h]
\* parent_lookup.get(h)
PL(K, h) == IF h \in K THEN Parent(h) ELSE None

Init == /\ par \in {p \in CT!ParentFns : CT!Acyclic(p)}
        /\ wt \in [Hashes -> 1..W]
        /\ known = {} /\ tfb = <<>> /\ dbt = <<>> /\ newh = {}
        /\ locked = <<>> /\ anchor = 0 /\ cache = <<>>
        /\ h2i = [h \in Hashes |-> -1]
        /\ delivered = {} /\ oldc = <<>> /\ phase = "idle" /\ err = ""
        /\ nadd = 0 /\ nlock = 0
        /\ rdelivered = {} /\ rlocked = 0 /\ rchain = <<>> /\ rops = <<>>
        /\ ridx = [h \in Hashes |-> -1]

-----------------------------------------------------------------------------
(* ChainFinder.meld_new_hashes, one pop *)

\* the inner `while 1` loop: walk up from h; returns <<path, T, D, NH>>
RECURSIVE Walk(_, _, _, _, _)
Walk(path, h, T, D, NH) ==
  LET nx == PL(known, h) IN
  IF nx = None THEN <<path, T, D, NH>>
  ELSE LET NH2 == NH \ {nx} IN
       IF nx \in DOMAIN T /\ Len(T[nx]) > 0
       THEN LET pre == T[nx]
                T2 == Del(T, nx)
                D2 == [D EXCEPT ![Last(pre)] = @ \ {pre[1]}]
            IN <<path \o pre, T2, D2, NH2>>
       ELSE Walk(Append(path, nx), nx, T, D, NH2)

Pop(h) ==
  /\ h \in newh
  /\ LET w == Walk(<<h>>, h, tfb, dbt, newh \ {h})
         path == w[1]  T0 == w[2]  D0 == w[3]  NH == w[4]
         L == Len(path)
         bot == path[1]  top == path[L]
         T1 == Put(T0, bot, path)
         D1 == IF top \in DOMAIN D0 THEN D0 ELSE Put(D0, top, {})
         bd == Get(D1, bot, {})
         \* `if bottom_descendents:` ... `else: top_descendents.add(bottom_h)`
         T2 == IF bd # {}
               THEN [x \in (DOMAIN T1) \ {bot} |-> IF x \in bd THEN T1[x] \o Tail(path) ELSE T1[x]]
               ELSE T1
         D2 == IF bd # {}
               THEN [Del(D1, bot) EXCEPT ![top] = @ \cup bd]
               ELSE [D1 EXCEPT ![top] = @ \cup {bot}]
         \* the loop over the interior of the path (the F15a repair)
         Js == IF MeldInterior THEN {j \in 2..(L - 1) : Get(D2, path[j], {}) # {}} ELSE {}
         Waiters == UNION {D2[path[j]] : j \in Js}
         JOf(d) == CHOOSE j \in Js : d \in D2[path[j]]
         T3 == [x \in DOMAIN T2 |-> IF x \in Waiters THEN T2[x] \o SubSeq(path, JOf(x) + 1, L) ELSE T2[x]]
         D3 == [x \in (DOMAIN D2) \ {path[j] : j \in Js} |-> D2[x]]
         D4 == [D3 EXCEPT ![top] = @ \cup Waiters]
     IN /\ tfb' = T3 /\ dbt' = D4 /\ newh' = NH
  /\ UNCHANGED <<par, wt, known, bvars, rvars>>

-----------------------------------------------------------------------------
(* BlockChain *)

SeqSum(s, f(_)) == FoldLeft(LAMBDA acc, x : acc + f(x), 0, s)
\* sum(self.weight_lookup.get(h, 0) for h in chain)
WLookup(h) == IF h \in delivered THEN wt[h] ELSE 0
CWeight(c) == SeqSum(c, WLookup)

\* all_chains_ending_at(parent_hash)
ChainsAtAnchor == {tfb[b] : b \in {x \in Get(dbt, anchor, {}) : x \in DOMAIN tfb}}
\* _longest_local_block_chain: the first strictly heavier chain in set-iteration
\* order wins, i.e. any chain of maximal weight; weight must exceed 0
LongestChoices ==
  LET C == {c \in ChainsAtAnchor : CWeight(c) > 0} IN
  IF C = {} THEN {<<>>}
  ELSE {SubSeq(c, 1, Len(c) - 1) : c \in {c \in C : \A c2 \in C : CWeight(c2) <= CWeight(c)}}

\* ChainFinder.maximum_path
RECURSIVE WalkAll(_)
WalkAll(h) == IF h \in known THEN <<h>> \o WalkAll(Parent(h)) ELSE <<h>>
MaxPath(h) == IF h \in DOMAIN tfb /\ Len(tfb[h]) > 0 THEN tfb[h] ELSE WalkAll(h)

\* ChainFinder.find_ancestral_path
RECURSIVE Climb(_, _, _, _)
Climb(p1, p2, i1, i2) ==
  IF p1[i1] = p2[i2] THEN <<SubSeq(p1, 1, i1), SubSeq(p2, 1, i2)>>
  ELSE Climb(p1, p2, i1 + 1, i2 + 1)
Ancestral(h1, h2) ==
  LET p1 == MaxPath(h1)  p2 == MaxPath(h2) IN
  IF Last(p1) # Last(p2) THEN <<<<>>, <<>>>>
  ELSE LET m == IF Len(p1) < Len(p2) THEN Len(p1) ELSE Len(p2)
       IN Climb(p1, p2, Len(p1) - m + 1, Len(p2) - m + 1)

ButLast(s) == IF s = <<>> THEN <<>> ELSE SubSeq(s, 1, Len(s) - 1)
Rev(s) == [i \in 1..Len(s) |-> s[Len(s) + 1 - i]]

IsLocked(h) == h2i[h] # -1 /\ h2i[h] < Len(locked)

AddBegin(B) ==
  /\ phase = "idle" /\ err = "" /\ nadd < MaxAdd
  /\ B # {} /\ B \subseteq Hashes
  /\ AllowDup \/ B \cap delivered = {}
  /\ LET new == {h \in B : h \notin known /\ ~(SkipLocked /\ IsLocked(h))} IN
     /\ known' = known \cup new
     /\ newh' = new
  /\ delivered' = delivered \cup B
  /\ oldc' = cache
  /\ phase' = "add" /\ nadd' = nadd + 1
  /\ UNCHANGED <<par, wt, tfb, dbt, locked, anchor, cache, h2i, err, nlock, rvars>>

AddFinish ==
  /\ phase = "add" /\ newh = {}
  /\ \E new \in LongestChoices :
       LET old == oldc
           ap == IF old # <<>> /\ new # <<>> THEN Ancestral(old[1], new[1]) ELSE <<old, new>>
           oldp == IF old # <<>> /\ new # <<>> THEN ButLast(ap[1]) ELSE old
           newp == IF old # <<>> /\ new # <<>> THEN ButLast(ap[2]) ELSE new
           sz1 == Len(old) + Len(locked)
           sz2 == Len(new) + Len(locked)
           rem == [i \in 1..Len(oldp) |-> <<"remove", oldp[i], sz1 - i>>]
           add == [i \in 1..Len(newp) |-> <<"add", newp[Len(newp) + 1 - i], sz2 - (Len(newp) + 1 - i)>>]
           bad == \E i \in 1..Len(oldp) : h2i[oldp[i]] = -1
           h1 == [h \in Hashes |-> IF \E i \in 1..Len(oldp) : oldp[i] = h THEN -1 ELSE h2i[h]]
           h2 == [h \in Hashes |-> IF \E i \in 1..Len(newp) : newp[i] = h
                                   THEN sz2 - (CHOOSE i \in 1..Len(newp) : newp[i] = h) ELSE h1[h]]
       IN /\ cache' = new
          /\ err' = IF bad THEN "KeyError" ELSE ""
          /\ h2i' = h2
          /\ rops' = rem \o add
          /\ rchain' = [i \in 1..Len(locked) |-> locked[i]] \o Rev(new)
          /\ ridx' = h2
  /\ rdelivered' = delivered /\ rlocked' = Len(locked)
  /\ phase' = "idle" /\ oldc' = <<>>
  /\ UNCHANGED <<par, wt, fvars, locked, anchor, delivered, nadd, nlock>>

\* lock_to_index(k), first half: extend _locked_chain, build the fresh ChainFinder's input
LockBegin(k) ==
  /\ phase = "idle" /\ err = "" /\ nlock < MaxLock
  /\ LET index == k - Len(locked) IN
     /\ index >= 1 /\ index <= Len(cache)
     /\ LET newly == [i \in 1..index |-> cache[Len(cache) + 1 - i]]
            excl == {newly[i] : i \in 1..index}
            \* iterate(): every tree, bottom-up, until the first excluded element;
            \* only registered nodes are yielded
            Yield(t) == {t[i] : i \in {i \in 1..Len(t) : \A j \in 1..i : t[j] \notin excl}}
            Y == (UNION {Yield(tfb[b]) : b \in DOMAIN tfb}) \cap known
        IN /\ locked' = locked \o newly
           /\ anchor' = newly[index]
           /\ known' = Y /\ newh' = Y /\ tfb' = <<>> /\ dbt' = <<>>
           /\ oldc' = IF KeepOnLock THEN SubSeq(cache, 1, Len(cache) - index) ELSE <<None>>
  /\ phase' = "lock" /\ nlock' = nlock + 1
  /\ UNCHANGED <<par, wt, cache, h2i, delivered, err, nadd, rvars>>

LockFinish ==
  /\ phase = "lock" /\ newh = {}
  /\ \E new \in (IF oldc = <<None>> THEN LongestChoices ELSE {oldc}) :
       /\ cache' = new
       /\ rchain' = locked \o Rev(new)
  /\ rlocked' = Len(locked) /\ ridx' = h2i
  /\ phase' = "idle" /\ oldc' = <<>>
  /\ UNCHANGED <<par, wt, fvars, locked, anchor, h2i, delivered, err, nadd, nlock, rdelivered, rops>>

\* lock_to_index(k) with k at or below the locked length: `index < 1`, the call returns at once
LockNoop(k) ==
  /\ phase = "idle" /\ err = "" /\ nlock < MaxLock
  /\ k >= 1 /\ k <= Len(locked)
  /\ nlock' = nlock + 1
  /\ UNCHANGED <<par, wt, fvars, locked, anchor, cache, h2i, delivered, oldc, phase, err, nadd, rvars>>

Next == \/ \E B \in SUBSET Hashes : AddBegin(B)
        \/ \E h \in Hashes : Pop(h)
        \/ AddFinish
        \/ \E k \in 1..N : LockBegin(k)
        \/ \E k \in 1..N : LockNoop(k)
        \/ LockFinish
Spec == Init /\ [][Next]_vars

-----------------------------------------------------------------------------
(* Invariants of the finder: the canonical form *)
Children(h) == {c \in known : Parent(c) = h}
Leaves == {h \in known : Children(h) = {}}
RECURSIVE FullPath(_)
FullPath(h) == IF h \in known THEN <<h>> \o FullPath(Parent(h)) ELSE <<h>>

Quiescent == newh = {}
\* after a meld the trees are exactly the leaf-to-missing-parent paths ...
Canonical == Quiescent => /\ DOMAIN tfb = Leaves
                          /\ \A l \in Leaves : tfb[l] = FullPath(l)
\* ... indexed by their tops
TopsIndexed == Quiescent => \A t \in DOMAIN dbt : dbt[t] = {l \in Leaves : Last(FullPath(l)) = t}
NoError == err = ""
\* the API-visible state satisfies the property in every state
ChainOk == CT!CTChainOk
IndexOk == CT!CTIndexOk
\* refinement (includes: returned operations transform the old chain into the new one)
Refines == CT!CTSpec
=============================================================================
