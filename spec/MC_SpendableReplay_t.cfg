CONSTANTS Tier = "t"  Emit = TRUE
SPECIFICATION Spec
INVARIANT TypeOK TextRoundTrip DictRoundTrip BinRoundTrip BinPrefix
CHECK_DEADLOCK FALSE
