CONSTANTS Fam = "affine"  MaxProg = 42  NPat = 2  NStr = 3  MaxBits = 4
SPECIFICATION Spec
INVARIANT Lemma
CHECK_DEADLOCK FALSE
