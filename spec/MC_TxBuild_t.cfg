CONSTANTS Variant = "std"  MaxSum = 14  MaxIns = 1  MaxPays = 4  MaxFee = 5
          ScaleKs = {12}  ScaleRs = {0}
SPECIFICATION Spec
INVARIANTS TypeOK BuildOK DealInv DoneIsBuild Conservation Positivity AtMostOneApart ErrorIffInsufficient OutcomeOK FeeLemma
CHECK_DEADLOCK FALSE
