CONSTANTS N = 5  W = 1  MaxAdd = 2  MaxLock = 0  AllowDup = FALSE
          MeldInterior = TRUE  SkipLocked = TRUE  KeepOnLock = TRUE
SPECIFICATION RSpec
CHECK_DEADLOCK FALSE
