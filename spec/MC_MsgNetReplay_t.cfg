CONSTANTS NK = 3  Full = TRUE
SPECIFICATION Spec
CHECK_DEADLOCK FALSE
