---------------------------- MODULE X01_Wallet ----------------------------
(* X01 - wallet bookkeeping stays consistent with the block chain under       *)
(* reorganisations.                                                           *)
(*                                                                            *)
(* COMPOSITION.  The header tracker is ChainTrack.tla (property C15), reused  *)
(* read-only: its variables par/wt/delivered/chain/lastops are the            *)
(* environment of the wallet.  A delivery of headers makes the tracker report *)
(* some maximum-weight chain and the operations ("remove" from the tip down,  *)
(* "add" upwards) that lead to it; the wallet consumes exactly these          *)
(* operations, one block at a time.                                           *)
(*                                                                            *)
(* WORLD.  Transactions are abstract: tx t in 1..T has MaxOut outputs, the    *)
(* outpoint (t, j) has the number (t-1)*MaxOut + j and the value 2^(number-1) *)
(* (all subset sums differ, so a balance names the set of outputs counted).   *)
(* txin[t] is the set of outpoints tx t spends (of earlier txs; funding from  *)
(* outside the model is not represented), own[q] says whether the keychain    *)
(* finds outpoint q interesting.  cont[b] is the set of txs block b carries;  *)
(* it is chosen when the block first enters the wallet's chain, among the     *)
(* contents that keep the chain valid (no tx twice, inputs created earlier,   *)
(* no double spend).  Blocks on different branches may carry the same tx, at  *)
(* the same or at different heights, or conflicting txs.                      *)
(*                                                                            *)
(* THE PROPERTY is the operator Replay: the wallet state a from-scratch       *)
(* replay of only the blocks of the wallet's current chain yields.  It is a   *)
(* function of (chain, txs ever shown, txs announced unconfirmed, outpoints   *)
(* reserved by sends) - not of the history of additions and removals.         *)
(* THE RULE BOOK is the incremental one (ConfirmTx / MempoolTx / Rollback /   *)
(* Balance / SendChoices): what each public method of the wallet has to do.       *)
(* Invariant StateIsReplay says the rule book refines the property.           *)
(*                                                                            *)
(* Named deviations, kept in the rule book on purpose (a switch value FALSE   *)
(* - TRUE for ZeroSentinel - is the behaviour of pycoin's SQLite3Wallet at    *)
(* the time of writing; TLC shows each one violates StateIsReplay/BalanceOk): *)
(*   RewindInclusive : rolling back block i resets records AT index i too     *)
(*   KeepOnConfirm   : confirming a tx keeps the flags its outputs already had*)
(*   KeepOnMempool   : an unconfirmed announcement never overwrites a record  *)
(*   UnconfInZero    : the balance with 0 confirmations counts unconfirmed    *)
(*   ZeroSentinel    : block index 0 is indistinguishable from "none"         *)
EXTENDS ChainTrack, TLC

CONSTANTS T,            \* number of abstract transactions
          MaxOut,       \* outputs per transaction
          Base,         \* block index of the first block of the forest
          Fee,          \* fee of a created send, in value units
          KMax,         \* balances are stated for 0..KMax confirmations
          SendAmts,     \* amounts tried by CreateSend
          OwnModes,     \* ownership patterns explored (see OwnPat)
          MaxIns,       \* a tx spends at most MaxIns modelled outpoints
          MaxBlockTx,   \* a block carries at most MaxBlockTx txs
          MaxDeliver, MaxMem, MaxSend, MaxRewind,
          RewindInclusive, KeepOnConfirm, KeepOnMempool, UnconfInZero, ZeroSentinel

Txs == 1..T
OPs == 1..(T * MaxOut)
OPid(t, j) == (t - 1) * MaxOut + j
TxOf(q) == ((q - 1) \div MaxOut) + 1
OutIx(q) == ((q - 1) % MaxOut) + 1
Val(q) == 2 ^ (q - 1)
SumVal(S) == FoldSet(LAMBDA q, acc : acc + Val(q), 0, S)
Unset == {0}

SW == [ri |-> RewindInclusive, kc |-> KeepOnConfirm, km |-> KeepOnMempool,
       uz |-> UnconfInZero, zs |-> ZeroSentinel]

VARIABLES txin,     \* [Txs -> SUBSET OPs]      (fixed per behaviour)
          own,      \* [OPs -> BOOLEAN]          (fixed per behaviour)
          cont,     \* [Hashes -> SUBSET Txs] or Unset
          ws,       \* the wallet's records: [OPs -> [k, av, sp, ss]]
          lbi,      \* the wallet's last block index
          wview,    \* the blocks the wallet has added and not rolled back (ghost)
          pend,     \* operations handed to the wallet, not yet processed
          atomic,   \* pend comes from one got_ops_callback (TRUE) or from a refeed after rewind
          seen,     \* txs ever shown to the wallet (ghost)
          mseen,    \* txs announced through the mempool callback (ghost)
          sent,     \* outpoints reserved by created sends (ghost)
          phase, ndel, nmem, nsend, nrew
wvars == <<txin, own, cont, ws, lbi, wview, pend, atomic, seen, mseen, sent, phase, ndel, nmem, nsend, nrew>>
xvars == <<ctvars, wvars>>

-----------------------------------------------------------------------------
(* The rule book: pure functions of a record table s.                         *)
(* A record: k = known, av = index of the block that made it available or -1, *)
(* sp = index of the block that spent it or -1, ss = "does seem spent".       *)

NoRec == [k |-> FALSE, av |-> -1, sp |-> -1, ss |-> FALSE]
Fresh(a) == [k |-> TRUE, av |-> a, sp |-> -1, ss |-> FALSE]
Ix(i, sw) == IF sw.zs /\ i = 0 THEN -1 ELSE i

\* a record as <<known, available, spent, seems spent>> with 0/1 flags (export / trace format)
Enc(r) == <<IF r.k THEN 1 ELSE 0, r.av, r.sp, IF r.ss THEN 1 ELSE 0>>

\* tx t is confirmed by the block at index i
ConfirmTx(s, t, i, sw) ==
  [q \in OPs |->
     IF q \in txin[t] /\ s[q].k THEN [s[q] EXCEPT !.sp = Ix(i, sw)]
     ELSE IF TxOf(q) = t /\ own[q]
          THEN IF s[q].k /\ sw.kc THEN [s[q] EXCEPT !.av = Ix(i, sw)] ELSE Fresh(Ix(i, sw))
          ELSE s[q]]

\* a block's txs in ascending number (a topological order: inputs refer to smaller numbers)
TxSeq == [t \in Txs |-> t]
ConfirmAll(s, cs, i, sw) ==
  FoldLeft(LAMBDA acc, t : IF t \in cs THEN ConfirmTx(acc, t, i, sw) ELSE acc, s, TxSeq)

\* tx t is announced unconfirmed
MempoolTx(s, t, sw) ==
  [q \in OPs |->
     IF q \in txin[t] /\ s[q].k THEN [s[q] EXCEPT !.ss = TRUE]
     ELSE IF TxOf(q) = t /\ own[q]
          THEN IF s[q].k /\ sw.km THEN s[q] ELSE Fresh(-1)
          ELSE s[q]]

\* the block at index i (and everything above) is rolled back
Rollback(s, i, sw) ==
  LET hit(v) == v # -1 /\ (IF sw.ri THEN v >= i ELSE v > i) IN
  [q \in OPs |-> IF ~s[q].k THEN s[q]
                 ELSE [s[q] EXCEPT !.av = IF hit(@) THEN -1 ELSE @,
                                   !.sp = IF hit(@) THEN -1 ELSE @]]

\* get_balance(c) with last block index l
Counted(s, l, c, sw) ==
  {q \in OPs : /\ s[q].k /\ s[q].sp = -1 /\ ~s[q].ss
               /\ IF c = 0 THEN (sw.uz \/ s[q].av # -1)
                           ELSE (s[q].av # -1 /\ s[q].av <= l + 1 - c)}
Balance(s, l, c, sw) == SumVal(Counted(s, l, c, sw))

\* create_unsigned_send_tx(address, a): which sets of outpoints it may spend.  The statement
\* leaves the selection free: any non-empty set of confirmed, unspent, unreserved outputs that
\* covers amount + fee; it must fail exactly when all of them together do not.
Cands(s, l) == {q \in OPs : s[q].k /\ s[q].av # -1 /\ s[q].av <= l /\ s[q].sp = -1 /\ ~s[q].ss}
SendChoices(s, l, a) == {X \in SUBSET Cands(s, l) : X # {} /\ SumVal(X) >= a + Fee}
CanSend(s, l, a) == SumVal(Cands(s, l)) >= a + Fee
MarkSent(s, X) == [q \in OPs |-> IF q \in X THEN [s[q] EXCEPT !.ss = TRUE] ELSE s[q]]

-----------------------------------------------------------------------------
(* The property: replay of the blocks of v only.                              *)

TxsIn(v) == UNION {cont[v[j]] : j \in 1..Len(v)}
PosOfTx(t, v) == IF \E j \in 1..Len(v) : t \in cont[v[j]]
                 THEN CHOOSE j \in 1..Len(v) : t \in cont[v[j]] ELSE 0
SpendPos(q, v) == IF \E j \in 1..Len(v) : \E t \in cont[v[j]] : q \in txin[t]
                  THEN CHOOSE j \in 1..Len(v) : \E t \in cont[v[j]] : q \in txin[t] ELSE 0
Reserved(q) == q \in sent \/ \E t \in mseen : q \in txin[t]

Replay(v) ==
  [q \in OPs |->
     IF ~(own[q] /\ TxOf(q) \in seen) THEN NoRec
     ELSE [k  |-> TRUE,
           av |-> IF PosOfTx(TxOf(q), v) = 0 THEN -1 ELSE Base + PosOfTx(TxOf(q), v) - 1,
           sp |-> IF SpendPos(q, v) = 0 THEN -1 ELSE Base + SpendPos(q, v) - 1,
           ss |-> Reserved(q)]]

\* the balance as the statement words it, straight from the chain
IdealCounted(v, c) ==
  {q \in OPs : /\ own[q] /\ TxOf(q) \in seen
               /\ SpendPos(q, v) = 0 /\ ~Reserved(q)
               /\ c > 0 => (PosOfTx(TxOf(q), v) # 0 /\ PosOfTx(TxOf(q), v) <= Len(v) + 1 - c)}
IdealBalance(v, c) == SumVal(IdealCounted(v, c))

-----------------------------------------------------------------------------
(* Worlds *)

\* Only spends of outputs of ours are represented: an input the keychain does not know only
\* constrains where a tx may be placed, so the world without it admits every behaviour with it.
Earlier(t, ow) == {q \in OPs : TxOf(q) < t /\ ow[q]}
InsChoice(t, ow) == {S \in SUBSET Earlier(t, ow) : Cardinality(S) <= MaxIns}
RECURSIVE InFns(_, _)
InFns(t, ow) == IF t = 0 THEN {<<>>}
                ELSE {Append(f, S) : f \in InFns(t - 1, ow), S \in InsChoice(t, ow)}

\* ownership patterns: 1 = first output ours, the others foreign; 2 = all ours;
\* 3 = tx 1 all ours, the last tx pays only foreigners, first output of the others ours
OwnPat(m) == [q \in OPs |->
                CASE m = 1 -> OutIx(q) = 1
                  [] m = 2 -> TRUE
                  [] OTHER -> TxOf(q) = 1 \/ (OutIx(q) = 1 /\ TxOf(q) < T)]

\* contents that may follow the chain v
ValidCont(cs, v) ==
  LET before == TxsIn(v) IN
  /\ Cardinality(cs) <= MaxBlockTx
  /\ cs \cap before = {}
  /\ \A t \in cs : \A q \in txin[t] :
        /\ TxOf(q) \in before \cup cs
        /\ \A u \in (before \cup cs) \ {t} : q \notin txin[u]
ValidConts(v) == {cs \in SUBSET Txs : ValidCont(cs, v)}

\* canonical labelling of the forests: a parent has a smaller number than its child
Forests == {pf \in [Hashes -> 0..N] : \A h \in Hashes : pf[h] < h}

-----------------------------------------------------------------------------
(* Actions *)

\* a bound of 99 means "unbounded": the counter then stays 0 and adds no states
Inc(n, mx) == IF mx = 99 THEN n ELSE n + 1

CommonLen(c1, c2) ==
  LET m == IF Len(c1) < Len(c2) THEN Len(c1) ELSE Len(c2)
  IN Max({j \in 0..m : SubSeq(c1, 1, j) = SubSeq(c2, 1, j)})
\* what BlockChain.add_headers returns: remove from the tip down to the fork, add upwards
MinOps(c1, c2) ==
  LET m == CommonLen(c1, c2) IN
  [j \in 1..(Len(c1) - m) |-> <<"remove", c1[Len(c1) + 1 - j], Len(c1) - j>>]
  \o [j \in 1..(Len(c2) - m) |-> <<"add", c2[m + j], m + j - 1>>]

XInit == /\ phase = "setup"
         /\ par = [h \in Hashes |-> 0] /\ wt = [h \in Hashes |-> 1]
         /\ delivered = {} /\ nlocked = 0 /\ chain = <<>> /\ lastops = <<>>
         /\ idx = [h \in Hashes |-> -1]
         /\ txin = [t \in Txs |-> {}] /\ own = [q \in OPs |-> FALSE]
         /\ cont = [h \in Hashes |-> Unset]
         /\ ws = [q \in OPs |-> NoRec] /\ lbi = -1 /\ wview = <<>>
         /\ pend = <<>> /\ atomic = TRUE
         /\ seen = {} /\ mseen = {} /\ sent = {}
         /\ ndel = 0 /\ nmem = 0 /\ nsend = 0 /\ nrew = 0

Pick == /\ phase = "setup" /\ phase' = "run"
        /\ par' \in Forests /\ wt' \in [Hashes -> 1..W]
        /\ \E m \in OwnModes : own' = OwnPat(m) /\ txin' \in InFns(T, OwnPat(m))
        /\ UNCHANGED <<delivered, nlocked, chain, lastops, idx>>
        /\ UNCHANGED <<cont, ws, lbi, wview, pend, atomic, seen, mseen, sent, ndel, nmem, nsend, nrew>>

\* headers are delivered; the tracker reports a heaviest chain and the operations towards it
\* (what a delivery does depends on delivered \cup B only: one batch per value of it - the new
\* headers - and the re-delivery of one known header, for the moves between tied chains, reach
\* every state that arbitrary batches reach)
Deliver(B) ==
  /\ phase = "run" /\ pend = <<>> /\ ndel < MaxDeliver
  /\ B \cap delivered = {} \/ Cardinality(B) = 1
  /\ \E c \in Heaviest(delivered \cup B, SubSeq(chain, 1, nlocked)) :
        /\ chain' = c
        /\ lastops' = MinOps(chain, c)
  /\ CTDeliver(B)
  /\ pend' = lastops' /\ atomic' = TRUE /\ ndel' = Inc(ndel, MaxDeliver)
  /\ UNCHANGED <<txin, own, cont, ws, lbi, wview, seen, mseen, sent, phase, nmem, nsend, nrew>>

\* _add_block
ProcAdd ==
  /\ pend # <<>> /\ Head(pend)[1] = "add"
  /\ LET b == Head(pend)[2]
         i == Base + Head(pend)[3]
     IN \E cs \in (IF cont[b] = Unset THEN ValidConts(wview) ELSE {cont[b]}) :
          /\ cont' = [cont EXCEPT ![b] = cs]
          /\ ws' = ConfirmAll(ws, cs, i, SW)
          /\ seen' = seen \cup cs
          /\ lbi' = i
          /\ wview' = Append(wview, b)
  /\ pend' = Tail(pend)
  /\ UNCHANGED <<ctvars, txin, own, atomic, mseen, sent, phase, ndel, nmem, nsend, nrew>>

\* _rollback_block
ProcRemove ==
  /\ pend # <<>> /\ Head(pend)[1] = "remove"
  /\ LET i == Base + Head(pend)[3] IN
       /\ ws' = Rollback(ws, i, SW)
       /\ lbi' = i - 1
  /\ wview' = SubSeq(wview, 1, Len(wview) - 1)
  /\ pend' = Tail(pend)
  /\ UNCHANGED <<ctvars, txin, own, cont, atomic, seen, mseen, sent, phase, ndel, nmem, nsend, nrew>>

Quiet == phase = "run" /\ (pend = <<>> \/ ~atomic)

\* got_mempool_tx_callback.  Environment assumption: an unconfirmed tx is announced only
\* after the txs whose outputs of ours it spends have been shown (nodes do not relay orphans)
Mempool(t) ==
  /\ Quiet /\ nmem < MaxMem
  /\ \A q \in txin[t] : own[q] => TxOf(q) \in seen
  /\ ws' = MempoolTx(ws, t, SW)
  /\ seen' = seen \cup {t} /\ mseen' = mseen \cup {t}
  /\ nmem' = Inc(nmem, MaxMem)
  /\ UNCHANGED <<ctvars, txin, own, cont, lbi, wview, pend, atomic, sent, phase, ndel, nsend, nrew>>

\* create_unsigned_send_tx
SendOkX(a, X) ==
  /\ Quiet /\ nsend < MaxSend
  /\ X \in SendChoices(ws, lbi, a)
  /\ ws' = MarkSent(ws, X) /\ sent' = sent \cup X
  /\ nsend' = Inc(nsend, MaxSend)
  /\ UNCHANGED <<ctvars, txin, own, cont, lbi, wview, pend, atomic, seen, mseen, phase, ndel, nmem, nrew>>
SendOk(a) == \E X \in SUBSET Cands(ws, lbi) : SendOkX(a, X)
SendFail(a) ==
  /\ Quiet /\ nsend < MaxSend
  /\ ~CanSend(ws, lbi, a)
  /\ nsend' = Inc(nsend, MaxSend)
  /\ UNCHANGED <<ctvars, txin, own, cont, ws, lbi, wview, pend, atomic, seen, mseen, sent, phase, ndel, nmem, nrew>>

\* rewind(i), after which the caller feeds the blocks from index i on again
Rewind(i) ==
  /\ phase = "run" /\ pend = <<>> /\ nrew < MaxRewind
  /\ i \in Base..lbi
  /\ ws' = Rollback(ws, i, SW) /\ lbi' = i - 1
  /\ wview' = SubSeq(wview, 1, i - Base)
  /\ pend' = [j \in 1..(Len(wview) - (i - Base)) |-> <<"add", wview[i - Base + j], i - Base + j - 1>>]
  /\ atomic' = FALSE /\ nrew' = Inc(nrew, MaxRewind)
  /\ UNCHANGED <<ctvars, txin, own, cont, seen, mseen, sent, phase, ndel, nmem, nsend>>

DeliverAny == \E B \in SUBSET Hashes : Deliver(B)
MempoolAny == \E t \in Txs : Mempool(t)
SendOkAny == \E a \in SendAmts : SendOk(a)
SendFailAny == \E a \in SendAmts : SendFail(a)
RewindAny == \E i \in Base..(Base + N) : Rewind(i)
XNext == Pick \/ DeliverAny \/ ProcAdd \/ ProcRemove \/ MempoolAny \/ SendOkAny \/ SendFailAny \/ RewindAny
XSpec == XInit /\ [][XNext]_xvars
\* lastops and idx are outputs of the tracker that nothing reads later (pend holds the operations)
XView == <<par, wt, delivered, nlocked, chain, wvars>>

-----------------------------------------------------------------------------
(* What the statement says about every reachable state *)

\* the operations handed over fit the wallet's chain (the tracker's side of the contract)
OpsFit == pend # <<>> =>
            LET o == Head(pend) IN
            IF o[1] = "remove" THEN Len(wview) > 0 /\ Last(wview) = o[2] /\ o[3] = Len(wview) - 1
            ELSE o[3] = Len(wview)
\* once everything handed over is processed the wallet follows the reported chain
ViewOk == pend = <<>> => wview = chain
\* (a wallet that never saw a block says -1, whatever the index of the first block is)
LbiOk == IF wview = <<>> THEN lbi \in {-1, Base - 1} ELSE lbi = Base + Len(wview) - 1
\* the refinement statement: the records are those of a from-scratch replay of the current chain
StateIsReplay == ws = Replay(wview)
\* and the balances are the sums the statement describes
BalanceOk == \A c \in 0..KMax : Balance(ws, lbi, c, SW) = IdealBalance(wview, c)
\* every send the rule book allows spends only outputs the chain still holds unspent
SendSound == \A a \in SendAmts : \A X \in SendChoices(ws, lbi, a) :
               \A q \in X : own[q] /\ PosOfTx(TxOf(q), wview) # 0 /\ SpendPos(q, wview) = 0 /\ ~Reserved(q)
=============================================================================
