CONSTANTS Tier = "t"  Depth = 4
SPECIFICATION Spec
INVARIANT AnswersOfCurrentFields CallsChangeNothing ObjWellFormed EditsMatter
CHECK_DEADLOCK FALSE
