CONSTANTS P1 = 43  A1 = 0  B1 = 7  Gx1 = 2  Gy1 = 12  N1 = 31
          P2 = 83  A2 = 1  B2 = 7  Gx2 = 0  Gy2 = 16  N2 = 79
          Symbolic = {}  XS = {0, 1, 2, 3, 5}  KS = {2, 3}  Depth = 3  ToyOps = {"mul", "add"}
SPECIFICATION Spec
INVARIANTS Stateless CurvesDiffer
CONSTRAINT EmitSession
CHECK_DEADLOCK FALSE
