CONSTANTS Variant = "std"  MaxSum = 8  MaxIns = 2  MaxPays = 4  MaxFee = 3
          ScaleKs = {12, 24, 60, 840}  ScaleRs = {0, 1, 2, 3, 4, 5, 6, 7, 8, 9, 10, 11, 23, 59, 839}
SPECIFICATION Spec
INVARIANTS Scale
CHECK_DEADLOCK FALSE
