-------------------------------- MODULE Limbs --------------------------------
(* Natural numbers as sequences of base-B limbs, least significant first,    *)
(* normalised (no most-significant zero limb; zero is the empty sequence).   *)
(* TLC's integers are 32-bit and satoshi amounts reach 21e14, so recorded    *)
(* executions carry amounts as limbs (B = 10^4) and Trace_TxBuild instantiates*)
(* the rule book TxRules with LAdd / LLeq.  MC_Limbs checks, exhaustively for *)
(* small B and on the carry boundaries of B = 10^4, that these are integer   *)
(* addition and order (Val is a homomorphism and injective on normal forms). *)
EXTENDS Integers, Sequences

CONSTANT B

IsLimbs(a) == /\ \A i \in 1..Len(a) : a[i] \in 0..(B - 1)
              /\ (a # << >> => a[Len(a)] # 0)

LZero == << >>
LOne  == << 1 >>

\* a + b + c  (c is the carry, 0 or 1)
RECURSIVE AddC(_, _, _)
AddC(a, b, c) ==
  IF a = << >> /\ b = << >> THEN (IF c = 0 THEN << >> ELSE << c >>)
  ELSE LET x == (IF a = << >> THEN 0 ELSE Head(a)) + (IF b = << >> THEN 0 ELSE Head(b)) + c
           ta == IF a = << >> THEN << >> ELSE Tail(a)
           tb == IF b = << >> THEN << >> ELSE Tail(b) IN
       << x % B >> \o AddC(ta, tb, x \div B)
LAdd(a, b) == AddC(a, b, 0)

\* -1, 0, 1 as a < b, a = b, a > b   (normal forms: longer is larger)
RECURSIVE CmpTop(_, _, _)
CmpTop(a, b, i) == IF i = 0 THEN 0
                   ELSE IF a[i] < b[i] THEN -1
                   ELSE IF a[i] > b[i] THEN 1
                   ELSE CmpTop(a, b, i - 1)
LCmp(a, b) == IF Len(a) < Len(b) THEN -1
              ELSE IF Len(a) > Len(b) THEN 1
              ELSE CmpTop(a, b, Len(a))
LLeq(a, b) == LCmp(a, b) <= 0

\* the number denoted (only for numbers that fit TLC's integers: lemmas)
RECURSIVE Val(_)
Val(a) == IF a = << >> THEN 0 ELSE Head(a) + B * Val(Tail(a))

\* limbs of a small natural
RECURSIVE OfNat(_)
OfNat(n) == IF n = 0 THEN << >> ELSE << n % B >> \o OfNat(n \div B)
=============================================================================
