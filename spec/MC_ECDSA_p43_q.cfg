CONSTANTS P = 43  A = 0  B = 7  Gx = 2  Gy = 12  N = 31
          ZSet = {1, 2, 17, 30, 31, 32, 62}  ZDeep = {31}
SPECIFICATION Spec
INVARIANT ECDSALemmas
CHECK_DEADLOCK FALSE
