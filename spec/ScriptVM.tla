------------------------------ MODULE ScriptVM ------------------------------
(* C03 - Bitcoin Core's EvalScript (script/interpreter.cpp, segwit era,       *)
(* pre-taproot) transcribed as an executable function on byte strings.        *)
(* One call of Step = one iteration of Core's `while (pc < pend)` loop.       *)
(*                                                                            *)
(*   vm  = [stack, alt, vf, ops, pc, cs, status, err, need]                   *)
(*         stack/alt: sequences of byte strings, top = last element           *)
(*         vf: Core's vfExec; ops: nOpCount; pc: 1-based index of the next    *)
(*         opcode byte; cs: index where the script code starts                *)
(*         (pbegincodehash); status: "run" | "fail" | "need"                  *)
(*   env = [script, flags, sv, ctx, hashes, sigs, sigmode]                    *)
(*         flags: set of flag names; sv: "base" | "wit" (sigversion);         *)
(*         ctx: [version, locktime, sequence] - version a small int, the      *)
(*         other two 4-byte little-endian strings;                            *)
(*         hashes: oracle <<opcode, input, output>> for the five hash opcodes *)
(*         (TLC cannot compute SHA-256; WHAT is hashed is decided here);      *)
(*         sigs: oracle <<sig, key, scriptCode, result, sv>> for "does this       *)
(*         signature verify for this key over this script code" (ECDSA and    *)
(*         the signature hash are properties C01/C04; every encoding rule,    *)
(*         the script code, FindAndDelete, the multisig matching order,       *)
(*         NULLFAIL/NULLDUMMY are decided here).                              *)
(*         sigmode "fixed": the harness pins the digest, the oracle key       *)
(*         ignores the script code.                                           *)
(* A missing oracle entry yields status "need"; the harness supplies it and   *)
(* re-runs.                                                                   *)
EXTENDS VMNum, FiniteSets, SequencesExt, TLC

MAX_SCRIPT_SIZE == 10000
MAX_ELEMENT_SIZE == 520
MAX_OPS == 201
MAX_STACK == 1000

OP_PUSHDATA1 == 76  OP_PUSHDATA2 == 77  OP_PUSHDATA4 == 78
OP_1NEGATE == 79  OP_RESERVED == 80  OP_1 == 81  OP_16 == 96
OP_NOP == 97  OP_VER == 98  OP_IF == 99  OP_NOTIF == 100  OP_VERIF == 101  OP_VERNOTIF == 102
OP_ELSE == 103  OP_ENDIF == 104  OP_VERIFY == 105  OP_RETURN == 106
OP_TOALTSTACK == 107  OP_FROMALTSTACK == 108  OP_2DROP == 109  OP_2DUP == 110  OP_3DUP == 111
OP_2OVER == 112  OP_2ROT == 113  OP_2SWAP == 114  OP_IFDUP == 115  OP_DEPTH == 116  OP_DROP == 117
OP_DUP == 118  OP_NIP == 119  OP_OVER == 120  OP_PICK == 121  OP_ROLL == 122  OP_ROT == 123
OP_SWAP == 124  OP_TUCK == 125
OP_CAT == 126  OP_SUBSTR == 127  OP_LEFT == 128  OP_RIGHT == 129  OP_SIZE == 130
OP_INVERT == 131  OP_AND == 132  OP_OR == 133  OP_XOR == 134  OP_EQUAL == 135  OP_EQUALVERIFY == 136
OP_RESERVED1 == 137  OP_RESERVED2 == 138
OP_1ADD == 139  OP_1SUB == 140  OP_2MUL == 141  OP_2DIV == 142  OP_NEGATE == 143  OP_ABS == 144
OP_NOT == 145  OP_0NOTEQUAL == 146  OP_ADD == 147  OP_SUB == 148  OP_MUL == 149  OP_DIV == 150
OP_MOD == 151  OP_LSHIFT == 152  OP_RSHIFT == 153  OP_BOOLAND == 154  OP_BOOLOR == 155
OP_NUMEQUAL == 156  OP_NUMEQUALVERIFY == 157  OP_NUMNOTEQUAL == 158  OP_LESSTHAN == 159
OP_GREATERTHAN == 160  OP_LESSTHANOREQUAL == 161  OP_GREATERTHANOREQUAL == 162  OP_MIN == 163
OP_MAX == 164  OP_WITHIN == 165
OP_RIPEMD160 == 166  OP_SHA1 == 167  OP_SHA256 == 168  OP_HASH160 == 169  OP_HASH256 == 170
OP_CODESEPARATOR == 171  OP_CHECKSIG == 172  OP_CHECKSIGVERIFY == 173  OP_CHECKMULTISIG == 174
OP_CHECKMULTISIGVERIFY == 175
OP_NOP1 == 176  OP_CLTV == 177  OP_CSV == 178  OP_NOP4 == 179  OP_NOP10 == 185

Disabled == {OP_CAT, OP_SUBSTR, OP_LEFT, OP_RIGHT, OP_INVERT, OP_AND, OP_OR, OP_XOR,
             OP_2MUL, OP_2DIV, OP_MUL, OP_DIV, OP_MOD, OP_LSHIFT, OP_RSHIFT}

-----------------------------------------------------------------------------
(* instruction decoding: CScript::GetOp *)
Decode(s, pc) ==
  LET op == s[pc]  n == Len(s) IN
  IF op < OP_PUSHDATA1
  THEN IF pc + op <= n THEN [op |-> op, data |-> SubSeq(s, pc + 1, pc + op), next |-> pc + op + 1, ok |-> TRUE]
       ELSE [op |-> op, data |-> <<>>, next |-> n + 1, ok |-> FALSE]
  ELSE IF op = OP_PUSHDATA1
  THEN IF pc + 1 <= n /\ pc + 1 + s[pc + 1] <= n
       THEN [op |-> op, data |-> SubSeq(s, pc + 2, pc + 1 + s[pc + 1]), next |-> pc + 2 + s[pc + 1], ok |-> TRUE]
       ELSE [op |-> op, data |-> <<>>, next |-> n + 1, ok |-> FALSE]
  ELSE IF op = OP_PUSHDATA2
  THEN IF pc + 2 <= n /\ pc + 2 + s[pc + 1] + 256 * s[pc + 2] <= n
       THEN LET k == s[pc + 1] + 256 * s[pc + 2] IN
            [op |-> op, data |-> SubSeq(s, pc + 3, pc + 2 + k), next |-> pc + 3 + k, ok |-> TRUE]
       ELSE [op |-> op, data |-> <<>>, next |-> n + 1, ok |-> FALSE]
  ELSE IF op = OP_PUSHDATA4
  THEN IF pc + 4 <= n /\ s[pc + 3] = 0 /\ s[pc + 4] = 0 /\ pc + 4 + s[pc + 1] + 256 * s[pc + 2] <= n
       THEN LET k == s[pc + 1] + 256 * s[pc + 2] IN
            [op |-> op, data |-> SubSeq(s, pc + 5, pc + 4 + k), next |-> pc + 5 + k, ok |-> TRUE]
       ELSE [op |-> op, data |-> <<>>, next |-> n + 1, ok |-> FALSE]
  ELSE [op |-> op, data |-> <<>>, next |-> pc + 1, ok |-> TRUE]

\* CheckMinimalPush
MinimalPush(data, op) ==
  LET n == Len(data) IN
  IF n = 0 THEN op = 0
  ELSE IF n = 1 /\ data[1] >= 1 /\ data[1] <= 16 THEN FALSE
  ELSE IF n = 1 /\ data[1] = 129 THEN FALSE
  ELSE IF n <= 75 THEN op = n
  ELSE IF n <= 255 THEN op = OP_PUSHDATA1
  ELSE IF n <= 65535 THEN op = OP_PUSHDATA2
  ELSE TRUE

\* `CScript() << data`: the push encoding FindAndDelete looks for (never minimalised to OP_n)
PushEnc(data) ==
  LET n == Len(data) IN
  IF n < 76 THEN <<n>> \o data
  ELSE IF n <= 255 THEN <<OP_PUSHDATA1, n>> \o data
  ELSE <<OP_PUSHDATA2, n % 256, n \div 256>> \o data

\* CScript::IsPushOnly
RECURSIVE PushOnlyFrom(_, _)
PushOnlyFrom(s, pc) ==
  IF pc > Len(s) THEN TRUE
  ELSE LET d == Decode(s, pc) IN d.ok /\ d.op <= OP_16 /\ PushOnlyFrom(s, d.next)
IsPushOnly(s) == PushOnlyFrom(s, 1)

Matches(s, pc, pat) == pc + Len(pat) - 1 <= Len(s) /\ SubSeq(s, pc, pc + Len(pat) - 1) = pat
RECURSIVE SkipPat(_, _, _)
SkipPat(s, pc, pat) == IF Matches(s, pc, pat) THEN SkipPat(s, pc + Len(pat), pat) ELSE pc
\* CScript::FindAndDelete (copies opcode by opcode, dropping every aligned occurrence of pat)
RECURSIVE FADFrom(_, _, _)
FADFrom(s, pc, pat) ==
  LET p2 == SkipPat(s, pc, pat) IN
  IF p2 > Len(s) THEN <<>>
  ELSE LET d == Decode(s, p2) IN
       IF ~d.ok THEN SubSeq(s, p2, Len(s))
       ELSE SubSeq(s, p2, d.next - 1) \o FADFrom(s, d.next, pat)
FindAndDelete(s, pat) == IF pat = <<>> THEN s ELSE FADFrom(s, 1, pat)

-----------------------------------------------------------------------------
(* signature / public key encoding rules *)

\* IsValidSignatureEncoding (the blob includes the hash-type byte)
ValidSigEncoding(sig) ==
  LET n == Len(sig) IN
  /\ n >= 9 /\ n <= 73
  /\ sig[1] = 48
  /\ sig[2] = n - 3
  /\ LET lenR == sig[4] IN
     /\ 5 + lenR < n
     /\ LET lenS == sig[6 + lenR] IN
        /\ lenR + lenS + 7 = n
        /\ sig[3] = 2
        /\ lenR # 0
        /\ sig[5] < 128
        /\ ~(lenR > 1 /\ sig[5] = 0 /\ sig[6] < 128)
        /\ sig[lenR + 5] = 2
        /\ lenS # 0
        /\ sig[lenR + 7] < 128
        /\ ~(lenS > 1 /\ sig[lenR + 7] = 0 /\ sig[lenR + 8] < 128)

\* the S value of a validly encoded signature, big-endian bytes
SigS(sig) == LET lenR == sig[4]  lenS == sig[6 + lenR] IN SubSeq(sig, lenR + 7, lenR + 6 + lenS)
\* secp256k1 group order / 2, big-endian: 7FFFFFFF FFFFFFFF FFFFFFFF FFFFFFFF 5D576E73 57A4501D DFE92F46 681B20A0
HalfOrder == <<127,255,255,255, 255,255,255,255, 255,255,255,255, 255,255,255,255,
               93,87,110,115, 87,164,80,29, 223,233,47,70, 104,27,32,160>>
RECURSIVE StripLead(_)
StripLead(b) == IF b # <<>> /\ b[1] = 0 THEN StripLead(Tail(b)) ELSE b
RECURSIVE BECmp(_, _, _)
BECmp(a, b, i) == IF i > Len(a) THEN 0 ELSE IF a[i] < b[i] THEN -1 ELSE IF a[i] > b[i] THEN 1 ELSE BECmp(a, b, i + 1)
\* CPubKey::CheckLowS: S <= order / 2
LowS(sig) == LET s == StripLead(SigS(sig)) IN
             IF Len(s) < 32 THEN TRUE ELSE IF Len(s) > 32 THEN FALSE ELSE BECmp(s, HalfOrder, 1) <= 0

DefinedHashType(sig) == LET t == sig[Len(sig)] % 128 IN t >= 1 /\ t <= 3

\* CheckSignatureEncoding: "" = passes, otherwise the script error
SigEncodingError(sig, flags) ==
  IF sig = <<>> THEN ""
  ELSE IF ({"DERSIG", "LOW_S", "STRICTENC"} \cap flags # {}) /\ ~ValidSigEncoding(sig) THEN "SIG_DER"
  ELSE IF "LOW_S" \in flags /\ ~LowS(sig) THEN "SIG_HIGH_S"
  ELSE IF "STRICTENC" \in flags /\ ~DefinedHashType(sig) THEN "SIG_HASHTYPE"
  ELSE ""

CompressedOrUncompressed(k) ==
  /\ Len(k) >= 33
  /\ IF k[1] = 4 THEN Len(k) = 65 ELSE IF k[1] \in {2, 3} THEN Len(k) = 33 ELSE FALSE
Compressed(k) == Len(k) = 33 /\ k[1] \in {2, 3}
KeyEncodingError(k, flags, sv) ==
  IF "STRICTENC" \in flags /\ ~CompressedOrUncompressed(k) THEN "PUBKEYTYPE"
  ELSE IF "WITNESS_PUBKEYTYPE" \in flags /\ sv = "wit" /\ ~Compressed(k) THEN "WITNESS_PUBKEYTYPE"
  ELSE ""

-----------------------------------------------------------------------------
(* oracles *)
HashHas(env, op, x) == \E i \in 1..Len(env.hashes) : env.hashes[i][1] = op /\ env.hashes[i][2] = x
HashGet(env, op, x) == env.hashes[CHOOSE i \in 1..Len(env.hashes) : env.hashes[i][1] = op /\ env.hashes[i][2] = x][3]
SigKey(env, sig, key, code) == IF env.sigmode = "fixed" THEN <<sig, key, <<>>>> ELSE <<sig, key, code>>
SigIdx(env, sig, key, code) ==
  LET k == SigKey(env, sig, key, code) IN
  {i \in 1..Len(env.sigs) : /\ env.sigs[i][1] = k[1] /\ env.sigs[i][2] = k[2] /\ env.sigs[i][3] = k[3]
                            /\ env.sigs[i][5] = env.sv}
SigHas(env, sig, key, code) == SigIdx(env, sig, key, code) # {}
SigGet(env, sig, key, code) == env.sigs[CHOOSE i \in SigIdx(env, sig, key, code) : TRUE][4] = 1
\* TransactionSignatureChecker::CheckSig never consults the key for an empty signature
\* and a key CPubKey rejects outright never verifies
KeyShapeOk(k) == Len(k) > 0 /\ ((k[1] \in {2, 3} /\ Len(k) = 33) \/ (k[1] \in {4, 6, 7} /\ Len(k) = 65))
NeedsOracle(env, sig, key, code) == sig # <<>> /\ KeyShapeOk(key) /\ ~SigHas(env, sig, key, code)
SigVerifies(env, sig, key, code) == sig # <<>> /\ KeyShapeOk(key) /\ SigGet(env, sig, key, code)

-----------------------------------------------------------------------------
(* the machine *)
InitVM(stack) == [stack |-> stack, alt |-> <<>>, vf |-> <<>>, ops |-> 0, pc |-> 1, cs |-> 1,
                  status |-> "run", err |-> "", need |-> <<>>]
Fail(vm, e) == [vm EXCEPT !.status = "fail", !.err = e]
Need(vm, what) == [vm EXCEPT !.status = "need", !.need = what]

Top(s, i) == s[Len(s) + 1 - i]
Drop(s, n) == SubSeq(s, 1, Len(s) - n)
BoolBytes(b) == IF b THEN <<1>> ELSE <<>>
FExec(vm) == \A i \in 1..Len(vm.vf) : vm.vf[i]
Minimal(env) == "MINIMALDATA" \in env.flags
SetStack(vm, s) == [vm EXCEPT !.stack = s]
\* remove the i-th element from the top (1 = top)
RemoveFromTop(s, i) == LET k == Len(s) + 1 - i IN SubSeq(s, 1, k - 1) \o SubSeq(s, k + 1, Len(s))

\* numeric operand helpers: n operands of at most 4 bytes on top of the stack
NumsOK(vm, env, n) == \A i \in 1..n : NumOK(Top(vm.stack, i), Minimal(env), 4)
N(vm, i) == NumDec(Top(vm.stack, i))

\* comparison against 4-byte little-endian context fields
LE4Num(b4) == Mk(FALSE, Trim(b4))
Threshold == Mk(FALSE, <<0, 101, 205, 29>>)   \* 500,000,000 = 0x1DCD6500
MaskSeq(m) == <<Dig(m, 1), Dig(m, 2), ((Dig(m, 3) \div 64) % 2) * 64, 0>>   \* & 0x0040ffff
TypeBit(m) == (Dig(m, 3) \div 64) % 2
DisableBit(m) == Dig(m, 4) >= 128                                           \* bit 31

ExecCLTV(vm, env) ==
  IF "CHECKLOCKTIMEVERIFY" \notin env.flags
  THEN (IF "DISCOURAGE_UPGRADABLE_NOPS" \in env.flags THEN Fail(vm, "DISCOURAGE_UPGRADABLE_NOPS") ELSE vm)
  ELSE IF Len(vm.stack) < 1 THEN Fail(vm, "INVALID_STACK_OPERATION")
  ELSE IF ~NumOK(Top(vm.stack, 1), Minimal(env), 5) THEN Fail(vm, "SCRIPTNUM")
  ELSE LET t == N(vm, 1)  lt == LE4Num(env.ctx.locktime) IN
       IF t.neg THEN Fail(vm, "NEGATIVE_LOCKTIME")
       ELSE IF (NumCmp(t, Threshold) < 0) # (NumCmp(lt, Threshold) < 0) THEN Fail(vm, "UNSATISFIED_LOCKTIME")
       ELSE IF NumCmp(t, lt) > 0 THEN Fail(vm, "UNSATISFIED_LOCKTIME")
       ELSE IF env.ctx.sequence = <<255, 255, 255, 255>> THEN Fail(vm, "UNSATISFIED_LOCKTIME")
       ELSE vm

ExecCSV(vm, env) ==
  IF "CHECKSEQUENCEVERIFY" \notin env.flags
  THEN (IF "DISCOURAGE_UPGRADABLE_NOPS" \in env.flags THEN Fail(vm, "DISCOURAGE_UPGRADABLE_NOPS") ELSE vm)
  ELSE IF Len(vm.stack) < 1 THEN Fail(vm, "INVALID_STACK_OPERATION")
  ELSE IF ~NumOK(Top(vm.stack, 1), Minimal(env), 5) THEN Fail(vm, "SCRIPTNUM")
  ELSE LET t == N(vm, 1)  sq == Trim(env.ctx.sequence) IN
       IF t.neg THEN Fail(vm, "NEGATIVE_LOCKTIME")
       ELSE IF DisableBit(t.mag) THEN vm
       ELSE IF env.ctx.version < 2 THEN Fail(vm, "UNSATISFIED_LOCKTIME")
       ELSE IF DisableBit(sq) THEN Fail(vm, "UNSATISFIED_LOCKTIME")
       ELSE IF TypeBit(t.mag) # TypeBit(sq) THEN Fail(vm, "UNSATISFIED_LOCKTIME")
       ELSE IF MagCmp(Trim(MaskSeq(t.mag)), Trim(MaskSeq(sq))) > 0 THEN Fail(vm, "UNSATISFIED_LOCKTIME")
       ELSE vm

ScriptCode(vm, env) == SubSeq(env.script, vm.cs, Len(env.script))

ExecCheckSig(vm, env, verify) ==
  IF Len(vm.stack) < 2 THEN Fail(vm, "INVALID_STACK_OPERATION")
  ELSE LET sig == Top(vm.stack, 2)  key == Top(vm.stack, 1)
           code0 == ScriptCode(vm, env)
           code == IF env.sv = "base" THEN FindAndDelete(code0, PushEnc(sig)) ELSE code0
           e1 == SigEncodingError(sig, env.flags)
           e2 == KeyEncodingError(key, env.flags, env.sv)
       IN IF e1 # "" THEN Fail(vm, e1)
          ELSE IF e2 # "" THEN Fail(vm, e2)
          ELSE IF NeedsOracle(env, sig, key, code) THEN Need(vm, <<"sig", sig, key, code, env.sv>>)
          ELSE LET okk == SigVerifies(env, sig, key, code) IN
               IF ~okk /\ "NULLFAIL" \in env.flags /\ sig # <<>> THEN Fail(vm, "SIG_NULLFAIL")
               ELSE IF verify THEN (IF okk THEN SetStack(vm, Drop(vm.stack, 2)) ELSE Fail(vm, "CHECKSIGVERIFY"))
               ELSE SetStack(vm, Append(Drop(vm.stack, 2), BoolBytes(okk)))

\* the CHECKMULTISIG matching loop; sigs/keys are listed top of stack first.
\* returns <<"ok", success>> | <<"err", e>> | <<"need", sig, key>>
RECURSIVE MultiLoop(_, _, _, _, _)
MultiLoop(env, code, sigs, keys, success) ==
  IF ~(success /\ Len(sigs) > 0) THEN <<"ok", success>>
  ELSE LET sig == sigs[1]  key == keys[1]
           e1 == SigEncodingError(sig, env.flags)
           e2 == KeyEncodingError(key, env.flags, env.sv)
       IN IF e1 # "" THEN <<"err", e1>>
          ELSE IF e2 # "" THEN <<"err", e2>>
          ELSE IF NeedsOracle(env, sig, key, code) THEN <<"need", sig, key>>
          ELSE LET okk == SigVerifies(env, sig, key, code)
                   sigs2 == IF okk THEN Tail(sigs) ELSE sigs
                   keys2 == Tail(keys)
               IN MultiLoop(env, code, sigs2, keys2, Len(sigs2) <= Len(keys2))

RECURSIVE FADAll(_, _)
FADAll(code, sigs) == IF sigs = <<>> THEN code ELSE FADAll(FindAndDelete(code, PushEnc(sigs[1])), Tail(sigs))

ExecCheckMultiSig(vm, env, verify) ==
  LET st == vm.stack  sz == Len(st) IN
  IF sz < 1 THEN Fail(vm, "INVALID_STACK_OPERATION")
  ELSE IF ~NumOK(Top(st, 1), Minimal(env), 4) THEN Fail(vm, "SCRIPTNUM")
  ELSE LET nk == N(vm, 1) IN
  IF nk.neg \/ MagNat(nk.mag) > 20 THEN Fail(vm, "PUBKEY_COUNT")
  ELSE LET nKeys == MagNat(nk.mag)  ops2 == vm.ops + nKeys IN
  IF ops2 > MAX_OPS THEN Fail(vm, "OP_COUNT")
  ELSE IF sz < nKeys + 2 THEN Fail(vm, "INVALID_STACK_OPERATION")
  ELSE IF ~NumOK(Top(st, nKeys + 2), Minimal(env), 4) THEN Fail(vm, "SCRIPTNUM")
  ELSE LET ns == NumDec(Top(st, nKeys + 2)) IN
  IF ns.neg \/ MagNat(ns.mag) > nKeys THEN Fail(vm, "SIG_COUNT")
  ELSE LET nSigs == MagNat(ns.mag) IN
  IF sz < nKeys + nSigs + 3 THEN Fail(vm, "INVALID_STACK_OPERATION")     \* the dummy element included
  ELSE LET keys == [i \in 1..nKeys |-> Top(st, 1 + i)]            \* top-most key first
           sigs == [i \in 1..nSigs |-> Top(st, nKeys + 2 + i)]    \* top-most signature first
           code0 == ScriptCode(vm, env)
           code == IF env.sv = "base" THEN FADAll(code0, sigs) ELSE code0
           res == MultiLoop(env, code, sigs, keys, TRUE)
           vm2 == [vm EXCEPT !.ops = ops2]
       IN IF res[1] = "err" THEN Fail(vm2, res[2])
          ELSE IF res[1] = "need" THEN Need(vm, <<"msig", sigs, keys, code, env.sv>>)   \* ask for every pair at once
          ELSE LET success == res[2] IN
               IF ~success /\ "NULLFAIL" \in env.flags /\ (\E i \in 1..nSigs : sigs[i] # <<>>) THEN Fail(vm2, "SIG_NULLFAIL")
               ELSE IF "NULLDUMMY" \in env.flags /\ Top(st, nKeys + nSigs + 3) # <<>> THEN Fail(vm2, "SIG_NULLDUMMY")
               ELSE LET rest == Drop(st, nKeys + nSigs + 3) IN
                    IF verify THEN (IF success THEN SetStack(vm2, rest) ELSE Fail(vm2, "CHECKMULTISIGVERIFY"))
                    ELSE SetStack(vm2, Append(rest, BoolBytes(success)))

\* unary / binary arithmetic on 4-byte operands
Unary(vm, env, f(_)) ==
  IF Len(vm.stack) < 1 THEN Fail(vm, "INVALID_STACK_OPERATION")
  ELSE IF ~NumsOK(vm, env, 1) THEN Fail(vm, "SCRIPTNUM")
  ELSE SetStack(vm, Append(Drop(vm.stack, 1), f(N(vm, 1))))
Binary(vm, env, f(_, _)) ==      \* f(a, b) with b on top
  IF Len(vm.stack) < 2 THEN Fail(vm, "INVALID_STACK_OPERATION")
  ELSE IF ~NumsOK(vm, env, 2) THEN Fail(vm, "SCRIPTNUM")
  ELSE SetStack(vm, Append(Drop(vm.stack, 2), f(N(vm, 2), N(vm, 1))))
VerifyTop(vm, e) ==    \* the ...VERIFY suffix: pop a true value or fail
  IF vm.status # "run" THEN vm
  ELSE IF CastToBool(Top(vm.stack, 1)) THEN SetStack(vm, Drop(vm.stack, 1)) ELSE Fail(vm, e)

ExecHash(vm, env, op) ==
  IF Len(vm.stack) < 1 THEN Fail(vm, "INVALID_STACK_OPERATION")
  ELSE LET x == Top(vm.stack, 1) IN
       IF ~HashHas(env, op, x) THEN Need(vm, <<"hash", op, x>>)
       ELSE SetStack(vm, Append(Drop(vm.stack, 1), HashGet(env, op, x)))

\* the big switch (executed opcodes other than data pushes)
Exec(vm, env, op) ==
  LET st == vm.stack  sz == Len(st) IN
  CASE op = OP_1NEGATE -> SetStack(vm, Append(st, <<129>>))
    [] op >= OP_1 /\ op <= OP_16 -> SetStack(vm, Append(st, <<op - 80>>))
    [] op = OP_NOP -> vm
    [] op = OP_CLTV -> ExecCLTV(vm, env)
    [] op = OP_CSV -> ExecCSV(vm, env)
    [] op = OP_NOP1 \/ (op >= OP_NOP4 /\ op <= OP_NOP10) ->
         IF "DISCOURAGE_UPGRADABLE_NOPS" \in env.flags THEN Fail(vm, "DISCOURAGE_UPGRADABLE_NOPS") ELSE vm
    [] op = OP_IF \/ op = OP_NOTIF ->
         IF FExec(vm)
         THEN IF sz < 1 THEN Fail(vm, "UNBALANCED_CONDITIONAL")
              ELSE LET v == Top(st, 1) IN
                   IF env.sv = "wit" /\ "MINIMALIF" \in env.flags /\ (Len(v) > 1 \/ (Len(v) = 1 /\ v[1] # 1))
                   THEN Fail(vm, "MINIMALIF")
                   ELSE [vm EXCEPT !.stack = Drop(st, 1),
                                   !.vf = Append(@, IF op = OP_NOTIF THEN ~CastToBool(v) ELSE CastToBool(v))]
         ELSE [vm EXCEPT !.vf = Append(@, FALSE)]
    [] op = OP_ELSE -> IF vm.vf = <<>> THEN Fail(vm, "UNBALANCED_CONDITIONAL")
                       ELSE [vm EXCEPT !.vf[Len(vm.vf)] = ~@]
    [] op = OP_ENDIF -> IF vm.vf = <<>> THEN Fail(vm, "UNBALANCED_CONDITIONAL")
                        ELSE [vm EXCEPT !.vf = Drop(@, 1)]
    [] op = OP_VERIFY -> IF sz < 1 THEN Fail(vm, "INVALID_STACK_OPERATION") ELSE VerifyTop(vm, "VERIFY")
    [] op = OP_RETURN -> Fail(vm, "OP_RETURN")
    [] op = OP_TOALTSTACK -> IF sz < 1 THEN Fail(vm, "INVALID_STACK_OPERATION")
                             ELSE [vm EXCEPT !.stack = Drop(st, 1), !.alt = Append(@, Top(st, 1))]
    [] op = OP_FROMALTSTACK -> IF vm.alt = <<>> THEN Fail(vm, "INVALID_ALTSTACK_OPERATION")
                               ELSE [vm EXCEPT !.stack = Append(st, Top(vm.alt, 1)), !.alt = Drop(@, 1)]
    [] op = OP_2DROP -> IF sz < 2 THEN Fail(vm, "INVALID_STACK_OPERATION") ELSE SetStack(vm, Drop(st, 2))
    [] op = OP_2DUP -> IF sz < 2 THEN Fail(vm, "INVALID_STACK_OPERATION") ELSE SetStack(vm, st \o <<Top(st, 2), Top(st, 1)>>)
    [] op = OP_3DUP -> IF sz < 3 THEN Fail(vm, "INVALID_STACK_OPERATION")
                       ELSE SetStack(vm, st \o <<Top(st, 3), Top(st, 2), Top(st, 1)>>)
    [] op = OP_2OVER -> IF sz < 4 THEN Fail(vm, "INVALID_STACK_OPERATION") ELSE SetStack(vm, st \o <<Top(st, 4), Top(st, 3)>>)
    [] op = OP_2ROT -> IF sz < 6 THEN Fail(vm, "INVALID_STACK_OPERATION")
                       ELSE SetStack(vm, Drop(st, 6) \o <<Top(st, 4), Top(st, 3), Top(st, 2), Top(st, 1), Top(st, 6), Top(st, 5)>>)
    [] op = OP_2SWAP -> IF sz < 4 THEN Fail(vm, "INVALID_STACK_OPERATION")
                        ELSE SetStack(vm, Drop(st, 4) \o <<Top(st, 2), Top(st, 1), Top(st, 4), Top(st, 3)>>)
    [] op = OP_IFDUP -> IF sz < 1 THEN Fail(vm, "INVALID_STACK_OPERATION")
                        ELSE IF CastToBool(Top(st, 1)) THEN SetStack(vm, Append(st, Top(st, 1))) ELSE vm
    [] op = OP_DEPTH -> SetStack(vm, Append(st, NumEnc(NatNum(sz))))
    [] op = OP_DROP -> IF sz < 1 THEN Fail(vm, "INVALID_STACK_OPERATION") ELSE SetStack(vm, Drop(st, 1))
    [] op = OP_DUP -> IF sz < 1 THEN Fail(vm, "INVALID_STACK_OPERATION") ELSE SetStack(vm, Append(st, Top(st, 1)))
    [] op = OP_NIP -> IF sz < 2 THEN Fail(vm, "INVALID_STACK_OPERATION") ELSE SetStack(vm, Append(Drop(st, 2), Top(st, 1)))
    [] op = OP_OVER -> IF sz < 2 THEN Fail(vm, "INVALID_STACK_OPERATION") ELSE SetStack(vm, Append(st, Top(st, 2)))
    [] op = OP_PICK \/ op = OP_ROLL ->
         IF sz < 2 THEN Fail(vm, "INVALID_STACK_OPERATION")
         ELSE IF ~NumsOK(vm, env, 1) THEN Fail(vm, "SCRIPTNUM")
         ELSE LET n == N(vm, 1)  s1 == Drop(st, 1) IN
              IF n.neg \/ MagNat(n.mag) >= Len(s1) THEN Fail(vm, "INVALID_STACK_OPERATION")
              ELSE LET k == MagNat(n.mag)  v == Top(s1, k + 1) IN
                   IF op = OP_PICK THEN SetStack(vm, Append(s1, v))
                   ELSE SetStack(vm, Append(RemoveFromTop(s1, k + 1), v))
    [] op = OP_ROT -> IF sz < 3 THEN Fail(vm, "INVALID_STACK_OPERATION")
                      ELSE SetStack(vm, Drop(st, 3) \o <<Top(st, 2), Top(st, 1), Top(st, 3)>>)
    [] op = OP_SWAP -> IF sz < 2 THEN Fail(vm, "INVALID_STACK_OPERATION")
                       ELSE SetStack(vm, Drop(st, 2) \o <<Top(st, 1), Top(st, 2)>>)
    [] op = OP_TUCK -> IF sz < 2 THEN Fail(vm, "INVALID_STACK_OPERATION")
                       ELSE SetStack(vm, Drop(st, 2) \o <<Top(st, 1), Top(st, 2), Top(st, 1)>>)
    [] op = OP_SIZE -> IF sz < 1 THEN Fail(vm, "INVALID_STACK_OPERATION")
                       ELSE SetStack(vm, Append(st, NumEnc(NatNum(Len(Top(st, 1))))))
    [] op = OP_EQUAL \/ op = OP_EQUALVERIFY ->
         IF sz < 2 THEN Fail(vm, "INVALID_STACK_OPERATION")
         ELSE LET r == SetStack(vm, Append(Drop(st, 2), BoolBytes(Top(st, 1) = Top(st, 2)))) IN
              IF op = OP_EQUALVERIFY THEN VerifyTop(r, "EQUALVERIFY") ELSE r
    [] op = OP_1ADD -> Unary(vm, env, LAMBDA a : NumEnc(NumAdd(a, One)))
    [] op = OP_1SUB -> Unary(vm, env, LAMBDA a : NumEnc(NumSub(a, One)))
    [] op = OP_NEGATE -> Unary(vm, env, LAMBDA a : NumEnc(NumNeg(a)))
    [] op = OP_ABS -> Unary(vm, env, LAMBDA a : NumEnc(NumAbs(a)))
    [] op = OP_NOT -> Unary(vm, env, LAMBDA a : BoolBytes(NumIsZero(a)))
    [] op = OP_0NOTEQUAL -> Unary(vm, env, LAMBDA a : BoolBytes(~NumIsZero(a)))
    [] op = OP_ADD -> Binary(vm, env, LAMBDA a, b : NumEnc(NumAdd(a, b)))
    [] op = OP_SUB -> Binary(vm, env, LAMBDA a, b : NumEnc(NumSub(a, b)))
    [] op = OP_BOOLAND -> Binary(vm, env, LAMBDA a, b : BoolBytes(~NumIsZero(a) /\ ~NumIsZero(b)))
    [] op = OP_BOOLOR -> Binary(vm, env, LAMBDA a, b : BoolBytes(~NumIsZero(a) \/ ~NumIsZero(b)))
    [] op = OP_NUMEQUAL -> Binary(vm, env, LAMBDA a, b : BoolBytes(NumCmp(a, b) = 0))
    [] op = OP_NUMEQUALVERIFY -> VerifyTop(Binary(vm, env, LAMBDA a, b : BoolBytes(NumCmp(a, b) = 0)), "NUMEQUALVERIFY")
    [] op = OP_NUMNOTEQUAL -> Binary(vm, env, LAMBDA a, b : BoolBytes(NumCmp(a, b) # 0))
    [] op = OP_LESSTHAN -> Binary(vm, env, LAMBDA a, b : BoolBytes(NumCmp(a, b) < 0))
    [] op = OP_GREATERTHAN -> Binary(vm, env, LAMBDA a, b : BoolBytes(NumCmp(a, b) > 0))
    [] op = OP_LESSTHANOREQUAL -> Binary(vm, env, LAMBDA a, b : BoolBytes(NumCmp(a, b) <= 0))
    [] op = OP_GREATERTHANOREQUAL -> Binary(vm, env, LAMBDA a, b : BoolBytes(NumCmp(a, b) >= 0))
    [] op = OP_MIN -> Binary(vm, env, LAMBDA a, b : NumEnc(IF NumCmp(a, b) < 0 THEN a ELSE b))
    [] op = OP_MAX -> Binary(vm, env, LAMBDA a, b : NumEnc(IF NumCmp(a, b) > 0 THEN a ELSE b))
    [] op = OP_WITHIN ->
         IF sz < 3 THEN Fail(vm, "INVALID_STACK_OPERATION")
         ELSE IF ~NumsOK(vm, env, 3) THEN Fail(vm, "SCRIPTNUM")
         ELSE LET x == N(vm, 3)  lo == N(vm, 2)  hi == N(vm, 1) IN
              SetStack(vm, Append(Drop(st, 3), BoolBytes(NumCmp(lo, x) <= 0 /\ NumCmp(x, hi) < 0)))
    [] op >= OP_RIPEMD160 /\ op <= OP_HASH256 -> ExecHash(vm, env, op)
    [] op = OP_CODESEPARATOR -> [vm EXCEPT !.cs = vm.pc]       \* vm.pc already points past the opcode
    [] op = OP_CHECKSIG -> ExecCheckSig(vm, env, FALSE)
    [] op = OP_CHECKSIGVERIFY -> ExecCheckSig(vm, env, TRUE)
    [] op = OP_CHECKMULTISIG -> ExecCheckMultiSig(vm, env, FALSE)
    [] op = OP_CHECKMULTISIGVERIFY -> ExecCheckMultiSig(vm, env, TRUE)
    [] OTHER -> Fail(vm, "BAD_OPCODE")    \* VER, VERIF, VERNOTIF, RESERVED*, unassigned

\* one iteration of the interpreter loop; vm.status = "run" and vm.pc <= Len(script)
Step(vm, env) ==
  LET d == Decode(env.script, vm.pc) IN
  IF ~d.ok THEN Fail(vm, "BAD_OPCODE")
  ELSE IF Len(d.data) > MAX_ELEMENT_SIZE THEN Fail(vm, "PUSH_SIZE")
  ELSE LET ops2 == IF d.op > OP_16 THEN vm.ops + 1 ELSE vm.ops IN
  IF ops2 > MAX_OPS THEN Fail(vm, "OP_COUNT")
  ELSE IF d.op \in Disabled THEN Fail(vm, "DISABLED_OPCODE")
  ELSE LET vm1 == [vm EXCEPT !.ops = ops2, !.pc = d.next]
           fx == FExec(vm)
           vm2 == IF fx /\ d.op <= OP_PUSHDATA4
                  THEN IF Minimal(env) /\ ~MinimalPush(d.data, d.op) THEN Fail(vm1, "MINIMALDATA")
                       ELSE SetStack(vm1, Append(vm1.stack, d.data))
                  ELSE IF d.op > OP_PUSHDATA4 /\ (fx \/ (d.op >= OP_IF /\ d.op <= OP_ENDIF))
                  THEN Exec(vm1, env, d.op)
                  ELSE vm1
       IN IF vm2.status = "need" THEN Need(vm, vm2.need)     \* retry the same instruction later
          ELSE IF vm2.status = "run" /\ Len(vm2.stack) + Len(vm2.alt) > MAX_STACK THEN Fail(vm2, "STACK_SIZE")
          ELSE vm2

AtEnd(vm, env) == vm.pc > Len(env.script)
\* checks before the first instruction and after the last one
Prelude(vm, env) == IF Len(env.script) > MAX_SCRIPT_SIZE THEN Fail(vm, "SCRIPT_SIZE") ELSE vm
Finish(vm) == IF vm.vf # <<>> THEN Fail(vm, "UNBALANCED_CONDITIONAL") ELSE [vm EXCEPT !.status = "done"]

\* run to completion (used by lemmas; long scripts are stepped one TLC state at a time instead)
RECURSIVE RunFrom(_, _)
RunFrom(vm, env) == IF vm.status # "run" THEN vm
                    ELSE IF AtEnd(vm, env) THEN Finish(vm)
                    ELSE RunFrom(Step(vm, env), env)
Eval(stack, env) == RunFrom(Prelude(InitVM(stack), env), env)
=============================================================================
