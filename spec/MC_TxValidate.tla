---------------------------- MODULE MC_TxValidate ----------------------------
(* Model-checking configurations of TxValidate.tla, the deviant "cached"      *)
(* validator that the lemma ReportedIsCurrent excludes, and the replay export *)
(* (histories with the verdicts the specification demands after every step).  *)
EXTENDS TxValidate, Json, SequencesExt, FiniteSetsExt

CONSTANTS Cases,      \* set of [nin, nout, H, S, walk]
          Mode        \* "model" | "cached" | "replay" | "walk"

VARIABLES case, hist, vds, cache
mvars == <<vars, case, hist, vds, cache>>

HTSeq == <<1, 2, 3, 129, 130, 131>>
\* puzzles whose spent script is itself the executed script
\* where the unlocking data of a puzzle kind lives
UKind(kind) == CASE kind \in {"p2pkh", "p2pk", "ms_bare", "p2pkh:u"} -> "ss"
                 [] kind = "ms_p2sh" -> "p2sh"
                 [] kind \in {"p2sh_p2wpkh", "ms_p2sh_p2wsh"} -> "p2sh_wit"
                 [] OTHER -> "wit"
Nopable(kind) == kind \in {"p2pkh", "p2pk", "ms_bare", "p2pkh:u"}
NoCache == [h \in HashTypes |-> <<>>]

MInit == /\ case \in Cases
         /\ InitWithU(case.nin, case.nout, case.H, case.S, [k \in 1..case.nin |-> Nopable(case.K[k])],
                      IF "umut" \in DOMAIN case /\ case.umut THEN [k \in 1..case.nin |-> UKind(case.K[k])] ELSE <<>>)
         /\ hist = <<>> /\ vds = <<>> /\ cache = NoCache

----------------------------------------------------------------------------
(* "model": mutations and validations in any order *)
MNext == /\ Next /\ UNCHANGED <<case, hist, vds, cache>>
MSpec == MInit /\ [][MNext]_mvars

----------------------------------------------------------------------------
(* "cached": a validator that remembers, per hash type, the view it computed  *)
(* the first time and compares later signatures with that (a sighash cache    *)
(* keyed only by hash type that outlives one validation).  TLC must find      *)
(* ReportedIsCurrent violated - which shows the lemma has teeth.              *)
CValidate(pos) ==
    LET r == ins[pos]
        k == r.unl
        h == IF k = 0 THEN 1 ELSE hts[k]
        v == IF cache[h] # <<>> THEN cache[h][1]
             ELSE IF k = 0 THEN [bug |-> FALSE] ELSE View(ins, outs, ver, lock, pos, h, svs[k])
    IN /\ steps < MaxSteps /\ pos \in Positions
       /\ lastval' = <<pos, IF r.known /\ k # 0 /\ SamePuzzle(r) /\ v = sview[k] THEN "T" ELSE "F">>
       /\ cache' = [cache EXCEPT ![h] = <<v>>]
       /\ steps' = steps + 1
       /\ UNCHANGED <<hts, svs, nops, ukinds, sview, orig, ver, lock, ins, outs, inserts, case, hist, vds>>
CNext == \/ (\E x \in AllMuts : Mutate(x)) /\ UNCHANGED <<case, hist, vds, cache>>
         \/ \E pos \in Positions : CValidate(pos)
CSpec == MInit /\ [][CNext]_mvars

----------------------------------------------------------------------------
(* "replay": every history of mutations up to MaxSteps; after each step the   *)
(* verdict of every input and the count of failing inputs.  The harness       *)
(* validates after every step on the long-lived object and on a fresh copy.   *)
Emit == PrintT(ToJson([k |-> "hist", nin |-> case.nin, nout |-> case.nout, H |-> case.H, S |-> case.S,
                       K |-> case.K, walk |-> case.walk, acts |-> hist', vds |-> vds']))
RStep(x) == /\ Mutate(x)
            /\ hist' = Append(hist, x)
            \* per input "T" / "F" / "vs" (ask VerifyScript); bad counts the "F" ones
            /\ vds' = Append(vds, [v |-> [p \in 1..Len(ins') |-> Verdict3(p)'],
                                   bad |-> Cardinality({p \in 1..Len(ins') : Verdict3(p)' = "F"})])
            /\ UNCHANGED <<case, cache>>
            /\ Emit
RNext == \E x \in AllMuts : RStep(x)
RSpec == MInit /\ [][RNext]_mvars

(* "walk": long histories following a fixed pseudo-random schedule *)
Nth(S, h) == SetToSeq(S)[(h % Cardinality(S)) + 1]
WNext == LET h == case.walk * 7919 + steps * 104729 + Len(ins) * 31 + Len(outs) * 17 + ver * 3 + lock
         IN RStep(Nth(AllMuts, h))
WSpec == MInit /\ [][WNext]_mvars

----------------------------------------------------------------------------
(* case tables *)
SVPairs == << <<"base", "base">>, <<"witness", "witness">>, <<"base", "witness">>, <<"witness", "base">>,
              <<"forkid", "forkid">> >>
\* the standard puzzle kinds that are validated under each signature version (concretization
\* detail: the view does not depend on the kind; the harness builds the real puzzle from it)
KindsOf(sv) == CASE sv = "base" -> <<"p2pkh", "p2pk", "ms_p2sh", "ms_bare", "p2pkh:u">>
                 [] sv = "witness" -> <<"p2wpkh", "ms_p2wsh", "p2sh_p2wpkh", "ms_p2sh_p2wsh">>
                 [] sv = "forkid" -> <<"p2pkh", "ms_p2sh", "p2pk", "ms_bare">>
KindFor(sv, r) == KindsOf(sv)[(r % Len(KindsOf(sv))) + 1]
CaseK(nin, nout, H, S, K, w) == [nin |-> nin, nout |-> nout, H |-> H, S |-> S, K |-> K, walk |-> w, umut |-> FALSE]
CaseKU(nin, nout, H, S, K) == CaseK(nin, nout, H, S, K, 1)
Case(nin, nout, H, S, w) == CaseK(nin, nout, H, S, [k \in 1..nin |-> KindFor(S[k], (H[k] % 7) + k + nout)], w)
\* two inputs, two outputs: every hash type for input 1 with every signature-version pair;
\* the hash type of input 2 rotates
CasesA == {Case(2, 2, <<HTSeq[a], HTSeq[((a + b) % 6) + 1]>>, SVPairs[b], 1) : a \in 1..6, b \in 1..5}
\* fewer outputs than inputs (the SIGHASH_SINGLE corner) and three inputs
CasesB == {Case(2, 1, <<HTSeq[a], 3>>, SVPairs[b], 1) : a \in {1, 3, 6}, b \in {1, 2, 5}}
          \cup {Case(3, 2, <<HTSeq[a], HTSeq[((a + 2) % 6) + 1], 131>>, <<"base", "witness", "base">>, 1) : a \in {1, 2}}
          \cup {Case(1, 1, <<HTSeq[a]>>, <<SVPairs[b][1]>>, 1) : a \in {1, 4}, b \in {1, 2, 5}}
CasesQ == CasesA \cup CasesB
\* every puzzle kind x every hash type, one input (plus a second, fixed one)
CasesKinds == {CaseK(2, 2, <<h, 1>>, <<sv, IF sv = "forkid" THEN "forkid" ELSE "base">>, <<KindsOf(sv)[i], "p2pkh">>, 1) :
                 h \in HashTypes, sv \in SigVersions, i \in 1..4}
              \cup {CaseK(1, 1, <<h>>, <<"base">>, <<"p2pkh:u">>, 1) : h \in HashTypes}
\* quick tier: all pairs of mutations on a third of the cases
\* unlocking-data mutations (verdicts delegated to VerifyScript): every non-fork-id puzzle kind, two hash types
CasesU == {[c EXCEPT !.umut = TRUE] : c \in
            {CaseKU(2, 2, <<h, 1>>, <<sv, "base">>, <<KindsOf(sv)[i], IF i % 2 = 0 THEN "p2pkh" ELSE "ms_p2sh">>) :
               h \in {1, 131}, sv \in {"base", "witness"}, i \in 1..4}
            \cup {CaseKU(2, 1, <<3, 2>>, <<"base", "witness">>, <<"p2pkh:u", "p2wpkh">>)}}
CasesU2 == {c \in CasesU : c.H[1] = 131 \/ c.nout = 1}
CasesOne == CasesQ \cup CasesKinds
CasesPairsQ == {c \in CasesA : (c.H[1] + c.H[2]) % 3 = 0} \cup {c \in CasesB : c.nin = 2 /\ c.H[1] = 3}
\* deeper histories on fewer cases
CasesDeep == {Case(2, 2, <<1, 131>>, <<"base", "witness">>, 1), Case(2, 2, <<3, 2>>, <<"witness", "base">>, 1),
              Case(2, 1, <<129, 3>>, <<"forkid", "forkid">>, 1)}
WalkCases(ws) == {[c EXCEPT !.walk = w] : c \in CasesQ, w \in ws}
WalkCasesQ == WalkCases(1..2)
WalkCasesT == WalkCases(1..12)
ModelCases == {Case(2, 2, <<1, 131>>, <<"base", "witness">>, 1), Case(2, 1, <<3, 3>>, <<"base", "forkid">>, 1)}
ModelCasesM == ModelCases \cup {Case(2, 2, <<130, 2>>, <<"witness", "base">>, 1), Case(3, 2, <<129, 3, 2>>, <<"witness", "base", "base">>, 1)}
ModelCasesT == CasesA \cup CasesB
=============================================================================
