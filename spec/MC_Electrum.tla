------------------------------ MODULE MC_Electrum ------------------------------
(* Lemmas + replay export for ElectrumKD (C09): for every (n, c) of a grid,   *)
(* one and two levels deep, the public wallet derives the public half of what *)
(* the private wallet derives.                                                *)
EXTENDS ElectrumKD, Json
CONSTANTS Ns, Cs, MaxDepth
VARIABLES steps, w          \* the (n, c) steps taken; the private wallet there
vars == <<steps, w>>
SeedText == Sym("eseed", 32)

Init == steps = <<>> /\ w = MasterFromSeed(SeedText)
Next == /\ Len(steps) < MaxDepth
        /\ \E n \in Ns, c \in Cs : steps' = Append(steps, <<n, c>>) /\ w' = PrivChild(w, n, c)
Spec == Init /\ [][Next]_vars

Commutes == \A n \in Ns, c \in Cs :
   /\ EPub(EChild(w, n, c)) = EChild(EPub(w), n, c)
   /\ EIsPrivate(EChild(w, n, c)) /\ ~EIsPrivate(EChild(EPub(w), n, c))
\* what is hashed: dec(n) ":" dec(c) ":" followed by the 64-byte master public key of THIS wallet
HashedLayout == \A n \in Ns, c \in Cs : LET m == SeqNum(n, c, EPub(w)).a IN
   /\ m.p[2] = XY64(PointOf(w))
   /\ m.p[1].v = DecAscii(n) \o <<58>> \o DecAscii(c) \o <<58>>
   /\ \A i \in 1..Len(DecAscii(n)) : DecAscii(n)[i] \in 48..57
   /\ (n >= 10 => DecAscii(n)[1] # 48)
KeyIsSum == Len(w.ts) = Len(steps) + 1
DecOk == DecAscii(0) = <<48>> /\ DecAscii(10) = <<49, 48>> /\ DecAscii(2147483647) = <<50, 49, 52, 55, 52, 56, 51, 54, 52, 55>>

Name(s) == <<"e", s>>
Emit == LET nc == Last(steps') IN
  PrintT(ToJson([k |-> "el", steps |-> steps',
                 prv |-> PrivChild(ELiftPrv(Name(steps)), nc[1], nc[2]),
                 pub |-> PubChild(ELiftPub(Name(steps)), nc[1], nc[2])]))
EmitRoot == PrintT(ToJson([k |-> "elroot", prv |-> MasterFromSeed(SeedText)]))
SpecE == (Init /\ EmitRoot) /\ [][Next]_vars
=============================================================================
