----------------------------- MODULE X03_Trace_Ku -----------------------------
(* X03, code -> spec: recorded invocations of the key utility (seeded random  *)
(* keys, networks, extended keys of random depth / child number, random       *)
(* sub-key ranges and option sets, several items per invocation) are runs of  *)
(* the pipeline of X03_KuTable.                                               *)
(*                                                                            *)
(* An event is one invocation: options, the items with the STRUCTURE of each  *)
(* text (read by the harness's independent decoders), what was printed -      *)
(* printout by printout, every value decoded by every decoder that applies    *)
(* (Base58Check payload, segwit program, hex bytes, hex / decimal integer,    *)
(* raw characters) - and the facts of the run: the HMAC-SHA512 calls pycoin   *)
(* really made, and HASH160 / k G / P + Q / decompression of the values       *)
(* involved, computed by the reference evaluator.  TLC runs Pipeline on the   *)
(* structure, builds every table with the spec's own operators, reduces it    *)
(* with the facts (X03_KuConc) and compares row by row.                       *)
EXTENDS X03_KuConc, Json, IOUtils

Traces == JsonDeserialize(IOEnv.TRACE_FILE)
VARIABLES tn, pos
tvars == <<tn, pos>>
Ev == Traces[tn].ev

\* does the observed value v (all its decodings) show the printed value c ?
Match(c, v, item) ==
  CASE c.enc = "str"    -> v.s = c.s
    [] c.enc = "input"  -> v.s = item
    [] c.enc = "hex"    -> c.d # <<>> /\ v.hex = c.d
    [] c.enc = "hexmin" -> c.d # <<>> /\ v.hexmin = c.d
    [] c.enc = "dec"    -> c.d # <<>> /\ v.dec = c.d
    [] c.enc = "b58c"   -> c.d # <<>> /\ c.s = "sha256d" /\ v.b58 = c.d
    [] c.enc = "seg"    -> c.d # <<>> /\ v.segd = c.d /\ v.seghrp = c.hrp /\ v.segver = c.ver /\ v.segvar = c.s

\* one printout: what the options select of the table of o, in the mode they imply
\* (the key is reduced to literal bytes ONCE - \E over a singleton makes TLC evaluate it once - then tabulated)
PrintoutOk(e, item, o, N, ob) ==
  \E lo \in {LiteralObj(o, e.facts)} :
  \E rows \in {Table(lo, N)} :
  LET sel == Selected(e.opts, rows)
      mode == Mode(e.opts, sel) IN
  \E sh \in {ConcRows(Shown(e.opts, sel), e.facts)} :
  CASE mode = "json" -> /\ ob.mode = "json" /\ Len(ob.rows) = Len(sh)
                        /\ \A i \in DOMAIN sh : \E j \in DOMAIN ob.rows : ob.rows[j].k = sh[i].k /\ Match(sh[i].c, ob.rows[j].v, item)
    [] mode = "text" -> /\ ob.mode = "text" /\ Len(ob.rows) = Len(sh)
                        /\ \A i \in DOMAIN sh : ob.rows[i].lab = sh[i].lab /\ Match(sh[i].c, ob.rows[i].v, item)
    [] mode = "single" -> ob.mode = "line" /\ Len(ob.rows) = 1 /\ Match(sh[1].c, ob.rows[1].v, item)
    [] mode = "none" -> /\ ob.mode = "line"
                        /\ \A i \in DOMAIN rows : rows[i].k \in {"input", "network", "symbol"} \/ ~Match(ConcVal(rows[i].v, e.facts), ob.rows[1].v, item)

\* the printouts the items call for, in order: [o, net, item]; `stop` where a sub-key path cannot be walked
RECURSIVE Wanted2(_, _)
Wanted2(e, i) ==
  IF i > Len(e.items) THEN [st |-> "ok", seq |-> <<>>]
  ELSE LET it == e.items[i]
           p == Pipeline(it.t, e.nopt, e.ov, e.sub, e.opts) IN
       IF p.st = "open" THEN [st |-> "open", seq |-> <<>>]
       ELSE LET mine == IF p.st = "cantparse" THEN <<>>
                        ELSE [j \in DOMAIN p.objs |-> IF p.objs[j] = Refused THEN [stop |-> TRUE]
                                                      ELSE [stop |-> FALSE, o |-> p.objs[j], net |-> p.net, item |-> it.s]]
                rest == Wanted2(e, i + 1) IN
            IF rest.st = "open" THEN rest ELSE [st |-> "ok", seq |-> mine \o rest.seq]

Explains(e) ==
  \E w \in {Wanted2(e, 1)} :
  IF w.st = "open" THEN PrintT(ToJson([k |-> "open", tid |-> tn, pos |-> pos]))
  ELSE LET stops == {i \in DOMAIN w.seq : w.seq[i].stop}
           upto == IF stops = {} THEN Len(w.seq) ELSE (CHOOSE i \in stops : \A j \in stops : i <= j) - 1 IN
       \* a path that cannot be walked ends the run with an error; nothing else may
       /\ ~e.unreadable
       /\ e.raised = (stops # {})
       /\ Len(e.obs) = upto
       /\ \A i \in 1..upto : PrintoutOk(e, w.seq[i].item, w.seq[i].o, Net(w.seq[i].net), e.obs[i])

TInit == tn \in 1..Len(Traces) /\ pos = 1
TNext == /\ pos <= Len(Ev)
         /\ Explains(Ev[pos])
         /\ pos' = pos + 1 /\ UNCHANGED tn
         /\ (pos' = Len(Ev) + 1 => PrintT(ToJson([k |-> "acc", tid |-> tn])))
TSpec == TInit /\ [][TNext]_tvars
ASSUME PrintT(ToJson([k |-> "hdr", n |-> Len(Traces)]))
=============================================================================
