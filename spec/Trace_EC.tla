------------------------------ MODULE Trace_EC ------------------------------
(* Code -> spec binding for C02.  A seeded recorder (props/c02.py) runs       *)
(* random register-machine programs - longer, with more registers and with    *)
(* arbitrary 30-bit multipliers and blinding factors, on curves larger than   *)
(* the enumerated grid - on pycoin's Generator/Curve/Point and logs, per      *)
(* call, the operands and the coordinates pycoin returned.  TLC replays the   *)
(* log against the formulas of EC.tla: the register file is the state, every  *)
(* logged result must be the point the group law demands, and it is carried   *)
(* forward as the operand of later events.                                    *)
(* Event: [op, i, j, dst, k, b, res]; res = <<>> | <<x, y>> (reduced mod P),  *)
(* <<-1, -1>> when pycoin raised.  "pfx" events log points_for_x(k):          *)
(* res = <<>> (ValueError) or << <<x, y0>>, <<x, y1>> >>.                     *)
EXTENDS EC, Json, IOUtils, TLC, TLCExt

CONSTANT R
Traces == JsonDeserialize(IOEnv.TRACE_FILE)

VARIABLES tid, l, pt
tvars == <<tid, l, pt>>
Ev == Traces[tid]
Cur == Ev[l]

Expected(e) ==
  CASE e.op = "load"     -> SMul(e.k, G)
    [] e.op = "genraw"   -> GMul(e.k)
    [] e.op = "genblind" -> BlindedGenMul(e.k, e.b)
    [] e.op = "add"      -> Add(pt[e.i], pt[e.j])
    [] e.op = "sub"      -> Sub(pt[e.i], pt[e.j])
    [] e.op = "neg"      -> Neg(pt[e.i])
    [] e.op = "mul"      -> SMul(e.k, pt[e.i])
    [] e.op = "shared"   -> SMul(e.k, pt[e.i])
    [] e.op = "clear"    -> Inf
    [] e.op = "pfx"      -> PointsForX(e.k)

TInit == /\ TLCSet(1, {}) /\ TLCSet(2, [i \in 1..Len(Traces) |-> 0])
         /\ tid \in 1..Len(Traces) /\ l = 1
         /\ pt = [i \in 1..R |-> Inf]
TStep == /\ l <= Len(Ev)
         /\ Cur.res = Expected(Cur)
         /\ pt' = IF Cur.op = "pfx" THEN pt ELSE [pt EXCEPT ![Cur.dst] = Cur.res]
         /\ l' = l + 1 /\ UNCHANGED tid
TSpec == TInit /\ [][TStep]_tvars

\* register 1: traces matched to their end; register 2: per trace, the number of events matched (reported for rejected traces)
Reached == /\ TLCSet(2, [TLCGet(2) EXCEPT ![tid] = IF @ < l - 1 THEN l - 1 ELSE @])
           /\ IF l = Len(Ev) + 1 THEN TLCSet(1, TLCGet(1) \cup {tid}) ELSE TRUE
Post == LET rej == (1..Len(Traces)) \ TLCGet(1) IN
        PrintT(ToJson([k |-> "rejected", n |-> Len(Traces), ids |-> rej,
                       matched |-> [i \in 1..Len(Traces) |-> IF i \in rej THEN TLCGet(2)[i] ELSE 0 - 1]]))
=============================================================================
