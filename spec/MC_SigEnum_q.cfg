CONSTANTS MaxKeys = 2  MaxSigs = 2
SPECIFICATION SSpec
INVARIANT ResultShape
INVARIANT NullFail
INVARIANT NoNeed
CHECK_DEADLOCK FALSE
