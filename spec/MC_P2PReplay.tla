---------------------------- MODULE MC_P2PReplay ----------------------------
(* Spec -> code binding for C16, and the model check of P2PMsg/P2PParse.      *)
(* TLC enumerates the cases of P2PGrid; each is packed (P2PMsg.Pack), the     *)
(* bytes are parsed by the cursor state machine (P2PParse), the round-trip    *)
(* lemmas are checked in every state, and on reaching a terminal state the    *)
(* case is printed with what the implementation must reproduce: the bytes,    *)
(* the size of each field's encoding, and the parsed field values.            *)
EXTENDS P2PParse, P2PGrid

CONSTANT Emit            \* print the cases (replay) or only check the lemmas

VARIABLES case, input
vars == <<case, input, allvars>>

HasRaw(c) == c.name \in {"block"} \/ \E i \in 1..Len(c.f) :
               LET ty == Layout(c.name)[i].ty IN
               \E k \in 1..Len(ty.of) : ty.of[k] \in {"T", "B"} /\
                  IF ty.arr THEN \E j \in 1..Len(c.f[i]) : IsRaw(IF Len(ty.of) = 1 THEN c.f[i][j] ELSE c.f[i][j][k])
                  ELSE IsRaw(c.f[i])

Record ==
  [k |-> "msg", name |-> case.name,
   fields |-> ShowFields(case.name, case.f),
   bytes |-> Show(input),
   sizes |-> [i \in 1..NFields(case.name) |-> Size(PackField(Layout(case.name)[i].ty, case.f[i]))],
   end |-> mode',
   left |-> Size(rest'),
   parsed |-> IF out' = case.f THEN [same |-> TRUE] ELSE [same |-> FALSE, fields |-> ShowFields(case.name, out')],
   inner |-> IF case.inner = <<>> THEN <<>> ELSE ShowFields("alert_info", case.inner)]

\* The cases are dealt to NCH initial states and picked in a first step, so that TLC's workers
\* share the work of packing them (initial states are computed by one thread).
NCH == 64
Init == /\ case \in 0..(NCH - 1) /\ input = <<>>
        /\ mname = "" /\ rest = <<>> /\ mode = "pick" /\ fi = 0 /\ left = 0 /\ ti = 0
        /\ cur = <<>> /\ arr = <<>> /\ out = <<>> /\ blk = NoBlock /\ TxIdle
Pick == /\ mode = "pick"
        /\ \E j \in {j \in 1..Len(CaseSeq) : j % NCH = case} :
              LET c == CaseSeq[j] b == Pack(c.name, c.f) IN
              /\ case' = c /\ input' = b
              /\ MStartState(c.name, b)
Next == \/ Pick
        \/ /\ mode # "pick" /\ MNext /\ UNCHANGED <<case, input>>
           /\ (Emit /\ mode' \in MTerminal) => PrintT(ToJson(Record))
Spec == Init /\ [][Next]_vars

\* ---------------------------------------------------------------- lemmas, checked in every state
First == mode = "item" /\ fi = 1 /\ left = 0 /\ out = <<>> /\ ti = 1 /\ pc = "idle"
TypeOK == /\ WellFormed(rest)
          /\ First => IsMsg(case.name, case.f) /\ WellFormed(input)
NoFail == mode # "fail"
Progress == mode \in MTerminal \/ ENABLED Next
\* Parse(Pack(m)) = m, the whole payload is consumed, and packing what was parsed gives the payload back
RoundTrip == mode = "done" =>
               /\ rest = <<>>
               /\ HasRaw(case) \/ out = case.f
               /\ IsMsg(case.name, out)
               /\ Pack(case.name, out) = input
\* the size of the payload follows from the widths of the types (stated separately from the codecs)
WidthLemma == First => Size(input) = MsgWidth(case.name, case.f)
\* embedded transactions are in the standard form (BIP144 iff witness data)
TxStd == mode \in {"tx", "btx"} => TxStandardHere

\* ---------------------------------------------------------------- lemmas about the whole case set
ASSUME AllCases == Len(CaseSeq) > 0 /\ (Emit => PrintT(ToJson([k |-> "ncases", n |-> Len(CaseSeq)])))
\* distinct field values have distinct encodings (per message)
ASSUME Injective == Tier = "p" \/ \A k \in 1..Len(MsgOrder) :
          LET m == MsgOrder[k] IN
          m \notin {"alert"} => Cardinality({Pack(m, f) : f \in Cases(m)}) = Cardinality(Cases(m))
\* every message of the protocol table has cases, and exactly the 28 names are covered
ASSUME Covered == ToSet(MsgOrder) = Messages /\ Len(MsgOrder) = Cardinality(Messages)

\* ---------------------------------------------------------------- ground truth: examples of the protocol documentation
WikiVersion == <<  <<60002, 0>>, <<1, 0, 0, 0>>, <<45585, 20688, 0, 0>>,
                   [services |-> <<1, 0, 0, 0>>, ip |-> V4(0, 0, 0, 0), port |-> 0],
                   [services |-> <<1, 0, 0, 0>>, ip |-> V4(0, 0, 0, 0), port |-> 0],
                   <<11835, 23987, 59020, 25879>>, UserAgent, <<16064, 3>>, <<>> >>
WikiVersionBytes == Lit(<<
   98, 234, 0, 0,   1, 0, 0, 0, 0, 0, 0, 0,   17, 178, 208, 80, 0, 0, 0, 0,
   1, 0, 0, 0, 0, 0, 0, 0,  0, 0, 0, 0, 0, 0, 0, 0, 0, 0, 255, 255, 0, 0, 0, 0,  0, 0,
   1, 0, 0, 0, 0, 0, 0, 0,  0, 0, 0, 0, 0, 0, 0, 0, 0, 0, 255, 255, 0, 0, 0, 0,  0, 0,
   59, 46, 179, 93, 140, 230, 23, 101,
   15, 47, 83, 97, 116, 111, 115, 104, 105, 58, 48, 46, 55, 46, 50, 47,
   192, 62, 3, 0 >>)
WikiAddr == << << << <<5602, 19728>>, [services |-> <<1, 0, 0, 0>>, ip |-> V4(10, 0, 0, 1), port |-> 8333] >> >> >>
WikiAddrBytes == Lit(<< 1,  226, 21, 16, 77,  1, 0, 0, 0, 0, 0, 0, 0,
                        0, 0, 0, 0, 0, 0, 0, 0, 0, 0, 255, 255, 10, 0, 0, 1,  32, 141 >>)
ASSUME Vectors == /\ Pack("version", WikiVersion) = WikiVersionBytes
                  /\ Pack("addr", WikiAddr) = WikiAddrBytes
                  /\ Pack("verack", <<>>) = <<>>
                  /\ Pack("ping", << <<513, 1027, 1541, 2055>> >>) = Lit(<<1, 2, 3, 4, 5, 6, 7, 8>>)
=============================================================================
