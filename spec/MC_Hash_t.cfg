CONSTANTS Lens <- LensAll
          Fills = {"ones", "x80", "mix", "len"}
          Pipes = {"ripemd160", "hash160", "double_sha256"}  WithVectors = TRUE
INIT Init
NEXT Next
INVARIANTS PadOK PadPrefix HTypeOK
CHECK_DEADLOCK FALSE
