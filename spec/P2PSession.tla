------------------------------ MODULE P2PSession ------------------------------
(* C16 over time: one long-lived codec, long-lived value objects.             *)
(*                                                                            *)
(* The standard (module P2PMsg) knows no state.  The payload of a message is  *)
(* a function of the message name and of the field values - and a field that  *)
(* is an OBJECT of the library's API (a network address, a block header, a    *)
(* transaction: plain records with public attributes that their owner         *)
(* updates: service bits learnt from a handshake, a nonce while mining, a     *)
(* lock time) has the value the object HOLDS WHEN THE MESSAGE IS PACKED.      *)
(* Nothing else enters: not what the codec packed, parsed or refused before,  *)
(* not what the object held when it was packed last.                          *)
(*                                                                            *)
(* A session is a sequence of steps on one codec and one store of objects:    *)
(*   pack      a message whose field values are of the layout's types; fields *)
(*             of letter A / z / T may refer to an object of the store.       *)
(*             DEMANDED: the bytes are Pack of the values held now, and       *)
(*             parsing them gives those values back.                          *)
(*   set       assign one attribute of one object (the value stays of the     *)
(*             object's type).  Nothing to observe.                           *)
(*   illpack   a pack call outside the property's quantifier: a keyword       *)
(*             missing, a number one past the range of its letter, a value of *)
(*             another letter's kind.  The property does not say what happens *)
(*             (FREE: any exception, any bytes) - only that it does not       *)
(*             change what later calls must answer.                           *)
(*   illparse  parse of a payload that is not the output of a pack of that     *)
(*             message (a pack output cut short inside a fixed-width field;   *)
(*             the payload of a message of another size).  FREE likewise.     *)
EXTENDS P2PMsg

\* ---------------------------------------------------------------- references to stored objects
RefLetters == {"A", "z", "T"}
Ref(id) == [ref |-> id]
IsRef(xR) == "ref" \in DOMAIN xR

ResVal(lR, xR, stR) == IF lR \in RefLetters /\ IsRef(xR) THEN stR[xR.ref] ELSE xR
ResElem(ofR, eR, stR) == IF Len(ofR) = 1 THEN ResVal(ofR[1], eR, stR)
                         ELSE [kR \in 1..Len(ofR) |-> ResVal(ofR[kR], eR[kR], stR)]
ResField(tyR, vR, stR) == IF tyR.arr THEN [jR \in 1..Len(vR) |-> ResElem(tyR.of, vR[jR], stR)]
                          ELSE ResVal(tyR.of[1], vR, stR)
\* tys: the types to read the template with (the layout's, except at an ill-kinded field)
ResolveTy(tys, fR, stR) == [iR \in 1..Len(tys) |-> ResField(tys[iR], fR[iR], stR)]
LayoutTys(mR) == [iR \in 1..NFields(mR) |-> Layout(mR)[iR].ty]
Resolve(mR, fR, stR) == ResolveTy(LayoutTys(mR), fR, stR)

\* ---------------------------------------------------------------- steps
PackStep(mR, fR)           == [op |-> "pack", name |-> mR, f |-> fR]
SetStep(idR, attrR, vR)    == [op |-> "set", obj |-> idR, attr |-> attrR, v |-> vR]
\* how: "missing" (the keyword of field `at` is not given), "over" (f[at] holds a number one past the range of
\* its letter), "kind" (f[at] is a value of type `as`, not of the layout's type)
IllPack(mR, fR, atR, howR, asR) == [op |-> "illpack", name |-> mR, f |-> fR, at |-> atR, how |-> howR, as |-> asR]
\* parse, as message `as`, the payload Pack(name, f) without its last `cut` bytes
IllParse(asR, mR, fR, cutR) == [op |-> "illparse", name |-> mR, f |-> fR, cut |-> cutR, as |-> asR]

StepTys(sR) == IF sR.op = "illpack" /\ sR.how = "kind" THEN [LayoutTys(sR.name) EXCEPT ![sR.at] = sR.as]
               ELSE LayoutTys(sR.name)

\* the store after the step
Apply(sR, stR) == IF sR.op = "set" THEN [stR EXCEPT ![sR.obj] = [@ EXCEPT ![sR.attr] = sR.v]] ELSE stR

\* what the step must answer, the store being stR when it is made
Answer(sR, stR) ==
  CASE sR.op = "pack" -> LET gR == Resolve(sR.name, sR.f, stR) IN
                         [demand |-> "bytes", bytes |-> Pack(sR.name, gR), fields |-> gR]
    [] sR.op = "set"  -> [demand |-> "none"]
    [] sR.op = "illparse" -> LET bR == Pack(sR.name, Resolve(sR.name, sR.f, stR)) IN
                             [demand |-> "free", input |-> Take(bR, Size(bR) - sR.cut)]
    [] OTHER          -> [demand |-> "free"]

\* ---------------------------------------------------------------- types
\* a pack step is inside the property's quantifier: its values (the objects' current ones) are of the declared types
PackTyped(sR, stR) == sR.op = "pack" => IsMsg(sR.name, Resolve(sR.name, sR.f, stR))
\* an over-range step is outside it (the other ill kinds are outside by construction: a missing keyword, another kind)
OverIll(sR, stR) == (sR.op = "illpack" /\ sR.how = "over") =>
                      ~IsField(Layout(sR.name)[sR.at].ty, ResField(Layout(sR.name)[sR.at].ty, sR.f[sR.at], stR))
\* the payload of an illparse step is not a pack output of the message it is parsed as.  Reading is deterministic
\* from left to right (the encodings are prefix-free), hence:  same message - the payload ends before or inside a
\* mandatory fixed-width field, all fields before it being complete;  another message - every field of that message
\* has a fixed width and the payload has another size
FixedLetters == {"L", "Q", "6", "1", "b", "h", "#", "@", "A", "v", "z"}
IsFixedTy(tyR) == ~tyR.arr /\ tyR.of[1] \in FixedLetters
AllFixed(mR) == \A iR \in 1..NFields(mR) : IsFixedTy(Layout(mR)[iR].ty)
FixedWidthOf(mR) == SumSeq([iR \in 1..NFields(mR) |-> Width(Layout(mR)[iR].ty.of[1], 0)])
CutIll(sR, stR) == sR.op = "illparse" =>
  LET gR == Resolve(sR.name, sR.f, stR)
      szR == [iR \in 1..NFields(sR.name) |-> Size(PackField(Layout(sR.name)[iR].ty, gR[iR]))]
      nR == SumSeq(szR) - sR.cut IN
  /\ IsMsg(sR.name, gR) /\ sR.cut >= 0 /\ nR >= 0
  /\ IF sR.as = sR.name
     THEN \E iR \in 1..NFields(sR.name) : /\ IsFixedTy(Layout(sR.name)[iR].ty)
                                          /\ SumSeq(SubSeq(szR, 1, iR - 1)) <= nR /\ nR < SumSeq(SubSeq(szR, 1, iR))
     ELSE AllFixed(sR.as) /\ nR # FixedWidthOf(sR.as)

\* ---------------------------------------------------------------- export
ShowValR(lR, xR) == IF lR \in RefLetters /\ IsRef(xR) THEN xR ELSE ShowVal(lR, xR)
ShowElemR(ofR, eR) == IF Len(ofR) = 1 THEN ShowValR(ofR[1], eR) ELSE [kR \in 1..Len(ofR) |-> ShowValR(ofR[kR], eR[kR])]
ShowFieldR(tyR, vR) == IF tyR.arr THEN [jR \in 1..Len(vR) |-> ShowElemR(tyR.of, vR[jR])] ELSE ShowValR(tyR.of[1], vR)
\* the template of a pack / illpack / illparse step: literal values shown, references as [ref |-> id]
ShowTemplate(sR) ==
  LET tys == StepTys(sR) IN
  [iR \in 1..Len(tys) |->
     LET gone == sR.op = "illpack" /\ sR.how = "missing" /\ sR.at = iR IN
     [n |-> Layout(sR.name)[iR].name, t |-> TypeText(tys[iR]), missing |-> gone,
      v |-> IF gone THEN <<>> ELSE ShowFieldR(tys[iR], sR.f[iR])]]
BytesAttrs == {"ip", "prev", "merkle"}
ShowStep(sR) ==
  CASE sR.op = "set" -> [op |-> "set", obj |-> sR.obj, attr |-> sR.attr,
                         v |-> IF sR.attr \in BytesAttrs THEN Show(sR.v) ELSE sR.v]
    [] sR.op = "pack" -> [op |-> "pack", name |-> sR.name, fields |-> ShowTemplate(sR)]
    [] sR.op = "illpack" -> [op |-> "illpack", name |-> sR.name, fields |-> ShowTemplate(sR), at |-> sR.at, how |-> sR.how]
    [] sR.op = "illparse" -> [op |-> "illparse", name |-> sR.name, fields |-> ShowTemplate(sR), cut |-> sR.cut, as |-> sR.as]
ShowAnswer(sR, aR) ==
  IF aR.demand = "bytes"
  THEN [demand |-> "bytes", bytes |-> Show(aR.bytes), fields |-> ShowFields(sR.name, aR.fields),
        sizes |-> [iR \in 1..NFields(sR.name) |-> Size(PackField(Layout(sR.name)[iR].ty, aR.fields[iR]))]]
  ELSE IF "input" \in DOMAIN aR THEN [demand |-> aR.demand, input |-> Show(aR.input)]
  ELSE [demand |-> aR.demand]
=============================================================================
