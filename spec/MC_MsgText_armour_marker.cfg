CONSTANTS Mode = "armour" MaxLines = 2 MarkerLines = TRUE MaxLen = 0 Prefixed = TRUE
SPECIFICATION Spec
INVARIANT Holds
CHECK_DEADLOCK FALSE
