CONSTANTS Tier = "m"
  SecU <- BadSecU
SPECIFICATION Spec
INVARIANTS PipelineAgrees GridParses Tables Concrete Counts
CHECK_DEADLOCK FALSE
