------------------------------ MODULE X08_Solve ------------------------------
(* X08 - the signing solver is sound for every script.                        *)
(*                                                                            *)
(* The rule book, independent of pycoin's code:                               *)
(*  Part 0  a small token language for scripts (opcodes + placeholders for    *)
(*          keys, hashes of keys, hashes of a preimage, small numbers) and    *)
(*          its TOY interpretation as bytes, so that the executable consensus *)
(*          specification ScriptVM.tla (C03) runs them unchanged: toy keys    *)
(*          are 33-byte strings, the signature <<48, i, i, i, i, i>> verifies for key i   *)
(*          and nothing else, H(op, x) = <<op, op, op, op, op>> \o x (injective, tagged).     *)
(*          The model-checking configuration overrides ScriptVM's four oracle *)
(*          accessors (HashHas/HashGet/SigHas/SigGet) with these total toy    *)
(*          functions - the oracles are ScriptVM's parameters.                *)
(*  Part 1  the constraint language: terms over named unknown stack items     *)
(*          (atom i = the i-th item from the top of the unlocking stack),     *)
(*          constants, HASH, EQUAL, SIGNATURES-CORRECT; constraints IS-TRUE / *)
(*          IS-FALSE / NULLFAIL; the denotation Val / Sat under an assignment *)
(*          of bytes to the atoms.                                            *)
(*  Part 2  the tracer: the symbolic run of a script on a stack of unknowns,  *)
(*          forking at IF / NOTIF / IFDUP, giving up ("stuck") at opcodes     *)
(*          whose result it cannot express.  Lemmas (checked by TLC on the    *)
(*          bounded grammar in X08_MC_Solve):                                 *)
(*            TraceSound: every accepting run of ScriptVM on a stack s        *)
(*                        satisfies all constraints of some path;             *)
(*            TraceExact: a stack satisfying all constraints of a path that   *)
(*                        ran to the end is accepted by ScriptVM.             *)
(*  Part 3  the solver: given what the caller supplies (private keys, the     *)
(*          preimage), the items a solver can PRODUCE; a script is Solvable   *)
(*          iff some stack of producible items is accepted.  Outcome classes: *)
(*          {"solved", "cannot"} if solvable, {"cannot"} otherwise.           *)
EXTENDS ScriptVM, FiniteSetsExt

-----------------------------------------------------------------------------
(* Part 0: tokens and the toy interpretation *)
NKeys == 3
ToyKey(i) == <<2>> \o [jK \in 1..32 |-> i]
ToySig(i) == <<48, i, i, i, i, i>>           \* longer than a script number: arithmetic never makes one
ToyPre == <<80, 1>>
ToyJunk == <<7>>
ToyHash(op, x) == <<op, op, op, op, op>> \o x   \* never a script number either

PushToks == {"K1", "K2", "K3", "HK1", "HK2", "HP1", "SP1"}
NumToks == {"0", "1", "2", "3", "L200", "BIG"}      \* BIG: a 5-byte number (2^39 - 1), no operand may be that long
PushVal(t) == CASE t = "K1" -> ToyKey(1) [] t = "K2" -> ToyKey(2) [] t = "K3" -> ToyKey(3)
                [] t = "HK1" -> ToyHash(OP_HASH160, ToyKey(1)) [] t = "HK2" -> ToyHash(OP_HASH160, ToyKey(2))
                [] t = "HP1" -> ToyHash(OP_HASH160, ToyPre) [] t = "SP1" -> ToyHash(OP_SHA256, ToyPre)
NumVal(t) == CASE t = "0" -> <<>> [] t = "1" -> <<1>> [] t = "2" -> <<2>> [] t = "3" -> <<3>> [] t = "L200" -> <<200, 0>> [] t = "BIG" -> <<255, 255, 255, 255, 127>>
OpByte(t) == CASE t = "DUP" -> OP_DUP [] t = "DROP" -> OP_DROP [] t = "SWAP" -> OP_SWAP [] t = "OVER" -> OP_OVER
               [] t = "2DUP" -> OP_2DUP [] t = "NIP" -> OP_NIP [] t = "TUCK" -> OP_TUCK [] t = "ROT" -> OP_ROT
               [] t = "IFDUP" -> OP_IFDUP [] t = "SIZE" -> OP_SIZE [] t = "DEPTH" -> OP_DEPTH [] t = "NOT" -> OP_NOT
               [] t = "VERIFY" -> OP_VERIFY [] t = "EQUAL" -> OP_EQUAL [] t = "EQUALVERIFY" -> OP_EQUALVERIFY
               [] t = "HASH160" -> OP_HASH160 [] t = "SHA256" -> OP_SHA256
               [] t = "CHECKSIG" -> OP_CHECKSIG [] t = "CHECKSIGVERIFY" -> OP_CHECKSIGVERIFY
               [] t = "CHECKMULTISIG" -> OP_CHECKMULTISIG [] t = "CHECKMULTISIGVERIFY" -> OP_CHECKMULTISIGVERIFY
               [] t = "IF" -> OP_IF [] t = "NOTIF" -> OP_NOTIF [] t = "ELSE" -> OP_ELSE [] t = "ENDIF" -> OP_ENDIF
               [] t = "CLTV" -> OP_CLTV [] t = "CSV" -> OP_CSV [] t = "TOALT" -> OP_TOALTSTACK [] t = "FROMALT" -> OP_FROMALTSTACK
               [] t = "RETURN" -> OP_RETURN [] t = "ADD" -> OP_ADD [] t = "NOP" -> OP_NOP [] t = "0NOTEQUAL" -> OP_0NOTEQUAL
               [] t = "BOOLAND" -> OP_BOOLAND [] t = "BOOLOR" -> OP_BOOLOR [] t = "2DROP" -> OP_2DROP [] t = "PICK" -> OP_PICK
               [] t = "HASH256" -> OP_HASH256 [] t = "RIPEMD160" -> OP_RIPEMD160 [] t = "NUMEQUAL" -> OP_NUMEQUAL
OpToks == {"DUP", "DROP", "SWAP", "OVER", "2DUP", "NIP", "TUCK", "ROT", "IFDUP", "SIZE", "DEPTH", "NOT", "VERIFY", "EQUAL",
           "EQUALVERIFY", "HASH160", "SHA256", "CHECKSIG", "CHECKSIGVERIFY", "CHECKMULTISIG", "CHECKMULTISIGVERIFY",
           "IF", "NOTIF", "ELSE", "ENDIF", "CLTV", "CSV", "TOALT", "FROMALT", "RETURN", "ADD", "NOP", "0NOTEQUAL",
           "BOOLAND", "BOOLOR", "2DROP", "PICK", "HASH256", "RIPEMD160", "NUMEQUAL"}
Toks == PushToks \cup NumToks \cup OpToks

ToyEnc(t) == IF t \in PushToks THEN PushEnc(PushVal(t))
             ELSE IF t \in {"L200", "BIG"} THEN PushEnc(NumVal(t))
             ELSE IF t = "0" THEN <<0>>
             ELSE IF t \in NumToks THEN <<80 + NumVal(t)[1]>>
             ELSE <<OpByte(t)>>
ToyScript(toks) == FoldLeft(LAMBDA acc, t : acc \o ToyEnc(t), <<>>, toks)

\* the flags whose rules do not depend on the byte-level encoding of real signatures
ToyFlags == {"NULLDUMMY", "NULLFAIL", "CHECKLOCKTIMEVERIFY", "CHECKSEQUENCEVERIFY", "MINIMALDATA"}
\* the spending transaction every case uses: version 2, lock time 100, sequence 10
ToyCtx == [version |-> 2, locktime |-> <<100, 0, 0, 0>>, sequence |-> <<10, 0, 0, 0>>]
ToyEnv(sc) == [script |-> sc, flags |-> ToyFlags, sv |-> "base", ctx |-> ToyCtx, hashes |-> <<>>, sigs |-> <<>>,
               sigmode |-> "fixed"]
\* total oracles (the configuration substitutes them for ScriptVM's table look-ups)
ToyHashHas(env, op, x) == TRUE
ToyHashGet(env, op, x) == ToyHash(op, x)
ToySigHas(env, sig, key, code) == TRUE
ToySigGet(env, sig, key, code) == \E iK \in 1..NKeys : sig = ToySig(iK) /\ key = ToyKey(iK)

RunToy(toks, s) == Eval(s, ToyEnv(ToyScript(toks)))
Accepting(vm) == vm.status = "done" /\ vm.stack # <<>> /\ CastToBool(Top(vm.stack, 1))

-----------------------------------------------------------------------------
(* Part 1: terms, constraints, denotation *)
AtomT(i) == [k |-> "atom", i |-> i]
LitT(b) == [k |-> "lit", b |-> b]
TokT(t) == [k |-> "tok", v |-> t]
HashT(op, a) == [k |-> "hash", op |-> op, a |-> a]
EqT(a, b) == [k |-> "eq", a |-> a, b |-> b]
SigOkT(keys, sigs) == [k |-> "sigok", keys |-> keys, sigs |-> sigs]     \* top-most key / signature first
CTrue(t) == [c |-> "true", t |-> t]
CFalse(t) == [c |-> "false", t |-> t]
CNullFail(t) == [c |-> "nullfail", t |-> t]       \* the check succeeds or every signature is empty
CAnn == [c |-> "ann"]                              \* an annotation without a denotation (IS_PUBKEY, IS_SIGNATURE)

RECURSIVE Val(_, _)
Val(t, asg) ==
  CASE t.k = "atom" -> asg[t.i + 1]
    [] t.k = "lit" -> t.b
    [] t.k = "tok" -> PushVal(t.v)
    [] t.k = "hash" -> ToyHash(t.op, Val(t.a, asg))
    [] t.k = "eq" -> BoolBytes(Val(t.a, asg) = Val(t.b, asg))
    [] t.k = "sigok" -> LET ks == [iK \in 1..Len(t.keys) |-> Val(t.keys[iK], asg)]
                            ss == [iK \in 1..Len(t.sigs) |-> Val(t.sigs[iK], asg)]
                        IN BoolBytes(MultiLoop(ToyEnv(<<>>), <<>>, ss, ks, TRUE)[2])
\* the largest atom index a term mentions (-1: none)
RECURSIVE MaxAtom(_)
SeqMaxAtom(ts) == IF ts = <<>> THEN -1 ELSE Max({MaxAtom(ts[iK]) : iK \in 1..Len(ts)})
MaxAtom(t) ==
  CASE t.k = "atom" -> t.i
    [] t.k \in {"lit", "tok"} -> -1
    [] t.k = "hash" -> MaxAtom(t.a)
    [] t.k = "eq" -> Max({MaxAtom(t.a), MaxAtom(t.b)})
    [] t.k = "sigok" -> Max({SeqMaxAtom(t.keys), SeqMaxAtom(t.sigs)})

Sat(c, asg) ==
  CASE c.c = "true" -> CastToBool(Val(c.t, asg))
    [] c.c = "false" -> ~CastToBool(Val(c.t, asg))
    [] c.c = "nullfail" -> CastToBool(Val(c.t, asg)) \/ \A iK \in 1..Len(c.t.sigs) : Val(c.t.sigs[iK], asg) = <<>>
    [] c.c = "ann" -> TRUE
SatAll(cs, asg) == \A iK \in 1..Len(cs) : Sat(cs[iK], asg)
\* atom i is the i-th item from the top of the stack the unlocking data leaves
AsgOf(s) == [iK \in 1..Len(s) |-> s[Len(s) + 1 - iK]]

-----------------------------------------------------------------------------
(* Part 2: the tracer *)
SymInit == [stack |-> <<>>, alt |-> <<>>, cons |-> <<>>, na |-> 0, vf |-> <<>>, status |-> "run"]
\* make sure the stack holds n items: missing ones are the next deeper unknowns of the unlocking stack
Fill(st, n) ==
  IF Len(st.stack) >= n THEN st
  ELSE LET more == n - Len(st.stack) IN
       [st EXCEPT !.stack = [jK \in 1..more |-> AtomT(st.na + more - jK)] \o st.stack, !.na = st.na + more]
ST(st, i) == st.stack[Len(st.stack) + 1 - i]
SBase(st, n) == SubSeq(st.stack, 1, Len(st.stack) - n)
Shuffle(st, n, new(_)) == LET f == Fill(st, n) IN <<[f EXCEPT !.stack = SBase(f, n) \o new(f)]>>
AddC(st, c) == [st EXCEPT !.cons = Append(@, c)]
Stuck(st) == <<[st EXCEPT !.status = "stuck"]>>
Dead == <<>>
IsNumLit(t) == t.k = "lit" /\ Len(t.b) <= 1 /\ (t.b = <<>> \/ t.b[1] <= 16)
LitNat(t) == IF t.b = <<>> THEN 0 ELSE t.b[1]

SymCheckMultiSig(st, verify) ==
  IF Len(st.stack) < 1 \/ ~IsNumLit(ST(st, 1)) THEN Stuck(st)
  ELSE LET nk == LitNat(ST(st, 1)) IN
  IF Len(st.stack) < nk + 2 \/ ~IsNumLit(ST(st, nk + 2)) THEN Stuck(st)
  ELSE LET ns == LitNat(ST(st, nk + 2)) IN
  IF ns > nk THEN Dead
  ELSE LET f == Fill(st, nk + ns + 3)
           keys == [iK \in 1..nk |-> ST(f, 1 + iK)]
           sigs == [iK \in 1..ns |-> ST(f, nk + 2 + iK)]
           dummy == ST(f, nk + ns + 3)
           t == SigOkT(keys, sigs)
           g == AddC(AddC([f EXCEPT !.stack = SBase(f, nk + ns + 3)], CTrue(EqT(dummy, LitT(<<>>)))), CNullFail(t))
       IN IF verify THEN <<AddC(g, CTrue(t))>> ELSE <<[g EXCEPT !.stack = Append(@, t)]>>

SymLock(st, tok) ==      \* CLTV / CSV with a literal operand: decided by ScriptVM against the fixed transaction
  IF Len(st.stack) < 1 \/ ST(st, 1).k # "lit" THEN Stuck(st)
  ELSE LET vm0 == InitVM(<<ST(st, 1).b>>)
           vm1 == IF tok = "CLTV" THEN ExecCLTV(vm0, ToyEnv(<<>>)) ELSE ExecCSV(vm0, ToyEnv(<<>>))
       IN IF vm1.status = "run" THEN <<st>> ELSE Dead

\* one executed token -> the sequence of successor paths
SymOp(st, tok) ==
  IF tok \in PushToks THEN <<[st EXCEPT !.stack = Append(@, TokT(tok))]>>
  ELSE IF tok \in NumToks THEN <<[st EXCEPT !.stack = Append(@, LitT(NumVal(tok)))]>>
  ELSE CASE tok = "DUP" -> Shuffle(st, 1, LAMBDA f : <<ST(f, 1), ST(f, 1)>>)
    [] tok = "DROP" -> Shuffle(st, 1, LAMBDA f : <<>>)
    [] tok = "2DROP" -> Shuffle(st, 2, LAMBDA f : <<>>)
    [] tok = "SWAP" -> Shuffle(st, 2, LAMBDA f : <<ST(f, 1), ST(f, 2)>>)
    [] tok = "OVER" -> Shuffle(st, 2, LAMBDA f : <<ST(f, 2), ST(f, 1), ST(f, 2)>>)
    [] tok = "2DUP" -> Shuffle(st, 2, LAMBDA f : <<ST(f, 2), ST(f, 1), ST(f, 2), ST(f, 1)>>)
    [] tok = "NIP" -> Shuffle(st, 2, LAMBDA f : <<ST(f, 1)>>)
    [] tok = "TUCK" -> Shuffle(st, 2, LAMBDA f : <<ST(f, 1), ST(f, 2), ST(f, 1)>>)
    [] tok = "ROT" -> Shuffle(st, 3, LAMBDA f : <<ST(f, 2), ST(f, 1), ST(f, 3)>>)
    [] tok = "NOP" -> <<st>>
    [] tok = "TOALT" -> LET f == Fill(st, 1) IN <<[f EXCEPT !.stack = SBase(f, 1), !.alt = Append(@, ST(f, 1))]>>
    [] tok = "FROMALT" -> IF st.alt = <<>> THEN Dead
                          ELSE <<[st EXCEPT !.stack = Append(@, st.alt[Len(st.alt)]), !.alt = SubSeq(@, 1, Len(@) - 1)]>>
    [] tok = "IFDUP" -> LET f == Fill(st, 1) IN
                        <<AddC([f EXCEPT !.stack = Append(@, ST(f, 1))], CTrue(ST(f, 1))), AddC(f, CFalse(ST(f, 1)))>>
    [] tok \in {"IF", "NOTIF"} ->
         LET f == Fill(st, 1)  b == [f EXCEPT !.stack = SBase(f, 1)] IN
         <<AddC([b EXCEPT !.vf = Append(@, tok = "IF")], CTrue(ST(f, 1))),
           AddC([b EXCEPT !.vf = Append(@, tok # "IF")], CFalse(ST(f, 1)))>>
    [] tok = "VERIFY" -> LET f == Fill(st, 1) IN <<AddC([f EXCEPT !.stack = SBase(f, 1)], CTrue(ST(f, 1)))>>
    [] tok = "EQUAL" -> Shuffle(st, 2, LAMBDA f : <<EqT(ST(f, 1), ST(f, 2))>>)
    [] tok = "EQUALVERIFY" -> LET f == Fill(st, 2) IN <<AddC([f EXCEPT !.stack = SBase(f, 2)], CTrue(EqT(ST(f, 1), ST(f, 2))))>>
    [] tok = "HASH160" -> Shuffle(st, 1, LAMBDA f : <<HashT(OP_HASH160, ST(f, 1))>>)
    [] tok = "SHA256" -> Shuffle(st, 1, LAMBDA f : <<HashT(OP_SHA256, ST(f, 1))>>)
    [] tok = "HASH256" -> Shuffle(st, 1, LAMBDA f : <<HashT(OP_HASH256, ST(f, 1))>>)
    [] tok = "RIPEMD160" -> Shuffle(st, 1, LAMBDA f : <<HashT(OP_RIPEMD160, ST(f, 1))>>)
    [] tok = "CHECKSIG" -> LET f == Fill(st, 2)  t == SigOkT(<<ST(f, 1)>>, <<ST(f, 2)>>) IN
                           <<AddC([f EXCEPT !.stack = Append(SBase(f, 2), t)], CNullFail(t))>>
    [] tok = "CHECKSIGVERIFY" -> LET f == Fill(st, 2)  t == SigOkT(<<ST(f, 1)>>, <<ST(f, 2)>>) IN
                                 <<AddC([f EXCEPT !.stack = SBase(f, 2)], CTrue(t))>>
    [] tok = "CHECKMULTISIG" -> SymCheckMultiSig(st, FALSE)
    [] tok = "CHECKMULTISIGVERIFY" -> SymCheckMultiSig(st, TRUE)
    [] tok \in {"CLTV", "CSV"} -> SymLock(st, tok)
    [] tok = "RETURN" -> Dead
    [] OTHER -> Stuck(st)          \* SIZE, DEPTH, NOT, ADD, ...: not expressible in the constraint language

SymAllTrue(st) == \A iK \in 1..Len(st.vf) : st.vf[iK]
SymTok(st, tok) ==
  IF st.status # "run" THEN <<st>>
  ELSE IF SymAllTrue(st) THEN
       (IF tok = "ELSE" THEN (IF st.vf = <<>> THEN Dead ELSE <<[st EXCEPT !.vf[Len(st.vf)] = ~@]>>)
        ELSE IF tok = "ENDIF" THEN (IF st.vf = <<>> THEN Dead ELSE <<[st EXCEPT !.vf = SubSeq(@, 1, Len(@) - 1)]>>)
        ELSE SymOp(st, tok))
  ELSE IF tok \in {"IF", "NOTIF"} THEN <<[st EXCEPT !.vf = Append(@, FALSE)]>>
  ELSE IF tok = "ELSE" THEN <<[st EXCEPT !.vf[Len(st.vf)] = ~@]>>
  ELSE IF tok = "ENDIF" THEN <<[st EXCEPT !.vf = SubSeq(@, 1, Len(@) - 1)]>>
  ELSE <<st>>
SymFinish(st) ==
  IF st.status # "run" THEN <<st>>
  ELSE IF st.vf # <<>> THEN Dead
  ELSE LET f == Fill(st, 1) IN <<AddC(f, CTrue(ST(f, 1)))>>
FlatMap(ps, F(_)) == FoldLeft(LAMBDA acc, p : acc \o F(p), <<>>, ps)
\* every path of the symbolic run: status "run" = ran to the end, "stuck" = gave up (its constraints are those met so far)
Paths(toks) == FlatMap(FoldLeft(LAMBDA ps, tok : FlatMap(ps, LAMBDA p : SymTok(p, tok)), <<SymInit>>, toks), SymFinish)

-----------------------------------------------------------------------------
(* Part 3: what a solver can produce, solvability, the lemmas as predicates *)
KTok(i) == CASE i = 1 -> "K1" [] i = 2 -> "K2" [] i = 3 -> "K3"
HKTok(i) == CASE i = 1 -> "HK1" [] i = 2 -> "HK2" [] i = 3 -> "HK3"
KeysIn(toks) == {iK \in 1..NKeys : \E jK \in 1..Len(toks) : toks[jK] \in {KTok(iK), HKTok(iK)}}
LitKeys(toks) == {iK \in 1..NKeys : \E jK \in 1..Len(toks) : toks[jK] = KTok(iK)}
HasPre(toks) == \E jK \in 1..Len(toks) : toks[jK] \in {"HP1", "SP1"}
\* the values a stack item is drawn from when a script is examined
Domain(toks) == {<<>>, <<1>>, ToyJunk} \cup {ToyKey(iK) : iK \in KeysIn(toks)} \cup {ToySig(iK) : iK \in KeysIn(toks)}
                \cup (IF HasPre(toks) THEN {ToyPre} ELSE {})
\* supply = [keys: private keys handed over, pre: the preimage is handed over]
Producible(toks, sup) == {<<>>, <<1>>, ToyJunk} \cup {ToyKey(iK) : iK \in sup.keys \cup LitKeys(toks)}
                         \cup {ToySig(iK) : iK \in sup.keys} \cup (IF sup.pre THEN {ToyPre} ELSE {})
MaxN == 3
Depth(ps) == IF ps = <<>> THEN 0 ELSE Min({MaxN, Max({ps[iK].na : iK \in 1..Len(ps)})})
\* the stacks examined: exactly n items when every path ran to the end (deeper items are never looked at);
\* every length up to MaxN when the tracer gave up somewhere (the script may look at the depth itself)
AnyStuck(ps) == \E iK \in 1..Len(ps) : ps[iK].status = "stuck"
Stacks(toks, ps, n) == LET dom == Domain(toks) IN
  IF AnyStuck(ps) THEN UNION {[1..m -> dom] : m \in 0..MaxN} ELSE [1..n -> dom]
\* accepted stacks, each with the number of items the run leaves
Accepted(toks, ps, n) ==
  UNION {LET vm == RunToy(toks, s) IN IF Accepting(vm) THEN {<<s, Len(vm.stack)>>} ELSE {} : s \in Stacks(toks, ps, n)}
NeedsOracle2(toks, ps, n) == \E s \in Stacks(toks, ps, n) : RunToy(toks, s).status = "need"

PathHolds(p, s) == p.na <= Len(s) /\ SatAll(p.cons, AsgOf(s))
TraceSound(ps, acc) == \A a \in acc : \E iK \in 1..Len(ps) : PathHolds(ps[iK], a[1])
TraceExact(toks, ps, acc, n) ==
  \A s \in Stacks(toks, ps, n) :
     (\E iK \in 1..Len(ps) : ps[iK].status = "run" /\ PathHolds(ps[iK], s)) => \E a \in acc : a[1] = s
Solvable(toks, sup, acc) == \E a \in acc : \A iK \in 1..Len(a[1]) : a[1][iK] \in Producible(toks, sup)
SolvableClean(toks, sup, acc) == \E a \in acc : a[2] = 1 /\ \A iK \in 1..Len(a[1]) : a[1][iK] \in Producible(toks, sup)
Outcomes(toks, sup, acc) == IF Solvable(toks, sup, acc) THEN {"solved", "cannot"} ELSE {"cannot"}
=============================================================================
