CONSTANTS P = 31  A = 1  B = 28  Gx = 0  Gy = 11  N = 23  Scope = "full"  Iterated = TRUE
SPECIFICATION Spec
INVARIANT GroupLaw
CHECK_DEADLOCK FALSE
