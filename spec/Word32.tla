------------------------------- MODULE Word32 -------------------------------
(* 32-bit machine words for the hash specifications of C19.                  *)
(*                                                                           *)
(* TLC integers are 32-bit signed and TLC aborts on overflow, so a 32-bit    *)
(* word is a pair <<hi, lo>> of 16-bit limbs.  Every operator keeps all      *)
(* intermediate integers below 2^31:                                         *)
(*   - additions work limb-wise with an explicit carry,                      *)
(*   - rotations/shifts are multiplications/divisions by powers of two of a  *)
(*     single limb (limb * 2^s < 2^32 is avoided by reducing first),         *)
(*   - and/or/xor come limb-wise from the community module Bitwise (which    *)
(*     already owns the names And/Or/Xor/Not, hence WAnd/WOr/WXor/WNot),     *)
(*   - the 32x32 -> 32 multiplication is done on 8-bit digits (16x16-bit     *)
(*     partial products would overflow).                                     *)
EXTENDS Integers, Sequences, Bitwise

L16 == 65536
W(hi, lo) == <<hi, lo>>
IsWord(w) == /\ Len(w) = 2 /\ w[1] \in 0..(L16 - 1) /\ w[2] \in 0..(L16 - 1)
Zero32 == W(0, 0)
\* word of a small natural (n < 2^31)
WordOfNat(n) == W((n \div L16) % L16, n % L16)
\* value of a word when it is known to be below 2^31 (used by lemmas only)
NatOfWord(w) == w[1] * L16 + w[2]

(* ---- addition modulo 2^32 ------------------------------------------------*)
Add(a, b) == LET lo == a[2] + b[2]
             IN  W((a[1] + b[1] + lo \div L16) % L16, lo % L16)
Add3(a, b, c) == Add(Add(a, b), c)
Add4(a, b, c, d) == Add(Add(a, b), Add(c, d))
Add5(a, b, c, d, e) == Add(Add4(a, b, c, d), e)

(* ---- bitwise -------------------------------------------------------------*)
WXor(a, b) == W(a[1] ^^ b[1], a[2] ^^ b[2])
WAnd(a, b) == W(a[1] & b[1], a[2] & b[2])
WOr(a, b)  == W(a[1] | b[1], a[2] | b[2])
WNot(a)    == W(L16 - 1 - a[1], L16 - 1 - a[2])
WXor3(a, b, c) == WXor(WXor(a, b), c)

(* ---- rotations and shifts -------------------------------------------------*)
\* rotate left by 0 < s < 16: each limb keeps its low 16-s bits (shifted up) and
\* receives the top s bits of the other limb
RolSmall(a, s) ==
  LET p == 2^s  q == 2^(16 - s)
  IN  W((a[1] % q) * p + a[2] \div q, (a[2] % q) * p + a[1] \div q)
Swap(a) == W(a[2], a[1])
Rol(a, s) == IF s = 0 THEN a
             ELSE IF s < 16 THEN RolSmall(a, s)
             ELSE IF s = 16 THEN Swap(a)
             ELSE RolSmall(Swap(a), s - 16)
Ror(a, s) == Rol(a, (32 - s) % 32)
\* logical shift right by 0 <= s < 32
Shr(a, s) == IF s = 0 THEN a
             ELSE IF s < 16 THEN LET p == 2^s q == 2^(16 - s)
                                 IN W(a[1] \div p, (a[1] % p) * q + a[2] \div p)
             ELSE W(0, a[1] \div 2^(s - 16))

(* ---- bytes ----------------------------------------------------------------*)
BytesLE(w) == << w[2] % 256, w[2] \div 256, w[1] % 256, w[1] \div 256 >>
BytesBE(w) == << w[1] \div 256, w[1] % 256, w[2] \div 256, w[2] % 256 >>
WordLE(b0, b1, b2, b3) == W(b3 * 256 + b2, b1 * 256 + b0)   \* b0 least significant
WordBE(b0, b1, b2, b3) == W(b0 * 256 + b1, b2 * 256 + b3)   \* b0 most significant
\* the i-th (1-based) little-/big-endian word of a byte sequence
WordAtLE(bs, i) == WordLE(bs[4*i - 3], bs[4*i - 2], bs[4*i - 1], bs[4*i])
WordAtBE(bs, i) == WordBE(bs[4*i - 3], bs[4*i - 2], bs[4*i - 1], bs[4*i])

(* ---- multiplication modulo 2^32 on 8-bit digits -----------------------------*)
\* a = sum A[i] 256^(i-1), b likewise; the product modulo 2^32 only needs the
\* digit products with i + j <= 5 (1-based).  Column sums stay below 2^19.
Mul32(a, b) ==
  LET A  == BytesLE(a)   B == BytesLE(b)
      c0 == A[1]*B[1]
      c1 == A[1]*B[2] + A[2]*B[1]
      c2 == A[1]*B[3] + A[2]*B[2] + A[3]*B[1]
      c3 == A[1]*B[4] + A[2]*B[3] + A[3]*B[2] + A[4]*B[1]
      t1 == c1 + c0 \div 256
      t2 == c2 + t1 \div 256
      t3 == c3 + t2 \div 256
  IN  WordLE(c0 % 256, t1 % 256, t2 % 256, t3 % 256)

(* ---- remainder of a word by a small modulus (m < 2^22) ------------------------*)
\* Horner over the big-endian bytes: (r * 256 + byte) < 2^30 + 256
ModWord(w, m) ==
  LET b == BytesBE(w)
      r1 == b[1] % m
      r2 == (r1 * 256 + b[2]) % m
      r3 == (r2 * 256 + b[3]) % m
  IN  (r3 * 256 + b[4]) % m

(* ---- arbitrary-width naturals as little-endian sequences of 16-bit limbs ------*)
\* (seeds and tweaks "wider than 32 bits"); reduction modulo 2^32 keeps the two
\* lowest limbs
LimbsToWord(ls) == W(IF Len(ls) >= 2 THEN ls[2] ELSE 0, IF Len(ls) >= 1 THEN ls[1] ELSE 0)
WordToLimbs(w) == << w[2], w[1] >>

(* ---- 64-bit naturals as exactly four little-endian limbs (for unreduced seeds) ----*)
Wide4(ls) == [i \in 1..4 |-> IF i <= Len(ls) THEN ls[i] ELSE 0]
\* a * n for n < 2^15 (limb * n < 2^31), truncated to 64 bits
Wide4MulSmall(a, n) ==
  LET t1 == a[1] * n
      t2 == a[2] * n + t1 \div L16
      t3 == a[3] * n + t2 \div L16
      t4 == a[4] * n + t3 \div L16
  IN  << t1 % L16, t2 % L16, t3 % L16, t4 % L16 >>
Wide4Add(a, b) ==
  LET t1 == a[1] + b[1]
      t2 == a[2] + b[2] + t1 \div L16
      t3 == a[3] + b[3] + t2 \div L16
      t4 == a[4] + b[4] + t3 \div L16
  IN  << t1 % L16, t2 % L16, t3 % L16, t4 % L16 >>
=============================================================================
