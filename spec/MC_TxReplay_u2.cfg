CONSTANTS MaxSteps = 2  MaxInserts = 1  Mode = "replay"  Cases <- CasesU2
SPECIFICATION RSpec
CHECK_DEADLOCK FALSE
