------------------------------ MODULE TxSession ------------------------------
(* C13 over a HISTORY: one long-lived transaction object whose spent outputs *)
(* (unspents) and outputs are replaced while its totals are being asked for. *)
(*                                                                           *)
(* Standard (history independence): whatever was asked or replaced before,   *)
(*    total_in  = sum of the CURRENT unspents' amounts                       *)
(*    total_out = sum of the CURRENT outputs' amounts                        *)
(*    fee       = total_in - total_out                                       *)
(*    validate_unspents(db) returns that fee iff every input is Backed by db *)
(*                          (UnspentRules) and raises otherwise              *)
(* i.e. every answer is a function of the current fields only - the answer a *)
(* fresh object built from the same fields would give.                       *)
(*                                                                           *)
(* SHAPE.  "inputs" in "fee = inputs minus outputs" are the spendables the   *)
(* INPUTS came from: input i is paired with unspents[i].  The unspents list  *)
(* need not have one entry per input - the inputs are edited after the       *)
(* unspents were installed, a list is assigned past the checked setter, the  *)
(* constructor is handed a list of another length.  Then                     *)
(*   fewer unspents than inputs: the value of some input is unknown; no      *)
(*       number can be "inputs minus outputs": total_in / fee / validate     *)
(*       must refuse (raise);                                                *)
(*   more unspents than inputs: the surplus entries are spendables that are  *)
(*       not inputs.  An answer is either a refusal or computed from the     *)
(*       entries paired with the inputs (the first Len(ins)) - never from    *)
(*       the surplus (R1: the property does not say which of the two).       *)
(* Allowed(..) is the set of admissible answers; the machine below refuses.  *)
(*                                                                           *)
(* The machine is implementation-shaped: it may keep a memo of total_in.     *)
(*   CacheMode = "none"         no memo (the plain reading of the standard)  *)
(*             = "all_writers"  memo dropped by every writer of the unspents *)
(*                              (a legitimate optimisation)                  *)
(*             = "set_only"     memo dropped by SetUnspents only; direct     *)
(*                              assignment and UnspentsFromDb keep it        *)
(* TLC shows (MC_TxSession_*.cfg) that the first two satisfy                 *)
(* HistoryIndependent in every reachable state and that the third does not   *)
(* (the slip the replay and the traces must catch in pycoin).                *)
(*                                                                           *)
(* Born:     with the unspents list StartLists names (the constructor takes  *)
(*                               any list)                                   *)
(* Writers:  SetUnspents(list)   checked setter: wrong length raises, nothing*)
(*                               changes                                     *)
(*           Assign(list)        tx.unspents = list (any length)             *)
(*           RemoveIn, AppendIn  the last input is dropped / one more input  *)
(*                               is added; the unspents stay as they are     *)
(*           FromDb(db)          unspents := the outputs db holds for the    *)
(*                               inputs' outpoints; raises (nothing changes) *)
(*                               unless db holds each very source and output *)
(*           AppendOut(p), ReplaceOut(i, p)   the outputs are edited         *)
(* Queries:  TotalIn, TotalOut, Fee, Validate(db)                            *)
EXTENDS Integers, Sequences, FiniteSets, TLC

CONSTANTS CacheMode, MaxOuts,
          StartLists,     \* the unspents lists (indices into Lists) an object may be born with
          ListIds         \* the lists the writers SetUnspents / Assign are tried with

U == INSTANCE UnspentRules

O(a, s) == [amt |-> a, scr |-> s]
P(t, a) == [to |-> t, amt |-> a]

\* ---- the world: two source transactions, a transaction spending one output of each
Truth == << << O(5, 1), O(7, 2) >>, << O(3, 1) >> >>
Ins   == << [src |-> 1, idx |-> 0], [src |-> 2, idx |-> 0] >>
\* unspents a caller may install: the truth, a wrong amount on either input, a wrong
\* script, and a list of the wrong length (only the checked setter refuses it)
Lists == << << O(5, 1), O(3, 1) >>, << O(7, 1), O(3, 1) >>, << O(5, 2), O(3, 1) >>,
            << O(5, 1), O(4, 1) >>, << O(9, 1) >>, << O(5, 1), O(3, 1), O(8, 2) >> >>
\* lists one shorter and one longer than the inputs the object is born with
ASSUME ListIds \subseteq 1..Len(Lists) /\ StartLists \subseteq 1..Len(Lists)
ASSUME \E k \in ListIds : Len(Lists[k]) = Len(Ins) - 1
ASSUME \E k \in ListIds : Len(Lists[k]) = Len(Ins) + 1
\* the input AppendIn adds: the second output of source 1
ExtraIn == [src |-> 1, idx |-> 1]
MaxIns == Len(Ins) + 1
Honest == [s \in 1..2 |-> U!Stored(s, Truth[s])]
DBs == [honest |-> Honest,
        miss2  |-> [Honest EXCEPT ![2] = U!Missing],
        lie1   |-> [Honest EXCEPT ![1] = U!Stored(9, << O(7, 1), O(7, 2) >>)]]
DbNames == {"honest", "miss2", "lie1"}
Pays == << P(3, 1), P(1, 4) >>
InitOuts == << P(1, 2), P(2, 1) >>

RECURSIVE SumAmt(_)
SumAmt(s) == IF s = << >> THEN 0 ELSE Head(s).amt + SumAmt(Tail(s))

\* ---- the standard: answers as functions of the current fields
TotalInOf(un)       == SumAmt(un)
TotalOutOf(outs)    == SumAmt(outs)
FeeOf(un, outs)     == TotalInOf(un) - TotalOutOf(outs)
TxOf(in, un, outs)  == [ins |-> in, unspents |-> un, outs |-> outs]
Val(n)   == << "val", n >>
Raise    == << "raise" >>
Ok       == << "ok" >>
\* the shape of the object: one unspent per input, some input without one, or entries beyond the inputs
Shaped(in, un)  == Len(un) = Len(in)
Short(in, un)   == Len(un) < Len(in)
Surplus(in, un) == Len(un) > Len(in)
PairedUn(in, un) == SubSeq(un, 1, Len(in))          \* (not Short) the entries paired with the inputs
\* a value answer computed from the paired entries; a refusal is always admissible when the shape is wrong
Answers(in, un, v(_)) == IF Short(in, un) THEN {Raise}
                         ELSE IF Shaped(in, un) THEN {v(un)}
                         ELSE {Raise, v(PairedUn(in, un))}
TotalInAllowed(in, un)    == Answers(in, un, LAMBDA p : Val(TotalInOf(p)))
FeeAllowed(in, un, outs)  == Answers(in, un, LAMBDA p : Val(FeeOf(p, outs)))
ValidateAllowed(in, un, outs, db) ==
  Answers(in, un, LAMBDA p : IF U!AllBacked(TxOf(in, p, outs), db) THEN Val(FeeOf(p, outs)) ELSE Raise)
\* what UnspentsFromDb installs (defined when FromDbOk)
FromDbOk(in, db)   == U!Fetchable(TxOf(in, << >>, << >>), db)
FromDbList(in, db) == U!Fetched(TxOf(in, << >>, << >>), db)

\* ---- the machine
VARIABLES ins, unspents, outs,
          memo,     \* remembered total_in, or NoMemo
          last,     \* the last action and its answer
          born      \* the list the object was born with
svars == <<ins, unspents, outs, memo, last, born>>
NoMemo == -1

SInit == /\ born \in StartLists
         /\ ins = Ins /\ unspents = Lists[born] /\ outs = InitOuts /\ memo = NoMemo
         /\ last = [a |-> << "new" >>, r |-> Ok]

\* total_in as the object computes it: it refuses unless there is one unspent per input
Ready == Shaped(ins, unspents)
Unchecked == TRUE          \* (MC_TxSession_unchecked.cfg: an object that sums whatever list it holds - must be rejected)
ReadIn == IF CacheMode # "none" /\ memo # NoMemo THEN memo ELSE SumAmt(unspents)
Remember == memo' = IF CacheMode = "none" THEN NoMemo ELSE ReadIn
Drop(always) == memo' = IF always \/ CacheMode = "all_writers" THEN NoMemo ELSE memo

QTotalIn  == /\ IF Ready THEN last' = [a |-> << "tin" >>, r |-> Val(ReadIn)] /\ Remember
                      ELSE last' = [a |-> << "tin" >>, r |-> Raise] /\ UNCHANGED memo
             /\ UNCHANGED <<ins, unspents, outs>>
QTotalOut == /\ last' = [a |-> << "tout" >>, r |-> Val(SumAmt(outs))]
             /\ UNCHANGED <<ins, unspents, outs, memo>>
QFee      == /\ IF Ready THEN last' = [a |-> << "fee" >>, r |-> Val(ReadIn - SumAmt(outs))] /\ Remember
                      ELSE last' = [a |-> << "fee" >>, r |-> Raise] /\ UNCHANGED memo
             /\ UNCHANGED <<ins, unspents, outs>>
QValidate(d) ==
  /\ IF Ready /\ U!AllBacked(TxOf(ins, unspents, outs), DBs[d])
     THEN last' = [a |-> << "validate", d >>, r |-> Val(ReadIn - SumAmt(outs))] /\ Remember
     ELSE last' = [a |-> << "validate", d >>, r |-> Raise] /\ UNCHANGED memo
  /\ UNCHANGED <<ins, unspents, outs>>

WSet(k) == IF Len(Lists[k]) = Len(ins)
           THEN /\ unspents' = Lists[k] /\ Drop(TRUE)
                /\ last' = [a |-> << "set", k >>, r |-> Ok] /\ UNCHANGED <<ins, outs>>
           ELSE /\ last' = [a |-> << "set", k >>, r |-> Raise] /\ UNCHANGED <<ins, unspents, outs, memo>>
WAssign(k) == /\ unspents' = Lists[k] /\ Drop(FALSE)
              /\ last' = [a |-> << "assign", k >>, r |-> Ok] /\ UNCHANGED <<ins, outs>>
WFromDb(d) == IF FromDbOk(ins, DBs[d])
              THEN /\ unspents' = FromDbList(ins, DBs[d]) /\ Drop(FALSE)
                   /\ last' = [a |-> << "fromdb", d >>, r |-> Ok] /\ UNCHANGED <<ins, outs>>
              ELSE /\ last' = [a |-> << "fromdb", d >>, r |-> Raise] /\ UNCHANGED <<ins, unspents, outs, memo>>
WAppend(k) == /\ Len(outs) < MaxOuts
              /\ outs' = Append(outs, Pays[k])
              /\ last' = [a |-> << "append", k >>, r |-> Ok] /\ UNCHANGED <<ins, unspents, memo>>
WReplace(i, k) == /\ i \in 1..Len(outs)
                  /\ outs' = [outs EXCEPT ![i] = Pays[k]]
                  /\ last' = [a |-> << "replace", i, k >>, r |-> Ok] /\ UNCHANGED <<ins, unspents, memo>>
\* the inputs are edited; the unspents are not told
WRemoveIn == /\ Len(ins) > 1
             /\ ins' = SubSeq(ins, 1, Len(ins) - 1)
             /\ last' = [a |-> << "remove_in" >>, r |-> Ok] /\ UNCHANGED <<unspents, outs, memo>>
WAppendIn == /\ Len(ins) < MaxIns
             /\ ins' = Append(ins, ExtraIn)
             /\ last' = [a |-> << "append_in", ExtraIn.src, ExtraIn.idx >>, r |-> Ok] /\ UNCHANGED <<unspents, outs, memo>>

SNext == /\ \/ QTotalIn \/ QTotalOut \/ QFee
            \/ \E d \in DbNames : QValidate(d) \/ WFromDb(d)
            \/ \E k \in ListIds : WSet(k) \/ WAssign(k)
            \/ \E k \in 1..Len(Pays) : WAppend(k) \/ WReplace(1, k)
            \/ WRemoveIn \/ WAppendIn
         /\ UNCHANGED born
SSpec == SInit /\ [][SNext]_svars

\* the admissible answers to the last question, from the CURRENT fields
AllowedFor(a, in, un, o) ==
  CASE a[1] = "tin"  -> TotalInAllowed(in, un)
    [] a[1] = "tout" -> {Val(TotalOutOf(o))}
    [] a[1] = "fee"  -> FeeAllowed(in, un, o)
    [] a[1] = "validate" -> ValidateAllowed(in, un, o, DBs[a[2]])
    [] OTHER -> {}
AllowedNow(a) == AllowedFor(a, ins, unspents, outs)

\* ---- the lemma: every answer is one the current fields admit
HistoryIndependent ==
  last.a[1] \in {"tin", "tout", "fee", "validate"} => last.r \in AllowedNow(last.a)
\* the checked setter never installs a list of the wrong length; a memo, when kept, is right
Shape == (last.a[1] = "set" /\ last.r = Ok) => Shaped(ins, unspents)
MemoRight == memo # NoMemo => memo = SumAmt(unspents)
\* the shapes are worth the trouble: a value computed from ALL entries of a surplus list is never admissible
\* (every amount is positive), and every shape is reached
SurplusNeverCounted ==
  Surplus(ins, unspents) => /\ Val(SumAmt(unspents)) \notin TotalInAllowed(ins, unspents)
                            /\ Val(FeeOf(unspents, outs)) \notin FeeAllowed(ins, unspents, outs)
=============================================================================
