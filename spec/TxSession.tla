------------------------------ MODULE TxSession ------------------------------
(* C13 over a HISTORY: one long-lived transaction object whose spent outputs *)
(* (unspents) and outputs are replaced while its totals are being asked for. *)
(*                                                                           *)
(* Standard (history independence): whatever was asked or replaced before,   *)
(*    total_in  = sum of the CURRENT unspents' amounts                       *)
(*    total_out = sum of the CURRENT outputs' amounts                        *)
(*    fee       = total_in - total_out                                       *)
(*    validate_unspents(db) returns that fee iff every input is Backed by db *)
(*                          (UnspentRules) and raises otherwise              *)
(* i.e. every answer is a function of the current fields only - the answer a *)
(* fresh object built from the same fields would give.                       *)
(*                                                                           *)
(* The machine is implementation-shaped: it may keep a memo of total_in.     *)
(*   CacheMode = "none"         no memo (the plain reading of the standard)  *)
(*             = "all_writers"  memo dropped by every writer of the unspents *)
(*                              (a legitimate optimisation)                  *)
(*             = "set_only"     memo dropped by SetUnspents only; direct     *)
(*                              assignment and UnspentsFromDb keep it        *)
(* TLC shows (MC_TxSession_*.cfg) that the first two satisfy                 *)
(* HistoryIndependent in every reachable state and that the third does not   *)
(* (the slip the replay and the traces must catch in pycoin).                *)
(*                                                                           *)
(* Writers:  SetUnspents(list)   checked setter: wrong length raises, nothing*)
(*                               changes                                     *)
(*           Assign(list)        tx.unspents = list                          *)
(*           FromDb(db)          unspents := the outputs db holds for the    *)
(*                               inputs' outpoints; raises (nothing changes) *)
(*                               unless db holds each very source and output *)
(*           AppendOut(p), ReplaceOut(i, p)   the outputs are edited         *)
(* Queries:  TotalIn, TotalOut, Fee, Validate(db)                            *)
EXTENDS Integers, Sequences, FiniteSets, TLC

CONSTANTS CacheMode, MaxOuts

U == INSTANCE UnspentRules

O(a, s) == [amt |-> a, scr |-> s]
P(t, a) == [to |-> t, amt |-> a]

\* ---- the world: two source transactions, a transaction spending one output of each
Truth == << << O(5, 1), O(7, 2) >>, << O(3, 1) >> >>
Ins   == << [src |-> 1, idx |-> 0], [src |-> 2, idx |-> 0] >>
\* unspents a caller may install: the truth, a wrong amount on either input, a wrong
\* script, and a list of the wrong length (only the checked setter refuses it)
Lists == << << O(5, 1), O(3, 1) >>, << O(7, 1), O(3, 1) >>, << O(5, 2), O(3, 1) >>,
            << O(5, 1), O(4, 1) >>, << O(9, 1) >> >>
WellSized == {k \in 1..Len(Lists) : Len(Lists[k]) = Len(Ins)}
Honest == [s \in 1..2 |-> U!Stored(s, Truth[s])]
DBs == [honest |-> Honest,
        miss2  |-> [Honest EXCEPT ![2] = U!Missing],
        lie1   |-> [Honest EXCEPT ![1] = U!Stored(9, << O(7, 1), O(7, 2) >>)]]
DbNames == {"honest", "miss2", "lie1"}
Pays == << P(3, 1), P(1, 4) >>
InitOuts == << P(1, 2), P(2, 1) >>

RECURSIVE SumAmt(_)
SumAmt(s) == IF s = << >> THEN 0 ELSE Head(s).amt + SumAmt(Tail(s))

\* ---- the standard: answers as functions of the current fields
TotalInOf(un)       == SumAmt(un)
TotalOutOf(outs)    == SumAmt(outs)
FeeOf(un, outs)     == TotalInOf(un) - TotalOutOf(outs)
TxOf(un, outs)      == [ins |-> Ins, unspents |-> un, outs |-> outs]
Val(n)   == << "val", n >>
Raise    == << "raise" >>
Ok       == << "ok" >>
ValidateOf(un, outs, db) == IF U!AllBacked(TxOf(un, outs), db) THEN Val(FeeOf(un, outs)) ELSE Raise
\* what UnspentsFromDb installs (defined when FromDbOk)
FromDbOk(db)   == U!Fetchable(TxOf(<< >>, << >>), db)
FromDbList(db) == U!Fetched(TxOf(<< >>, << >>), db)

\* ---- the machine
VARIABLES unspents, outs,
          memo,     \* remembered total_in, or NoMemo
          last      \* the last action and its answer
svars == <<unspents, outs, memo, last>>
NoMemo == -1

SInit == /\ unspents = Lists[1] /\ outs = InitOuts /\ memo = NoMemo
         /\ last = [a |-> << "new" >>, r |-> Ok]

\* total_in as the object computes it
ReadIn == IF CacheMode # "none" /\ memo # NoMemo THEN memo ELSE SumAmt(unspents)
Remember == memo' = IF CacheMode = "none" THEN NoMemo ELSE ReadIn
Drop(always) == memo' = IF always \/ CacheMode = "all_writers" THEN NoMemo ELSE memo

QTotalIn  == /\ last' = [a |-> << "tin" >>, r |-> Val(ReadIn)]
             /\ Remember /\ UNCHANGED <<unspents, outs>>
QTotalOut == /\ last' = [a |-> << "tout" >>, r |-> Val(SumAmt(outs))]
             /\ UNCHANGED <<unspents, outs, memo>>
QFee      == /\ last' = [a |-> << "fee" >>, r |-> Val(ReadIn - SumAmt(outs))]
             /\ Remember /\ UNCHANGED <<unspents, outs>>
QValidate(d) ==
  /\ IF U!AllBacked(TxOf(unspents, outs), DBs[d])
     THEN last' = [a |-> << "validate", d >>, r |-> Val(ReadIn - SumAmt(outs))] /\ Remember
     ELSE last' = [a |-> << "validate", d >>, r |-> Raise] /\ UNCHANGED memo
  /\ UNCHANGED <<unspents, outs>>

WSet(k) == IF Len(Lists[k]) = Len(Ins)
           THEN /\ unspents' = Lists[k] /\ Drop(TRUE)
                /\ last' = [a |-> << "set", k >>, r |-> Ok] /\ UNCHANGED outs
           ELSE /\ last' = [a |-> << "set", k >>, r |-> Raise] /\ UNCHANGED <<unspents, outs, memo>>
WAssign(k) == /\ k \in WellSized
              /\ unspents' = Lists[k] /\ Drop(FALSE)
              /\ last' = [a |-> << "assign", k >>, r |-> Ok] /\ UNCHANGED outs
WFromDb(d) == IF FromDbOk(DBs[d])
              THEN /\ unspents' = FromDbList(DBs[d]) /\ Drop(FALSE)
                   /\ last' = [a |-> << "fromdb", d >>, r |-> Ok] /\ UNCHANGED outs
              ELSE /\ last' = [a |-> << "fromdb", d >>, r |-> Raise] /\ UNCHANGED <<unspents, outs, memo>>
WAppend(k) == /\ Len(outs) < MaxOuts
              /\ outs' = Append(outs, Pays[k])
              /\ last' = [a |-> << "append", k >>, r |-> Ok] /\ UNCHANGED <<unspents, memo>>
WReplace(i, k) == /\ i \in 1..Len(outs)
                  /\ outs' = [outs EXCEPT ![i] = Pays[k]]
                  /\ last' = [a |-> << "replace", i, k >>, r |-> Ok] /\ UNCHANGED <<unspents, memo>>

SNext == \/ QTotalIn \/ QTotalOut \/ QFee
         \/ \E d \in DbNames : QValidate(d) \/ WFromDb(d)
         \/ \E k \in 1..Len(Lists) : WSet(k) \/ WAssign(k)
         \/ \E k \in 1..Len(Pays) : WAppend(k) \/ WReplace(1, k)
SSpec == SInit /\ [][SNext]_svars

\* ---- the lemma: every answer is the one the current fields determine
HistoryIndependent ==
  LET a == last.a[1] IN
  /\ a = "tin"  => last.r = Val(TotalInOf(unspents))
  /\ a = "tout" => last.r = Val(TotalOutOf(outs))
  /\ a = "fee"  => last.r = Val(FeeOf(unspents, outs))
  /\ a = "validate" => last.r = ValidateOf(unspents, outs, DBs[last.a[2]])
\* the checked setter never leaves a list of the wrong length behind; a memo, when kept, is right
Shape == Len(unspents) = Len(Ins)
MemoRight == memo # NoMemo => memo = SumAmt(unspents)
=============================================================================
