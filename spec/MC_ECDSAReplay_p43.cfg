CONSTANTS P = 43  A = 0  B = 7  Gx = 2  Gy = 12  N = 31
          SignZ = {1, 2, 3, 4, 5, 6, 7, 8, 9, 10, 11, 12, 13, 14, 15, 16, 17, 18, 19, 20, 21, 22, 23, 24, 25, 26, 27, 28, 29, 30, 31, 32, 33, 34, 35, 61, 62}  VerZ = {1, 2, 15, 30, 31, 32, 61, 62}  VerQ = {2, 3, 4, 5, 6, 7, 8, 9, 10, 11, 12, 13, 14, 15, 16, 17, 18, 19, 20, 21, 22, 23, 24, 25, 26, 27, 28, 29, 30, 31}  RecZ = {1, 2, 3, 4, 5, 6, 7, 8, 9, 10, 11, 12, 13, 14, 15, 16, 17, 18, 19, 20, 21, 22, 23, 24, 25, 26, 27, 28, 29, 30, 31, 32}
SPECIFICATION Spec
INVARIANT ReturnedVerifies
CHECK_DEADLOCK FALSE
