CONSTANTS P = 11  A = 1  B = 6  Gx = 2  Gy = 4  N = 13
          DS = {1, 6, 7, 12}  KS = {1, 2, 3, 4, 5, 6, 7, 8, 9, 10, 11, 12}
          Z1 = {1, 2, 3, 4, 5, 6, 7, 8, 9, 10, 11, 12, 13}
          Z2 = {1, 2, 3, 4, 5, 6, 7, 8, 9, 10, 11, 12, 13}  D2 = {1, 7}
          OS1 = {1, 6}  DeepD = {1, 12}  M = 17  Dealers = 32
SPECIFICATION Spec
INVARIANTS LemmasHold TablesOk
CHECK_DEADLOCK FALSE
