----------------------------- MODULE MC_BIP32Seed -----------------------------
(* Presentations of the master seed (C09).                                    *)
(*                                                                            *)
(* BIP32: the master key is I = HMAC-SHA512("Bitcoin seed", S) for a byte     *)
(* string S; every byte of S counts - leading zero bytes included (the BIP's  *)
(* own first vector starts with 0x00).  A seed reaches a library as bytes or  *)
(* spelt in hexadecimal as the BIP writes it ("Seed (hex): 000102..."): two   *)
(* digits per byte, high nibble first, nothing dropped.  The library's text   *)
(* form is the letter H, a colon and those digits.  Whatever the entry point, *)
(* the key obtained is Master(S).                                             *)
(*                                                                            *)
(* A seed here is Head || tail: Head a literal byte string that fixes how S   *)
(* begins (the classes below), tail an unknown string of n bytes.  TLC spells *)
(* the digits of Head out; the harness appends the digits of the tail.        *)
EXTENDS BIP32, Json
CONSTANTS TailLens

Heads == { <<>>, <<0>>, <<0, 0>>, <<0, 1>>, <<0, 0, 0, 0>>, <<0, 255>>,      \* leading zero bytes
           <<1>>, <<15>>, <<10, 0>>,                                          \* leading zero nibble only
           <<16>>, <<255>>, <<120>>, <<240, 0>> }                             \* no leading zero digit ("x" is not a digit)
HexDigits == <<"0", "1", "2", "3", "4", "5", "6", "7", "8", "9", "a", "b", "c", "d", "e", "f">>
HexOf(bs) == FoldLeft(LAMBDA acc, b : acc \o <<HexDigits[(b \div 16) + 1], HexDigits[(b % 16) + 1]>>, <<>>, bs)
LeadClass(h) == IF h = <<>> THEN "unconstrained" ELSE IF h[1] = 0 THEN "zero byte" ELSE IF h[1] < 16 THEN "zero nibble" ELSE "no zero digit"

TailSym(n) == Sym("tail", n)
SeedOf(h, n) == IF h = <<>> THEN TailSym(n) ELSE Cat(<<B(h), TailSym(n)>>)
\* the text: literal characters, then the digits of the tail (two per byte)
TextOf(h, n) == [lit |-> <<"H", ":">> \o HexOf(h), hexof |-> TailSym(n)]
EntryPoints == {"keys.bip32_seed(bytes)", "parse.bip32_seed", "parse.hd_seed", "parse.hierarchical_key", "parse.secret", "parse"}

VARIABLES head, tlen
vars == <<head, tlen>>
Init == head = <<>> /\ tlen = 0
Next == tlen = 0 /\ \E h \in Heads, n \in TailLens : head' = h /\ tlen' = n
Spec == Init /\ [][Next]_vars

\* nothing is dropped and nothing invented: two digits per byte, and Head can be read back from its digits
DigitVal16(c) == (CHOOSE i \in 1..16 : HexDigits[i] = c) - 1
Unhex(ds) == [i \in 1..(Len(ds) \div 2) |-> 16 * DigitVal16(ds[2 * i - 1]) + DigitVal16(ds[2 * i])]
HexLemma == /\ Len(HexOf(head)) = 2 * Len(head)
            /\ Unhex(HexOf(head)) = head
            /\ \A h \in Heads : h # head => HexOf(h) # HexOf(head)
\* seeds that differ in leading zeros are different seeds with different master keys
SeedLemma == tlen > 0 =>
   /\ Size(SeedOf(head, tlen)) = Len(head) + tlen
   /\ \A h \in Heads : h # head => Master(SeedOf(h, tlen)) # Master(SeedOf(head, tlen))
   /\ (head # <<>> /\ head[1] = 0) => Master(SeedOf(SubSeq(head, 2, Len(head)), tlen)) # Master(SeedOf(head, tlen))
   /\ IsPrivate(Master(SeedOf(head, tlen))) /\ Master(SeedOf(head, tlen)).depth = 0

Emit == PrintT(ToJson([k |-> "seed", head |-> head', cls |-> LeadClass(head'), n |-> tlen',
                       seed |-> SeedOf(head', tlen'), text |-> TextOf(head', tlen'),
                       entries |-> EntryPoints, master |-> Master(SeedOf(head', tlen'))]))
=============================================================================
