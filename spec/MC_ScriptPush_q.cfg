CONSTANTS Lens = {0, 1, 2, 3, 4, 5, 15, 16, 17, 32, 33, 64, 65, 73, 74, 75, 76, 77, 78, 79, 80, 254, 255, 256, 257, 258, 520, 521, 65534, 65535, 65536, 65537, 70000}
          Firsts = {0, 1, 16, 17, 75, 76, 129, 255}  Fills = {0, 171}  AllOneByte = TRUE  SmallTotal = 90
          RawFull = 2  RawAlpha = {0, 1, 2, 75, 76, 77, 78, 79, 81, 97, 255}  RawMax = 4  Export = TRUE
SPECIFICATION Spec
INVARIANTS TypeOK InvEncoder InvEnc InvTrunc InvFetch InvAlt InvHuge InvParse
CHECK_DEADLOCK FALSE
