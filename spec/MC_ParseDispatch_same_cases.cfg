CONSTANTS Generic = {"*"}  Table = "same"  Mode = "cases"
SPECIFICATION Spec
INVARIANTS GridOk FaithfulOk ApartOk TableApart
CHECK_DEADLOCK FALSE
