-------------------------------- MODULE Bloom --------------------------------
(* BIP37 Bloom filter ("filterload"), client side.                            *)
(*                                                                           *)
(* A filter is  size  bytes (at most 36,000), a number  nfuncs  of hash       *)
(* functions (at most 50) and a 32-bit  tweak.  To insert a data element,     *)
(* for every i in 0 .. nfuncs-1 the bit                                       *)
(*                                                                           *)
(*    murmur3_x86_32(element, seed = i * 0xFBA4C795 + tweak  (mod 2^32))      *)
(*                                               mod (size * 8)               *)
(*                                                                           *)
(* is set; bit number p lives in byte p div 8 at bit p mod 8, LEAST           *)
(* significant bit first (vData[p >> 3] |= 1 << (7 & p)).  A peer tests an    *)
(* element by recomputing the same positions on the bytes it was sent.        *)
(* Elements a wallet inserts: a 20-byte hash160 (also when given as an        *)
(* address: the payload without the version byte) and an outpoint = 32-byte   *)
(* tx hash followed by the output index as 4 bytes little-endian.             *)
EXTENDS Murmur3, FiniteSets

MaxFilterSize == 36000
MaxHashFuncs == 50
BloomK == W(64420, 51093)                 \* 0xFBA4C795

VARIABLES size,     \* filter size in bytes (>= 1)
          nfuncs,   \* number of hash functions
          tweak,    \* the caller's tweak: a natural of any width, little-endian 16-bit limbs
          bits,     \* set of bit positions that are set
          added     \* the elements inserted so far
bvars == <<size, nfuncs, tweak, bits, added>>

\* seed of hash function i (i < 2^31): uint32 arithmetic
SeedWord(i, tw) == Add(Mul32(WordOfNat(i), BloomK), LimbsToWord(tw))
BitPosOf(item, i, tw, sz) == ModWord(Murmur3W(item, SeedWord(i, tw)), 8 * sz)
PositionsOf(item, nf, tw, sz) == { BitPosOf(item, i, tw, sz) : i \in 0..(nf - 1) }
Positions(item) == PositionsOf(item, nfuncs, tweak, size)

\* elements
Outpoint(txhash, idxword) == txhash \o BytesLE(idxword)

(* ---- wire form ---------------------------------------------------------------------*)
BitVal(p) == IF p \in bits THEN 1 ELSE 0
\* value of byte number k (from 0)
ByteAt(k) == LET o == 8 * k
             IN  BitVal(o) + 2 * BitVal(o + 1) + 4 * BitVal(o + 2) + 8 * BitVal(o + 3)
                 + 16 * BitVal(o + 4) + 32 * BitVal(o + 5) + 64 * BitVal(o + 6) + 128 * BitVal(o + 7)
FilterBytes == [k \in 1..size |-> ByteAt(k - 1)]
\* the same information without the zero bytes: pairs <<byte number from 0, value>>
SparseBytes == { << k, ByteAt(k) >> : k \in { p \div 8 : p \in bits } }
\* what the peer computes on the bytes of a filterload message
WireBit(fb, p) == (fb[p \div 8 + 1] & (2^(p % 8))) # 0
WireMatches(fb, nf, tw, item) == \A i \in 0..(nf - 1) : WireBit(fb, BitPosOf(item, i, tw, Len(fb)))

(* ---- actions -------------------------------------------------------------------------*)
BInit(sz, nf, tw) == size = sz /\ nfuncs = nf /\ tweak = tw /\ bits = {} /\ added = {}
AddItem(item) == /\ bits' = bits \cup Positions(item)
                 /\ added' = added \cup {item}
                 /\ UNCHANGED <<size, nfuncs, tweak>>
AddHash160(h160) == Len(h160) = 20 /\ AddItem(h160)
AddAddress(h160) == Len(h160) = 20 /\ AddItem(h160)          \* address = version byte + hash160
AddSpendable(txhash, idxword) == Len(txhash) = 32 /\ AddItem(Outpoint(txhash, idxword))
Matches(item) == Positions(item) \subseteq bits

\* a peer accepts the filterload message
Loadable == size <= MaxFilterSize /\ nfuncs <= MaxHashFuncs

(* ---- lemmas ----------------------------------------------------------------------------*)
BTypeOK == /\ size \in 1..MaxFilterSize /\ nfuncs \in Nat
           /\ bits \subseteq 0..(8 * size - 1)
NoFalseNegative == \A it \in added : Matches(it)
\* exactly the prescribed bits: nothing else is ever set
Exact == bits = UNION { Positions(it) : it \in added }
AtMost == Cardinality(bits) <= nfuncs * Cardinality(added)
\* byte layout: position p <-> bit (p mod 8) of byte (p div 8), LSB first; and the peer's
\* test on the bytes agrees with the abstract one
Layout == LET fb == FilterBytes
          IN  /\ \A p \in 0..(8 * size - 1) : (p \in bits) <=> WireBit(fb, p)
              /\ \A k \in 1..size : fb[k] \in 0..255
SparseOK == LET fb == FilterBytes  sp == SparseBytes
            IN  /\ \A e \in sp : e[2] # 0 /\ fb[e[1] + 1] = e[2]
                /\ \A k \in 1..size : fb[k] # 0 => << k - 1, fb[k] >> \in sp
PeerMatches == LET fb == FilterBytes
               IN  \A it \in added : WireMatches(fb, nfuncs, tweak, it)
Monotone == [][bits \subseteq bits']_bvars
=============================================================================
