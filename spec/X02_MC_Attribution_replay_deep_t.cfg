CONSTANTS NK = 5  NM = 2  MaxPasses = 1  MaxSteps = 2  MaxInserts = 1  EditFrom = "signed"  MutSet = "fields"
          Shapes <- NoShapes  Coins <- AllCoins  HashTypes <- StdHashTypes  Cases <- CasesReplayDeepT
SPECIFICATION RSpec
CHECK_DEADLOCK FALSE
