----------------------------- MODULE MC_Unspents -----------------------------
(* Exhaustive check of Unspents.tla: EVERY transaction with up to NIn inputs  *)
(* over NSrc source ids x output indices 0..MaxIdx, every recorded            *)
(* (amount, script) from Amt x Scr, against EVERY database whose entries are  *)
(* missing, or a transaction with any id and 1..MaxOuts outputs from Amt x Scr.*)
(* (Not just single discrepancies: all combinations.)                        *)
EXTENDS Unspents

CONSTANTS NIn, NSrc, MaxIdx, MaxOuts, Amt, Scr

Srcs == 1..NSrc
OutRec == [amt : Amt, scr : Scr]
Entries == {Missing} \cup {Stored(t, o) : t \in Srcs, o \in UNION {[1..n -> OutRec] : n \in 1..MaxOuts}}
Txs == UNION {{[ins |-> i, unspents |-> u, outs |-> << >>] :
                 i \in [1..n -> [src : Srcs, idx : 0..MaxIdx]], u \in [1..n -> OutRec]} : n \in 1..NIn}

\* the database is chosen in a second step so that the workers share the enumeration
VARIABLE picked
MInit == /\ tx \in Txs /\ db = [s \in Srcs |-> Missing] /\ picked = FALSE
         /\ todo = {} /\ status = "run" /\ why = "ok"
MPick == /\ ~picked /\ picked' = TRUE
         /\ db' \in [Srcs -> Entries]
         /\ todo' = 1..Len(tx.ins)
         /\ UNCHANGED <<tx, status, why>>
MExamine == picked /\ (\E i \in todo : Examine(i)) /\ UNCHANGED picked
MReturn  == picked /\ Return /\ UNCHANGED picked
MNext == MPick \/ MExamine \/ MReturn
MSpec == MInit /\ [][MNext]_<<uvars, picked>>

MRetIffBacked == picked => RetIffBacked
MProgress == picked => Progress
=============================================================================
