CONSTANTS N = 5  EMIT = FALSE  MUT = "none"
  KINDS = {"alter", "remove", "add", "padbit", "root", "flagbyte", "dropflag", "dupattack", "n0"}
SPECIFICATION Spec
INVARIANTS TypeOK HonestAccepted ListedRejected CoreOnly
CHECK_DEADLOCK FALSE
