CONSTANTS Generic = {"*"}  Table = "polis"  Mode = "clash"
SPECIFICATION Spec
INVARIANTS GridOk FaithfulOk ApartOk TableApart
CHECK_DEADLOCK FALSE
