---------------------------- MODULE X07_MsgRules ----------------------------
(* MsgSign (C17) with its curve parameter fixed (the toy curve p43 of the     *)
(* C17 model runs): X07 uses its curve-independent operators - DigestTerm,    *)
(* the header byte, VerifyRc / AddrOf, the classes of signature texts - and   *)
(* MsgEC's constant N would clash with X06_KcUniverse's N(v) otherwise.       *)
MS == INSTANCE MsgSign WITH P <- 43, A <- 0, B <- 7, Gx <- 2, Gy <- 12, N <- 31
=============================================================================
