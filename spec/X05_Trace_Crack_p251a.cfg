CONSTANTS P = 251  A = 1  B = 25  Gx = 0  Gy = 5  N = 241
SPECIFICATION TSpec
CHECK_DEADLOCK FALSE
