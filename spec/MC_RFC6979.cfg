CONSTANTS MaxCand = 12
SPECIFICATION MCSpec
INVARIANT TypeOK
CHECK_DEADLOCK FALSE
