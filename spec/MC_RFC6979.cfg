CONSTANTS MaxCand = 12
SPECIFICATION MCSpec
INVARIANT TypeOK
ACTION_CONSTRAINT Emit
CHECK_DEADLOCK FALSE
