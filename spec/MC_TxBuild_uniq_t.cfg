CONSTANTS Variant = "std"  MaxSum = 9  MaxIns = 1  MaxPays = 4  MaxFee = 3
          ScaleKs = {12}  ScaleRs = {0}
SPECIFICATION Spec
INVARIANTS Unique
CHECK_DEADLOCK FALSE
