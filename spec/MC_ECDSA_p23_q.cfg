CONSTANTS P = 23  A = 1  B = 19  Gx = 2  Gy = 11  N = 19
          ZSet = {1, 2, 3, 4, 5, 6, 7, 8, 9, 10, 11, 12, 13, 14, 15, 16, 17, 18, 19, 20, 38}  ZDeep = {1, 19}
SPECIFICATION Spec
INVARIANT ECDSALemmas
CHECK_DEADLOCK FALSE
