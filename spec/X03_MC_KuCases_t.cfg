CONSTANTS Tier = "t"
SPECIFICATION Spec
INVARIANTS PipelineAgrees GridParses Tables Concrete Counts
CHECK_DEADLOCK FALSE
