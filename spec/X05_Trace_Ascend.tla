--------------------------- MODULE X05_Trace_Ascend ---------------------------
(* Code -> spec binding for X05 (b) on secp256k1: recorded sessions "derive,   *)
(* take a public copy, ascend / crack from a descendant's private key,         *)
(* compare" are sessions of BIP32.tla + the ascent of X05_Crack.tla.           *)
(*                                                                            *)
(* Extends C09's Trace_BIP32 (read-only): its events master / derive / copy /  *)
(* path / text / parse and its byte arithmetic and oracle tables are reused;   *)
(* two events are added:                                                       *)
(*   ascend  o (a node; only its public part is used), kc (claimed child key), *)
(*           ix -> the parent's private key, or raised                         *)
(*   crack   o, kc (a descendant's key), path string -> the node o with its    *)
(*           private key, or raised                                            *)
(* A returned key is right iff it reproduces the node's public key (k -> kG is *)
(* injective) and the node keeps depth, parent fingerprint, child number and   *)
(* chain code.  A refusal is right iff the ascent of the spec, computed here   *)
(* on bytes (kc - IL mod n, IL from the HMAC call pycoin really made), fails:  *)
(* hardened index, IL >= n, or the difference does not reproduce the public    *)
(* key.  When the HMAC call was not observed a refusal cannot be judged here   *)
(* (the replay direction judges it).                                           *)
EXTENDS Trace_BIP32

SubModN(a, b) == IF Geq(a, b) THEN RawSub(a, b)
                 ELSE LET r == RawAdd(a, NB) IN Tail(RawSub(<<r.c>> \o r.s, <<0>> \o b))
PubOf(c) == [c EXCEPT !.k = <<>>]
\* IL of the non-hardened derivation ix from the public node c, <<>> when that HMAC call is not in the table
ILOf(c, ix, F) == LET x == ToTerm(PubOf(c)) IN EvalB(L32(Hmac(x.chain, PubData(x, ix))), F)
\* X05_Crack!Ascend on concrete bytes; <<>> = refused
AscendC(c, kc, ix, F) ==
  IF ix.h THEN <<>>
  ELSE LET il == ILOf(c, ix, F) IN
       IF ~IsBytes(il, 32) \/ Geq(il, NB) \/ ~ValidScalar(kc) THEN <<>>
       ELSE LET kk == SubModN(kc, il) IN
            IF ValidScalar(kk) /\ Look1(F.pub, kk) = c.K THEN kk ELSE <<>>
HmacSeen(c, ix, F) == ix.h \/ IsBytes(ILOf(c, ix, F), 32)

TAscend(e) ==
  /\ e.op = "ascend" /\ e.o \in 1..Len(objs) /\ UNCHANGED <<objs, memo>>
  /\ LET c == objs[e.o]  ix == EIx(e)  want == AscendC(c, e.kc, ix, e.facts) IN
     IF e.raised = 1 THEN HmacSeen(c, ix, e.facts) => want = <<>>
     ELSE /\ ValidScalar(e.k) /\ Look1(e.facts.pub, e.k) = c.K            \* it IS the private key of that node
          /\ ~ix.h
          /\ HmacSeen(c, ix, e.facts) => e.k = want                       \* and it is the child's key minus IL

\* the public nodes from c along ixs (CKDpub each step), <<>> when a step cannot be explained
RECURSIVE PubWalk(_, _, _)
PubWalk(c, ixs, F) ==
  IF ixs = <<>> THEN PubOf(c)
  ELSE IF Head(ixs).h THEN <<>>
  ELSE LET nx == EvalNode(CKDpub(ToTerm(PubOf(c)), Head(ixs)), F) IN
       IF ~IsBytes(nx.K, 33) \/ ~IsBytes(nx.chain, 32) THEN <<>> ELSE PubWalk(nx, Tail(ixs), F)
RECURSIVE CrackC(_, _, _, _)
CrackC(c, kc, ixs, F) ==            \* -> <<"key", k>>, <<"refused">> or <<"unknown">> (an HMAC call was not observed)
  IF ixs = <<>> THEN (IF ValidScalar(kc) /\ Look1(F.pub, kc) = c.K THEN <<"key", kc>> ELSE <<"refused">>)
  ELSE IF \E i \in 1..Len(ixs) : ixs[i].h THEN <<"refused">>
  ELSE LET par == PubWalk(c, Front(ixs), F) IN
       IF par = <<>> THEN <<"unknown">>
       ELSE IF ~HmacSeen(par, Last(ixs), F) THEN <<"unknown">>
       ELSE LET a == AscendC(par, kc, Last(ixs), F) IN
            IF a = <<>> THEN <<"refused">> ELSE CrackC(c, a, Front(ixs), F)
TCrack(e) ==
  /\ e.op = "crack" /\ e.o \in 1..Len(objs) /\ UNCHANGED memo
  /\ IsPathString(e.s) /\ ~HasDotPub(e.s)
  /\ LET c == objs[e.o]  ixs == PathIndices(e.s)  want == CrackC(c, e.kc, ixs, e.facts) IN
     IF e.res = 0 THEN want \in {<<"refused">>, <<"unknown">>} /\ UNCHANGED objs
     ELSE LET nd == Node(e) IN
          /\ ValidScalar(nd.k) /\ Look1(e.facts.pub, nd.k) = c.K
          /\ nd = [c EXCEPT !.k = nd.k]                                   \* depth, fingerprint, child number, chain code, public key kept
          /\ want \in {<<"key", nd.k>>, <<"unknown">>}
          /\ Result(e, nd)

ANext == /\ l <= Len(Ev)
         /\ LET e == Ev[l] IN TMaster(e) \/ TDerive(e) \/ TCopy(e) \/ TPath(e) \/ TText(e) \/ TParse(e) \/ TAscend(e) \/ TCrack(e)
         /\ l' = l + 1 /\ UNCHANGED tid
ASpec == TInit /\ [][ANext]_tvars

ASSUME LET one == [i \in 1..32 |-> IF i = 32 THEN 1 ELSE 0]
           two == [i \in 1..32 |-> IF i = 32 THEN 2 ELSE 0]
           nm1 == [NB EXCEPT ![32] = 64] IN
       /\ SubModN(two, one) = one /\ SubModN(one, two) = nm1 /\ SubModN(one, nm1) = two /\ SubModN(nm1, nm1) = Zero32
=============================================================================
