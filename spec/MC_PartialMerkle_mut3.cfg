CONSTANTS N = 4  EMIT = FALSE  MUT = "reversed_matches"
  KINDS = {"alter", "remove", "add", "padbit", "root"}
SPECIFICATION Spec
INVARIANTS TypeOK HonestAccepted ListedRejected CoreOnly
CHECK_DEADLOCK FALSE
