----------------------------- MODULE MC_Base58 -----------------------------
(* Lemmas about Base58.tla that TLC checks on a grid of inputs (one state per *)
(* input).  They are what makes Enc58/Dec58 "the exact inverse of each other  *)
(* for every byte string, leading zero bytes included":                       *)
(*   RoundTripBytes  Dec58(Enc58(b)) = b, Enc58(b) stays inside the alphabet  *)
(*   ZeroCount       Enc58(b) starts with exactly LeadingZeros(b) times '1'   *)
(*   RoundTripText   Dec58 is defined exactly on alphabet strings and         *)
(*                   Enc58(Dec58(s)) = s: together a bijection                *)
(*   Arithmetic      for short inputs both sides denote the same number       *)
(*   CheckRoundTrip  Base58Check with ANY 4 checksum bytes h4 (the hash is    *)
(*                   uninterpreted): decoding Enc58Check(p,h4) under h4 gives *)
(*                   p, under any other h4' it is a checksum failure          *)
EXTENDS Base58, TLC
CONSTANTS MaxLen,      \* byte strings over ByteSyms up to this length
          MaxText,     \* character strings over CharSyms up to this length
          LongZ, LongN, \* long inputs: 0..LongZ zero bytes then 0..LongN pattern bytes
          Mut          \* "none"; "zeros" = a model with the classic slip (an all-zero input loses
                       \* one '1'), which the lemmas must refute (self-test of the lemmas)
ByteSyms == {0, 1, 57, 58, 255}
CharSyms == {49, 50, 122, 90, 48, 108, 32}       \* 1 2 z Z | 0 l space (outside)
H4s == {<<0, 0, 0, 0>>, <<0, 0, 0, 1>>, <<0, 57, 58, 255>>, <<255, 255, 255, 255>>, <<1, 0, 0, 0>>}
VARIABLES kind, x, h

\* deterministic byte patterns for the long inputs
Pattern(n, p) == [i \in 1..n |-> CASE p = 1 -> 255
                                    [] p = 2 -> (i * 37 + 11) % 256
                                    [] p = 3 -> IF i = n THEN 1 ELSE 0
                                    [] OTHER -> (i * i * 7 + 3 * i + 250) % 256]

\* the grid is grown one symbol at a time so that TLC's workers share the evaluation
Init == \/ kind \in {"bytes", "text"} /\ x = <<>> /\ h = <<>>
        \/ kind = "long" /\ h = <<>> /\ \E z \in 0..LongZ, p \in 1..4 : x = <<z, p, 0>>
        \/ kind = "check" /\ x \in BoundedSeq({0, 1, 255}, 3) /\ h \in H4s
Grow == \/ kind = "bytes" /\ Len(x) < MaxLen /\ \E c \in ByteSyms : x' = Append(x, c)
        \/ kind = "text" /\ Len(x) < MaxText /\ \E c \in CharSyms : x' = Append(x, c)
Next == \/ Grow /\ UNCHANGED <<kind, h>>
        \/ kind = "long" /\ x[3] < LongN /\ x' = <<x[1], x[2], x[3] + 1>> /\ UNCHANGED <<kind, h>>
\* the input a state stands for
In == IF kind = "long" THEN Zeros(x[1]) \o Pattern(x[3], x[2]) ELSE x
Spec == Init /\ [][Next]_<<kind, x, h>>

E58(b) == IF Mut = "zeros" /\ b # <<>> /\ (\A i \in DOMAIN b : b[i] = 0) THEN Tail(Enc58(b)) ELSE Enc58(b)
IsBytes == kind \in {"bytes", "long"}
RoundTripBytes == IsBytes => LET s == E58(In) IN Valid58(s) /\ Dec58(s) = [ok |-> TRUE, b |-> In]
ZeroCount == IsBytes => LET s == E58(In) z == LeadingZeros(In) IN
                /\ Len(s) >= z /\ \A i \in 1..z : s[i] = 49
                /\ (Len(s) > z => s[z + 1] # 49)
                /\ (Len(s) = z <=> \A i \in DOMAIN In : In[i] = 0)
LengthBound == IsBytes => LET z == LeadingZeros(In) IN Len(E58(In)) <= z + ((Len(In) - z) * 138) \div 100 + 1
Arithmetic == /\ (IsBytes /\ Len(StripZeros(In)) <= 3) => Value(In, 256) = Value(Enc58Digits(In), 58)
              /\ (kind = "text" /\ Valid58(In) /\ Len(In) <= 5) =>
                   Value([i \in DOMAIN In |-> DigitOf(In[i])], 58) = Value(Dec58(In).b, 256)
RoundTripText == kind = "text" => LET d == Dec58(In) IN
                    /\ d.ok <=> In \in Seq(AlphabetSet)
                    /\ d.ok => E58(d.b) = In /\ LeadingZeros(d.b) = LeadingZeros([i \in DOMAIN In |-> DigitOf(In[i])])
CheckRoundTrip == kind = "check" => LET s == Enc58Check(In, h) IN
                    /\ Dec58Check(s, h) = [ok |-> TRUE, why |-> "", p |-> In]
                    /\ \A h2 \in H4s \ {h} : Dec58Check(s, h2) = [ok |-> FALSE, why |-> "checksum", p |-> <<>>]
                    /\ Split58Check(SubSeq(s, 1, Len(s) - 1)).ok => Split58Check(SubSeq(s, 1, Len(s) - 1)).payload \o Split58Check(SubSeq(s, 1, Len(s) - 1)).cks # In \o h
ASSUME ShortIsRejected == \A n \in 0..3 : ~Split58Check([i \in 1..n |-> 49]).ok /\ Split58Check([i \in 1..n |-> 49]).why = "short"
=============================================================================
