------------------------------ MODULE CondStack ------------------------------
(* C03 - conditional execution.  Core keeps a vector vfExec of booleans; the  *)
(* interpreter executes an opcode iff no entry is FALSE.  pycoin keeps two    *)
(* counters (true_count, false_count).  Both are driven here by the same      *)
(* IF/NOTIF/ELSE/ENDIF sequence; TLC checks that the counters refine the      *)
(* vector (same "executing" predicate, same nesting depth, errors at the same *)
(* instruction), for every sequence up to MaxLen - and prints each sequence   *)
(* with what consensus demands, to be replayed on pycoin's ConditionalStack.  *)
EXTENDS Integers, Sequences, TLC, Json

CONSTANT MaxLen

VARIABLES vf,        \* Core: vfExec
          tc, fc,    \* pycoin's model: true_count, false_count
          err,       \* Core reported UNBALANCED_CONDITIONAL
          perr,      \* the counter model reported an error
          acts       \* history (exported)
cvars == <<vf, tc, fc, err, perr, acts>>

FExec == \A i \in 1..Len(vf) : vf[i]
CInit == vf = <<>> /\ tc = 0 /\ fc = 0 /\ err = FALSE /\ perr = FALSE /\ acts = <<>>

\* value: the truth of the popped stack element (ignored when not executing)
If(value, negate) ==
  /\ vf' = Append(vf, IF FExec THEN (IF negate THEN ~value ELSE value) ELSE FALSE)
  /\ IF fc > 0 THEN fc' = fc + 1 /\ tc' = tc
     ELSE IF (IF negate THEN ~value ELSE value) THEN tc' = tc + 1 /\ fc' = fc
     ELSE fc' = 1 /\ tc' = tc
  /\ UNCHANGED <<err, perr>>
  /\ acts' = Append(acts, <<IF negate THEN "NOTIF" ELSE "IF", IF value THEN 1 ELSE 0>>)
Else ==
  /\ IF vf = <<>> THEN err' = TRUE /\ vf' = vf
     ELSE err' = err /\ vf' = [vf EXCEPT ![Len(vf)] = ~@]
  /\ IF fc > 1 THEN UNCHANGED <<tc, fc, perr>>
     ELSE IF fc = 1 THEN fc' = 0 /\ tc' = tc + 1 /\ perr' = perr
     ELSE IF tc = 0 THEN perr' = TRUE /\ UNCHANGED <<tc, fc>>
     ELSE tc' = tc - 1 /\ fc' = fc + 1 /\ perr' = perr
  /\ acts' = Append(acts, <<"ELSE", 0>>)
EndIf ==
  /\ IF vf = <<>> THEN err' = TRUE /\ vf' = vf
     ELSE err' = err /\ vf' = SubSeq(vf, 1, Len(vf) - 1)
  /\ IF fc > 0 THEN fc' = fc - 1 /\ UNCHANGED <<tc, perr>>
     ELSE IF tc = 0 THEN perr' = TRUE /\ UNCHANGED <<tc, fc>>
     ELSE tc' = tc - 1 /\ UNCHANGED <<fc, perr>>
  /\ acts' = Append(acts, <<"ENDIF", 0>>)

Emit == PrintT(ToJson([k |-> "cond", acts |-> acts', err |-> err', exec |-> (\A i \in 1..Len(vf') : vf'[i]),
                       open |-> Len(vf')]))
CNext == /\ ~err /\ Len(acts) < MaxLen
         /\ \/ \E v \in BOOLEAN, n \in BOOLEAN : If(v, n)
            \/ Else \/ EndIf
         /\ Emit
CSpec == CInit /\ [][CNext]_cvars

\* refinement: the counters say exactly what the vector says
SameExec == (~err /\ ~perr) => ((fc = 0) <=> FExec)
SameDepth == (~err /\ ~perr) => (tc + fc = Len(vf))
SameError == err <=> perr
\* the counters' meaning: the first FALSE entry splits the vector
CountersMeaning == (~err /\ ~perr) =>
   LET firstF == IF FExec THEN Len(vf) + 1 ELSE CHOOSE i \in 1..Len(vf) : ~vf[i] /\ \A j \in 1..(i - 1) : vf[j]
   IN tc = firstF - 1
=============================================================================
