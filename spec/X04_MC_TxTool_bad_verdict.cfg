SPECIFICATION Spec
CONSTANTS
  Verdict <- BadVerdict
  Tier = "dev"
  Phase = "cases"
  Mutant = "none"
INVARIANTS
  Order
  Conservation
  ReportTrue
  OnlyNamedPaid
  EditsLocal
  Aligned
  RoundTrip
  SignHintOK
  StagesAgree
CHECK_DEADLOCK FALSE
