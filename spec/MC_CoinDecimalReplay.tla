------------------------- MODULE MC_CoinDecimalReplay -------------------------
(* Spec -> code binding for the conversion clause of C13.  For every satoshi *)
(* count of the grid and both units (BTC: 8 places, mBTC: 5) TLC prints the  *)
(* amount text the rule book prescribes (CoinDecimal!SatToCoin) and, for each*)
(* spelling of that amount, the satoshi count it must parse to (CoinToSat).  *)
(* All values are digit sequences, so the grid reaches 21e14.                *)
(*                                                                           *)
(* Grid: every count 0..MaxSmall; every m * 10^k, m in 1..99, k in 0..MaxExp *)
(* within 16 digits; 10^k - 1 and 10^k + 1 for k in 1..15; the neighbours of *)
(* 10^8 and 10^5; 21e14 and its neighbours.                                  *)
EXTENDS CoinDecimal, Json, TLC

CONSTANTS MaxSmall, MaxExp

Nines(n) == [i \in 1..n |-> 9]
Grid ==
  {Digits(n) : n \in 0..MaxSmall}
  \cup {Digits(m) \o Zeros(k) : m \in 1..99, k \in 0..MaxExp}
  \cup {Nines(k) : k \in 1..15}
  \cup {<< 1 >> \o Zeros(k - 1) \o << 1 >> : k \in 1..15}
  \cup {Nines(k) \o << 8 >> : k \in 1..15}
  \cup {<< 2, 1 >> \o Zeros(14), << 2, 0 >> \o Nines(14), << 2, 0 >> \o Nines(13) \o << 8 >>,
        << 2, 1 >> \o Zeros(6) \o Nines(8), << 2, 0 >> \o Nines(6) \o << 1 >> \o Zeros(7),
        << 1, 2, 3, 4, 5, 6, 7, 8, 9, 0, 1, 2, 3, 4, 5, 6 >>, << 1, 0, 0, 0, 0, 0, 0, 0, 5 >> }
SatGrid == {g \in Grid : Len(g) <= 16}

VARIABLES sat, D, done
Init == sat \in SatGrid /\ D \in {8, 5} /\ done = FALSE
Emit == LET c == SatToCoin(sat, D) IN
  PrintT(ToJson([k |-> "conv", D |-> D, sat |-> Chars(sat),
                 coin |-> Spell(c, "full"),
                 texts |-> {<< Spell(c, st), Chars(CoinToSat(c, D)) >> : st \in Styles}]))
Next == ~done /\ done' = TRUE /\ UNCHANGED <<sat, D>> /\ Emit
Spec == Init /\ [][Next]_<<sat, D, done>>

\* the grid only holds canonical counts; what is printed parses back to the count
GridOK == IsCanon(sat) /\ CoinToSat(SatToCoin(sat, D), D) = sat /\ Len(SatToCoin(sat, D).frac) = D
=============================================================================
