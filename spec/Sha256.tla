------------------------------- MODULE Sha256 -------------------------------
(* SHA-256 (FIPS 180-4, sections 4.1.2, 4.2.2, 5.1.1, 5.3.3, 6.2), pure part. *)
(* Present so that hash160(x) = RIPEMD-160(SHA-256(x)) and                    *)
(* double_sha256(x) = SHA-256(SHA-256(x)) are computed entirely by TLC in     *)
(* HashMachine.tla; the harness additionally compares TLC's SHA-256 digests   *)
(* with hashlib and the FIPS example vectors (three-way).                     *)
(* Constants: K_t = first 32 bits of the fractional part of the cube root of  *)
(* the t-th prime, H(0) likewise from square roots of the first 8 primes.     *)
EXTENDS Word32

ShaCh(x, y, z)  == WXor(WAnd(x, y), WAnd(WNot(x), z))
ShaMaj(x, y, z) == WXor3(WAnd(x, y), WAnd(x, z), WAnd(y, z))
ShaBigSigma0(x) == WXor3(Ror(x, 2), Ror(x, 13), Ror(x, 22))
ShaBigSigma1(x) == WXor3(Ror(x, 6), Ror(x, 11), Ror(x, 25))
ShaSmallSigma0(x) == WXor3(Ror(x, 7), Ror(x, 18), Shr(x, 3))
ShaSmallSigma1(x) == WXor3(Ror(x, 17), Ror(x, 19), Shr(x, 10))

ShaK == <<
  W(17034, 12184), W(28983, 17553), W(46528, 64463), W(59829, 56229),   \* 428a2f98 71374491 b5c0fbcf e9b5dba5
  W(14678, 49755), W(23025, 4593), W(37439, 33444), W(43804, 24277),   \* 3956c25b 59f111f1 923f82a4 ab1c5ed5
  W(55303, 43672), W(4739, 23297), W(9265, 34238), W(21772, 32195),   \* d807aa98 12835b01 243185be 550c7dc3
  W(29374, 23924), W(32990, 45566), W(39900, 1703), W(49563, 61812),   \* 72be5d74 80deb1fe 9bdc06a7 c19bf174
  W(58523, 27073), W(61374, 18310), W(4033, 40390), W(9228, 41420),   \* e49b69c1 efbe4786 0fc19dc6 240ca1cc
  W(11753, 11375), W(19060, 33962), W(23728, 43484), W(30457, 35034),   \* 2de92c6f 4a7484aa 5cb0a9dc 76f988da
  W(38974, 20818), W(43057, 50797), W(45059, 10184), W(48985, 32711),   \* 983e5152 a831c66d b00327c8 bf597fc7
  W(50912, 3059), W(54695, 37191), W(1738, 25425), W(5161, 10599),   \* c6e00bf3 d5a79147 06ca6351 14292967
  W(10167, 2693), W(11803, 8504), W(19756, 28156), W(21304, 3347),   \* 27b70a85 2e1b2138 4d2c6dfc 53380d13
  W(25866, 29524), W(30314, 2747), W(33218, 51502), W(37490, 11397),   \* 650a7354 766a0abb 81c2c92e 92722c85
  W(41663, 59553), W(43034, 26187), W(49739, 35696), W(51052, 20899),   \* a2bfe8a1 a81a664b c24b8b70 c76c51a3
  W(53650, 59417), W(54937, 1572), W(62478, 13701), W(4202, 41072),   \* d192e819 d6990624 f40e3585 106aa070
  W(6564, 49430), W(7735, 27656), W(10056, 30540), W(13488, 48309),   \* 19a4c116 1e376c08 2748774c 34b0bcb5
  W(14620, 3251), W(20184, 43594), W(23452, 51791), W(26670, 28659),   \* 391c0cb3 4ed8aa4a 5b9cca4f 682e6ff3
  W(29839, 33518), W(30885, 25455), W(33992, 30740), W(36039, 520),   \* 748f82ee 78a5636f 84c87814 8cc70208
  W(37054, 65530), W(42064, 27883), W(48889, 41975), W(50801, 30962) >>   \* 90befffa a4506ceb bef9a3f7 c67178f2
ShaIV == << W(27145, 58983), W(47975, 44677), W(15470, 62322), W(42319, 62778), W(20750, 21119), W(39685, 26764), W(8067, 55723), W(23520, 52505) >>

(* The message schedule is kept as a sliding window of the last 16 words:     *)
(* before step t >= 16 the window holds W[t-16] .. W[t-1].                    *)
ShaNextW(win) == Add4(ShaSmallSigma1(win[15]), win[10], ShaSmallSigma0(win[2]), win[1])
\* word used by step t (0..63) and the window after it
ShaWt(win, t) == IF t < 16 THEN win[t + 1] ELSE ShaNextW(win)
ShaWin(win, t) == IF t < 16 THEN win ELSE Tail(win) \o << ShaNextW(win) >>

\* one step on the working variables v = <<a,b,c,d,e,f,g,h>>
ShaStep(v, w, t) ==
  LET t1 == Add5(v[8], ShaBigSigma1(v[5]), ShaCh(v[5], v[6], v[7]), ShaK[t + 1], w)
      t2 == Add(ShaBigSigma0(v[1]), ShaMaj(v[1], v[2], v[3]))
  IN  << Add(t1, t2), v[1], v[2], v[3], Add(v[4], t1), v[5], v[6], v[7] >>

ShaCombine(h, v) == [i \in 1..8 |-> Add(h[i], v[i])]

\* message words and digest are big-endian
ShaBlockWords(block) == [i \in 1..16 |-> WordAtBE(block, i)]
ShaDigest(h) == BytesBE(h[1]) \o BytesBE(h[2]) \o BytesBE(h[3]) \o BytesBE(h[4]) \o
                BytesBE(h[5]) \o BytesBE(h[6]) \o BytesBE(h[7]) \o BytesBE(h[8])
=============================================================================
