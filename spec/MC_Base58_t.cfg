CONSTANTS MaxLen = 6  MaxText = 5  LongZ = 12  LongN = 80  Mut = "none"
SPECIFICATION Spec
INVARIANTS RoundTripBytes ZeroCount LengthBound Arithmetic RoundTripText CheckRoundTrip
CHECK_DEADLOCK FALSE
