CONSTANTS U = "q"  MaxOps = 2  MaxGet = 1  Ops <- OpsAll
          Roots <- URoots  Info <- UInfo  Ranges <- URanges  Singles <- USingles  Scripts <- UScripts  QKeys <- UQKeys
          RootSets <- MCRootSetsQ  SecSets <- MCSecSetsQ  AskSet <- MCAskQ  NoDerivCheck <- No  Logging <- Yes
          PathRoots <- URoots  PathForms <- Forms  RangeIdx <- RIq  BackedSet <- Both
INIT MKInit
NEXT MKNextE
VIEW KView
CHECK_DEADLOCK FALSE
