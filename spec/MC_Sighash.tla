------------------------------ MODULE MC_Sighash ------------------------------
(* Lemmas about Sighash.tla checked by TLC on a small universe: every coin,   *)
(* signature version, 1..MaxIn inputs, 0..MaxOut outputs, every input index,  *)
(* all 256 hash types.  One TLC state = one request; the action Compute        *)
(* produces the digest and leaves the transaction alone (frame).              *)
EXTENDS Sighash, TLC

CONSTANTS MaxIn, MaxOut, HtSet
\* hash types explored: all 256, or (quick tier) every value of the low five bits plus the
\* 0x40 / 0x80 / 0xc0 variants of 0..4 and 31 (the replay always runs all 256 on pycoin)
HtAll == 0..255
HtQuick == (0..31) \cup {h + k : h \in {0, 1, 2, 3, 4, 31}, k \in {64, 128, 192}}

FF4 == Rep(255, 4)
InTab == << TxIn(Sym(1), LE32(0), <<1, 2>>, FF4),
            TxIn(Sym(2), LE32(7), <<>>, LE32(5)),
            TxIn(Sym(3), LE32(1), <<81>>, <<254, 255, 255, 255>>) >>
OutTab == << TxOut(<<1, 0, 0, 0, 0, 0, 0, 0>>, <<118, 169>>),
             TxOut(<<0, 0, 0, 0, 1, 0, 0, 0>>, <<>>),
             TxOut(<<255, 255, 255, 255, 255, 255, 255, 127>>, <<106, 1, 9>>) >>
TxOf(n, m) == Tx(LE32(2), SubSeq(InTab, 1, n), SubSeq(OutTab, 1, m), LE32(17))
\* a script code with a separator in the middle and one at the end
Script0 == <<118, 169, 2, 7, 171, 136, 171, 172, 171>>
Amount0 == <<64, 66, 15, 0, 0, 0, 0, 0>>

Bump(bs) == [bs EXCEPT ![1] = (@ + 1) % 256]
\* the request with one field changed; c = [tx, script, amount]
Change(c, fld) ==
    LET tx == c.tx
        f == fld.f
        j == fld.j
    IN CASE f = "ver" -> [c EXCEPT !.tx.ver = Bump(@)]
         [] f = "lock" -> [c EXCEPT !.tx.lock = Bump(@)]
         [] f = "amount" -> [c EXCEPT !.amount = Bump(@)]
         [] f = "sc.op" -> [c EXCEPT !.script = @ \o <<97>>]                  \* append OP_NOP
         [] f = "sc.sep" -> [c EXCEPT !.script = <<OP_CODESEPARATOR>> \o @]   \* (not executed) separator
         [] f = "in.prev" -> [c EXCEPT !.tx.ins[j].prev = Sym(90 + j)]
         [] f = "in.idx" -> [c EXCEPT !.tx.ins[j].idx = Bump(@)]
         [] f = "in.sigscript" -> [c EXCEPT !.tx.ins[j].script = @ \o <<0>>]
         [] f = "in.seq" -> [c EXCEPT !.tx.ins[j].seq = Bump(@)]
         [] f = "out.val" -> [c EXCEPT !.tx.outs[j].val = Bump(@)]
         [] f = "out.script" -> [c EXCEPT !.tx.outs[j].script = @ \o <<172>>]
         [] f = "ins.append" -> [c EXCEPT !.tx.ins = Append(@, TxIn(Sym(99), LE32(3), <<>>, LE32(9)))]
         [] f = "outs.append" -> [c EXCEPT !.tx.outs = Append(@, TxOut(<<5, 0, 0, 0, 0, 0, 0, 0>>, <<81>>))]
         [] f = "outs.droplast" -> [c EXCEPT !.tx.outs = Front(@)]

VARIABLES coin, sv, tx, i, ht, digest, phase
vars == <<coin, sv, tx, i, ht, digest, phase>>

D(c, cn, s, k, h) == Digest(cn, s, c.tx, k, c.script, 0, <<>>, c.amount, h)
Ctx == [tx |-> tx, script |-> Script0, amount |-> Amount0]

\* (the hash type is chosen in a step, not in Init, so that TLC's workers share the load)
Init == /\ coin \in Coins
        /\ sv \in SigVersionsOf(coin)
        /\ \E n \in 1..MaxIn, m \in 0..MaxOut : tx = TxOf(n, m)
        /\ i \in 1..Len(tx.ins)
        /\ ht = 0 /\ digest = <<>> /\ phase = "new"
Request(h) == /\ phase = "new"
              /\ ht' = h /\ phase' = "asked"
              /\ UNCHANGED <<coin, sv, tx, i, digest>>
\* computing a signature hash: the result appears, the transaction is not touched
Compute == /\ phase = "asked"
           /\ digest' = D(Ctx, coin, sv, i, ht)
           /\ phase' = "done"
           /\ UNCHANGED <<coin, sv, tx, i, ht>>
Next == Compute \/ \E h \in HtSet : Request(h)
Spec == Init /\ [][Next]_vars
Asked == phase = "asked"

----------------------------------------------------------------------------
(* L1: a field change alters the digest iff the field is committed *)
CommitmentLemma ==
  Asked =>
    \A fld \in Fields(tx) :
        (D(Change(Ctx, fld), coin, sv, i, ht) # D(Ctx, coin, sv, i, ht))
            <=> (fld \in Committed(coin, sv, tx, i, ht))

(* L2: Core's serializer form and Satoshi's copy-and-modify form of the legacy *)
(* preimage are the same byte string                                          *)
TwoFormsLemma ==
  (Asked /\ ~SingleBug(tx, i, ht)) =>
        LegacyPreimage(tx, i, Script0, HtField(coin, ht), ht) = LegacyByCopy(tx, i, Script0, HtField(coin, ht), ht)

(* L3: the hash type acts only through (low five bits in {2, 3, other}, bit    *)
(* 0x80) and through its own four bytes, the last four of the preimage: apart  *)
(* from that field the preimage is that of the canonical member of its class,  *)
(* and the field itself is injective in the hash type.                         *)
\* (stated on the bits directly, not through BaseType / IsNone / IsSingle, so that a slip
\* in those - a mask of 0x03, say - is a disagreement TLC reports)
Bit(h, k) == (h \div k) % 2
Low5(h) == Bit(h, 1) + 2 * Bit(h, 2) + 4 * Bit(h, 4) + 8 * Bit(h, 8) + 16 * Bit(h, 16)
Canon(h) == (IF Low5(h) = 2 THEN 2 ELSE IF Low5(h) = 3 THEN 3 ELSE 1) + 128 * Bit(h, 128) + 64 * Bit(h, 64)
Pre(h, htf) == IF Algo(coin, sv) = "legacy"
               THEN IF SingleBug(tx, i, h) THEN One ELSE LegacyPreimage(tx, i, Script0, htf, h)
               ELSE Bip143Preimage(HashFn(coin), tx, i, Script0, Amount0, htf, h)
MaskLemma ==
  Asked =>
    /\ Pre(ht, <<0, 0, 0, 0>>) = Pre(Canon(ht), <<0, 0, 0, 0>>)
    /\ LET p == Pre(ht, HtField(coin, ht))
           z == Pre(ht, <<0, 0, 0, 0>>)
           lastp == Last(p).v
           lastz == Last(z).v
       IN p # One =>
            /\ Front(p) = Front(z) /\ Len(lastp) = Len(lastz)
            /\ SubSeq(lastp, 1, Len(lastp) - 4) = SubSeq(lastz, 1, Len(lastz) - 4)
            /\ SubSeq(lastp, Len(lastp) - 3, Len(lastp)) = HtField(coin, ht)
    /\ \A h2 \in 0..255 : h2 # ht => HtField(coin, h2) # HtField(coin, ht)

(* L4: fork-id coins sign the BIP143 digest of Bitcoin with only the hash-type *)
(* field replaced; Groestlcoin signs Bitcoin's preimage with SHA256 for        *)
(* SHA256d at every level.                                                     *)
RECURSIVE Rehash(_)
Rehash(blob) == IF blob = <<>> THEN <<>>
                ELSE LET c == Head(blob)
                     IN (IF c.k = "sha256d" THEN Hash("sha256", Rehash(c.x)) ELSE <<c>>) \o Rehash(Tail(blob))
CoinLemma ==
  Asked =>
    /\ (UsesForkId(coin) /\ HasForkIdBit(ht)) =>
          D(Ctx, coin, sv, i, ht)
            = Bip143Digest("sha256d", tx, i, Script0, Amount0, <<ht, ForkValue(coin), 0, 0>>, ht)
    /\ coin = "GRS" => D(Ctx, coin, sv, i, ht) = Rehash(D(Ctx, "BTC", sv, i, ht))
    /\ coin = "LTC" => D(Ctx, coin, sv, i, ht) = D(Ctx, "BTC", sv, i, ht)
    /\ (UsesForkId(coin) /\ ~HasForkIdBit(ht) /\ sv = "base") => D(Ctx, coin, sv, i, ht) = Refuse

(* L5: the SIGHASH_SINGLE bug value, exactly when the input has no output *)
SingleBugLemma ==
  Asked =>
    (D(Ctx, coin, sv, i, ht) = One) <=> (Algo(coin, sv) = "legacy" /\ BaseType(ht) = 3 /\ i > Len(tx.outs))

(* L6 (frame): whatever was computed, the request is the one that was asked *)
Frame == [][UNCHANGED <<coin, sv, tx, i>> /\ (phase # "new" => UNCHANGED ht)]_vars
(* L7: a digest is one chunk denoting 32 bytes, a legacy preimage has the     *)
(* length of the serialised modified transaction plus four                    *)
ShapeLemma == digest # <<>> => /\ Len(digest) = 1
                               /\ digest[1].k \in {"sha256", "sha256d", "b", "refuse", "any"}
                               /\ digest[1].k = "b" => digest = One
                               /\ digest[1].k = HashFn(coin) /\ Algo(coin, sv) = "bip143"
                                    => BlobLen(digest[1].x) = 4 + 32 + 32 + 36 + Len(VarBytes(Script0)) + 8 + 4 + 32 + 4 + 4

----------------------------------------------------------------------------
(* Deliberately wrong rules, substituted by MC_Sighash_bad*.cfg to show that  *)
(* the lemmas reject a mis-transcription (model self-tests of props/c04.py).  *)
\* forgets that SIGHASH_SINGLE / NONE release the other inputs' sequences
BadHashSequence(h, t, x) ==
    IF ~AnyoneCanPay(x) THEN Hash(h, Cat([j \in 1..Len(t.ins) |-> Lit(t.ins[j].seq)])) ELSE ZeroHash
\* tests the base type with mask 0x03 instead of 0x1f
BadBaseType(x) == x % 4
=============================================================================
