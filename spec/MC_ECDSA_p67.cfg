CONSTANTS P = 67  A = 0  B = 2  Gx = 2  Gy = 12  N = 73
          ZSet = {1, 73}  ZDeep = {73}
SPECIFICATION Spec
INVARIANT ECDSALemmas
CHECK_DEADLOCK FALSE
