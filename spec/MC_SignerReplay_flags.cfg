CONSTANTS NK = 5  NM = 2  MaxPasses = 1  Mode = "lim"  PruneNoop = TRUE  WithPairs = TRUE
          Cases <- FlagCases  Shapes <- NoShapes  Coins <- AllCoins  HashTypes <- StdHashTypes
SPECIFICATION RSpec
CHECK_DEADLOCK FALSE
