------------------------------ MODULE MsgSign ------------------------------
(* Bitcoin signed messages (C17): sign, recover, verify.                     *)
(*                                                                           *)
(* ECDSA with public-key recovery over the curve named by the constants of   *)
(* EC.tla (P, A, B, Gx, Gy, N: a group of prime order N, cofactor 1),        *)
(* transcribed from SEC 1 v2: 4.1.3 (signing), 4.1.4 (verifying), 4.1.6      *)
(* (public key recovery), and from Bitcoin Core's compact signatures         *)
(* (key.cpp SignCompact, pubkey.cpp RecoverCompact, util/message.cpp         *)
(* MessageVerify).  The curve is a parameter (limitation L1): TLC works on   *)
(* toy curves that pycoin's generic Generator accepts; with N < P recovery   *)
(* ids 2 and 3 (x = r + N) occur.  The digest e is an integer here; which    *)
(* bytes are hashed is MsgText!DigestTerm.                                   *)
EXTENDS EC, MsgText

Scalars == 1..(N - 1)
PubKey(d) == GMul(d)
NoKey == Inf                       \* "no public key": the point at infinity is never a key

(* ------------------------------------------------------------------ signing *)
\* one attempt with nonce k (SEC 1 4.1.3 steps 1-6); ok = FALSE: "return to step 1" with another k
SignTry(d, e, k) ==
  LET R == GMul(k)
      r == R[1] % N
      s == (InvN[k] * (((e % N) + ((d * r) % N)) % N)) % N
  IN [ok |-> r # 0 /\ s # 0, r |-> r, s |-> s,
      \* recovery id (SEC 1 4.1.6 / key.cpp): bit 0 = parity of R.y, bit 1 = R.x was reduced modulo N
      recid |-> (R[2] % 2) + (IF R[1] >= N THEN 2 ELSE 0), k |-> k]
\* Named deviation tolerated by the property: the standard says "choose another k";
\* pycoin's sign_with_recid retries with k + 1 (action RetryIncrementNonce in the replay module).
RECURSIVE Sign(_, _, _)
Sign(d, e, k) == IF k \notin Scalars THEN [ok |-> FALSE, r |-> 0, s |-> 0, recid |-> 0, k |-> k]
                 ELSE LET t == SignTry(d, e, k) IN IF t.ok THEN t ELSE Sign(d, e, k + 1)

(* ---------------------------------------------------------------- verifying *)
\* SEC 1 4.1.4
EcdsaVerify(Q, e, r, s) ==
  /\ Q # Inf /\ r \in Scalars /\ s \in Scalars
  /\ LET w == InvN[s]
         R == Add(GMul(((e % N) * w) % N), MulT((r * w) % N, Q))
     IN R # Inf /\ R[1] % N = r

(* --------------------------------------------------------------- recovering *)
\* SEC 1 4.1.6 with j = recid \div 2 and the y parity taken from recid % 2:
\*   x = r + jN must be a field element (< P) and the abscissa of a point R;
\*   Q = r^-1 (sR - eG); r and s must be in 1..N-1 (4.1.4 step 1); Q must be a valid key (not infinity).
RecoverClass(e, r, s, recid) ==
  IF r < 1 THEN "r_zero" ELSE IF r >= N THEN "r_ge_n"
  ELSE IF s < 1 THEN "s_zero" ELSE IF s >= N THEN "s_ge_n"
  ELSE LET x == r + (recid \div 2) * N IN
       IF x >= P THEN "x_ge_p"
       ELSE IF PointsForX(x) = <<>> THEN "no_point"
       ELSE LET R == PointsForX(x)[(recid % 2) + 1] IN
            IF MulT(InvN[r], Sub(MulT(s, R), GMul(e))) = Inf THEN "q_inf" ELSE "ok"
Recover(e, r, s, recid) ==
  IF RecoverClass(e, r, s, recid) # "ok" THEN NoKey
  ELSE LET R == PointsForX(r + (recid \div 2) * N)[(recid % 2) + 1]
       IN MulT(InvN[r], Sub(MulT(s, R), GMul(e)))

(* -------------------------------------------------- compact signature bytes *)
\* who: [kind |-> "key", Q |-> point] or [kind |-> "addr", Q |-> point, comp |-> BOOLEAN]
\* (the P2PKH address of Q in compressed or uncompressed SEC form; HASH160 o SEC is assumed injective)
KeyOf(Q) == [kind |-> "key", Q |-> Q, comp |-> FALSE]
AddrOf(Q, comp) == [kind |-> "addr", Q |-> Q, comp |-> comp]
\* [ok, Q, comp, cls]: the key and form a 65-byte compact signature commits to for digest e
RecoverCompact(bytes, e) ==
  LET h == bytes[1]
      r == BEVal(SubSeq(bytes, 2, 33))
      s == BEVal(SubSeq(bytes, 34, 65))
  IN IF ~HeaderOk(h) THEN [ok |-> FALSE, Q |-> NoKey, comp |-> FALSE, cls |-> "hdr_range"]
     ELSE IF r < 0 THEN [ok |-> FALSE, Q |-> NoKey, comp |-> FALSE, cls |-> "r_ge_n"]
     ELSE IF s < 0 THEN [ok |-> FALSE, Q |-> NoKey, comp |-> FALSE, cls |-> (IF r < 1 THEN "r_zero" ELSE IF r >= N THEN "r_ge_n" ELSE "s_ge_n")]
     ELSE LET c == RecoverClass(e, r, s, HeaderRecid(h)) IN
          [ok |-> c = "ok", Q |-> Recover(e, r, s, HeaderRecid(h)), comp |-> HeaderComp(h), cls |-> c]
\* MessageVerify: recover, then compare with the key / with the address (key AND form)
VerifyCompact(who, bytes, e) ==
  LET rc == RecoverCompact(bytes, e) IN
  /\ rc.ok
  /\ rc.Q = who.Q
  /\ (who.kind = "addr" => rc.comp = who.comp)
\* total over signature TEXT: undecodable or not 65 bytes -> FALSE
TextClass(cs) == LET dec == B64Decode(cs) IN
                 IF ~dec.ok THEN "not_base64" ELSE IF Len(dec.v) # 65 THEN "wrong_length" ELSE "65"
VerifyText(who, cs, e) ==
  LET dec == B64Decode(cs) IN
  dec.ok /\ Len(dec.v) = 65 /\ VerifyCompact(who, dec.v, e)
=============================================================================
