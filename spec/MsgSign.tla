------------------------------ MODULE MsgSign ------------------------------
(* Bitcoin signed messages (C17): sign, recover, verify.                     *)
(*                                                                           *)
(* ECDSA with public-key recovery over the curve named by the constants of   *)
(* MsgEC.tla (P, A, B, Gx, Gy, N: group of prime order N, cofactor 1),       *)
(* transcribed from SEC 1 v2: 4.1.3 (signing), 4.1.4 (verifying), 4.1.6      *)
(* (public key recovery), and from Bitcoin Core's compact signatures         *)
(* (key.cpp SignCompact, pubkey.cpp RecoverCompact, util/message.cpp         *)
(* MessageVerify).  The curve is a parameter (limitation L1): TLC works on   *)
(* toy curves that pycoin's generic Generator accepts; with N < P recovery   *)
(* ids 2 and 3 (x = r + N) occur.  The digest e is an integer here; which    *)
(* bytes are hashed is MsgText!DigestTerm.                                   *)
EXTENDS MsgEC, MsgText

Scalars == 1..(N - 1)
PubKey(d) == GMul(d)
NoKey == Inf                       \* "no public key": the point at infinity is never a key

(* ------------------------------------------------------------------ signing *)
\* one attempt with nonce k (SEC 1 4.1.3 steps 1-6); ok = FALSE: "return to step 1" with another k
SignTry(d, e, k) ==
  LET R == GMul(k)
      r == R[1] % N
      s == (InvN(k) * (((e % N) + ((d * r) % N)) % N)) % N
  IN [ok |-> r # 0 /\ s # 0, r |-> r, s |-> s,
      \* recovery id (SEC 1 4.1.6 / key.cpp): bit 0 = parity of R.y, bit 1 = R.x was reduced modulo N
      recid |-> (R[2] % 2) + (IF R[1] >= N THEN 2 ELSE 0), k |-> k]
\* Named deviation tolerated by the property: the standard says "choose another k";
\* pycoin's sign_with_recid retries with k + 1 (action RetryIncrementNonce in the replay module).
RECURSIVE Sign(_, _, _)
Sign(d, e, k) == IF k \notin Scalars THEN [ok |-> FALSE, r |-> 0, s |-> 0, recid |-> 0, k |-> k]
                 ELSE LET t == SignTry(d, e, k) IN IF t.ok THEN t ELSE Sign(d, e, k + 1)

(* ---------------------------------------------------------------- verifying *)
\* SEC 1 4.1.4
EcdsaVerify(Q, e, r, s) ==
  /\ Q # Inf /\ r \in Scalars /\ s \in Scalars
  /\ LET w == InvN(s)
         R == Add(GMul(((e % N) * w) % N), MulT((r * w) % N, Q))
     IN R # Inf /\ R[1] % N = r

(* --------------------------------------------------------------- recovering *)
Let(S) == Let1(S)          \* eager LET, see MsgText

\* SEC 1 4.1.6 with j = recid \div 2 and the y parity taken from recid % 2:
\*   r and s must be in 1..N-1 (4.1.4 step 1);
\*   x = r + jN must be a field element (< P) and the abscissa of a point R (parity selects R or -R);
\*   Q = r^-1 (sR - eG) must be a valid key (not the point at infinity).
\* [cls, Q]: cls names the reason when there is no key
NoRec(cls) == [cls |-> cls, Q |-> NoKey]
RecoverFull(e, r, s, recid) ==
  IF r < 1 THEN NoRec("r_zero") ELSE IF r >= N THEN NoRec("r_ge_n")
  ELSE IF s < 1 THEN NoRec("s_zero") ELSE IF s >= N THEN NoRec("s_ge_n")
  ELSE IF r + (recid \div 2) * N >= P THEN NoRec("x_ge_p")
  ELSE Let({ IF pts = <<>> THEN NoRec("no_point")
             ELSE Let({ IF Q = Inf THEN NoRec("q_inf") ELSE [cls |-> "ok", Q |-> Q]
                        : Q \in {MulT(InvN(r), Sub(MulT(s, pts[(recid % 2) + 1]), GMul(e)))} })
             : pts \in {PointsForX(r + (recid \div 2) * N)} })
RecoverClass(e, r, s, recid) == RecoverFull(e, r, s, recid).cls
Recover(e, r, s, recid) == RecoverFull(e, r, s, recid).Q

(* -------------------------------------------------- compact signature bytes *)
\* who: [kind |-> "key", Q |-> point] or [kind |-> "addr", Q |-> point, comp |-> BOOLEAN]
\* (the P2PKH address of Q in compressed or uncompressed SEC form; HASH160 o SEC is assumed injective)
KeyOf(Q) == [kind |-> "key", Q |-> Q, comp |-> FALSE]
AddrOf(Q, comp) == [kind |-> "addr", Q |-> Q, comp |-> comp]
\* [ok, Q, comp, cls]: the key and form a 65-byte compact signature commits to for digest e
\* (r, s: BEVal of bytes 2..33 and 34..65; -1 stands for a value >= 2^31, above every toy group order)
RecoverCompactV(h, r, s, e) ==
  IF ~HeaderOk(h) THEN [ok |-> FALSE, Q |-> NoKey, comp |-> FALSE, cls |-> "hdr_range"]
  ELSE IF r < 0 THEN [ok |-> FALSE, Q |-> NoKey, comp |-> FALSE, cls |-> "r_ge_n"]
  ELSE IF s < 0 THEN [ok |-> FALSE, Q |-> NoKey, comp |-> FALSE, cls |-> (IF r < 1 THEN "r_zero" ELSE IF r >= N THEN "r_ge_n" ELSE "s_ge_n")]
  ELSE Let({ [ok |-> rf.cls = "ok", Q |-> rf.Q, comp |-> HeaderComp(h), cls |-> rf.cls]
             : rf \in {RecoverFull(e, r, s, HeaderRecid(h))} })
RecoverCompact(bytes, e) ==
  Let({ RecoverCompactV(bytes[1], r, s, e) : r \in {BEValAt(bytes, 1)}, s \in {BEValAt(bytes, 33)} })
\* MessageVerify: recover, then compare with the key / with the address (key AND form)
VerifyRc(who, rc) == /\ rc.ok
                     /\ rc.Q = who.Q
                     /\ (who.kind = "addr" => rc.comp = who.comp)
VerifyCompact(who, bytes, e) == \E rc \in {RecoverCompact(bytes, e)} : VerifyRc(who, rc)
\* total over signature TEXT: undecodable or not 65 bytes -> FALSE
TextClass(cs) == LET dec == B64Decode(cs) IN
                 IF ~dec.ok THEN "not_base64" ELSE IF Len(dec.v) # 65 THEN "wrong_length" ELSE "65"
VerifyText(who, cs, e) ==
  \E dec \in {B64Decode(cs)} :
  dec.ok /\ Len(dec.v) = 65 /\ VerifyCompact(who, dec.v, e)
=============================================================================
