----------------------------- MODULE TxValidate -----------------------------
(* C06: validation of a signed transaction is tamper-evident and repeatable.  *)
(*                                                                            *)
(* Rule book: what an ECDSA signature in an input commits to, per hash type   *)
(* (ALL / NONE / SINGLE, with or without ANYONECANPAY) and signature version  *)
(*   "base"    - the original algorithm (Bitcoin Core SignatureHash, the       *)
(*               serializer with its blanking rules, the SIGHASH_SINGLE "one"  *)
(*               bug): the spent amount is NOT committed;                      *)
(*   "witness" - BIP143 (version 0 witness programs): amount committed;        *)
(*   "forkid"  - Bitcoin Cash / Bitcoin Gold replay-protected digest (BIP143   *)
(*               layout for every input): amount committed,                    *)
(* stated here as the VIEW of the transaction a signature binds.  An input    *)
(* validates iff its spent output is known, its unlocking data was made for   *)
(* the puzzle it now faces, and the view of the current transaction from its  *)
(* current position equals the view that was signed.  (Signatures are         *)
(* unforgeable and digests collision-free: equal views <=> the signature      *)
(* still verifies.)  The transaction object is then put through histories of  *)
(* field mutations, structural edits and validations.                         *)
(*                                                                            *)
(* Field values are abstract tokens.  Every original input k carries its id   *)
(* k; its outpoint hash / index / sequence / spent amount are 0 when          *)
(* untouched and 1 when changed (outpoint hash / index also 2 = null); its    *)
(* spent script is the token k (changed: 10 + k, or 30 + k = k plus OP_NOP).  *)
(* Output contents are plain tokens so that two outputs CAN become            *)
(* equal.                                                                     *)
EXTENDS Integers, Sequences, FiniteSets, TLC

CONSTANTS MaxSteps,     \* length of a history
          MaxInserts    \* inputs / outputs inserted per history (keeps the sizes bounded)

----------------------------------------------------------------------------
(* Hash types *)
HashTypes == {1, 2, 3, 129, 130, 131}
BaseT(h) == h % 32
IsAll(h) == BaseT(h) = 1
IsNone(h) == BaseT(h) = 2
IsSingle(h) == BaseT(h) = 3
ACP(h) == h >= 128
SigVersions == {"base", "witness", "forkid"}
CommitsAmount(sv) == sv # "base"

----------------------------------------------------------------------------
(* The view a signature binds.  I: inputs, O: outputs (sequences of records), *)
(* V, L: version and lock time, pos: position of the signing input.           *)
OutPt(r) == <<r.id, r.oph, r.opi>>
View(I, O, V, L, pos, h, sv) ==
    LET r == I[pos]
        legacy == sv = "base"
    IN IF legacy /\ IsSingle(h) /\ pos > Len(O)
       THEN \* SIGHASH_SINGLE without a matching output, original algorithm: the digest is the
            \* constant 1 - the signature binds nothing at all
            [bug |-> TRUE]
       ELSE [bug |-> FALSE,
             ver |-> V, lock |-> L,
             own |-> <<OutPt(r), r.seq>>,
             code |-> r.spk,                                  \* the script being satisfied
             amt |-> IF CommitsAmount(sv) THEN r.amt ELSE -1,
             \* all outpoints in order - unless ANYONECANPAY
             prevouts |-> IF ACP(h) THEN <<>> ELSE [j \in 1..Len(I) |-> OutPt(I[j])],
             \* where the signing input sits: fixed by the outpoint list; and the original
             \* algorithm's SINGLE serialises pos - 1 blank outputs before the bound one
             pos |-> IF ~ACP(h) \/ (legacy /\ IsSingle(h)) THEN pos ELSE 0,
             \* the other inputs' sequences: only ALL without ANYONECANPAY
             seqs |-> IF IsAll(h) /\ ~ACP(h) THEN [j \in 1..Len(I) |-> <<I[j].id, I[j].seq>>] ELSE <<>>,
             outs |-> IF IsAll(h) THEN O
                      ELSE IF IsNone(h) THEN <<>>
                      ELSE IF pos <= Len(O) THEN <<O[pos]>>
                      ELSE <<[amt |-> -1, spk |-> -1]>>]          \* BIP143: hashOutputs = 0

----------------------------------------------------------------------------
(* State *)
VARIABLES hts, svs,     \* per original input: hash type and signature version of its signatures
          ukinds,       \* per original input: where its unlocking data lives ("ss": scriptSig only, "p2sh":
                        \* scriptSig ending in a redeem script, "p2sh_wit": scriptSig = push of a witness program
                        \* + witness, "wit": witness only); <<>> switches the unlocking-data mutations off
          nops,         \* per original input: the spent script is executed directly (P2PK, P2PKH, bare
                        \* multisig), so "the same script followed by OP_NOP" is still the same puzzle
          sview,        \* per original input: the view captured when it was signed
          orig,         \* the transaction as signed (for Revert)
          ver, lock, ins, outs,   \* the current transaction (ins carry their spent outputs)
          lastval,      \* the verdict the last Validate reported: <<pos, verdict>> or <<>>
          steps, inserts

vars == <<hts, svs, nops, ukinds, sview, orig, ver, lock, ins, outs, lastval, steps, inserts>>
cur == [ver |-> ver, lock |-> lock, ins |-> ins, outs |-> outs]

\* (enc: 0 = the unlocking data is byte for byte what the signer wrote; otherwise the code of the
\* re-encoding / addition applied to it, see "unlocking-data mutations" below)
NewIn(k) == [id |-> k, oph |-> 0, opi |-> 0, seq |-> 0, unl |-> k, enc |-> 0, known |-> TRUE, cut |-> FALSE, amt |-> 0, spk |-> k]
NewOut(j) == [amt |-> j, spk |-> j]

\* a transaction with nin inputs and nout outputs, input k signed with hash type H[k] under S[k]
InitWithU(nin, nout, H, S, N, U) ==
    LET I == [k \in 1..nin |-> NewIn(k)]
        O == [j \in 1..nout |-> NewOut(j)]
    IN /\ hts = H /\ svs = S /\ nops = N /\ ukinds = U
       /\ ver = 0 /\ lock = 0 /\ ins = I /\ outs = O
       /\ sview = [k \in 1..nin |-> View(I, O, 0, 0, k, H[k], S[k])]
       /\ orig = [ver |-> 0, lock |-> 0, ins |-> I, outs |-> O]
       /\ lastval = <<>> /\ steps = 0 /\ inserts = 0

InitWith(nin, nout, H, S, N) == InitWithU(nin, nout, H, S, N, <<>>)

----------------------------------------------------------------------------
(* The verdict: a function of the current fields (and of what was signed) only *)
\* spent-script tokens of the input with id k: k as signed; 10 + k another puzzle (other key / other
\* script hash); 30 + k the signed script with an OP_NOP appended - the same keys guard it, but the
\* script code a signature commits to is different
SamePuzzle(r) == r.spk = r.unl \/ (r.spk = 30 + r.unl /\ nops[r.unl])
Verdict(pos) ==
    LET r == ins[pos] IN
    /\ r.known                                   \* an input whose spent output is unknown is never valid
    /\ r.unl # 0                                 \* there is unlocking data ...
    /\ SamePuzzle(r)                             \* ... made for the puzzle this input now spends
    /\ View(ins, outs, ver, lock, pos, hts[r.unl], svs[r.unl]) = sview[r.unl]
(* Unlocking-data mutations change nothing a signature commits to: what they do to validity is  *)
(* decided by the script interpreter (push encodings, BIP141's rules for the scriptSig of witness  *)
(* spends and for witnesses on non-witness inputs, SIGPUSHONLY under P2SH ...).  That rule book is   *)
(* VerifyScript.tla (C03); this module only says WHEN the question is open: the commitments hold and *)
(* the unlocking data is no longer as written.  Then the verdict is "vs" (else "T" / "F") - taken from  *)
(* VerifyScript run on the concrete spend; a broken commitment is FALSE whatever the encoding (a     *)
(* signature that does not verify is not rescued by re-encoding it).                                 *)
Verdict3(pos) == IF ~Verdict(pos) THEN "F" ELSE IF ins[pos].enc = 0 THEN "T" ELSE "vs"
Verdicts == [pos \in 1..Len(ins) |-> Verdict(pos)]
\* the number of inputs that are not correctly solved.  An input referring to the null outpoint
\* inside a transaction with other inputs is an ordinary (hopeless) input and counts.  A coinbase
\* TRANSACTION - exactly one input, referring to the null outpoint - spends nothing; the property
\* says nothing about "validating" it, so no history leads there (LooksCoinbase, below).
BadCount == Cardinality({pos \in 1..Len(ins) : ~Verdict(pos)})
LooksCoinbase(I) == Len(I) = 1 /\ I[1].oph = 2 /\ I[1].opi = 2

----------------------------------------------------------------------------
(* Mutations.  Each is one assignment / list edit on the transaction object.  *)
Positions == 1..Len(ins)
OutPositions == 1..Len(outs)
OutTokens == {1, 2, 3}

SetIn(pos, f, v) == ins' = [ins EXCEPT ![pos] = [@ EXCEPT ![f] = v]]
Remove(s, p) == [j \in 1..(Len(s) - 1) |-> IF j < p THEN s[j] ELSE s[j + 1]]
InsertAt(s, p, x) == [j \in 1..(Len(s) + 1) |-> IF j < p THEN s[j] ELSE IF j = p THEN x ELSE s[j - 1]]
Swap(s, p, q) == [s EXCEPT ![p] = s[q], ![q] = s[p]]

\* a mutation as data: [m |-> name, a |-> position / first argument, b |-> value / second argument]
Mut(m, a, b) == [m |-> m, a |-> a, b |-> b]
UMuts == {"ss_pushdata", "wit_attach", "wit_append", "ss_prepend"}
EncCode(x) == (CASE x.m = "ss_pushdata" -> 100 [] x.m = "wit_attach" -> 200 [] x.m = "wit_append" -> 300
                 [] x.m = "ss_prepend" -> 400) + x.b
\* the list of spent outputs has been cut short (inputs are not inserted / removed / reordered then)
Short == \E p \in 1..Len(ins) : ins[p].cut
Enabled(x) ==
    CASE x.m = "ver" -> x.a = 0 /\ x.b \in {0, 1} /\ x.b # ver
      [] x.m = "lock" -> x.a = 0 /\ x.b \in {0, 1} /\ x.b # lock
      [] x.m \in {"oph", "opi", "seq", "spent_amt"} ->
             \* (oph 2 = the null transaction id, opi 2 = index 0xffffffff: together the null outpoint)
             x.a \in Positions /\ x.b \in (IF x.m \in {"oph", "opi"} THEN {0, 1, 2} ELSE {0, 1})
             /\ (x.m = "oph" => ~LooksCoinbase([ins EXCEPT ![x.a].oph = x.b]))
             /\ (x.m = "opi" => ~LooksCoinbase([ins EXCEPT ![x.a].opi = x.b]))
             /\ (x.m = "spent_amt" => ins[x.a].known)
             /\ x.b # (CASE x.m = "oph" -> ins[x.a].oph [] x.m = "opi" -> ins[x.a].opi
                         [] x.m = "seq" -> ins[x.a].seq [] OTHER -> ins[x.a].amt)
      [] x.m = "spent_spk" ->   \* to another puzzle (10 + id), to script + OP_NOP (30 + id), or back (id)
             x.a \in Positions /\ ins[x.a].id # 0 /\ ins[x.a].known /\ x.b # ins[x.a].spk
             /\ x.b \in {ins[x.a].id, 10 + ins[x.a].id} \cup (IF nops[ins[x.a].id] THEN {30 + ins[x.a].id} ELSE {})
      [] x.m = "out_amt" -> x.a \in OutPositions /\ x.b \in OutTokens /\ x.b # outs[x.a].amt
      [] x.m = "out_spk" -> x.a \in OutPositions /\ x.b \in OutTokens /\ x.b # outs[x.a].spk
      [] x.m = "ins_insert" -> x.a \in {1, Len(ins) + 1} /\ x.b = 0 /\ inserts < MaxInserts /\ ~Short
      [] x.m = "ins_remove" -> x.a \in Positions /\ x.b = 0 /\ Len(ins) > 1 /\ ~LooksCoinbase(Remove(ins, x.a)) /\ ~Short
      [] x.m = "ins_swap" -> x.a \in Positions /\ x.b \in Positions /\ x.a < x.b /\ ~Short
      [] x.m = "outs_insert" -> x.a \in {1, Len(outs) + 1} /\ x.b \in {3} /\ inserts < MaxInserts
      [] x.m = "outs_remove" -> x.a \in OutPositions /\ x.b = 0
      [] x.m = "outs_swap" -> x.a \in OutPositions /\ x.b \in OutPositions /\ x.a < x.b
      [] x.m = "unl_swap" -> x.a \in Positions /\ x.b \in Positions /\ x.a < x.b   \* swap the unlocking data of two inputs
      \* unlocking-data mutations (one per input at a time, on data the signer wrote for this input):
      \*  ss_pushdata b: a push of the scriptSig re-encoded with OP_PUSHDATA1 / 2 / 4 - b = 1, 2, 4 the LAST
      \*               push (redeem script, witness program, public key), b = 11, 12, 14 the first signature
      \*  wit_attach b: a witness attached to an input that has none - b = 1: <01>, b = 2: two items shaped like
      \*               a P2WPKH witness
      \*  wit_append:   an empty item appended to the witness (to an empty witness: a witness of one empty item)
      \*  ss_prepend b: OP_NOP (b = 1) / OP_1 (b = 2) put in front of the scriptSig
      [] x.m \in UMuts ->
             /\ ukinds # <<>> /\ x.a \in Positions /\ ins[x.a].enc = 0
             /\ ins[x.a].unl # 0 /\ ins[x.a].unl = ins[x.a].id /\ svs[ins[x.a].unl] # "forkid"
             /\ (LET u == ukinds[ins[x.a].unl] IN
                 CASE x.m = "ss_pushdata" -> u # "wit" /\ x.b \in {1, 2, 4} \cup (IF u \in {"ss", "p2sh"} THEN {11, 12, 14} ELSE {})
                   [] x.m = "wit_attach" -> u \in {"ss", "p2sh"} /\ x.b \in {1, 2}
                   [] x.m = "wit_append" -> x.b = 0
                   [] x.m = "ss_prepend" -> x.b \in {1, 2})
      \* the spent output becomes unknown: b = 0 its entry in the list of spent outputs is blanked; b = 1 the
      \* list is cut off before position a (a = 1: nothing is known any more), so it is SHORTER than the inputs
      [] x.m = "forget" -> x.a \in Positions /\ x.b \in {0, 1} /\ ins[x.a].known /\ (x.b = 1 => ~Short)
      [] x.m = "revert" -> x.a = 0 /\ x.b = 0 /\ cur # orig
      [] OTHER -> FALSE

MutNames == UMuts \cup {"ver", "lock", "oph", "opi", "seq", "spent_amt", "spent_spk", "out_amt", "out_spk", "ins_insert",
             "ins_remove", "ins_swap", "outs_insert", "outs_remove", "outs_swap", "unl_swap", "forget", "revert"}
AllMuts == {x \in [m : MutNames, a : 0..5, b : 0..35] : Enabled(x)}

Apply(x) ==
    /\ Enabled(x)
    /\ CASE x.m = "ver" -> ver' = x.b /\ UNCHANGED <<lock, ins, outs>>
         [] x.m = "lock" -> lock' = x.b /\ UNCHANGED <<ver, ins, outs>>
         [] x.m = "oph" -> SetIn(x.a, "oph", x.b) /\ UNCHANGED <<ver, lock, outs>>
         [] x.m = "opi" -> SetIn(x.a, "opi", x.b) /\ UNCHANGED <<ver, lock, outs>>
         [] x.m = "seq" -> SetIn(x.a, "seq", x.b) /\ UNCHANGED <<ver, lock, outs>>
         [] x.m = "spent_amt" -> SetIn(x.a, "amt", x.b) /\ UNCHANGED <<ver, lock, outs>>
         [] x.m = "spent_spk" -> SetIn(x.a, "spk", x.b) /\ UNCHANGED <<ver, lock, outs>>
         [] x.m = "out_amt" -> outs' = [outs EXCEPT ![x.a].amt = x.b] /\ UNCHANGED <<ver, lock, ins>>
         [] x.m = "out_spk" -> outs' = [outs EXCEPT ![x.a].spk = x.b] /\ UNCHANGED <<ver, lock, ins>>
         [] x.m = "ins_insert" -> ins' = InsertAt(ins, x.a, [NewIn(0) EXCEPT !.spk = 20]) /\ UNCHANGED <<ver, lock, outs>>
         [] x.m = "ins_remove" -> ins' = Remove(ins, x.a) /\ UNCHANGED <<ver, lock, outs>>
         [] x.m = "ins_swap" -> ins' = Swap(ins, x.a, x.b) /\ UNCHANGED <<ver, lock, outs>>
         [] x.m = "outs_insert" -> outs' = InsertAt(outs, x.a, NewOut(x.b)) /\ UNCHANGED <<ver, lock, ins>>
         [] x.m = "outs_remove" -> outs' = Remove(outs, x.a) /\ UNCHANGED <<ver, lock, ins>>
         [] x.m = "outs_swap" -> outs' = Swap(outs, x.a, x.b) /\ UNCHANGED <<ver, lock, ins>>
         [] x.m \in UMuts -> SetIn(x.a, "enc", EncCode(x)) /\ UNCHANGED <<ver, lock, outs>>
         [] x.m = "unl_swap" -> ins' = [ins EXCEPT ![x.a].unl = ins[x.b].unl, ![x.b].unl = ins[x.a].unl,
                                                    ![x.a].enc = ins[x.b].enc, ![x.b].enc = ins[x.a].enc]
                                /\ UNCHANGED <<ver, lock, outs>>
         [] x.m = "forget" -> /\ ins' = IF x.b = 0 THEN [ins EXCEPT ![x.a].known = FALSE]
                                        ELSE [p \in Positions |-> IF p >= x.a THEN [ins[p] EXCEPT !.known = FALSE, !.cut = TRUE]
                                                                   ELSE ins[p]]
                              /\ UNCHANGED <<ver, lock, outs>>
         [] x.m = "revert" -> ver' = orig.ver /\ lock' = orig.lock /\ ins' = orig.ins /\ outs' = orig.outs
    /\ inserts' = IF x.m \in {"ins_insert", "outs_insert"} THEN inserts + 1 ELSE IF x.m = "revert" THEN 0 ELSE inserts
    /\ lastval' = <<>>
    /\ steps' = steps + 1
    /\ UNCHANGED <<hts, svs, nops, ukinds, sview, orig>>

Mutate(x) == steps < MaxSteps /\ Apply(x)

\* validating input pos: reports the verdict; the transaction is not changed by it
Validate(pos) ==
    /\ steps < MaxSteps /\ pos \in Positions
    /\ lastval' = <<pos, Verdict3(pos)>>
    /\ steps' = steps + 1
    /\ UNCHANGED <<hts, svs, nops, ukinds, sview, orig, ver, lock, ins, outs, inserts>>

Next == (\E x \in AllMuts : Mutate(x)) \/ (\E pos \in Positions : Validate(pos))

----------------------------------------------------------------------------
(* Lemmas *)
\* just signed: everything validates
FreshlySignedValid == (cur = orig) => \A pos \in Positions : Verdict(pos)
\* what Validate reports is the verdict of the current fields: no history enters
ReportedIsCurrent == lastval # <<>> => lastval[2] = Verdict3(lastval[1])
\* unknown spent output: never valid
UnknownNeverValid == \A pos \in Positions : ~ins[pos].known => ~Verdict(pos)

(* The commitment table, stated the way the property states it: which single  *)
(* field changes, applied to the transaction as signed, an input with hash    *)
(* type h / version sv at position i is sensitive to.                         *)
CommitsTo(i, h, sv, x, nout) ==
    LET bug == sv = "base" /\ IsSingle(h) /\ i > nout
    IN IF bug THEN x.m = "spent_spk" /\ x.a = i /\ x.b = 10  \* binds nothing; only the puzzle itself (its keys) still matters
       ELSE CASE x.m \in {"ver", "lock"} -> TRUE
              [] x.m \in {"oph", "opi"} -> x.a = i \/ ~ACP(h)
              [] x.m = "seq" -> x.a = i \/ (IsAll(h) /\ ~ACP(h))
              [] x.m \in {"out_amt", "out_spk"} -> IsAll(h) \/ (IsSingle(h) /\ x.a = i)
              [] x.m = "spent_spk" -> x.a = i
              [] x.m = "spent_amt" -> x.a = i /\ CommitsAmount(sv)
              [] OTHER -> FALSE
FieldMuts == {"ver", "lock", "oph", "opi", "seq", "out_amt", "out_spk", "spent_spk", "spent_amt"}
\* one field changed since signing (identified by comparing with orig): validity is exactly insensitivity
ChangedFields ==
    {x \in [m : FieldMuts, a : 0..5, b : {0, 10, 30}] : (x.m # "spent_spk" => x.b = 0) /\
        CASE x.m = "ver" -> x.a = 0 /\ ver # orig.ver
          [] x.m = "lock" -> x.a = 0 /\ lock # orig.lock
          [] x.m = "oph" -> x.a \in Positions /\ ins[x.a].oph # orig.ins[x.a].oph
          [] x.m = "opi" -> x.a \in Positions /\ ins[x.a].opi # orig.ins[x.a].opi
          [] x.m = "seq" -> x.a \in Positions /\ ins[x.a].seq # orig.ins[x.a].seq
          [] x.m = "spent_amt" -> x.a \in Positions /\ ins[x.a].amt # orig.ins[x.a].amt
          [] x.m = "spent_spk" -> x.a \in Positions /\ ins[x.a].spk # orig.ins[x.a].spk
                                  /\ x.b = (ins[x.a].spk \div 10) * 10     \* 10: another puzzle, 30: script + OP_NOP
          [] x.m = "out_amt" -> x.a \in OutPositions /\ outs[x.a].amt # orig.outs[x.a].amt
          [] x.m = "out_spk" -> x.a \in OutPositions /\ outs[x.a].spk # orig.outs[x.a].spk
          [] OTHER -> FALSE}
SameStructure == /\ Len(ins) = Len(orig.ins) /\ Len(outs) = Len(orig.outs)
                 /\ \A p \in Positions : ins[p].id = p /\ ins[p].unl = p /\ ins[p].known /\ ins[p].enc = 0
\* (several changed fields: invalid iff at least one of them is committed)
CommitmentTable ==
    SameStructure =>
        \A i \in Positions :
            Verdict(i) <=> ~\E x \in ChangedFields : CommitsTo(i, hts[i], svs[i], x, Len(orig.outs))
=============================================================================
