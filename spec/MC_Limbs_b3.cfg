CONSTANTS B = 3  LimbVals = {0, 1, 2}  MaxLen = 4
SPECIFICATION Spec
INVARIANTS AddIsPlus AddNormal AddComm CmpIsOrder ValInjective OfNatInverse
CHECK_DEADLOCK FALSE
