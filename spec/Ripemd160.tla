------------------------------ MODULE Ripemd160 ------------------------------
(* RIPEMD-160 (Dobbertin, Bosselaers, Preneel 1996; ISO/IEC 10118-3),        *)
(* transcribed from the definition of the function, not from pycoin:         *)
(*                                                                           *)
(*  - message words are selected by r(j) (left line) and r'(j) (right line): *)
(*    r(j) = j for the first round, then the permutation rho is applied once *)
(*    more per round; the right line starts from pi(i) = 9i+5 mod 16;        *)
(*  - the rotation amount of a step depends on the round and on the message  *)
(*    word used in that step (one table, shared by both lines);              *)
(*  - the left line uses f1..f5 and K1..K5 = floor(2^30 * sqrt(2,3,5,7)),    *)
(*    the right line f5..f1 and K' = floor(2^30 * cbrt(2,3,5,7));            *)
(*  - MD4-style padding (0x80, zeros, 64-bit little-endian bit count).       *)
(*                                                                           *)
(* This module is the pure part (tables, padding, one step of each line,     *)
(* feed-forward, output).  The state machine that runs it - padding in Init, *)
(* ONE TLC STEP PER ROUND - is HashMachine.tla; 80 nested LETs in a single   *)
(* recursive operator overflow TLC's Java stack.                             *)
EXTENDS Word32

(* ---- message word selection -------------------------------------------------*)
Rho == << 7, 4, 13, 1, 10, 6, 15, 3, 12, 0, 9, 5, 2, 14, 11, 8 >>      \* rho(i) = Rho[i+1]
Pi(i) == (9 * i + 5) % 16
RECURSIVE RhoPow(_, _)
RhoPow(k, i) == IF k = 0 THEN i ELSE Rho[RhoPow(k - 1, i) + 1]
\* j in 0..79
RmdWordL(j) == RhoPow(j \div 16, j % 16)
RmdWordR(j) == RhoPow(j \div 16, Pi(j % 16))

(* ---- rotation amounts: row = round, column = message word index ----------------*)
RmdShiftTab == <<
  << 11, 14, 15, 12,  5,  8,  7,  9, 11, 13, 14, 15,  6,  7,  9,  8 >>,
  << 12, 13, 11, 15,  6,  9,  9,  7, 12, 15, 11, 13,  7,  8,  7,  7 >>,
  << 13, 15, 14, 11,  7,  7,  6,  8, 13, 14, 13, 12,  5,  5,  6,  9 >>,
  << 14, 11, 12, 14,  8,  6,  5,  5, 15, 12, 15, 14,  9,  9,  8,  6 >>,
  << 15, 12, 13, 13,  9,  5,  8,  6, 14, 11, 12, 11,  8,  6,  5,  5 >> >>
RmdShiftL(j) == RmdShiftTab[j \div 16 + 1][RmdWordL(j) + 1]
RmdShiftR(j) == RmdShiftTab[j \div 16 + 1][RmdWordR(j) + 1]

\* the four 80-entry tables, evaluated once (constant definitions are cached by TLC)
RmdML == [j \in 1..80 |-> RmdWordL(j - 1)]
RmdMR == [j \in 1..80 |-> RmdWordR(j - 1)]
RmdRL == [j \in 1..80 |-> RmdShiftL(j - 1)]
RmdRR == [j \in 1..80 |-> RmdShiftR(j - 1)]

(* ---- boolean functions and constants -------------------------------------------*)
RmdF(i, x, y, z) == CASE i = 1 -> WXor3(x, y, z)
                      [] i = 2 -> WOr(WAnd(x, y), WAnd(WNot(x), z))
                      [] i = 3 -> WXor(WOr(x, WNot(y)), z)
                      [] i = 4 -> WOr(WAnd(x, z), WAnd(y, WNot(z)))
                      [] i = 5 -> WXor(x, WOr(y, WNot(z)))
\* 0x00000000 0x5A827999 0x6ED9EBA1 0x8F1BBCDC 0xA953FD4E
RmdKL == << W(0, 0), W(23170, 31129), W(28377, 60321), W(36635, 48348), W(43347, 64846) >>
\* 0x50A28BE6 0x5C4DD124 0x6D703EF3 0x7A6D76E9 0x00000000
RmdKR == << W(20642, 35814), W(23629, 53540), W(28016, 16115), W(31341, 30441), W(0, 0) >>
\* 0x67452301 0xEFCDAB89 0x98BADCFE 0x10325476 0xC3D2E1F0
RmdIV == << W(26437, 8961), W(61389, 43913), W(39098, 56574), W(4146, 21622), W(50130, 57840) >>

(* ---- one step of one line --------------------------------------------------------*)
\* (A,B,C,D,E) := (E, rol_s(A + f(B,C,D) + X + K) + E, B, rol_10(C), D)
RmdLineStep(v, f, x, k, s) ==
  << v[5], Add(Rol(Add4(v[1], f, x, k), s), v[5]), v[2], Rol(v[3], 10), v[4] >>
\* step j (0..79) of both lines; x = the 16 message words of the block
RmdStepL(v, x, j) == LET rnd == j \div 16 + 1
                     IN  RmdLineStep(v, RmdF(rnd, v[2], v[3], v[4]), x[RmdML[j + 1] + 1], RmdKL[rnd], RmdRL[j + 1])
RmdStepR(v, x, j) == LET rnd == j \div 16 + 1
                     IN  RmdLineStep(v, RmdF(6 - rnd, v[2], v[3], v[4]), x[RmdMR[j + 1] + 1], RmdKR[rnd], RmdRR[j + 1])

\* feed-forward after the 80 steps: the lines are combined with a rotation of the registers
RmdCombine(h, l, r) == << Add3(h[2], l[3], r[4]), Add3(h[3], l[4], r[5]), Add3(h[4], l[5], r[1]),
                          Add3(h[5], l[1], r[2]), Add3(h[1], l[2], r[3]) >>

\* message words of a 64-byte block and the digest are little-endian
RmdBlockWords(block) == [i \in 1..16 |-> WordAtLE(block, i)]
RmdDigest(h) == BytesLE(h[1]) \o BytesLE(h[2]) \o BytesLE(h[3]) \o BytesLE(h[4]) \o BytesLE(h[5])
=============================================================================
