------------------------------- MODULE P2PGrid -------------------------------
(* The case space of property C16: for every message of P2PMsg a base case    *)
(* with pairwise distinct field values (so that exchanging two fields of the  *)
(* same type changes the bytes), every field varied over the boundary values  *)
(* of its type with the others at base, all-low / all-high cases, and (tier   *)
(* "t") every pair of fields varied together.  Arrays take 0, 1, 2 and 253    *)
(* elements (253 is the first count that needs the 3-byte compact size), each *)
(* element distinct, and one-element arrays carrying each boundary value of   *)
(* each tuple component.  Everything here is data; nothing comes from the     *)
(* implementation.  Real transactions and blocks (a block message is only     *)
(* accepted with a correct merkle root, which TLC cannot compute) are read    *)
(* from the file named by the environment variable P2P_POOL:                  *)
(*    {"tx": [bytes...], "block": [bytes...], "merkle": [proof...]}           *)
(* (bytes as runs [[fill,len]..]).  A proof is a partial merkle tree of an    *)
(* honest BIP37 prover, [n, hashes, flags, root]: MC_P2PMerkle enumerates     *)
(* them (one per block size and traversal size) as hash terms, the harness    *)
(* evaluates the terms with hashlib.                                          *)
EXTENDS P2PMsg, Json, IOUtils

CONSTANT Tier           \* "q" (quick), "t" (thorough) or "p" (the pool only)

Pool == JsonDeserialize(IOEnv.P2P_POOL)
PoolTx    == {[raw |-> Pool.tx[i]] : i \in 1..Len(Pool.tx)}
PoolBlock == {[raw |-> Pool.block[i]] : i \in 1..Len(Pool.block)}
PoolMerkle == {Pool.merkle[i] : i \in 1..Len(Pool.merkle)}

\* ---------------------------------------------------------------- boundary values per type
N32 == {<<0, 0>>, <<1, 0>>, <<65535, 32767>>, <<0, 32768>>, <<65535, 65535>>, <<513, 1027>>}    \* ..., 0x04030201
N64 == {<<0, 0, 0, 0>>, <<1, 0, 0, 0>>, <<65535, 65535, 0, 0>>, <<0, 0, 1, 0>>, <<65535, 65535, 65535, 32767>>,
        <<0, 0, 0, 32768>>, <<65535, 65535, 65535, 65535>>, <<513, 1027, 1541, 2055>>}            \* ..., 0x0807060504030201
N48 == {<<0, 0, 0>>, <<1, 0, 0>>, <<65535, 65535, 0>>, <<0, 0, 1>>, <<65535, 65535, 65535>>, <<513, 1027, 1541>>}
NCS == {<<0, 0, 0, 0>>, <<1, 0, 0, 0>>, <<252, 0, 0, 0>>, <<253, 0, 0, 0>>, <<254, 0, 0, 0>>, <<255, 0, 0, 0>>,
        <<256, 0, 0, 0>>, <<65535, 0, 0, 0>>, <<0, 1, 0, 0>>, <<65535, 65535, 0, 0>>, <<0, 0, 1, 0>>,
        <<65535, 65535, 65535, 65535>>}
U8 == {0, 1, 2, 127, 128, 255}
Ports == {0, 1, 255, 256, 8333, 65535}
Asc(n) == Lit([i \in 1..n |-> i - 1])                 \* 00 01 02 ...: shows a reversal
UserAgent == Lit(<<47, 83, 97, 116, 111, 115, 104, 105, 58, 48, 46, 55, 46, 50, 47>>)     \* "/Satoshi:0.7.2/"
Strs == {<<>>, Lit(<<0>>), UserAgent, Run(97, 252), Run(253, 253), Cat(Run(253, 1), Run(0, 65534)), Run(255, 65536)}
Hashes == {Run(0, 32), Run(255, 32), Asc(32)}
V6Example == Lit(<<38, 7, 248, 176, 64, 6, 8, 10, 0, 0, 0, 0, 0, 0, 32, 14>>)     \* 2607:f8b0:4006:80a::200e
Ips == {V4(10, 0, 0, 1), V4(0, 0, 0, 0), V4(255, 255, 255, 255), V4(1, 2, 3, 4),
        V6Example, Run(0, 16), Run(255, 16), Asc(16)}
A0 == [services |-> <<1, 0, 0, 0>>, ip |-> V4(10, 0, 0, 1), port |-> 8333]
Addrs == {[A0 EXCEPT !.ip = x] : x \in Ips} \cup {[A0 EXCEPT !.services = x] : x \in N64}
         \cup {[A0 EXCEPT !.port = x] : x \in Ports}
         \cup {[services |-> <<513, 1027, 1541, 2055>>, ip |-> V6Example, port |-> 258]}
\* inventory types: MSG_TX, MSG_BLOCK, MSG_FILTERED_BLOCK, MSG_CMPCT_BLOCK, the witness flag 1 << 30, ends of the range
InvTypes == {<<1, 0>>, <<2, 0>>, <<3, 0>>, <<4, 0>>, <<1, 16384>>, <<2, 16384>>, <<0, 0>>, <<65535, 65535>>, <<513, 1027>>}
Invs == {[type |-> t, hash |-> Asc(32)] : t \in InvTypes} \cup {[type |-> <<1, 0>>, hash |-> h] : h \in Hashes}

H0 == [version |-> <<2, 8192>>, prev |-> Cat(Run(17, 1), Run(34, 31)), merkle |-> Cat(Run(51, 1), Run(68, 31)),
       time |-> <<4660, 22136>>, bits |-> <<65535, 7424>>, nonce |-> <<43981, 239>>]
Headers == {[H0 EXCEPT !.version = x] : x \in N32} \cup {[H0 EXCEPT !.time = x] : x \in N32}
           \cup {[H0 EXCEPT !.bits = x] : x \in N32} \cup {[H0 EXCEPT !.nonce = x] : x \in N32}
           \cup {[H0 EXCEPT !.prev = x] : x \in Hashes} \cup {[H0 EXCEPT !.merkle = x] : x \in Hashes}

In(h, x, s, q, w) == [hash |-> h, index |-> x, script |-> s, seq |-> q, wit |-> w]
Out(a, s) == [amount |-> a, script |-> s]
\* a legacy transaction, a BIP144 one (second input has a witness stack), one with a 253-byte script
TxA == [version |-> <<1, 0>>, ins |-> <<In(Asc(32), <<0, 0>>, Lit(<<81>>), <<65535, 65535>>, <<>>)>>,
        outs |-> <<Out(<<61440, 1322, 1, 0>>, Cat(Lit(<<118, 169, 20>>), Run(7, 20)))>>, lock |-> <<0, 0>>]
TxW == [version |-> <<2, 0>>,
        ins |-> <<In(Run(1, 32), <<1, 0>>, <<>>, <<65534, 65535>>, <<>>),
                  In(Run(2, 32), <<65535, 65535>>, Lit(<<0>>), <<0, 0>>, <<Run(48, 71), Run(2, 33)>>)>>,
        outs |-> <<Out(<<0, 0, 0, 0>>, <<>>), Out(<<65535, 65535, 65535, 65535>>, Lit(<<106>>))>>,
        lock |-> <<65535, 65535>>]
TxL == [version |-> <<1, 0>>, ins |-> <<In(Run(9, 32), <<7, 0>>, Cat(Run(0, 1), Run(253, 252)), <<0, 32768>>, <<Run(238, 253)>>)>>,
        outs |-> <<>>, lock |-> <<1, 0>>]
Txs == {TxA, TxW, TxL} \cup PoolTx

Bnd(l) ==
  CASE l = "L" -> N32 [] l = "Q" -> N64 [] l = "6" -> N48 [] l = "I" -> NCS [] l = "1" -> U8
    [] l = "b" -> BOOLEAN [] l = "O" -> {<<>>, <<TRUE>>, <<FALSE>>} [] l = "h" -> Ports
    [] l = "S" -> Strs [] l = "#" -> Hashes [] l = "@" -> Ips [] l = "A" -> Addrs [] l = "v" -> Invs
    [] l = "z" -> Headers [] l = "T" -> Txs [] l = "B" -> PoolBlock
\* a reduced set for the pairwise cases
Bnd2(l) ==
  CASE l = "L" -> {<<0, 0>>, <<65535, 65535>>} [] l = "Q" -> {<<0, 0, 0, 0>>, <<65535, 65535, 65535, 65535>>}
    [] l = "6" -> {<<0, 0, 0>>, <<65535, 65535, 65535>>} [] l = "I" -> {<<252, 0, 0, 0>>, <<253, 0, 0, 0>>}
    [] l = "1" -> {0, 255} [] l = "b" -> BOOLEAN [] l = "O" -> {<<>>, <<TRUE>>, <<FALSE>>} [] l = "h" -> {0, 65535}
    [] l = "S" -> {<<>>, Run(253, 253)} [] l = "#" -> {Run(0, 32), Asc(32)} [] l = "@" -> {Run(0, 16)}
    [] l = "A" -> {[A0 EXCEPT !.ip = V6Example], [A0 EXCEPT !.port = 65535]}
    [] l = "v" -> {[type |-> <<2, 16384>>, hash |-> Asc(32)]} [] l = "z" -> {H0}
    [] l = "T" -> {TxA, TxW} [] l = "B" -> PoolBlock

\* ---------------------------------------------------------------- typical values, distinct for distinct salts
M(x) == x % 65536
Typ(l, s) ==
  CASE l = "L" -> <<M(s * 257 + 3), M(s * 5 + 1)>>
    [] l = "Q" -> <<M(s + 4096), M(s * 3 + 1), M(s + 2), M(s * 7 + 3)>>
    [] l = "6" -> <<M(s + 1), M(s * 3 + 2), M(s + 3)>>
    [] l = "I" -> <<M(s), 0, 0, 0>>
    [] l = "1" -> (s * 37 + 1) % 256
    [] l = "b" -> s % 2 = 1
    [] l = "O" -> <<TRUE>>
    [] l = "h" -> M(8333 + s)
    [] l = "S" -> Lit(<<47, 65 + (s % 26), 97 + ((s \div 26) % 26), 47>>)
    [] l = "#" -> Cat(Run(s % 256, 1), Run((s + 100) % 256, 31))
    [] l = "@" -> V4(10, 0, s % 256, 1)
    [] l = "A" -> [services |-> <<M(s + 1), 0, M(s), 0>>,
                   ip |-> IF s % 2 = 0 THEN V4(10, 0, s % 256, 1) ELSE Cat(Lit(<<38, 7, 248, 176>>), Run(s % 256, 12)),
                   port |-> M(8333 + s)]
    [] l = "v" -> [type |-> <<1 + (s % 3), 0>>, hash |-> Cat(Run(s % 256, 1), Run((s + 100) % 256, 31))]
    [] l = "z" -> [H0 EXCEPT !.nonce = <<M(s), 1>>, !.prev = Cat(Run(s % 256, 1), Run(34, 31))]
    [] l = "T" -> IF s % 2 = 0 THEN TxA ELSE TxW
    [] l = "B" -> CHOOSE b \in PoolBlock : TRUE
Lo(l) ==
  CASE l = "L" -> <<0, 0>> [] l = "Q" -> <<0, 0, 0, 0>> [] l = "6" -> <<0, 0, 0>> [] l = "I" -> <<0, 0, 0, 0>>
    [] l = "1" -> 0 [] l = "b" -> FALSE [] l = "O" -> <<>> [] l = "h" -> 0 [] l = "S" -> <<>>
    [] l = "#" -> Run(0, 32) [] l = "@" -> Run(0, 16)
    [] l = "A" -> [services |-> <<0, 0, 0, 0>>, ip |-> Run(0, 16), port |-> 0]
    [] l = "v" -> [type |-> <<0, 0>>, hash |-> Run(0, 32)]
    [] l = "z" -> [version |-> <<0, 0>>, prev |-> Run(0, 32), merkle |-> Run(0, 32), time |-> <<0, 0>>, bits |-> <<0, 0>>, nonce |-> <<0, 0>>]
    [] l = "T" -> TxL [] l = "B" -> CHOOSE b \in PoolBlock : TRUE
Hi(l) ==
  CASE l = "L" -> <<65535, 65535>> [] l = "Q" -> <<65535, 65535, 65535, 65535>> [] l = "6" -> <<65535, 65535, 65535>>
    [] l = "I" -> <<65535, 65535, 65535, 65535>> [] l = "1" -> 255 [] l = "b" -> TRUE [] l = "O" -> <<FALSE>>
    [] l = "h" -> 65535 [] l = "S" -> Run(255, 65536) [] l = "#" -> Run(255, 32) [] l = "@" -> Run(255, 16)
    [] l = "A" -> [services |-> <<65535, 65535, 65535, 65535>>, ip |-> Run(255, 16), port |-> 65535]
    [] l = "v" -> [type |-> <<65535, 65535>>, hash |-> Run(255, 32)]
    [] l = "z" -> [version |-> <<65535, 65535>>, prev |-> Run(255, 32), merkle |-> Run(255, 32), time |-> <<65535, 65535>>,
                   bits |-> <<65535, 65535>>, nonce |-> <<65535, 65535>>]
    [] l = "T" -> TxW [] l = "B" -> CHOOSE b \in PoolBlock : TRUE

\* ---------------------------------------------------------------- arrays
Heavy(of) == \E k \in 1..Len(of) : of[k] \in {"T", "B"}
Lens(of) == IF Heavy(of) THEN (IF Tier = "q" THEN {0, 1, 2} ELSE {0, 1, 2, 3})
            ELSE (IF Tier = "q" THEN {0, 1, 2, 253} ELSE {0, 1, 2, 3, 252, 253, 254, 255, 256, 300, 1000})
ElemTyp(of, s) == IF Len(of) = 1 THEN Typ(of[1], s) ELSE [k \in 1..Len(of) |-> Typ(of[k], s + k)]
ElemOf(of, g(_)) == IF Len(of) = 1 THEN g(of[1]) ELSE [k \in 1..Len(of) |-> g(of[k])]
\* every boundary value of every component, the other components typical
ElemBnd(of, B(_)) == IF Len(of) = 1 THEN B(of[1])
                     ELSE UNION {{[ElemTyp(of, 40) EXCEPT ![k] = v] : v \in B(of[k])} : k \in 1..Len(of)}
ArrTyp(of, s, n) == [j \in 1..n |-> ElemTyp(of, s + 3 * j)]
ArrVals(of, s) == {ArrTyp(of, s, n) : n \in Lens(of)} \cup {<<e>> : e \in ElemBnd(of, Bnd)}
ArrVals2(of, s) == {ArrTyp(of, s, n) : n \in (IF Heavy(of) THEN {0, 1} ELSE {0, 253})} \cup {<<e>> : e \in ElemBnd(of, Bnd2)}

FieldTyp(ty, i)  == IF ty.arr THEN ArrTyp(ty.of, 16 * i, 2) ELSE Typ(ty.of[1], 16 * i)
FieldBnd(ty, i)  == IF ty.arr THEN ArrVals(ty.of, 16 * i) ELSE Bnd(ty.of[1])
FieldBnd2(ty, i) == IF ty.arr THEN ArrVals2(ty.of, 16 * i) ELSE Bnd2(ty.of[1])
FieldLo(ty) == IF ty.arr THEN <<>> ELSE Lo(ty.of[1])
FieldHi(ty) == IF ty.arr THEN <<ElemOf(ty.of, Hi), ElemOf(ty.of, Lo), ElemOf(ty.of, Hi)>> ELSE Hi(ty.of[1])

\* ---------------------------------------------------------------- cases of one message: sets of field-value sequences
BaseF(m) == [i \in 1..NFields(m) |-> FieldTyp(Layout(m)[i].ty, i)]
LoF(m)   == [i \in 1..NFields(m) |-> FieldLo(Layout(m)[i].ty)]
HiF(m)   == [i \in 1..NFields(m) |-> FieldHi(Layout(m)[i].ty)]
OneFactor(m) == UNION {{[BaseF(m) EXCEPT ![i] = v] : v \in FieldBnd(Layout(m)[i].ty, i)} : i \in 1..NFields(m)}
Pairwise(m) == UNION {{[BaseF(m) EXCEPT ![p[1]] = v, ![p[2]] = w] :
                          v \in FieldBnd2(Layout(m)[p[1]].ty, p[1]), w \in FieldBnd2(Layout(m)[p[2]].ty, p[2])} :
                       p \in {q \in (1..NFields(m)) \X (1..NFields(m)) : q[1] < q[2]}}
Generic(m) == {BaseF(m), LoF(m), HiF(m)} \cup OneFactor(m) \cup (IF Tier = "t" THEN Pairwise(m) ELSE {})

\* merkleblock: the library verifies the partial merkle tree while parsing, so only well-formed ones:
\* a one-transaction block, the single hash being the merkle root (matched or not: flag bit 1 or 0), under every
\* boundary header; and the proofs of the pool (block sizes 1..N, every traversal size: flag bytes that end in
\* padding and flag bytes filled to their last bit) under the base header with the proof's root
MerkleCases == {<<h, <<1, 0>>, <<h.merkle>>, <<fl>>>> : h \in Headers, fl \in {0, 1}}
               \cup {<<[H0 EXCEPT !.merkle = p.root], <<p.n, 0>>, p.hashes, p.flags>> : p \in PoolMerkle}
\* alert: the payload is itself a structure the library parses: only well-formed payloads
AlertSigs == {<<>>, Run(48, 72)}

Cases(m) ==
  CASE m = "merkleblock" -> MerkleCases
    [] m = "block"       -> {<<b>> : b \in PoolBlock}
    [] OTHER             -> Generic(m)

MsgOrder == <<"version", "verack", "addr", "inv", "getdata", "notfound", "reject", "getblocks", "getheaders",
              "sendheaders", "tx", "block", "headers", "getaddr", "mempool", "feefilter", "sendcmpct",
              "cmpctblock", "getblocktxn", "blocktxn", "sendaddrv2", "ping", "pong", "filterload",
              "filteradd", "filterclear", "merkleblock", "alert">>

\* a case: [name, f (field values in layout order), inner (alert: the fields of the payload structure)]
AlertCases == {[name |-> "alert", f |-> <<Pack("alert_info", g), s>>, inner |-> g] :
                 g \in Generic("alert_info"), s \in AlertSigs}
CasesOf(m) == IF m = "alert" THEN SetToSeq(AlertCases)
              ELSE LET s == SetToSeq(Cases(m)) IN [j \in 1..Len(s) |-> [name |-> m, f |-> s[j], inner |-> <<>>]]
\* "alert_info" is not a message; its cases exercise the model (Parse . Pack) only
\* tier "p": only the real transactions and blocks of the pool, each as a tx / block message (the spec
\* parses and re-packs them: fidelity to real data; the harness takes their abstract form from this run)
PoolCases == [i \in 1..Len(Pool.tx) |-> [name |-> "tx", f |-> <<[raw |-> Pool.tx[i]]>>, inner |-> <<>>]]
             \o [i \in 1..Len(Pool.block) |-> [name |-> "block", f |-> <<[raw |-> Pool.block[i]]>>, inner |-> <<>>]]
CaseSeq == IF Tier = "p" THEN PoolCases
           ELSE FoldLeft(LAMBDA acc, m : acc \o CasesOf(m), <<>>, Append(MsgOrder, "alert_info"))
=============================================================================
