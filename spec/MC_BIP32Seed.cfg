CONSTANTS TailLens = {14, 31, 62}
SPECIFICATION Spec
INVARIANTS HexLemma SeedLemma
ACTION_CONSTRAINT Emit
CHECK_DEADLOCK FALSE
