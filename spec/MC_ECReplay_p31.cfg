CONSTANTS P = 31  A = 1  B = 28  Gx = 0  Gy = 11  N = 23  MaxM = 32
SPECIFICATION Spec
CHECK_DEADLOCK FALSE
