---------------------------- MODULE MC_CoinDecimal ----------------------------
(* Lemmas of CoinDecimal.tla where integers fit: every satoshi count 0..MaxN *)
(* and every unit 10^D, D in Ds; every amount text with an integer part of   *)
(* up to 2 digits and a fraction of up to D + 1 digits (D <= 2).                    *)
EXTENDS CoinDecimal, TLC

CONSTANTS MaxN, Ds

VARIABLES n, D
Init == n = 0 /\ D \in Ds
Next == n < MaxN /\ n' = n + 1 /\ UNCHANGED D
Spec == Init /\ [][Next]_<<n, D>>

c == SatToCoin(Digits(n), D)
\* the amount denotes n / 10^D exactly, has D fractional digits and a canonical integer part
ToCoinExact == /\ Val(c.int) * Pow10(D) + Val(c.frac) = n
               /\ Len(c.frac) = D /\ IsCanon(c.int) /\ IsDigits(c.frac)
RoundTrip   == Representable(c, D) /\ CoinToSat(c, D) = Digits(n)
DigitsOK    == IsCanon(Digits(n)) /\ Val(Digits(n)) = n

\* amounts as text: integer part i (any digits), fraction f up to D + 1 digits
Coins == {[int |-> i, frac |-> f] : i \in UNION {[1..k -> Digit] : k \in 1..2},
                                    f \in UNION {[1..k -> Digit] : k \in 0..(D + 1)}}
\* value * 10^(D+1), an integer for every such amount
Scaled(x) == Val(x.int) * Pow10(D + 1) + Val(x.frac) * Pow10(D + 1 - Len(x.frac))
ToSatExact ==
  n = 0 /\ D <= 2 => \A x \in Coins :
    /\ Representable(x, D) = (Scaled(x) % 10 = 0)
    /\ Representable(x, D) =>
         /\ Val(CoinToSat(x, D)) * 10 = Scaled(x)
         /\ IsCanon(CoinToSat(x, D))
         /\ SameCoin(SatToCoin(CoinToSat(x, D), D), x)
=============================================================================
