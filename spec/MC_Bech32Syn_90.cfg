CONSTANTS W = 90
SPECIFICATION Spec
VIEW View
INVARIANT NonZero
CHECK_DEADLOCK FALSE
