----------------------------- MODULE Trace_TxWire -----------------------------
(* Code -> spec binding for C07.  A trace is one recorded use of pycoin's     *)
(* transaction codec; TLC checks it against TxWire (serialiser, a function)   *)
(* and TxParse (parser, run here as the state machine it is, on the bytes the *)
(* implementation produced).                                                  *)
(*   kind "codec": pycoin serialised the logged fields to `bytes` (standard    *)
(*      form), `stripped` (without witness) and `input` (what was parsed:      *)
(*      the standard form, the stripped form with segwit disallowed, or the    *)
(*      standard form plus unspents extension); parsing `input` gave `parsed`, *)
(*      `punspents`; re-serialising that gave `reser`.  When `edited`: the      *)
(*      owner then changed a field of the SAME object (which had already been   *)
(*      asked for its ids) to give the fields `tx2`, and the object serialised  *)
(*      itself to `bytes2` / `stripped2`: these are the forms of the current    *)
(*      fields, and the ids of the current fields are printed for comparison.   *)
(*   kind "bytes": only `input` (a real transaction from a test vector): the   *)
(*      spec must parse it and re-serialise it byte for byte (fidelity).       *)
(*   kind "ltc": Litecoin dialect.  pycoin cannot write Litecoin's MWEB-flagged *)
(*      form, so the recorder derives `input` from pycoin's standard bytes      *)
(*      (sets flag bit 3, inserts the MWEB byte 0); TLC first checks that this  *)
(*      input IS WireLTC(tx, TRUE), then that parsing it gave `parsed` = tx     *)
(*      and that re-serialising gave the standard form of those fields.         *)
(*   kind "ltcreal": a transaction of a real Litecoin block as pycoin's block    *)
(*      parser delimited and parsed it: the spec's Litecoin parser must read    *)
(*      the same fields from the same bytes and write the bytes back.           *)
(* Accepted traces are printed with the id terms for the harness to finish    *)
(* with hashlib; rejected ones with the conjuncts that failed.                *)
EXTENDS TxParse, Json, IOUtils

Traces == JsonDeserialize(IOEnv.TRACE_FILE)
VARIABLE tid
tvars == <<tid, pvars>>
T == Traces[tid]

TInit == /\ tid \in 1..Len(Traces)
         /\ PInitD(Traces[tid].input, Traces[tid].allow, Traces[tid].kind \in {"ltc", "ltcreal"})

\* a logged unspent matches a parsed one; an entry with amount zero is not bound by the property
UnspentOk(logged, p) == IF logged.none THEN IsZero(p.amount)
                        ELSE logged.amount = p.amount /\ logged.script = p.script
AllBound(us) == \A i \in 1..Len(us) : ~IsZero(us[i].amount)

ShowIds(t) == [txid |-> [op |-> "h256d", arg |-> Show(Stripped(t))],
               wtxid |-> [op |-> "h256d", arg |-> Show(Wire(t))],
               outpoints |-> [i \in 1..Len(t.ins) |-> [hash |-> Show(t.ins[i].hash), index |-> t.ins[i].index]]]

Verdict(end, px, flags, left) ==
  IF T.kind = "codec" THEN
    [typed    |-> IsTx(T.tx),
     wire     |-> Wire(T.tx) = T.bytes,
     stripped |-> Stripped(T.tx) = T.stripped,
     bip144   |-> (T.bytes # T.stripped) <=> HasWitness(T.tx),
     input    |-> T.input = (IF T.hasus THEN WireExt(T.tx, T.us) ELSE IF T.allow THEN T.bytes ELSE T.stripped),
     end      |-> end = "done" /\ left = <<>>,
     parsed   |-> px = T.parsed /\ px = (IF T.allow THEN T.tx ELSE StripWitness(T.tx)),
     unspents |-> /\ Len(flags.unspents) = Len(T.punspents)
                  /\ \A i \in 1..Len(T.punspents) : UnspentOk(T.punspents[i], flags.unspents[i])
                  /\ T.hasus => flags.unspents = T.us,
     reser    |-> (T.hasus /\ ~AllBound(T.us)) \/ T.reser = T.input,
     edit     |-> ~T.edited \/ (IsTx(T.tx2) /\ Wire(T.tx2) = T.bytes2 /\ Stripped(T.tx2) = T.stripped2)]
  ELSE IF T.kind = "ltc" THEN
    [typed    |-> IsTx(T.tx),
     input    |-> T.input = WireLTC(T.tx, TRUE),
     end      |-> end = "done" /\ left = <<>> /\ flags.hogex /\ flags.canon /\ ~flags.superfluous /\ flags.ext = "none",
     parsed   |-> px = T.parsed /\ px = T.tx,
     unspents |-> Len(T.punspents) = 0,
     reser    |-> T.reser = Wire(T.tx)]
  ELSE IF T.kind = "ltcreal" THEN
    [end      |-> end = "done" /\ left = <<>> /\ flags.canon /\ ~flags.superfluous /\ flags.ext = "none",
     parsed   |-> px = T.parsed,
     reser    |-> WireLTC(px, flags.hogex) = T.input,
     typed    |-> IsTx(px)]
  ELSE
    [end      |-> end = "done" /\ left = <<>> /\ flags.canon /\ ~flags.superfluous /\ flags.ext = "none",
     reser    |-> Wire(px) = T.input,
     typed    |-> IsTx(px)]

AllTrue(v) == \A f \in DOMAIN v : v[f]
\* the ids of the fields after the owner's edit
ShowIds2 == IF T.kind = "codec" /\ T.edited
            THEN [txid2 |-> [op |-> "h256d", arg |-> Show(Stripped(T.tx2))], wtxid2 |-> [op |-> "h256d", arg |-> Show(Wire(T.tx2))]]
            ELSE [edited |-> FALSE]

TNext == /\ PNext /\ UNCHANGED tid
         /\ pc' \in Terminal =>
              LET v == Verdict(pc', ptx', pf', rest') IN
              IF AllTrue(v)
              THEN PrintT(ToJson([k |-> "ids", tid |-> tid] @@ ShowIds(IF T.kind \in {"codec", "ltc"} THEN T.tx ELSE ptx') @@ ShowIds2))
              ELSE PrintT(ToJson([k |-> "rej", tid |-> tid, end |-> pc', failed |-> {f \in DOMAIN v : ~v[f]}]))
TSpec == TInit /\ [][TNext]_tvars

\* how many traces TLC read (the harness compares it with how many it sent); verdicts are the
\* one-line JSON records printed above, never a pretty-printed TLA+ set
Post == PrintT(ToJson([k |-> "loaded", n |-> Len(Traces), states |-> TLCGet("distinct")]))
=============================================================================
