\* the code as it was at the pinned commit: TLC finds F15a (3 headers suffice)
CONSTANTS N = 3  W = 1  MaxAdd = 2  MaxLock = 0  AllowDup = FALSE
          MeldInterior = FALSE  SkipLocked = FALSE  KeepOnLock = FALSE
SPECIFICATION Spec
INVARIANT Canonical
INVARIANT ChainOk
CHECK_DEADLOCK FALSE
