INIT Init
NEXT Next
INVARIANTS TypeOK AddLaws MulLaws RotLaws BitLaws ByteLaws Native
CHECK_DEADLOCK FALSE
