---------------------------- MODULE X05_Trace_Units ----------------------------
(* Code -> spec binding for X05 (c): recorded seeded calls of the unit         *)
(* conversions (texts, Decimals and FLOATS - a float is logged by its exact    *)
(* decimal expansion - of random amounts up to 21e14 and beyond, with random   *)
(* over-precise tails), of the recommended fee on random transaction shapes,   *)
(* and of create_tx(fee="standard") on random requests are instances of        *)
(* X05_Units.tla.  One event per trace step; digits are integers 0..9.         *)
EXTENDS X05_Units, Json, IOUtils

Traces == JsonDeserialize(IOEnv.TRACE_FILE)
VARIABLES tid, evn
tvars == <<tid, evn>>
Ev == Traces[tid].ev

TToSat(e) == /\ e.op = "tosat" /\ IsDigits(e.int) /\ IsDigits(e.frac) /\ e.int # <<>>
             /\ \A t \in {ToSat(Amt(e.neg, e.int, e.frac), e.D)} :
                  IF e.raised = 1 THEN ~t.exact
                  ELSE IsCanon(e.rmag) /\ [neg |-> e.rneg, mag |-> e.rmag] \in t.counts
TFromSat(e) == /\ e.op = "fromsat" /\ IsCanon(e.mag)
               /\ \A c \in {FromSat(Cnt(e.neg, e.mag), e.D)} :
                    /\ SameCoin(Unsigned(c), [int |-> e.cint, frac |-> e.cfrac])
                    /\ (e.cneg = c.neg \/ IsZeroAmt(c))
                    /\ Len(e.cfrac) <= e.D
\* from_satoshi(a) + from_satoshi(b), added as Decimals by the caller: the amount of a + b
TSum(e) == /\ e.op = "sum" /\ IsCanon(e.a) /\ IsCanon(e.b)
           /\ \A s \in {AmtAdd(FromSat(Cnt(FALSE, e.a), e.D), FromSat(Cnt(FALSE, e.b), e.D))} :
                /\ SameCoin(Unsigned(s), [int |-> e.cint, frac |-> e.cfrac])
                /\ SameCoin(Unsigned(s), Unsigned(FromSat(Cnt(FALSE, AddD(e.a, e.b)), e.D)))
                /\ e.back = AddD(e.a, e.b)                 \* ... and converted back: the count of the sum
TFee(e) == /\ e.op = "fee"
           /\ TxSize(e.ins, e.outs) = e.size
           /\ Fee(e.size) = e.fee
TStd(e) == /\ e.op = "std"
           /\ LET fee == StdFee(Len(e.sps), e.scripts)
                  res == StdBuild(e.sps, e.pays, fee) IN
              /\ StdOK(e.sps, e.pays, e.scripts)
              /\ IF res.err THEN e.err = 1
                 ELSE /\ e.err = 0 /\ e.fee = fee /\ e.size = UnsignedSize(Len(e.sps), e.scripts)
                      /\ e.outs = [i \in 1..Len(e.pays) |-> res.tx.outs[i].amt]

TInit == tid \in 1..Len(Traces) /\ evn = 1
TNext == /\ evn <= Len(Ev)
         /\ LET e == Ev[evn] IN TToSat(e) \/ TFromSat(e) \/ TSum(e) \/ TFee(e) \/ TStd(e)
         /\ evn' = evn + 1 /\ UNCHANGED tid
         /\ PrintT(ToJson([k |-> "l", tid |-> tid, l |-> evn]))
         /\ (evn' = Len(Ev) + 1 => PrintT(ToJson([k |-> "acc", tid |-> tid])))
TSpec == TInit /\ [][TNext]_tvars
ASSUME PrintT(ToJson([k |-> "hdr", n |-> Len(Traces)]))
=============================================================================
