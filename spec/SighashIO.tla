------------------------------ MODULE SighashIO ------------------------------
(* Reading concrete requests (JSON, written by harness/vf/props/c04.py) into   *)
(* the vocabulary of Sighash.tla, and evaluating a blob against a logged       *)
(* table of hash values.  Every byte string is a JSON array of 0..255.         *)
(*   request  = {coin, sv, i (1-based), script, begin, sigs, ht}               *)
(*   tx       = {ver, ins: [{prev (32 bytes), idx, script, seq}],              *)
(*               outs: [{val, script}], lock, amts: [8 bytes per input]}       *)
EXTENDS Sighash

TxOfJson(t) ==
    Tx(t.ver,
       [j \in 1..Len(t.ins) |-> TxIn(Lit(t.ins[j].prev), t.ins[j].idx, t.ins[j].script, t.ins[j].seq)],
       [j \in 1..Len(t.outs) |-> TxOut(t.outs[j].val, t.outs[j].script)],
       t.lock)
\* the digest the rule book demands for request r on transaction tx whose inputs spend amts
DigestOf(r, tx, amts) ==
    Digest(r.coin, r.sv, tx, r.i, r.script, r.begin, r.sigs, amts[r.i], r.ht)
DeviationsOf(r, tx, amts) ==
    Deviations(r.coin, r.sv, tx, r.i, r.script, r.begin, r.sigs, amts[r.i], r.ht)

(* tab: sequence of [f |-> "sha256" | "sha256d", in |-> bytes, out |-> 32 bytes]: hash     *)
(* values computed outside TLC.  EvalBlob gives the bytes a blob denotes when every hash   *)
(* node's input is found in tab, and <<-1>> (never equal to a byte string) otherwise.      *)
Lookup(tab, f, x) ==
    LET S == {j \in 1..Len(tab) : tab[j].f = f /\ tab[j].in = x}
    IN IF S = {} THEN <<-1>> ELSE tab[CHOOSE j \in S : TRUE].out
RECURSIVE EvalBlob(_, _)
EvalBlob(blob, tab) ==
    IF blob = <<>> THEN <<>>
    ELSE LET c == Head(blob)
             rest == EvalBlob(Tail(blob), tab)
             me == IF c.k = "b" THEN c.v
                   ELSE IF c.k \in {"sha256", "sha256d"}
                        THEN LET x == EvalBlob(c.x, tab)
                             IN IF -1 \in {x[j] : j \in 1..Len(x)} THEN <<-1>> ELSE Lookup(tab, c.k, x)
                        ELSE <<-1>>
         IN IF me = <<-1>> \/ rest = <<-1>> THEN <<-1>> ELSE me \o rest
=============================================================================
