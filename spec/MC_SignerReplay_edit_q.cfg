CONSTANTS NK = 5  NM = 2  MaxPasses = 3  Mode = "edit"  PruneNoop = FALSE  WithPairs = FALSE
          Cases <- EditCasesQ  Shapes <- NoShapes  Coins <- AllCoins  HashTypes <- StdHashTypes
SPECIFICATION RSpec
CHECK_DEADLOCK FALSE
