---- MODULE TxBuild_TTrace_1790369723 ----
EXTENDS Sequences, TLCExt, TxBuild, Toolbox, Naturals, TLC

_expression ==
    LET TxBuild_TEExpression == INSTANCE TxBuild_TEExpression
    IN TxBuild_TEExpression!expression
----

_trace ==
    LET TxBuild_TETrace == INSTANCE TxBuild_TETrace
    IN TxBuild_TETrace!trace
----

_inv ==
    ~(
        TLCGet("level") = Len(_TETrace)
        /\
        phase = ("start")
        /\
        outs = (<<0, 0>>)
        /\
        left = (0)
        /\
        nxt = (0)
        /\
        req = ([pays |-> <<[amt |-> 0, to |-> 1], [amt |-> 0, to |-> 2]>>, sps |-> <<[amt |-> 1, src |-> 1, idx |-> 0, scr |-> 1]>>, fee |-> 0])
    )
----

_init ==
    /\ phase = _TETrace[1].phase
    /\ nxt = _TETrace[1].nxt
    /\ outs = _TETrace[1].outs
    /\ req = _TETrace[1].req
    /\ left = _TETrace[1].left
----

_next ==
    /\ \E i,j \in DOMAIN _TETrace:
        /\ \/ /\ j = i + 1
              /\ i = TLCGet("level")
        /\ phase  = _TETrace[i].phase
        /\ phase' = _TETrace[j].phase
        /\ nxt  = _TETrace[i].nxt
        /\ nxt' = _TETrace[j].nxt
        /\ outs  = _TETrace[i].outs
        /\ outs' = _TETrace[j].outs
        /\ req  = _TETrace[i].req
        /\ req' = _TETrace[j].req
        /\ left  = _TETrace[i].left
        /\ left' = _TETrace[j].left

\* Uncomment the ASSUME below to write the states of the error trace
\* to the given file in Json format. Note that you can pass any tuple
\* to `JsonSerialize`. For example, a sub-sequence of _TETrace.
    \* ASSUME
    \*     LET J == INSTANCE Json
    \*         IN J!JsonSerialize("TxBuild_TTrace_1790369723.json", _TETrace)

=============================================================================

 Note that you can extract this module `TxBuild_TEExpression`
  to a dedicated file to reuse `expression` (the module in the 
  dedicated `TxBuild_TEExpression.tla` file takes precedence 
  over the module `TxBuild_TEExpression` below).

---- MODULE TxBuild_TEExpression ----
EXTENDS Sequences, TLCExt, TxBuild, Toolbox, Naturals, TLC

expression == 
    [
        \* To hide variables of the `TxBuild` spec from the error trace,
        \* remove the variables below.  The trace will be written in the order
        \* of the fields of this record.
        phase |-> phase
        ,nxt |-> nxt
        ,outs |-> outs
        ,req |-> req
        ,left |-> left
        
        \* Put additional constant-, state-, and action-level expressions here:
        \* ,_stateNumber |-> _TEPosition
        \* ,_phaseUnchanged |-> phase = phase'
        
        \* Format the `phase` variable as Json value.
        \* ,_phaseJson |->
        \*     LET J == INSTANCE Json
        \*     IN J!ToJson(phase)
        
        \* Lastly, you may build expressions over arbitrary sets of states by
        \* leveraging the _TETrace operator.  For example, this is how to
        \* count the number of times a spec variable changed up to the current
        \* state in the trace.
        \* ,_phaseModCount |->
        \*     LET F[s \in DOMAIN _TETrace] ==
        \*         IF s = 1 THEN 0
        \*         ELSE IF _TETrace[s].phase # _TETrace[s-1].phase
        \*             THEN 1 + F[s-1] ELSE F[s-1]
        \*     IN F[_TEPosition - 1]
    ]

=============================================================================



Parsing and semantic processing can take forever if the trace below is long.
 In this case, it is advised to uncomment the module below to deserialize the
 trace from a generated binary file.

\*
\*---- MODULE TxBuild_TETrace ----
\*EXTENDS IOUtils, TxBuild, TLC
\*
\*trace == IODeserialize("TxBuild_TTrace_1790369723.bin", TRUE)
\*
\*=============================================================================
\*

---- MODULE TxBuild_TETrace ----
EXTENDS TxBuild, TLC

trace == 
    <<
    ([phase |-> "pick",outs |-> <<>>,left |-> 0,nxt |-> 0,req |-> [pays |-> <<>>, sps |-> <<[amt |-> 1, src |-> 1, idx |-> 0, scr |-> 1]>>, fee |-> 0]]),
    ([phase |-> "start",outs |-> <<0, 0>>,left |-> 0,nxt |-> 0,req |-> [pays |-> <<[amt |-> 0, to |-> 1], [amt |-> 0, to |-> 2]>>, sps |-> <<[amt |-> 1, src |-> 1, idx |-> 0, scr |-> 1]>>, fee |-> 0]])
    >>
----


=============================================================================

---- CONFIG TxBuild_TTrace_1790369723 ----
CONSTANTS
    Variant = "zero"
    MaxSum = 5
    MaxIns = 1
    MaxPays = 3
    MaxFee = 1
    ScaleKs = { 12 }
    ScaleRs = { 0 }

INVARIANT
    _inv

CHECK_DEADLOCK
    \* CHECK_DEADLOCK off because of PROPERTY or INVARIANT above.
    FALSE

INIT
    _init

NEXT
    _next

CONSTANT
    _TETrace <- _trace

ALIAS
    _expression
=============================================================================
\* Generated on Fri Sep 25 20:55:25 UTC 2026