------------------------------- MODULE MC_Bloom -------------------------------
(* Model checking of Bloom.tla: every history of at most MaxAdds insertions   *)
(* from a pool of elements, for a list of filter parameters; lemmas: no false *)
(* negative, exactly the prescribed bits, byte layout, the peer's test on the *)
(* wire bytes accepts every inserted element.                                 *)
EXTENDS Bloom, TLC

CONSTANTS Configs,    \* set of <<size, nfuncs, tweak limbs>>
          Pool,       \* set of elements (byte sequences)
          MaxAdds

(* elements used by the published vectors *)
HA == << 153, 16, 138, 216, 237, 155, 182, 39, 77, 57, 128, 186, 181, 168, 92, 4, 143, 9, 80, 200 >>
HB == << 181, 162, 199, 134, 217, 239, 70, 88, 40, 124, 237, 89, 20, 179, 122, 27, 74, 163, 46, 238 >>
HC == << 185, 48, 6, 112, 180, 197, 54, 110, 149, 178, 105, 158, 139, 24, 188, 117, 229, 247, 41, 197 >>
HP == << 117, 30, 118, 232, 25, 145, 150, 212, 84, 148, 28, 69, 209, 179, 163, 35, 241, 67, 59, 214 >>
TXH == << 121, 190, 102, 126, 249, 220, 187, 172, 85, 160, 98, 149, 206, 135, 11, 7, 2, 155, 252, 219,
          45, 206, 40, 217, 89, 242, 129, 91, 22, 248, 23, 152 >>
PUBKEY == << 4, 91, 129, 240, 1, 126, 32, 145, 226, 237, 205, 94, 236, 241, 13, 91, 221, 18, 10, 85, 20, 203,
             62, 230, 91, 132, 71, 236, 24, 191, 196, 87, 92, 109, 91, 244, 21, 229, 78, 3, 177, 6, 121, 52,
             160, 240, 186, 118, 176, 28, 107, 154, 178, 39, 20, 46, 225, 213, 67, 118, 75, 105, 217, 1, 224 >>
HPUB == << 71, 122, 187, 172, 212, 17, 63, 46, 107, 16, 5, 38, 34, 46, 237, 217, 83, 194, 106, 100 >>

PoolSmall == { << >>, << 33 >>, << 1, 2, 3, 4, 5, 6 >>, HA, HB, Outpoint(TXH, W(0, 1)) }
ConfigsSmall == { << 1, 1, <<0>> >>, << 1, 3, <<65535, 65535>> >>, << 2, 2, <<1>> >>, << 3, 5, <<0>> >>,
                  << 3, 5, <<1, 32768>> >>, << 3, 0, <<9>> >>, << 5, 11, <<5, 0, 1>> >>, << 20, 5, <<127>> >> }
ConfigsBig == ConfigsSmall \cup { << 1000, 50, <<0, 32768>> >>, << 4, 50, <<65535, 65535>> >>, << 300, 1, <<5, 0, 1>> >> }

\* teeth of the layout lemma: most-significant-bit-first bytes must violate Layout (MC_Bloom_msb.cfg)
ByteAtMSB(k) == LET o == 8 * k
                IN  128 * BitVal(o) + 64 * BitVal(o + 1) + 32 * BitVal(o + 2) + 16 * BitVal(o + 3)
                    + 8 * BitVal(o + 4) + 4 * BitVal(o + 5) + 2 * BitVal(o + 6) + BitVal(o + 7)

Init == \E c \in Configs : BInit(c[1], c[2], c[3])
Next == /\ Cardinality(added) < MaxAdds
        /\ \E it \in Pool : AddItem(it)
Spec == Init /\ [][Next]_bvars
=============================================================================
