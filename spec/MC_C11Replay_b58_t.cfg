CONSTANTS Mode = "b58"  MaxLen = 6  MaxText = 5  LongZ = 12  LongN = 90  NPay = 0  Rich = TRUE  NPat = 2  NRnd = 0
SPECIFICATION Spec
INVARIANTS Guarantee ValidBasesDecode LongFormAgrees
CHECK_DEADLOCK FALSE
