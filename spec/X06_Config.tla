------------------------------ MODULE X06_Config ------------------------------
(* X06 (3): how the process environment and the per-thread default providers   *)
(* become the layers of the transaction store - the offline part of            *)
(* pycoin.services (providers.py, env.py): no provider is ever CALLED here.    *)
(*                                                                             *)
(* The environment: PYCOIN_CACHE_DIR (a directory or unset / empty),           *)
(* PYCOIN_TX_DB_DIRS (directories separated by ":", empty pieces ignored),     *)
(* PYCOIN_<NET>_PROVIDERS (provider descriptors separated by blanks).          *)
(* A descriptor names a provider KIND (the documented spellings in             *)
(* providers.py's comments: blockchain.info, blockexplorer.com,                *)
(* blockcypher.com, chain.so, insight:<url>, btgexp.com); a word that is no    *)
(* descriptor is skipped with a warning, the others keep their order.          *)
(* Each THREAD has its own table network -> default provider list: the         *)
(* providers a thread set are what that thread gets back (those objects, in    *)
(* that order), whatever other threads set; without one the list comes from    *)
(* the environment.                                                            *)
(* The store built for a network (get_tx_db) has                               *)
(*   read-only directories = the pieces of PYCOIN_TX_DB_DIRS, in order,        *)
(*   writable directory    = <PYCOIN_CACHE_DIR>/txs, if a cache dir is set,    *)
(*   lookup methods        = the transaction lookups of the thread's default   *)
(*                           providers that HAVE one, in list order.           *)
(* A provider is abstract here: [id, kind, tx, sp]: does it offer a lookup of  *)
(* transactions (tx), of spendables (sp).                                      *)
EXTENDS Integers, Sequences, SequencesExt, FiniteSets, TLC

CONSTANTS Threads, Nets,
          Descr,        \* Descr[word] = kind for the descriptor words; other words are unknown
          KindInfo,     \* KindInfo[kind] = [tx, sp]
          Words,        \* the words an environment string is made of
          EnvStrings,   \* the PYCOIN_<NET>_PROVIDERS values tried (sequences of words)
          DirLists,     \* the PYCOIN_TX_DB_DIRS values tried: sequences of pieces ("" = an empty piece)
          CacheVals,    \* the PYCOIN_CACHE_DIR values tried ("" = unset)
          Lists         \* the provider lists a thread may set: sequences of [id, kind, tx, sp]

Known(w) == w \in DOMAIN Descr
\* the kinds a configuration string denotes
ParseKinds(ws) == [j \in 1..Len(SelectSeq(ws, Known)) |-> Descr[SelectSeq(ws, Known)[j]]]
Warned(ws) == SelectSeq(ws, LAMBDA w : ~Known(w))
FromKind(k) == [id |-> 0, kind |-> k, tx |-> KindInfo[k].tx, sp |-> KindInfo[k].sp]
FromEnv(ws) == [j \in 1..Len(ParseKinds(ws)) |-> FromKind(ParseKinds(ws)[j])]

RoDirs(dl) == SelectSeq(dl, LAMBDA p : p # "")
HasCache(c) == c # ""
\* the shape of the store, in X06_TxStore's terms, and which providers stand behind its lookup methods
StoreOf(dl, c, provs) == [nro |-> Len(RoDirs(dl)), w |-> HasCache(c), nl |-> Len(SelectSeq(provs, LAMBDA p : p.tx)),
                          ro |-> RoDirs(dl), lookups |-> SelectSeq(provs, LAMBDA p : p.tx)]

VARIABLES env,      \* [cache, dirs, prov]: prov[net] = the words of PYCOIN_<net>_PROVIDERS
          tl,       \* tl[th][net] = [set |-> "no"] | [set |-> "byset" | "byenv", list |-> ...]
          last, n
cvars == <<env, tl, last, n>>
Unset == [set |-> "no", list |-> <<>>]

CInit == /\ env = [cache |-> "", dirs |-> <<>>, prov |-> [x \in Nets |-> <<>>]]
         /\ tl = [th \in Threads |-> [x \in Nets |-> Unset]]
         /\ last = [op |-> "init"] /\ n = 0

SetCache(c) == /\ env' = [env EXCEPT !.cache = c] /\ last' = [op |-> "setcache", c |-> c]
               /\ UNCHANGED tl /\ n' = n + 1
SetDirs(dl) == /\ env' = [env EXCEPT !.dirs = dl] /\ last' = [op |-> "setdirs", dl |-> dl]
               /\ UNCHANGED tl /\ n' = n + 1
\* (whether a list once taken from the environment follows later changes of the environment is left open:
\*  the variable is only changed for a network no thread has taken its list from yet)
SetProv(net, ws) == /\ \A th \in Threads : tl[th][net].set # "byenv"
                    /\ env' = [env EXCEPT !.prov[net] = ws] /\ last' = [op |-> "setprov", net |-> net, ws |-> ws]
                    /\ UNCHANGED tl /\ n' = n + 1
SetDefault(th, net, lst) == /\ tl' = [tl EXCEPT ![th][net] = [set |-> "byset", list |-> lst]]
                            /\ last' = [op |-> "setdefault", th |-> th, net |-> net, lst |-> lst]
                            /\ UNCHANGED env /\ n' = n + 1
Current(th, net) == IF tl[th][net].set = "no" THEN FromEnv(env.prov[net]) ELSE tl[th][net].list
Touch(th, net) == IF tl[th][net].set = "no" THEN [tl EXCEPT ![th][net] = [set |-> "byenv", list |-> FromEnv(env.prov[net])]] ELSE tl
GetDefault(th, net) == /\ tl' = Touch(th, net)
                       /\ last' = [op |-> "getdefault", th |-> th, net |-> net, lst |-> Current(th, net),
                                   same |-> tl[th][net].set = "byset",            \* the very provider objects that were set
                                   warned |-> IF tl[th][net].set = "no" THEN Warned(env.prov[net]) ELSE <<>>]
                       /\ UNCHANGED env /\ n' = n + 1
MakeDb(th, net) == /\ tl' = Touch(th, net)
                   /\ last' = [op |-> "makedb", th |-> th, net |-> net, store |-> StoreOf(env.dirs, env.cache, Current(th, net)),
                               msg_cache |-> ~HasCache(env.cache),
                               msg_tx |-> \A j \in 1..Len(Current(th, net)) : ~Current(th, net)[j].tx,
                               msg_sp |-> \A j \in 1..Len(Current(th, net)) : ~Current(th, net)[j].sp]
                   /\ UNCHANGED env /\ n' = n + 1

\* ----------------------------------------------------------------- lemmas
\* threads do not see each other's lists
Isolated == [][\A th \in Threads : \A x \in Nets :
                 (last'.op \in {"setdefault", "getdefault", "makedb"} /\ last'.th # th) => tl'[th][x] = tl[th][x]]_cvars
\* what was set is what comes back
SetGet == (last.op = "getdefault" /\ last.same) => tl[last.th][last.net] = [set |-> "byset", list |-> last.lst]
\* the store never has more lookup methods than providers, keeps their order, and skips providers without a lookup
Lookups == last.op = "makedb" =>
             /\ \A j \in 1..Len(last.store.lookups) : last.store.lookups[j].tx
             /\ last.store.nl = Cardinality({j \in 1..Len(Current(last.th, last.net)) : Current(last.th, last.net)[j].tx})
             /\ last.msg_tx <=> last.store.nl = 0
\* parsing keeps order and drops exactly the unknown words
ParseLemma == \A ws \in EnvStrings : Len(ParseKinds(ws)) + Len(Warned(ws)) = Len(ws)
=============================================================================
