--------------------------- MODULE MC_BIP32Session ---------------------------
(* Bounded sessions of BIP32Session (C09): every order of derivations, public *)
(* copies and path-string look-ups, up to MaxOps calls, on objects that       *)
(* memoise.  Invariant: memoisation is transparent.  The same module exports  *)
(* every session for replay on pycoin (ACTION_CONSTRAINT Emit in *_rp*.cfg).  *)
EXTENDS BIP32Session, Json
CONSTANTS Values,       \* child values v
          Wants,        \* subset of {"prv", "pub", "dflt"}
          PathSet,      \* name of the set of path strings offered
          MaxOps, SeedLen
VARIABLES n, hist       \* calls made; their list (hist is excluded from the VIEW)
svars == <<objs, res, pure, n, hist>>
View == <<objs, res, pure, n>>

Seed == Sym("seed", SeedLen)
Indices == {Idx(h, v) : h \in BOOLEAN, v \in Values}
PathStrings == CASE PathSet = "none" -> {}
           [] PathSet = "small" -> { <<"0", "H", "/", "1">>, <<"0", "/", "1", "p", ".", "p", "u", "b">>, <<"1">>, <<>>, <<".", "p", "u", "b">> }
           [] PathSet = "marks" -> { <<"0", "H">>, <<"0", "p">>, <<"0", "'">>, <<"0">>, <<"0", "H", "/", "0">>, <<"0", "'", "/", "0", ".", "p", "u", "b">> }

Init == SInit(Seed) /\ n = 0 /\ hist = <<>>
Next == /\ n < MaxOps /\ n' = n + 1
        /\ \E o \in 1..Len(objs) :
             \/ \E ix \in Indices, w \in Wants :
                  SDerive(o, ix, w) /\ hist' = Append(hist, [op |-> "derive", o |-> o, ix |-> ix, want |-> w, res |-> res'])
             \/ SCopy(o) /\ hist' = Append(hist, [op |-> "copy", o |-> o, res |-> res'])
             \/ \E s \in PathStrings :
                  SForPath(o, s) /\ hist' = Append(hist, [op |-> "path", o |-> o, s |-> s, res |-> res'])
Spec == Init /\ [][Next]_svars

CacheTransparent == CacheTransparentFor(Seed)
RootsAreDistinct == RootsDiffer(Seed)
\* a memo entry points to an object that is the derivation it is filed under (only meaningful for KeyMode = "full")
MemoSound == \A o \in 1..Len(objs) : \A e \in objs[o].cache :
   /\ e[2] \in 1..Len(objs)
   /\ objs[e[2]].node = Derive(objs[o].node, Idx(e[1][2], e[1][1]), e[1][3])
\* nothing is ever private below a public object
PublicStaysPublic == \A o \in 1..Len(objs) : \A e \in objs[o].cache :
   ~IsPrivate(objs[o].node) => ~IsPrivate(objs[e[2]].node)
ResOk == res \in 0..Len(objs)

Emit == PrintT(ToJson([k |-> "sess", ops |-> hist', defs |-> [o \in 1..Len(objs') |-> objs'[o].def]]))
=============================================================================
