------------------------------ MODULE SighashTx ------------------------------
(* Vocabulary of the signature-hash rule book (C04): byte strings, the        *)
(* "blob" representation of byte strings that contain not-yet-evaluated       *)
(* hashes, the abstract transaction record with its consensus serialisation,  *)
(* and the two script-rewriting procedures the legacy algorithm uses          *)
(* (FindAndDelete, OP_CODESEPARATOR removal), each stated twice: as the       *)
(* pointer walk of Bitcoin Core's script.cpp / interpreter.cpp and as a       *)
(* filter over the instruction list.  MC_SighashScript checks the two agree.  *)
(*                                                                            *)
(* Integers wider than 31 bits never occur: version, lock time, sequence,     *)
(* output index are 4-byte and amounts 8-byte little-endian byte sequences.   *)
EXTENDS Integers, Sequences, SequencesExt

----------------------------------------------------------------------------
(* bytes *)
Byte == 0..255
Rep(b, n) == [j \in 1..n |-> b]
Zero4 == Rep(0, 4)
FF8 == Rep(255, 8)
Zero32 == Rep(0, 32)
LE16(n) == <<n % 256, (n \div 256) % 256>>
LE32(n) == <<n % 256, (n \div 256) % 256, (n \div 65536) % 256, (n \div 16777216) % 256>>
\* Satoshi "compact size" (the 9-byte form cannot occur for lengths TLC can represent)
CompactSize(n) == IF n < 253 THEN <<n>>
                  ELSE IF n < 65536 THEN <<253>> \o LE16(n)
                  ELSE <<254>> \o LE32(n)
VarBytes(bs) == CompactSize(Len(bs)) \o bs

----------------------------------------------------------------------------
(* Blobs: a byte string some of whose 32-byte stretches are hashes that TLC   *)
(* does not compute.  A blob is a sequence of chunks                           *)
(*    [k |-> "b",      v |-> bytes, x |-> <<>>]   literal bytes (non-empty)    *)
(*    [k |-> "sym",    v |-> <<n>>, x |-> <<>>]   the n-th symbolic 32-byte id *)
(*    [k |-> "sha256", v |-> <<>>,  x |-> blob]   SHA256(blob)        32 bytes *)
(*    [k |-> "sha256d",v |-> <<>>,  x |-> blob]   SHA256(SHA256(blob))         *)
(* kept in normal form (no empty literal, no two adjacent literals) so that    *)
(* equality of blobs is equality of the byte strings they denote, provided    *)
(* the hash functions are collision free and symbolic ids are distinct and    *)
(* different from every digest (the stated assumption of the C04 lemmas).      *)
Lit(bs) == IF bs = <<>> THEN <<>> ELSE << [k |-> "b", v |-> bs, x |-> <<>>] >>
Sym(n) == << [k |-> "sym", v |-> <<n>>, x |-> <<>>] >>
Hash(f, blob) == << [k |-> f, v |-> <<>>, x |-> blob] >>
Cat2(a, b) ==
    IF a = <<>> THEN b
    ELSE IF b = <<>> THEN a
    ELSE IF Last(a).k = "b" /\ Head(b).k = "b"
         THEN Front(a) \o << [k |-> "b", v |-> Last(a).v \o Head(b).v, x |-> <<>>] >> \o Tail(b)
         ELSE a \o b
Cat(parts) == FoldLeft(Cat2, <<>>, parts)
RECURSIVE BlobLen(_)
BlobLen(blob) == IF blob = <<>> THEN 0
                 ELSE (IF Head(blob).k = "b" THEN Len(Head(blob).v) ELSE 32) + BlobLen(Tail(blob))

----------------------------------------------------------------------------
(* The abstract transaction (TxWire of DESIGN.md section 3, the part C04 needs) *)
(*   tx   = [ver: 4 bytes, ins: Seq(in), outs: Seq(out), lock: 4 bytes]        *)
(*   in   = [prev: blob of 32 bytes, idx: 4 bytes, script: bytes, seq: 4 bytes] *)
(*   out  = [val: 8 bytes, script: bytes]                                      *)
TxIn(prev, idx, script, seq) == [prev |-> prev, idx |-> idx, script |-> script, seq |-> seq]
TxOut(val, script) == [val |-> val, script |-> script]
Tx(ver, ins, outs, lock) == [ver |-> ver, ins |-> ins, outs |-> outs, lock |-> lock]
NullOut == TxOut(FF8, <<>>)                      \* CTxOut::SetNull(): value -1, empty script

SerOutPoint(in) == Cat2(in.prev, Lit(in.idx))
SerIn(in) == Cat(<<in.prev, Lit(in.idx \o VarBytes(in.script) \o in.seq)>>)
SerOut(o) == Lit(o.val \o VarBytes(o.script))
\* serialisation without witness data (what txid and the legacy signature hash use)
SerTx(tx) == Cat(<<Lit(tx.ver \o CompactSize(Len(tx.ins)))>>
                 \o [j \in 1..Len(tx.ins) |-> SerIn(tx.ins[j])]
                 \o <<Lit(CompactSize(Len(tx.outs)))>>
                 \o [j \in 1..Len(tx.outs) |-> SerOut(tx.outs[j])]
                 \o <<Lit(tx.lock)>>)

----------------------------------------------------------------------------
(* Script instructions (CScript::GetOp) *)
OP_PUSHDATA1 == 76
OP_PUSHDATA2 == 77
OP_PUSHDATA4 == 78
OP_CODESEPARATOR == 171

\* index just after the instruction that starts at pc (1-based); 0 when its
\* push data runs past the end of the script (GetOp returns false)
NextPc(s, pc) ==
    LET n == Len(s)
        b == s[pc]
    IN CASE b >= 1 /\ b <= 75 -> IF pc + b <= n THEN pc + 1 + b ELSE 0
         [] b = OP_PUSHDATA1 ->
              IF pc + 1 <= n /\ pc + 1 + s[pc + 1] <= n THEN pc + 2 + s[pc + 1] ELSE 0
         [] b = OP_PUSHDATA2 ->
              IF pc + 2 <= n /\ pc + 2 + s[pc + 1] + 256 * s[pc + 2] <= n
              THEN pc + 3 + s[pc + 1] + 256 * s[pc + 2] ELSE 0
         [] b = OP_PUSHDATA4 ->
              IF pc + 4 <= n /\ s[pc + 4] < 64
                 /\ pc + 4 + s[pc + 1] + 256 * s[pc + 2] + 65536 * s[pc + 3] + 16777216 * s[pc + 4] <= n
              THEN pc + 5 + s[pc + 1] + 256 * s[pc + 2] + 65536 * s[pc + 3] + 16777216 * s[pc + 4] ELSE 0
         [] OTHER -> pc + 1

\* the instruction list; a truncated last instruction is kept as one (undeletable) element
RECURSIVE OpsFrom(_, _)
OpsFrom(s, pc) ==
    IF pc > Len(s) THEN <<>>
    ELSE LET nx == NextPc(s, pc)
         IN IF nx = 0 THEN <<SubSeq(s, pc, Len(s))>>
            ELSE <<SubSeq(s, pc, nx - 1)>> \o OpsFrom(s, nx)
Ops(s) == OpsFrom(s, 1)
RECURSIVE WellFormedFrom(_, _)
WellFormedFrom(s, pc) == IF pc > Len(s) THEN TRUE
                         ELSE LET nx == NextPc(s, pc) IN nx # 0 /\ WellFormedFrom(s, nx)
WellFormed(s) == WellFormedFrom(s, 1)
Flatten(ss) == FoldLeft(LAMBDA a, b : a \o b, <<>>, ss)

\* CScript() << vch : the push the interpreter builds from a stack element.  The
\* opcode is chosen by SIZE only (a one-byte element 0x05 becomes 01 05, never OP_5;
\* the empty element becomes the single byte 00).
PushOf(d) ==
    LET n == Len(d)
    IN IF n < 76 THEN <<n>> \o d
       ELSE IF n <= 255 THEN <<OP_PUSHDATA1, n>> \o d
       ELSE IF n <= 65535 THEN <<OP_PUSHDATA2>> \o LE16(n) \o d
       ELSE <<OP_PUSHDATA4>> \o LE32(n) \o d

----------------------------------------------------------------------------
(* FindAndDelete(script, b) as in Core's interpreter.cpp:                     *)
(*   do { result += [pc2, pc);                                                *)
(*        while (end - pc >= |b| && equal(b, pc)) pc += |b|;                  *)
(*        pc2 = pc;                                                           *)
(*   } while (script.GetOp(pc, opcode));                                      *)
(*   result += [pc2, end)                                                     *)
RECURSIVE SkipMatches(_, _, _)
SkipMatches(s, b, pc) ==
    IF Len(s) - (pc - 1) >= Len(b) /\ SubSeq(s, pc, pc + Len(b) - 1) = b
    THEN SkipMatches(s, b, pc + Len(b))
    ELSE pc
RECURSIVE FADLoop(_, _, _, _, _)
FADLoop(s, b, pc, pc2, acc) ==
    LET acc1 == acc \o SubSeq(s, pc2, pc - 1)
        pcm == SkipMatches(s, b, pc)
        nx == IF pcm > Len(s) THEN 0 ELSE NextPc(s, pcm)
    IN IF nx = 0 THEN acc1 \o SubSeq(s, pcm, Len(s))
       ELSE FADLoop(s, b, nx, pcm, acc1)
FindAndDelete(s, b) == IF b = <<>> THEN s ELSE FADLoop(s, b, 1, 1, <<>>)
\* the same as a filter: drop every instruction whose bytes are exactly b
FindAndDeleteF(s, b) == Flatten(SelectSeq(Ops(s), LAMBDA o : o # b))

(* Removal of OP_CODESEPARATOR by CTransactionSignatureSerializer::           *)
(* SerializeScriptCode: walk the instructions, on each separator write        *)
(* [itBegin, it-1) and restart after it; finally write [itBegin, end).        *)
RECURSIVE SCLoop(_, _, _, _)
SCLoop(s, it, itBegin, acc) ==
    LET nx == IF it > Len(s) THEN 0 ELSE NextPc(s, it)
    IN IF nx = 0 THEN acc \o SubSeq(s, itBegin, Len(s))
       ELSE IF s[it] = OP_CODESEPARATOR THEN SCLoop(s, nx, nx, acc \o SubSeq(s, itBegin, nx - 2))
       ELSE SCLoop(s, nx, itBegin, acc)
StripCodeSep(s) == SCLoop(s, 1, 1, <<>>)
StripCodeSepF(s) == Flatten(SelectSeq(Ops(s), LAMBDA o : o # <<OP_CODESEPARATOR>>))
=============================================================================
