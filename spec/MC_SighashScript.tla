--------------------------- MODULE MC_SighashScript ---------------------------
(* The two script rewritings of the legacy signature hash, checked on EVERY    *)
(* byte string over Alphabet up to length MaxLen (well formed or truncated):   *)
(* Core's pointer walks (FindAndDelete, SerializeScriptCode) equal the         *)
(* instruction filters, and the algebra the sighash relies on holds.           *)
(* One TLC state = one script; Extend appends a byte.                          *)
EXTENDS SighashTx, TLC

CONSTANTS Alphabet, MaxLen

\* stack elements whose pushes are searched for: empty (00), 01 AB, 02 00 AB, 01 01
Sigs == {<<>>, <<171>>, <<0, 171>>, <<1>>}
Pats == {PushOf(d) : d \in Sigs}

VARIABLE s
Init == s = <<>>
Extend(b) == Len(s) < MaxLen /\ s' = Append(s, b)
Next == \E b \in Alphabet : Extend(b)
Spec == Init /\ [][Next]_s

Count(seq, x) == Len(SelectSeq(seq, LAMBDA o : o = x))

WalkIsFilter ==
    /\ \A p \in Pats : FindAndDelete(s, p) = FindAndDeleteF(s, p)
    /\ StripCodeSep(s) = StripCodeSepF(s)
Parsing ==
    /\ Flatten(Ops(s)) = s
    /\ WellFormed(s) <=> (\A k \in 1..Len(Ops(s)) :
                             LET o == Ops(s)[k] IN NextPc(o, 1) = Len(o) + 1)
Accounting ==
    /\ \A p \in Pats : Len(FindAndDelete(s, p)) = Len(s) - Len(p) * Count(Ops(s), p)
    /\ Len(StripCodeSep(s)) = Len(s) - Count(Ops(s), <<OP_CODESEPARATOR>>)
    /\ FindAndDelete(s, <<>>) = s
Algebra ==
    /\ \A p \in Pats : LET r == FindAndDelete(s, p)
                       IN /\ FindAndDelete(r, p) = r
                          /\ Count(Ops(r), p) = 0
                          /\ WellFormed(s) => WellFormed(r)
                          /\ StripCodeSep(r) = FindAndDelete(StripCodeSep(s), p)
    /\ \A p, q \in Pats : FindAndDelete(FindAndDelete(s, p), q) = FindAndDelete(FindAndDelete(s, q), p)
    /\ LET r == StripCodeSep(s)
       IN StripCodeSep(r) = r /\ Count(Ops(r), <<OP_CODESEPARATOR>>) = 0 /\ (WellFormed(s) => WellFormed(r))
\* data inside a push is never touched: a script that is one push survives both rewritings
\* unless the whole push is the pattern
PushIsAtomic ==
    (s # <<>> /\ Len(Ops(s)) = 1 /\ s # <<OP_CODESEPARATOR>>) =>
        /\ StripCodeSep(s) = s
        /\ \A p \in Pats : FindAndDelete(s, p) = IF s = p THEN <<>> ELSE s
\* the push built from a stack element is one well-formed instruction carrying it
ASSUME PushOfLemma == \A n \in {0, 1, 9, 72, 73, 75, 76, 77, 255, 256, 520} :
                   LET d == Rep(7, n)
                       p == PushOf(d)
                   IN /\ Len(Ops(p)) = 1 /\ WellFormed(p)
                      /\ SubSeq(p, Len(p) - n + 1, Len(p)) = d
                      /\ Len(p) = n + (IF n < 76 THEN 1 ELSE IF n < 256 THEN 2 ELSE 3)
=============================================================================
