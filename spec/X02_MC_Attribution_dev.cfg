CONSTANTS NK = 5  NM = 2  MaxPasses = 1  MaxSteps = 1  MaxInserts = 1  EditFrom = "signed"  MutSet = "all"
          Shapes <- NoShapes  Coins <- AllCoins  HashTypes <- StdHashTypes  Cases <- CasesDev
SPECIFICATION MSpec
INVARIANTS CandidatesCover AttributionIsSigned CommitmentInvariance NoInvention RetagKills TransplantKills OpenOnlyInCorner ValidIffAttributed
CHECK_DEADLOCK FALSE
