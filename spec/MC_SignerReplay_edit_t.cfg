CONSTANTS NK = 5  NM = 2  MaxPasses = 3  Mode = "edit_all"  PruneNoop = FALSE  WithPairs = FALSE
          Cases <- EditCasesT  Shapes <- NoShapes  Coins <- AllCoins  HashTypes <- StdHashTypes
SPECIFICATION RSpec
CHECK_DEADLOCK FALSE
