----------------------------- MODULE MC_P2PCodec -----------------------------
(* The field codecs of P2PMsg one by one.  For every type letter (except T    *)
(* and B, which need the transaction parser and are exercised by              *)
(* MC_P2PReplay) and every boundary value v of its type (P2PGrid.Bnd):        *)
(*   Read(l, PackVal(l, v) ++ tail) = <v, tail>      (decode . encode = id,   *)
(*                                                    nothing of tail eaten)  *)
(*   Size(PackVal(l, v)) = Width(l, v)               (widths of the standard) *)
(* and the properties that pin the byte order: a little-endian integer's      *)
(* first byte is its low byte, a port's first byte is its HIGH byte, a        *)
(* compact size changes width exactly at 253, 2^16 and 2^32, an IPv4 address  *)
(* sits behind ten 00 and two ff bytes.                                       *)
(* Each value is printed with its encoding for the harness to run through     *)
(* the library's codec of the same letter; the layouts are printed once.      *)
EXTENDS P2PGrid

CONSTANT Emit

Letters == <<"L", "Q", "6", "I", "1", "b", "O", "h", "S", "#", "@", "A", "v", "z">>
Tails(l) == IF l = "O" THEN {<<>>} ELSE {<<>>, Lit(<<170>>), Lit(<<0, 253>>)}

VARIABLES li, vs, i
cvars == <<li, vs, i>>
Init == li \in 1..Len(Letters) /\ vs = SetToSeq(Bnd(Letters[li])) /\ i = 0
Rec == [k |-> "codec", l |-> Letters[li], v |-> ShowVal(Letters[li], vs[i']),
        bytes |-> Show(PackVal(Letters[li], vs[i']))]
Next == /\ i < Len(vs) /\ i' = i + 1 /\ UNCHANGED <<li, vs>>
        /\ Emit => PrintT(ToJson(Rec))
Spec == Init /\ [][Next]_cvars

L == Letters[li]
V == vs[i]
RoundTrip == i > 0 => \A t \in Tails(L) : Read(L, Cat(PackVal(L, V), t)) = Ok(V, t)
Widths    == i > 0 => Size(PackVal(L, V)) = Width(L, V) /\ WellFormed(PackVal(L, V))
Typed     == i > 0 => IsVal(L, V)
\* truncation: every proper prefix of an encoding is rejected (not read as a shorter value),
\* except that the optional flag may be absent
Truncated == (i > 0 /\ L # "O") => \A n \in 0..(Size(PackVal(L, V)) - 1) :
                 (n < 70 \/ n > Size(PackVal(L, V)) - 3) => ~Read(L, Take(PackVal(L, V), n)).ok
ByteOrder == i > 0 =>
   LET e == PackVal(L, V) IN
   /\ L \in {"L", "Q", "6"} => ByteAt(e, 1) = V[1] % 256 /\ ByteAt(e, Size(e)) = V[Len(V)] \div 256
   /\ L = "h" => ByteAt(e, 1) = V \div 256 /\ ByteAt(e, 2) = V % 256
   /\ L = "A" => ByteAt(e, 25) = V.port \div 256 /\ ByteAt(e, 26) = V.port % 256 /\ ByteAt(e, 1) = V.services[1] % 256
   /\ L = "v" => ByteAt(e, 1) = V.type[1] % 256 /\ ByteAt(e, 4) = V.type[2] \div 256 /\ Drop(e, 4) = V.hash
   /\ L = "z" => ByteAt(e, 1) = V.version[1] % 256 /\ Take(Drop(e, 4), 32) = V.prev /\ Take(Drop(e, 36), 32) = V.merkle
                 /\ ByteAt(e, 69) = V.time[1] % 256 /\ ByteAt(e, 73) = V.bits[1] % 256 /\ ByteAt(e, 80) = V.nonce[2] \div 256
   /\ L = "I" => LET t == Trim(V) IN
                 Size(e) = (IF Len(t) = 0 \/ (Len(t) = 1 /\ t[1] < 253) THEN 1 ELSE IF Len(t) = 1 THEN 3 ELSE IF Len(t) = 2 THEN 5 ELSE 9)
                 /\ (Size(e) > 1 => ByteAt(e, 1) = (IF Size(e) = 3 THEN 253 ELSE IF Size(e) = 5 THEN 254 ELSE 255))
   /\ L = "S" => Drop(e, Size(e) - Size(V)) = V

ASSUME V4Law == /\ V4(10, 0, 0, 1) = Lit(<<0, 0, 0, 0, 0, 0, 0, 0, 0, 0, 255, 255, 10, 0, 0, 1>>)
                /\ IsV4(V4(1, 2, 3, 4)) /\ V4Octets(V4(1, 2, 3, 4)) = <<1, 2, 3, 4>>
                /\ ~IsV4(V6Example) /\ ~IsV4(Run(0, 16)) /\ Size(V4Prefix) = 12
ASSUME HeaderLaw == Size(SerHeader(H0)) = 80
\* the witness flag of inventory types is bit 30 (BIP144)
ASSUME InvLaw == PackVal("v", [type |-> <<1, 16384>>, hash |-> Run(0, 32)]) = Cat(Lit(<<1, 0, 0, 64>>), Run(0, 32))

\* ---------------------------------------------------------------- deliberately wrong codecs (MC_P2PCodec_mut_*.cfg
\* substitute them): each must violate a lemma above, which shows the lemmas are not vacuous
PortLE(p) == Lit(<<p % 256, p \div 256>>)                                   \* port in host (little-endian) order
CSNumMut(x) == LET t == Trim(x) IN                                          \* one-byte form up to 253 instead of 252
  IF Len(t) <= 1 /\ NatOf(t) < 254 THEN Lit(<<NatOf(t)>>)
  ELSE IF Len(t) <= 1 THEN Cat(Lit(<<253>>), LE16(Limbs(NatOf(t), 1)))
  ELSE IF Len(t) <= 2 THEN Cat(Lit(<<254>>), LE16(<<t[1], t[2]>>))
  ELSE Cat(Lit(<<255>>), LE16([j \in 1..4 |-> IF j <= Len(t) THEN t[j] ELSE 0]))
V4PrefixBad == Cat(Run(0, 11), Run(255, 1))                                 \* ::ff:0:0/96

ASSUME Layouts == Emit => \A m \in Messages \cup {"alert_info"} :
   PrintT(ToJson([k |-> "layout", name |-> m,
                  fields |-> [j \in 1..NFields(m) |-> [n |-> Layout(m)[j].name, t |-> TypeText(Layout(m)[j].ty)]]]))
=============================================================================
