CONSTANTS MaxSteps = 2  MaxInserts = 1  Mode = "replay"  Cases <- CasesPairsQ
SPECIFICATION RSpec
CHECK_DEADLOCK FALSE
