------------------------------- MODULE Murmur3 -------------------------------
(* MurmurHash3_x86_32 (Austin Appleby, MurmurHash3.cpp), the hash BIP37 uses  *)
(* for Bloom filters, on the 16-bit-limb words of Word32:                     *)
(*                                                                           *)
(*   h1 = seed                                                               *)
(*   body : for every complete 4-byte block, read as a LITTLE-endian word k1: *)
(*          k1 *= c1; k1 = rotl(k1,15); k1 *= c2;                             *)
(*          h1 ^= k1; h1 = rotl(h1,13); h1 = h1*5 + 0xe6546b64                *)
(*   tail : the remaining 1..3 bytes form k1 (first tail byte least           *)
(*          significant): k1 *= c1; k1 = rotl(k1,15); k1 *= c2; h1 ^= k1      *)
(*          (no rotation of h1, no multiply-add; nothing at all for 0 bytes)  *)
(*   final: h1 ^= len; fmix32: h ^= h>>16; h *= 0x85ebca6b; h ^= h>>13;       *)
(*          h *= 0xc2b2ae35; h ^= h>>16                                       *)
(* All arithmetic is modulo 2^32 on unsigned words.  The seed is a uint32: a  *)
(* caller's wider integer is reduced modulo 2^32 (LimbsToWord).               *)
EXTENDS Word32, SequencesExt

MurC1 == W(52382, 11601)      \* 0xcc9e2d51
MurC2 == W(7047, 13715)       \* 0x1b873593
MurN  == W(58964, 27492)      \* 0xe6546b64
MurF1 == W(34283, 51819)      \* 0x85ebca6b
MurF2 == W(49842, 44597)      \* 0xc2b2ae35
Five  == W(0, 5)

MurScramble(k) == Mul32(Rol(Mul32(k, MurC1), 15), MurC2)
MurBody(hh, k) == Add(Mul32(Rol(WXor(hh, MurScramble(k)), 13), Five), MurN)
MurFmix(h0) ==
  LET h1 == WXor(h0, Shr(h0, 16))
      h2 == Mul32(h1, MurF1)
      h3 == WXor(h2, Shr(h2, 13))
      h4 == Mul32(h3, MurF2)
  IN  WXor(h4, Shr(h4, 16))

\* the state after the first nb body blocks of data: a left fold over the block indices
\* (FoldLeftDomain is evaluated iteratively by TLC, so long inputs do not nest)
MurBlocks(data, seedw, nb) ==
  FoldLeftDomain(LAMBDA hh, i : MurBody(hh, WordAtLE(data, i)), seedw, [i \in 1..nb |-> i])

\* the 0..3 tail bytes as a word, first tail byte least significant
MurTailWord(data) ==
  LET n == Len(data)  b == 4 * (n \div 4)  t == n % 4
  IN  WordLE(IF t >= 1 THEN data[b + 1] ELSE 0,
             IF t >= 2 THEN data[b + 2] ELSE 0,
             IF t >= 3 THEN data[b + 3] ELSE 0, 0)

\* data: sequence of bytes (length < 2^31); seedw: a word.  Result: a word.
Murmur3W(data, seedw) ==
  LET n  == Len(data)
      hb == MurBlocks(data, seedw, n \div 4)
      ht == IF n % 4 = 0 THEN hb ELSE WXor(hb, MurScramble(MurTailWord(data)))
  IN  MurFmix(WXor(ht, WordOfNat(n)))

\* the seed as the caller passes it: a natural number of any width, given as a
\* little-endian sequence of 16-bit limbs
Murmur3(data, seedlimbs) == Murmur3W(data, LimbsToWord(seedlimbs))
=============================================================================
