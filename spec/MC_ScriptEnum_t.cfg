CONSTANTS MaxIns = 4  MaxStack = 3  Mode = "main"  FreePushes = FALSE
SPECIFICATION ESpec
VIEW View
INVARIANT TypeOK
INVARIANT PcInScript
CHECK_DEADLOCK FALSE
