------------------------------ MODULE ExtKeyText ------------------------------
(* Text form of extended keys per network (C09): version bytes, the three     *)
(* families (BIP32 x.., BIP49 y.., BIP84 z..), parsing by prefix, round trip.  *)
(*                                                                            *)
(* Versions: the four bytes in front of the 74-byte body.  BTC/XTN/LTC values *)
(* are those of BIP32 and SLIP-132 (xprv 0488ADE4 xpub 0488B21E, yprv         *)
(* 049D7878 ypub 049D7CB2, zprv 04B2430C zpub 04B24746, tprv 04358394 tpub    *)
(* 043587CF, uprv 044A4E28 upub 044A5262, vprv 045F18BC vpub 045F1CF6, Ltpv    *)
(* 019D9CFE Ltub 019DA462, Mtpv 01B26792 Mtub 01B26EF6); the other networks'  *)
(* are their EXT_SECRET_KEY / EXT_PUBLIC_KEY chain parameters as registered   *)
(* in pycoin.symbols at the pinned commit (a change there must be deliberate: *)
(* it changes every extended key text of that network).                       *)
EXTENDS BIP32

None == [prv |-> <<>>, pub |-> <<>>]
V(prv, pub) == [prv |-> prv, pub |-> pub]
Families == {"bip32", "bip49", "bip84"}

Versions == [
  ARG    |-> [bip32 |-> V(<<4, 136, 173, 228>>, <<4, 136, 178, 30>>), bip49 |-> None, bip84 |-> None],
  AXE    |-> [bip32 |-> V(<<4, 136, 173, 228>>, <<4, 136, 178, 30>>), bip49 |-> None, bip84 |-> None],
  BC     |-> [bip32 |-> V(<<2, 207, 191, 96>>, <<2, 207, 190, 222>>), bip49 |-> None, bip84 |-> None],
  BCH    |-> [bip32 |-> V(<<4, 136, 173, 228>>, <<4, 136, 178, 30>>), bip49 |-> None, bip84 |-> None],
  BSD    |-> [bip32 |-> V(<<4, 136, 173, 228>>, <<4, 136, 178, 30>>), bip49 |-> None, bip84 |-> None],
  BTC    |-> [bip32 |-> V(<<4, 136, 173, 228>>, <<4, 136, 178, 30>>), bip49 |-> V(<<4, 157, 120, 120>>, <<4, 157, 124, 178>>), bip84 |-> V(<<4, 178, 67, 12>>, <<4, 178, 71, 70>>)],
  BTCD   |-> [bip32 |-> V(<<4, 136, 173, 228>>, <<4, 136, 178, 30>>), bip49 |-> None, bip84 |-> None],
  BTDX   |-> [bip32 |-> V(<<4, 136, 173, 228>>, <<4, 136, 178, 30>>), bip49 |-> None, bip84 |-> None],
  BTG    |-> [bip32 |-> V(<<4, 136, 173, 228>>, <<4, 136, 178, 30>>), bip49 |-> None, bip84 |-> None],
  BTX    |-> [bip32 |-> V(<<4, 136, 173, 228>>, <<4, 136, 178, 30>>), bip49 |-> None, bip84 |-> None],
  CHA    |-> [bip32 |-> V(<<4, 136, 173, 228>>, <<4, 136, 178, 30>>), bip49 |-> None, bip84 |-> None],
  CHC    |-> [bip32 |-> V(<<4, 136, 173, 228>>, <<4, 136, 178, 30>>), bip49 |-> None, bip84 |-> None],
  DASH   |-> [bip32 |-> V(<<2, 254, 82, 248>>, <<2, 254, 82, 204>>), bip49 |-> None, bip84 |-> None],
  DCR    |-> [bip32 |-> V(<<2, 253, 164, 232>>, <<2, 253, 169, 38>>), bip49 |-> None, bip84 |-> None],
  DCRT   |-> [bip32 |-> V(<<4, 53, 131, 151>>, <<4, 53, 135, 209>>), bip49 |-> None, bip84 |-> None],
  DFC    |-> [bip32 |-> V(<<2, 250, 84, 215>>, <<2, 250, 84, 173>>), bip49 |-> None, bip84 |-> None],
  DGB    |-> [bip32 |-> V(<<4, 136, 173, 228>>, <<4, 136, 178, 30>>), bip49 |-> None, bip84 |-> None],
  DOGE   |-> [bip32 |-> V(<<2, 250, 195, 152>>, <<2, 250, 202, 253>>), bip49 |-> None, bip84 |-> None],
  FAI    |-> [bip32 |-> V(<<4, 136, 173, 228>>, <<4, 136, 178, 30>>), bip49 |-> None, bip84 |-> None],
  FTC    |-> [bip32 |-> V(<<4, 136, 173, 228>>, <<4, 136, 178, 30>>), bip49 |-> None, bip84 |-> None],
  FTX    |-> [bip32 |-> V(<<4, 53, 131, 148>>, <<4, 53, 135, 207>>), bip49 |-> None, bip84 |-> None],
  GRS    |-> [bip32 |-> V(<<4, 136, 173, 228>>, <<4, 136, 178, 30>>), bip49 |-> V(<<4, 157, 120, 120>>, <<4, 157, 124, 178>>), bip84 |-> V(<<4, 178, 67, 12>>, <<4, 178, 71, 70>>)],
  GRSRT  |-> [bip32 |-> V(<<4, 53, 131, 148>>, <<4, 53, 135, 207>>), bip49 |-> V(<<4, 74, 78, 40>>, <<4, 74, 82, 98>>), bip84 |-> V(<<4, 95, 24, 188>>, <<4, 95, 28, 246>>)],
  JBS    |-> [bip32 |-> V(<<3, 122, 100, 96>>, <<3, 122, 104, 154>>), bip49 |-> None, bip84 |-> None],
  LTC    |-> [bip32 |-> V(<<1, 157, 156, 254>>, <<1, 157, 164, 98>>), bip49 |-> V(<<1, 178, 103, 146>>, <<1, 178, 110, 246>>), bip84 |-> V(<<4, 178, 67, 12>>, <<4, 178, 71, 70>>)],
  MEC    |-> [bip32 |-> V(<<4, 136, 173, 228>>, <<4, 136, 178, 30>>), bip49 |-> None, bip84 |-> None],
  MONA   |-> [bip32 |-> V(<<4, 136, 173, 228>>, <<4, 136, 178, 30>>), bip49 |-> None, bip84 |-> None],
  MZC    |-> [bip32 |-> V(<<4, 136, 173, 228>>, <<4, 136, 178, 30>>), bip49 |-> None, bip84 |-> None],
  PIVX   |-> [bip32 |-> V(<<2, 33, 49, 43>>, <<2, 45, 37, 51>>), bip49 |-> None, bip84 |-> None],
  POLIS  |-> [bip32 |-> V(<<3, 226, 93, 126>>, <<3, 226, 89, 69>>), bip49 |-> None, bip84 |-> None],
  RIC    |-> [bip32 |-> V(<<4, 136, 173, 228>>, <<4, 136, 178, 30>>), bip49 |-> None, bip84 |-> None],
  STAK   |-> [bip32 |-> V(<<4, 136, 173, 228>>, <<4, 136, 178, 30>>), bip49 |-> None, bip84 |-> None],
  STRAT  |-> [bip32 |-> V(<<4, 136, 173, 228>>, <<4, 136, 178, 30>>), bip49 |-> None, bip84 |-> None],
  TBTX   |-> [bip32 |-> V(<<4, 53, 131, 148>>, <<4, 53, 135, 207>>), bip49 |-> None, bip84 |-> None],
  TCHC   |-> [bip32 |-> V(<<4, 53, 131, 148>>, <<4, 53, 135, 207>>), bip49 |-> None, bip84 |-> None],
  TDASH  |-> [bip32 |-> V(<<58, 128, 97, 160>>, <<58, 128, 88, 55>>), bip49 |-> None, bip84 |-> None],
  TGRS   |-> [bip32 |-> V(<<4, 53, 131, 148>>, <<4, 53, 135, 207>>), bip49 |-> V(<<4, 74, 78, 40>>, <<4, 74, 82, 98>>), bip84 |-> V(<<4, 95, 24, 188>>, <<4, 95, 28, 246>>)],
  TMONA  |-> [bip32 |-> V(<<4, 53, 131, 148>>, <<4, 53, 135, 207>>), bip49 |-> None, bip84 |-> None],
  TPIVX  |-> [bip32 |-> V(<<58, 128, 97, 160>>, <<58, 128, 88, 55>>), bip49 |-> None, bip84 |-> None],
  TSTAK  |-> [bip32 |-> V(<<70, 0, 42, 16>>, <<162, 174, 201, 166>>), bip49 |-> None, bip84 |-> None],
  TVI    |-> [bip32 |-> V(<<4, 53, 131, 148>>, <<4, 53, 135, 207>>), bip49 |-> None, bip84 |-> None],
  TZEC   |-> [bip32 |-> V(<<4, 53, 131, 148>>, <<4, 53, 135, 207>>), bip49 |-> None, bip84 |-> None],
  VIA    |-> [bip32 |-> V(<<4, 136, 173, 228>>, <<4, 136, 178, 30>>), bip49 |-> None, bip84 |-> None],
  XCH    |-> [bip32 |-> V(<<4, 53, 131, 148>>, <<4, 53, 135, 207>>), bip49 |-> None, bip84 |-> None],
  XDT    |-> [bip32 |-> V(<<4, 50, 169, 168>>, <<4, 50, 162, 67>>), bip49 |-> None, bip84 |-> None],
  XLT    |-> [bip32 |-> V(<<4, 54, 239, 125>>, <<4, 54, 246, 225>>), bip49 |-> None, bip84 |-> None],
  XMY    |-> [bip32 |-> V(<<4, 136, 173, 228>>, <<4, 136, 178, 30>>), bip49 |-> None, bip84 |-> None],
  XRT    |-> [bip32 |-> V(<<4, 53, 131, 148>>, <<4, 53, 135, 207>>), bip49 |-> None, bip84 |-> None],
  XTG    |-> [bip32 |-> V(<<4, 136, 173, 228>>, <<4, 136, 178, 30>>), bip49 |-> None, bip84 |-> None],
  XTN    |-> [bip32 |-> V(<<4, 53, 131, 148>>, <<4, 53, 135, 207>>), bip49 |-> V(<<4, 74, 78, 40>>, <<4, 74, 82, 98>>), bip84 |-> V(<<4, 95, 24, 188>>, <<4, 95, 28, 246>>)],
  ZEC    |-> [bip32 |-> V(<<4, 136, 173, 228>>, <<4, 136, 178, 30>>), bip49 |-> None, bip84 |-> None]
]

Nets == DOMAIN Versions
Defines(net, kind) == Versions[net][kind].prv # <<>>
Version(net, kind, asPrivate) == IF asPrivate THEN Versions[net][kind].prv ELSE Versions[net][kind].pub

\* the text of extended key x on a network, in one of the families
Text(net, kind, x, asPrivate) == ExtText(x, asPrivate, Version(net, kind, asPrivate))

(* Parsing by prefix: a parser for (net, kind) takes exactly the strings whose *)
(* version is that network's private or public version of that family; the    *)
(* key is private iff the key data is 0x00 || ser256(k); every field is what   *)
(* was serialised.                                                            *)
UnSer32(b) == Idx(b[1] >= 128, (b[1] % 128) * 16777216 + b[2] * 65536 + b[3] * 256 + b[4])
VersionOf(T) == T.a.p[1].v
Accepts(net, kind, T) == Defines(net, kind) /\ VersionOf(T) \in {Versions[net][kind].prv, Versions[net][kind].pub}
ParseText(net, kind, T) ==
  IF ~Accepts(net, kind, T) THEN [ok |-> FALSE]
  ELSE LET body == T.a.p[2].p
           kd == body[5]
           private == kd.t = "cat" IN
       [ok |-> TRUE, kind |-> kind, private |-> private,
        node |-> [depth |-> body[1].v[1], pfp |-> body[2], cn |-> UnSer32(body[3].v), chain |-> body[4],
                  key |-> IF private THEN kd.p[2].a ELSE kd.a]]

\* who else reads this text (same version bytes elsewhere): unavoidable, listed for the replay
Readers(T) == {nk \in Nets \X Families : Accepts(nk[1], nk[2], T)}

\* lemmas about the table
PrvPubDistinct == \A net \in Nets : \A kind \in Families : Defines(net, kind) => Versions[net][kind].prv # Versions[net][kind].pub
FamiliesSeparated == \A net \in Nets : \A k1, k2 \in Families :
   (k1 # k2 /\ Defines(net, k1) /\ Defines(net, k2)) =>
      {Versions[net][k1].prv, Versions[net][k1].pub} \cap {Versions[net][k2].prv, Versions[net][k2].pub} = {}
AllFourBytes == \A net \in Nets : \A kind \in Families : Defines(net, kind) =>
   \A v \in {Versions[net][kind].prv, Versions[net][kind].pub} : Len(v) = 4 /\ \A i \in 1..4 : v[i] \in 0..255
\* round trip of one key on one network/family
RoundTrips(net, kind, x, asPrivate) ==
  LET r == ParseText(net, kind, Text(net, kind, x, asPrivate)) IN
  /\ r.ok /\ r.kind = kind /\ r.private = asPrivate
  /\ r.node = (IF asPrivate THEN x ELSE Neuter(x))
  /\ Size(Text(net, kind, x, asPrivate).a) = 78
=============================================================================
