------------------------------- MODULE TxCheck -------------------------------
(* The context-free transaction check (Bitcoin Core's CheckTransaction, the   *)
(* rule book property C20 cites), as a verdict on an abstract transaction,    *)
(* and the small state machine of an object on which check(), is_coinbase()   *)
(* and bad_solution_count() are called: no call changes the transaction.      *)
(*                                                                            *)
(* The transaction is TxWire's record except that an output carries           *)
(*   value |-> [neg |-> BOOLEAN, mag |-> Num]                                 *)
(* - any integer, not only what fits the 8-byte wire field - because the      *)
(* check must reject negative and oversized values before they could ever be  *)
(* serialised.                                                                *)
EXTENDS TxWire

\* ---------------------------------------------------------------- money
\* satoshi per coin = 10^8; the cap is a number of whole coins per currency
Satoshi(coins) == Trim(MulSmall(MulSmall(Limbs(coins, 2), 10000), 10000))
MaxMoney(currency) == CASE currency = "BTC" -> Satoshi(21000000)
                        [] currency = "GRS" -> Satoshi(105000000)

Val(neg, mag) == [neg |-> neg, mag |-> mag]
InRange(v, M) == ~v.neg /\ Leq(v.mag, M)

\* running total of the first k outputs (meaningful while all of them are non-negative)
RECURSIVE Total(_, _)
Total(outs, k) == IF k = 0 THEN <<0>> ELSE Trim(AddN(Total(outs, k - 1), outs[k].value.mag))

\* ---------------------------------------------------------------- outpoints, coinbase
NullHash == Run(0, 32)
NullIndex == <<65535, 65535>>
\* the null outpoint is the PAIR (all-zero hash, index 2^32-1)
IsNullOutpoint(x) == x.hash = NullHash /\ x.index = NullIndex
IsCoinbase(tx) == Len(tx.ins) = 1 /\ IsNullOutpoint(tx.ins[1])
SameOutpoint(x, y) == x.hash = y.hash /\ x.index = y.index

\* ---------------------------------------------------------------- sizes
\* only sizes are needed from the serialisation; a value the wire format cannot carry still takes 8 bytes
WireView(tx) == [tx EXCEPT !.outs = [j \in 1..Len(tx.outs) |->
                    [amount |-> IF tx.outs[j].value.neg \/ Len(Trim(tx.outs[j].value.mag)) > 4 THEN <<0, 0, 0, 0>>
                                ELSE [i \in 1..4 |-> IF i <= Len(tx.outs[j].value.mag) THEN tx.outs[j].value.mag[i] ELSE 0],
                     script |-> tx.outs[j].script]]]
TotalSize(tx)    == Size(Wire(WireView(tx)))
StrippedSize(tx) == Size(Stripped(WireView(tx)))
MaxSize == 1000000

\* ---------------------------------------------------------------- the defects the property lists
NoInputs(tx)   == tx.ins = <<>>
NoOutputs(tx)  == tx.outs = <<>>
BadValue(tx, M) == \E j \in 1..Len(tx.outs) : ~InRange(tx.outs[j].value, M)
BadTotal(tx, M) == \E k \in 1..Len(tx.outs) :
                      /\ \A j \in 1..k : ~tx.outs[j].value.neg
                      /\ ~Leq(Total(tx.outs, k), M)
DuplicateInputs(tx) == \E i \in 1..Len(tx.ins), k \in 1..Len(tx.ins) : i < k /\ SameOutpoint(tx.ins[i], tx.ins[k])
BadCoinbaseScript(tx) == IsCoinbase(tx) /\ (Size(tx.ins[1].script) < 2 \/ Size(tx.ins[1].script) > 100)
NullPrevout(tx) == ~IsCoinbase(tx) /\ \E i \in 1..Len(tx.ins) : IsNullOutpoint(tx.ins[i])
Oversize(tx)   == StrippedSize(tx) > MaxSize

Defects(tx, M) ==
  {d \in {"no-inputs", "no-outputs", "bad-value", "bad-total", "duplicate-inputs", "bad-coinbase-script",
          "null-prevout", "oversize"} :
     CASE d = "no-inputs" -> NoInputs(tx)
       [] d = "no-outputs" -> NoOutputs(tx)
       [] d = "bad-value" -> BadValue(tx, M)
       [] d = "bad-total" -> BadTotal(tx, M)
       [] d = "duplicate-inputs" -> DuplicateInputs(tx)
       [] d = "bad-coinbase-script" -> BadCoinbaseScript(tx)
       [] d = "null-prevout" -> NullPrevout(tx)
       [] d = "oversize" -> Oversize(tx)}

\* what the property obliges the check to do
MustReject(tx, M) == Defects(tx, M) # {}
\* stated positively and independently of the defect list: a well-formed transaction of at most 1,000,000 bytes
MustAccept(tx, M) ==
  /\ Len(tx.ins) >= 1 /\ Len(tx.outs) >= 1
  /\ \A j \in 1..Len(tx.outs) : InRange(tx.outs[j].value, M)
  /\ Leq(Total(tx.outs, Len(tx.outs)), M)
  /\ \A i \in 1..Len(tx.ins), k \in 1..Len(tx.ins) : i # k => ~SameOutpoint(tx.ins[i], tx.ins[k])
  /\ IF IsCoinbase(tx) THEN Size(tx.ins[1].script) \in 2..100
                       ELSE \A i \in 1..Len(tx.ins) : ~IsNullOutpoint(tx.ins[i])
  /\ TotalSize(tx) <= MaxSize
\* "reject" / "accept" / "any" (between the two the property is silent: well-formed, witness-stripped size
\* within the limit but total size above it)
Verdict(tx, M) == IF MustReject(tx, M) THEN "reject" ELSE IF MustAccept(tx, M) THEN "accept" ELSE "any"

\* ---------------------------------------------------------------- the object under the calls
VARIABLES obj,      \* the transaction held by the object
          coin,     \* its currency
          calls,    \* how many calls were made
          result    \* what the last call returned
cvars == <<obj, coin, calls, result>>

CInit(tx, c) == obj = tx /\ coin = c /\ calls = 0 /\ result = "none"
\* check(): the verdict; the transaction is untouched
Check == /\ result' \in (LET v == Verdict(obj, MaxMoney(coin)) IN IF v = "any" THEN {"accept", "reject"} ELSE {v})
         /\ calls' = calls + 1 /\ UNCHANGED <<obj, coin>>
\* is_coinbase(): a coinbase must be recognised (or it would be asked for signatures); what the method
\* answers on other transactions the property does not say - a tolerated deviation, not idealised away
AskCoinbase == /\ result' \in (IF IsCoinbase(obj) THEN {"yes"} ELSE {"yes", "no"})
               /\ calls' = calls + 1 /\ UNCHANGED <<obj, coin>>
\* bad_solution_count(): a coinbase has no input to sign, so none is unsigned; otherwise the property says nothing
CountBad == /\ result' \in (IF IsCoinbase(obj) THEN {"zero"} ELSE {"zero", "some"})
            /\ calls' = calls + 1 /\ UNCHANGED <<obj, coin>>
CNext == Check \/ AskCoinbase \/ CountBad

\* ---------------------------------------------------------------- the object has a history
\* Between calls the owner of the object edits its fields.  An edit replaces the transaction; nothing else
\* about the object exists for the checks to depend on: Check above reads `obj` as it is NOW, so the verdict
\* after any history equals the verdict of a fresh object holding the current fields.
Edit(t) == /\ obj' = t /\ t # obj
           /\ result' = "edited" /\ calls' = calls + 1 /\ UNCHANGED coin
\* the edits the replay enumerates (each is an Edit)
SetInScript(i, s)      == i \in 1..Len(obj.ins)  /\ Edit([obj EXCEPT !.ins[i].script = s])
SetOutScript(j, s)     == j \in 1..Len(obj.outs) /\ Edit([obj EXCEPT !.outs[j].script = s])
SetWitness(i, w)       == i \in 1..Len(obj.ins)  /\ Edit([obj EXCEPT !.ins[i].wit = w])
SetValue(j, v)         == j \in 1..Len(obj.outs) /\ Edit([obj EXCEPT !.outs[j].value = v])
SetOutpoint(i, h, x)   == i \in 1..Len(obj.ins)  /\ Edit([obj EXCEPT !.ins[i].hash = h, !.ins[i].index = x])
AppendIn(x)            == Edit([obj EXCEPT !.ins = Append(@, x)])
RemoveIn               == obj.ins # <<>>  /\ Edit([obj EXCEPT !.ins = SubSeq(@, 1, Len(@) - 1)])
AppendOut(o)           == Edit([obj EXCEPT !.outs = Append(@, o)])
RemoveOut              == obj.outs # <<>> /\ Edit([obj EXCEPT !.outs = SubSeq(@, 1, Len(@) - 1)])
\* the script length that gives transaction t, with the script of input 1 replaced, a witness-stripped size of
\* exactly `target` (for targets where that script needs a 5-byte length prefix)
WithInScript1(t, n) == [t EXCEPT !.ins[1].script = Run(81, n)]
FitInScript1(t, target) == target - (StrippedSize(WithInScript1(t, 70000)) - 70000)
=============================================================================
