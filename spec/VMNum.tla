------------------------------- MODULE VMNum -------------------------------
(* Script numbers (CScriptNum) on byte strings.  TLC integers are 32 bit and  *)
(* TLC aborts on overflow, while script arithmetic takes 4-byte operands and  *)
(* produces 5-byte results (and CLTV/CSV read 5-byte operands), so numbers    *)
(* are sign + little-endian base-256 magnitude (no trailing zero digit).      *)
EXTENDS Integers, Sequences

Byte == 0..255
Bytes == Seq(Byte)

RECURSIVE Trim(_)
Trim(m) == IF m # <<>> /\ m[Len(m)] = 0 THEN Trim(SubSeq(m, 1, Len(m) - 1)) ELSE m

\* CastToBool: some byte non-zero, a final 0x80 (negative zero) does not count
CastToBool(b) == \E i \in 1..Len(b) : b[i] # 0 /\ ~(i = Len(b) /\ b[i] = 128)

\* CScriptNum constructor checks
NumTooLong(b, maxlen) == Len(b) > maxlen
NumNonMinimal(b) == /\ Len(b) > 0
                    /\ b[Len(b)] % 128 = 0
                    /\ (Len(b) = 1 \/ b[Len(b) - 1] < 128)
NumOK(b, minimal, maxlen) == ~NumTooLong(b, maxlen) /\ (minimal => ~NumNonMinimal(b))

\* decoded number: [neg, mag]; zero is [neg |-> FALSE, mag |-> <<>>]
Zero == [neg |-> FALSE, mag |-> <<>>]
NumDec(b) ==
  IF b = <<>> THEN Zero
  ELSE LET n == Len(b)
           top == b[n]
           m == Trim([i \in 1..n |-> IF i = n THEN top % 128 ELSE b[i]])
       IN [neg |-> (top >= 128) /\ m # <<>>, mag |-> m]

NumEnc(x) ==
  IF x.mag = <<>> THEN <<>>
  ELSE LET n == Len(x.mag) IN
       IF x.mag[n] >= 128 THEN Append(x.mag, IF x.neg THEN 128 ELSE 0)
       ELSE IF x.neg THEN [i \in 1..n |-> IF i = n THEN x.mag[i] + 128 ELSE x.mag[i]]
       ELSE x.mag

Dig(m, i) == IF i <= Len(m) THEN m[i] ELSE 0
MaxLen(a, b) == IF Len(a) > Len(b) THEN Len(a) ELSE Len(b)

\* magnitude comparison: -1, 0, 1
RECURSIVE MagCmpAt(_, _, _)
MagCmpAt(a, b, i) == IF i = 0 THEN 0
                     ELSE IF Dig(a, i) < Dig(b, i) THEN -1
                     ELSE IF Dig(a, i) > Dig(b, i) THEN 1
                     ELSE MagCmpAt(a, b, i - 1)
MagCmp(a, b) == MagCmpAt(a, b, MaxLen(a, b))

RECURSIVE MagAddAt(_, _, _, _, _)
MagAddAt(a, b, i, n, carry) ==
  IF i > n THEN (IF carry > 0 THEN <<carry>> ELSE <<>>)
  ELSE LET s == Dig(a, i) + Dig(b, i) + carry IN <<s % 256>> \o MagAddAt(a, b, i + 1, n, s \div 256)
MagAdd(a, b) == Trim(MagAddAt(a, b, 1, MaxLen(a, b), 0))

\* a - b for a >= b
RECURSIVE MagSubAt(_, _, _, _, _)
MagSubAt(a, b, i, n, borrow) ==
  IF i > n THEN <<>>
  ELSE LET d == Dig(a, i) - Dig(b, i) - borrow IN
       IF d < 0 THEN <<d + 256>> \o MagSubAt(a, b, i + 1, n, 1)
       ELSE <<d>> \o MagSubAt(a, b, i + 1, n, 0)
MagSub(a, b) == Trim(MagSubAt(a, b, 1, MaxLen(a, b), 0))

Mk(neg, mag) == [neg |-> neg /\ mag # <<>>, mag |-> mag]
NumNeg(x) == Mk(~x.neg, x.mag)
NumAbs(x) == Mk(FALSE, x.mag)
NumAdd(x, y) ==
  IF x.neg = y.neg THEN Mk(x.neg, MagAdd(x.mag, y.mag))
  ELSE LET c == MagCmp(x.mag, y.mag) IN
       IF c = 0 THEN Zero
       ELSE IF c > 0 THEN Mk(x.neg, MagSub(x.mag, y.mag))
       ELSE Mk(y.neg, MagSub(y.mag, x.mag))
NumSub(x, y) == NumAdd(x, NumNeg(y))
\* -1, 0, 1
NumCmp(x, y) ==
  IF x.neg /\ ~y.neg THEN -1
  ELSE IF ~x.neg /\ y.neg THEN 1
  ELSE IF x.neg THEN MagCmp(y.mag, x.mag) ELSE MagCmp(x.mag, y.mag)
NumIsZero(x) == x.mag = <<>>

\* small naturals <-> magnitudes (n < 2^31)
RECURSIVE NatMag(_)
NatMag(n) == IF n = 0 THEN <<>> ELSE <<n % 256>> \o NatMag(n \div 256)
NatNum(n) == Mk(FALSE, NatMag(n))
One == NatNum(1)
\* value of a magnitude if it is below 2^24, else 2^24 (a "huge" marker)
MagNat(m) == IF Len(m) > 3 THEN 16777216
             ELSE Dig(m, 1) + 256 * Dig(m, 2) + 65536 * Dig(m, 3)
=============================================================================
