SPECIFICATION PoolSpec
CONSTANTS
  Tier = "q"
  Phase = "pool"
  Mutant = "none"
CHECK_DEADLOCK FALSE
