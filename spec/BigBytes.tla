------------------------------ MODULE BigBytes ------------------------------
(* Unsigned integers wider than TLC's 32 bits, as big-endian sequences of     *)
(* bytes (0..255): comparison, subtraction, shifts, reduction modulo a small  *)
(* number.  Used by RFC6979.tla (bits2int, bits2octets, range test of a nonce *)
(* candidate on 256-bit orders) and by the ECDSA trace specs.                 *)
EXTENDS Integers, Sequences

Byte == 0..255
\* TLC keeps [i \in 1..n |-> e] lazy (e is re-evaluated at every access); SubSeq returns an explicit tuple
Mat(f, n) == SubSeq(f, 1, n)
Zeros(n) == Mat([iB \in 1..n |-> 0], n)
Fill(n, v) == Mat([iB \in 1..n |-> v], n)

\* -1, 0, 1: numeric comparison of two byte strings of EQUAL length
BCmp(a, b) == LET D == {iB \in 1..Len(a) : a[iB] # b[iB]} IN
              IF D = {} THEN 0
              ELSE LET m == CHOOSE iB \in D : \A jB \in D : iB <= jB
                   IN IF a[m] < b[m] THEN -1 ELSE 1
BLess(a, b) == BCmp(a, b) = -1
BIsZero(a) == \A iB \in 1..Len(a) : a[iB] = 0

\* a - b for equal lengths and a >= b.  The borrow into position i is 1 exactly when the
\* less significant part of a is smaller than that of b.
BSub(a, b) == LET n == Len(a)
                  borrow(i) == IF BCmp(SubSeq(a, i + 1, n), SubSeq(b, i + 1, n)) = -1 THEN 1 ELSE 0
              IN Mat([iB \in 1..n |-> (a[iB] - b[iB] - borrow(iB)) % 256], n)
\* a + b for equal lengths, result of the same length (the caller guarantees no overflow)
BAdd(a, b) == LET n == Len(a)
                  \* carry into position i: 1 iff the less significant parts sum to >= 256^(n-i),
                  \* i.e. iff  low(a) > complement(low(b))
                  comp(i) == [jB \in 1..(n - i) |-> 255 - b[i + jB]]
                  carry(i) == IF i = n THEN 0
                              ELSE IF BCmp(SubSeq(a, i + 1, n), comp(i)) = 1 THEN 1 ELSE 0
              IN Mat([iB \in 1..n |-> (a[iB] + b[iB] + carry(iB)) % 256], n)

\* the n-byte big-endian form of a small non-negative integer (v < 2^31)
RECURSIVE Pow256(_)
Pow256(e) == IF e = 0 THEN 1 ELSE 256 * Pow256(e - 1)
BFromInt(v, n) == Mat([iB \in 1..n |-> IF n - iB >= 4 THEN 0 ELSE (v \div Pow256(n - iB)) % 256], n)
BSubInt(a, v) == BSub(a, BFromInt(v, Len(a)))
BAddInt(a, v) == BAdd(a, BFromInt(v, Len(a)))

\* the value modulo a small m (m < 2^23), by Horner's rule
BModInt(a, m) == LET h[iB \in 0..Len(a)] == IF iB = 0 THEN 0 ELSE (h[iB - 1] * 256 + a[iB]) % m
                 IN h[Len(a)]
\* small values only
BToInt(a) == LET h[iB \in 0..Len(a)] == IF iB = 0 THEN 0 ELSE h[iB - 1] * 256 + a[iB]
             IN h[Len(a)]

\* number of significant bits
Pow2(e) == CASE e = 0 -> 1 [] e = 1 -> 2 [] e = 2 -> 4 [] e = 3 -> 8 [] e = 4 -> 16
             [] e = 5 -> 32 [] e = 6 -> 64 [] e = 7 -> 128 [] e = 8 -> 256
BitLenByte(v) == IF v = 0 THEN 0 ELSE CHOOSE e \in 1..8 : Pow2(e - 1) <= v /\ v < Pow2(e)
BBitLen(a) == LET nz == {iB \in 1..Len(a) : a[iB] # 0} IN
              IF nz = {} THEN 0
              ELSE LET m == CHOOSE iB \in nz : \A jB \in nz : iB <= jB
                   IN 8 * (Len(a) - m) + BitLenByte(a[m])

\* logical shift right by s bits; the result keeps the bytes that can still be non-zero
BShr(a, s) == LET drop == s \div 8
                  bits == s % 8
                  keep == SubSeq(a, 1, Len(a) - drop)
                  prev(i) == IF i = 1 THEN 0 ELSE keep[i - 1]
              IN Mat([iB \in 1..Len(keep) |-> ((prev(iB) * 256 + keep[iB]) \div Pow2(bits)) % 256], Len(keep))
\* exactly n bytes: pad with leading zeros or drop leading bytes (which the caller knows to be zero)
BFit(a, n) == IF Len(a) >= n THEN SubSeq(a, Len(a) - n + 1, Len(a))
              ELSE Zeros(n - Len(a)) \o a
=============================================================================
