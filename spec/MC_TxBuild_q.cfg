CONSTANTS Variant = "std"  MaxSum = 7  MaxIns = 2  MaxPays = 4  MaxFee = 2
          ScaleKs = {12}  ScaleRs = {0}
SPECIFICATION Spec
INVARIANTS TypeOK BuildOK DealInv DoneIsBuild Conservation Positivity AtMostOneApart ErrorIffInsufficient OutcomeOK FeeLemma
CHECK_DEADLOCK FALSE
