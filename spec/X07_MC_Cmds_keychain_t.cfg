CONSTANTS Cmd = "keychain"  Tier = "t"  U = "t"
SPECIFICATION Spec
INVARIANTS Lemmas LemmasDone
CHECK_DEADLOCK FALSE
