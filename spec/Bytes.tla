------------------------------- MODULE Bytes -------------------------------
(* Byte strings, little-endian integers and Bitcoin "compact size" lengths.  *)
(*                                                                           *)
(* A byte string is a sequence of RUNS <<fill, len>> (len >= 1, adjacent     *)
(* fills different): the run-length normal form of a Seq(0..255).  A 65,536  *)
(* byte script filled with 0xab is the one-element string << <<171,65536>> >>*)
(* and only the Python side ever expands it.  All constructors below keep    *)
(* the normal form, so equality of byte strings is equality of TLA+ values.  *)
(*                                                                           *)
(* Integers wider than 31 bits never exist as TLC integers: a NUMBER is a    *)
(* sequence of 16-bit limbs, least significant first (a 64-bit amount has 4  *)
(* limbs, a 32-bit field 2).                                                 *)
EXTENDS Integers, Sequences, SequencesExt, FiniteSets, TLC

Byte == 0..255

\* ---------------------------------------------------------------- byte strings
Run(b, n) == IF n = 0 THEN <<>> ELSE << <<b, n>> >>

Cat(a, b) ==
  IF a = <<>> THEN b
  ELSE IF b = <<>> THEN a
  ELSE IF a[Len(a)][1] = b[1][1]
       THEN SubSeq(a, 1, Len(a) - 1) \o << <<b[1][1], a[Len(a)][2] + b[1][2]>> >> \o SubSeq(b, 2, Len(b))
       ELSE a \o b

CatAll(ss) == FoldLeft(Cat, <<>>, ss)

\* a flat Seq(Byte) as a byte string
Lit(s) == FoldLeft(LAMBDA acc, x : Cat(acc, << <<x, 1>> >>), <<>>, s)

Size(s) == FoldLeft(LAMBDA acc, r : acc + r[2], 0, s)

WellFormed(s) ==
  /\ \A i \in 1..Len(s) : s[i][1] \in Byte /\ s[i][2] \in Nat /\ s[i][2] >= 1
  /\ \A i \in 2..Len(s) : s[i][1] # s[i-1][1]

\* Where do the first n bytes end?  <<k, r>>: k whole runs and r bytes (less than all) of run k+1.
\* (index recursion: nothing is copied while walking, the input may have thousands of runs)
RECURSIVE SplitAt(_, _, _)
SplitAt(s, i, n) == IF i > Len(s) THEN <<Len(s), 0>>
                    ELSE IF s[i][2] > n THEN <<i - 1, n>>
                    ELSE SplitAt(s, i + 1, n - s[i][2])
\* <<first n bytes, the rest>> (n may exceed the size: then <<everything, nothing>>)
Split(s, n) ==
  LET p == SplitAt(s, 1, n) k == p[1] r == p[2] IN
  IF r = 0 THEN <<SubSeq(s, 1, k), SubSeq(s, k + 1, Len(s))>>
  ELSE <<Append(SubSeq(s, 1, k), <<s[k + 1][1], r>>),
         << <<s[k + 1][1], s[k + 1][2] - r>> >> \o SubSeq(s, k + 2, Len(s))>>
Take(s, n) == Split(s, n)[1]
Drop(s, n) == Split(s, n)[2]

\* the flat sequence (only for short strings: headers, integers, lemma checks)
Expand(s) == FoldLeft(LAMBDA acc, r : acc \o [i \in 1..r[2] |-> r[1]], <<>>, s)

ByteAt(s, k) == Take(Drop(s, k - 1), 1)[1][1]          \* 1-based, k <= Size(s)

Reverse8(s) == Lit(Reverse(Expand(s)))                  \* byte-reversal of a short string

\* ---------------------------------------------------------------- numbers (16-bit limbs, least significant first)
Limb == 0..65535
IsNum(x, k) == Len(x) = k /\ \A i \in 1..k : x[i] \in Limb

\* a TLC natural (< 2^31) as k limbs
Limbs(n, k) == [i \in 1..k |-> IF i = 1 THEN n % 65536 ELSE IF i = 2 THEN n \div 65536 ELSE 0]

\* does the number fit a TLC integer (< 2^31)?  its value if so
Small(x) == /\ \A i \in 3..Len(x) : x[i] = 0
            /\ (Len(x) >= 2 => x[2] < 32768)
NatOf(x) == (IF Len(x) >= 1 THEN x[1] ELSE 0) + (IF Len(x) >= 2 THEN x[2] * 65536 ELSE 0)

IsZero(x) == \A i \in 1..Len(x) : x[i] = 0

\* strip leading (most significant) zero limbs; compare.  (Not RECURSIVE on purpose: TLC evaluates a
\* constant definition once and for all only if no recursive operator is involved in it, and the case
\* grids of the replay modules are such constants.)
TopIndex(S) == CHOOSE i \in S : \A j \in S : j <= i
Trim(x) == LET nz == {i \in 1..Len(x) : x[i] # 0} IN IF nz = {} THEN <<>> ELSE SubSeq(x, 1, TopIndex(nz))
\* on trimmed numbers of equal length: the top limb in which they differ decides
LessT(x, y) == LET d == {i \in 1..Len(x) : x[i] # y[i]} IN IF d = {} THEN FALSE ELSE x[TopIndex(d)] < y[TopIndex(d)]
Less(x, y) == LET a == Trim(x) b == Trim(y)
              IN IF Len(a) # Len(b) THEN Len(a) < Len(b) ELSE LessT(a, b)
Leq(x, y) == ~Less(y, x)
NumEq(x, y) == Trim(x) = Trim(y)

\* x + y, one limb longer than the longer operand (carry never lost)
AddN(x, y) ==
  LET n == (IF Len(x) > Len(y) THEN Len(x) ELSE Len(y)) + 1
      g(v, i) == IF i <= Len(v) THEN v[i] ELSE 0
      step(acc, i) == LET t == g(x, i) + g(y, i) + acc[2]
                      IN <<Append(acc[1], t % 65536), t \div 65536>>
  IN FoldLeft(step, <<<<>>, 0>>, [i \in 1..n |-> i])[1]

\* x * m for a small multiplier m <= 2^14 (limb * m + carry < 2^31)
MulSmall(x, m) ==
  LET step(acc, i) == LET t == (IF i <= Len(x) THEN x[i] * m ELSE 0) + acc[2]
                      IN <<Append(acc[1], t % 65536), t \div 65536>>
  IN FoldLeft(step, <<<<>>, 0>>, [i \in 1..Len(x) + 1 |-> i])[1]

\* x - 1 (x > 0), x + 1
Pred(x) == LET k == CHOOSE k \in 1..Len(x) : x[k] # 0 /\ \A j \in 1..k-1 : x[j] = 0
           IN [i \in 1..Len(x) |-> IF i < k THEN 65535 ELSE IF i = k THEN x[i] - 1 ELSE x[i]]
Succ(x) == Trim(AddN(x, <<1>>))

\* quotient and remainder by 10 (for decimal text), most significant limb first internally
DivMod10(x) ==
  LET step(acc, i) == LET j == Len(x) + 1 - i
                          t == acc[2] * 65536 + x[j]
                      IN <<[acc[1] EXCEPT ![j] = t \div 10], t % 10>>
  IN FoldLeft(step, <<x, 0>>, [i \in 1..Len(x) |-> i])
RECURSIVE DecDigits(_)          \* decimal digits, most significant first ("0" for zero)
DecDigits(x) == IF IsZero(x) THEN <<>>
                ELSE LET qr == DivMod10(x) IN Append(DecDigits(qr[1]), qr[2])
Dec(x) == IF IsZero(x) THEN <<0>> ELSE DecDigits(x)
\* digits -> k limbs (value assumed < 65536^k)
FromDec(ds, k) ==
  FoldLeft(LAMBDA acc, d : SubSeq(AddN(MulSmall(acc, 10), <<d>>), 1, k), [i \in 1..k |-> 0], ds)

\* ---------------------------------------------------------------- little-endian encodings
\* limbs -> 2 bytes per limb, least significant byte first
LE16(x) == Lit(FoldLeft(LAMBDA acc, l : acc \o <<l % 256, l \div 256>>, <<>>, x))
\* natural n < 2^31 as k bytes, k <= 8
LE(n, k) == Take(LE16(Limbs(n, (k + 1) \div 2)), k)
\* a short byte string of even size as limbs
FromLE(s) == LET f == Expand(s) IN [i \in 1..(Len(f) \div 2) |-> f[2*i - 1] + 256 * f[2*i]]

\* ---------------------------------------------------------------- compact size
\* CompactSize of a number (up to 4 limbs): 1, 3, 5 or 9 bytes
CompactSizeNum(x) ==
  LET t == Trim(x) IN
  IF Len(t) <= 1 /\ NatOf(t) < 253 THEN Lit(<<NatOf(t)>>)
  ELSE IF Len(t) <= 1 THEN Cat(Lit(<<253>>), LE16(Limbs(NatOf(t), 1)))
  ELSE IF Len(t) <= 2 THEN Cat(Lit(<<254>>), LE16(<<t[1], t[2]>>))
  ELSE Cat(Lit(<<255>>), LE16([i \in 1..4 |-> IF i <= Len(t) THEN t[i] ELSE 0]))
CompactSize(n) == CompactSizeNum(Limbs(n, 2))
CompactSizeWidth(n) == IF n < 253 THEN 1 ELSE IF n <= 65535 THEN 3 ELSE 5

\* The parser: a 4-state machine fed one byte at a time.
\*   "tag"  nothing read yet          "body" need more little-endian bytes
\*   "done" value complete            (a truncated input leaves it in tag/body)
CSStart == [st |-> "tag", need |-> 0, acc |-> <<>>, width |-> 0]
CSFeed(s, b) ==
  IF s.st = "tag" THEN
       IF b < 253 THEN [st |-> "done", need |-> 0, acc |-> <<b, 0>>, width |-> 1]
       ELSE [st |-> "body", need |-> (IF b = 253 THEN 2 ELSE IF b = 254 THEN 4 ELSE 8), acc |-> <<>>,
             width |-> (IF b = 253 THEN 3 ELSE IF b = 254 THEN 5 ELSE 9)]
  ELSE IF s.st = "body" THEN
       [s EXCEPT !.acc = Append(s.acc, b), !.need = s.need - 1, !.st = IF s.need = 1 THEN "done" ELSE "body"]
  ELSE s
CSValue(s) == [i \in 1..(Len(s.acc) \div 2) |-> s.acc[2*i - 1] + 256 * s.acc[2*i]]     \* limbs, when done
\* the shortest encoding was used (Core rejects the others; the wire format only ever produces these)
CSCanonical(s) ==
  LET v == CSValue(s) IN
  CASE s.width = 1 -> TRUE
    [] s.width = 3 -> v[1] >= 253
    [] s.width = 5 -> v[2] # 0
    [] s.width = 9 -> v[3] # 0 \/ v[4] # 0

\* run the machine over the head of a byte string.  Result:
\*   ok    the machine reached "done"          n     value as a natural, -1 when >= 2^31
\*   rest  what follows                        canon shortest form
\*   num   value as 4 limbs
ReadCompactSize(s) ==
  LET m == FoldLeft(CSFeed, CSStart, Expand(Take(s, 9))) IN
  IF m.st # "done" THEN [ok |-> FALSE, n |-> 0, num |-> <<>>, rest |-> <<>>, canon |-> FALSE, width |-> 0]
  ELSE [ok |-> TRUE, n |-> IF Small(CSValue(m)) THEN NatOf(CSValue(m)) ELSE 0 - 1,
        num |-> [i \in 1..4 |-> IF i <= Len(CSValue(m)) THEN CSValue(m)[i] ELSE 0],
        rest |-> Drop(s, m.width), canon |-> CSCanonical(m), width |-> m.width]

\* ---------------------------------------------------------------- length-prefixed strings
VarBytes(s) == Cat(CompactSize(Size(s)), s)
\* (sizes are measured on the part taken, never on the whole remaining input: the input may be long)
ReadVarBytes(s) ==
  LET c == ReadCompactSize(s) IN
  IF ~c.ok \/ c.n < 0 THEN [ok |-> FALSE, v |-> <<>>, rest |-> <<>>, canon |-> FALSE]
  ELSE LET p == Split(c.rest, c.n) IN
       IF Size(p[1]) < c.n THEN [ok |-> FALSE, v |-> <<>>, rest |-> <<>>, canon |-> FALSE]
       ELSE [ok |-> TRUE, v |-> p[1], rest |-> p[2], canon |-> c.canon]
ReadFixed(s, k) ==
  LET p == Split(s, k) IN
  IF Size(p[1]) < k THEN [ok |-> FALSE, v |-> <<>>, rest |-> <<>>]
  ELSE [ok |-> TRUE, v |-> p[1], rest |-> p[2]]

\* ---------------------------------------------------------------- export (text for the harness)
HexDigit == <<"0","1","2","3","4","5","6","7","8","9","a","b","c","d","e","f">>
HexByte(b) == HexDigit[(b \div 16) + 1] \o HexDigit[(b % 16) + 1]
\* a byte string as a sequence of tokens: hex text for short runs, "*<hex>x<len>" for a run of >= 5
Show(s) ==
  LET step(acc, r) ==
        IF r[2] >= 5 THEN <<Append(acc[1], "*" \o HexByte(r[1]) \o "x" \o ToString(r[2])), FALSE>>
        ELSE LET h == HexByte(r[1])
                 t == IF r[2] = 1 THEN h ELSE IF r[2] = 2 THEN h \o h ELSE IF r[2] = 3 THEN h \o h \o h ELSE h \o h \o h \o h
                 toks == acc[1]
             IN IF acc[2] THEN <<[toks EXCEPT ![Len(toks)] = @ \o t], TRUE>> ELSE <<Append(toks, t), TRUE>>
  IN FoldLeft(step, <<<<>>, FALSE>>, s)[1]
=============================================================================
