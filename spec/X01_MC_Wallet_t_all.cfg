CONSTANTS N = 3  W = 1
          T = 3  MaxOut = 2  Base = 1  Fee = 1  KMax = 3
          SendAmts = {2}  OwnModes = {1}  MaxIns = 2  MaxBlockTx = 2
          MaxDeliver = 99  MaxMem = 99  MaxSend = 99  MaxRewind = 99
          RewindInclusive = TRUE  KeepOnConfirm = TRUE  KeepOnMempool = TRUE
          UnconfInZero = TRUE  ZeroSentinel = FALSE
INIT XInit
NEXT XNext
VIEW XView
INVARIANT OpsFit
INVARIANT ViewOk
INVARIANT LbiOk
INVARIANT StateIsReplay
INVARIANT BalanceOk
INVARIANT SendSound
CHECK_DEADLOCK FALSE
