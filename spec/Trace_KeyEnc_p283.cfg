CONSTANTS P = 283  A = 0  B = 3  Gx = 1  Gy = 2  N = 277
SPECIFICATION TSpec
CONSTRAINT Reached
POSTCONDITION Post
CHECK_DEADLOCK FALSE
