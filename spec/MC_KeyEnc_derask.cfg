CONSTANTS P = 43  A = 0  B = 7  Gx = 2  Gy = 12  N = 31
          SecLens <- LensQ
          Stage = "derask"
          SecPfx = {4}  SecXs = {0}  SecYs = {0}  SecLongYs = {0} DerPos <- PosNone  DerExt <- One0  DerExtLen = 0
SPECIFICATION Spec
INVARIANT NoBad
CHECK_DEADLOCK FALSE
