CONSTANTS N = 3  W = 1
          T = 3  MaxOut = 2  Base = 1  Fee = 1  KMax = 3
          SendAmts = {2}  OwnModes = {2, 3}  MaxIns = 2  MaxBlockTx = 2
          MaxDeliver = 99  MaxMem = 0  MaxSend = 0  MaxRewind = 0
          RewindInclusive = TRUE  KeepOnConfirm = TRUE  KeepOnMempool = TRUE
          UnconfInZero = TRUE  ZeroSentinel = FALSE
INIT XInit
NEXT XNext
VIEW XView
INVARIANT OpsFit
INVARIANT ViewOk
INVARIANT LbiOk
INVARIANT StateIsReplay
INVARIANT BalanceOk
INVARIANT SendSound
CHECK_DEADLOCK FALSE
