------------------------------- MODULE Signer -------------------------------
(* C05: what signing the standard inputs of a transaction must achieve.       *)
(*                                                                            *)
(* The rule book transcribed here is the property itself plus the consensus   *)
(* facts it leans on (script-size limits, which puzzle kinds may carry        *)
(* uncompressed keys, the fork-id bit, Bitcoin Core's standard script flags). *)
(* Nothing is taken from pycoin's solver.                                     *)
(*                                                                            *)
(* A transaction has a sequence of inputs; input i spends a standard puzzle   *)
(* described by shape[i] = [kind, m, keys, form]: keys is the ORDERED list of *)
(* public keys named by the puzzle (one key for the single-key kinds), m the  *)
(* number of signatures it demands.  Keys are abstract ids 1..NK; a key that  *)
(* no puzzle lists is a "wrong" key.  The state records, per input, which     *)
(* listed keys have a signature in the unlocking data and the hash-type byte  *)
(* that signature carries.  One action - SignPass - is one call of the        *)
(* signing API with a set of keys supplied through one of the mechanisms.     *)
EXTENDS Integers, Sequences, FiniteSets, FiniteSetsExt, SequencesExt, TLC

CONSTANTS NK,         \* keys are 1..NK
          NM,         \* hierarchical (BIP32) masters 1..NM; key k hangs below master MasterOf(k)
          Shapes,     \* the transaction shapes to explore (set of sequences of puzzle descriptors)
          Coins,      \* subset of AllCoins
          HashTypes,  \* requested hash types, subset of StdHashTypes
          MaxPasses

Keys == 1..NK
Masters == 1..NM
MasterOf(k) == ((k - 1) % NM) + 1

----------------------------------------------------------------------------
(* Coins *)
AllCoins == {"BTC", "XTN", "LTC", "BCH", "BTG", "DOGE"}
ForkIdCoins == {"BCH", "BTG"}
\* Bitcoin Cash never activated segregated witness: witness puzzles do not exist there
HasWitness(coin) == coin # "BCH"

(* Hash types: ALL / NONE / SINGLE, each with or without ANYONECANPAY *)
StdHashTypes == {1, 2, 3, 129, 130, 131}
\* the byte a signature made for requested type ht carries on this coin
SigByte(coin, ht) == IF coin \in ForkIdCoins THEN ht + 64 ELSE ht

(* Bitcoin Core's STANDARD_SCRIPT_VERIFY_FLAGS (policy/policy.h, segwit v0    *)
(* era).  The property: on fork-id coins the same set without STRICTENC       *)
(* ("the defined-hash-type rule has no fork-id-aware form here").             *)
StandardFlags == {"P2SH", "STRICTENC", "DERSIG", "LOW_S", "NULLDUMMY", "MINIMALDATA",
                  "DISCOURAGE_UPGRADABLE_NOPS", "CLEANSTACK", "CHECKLOCKTIMEVERIFY",
                  "CHECKSEQUENCEVERIFY", "WITNESS", "DISCOURAGE_UPGRADABLE_WITNESS_PROGRAM",
                  "MINIMALIF", "NULLFAIL", "WITNESS_PUBKEYTYPE"}
PolicyFlags(coin) == IF coin \in ForkIdCoins THEN StandardFlags \ {"STRICTENC"} ELSE StandardFlags

----------------------------------------------------------------------------
(* Puzzle kinds and what is feasible *)
SingleKinds == {"p2pk", "p2pkh", "p2wpkh", "p2sh_p2wpkh"}
MultiKinds == {"ms_bare", "ms_p2sh", "ms_p2wsh", "ms_p2sh_p2wsh"}
Kinds == SingleKinds \cup MultiKinds
WitnessKinds == {"p2wpkh", "p2sh_p2wpkh", "ms_p2wsh", "ms_p2sh_p2wsh"}
\* kinds whose unlocking data embeds a script only its hash is committed to by the
\* spent output: the caller has to supply that script
NeedsScripts(kind) == kind \in {"p2sh_p2wpkh", "ms_p2sh", "ms_p2wsh", "ms_p2sh_p2wsh"}

Forms == {"c", "u"}                      \* compressed / uncompressed SEC encoding
KeyLen(form) == IF form = "c" THEN 33 ELSE 65

\* bytes needed to push the small integer k: OP_1..OP_16 are single opcodes, 17..20 need
\* a one-byte push
SmallIntLen(k) == IF k <= 16 THEN 1 ELSE 2
\* OP_m <key>*n OP_n OP_CHECKMULTISIG
MultisigScriptLen(m, n, form) == SmallIntLen(m) + n * (1 + KeyLen(form)) + SmallIntLen(n) + 1

MAX_SCRIPT_ELEMENT_SIZE == 520           \* a P2SH redeem script is pushed by the scriptSig
MAX_SCRIPT_SIZE == 10000                 \* bare scripts and witness scripts
MAX_PUBKEYS_PER_MULTISIG == 20

WellFormed(d) ==
    /\ d.kind \in Kinds /\ d.form \in Forms
    /\ Len(d.keys) >= 1 /\ \A a, b \in 1..Len(d.keys) : d.keys[a] = d.keys[b] => a = b
    /\ \A a \in 1..Len(d.keys) : d.keys[a] \in Keys
    /\ IF d.kind \in SingleKinds THEN d.m = 1 /\ Len(d.keys) = 1
       ELSE 1 <= d.m /\ d.m <= Len(d.keys)

Feasible(d) ==
    /\ WellFormed(d)
    \* BIP143 policy (WITNESS_PUBKEYTYPE): only compressed keys inside witness programs
    /\ d.form = "u" => d.kind \notin WitnessKinds
    /\ d.kind \in MultiKinds =>
         /\ Len(d.keys) <= MAX_PUBKEYS_PER_MULTISIG
         /\ LET L == MultisigScriptLen(d.m, Len(d.keys), d.form)
            IN IF d.kind = "ms_p2sh" THEN L <= MAX_SCRIPT_ELEMENT_SIZE ELSE L <= MAX_SCRIPT_SIZE

FeasibleOn(coin, d) == Feasible(d) /\ (d.kind \in WitnessKinds => HasWitness(coin))
ShapeOK(coin, sh) == Len(sh) >= 1 /\ \A i \in 1..Len(sh) : FeasibleOn(coin, sh[i])

\* boundary facts the quantifier of the property names (checked by TLC as ASSUME)
Desc(kind, m, n, form) == [kind |-> kind, m |-> m, keys |-> [j \in 1..n |-> j], form |-> form]
ASSUME SizeBoundaries ==
    /\ MultisigScriptLen(15, 15, "c") = 513 /\ MultisigScriptLen(14, 14, "c") = 479
    /\ MultisigScriptLen(2, 16, "c") = 547 /\ MultisigScriptLen(20, 20, "c") = 685
    /\ NK >= 20 =>
         /\ Feasible(Desc("ms_p2sh", 15, 15, "c")) /\ ~Feasible(Desc("ms_p2sh", 1, 16, "c"))
         /\ Feasible(Desc("ms_p2sh", 7, 7, "u")) /\ ~Feasible(Desc("ms_p2sh", 1, 8, "u"))
         /\ Feasible(Desc("ms_p2wsh", 20, 20, "c")) /\ Feasible(Desc("ms_p2sh_p2wsh", 20, 20, "c"))
         /\ Feasible(Desc("ms_bare", 20, 20, "u")) /\ ~Feasible(Desc("ms_p2wsh", 1, 2, "u"))
    /\ NK >= 21 => ~Feasible(Desc("ms_p2wsh", 1, 21, "c"))

----------------------------------------------------------------------------
(* State *)
VARIABLES coin,      \* the network
          shape,     \* the puzzles spent, one descriptor per input (never changes)
          signed,    \* signed[i]: set of <<key, signature byte>>: listed keys whose signature is present
          valid,     \* valid[i]: the input validates under PolicyFlags(coin)
          frame,     \* everything a signer must not touch (abstract tokens, see FrameOf)
          unlock,    \* unlock[i]: generation number of input i's unlocking script + witness
          offered,   \* history: offered[i] = keys supplied so far in passes that could sign input i
          nouts,     \* number of outputs (matters to SIGHASH_SINGLE when the transaction is edited)
          kcReg, kcSec, kcScr, \* a long-lived keychain: registered key paths, masters whose private node
                        \* it holds, whether the redeem / witness scripts were added to it
          npass

vars == <<coin, shape, signed, valid, frame, unlock, offered, nouts, kcReg, kcSec, kcScr, npass>>

NIn == Len(shape)
Ins == 1..NIn
Listed(i) == ToSet(shape[i].keys)
Present(i) == {p[1] : p \in signed[i]}
Need(i) == shape[i].m

\* version, lock time, every outpoint and sequence, every output: here only their identity matters
\* (edits: what the CALLER changed since, see Edit)
FrameOf(sh) == [ver |-> "v", lock |-> "l", ins |-> [i \in 1..Len(sh) |-> <<"op", i, "seq", i>>], outs |-> "outs",
                edits |-> <<>>]

TypeOK ==
    /\ coin \in Coins /\ shape \in Shapes /\ ShapeOK(coin, shape)
    /\ \A i \in Ins : /\ signed[i] \subseteq (Listed(i) \X {SigByte(coin, h) : h \in StdHashTypes})
                      /\ \A p, q \in signed[i] : p[1] = q[1] => p = q
                      /\ valid[i] \in BOOLEAN /\ offered[i] \subseteq Keys
    /\ kcReg \subseteq Keys /\ kcSec \subseteq Masters /\ kcScr \in BOOLEAN /\ npass \in 0..MaxPasses
    /\ nouts \in 0..4

InitWithN(c, sh, n) ==
    /\ coin = c /\ shape = sh /\ nouts = n
    /\ signed = [i \in 1..Len(sh) |-> {}]
    /\ valid = [i \in 1..Len(sh) |-> FALSE]
    /\ frame = FrameOf(sh)
    /\ unlock = [i \in 1..Len(sh) |-> 0]
    /\ offered = [i \in 1..Len(sh) |-> {}]
    /\ kcReg = {} /\ kcSec = {} /\ kcScr = FALSE /\ npass = 0
InitWith(c, sh) == InitWithN(c, sh, 2)
Init == \E c \in Coins : \E sh \in {x \in Shapes : ShapeOK(c, x)} : InitWith(c, sh)

----------------------------------------------------------------------------
(* Key-supply mechanisms.  A pass p is a record                               *)
(*   [mech, K, I, ht, scr, reg, sec, fresh, ic, sc, via]                      *)
(*  mech = "lookup":   a table hash160 -> key built from the secrets of K     *)
(*  mech = "wifs":     the WIF texts of K                                     *)
(*  mech = "keychain": a keychain in which the derivation paths of the keys   *)
(*        reg are registered under their masters and which holds the private  *)
(*        node of the masters sec; a key is available iff its path is         *)
(*        registered AND its master's private node is held.  fresh = FALSE    *)
(*        keeps using the keychain of the earlier passes (tables accumulate,  *)
(*        including the scripts added to it).                                 *)
(*  I: the inputs the signer is asked to sign; ht: requested hash type;       *)
(*  scr: whether the redeem / witness scripts were supplied along.            *)
(*  ic: how I is handed over: "none" = the argument is omitted, which means   *)
(*      every input (so I = Ins); "set" / "list" / "tuple" = an explicit      *)
(*      collection of indices - an explicitly EMPTY collection asks for       *)
(*      nothing and nothing may change.                                       *)
(*  sc: how the redeem / witness scripts are handed over (scr = TRUE): a list,  *)
(*      a tuple, a set, or a ONE-SHOT iterable (a generator, iter(list)) -    *)
(*      all of them are "the scripts".                                        *)
(*  via: how a keychain pass / edit registers the key paths reg: "paths" =    *)
(*      one add_key_paths(master, paths) call per master; "keys12"/"keys21"   *)
(*      = one add_keys_path([master 1, master 2], path) call per path over    *)
(*      BOTH masters in that order (each key is then found under its own      *)
(*      master, whichever comes first in the call).                           *)
Containers == {"none", "set", "list", "tuple"}
ScriptContainers == {"list", "tuple", "set", "gen", "iter"}
RegVias == {"paths", "keys12", "keys21"}
Mechs == {"lookup", "wifs", "keychain"}
(* Front-ends.  "lookup" is Tx.sign(table), "wifs" is tx_utils.sign_tx(tx, wifs), "keychain" is        *)
(* Solver.sign(keychain): all three sign in place and return; how far they got is read off           *)
(* bad_solution_count() = the number of inputs that do not validate.  "create_signed" is             *)
(* tx_utils.create_signed_tx(spendables, payables, wifs): it builds the transaction, signs every      *)
(* input with the WIFs (so it is only a first pass over all inputs) and must RAISE - not return a     *)
(* transaction as if signed - exactly when some input was left failing validation.                    *)
FrontEnds == Mechs \cup {"create_signed"}

KcRegAfter(p) == IF p.mech # "keychain" THEN kcReg ELSE IF p.fresh THEN p.reg ELSE kcReg \cup p.reg
KcSecAfter(p) == IF p.mech # "keychain" THEN kcSec ELSE IF p.fresh THEN p.sec ELSE kcSec \cup p.sec
\* a keychain is also the table of scripts: scripts added in an earlier pass are still there
KcScrAfter(p) == IF p.mech # "keychain" THEN kcScr ELSE IF p.fresh THEN p.scr ELSE kcScr \/ p.scr
ScriptsAvailable(p) == IF p.mech = "keychain" THEN KcScrAfter(p) ELSE p.scr
Supplied(p) == IF p.mech = "keychain"
               THEN {k \in KcRegAfter(p) : MasterOf(k) \in KcSecAfter(p)}
               ELSE p.K

PassOK(p) == /\ p.mech \in FrontEnds /\ (p.mech = "create_signed" => npass = 0 /\ p.I = Ins /\ p.ic = "none")
             /\ p.K \subseteq Keys /\ p.I \subseteq Ins /\ p.ht \in HashTypes
             /\ p.scr \in BOOLEAN /\ p.reg \subseteq Keys /\ p.sec \subseteq Masters /\ p.fresh \in BOOLEAN
             /\ p.ic \in Containers /\ (p.ic = "none" => p.I = Ins)
             /\ p.sc \in ScriptContainers /\ p.via \in RegVias

----------------------------------------------------------------------------
(* The action *)
\* inputs this pass is entitled to rewrite: asked for, and not already valid
Touchable(p) == {i \in p.I : ~valid[i]}
\* inputs for which it can produce signatures at all
Signable(p) == {i \in Touchable(p) : NeedsScripts(shape[i].kind) => ScriptsAvailable(p)}

Usable(p, i) == Supplied(p) \cap Listed(i)
Pool(p, i) == Present(i) \cup Usable(p, i)
Target(p, i) == Min({Need(i), Cardinality(Pool(p, i))})
\* every set of signers the pass may leave behind on input i: existing signatures stay,
\* new ones come from supplied listed keys, and there are as many as possible up to m
\* (WHICH of the supplied keys sign when more are supplied than needed is left open)
Outcomes(p, i) == IF i \in Signable(p)
                  THEN {Present(i) \cup T : T \in kSubset(Target(p, i) - Cardinality(Present(i)),
                                                         Usable(p, i) \ Present(i))}
                  ELSE {Present(i)}
\* one outcome per input: sequences <<S_1, .., S_n>> with S_i \in Outcomes(p, i)
RECURSIVE PassChoices(_, _)
PassChoices(p, n) == IF n = 0 THEN {<<>>}
                 ELSE {Append(c, S) : c \in PassChoices(p, n - 1), S \in Outcomes(p, n)}
SignedWith(p, i, S) == signed[i] \cup {<<k, SigByte(coin, p.ht)>> : k \in S \ Present(i)}

\* the same as a predicate (what a trace checker needs: no enumeration of subsets)
IsOutcome(p, i, S) == IF i \in Signable(p)
                      THEN Present(i) \subseteq S /\ S \subseteq Pool(p, i) /\ Cardinality(S) = Target(p, i)
                      ELSE S = Present(i)

\* the pass p leaving the signers ch[i] on input i
SignPassWith(p, ch) ==
    /\ npass < MaxPasses /\ PassOK(p)
    /\ \A i \in Ins : IsOutcome(p, i, ch[i])
    /\ signed' = [i \in Ins |-> SignedWith(p, i, ch[i])]
    /\ valid' = [i \in Ins |-> Cardinality(ch[i]) >= Need(i)]
    /\ offered' = [i \in Ins |-> IF i \in Signable(p) THEN offered[i] \cup Supplied(p) ELSE offered[i]]
    /\ unlock' = [i \in Ins |-> IF i \in Touchable(p) THEN unlock[i] + 1 ELSE unlock[i]]
    /\ kcReg' = KcRegAfter(p) /\ kcSec' = KcSecAfter(p) /\ kcScr' = KcScrAfter(p)
    /\ npass' = npass + 1
    /\ UNCHANGED <<coin, shape, frame, nouts>>
SignPass(p) == \E ch \in PassChoices(p, NIn) : SignPassWith(p, ch)

\* what the front-end reports when the pass leaves the signers ch: the count of inputs that still
\* fail validation (whatever their position, whatever the number of outputs), and whether
\* create_signed_tx raises
BadAfter(ch) == Cardinality({i \in Ins : Cardinality(ch[i]) < Need(i)})
Reports(p, ch) == [bad |-> BadAfter(ch), raises |-> p.mech = "create_signed" /\ BadAfter(ch) > 0]
BadNow == Cardinality({i \in Ins : ~valid[i]})

(* The long-lived keychain is an object with a history of its own: between    *)
(* passes the caller may register more key paths (R), add the private node of *)
(* more masters (M), add the scripts (S).  Nothing in the transaction moves.  *)
(* What a later pass (mech = "keychain", fresh = FALSE) can sign is a         *)
(* function of what the keychain holds THEN - in particular a key that an     *)
(* earlier pass looked for in vain is found once its master has been added.   *)
KcAdd(R, M, S) ==
    /\ npass < MaxPasses /\ R \subseteq Keys /\ M \subseteq Masters /\ S \in BOOLEAN
    /\ kcReg' = kcReg \cup R /\ kcSec' = kcSec \cup M /\ kcScr' = (kcScr \/ S)
    /\ npass' = npass + 1
    /\ UNCHANGED <<coin, shape, signed, valid, frame, unlock, offered, nouts>>

(* Between passes the CALLER may edit the transaction ("adjust the fee, sign    *)
(* again").  What an edit does to the signatures already present is the       *)
(* commitment table of TxValidate.tla (C06): a signature whose hash type       *)
(* commits to the edited field no longer verifies - it is stale: its bytes    *)
(* are still in the unlocking data but it does not count - and the input is   *)
(* no longer valid; a signature that does not commit to the field survives    *)
(* and a still-valid input must be left untouched by later passes.  An input  *)
(* carrying stale signatures is an input "not already valid": a later pass    *)
(* with the keys has to make it validate again, REPLACING the stale           *)
(* signatures (NotAccumulated: never more signature items than the puzzle     *)
(* demands).  Edits only move away from what was signed (version + 1, an      *)
(* amount - 1, ...), never back.                                              *)
TV == INSTANCE TxValidate WITH MaxSteps <- 0, MaxInserts <- 0, hts <- <<>>, svs <- <<>>, nops <- <<>>, ukinds <- <<>>,
                               sview <- <<>>, orig <- <<>>, ver <- 0, lock <- 0, ins <- <<>>, outs <- <<>>,
                               lastval <- <<>>, steps <- 0, inserts <- 0
SigVersionOf(i) == IF coin \in ForkIdCoins THEN "forkid"
                   ELSE IF shape[i].kind \in WitnessKinds THEN "witness" ELSE "base"
HashTypeOfByte(b) == IF coin \in ForkIdCoins THEN b - 64 ELSE b
\* an edit is a field mutation record of TxValidate: [m |-> field, a |-> position (0 for version / lock time), b |-> 0]
EditFields == {"ver", "lock", "oph", "opi", "seq", "out_amt", "out_spk", "spent_amt"}
EditOK(x) == /\ x.m \in EditFields /\ x.b = 0
             /\ x.m \in {"ver", "lock"} => x.a = 0
             /\ x.m \in {"oph", "opi", "seq", "spent_amt"} => x.a \in Ins
             /\ x.m \in {"out_amt", "out_spk"} => x.a \in 1..nouts
GoesStale(i, sig, x) == TV!CommitsTo(i, HashTypeOfByte(sig[2]), SigVersionOf(i), x, nouts)
Edit(x) ==
    /\ npass < MaxPasses /\ EditOK(x)
    /\ signed' = [i \in Ins |-> {sig \in signed[i] : ~GoesStale(i, sig, x)}]
    /\ valid' = [i \in Ins |-> Cardinality({sig \in signed[i] : ~GoesStale(i, sig, x)}) >= Need(i)]
    \* what counts from here on is what still verifies
    /\ offered' = [i \in Ins |-> {sig[1] : sig \in {t \in signed[i] : ~GoesStale(i, t, x)}}]
    /\ frame' = [frame EXCEPT !.edits = Append(@, x)]
    /\ npass' = npass + 1
    /\ UNCHANGED <<coin, shape, unlock, nouts, kcReg, kcSec, kcScr>>
\* signature-shaped items (real, stale or placeholder) in the unlocking data of each input
NotAccumulated(items) == \A i \in Ins : items[i] <= Need(i)

\* the passes explored by the model-checking configurations (the replay modules choose their own)
AllPasses == [mech : Mechs, K : SUBSET Keys, I : SUBSET Ins, ht : HashTypes, scr : BOOLEAN,
              reg : SUBSET Keys, sec : SUBSET Masters, fresh : BOOLEAN, ic : {"none", "set"},
              sc : {"list"}, via : {"paths"}]
\* lookup/wifs passes do not use reg/sec; keychain passes do not use K: keep one representative
Canonical(p) == IF p.mech = "keychain" THEN p.K = {} ELSE p.reg = {} /\ p.sec = {} /\ p.fresh
\* (configurations override Passes to trade pass variety against depth)
Passes == {p \in AllPasses : Canonical(p)}
KcAdds == {a \in [R : {{}, Keys}, M : SUBSET Masters, S : BOOLEAN] : a.R # {} \/ a.M # {} \/ a.S}
Edits == {x \in [m : {"lock", "seq", "out_amt", "spent_amt"}, a : 0..2, b : {0}] : EditOK(x)}
Next == \/ \E p \in Passes : SignPass(p)
        \/ \E a \in KcAdds : KcAdd(a.R, a.M, a.S)
        \/ \E x \in Edits : Edit(x)
Spec == Init /\ [][Next]_vars

----------------------------------------------------------------------------
(* Lemmas (TLC: MC_Signer*.cfg) *)
\* an input is valid exactly when m distinct listed keys have signed
ValidIff == \A i \in Ins : valid[i] <=> Cardinality(Present(i)) >= Need(i)
\* never more signatures than demanded, only listed keys, only offered keys
SignedSane == \A i \in Ins : /\ Cardinality(Present(i)) <= Need(i)
                             /\ Present(i) \subseteq Listed(i) \cap offered[i]
\* too few or wrong keys: never valid
NeverValidWithFewKeys == \A i \in Ins : valid[i] => Cardinality(offered[i] \cap Listed(i)) >= Need(i)
\* confluence: how far an input got depends only on the UNION of the keys supplied to it,
\* not on how they were split into passes, their order, or the mechanism
Confluence == \A i \in Ins : Cardinality(Present(i)) = Min({Need(i), Cardinality(offered[i] \cap Listed(i))})
ValidDependsOnUnionOnly == \A i \in Ins : valid[i] <=> Cardinality(offered[i] \cap Listed(i)) >= Need(i)

\* the generator of outcomes and the predicate describe the same sets
OutcomesCharacterized ==
    \A p \in Passes : \A i \in Ins : Outcomes(p, i) = {S \in SUBSET Keys : IsOutcome(p, i, S)}

\* action properties
\* (a step that leaves the frame alone is a step of the signer / the keychain; the caller's edits change it)
Monotone == [][frame' = frame => \A i \in Ins : signed[i] \subseteq signed'[i] /\ (valid[i] => valid'[i])]_vars
ValidUntouched == [][frame' = frame => \A i \in Ins : valid[i] => signed'[i] = signed[i] /\ unlock'[i] = unlock[i]]_vars
\* whoever adds a signature leaves the frame alone; nobody touches shape, coin, the number of outputs
FrameKept == [][/\ shape' = shape /\ coin' = coin /\ nouts' = nouts
                /\ (\E i \in Ins : ~(signed'[i] \subseteq signed[i])) => frame' = frame
                /\ frame' # frame => unlock' = unlock /\ \A i \in Ins : signed'[i] \subseteq signed[i]]_vars
\* an edit never makes an input valid, and a valid input stays valid iff all its signatures survive
EditOnlyLoses == [][frame' # frame => \A i \in Ins : (valid'[i] => valid[i]) /\ (valid[i] /\ signed'[i] = signed[i] => valid'[i])]_vars
\* an input outside the asked set keeps its unlocking data
UnaskedUntouched == [][\A i \in Ins : unlock'[i] # unlock[i] => ~valid[i]]_vars
=============================================================================
