--------------------------- MODULE X04_Trace_TxTool ---------------------------
(* X04 - code -> spec: recorded invocations of the `tx` command are runs of   *)
(* X04_TxTool's actions.                                                      *)
(*                                                                            *)
(* A trace is ONE invocation:                                                 *)
(*   item      the work item in the rule book's shape: tokens (transactions   *)
(*             as TxWire records, texts as ParseDispatch structures,          *)
(*             spendables as records), options, the database with ids         *)
(*   kf        key facts (public encodings / hashes of every secret offered)  *)
(*   argbytes  for every transaction token and database entry the bytes that  *)
(*             were really given: the recorder's decomposition into a record  *)
(*             is CHECKED here (Wire / WireExt of the record = those bytes)   *)
(*   obs       what happened: how it ended, the bytes emitted (hex line or    *)
(*             -o file), the dump line by line (addresses decoded by an       *)
(*             independent decoder into Address structures, amounts as        *)
(*             digits), listing lines, the remarks by kind, the verdict about *)
(*             the source transactions, and the hint of the signing stage:    *)
(*             unlocking data of the emitted transaction, the library's       *)
(*             validation of each input of the emitted transaction and of the *)
(*             same invocation run without its keys (= solved before signing),*)
(*             under the WORLD's spent outputs (what the outpoints really     *)
(*             hold, known to the recorder)                                   *)
(* The trace is accepted iff the actions options -> collect -> merge -> edit  *)
(* -> fee -> sign(hint) -> report can be taken and the outcome they produce   *)
(* is the observed one.  Seeded random invocations (more inputs and outputs,  *)
(* amounts up to 21e14, transactions beyond 1000 bytes, several networks)     *)
(* and the repository's own tx_*.txt test files (ground truth for this spec)  *)
(* go through the same module.                                                *)
EXTENDS X04_TxTool, Json, IOUtils

Traces == JsonDeserialize(IOEnv.TRACE_FILE)
NTraces == Len(Traces)

VARIABLES tid
tvars == <<pc, wk, tid>>
Tr == Traces[tid]
Obs == Tr.obs

\* ---------------------------------------------------------------- the recorder's decomposition is faithful
TokBytes(tkQ) == IF tkQ.uns = <<>> THEN Wire(tkQ.tx) ELSE WireExt(tkQ.tx, ExtUnspents(tkQ.uns))
ArgsFaithful ==
  /\ \A iQ \in 1..Len(Tr.item.args) : Tr.item.args[iQ].k = "tx" => TokBytes(Tr.item.args[iQ]) = Tr.argbytes[iQ]
  /\ \A kQ \in 1..Len(Tr.item.db) : Wire(Tr.item.db[kQ].tx) = Tr.dbbytes[kQ] /\ ~HasWitness(Tr.item.db[kQ].tx)

\* ---------------------------------------------------------------- the hint
\* validity of input i of the emitted transaction: unknown source -> never; believed = world -> the library's
\* validation under the world's outputs; believed # world (a spendable that lies) -> as the dump claims
BelievedIsWorld(usQ, iQ) == iQ <= Len(Obs.world) /\ Obs.world[iQ].known /\ usQ[iQ].amount = Trim(Obs.world[iQ].amount) /\ usQ[iQ].script = Obs.world[iQ].script
\* (believed # world and nothing shown: the verdict cannot be observed and is taken as the rule book demands it)
ValidOf(sQ, seqQ, iQ) ==
  LET usQ == sQ.uns IN
  IF iQ > Len(usQ) \/ ~usQ[iQ].known THEN FALSE
  ELSE IF BelievedIsWorld(usQ, iQ) THEN seqQ[iQ]
  ELSE IF iQ <= Len(Obs.dumpok) THEN Obs.dumpok[iQ]
  ELSE CanSign(sQ) /\ Signable(wk.kf, sQ.keys, usQ[iQ])
LoggedHint(sQ) ==
  LET chQ(iQ) == Changed(sQ.tx, [unlock |-> Obs.unlock, wit |-> Obs.wit], iQ) IN
  [unlock |-> Obs.unlock, wit |-> Obs.wit,
   ok  |-> [iQ \in 1..Len(sQ.tx.ins) |-> ValidOf(sQ, Obs.okw, iQ)],
   was |-> [iQ \in 1..Len(sQ.tx.ins) |-> ~chQ(iQ) /\ (IF iQ <= Len(sQ.uns) /\ sQ.uns[iQ].known /\ BelievedIsWorld(sQ.uns, iQ)
                                                        THEN Obs.wasw[iQ] ELSE ValidOf(sQ, Obs.okw, iQ))]]
HintShaped(sQ) == Len(Obs.unlock) = Len(sQ.tx.ins) /\ Len(Obs.wit) = Len(sQ.tx.ins) /\ Len(Obs.okw) = Len(sQ.tx.ins) /\ Len(Obs.wasw) = Len(sQ.tx.ins)

\* ---------------------------------------------------------------- does the outcome explain the observation?
Said == {Obs.said[iQ] : iQ \in 1..Len(Obs.said)}
SaidOK(oQ) ==
  /\ \A altQ \in oQ.says : altQ \cap Said # {}
  /\ Said \subseteq (UNION oQ.says) \cup oQ.may \cup {"env"}
\* what the dump shows in the address column for a script that is none of the address kinds is not specified
\* amounts beyond 21 million coins (11 digits before the point, 21,000,000,000.00000 at most): the printed digits are not judged
\* (the tool prints through a binary float, exact only up to about 2^52 satoshi; no such money exists)
AmtJudged(aQ) == \/ Len(aQ.int) <= 10
                 \/ Len(aQ.int) = 11 /\ (aQ.int[1] = 1 \/ (aQ.int[1] = 2 /\ aQ.int[2] = 0))
                 \/ aQ = [int |-> <<2, 1, 0, 0, 0, 0, 0, 0, 0, 0, 0>>, frac |-> <<0, 0, 0, 0, 0>>]
LineMatches(obQ, spQ) ==
  /\ obQ.k = spQ.k
  /\ \E oaQ \in {IF spQ.k # "hdr" /\ ~AmtJudged(spQ.amt) THEN [obQ EXCEPT !.amt = spQ.amt] ELSE obQ} :
       IF spQ.k \in {"in", "out"} /\ spQ.addr = NoAddr THEN [oaQ EXCEPT !.addr = NoAddr] = spQ ELSE oaQ = spQ
DumpMatches(obQ, spQ) == Len(obQ) = Len(spQ) /\ \A iQ \in 1..Len(spQ) : LineMatches(obQ[iQ], spQ[iQ])
\* in the listing modes the transaction itself is not shown: what signing did cannot be observed
SignKinds == {"signing", "still_unsigned", "including_unspents"}
Explains(oQ) ==
  IF oQ.r = "open" THEN Obs.r # "traceback"
  ELSE IF oQ.r = "refused" THEN Obs.r = "exit" /\ Obs.message
  ELSE IF oQ.r = "malformed" THEN (Obs.r = "exit" /\ Obs.message) \/ (Obs.r = "completed" /\ "remark" \in Said)
  ELSE /\ Obs.r = "completed"
       /\ Obs.mode = oQ.mode
       /\ oQ.mode \in {"dump", "file"} => Obs.bytes = oQ.bytes
       /\ oQ.mode = "dump" => /\ DumpMatches(Obs.dump, oQ.dump)
                              /\ Obs.size = Size(Wire(oQ.tx))
       /\ oQ.mode \in {"unspents", "inputs"} => Obs.lines = oQ.lines
       /\ IF Obs.errseen THEN Obs.verdict = oQ.verdict ELSE (Obs.verdict = "validated") = (oQ.verdict = "validated")
       /\ IF ~Obs.errseen       \* a canned observation holds stdout only: of the remarks only those printed there are known
          THEN ("including_unspents" \in Said) = ({"including_unspents"} \in oQ.says \/ ("including_unspents" \in Said /\ "including_unspents" \in oQ.may))
          ELSE IF Obs.seen THEN SaidOK(oQ) /\ (Obs.nstill >= 0 => Obs.nstill = oQ.bad)
          ELSE /\ \A altQ \in oQ.says : altQ \cap SignKinds = {} => altQ \cap Said # {}
               /\ Said \subseteq (UNION oQ.says) \cup oQ.may \cup {"env"} \cup SignKinds

\* ---------------------------------------------------------------- the run
Init == /\ tid \in 1..NTraces /\ pc = "check" /\ wk = Work(Traces[tid].item, Traces[tid].kf)
Check == /\ pc = "check" /\ ArgsFaithful /\ pc' = "options" /\ UNCHANGED <<wk, tid>>
Sign == /\ pc = "sign" /\ Obs.seen /\ HintShaped(PreSign(wk))
        /\ \E hQ \in {LoggedHint(PreSign(wk))} : StepSign(hQ)
        /\ UNCHANGED tid
\* the emitted transaction was not shown (listing modes) or nothing was emitted: the signing stage cannot be checked;
\* the outcome is computed with nothing solved and what depends on it is not compared (Explains)
BlindHint(sQ) == [unlock |-> [iQ \in 1..Len(sQ.tx.ins) |-> sQ.tx.ins[iQ].script], wit |-> [iQ \in 1..Len(sQ.tx.ins) |-> sQ.tx.ins[iQ].wit],
                  ok |-> [iQ \in 1..Len(sQ.tx.ins) |-> FALSE], was |-> [iQ \in 1..Len(sQ.tx.ins) |-> FALSE]]
SignUnseen == /\ pc = "sign" /\ ~Obs.seen
              /\ wk' = [wk EXCEPT !.o = OutcomeOf(wk.item, PreSign(wk), BlindHint(PreSign(wk)))] /\ pc' = "report"
              /\ UNCHANGED tid
\* one accepted record per trace (any number of workers); the harness takes the complement
Accept == /\ pc = "done" /\ Explains(wk.o) /\ pc' = "accepted" /\ UNCHANGED <<wk, tid>>
          /\ PrintT(ToJson([k |-> "acc", tid |-> tid, id |-> Tr.id, r |-> wk.o.r, why |-> wk.o.why,
                            stripped |-> IF wk.o.r = "ok" /\ HasWitness(wk.o.tx) THEN Show(Stripped(wk.o.tx)) ELSE <<>>,
                            size |-> IF wk.o.r = "ok" THEN Size(Wire(wk.o.tx)) ELSE 0]))
Lift(A) == A /\ UNCHANGED tid
Next == \/ Check \/ Lift(StepOptions) \/ Lift(StepCollect) \/ Lift(StepMerge) \/ Lift(StepEdit) \/ Lift(StepFee)
        \/ Sign \/ SignUnseen \/ Lift(StepReport) \/ Accept
Spec == Init /\ [][Next]_tvars

ASSUME Header == PrintT(ToJson([k |-> "hdr", n |-> NTraces]))

\* ---------------------------------------------------------------- diagnosis (cfg _diag): where does a rejected trace stop,
\* and what would the rule book have demanded?  Printed for every state reached.
Diag == PrintT(ToJson([k |-> "at", tid |-> tid, id |-> Tr.id, pc |-> pc, st |-> wk.st, why |-> wk.why,
                       o |-> IF pc = "done" /\ wk.o.r = "ok"
                             THEN [mode |-> wk.o.mode, bytes |-> Show(wk.o.bytes), dump |-> wk.o.dump, lines |-> wk.o.lines,
                                   says |-> wk.o.says, may |-> wk.o.may, verdict |-> wk.o.verdict, bad |-> wk.o.bad, fs |-> wk.o.fs,
                                   uns |-> [iQ \in 1..Len(wk.o.uns) |-> [known |-> wk.o.uns[iQ].known]]]
                             ELSE IF pc = "done" THEN [r |-> wk.o.r, why |-> wk.o.why]
                             ELSE IF pc = "sign" THEN [r |-> "sign", hintshaped |-> HintShaped(PreSign(wk)),
                                                       signok |-> IF HintShaped(PreSign(wk)) THEN SignOK(wk.kf, PreSign(wk), LoggedHint(PreSign(wk))) ELSE FALSE,
                                                       uns |-> PreSign(wk).uns, hint |-> IF HintShaped(PreSign(wk)) THEN LoggedHint(PreSign(wk)) ELSE <<>>]
                             ELSE <<>>]))
=============================================================================
