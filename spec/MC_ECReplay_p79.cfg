CONSTANTS P = 79  A = 0  B = 3  Gx = 1  Gy = 2  N = 97  MaxM = 98
SPECIFICATION Spec
CHECK_DEADLOCK FALSE
