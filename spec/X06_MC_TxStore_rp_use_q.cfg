CONSTANTS MaxOps = 3  MaxEdit = 1  MaxSetLook = 0  Univ = 2  Ops <- OpsUse
          EditKinds <- KindsFew  LookKinds <- LKindsFew  FillSet <- SFillQ  ValSet <- SValQ
          Ids <- MCIds  SegIds <- MCSegIds  NOut <- MCNOut  Confs <- MCConfsU  Spenders <- MCSp
          BadFileRaises <- SwBadFile  OobIndexError <- SwOob
INIT MInit
NEXT MNextE
VIEW MView
CHECK_DEADLOCK FALSE
