---------------------------- MODULE Trace_MsgSign ----------------------------
(* Code -> spec binding for C17: recorded runs of pycoin's network.msg on     *)
(* secp256k1 (seeded random keys, networks and messages beyond the replay     *)
(* grid) are checked against MsgText.tla.  One trace = one signer session:    *)
(*   sign    the signature text pycoin produced, its digest, the key          *)
(*   recover what pair_for_message_hash returned for that signature         *)
(*   verify  a verification call (verifier's network, message, key or         *)
(*           address, form) and the boolean pycoin answered                   *)
(*   armour  the armoured text pycoin produced                                *)
(*   parse   what pycoin parsed back from an armoured text                    *)
(* TLC checks everything structural (base64, 65 bytes, header byte = 27 +     *)
(* recid + 4*compressed, armour = Format(...), parse = ParseSigned(...), the  *)
(* verdict = the abstract rule "same magic, same message, same key [and       *)
(* form]").  What needs 256-bit arithmetic is printed as an OBLIGATION (the   *)
(* digest term and the recovery term Recover(e, r, s, recid) = signer) that   *)
(* the harness evaluates with hashlib and an independent secp256k1 evaluator. *)
EXTENDS MsgText, Json, IOUtils, TLCExt

Traces == JsonDeserialize(IOEnv.TRACE_FILE)
VARIABLES tid, l, cur
tvars == <<tid, l, cur>>
Tr == Traces[tid]
Ev == Tr.ev
E == Ev[l]

\* code point -> base64 character (anything else becomes "?", which is no base64 character)
CharOf(cp) == IF cp \in 65..90 THEN B64Chars[cp - 64]
              ELSE IF cp \in 97..122 THEN B64Chars[cp - 70]
              ELSE IF cp \in 48..57 THEN B64Chars[cp + 5]
              ELSE IF cp = 43 THEN "+" ELSE IF cp = 47 THEN "/" ELSE IF cp = 61 THEN "=" ELSE "?"
Chars(cps) == [i \in 1..Len(cps) |-> CharOf(cps[i])]

TInit == /\ TLCSet(1, {})
         /\ tid \in 1..Len(Traces) /\ l = 1 /\ cur = <<>>

\* pycoin signed Tr.msg on network Tr.name with key Tr.pub in form Tr.comp and answered E.sig
TSign == /\ l <= Len(Ev) /\ E.op = "sign"
         /\ \E dec \in {B64Decode(Chars(E.sig))} :
              /\ dec.ok /\ Len(dec.v) = 65
              /\ HeaderOk(dec.v[1]) /\ HeaderComp(dec.v[1]) = Tr.comp
              /\ Chars(E.sig) = B64Encode(dec.v)                                      \* canonical text, 88 characters
              /\ Len(E.sig) = 88
              /\ cur' = dec.v
              /\ PrintT(ToJson([k |-> "ob", tid |-> tid, l |-> l,
                                digest |-> DigestTerm(Tr.name, RunText(Tr.msg)), logged_digest |-> E.digest,
                                r |-> SubSeq(dec.v, 2, 33), s |-> SubSeq(dec.v, 34, 65), recid |-> HeaderRecid(dec.v[1]),
                                pub |-> Tr.pub, d |-> Tr.d]))
         /\ l' = l + 1 /\ UNCHANGED tid
\* abstract rule (MC_MsgNetReplay!VerifyAbs): same digest term, same key, and for an address the same form
TVerify == /\ l <= Len(Ev) /\ E.op = "verify" /\ cur # <<>>
           /\ E.res = ( /\ DigestTerm(E.name, RunText(E.msg)) = DigestTerm(Tr.name, RunText(Tr.msg))
                        /\ E.pub = Tr.pub
                        /\ (E.who = "addr" => E.comp = Tr.comp) )
           /\ l' = l + 1 /\ UNCHANGED <<tid, cur>>
\* pycoin's pair_for_message_hash on its own signature: exactly the signer's key and form
TRecover == /\ l <= Len(Ev) /\ E.op = "recover" /\ cur # <<>>
            /\ E.pub = Tr.pub /\ E.comp = Tr.comp
            /\ l' = l + 1 /\ UNCHANGED <<tid, cur>>
TArmour == /\ l <= Len(Ev) /\ E.op = "armour" /\ cur # <<>>
           /\ E.text = Format(UpperAscii(Tr.name), Tr.msg, E.addr, E.sig)
           /\ Chars(E.sig) = B64Encode(cur)
           /\ l' = l + 1 /\ UNCHANGED <<tid, cur>>
TParse == /\ l <= Len(Ev) /\ E.op = "parse"
          /\ \E p \in {ParseSigned(E.text)} :
               /\ p.ok = E.ok
               /\ (p.ok => p.msg = E.msg /\ p.addr = E.addr /\ p.sig = E.sig)
          /\ l' = l + 1 /\ UNCHANGED <<tid, cur>>
\* a signature found in the wild (ground-truth vectors): decode it and ask the harness who signed E.msg
TVSig == /\ l <= Len(Ev) /\ E.op = "vsig"
         /\ \E dec \in {B64Decode(Chars(E.sig))} :
              /\ dec.ok /\ Len(dec.v) = 65 /\ HeaderOk(dec.v[1])
              /\ PrintT(ToJson([k |-> "ob2", tid |-> tid, l |-> l, digest |-> DigestTerm(Tr.name, RunText(E.msg)),
                                r |-> SubSeq(dec.v, 2, 33), s |-> SubSeq(dec.v, 34, 65), recid |-> HeaderRecid(dec.v[1]),
                                comp |-> HeaderComp(dec.v[1])]))
         /\ l' = l + 1 /\ UNCHANGED <<tid, cur>>
TNext == TSign \/ TVerify \/ TRecover \/ TArmour \/ TParse \/ TVSig
TSpec == TInit /\ [][TNext]_tvars

Reached == IF l = Len(Ev) + 1 THEN TLCSet(1, TLCGet(1) \cup {tid}) ELSE TRUE
Post == PrintT(ToJson([k |-> "rejected", n |-> Len(Traces), ids |-> (1..Len(Traces)) \ TLCGet(1)]))
=============================================================================
