CONSTANTS MaxSmall = 30000  MaxExp = 14
SPECIFICATION Spec
INVARIANTS GridOK
CHECK_DEADLOCK FALSE
