----------------------------- MODULE MC_ECReplay -----------------------------
(* Spec -> code binding for C02: TLC evaluates the group law of EC.tla on the *)
(* curve named by the constants and prints complete operation tables; the    *)
(* harness (props/c02.py) executes every entry on pycoin's Curve / Point /    *)
(* Generator (pure Python) and compares coordinates.  One TLC state per table *)
(* row, so the rows are computed by all workers.                              *)
(*   curve  parameters, the points in the order Inf, G, 2G .., their negatives*)
(*   add    row i:  PtSeq[i] + PtSeq[j]  and  PtSeq[i] - PtSeq[j]  for all j  *)
(*   mul    row i:  k * PtSeq[i]  for k in -2N..2N and a few 31-bit k         *)
(*   bgm    blinding factor b:  (k+b)*G + (-b)*G  for k in -2N..2N            *)
(*   pfx    PointsForX(x) for every x in 0..P-1                               *)
(*   inv    modulus m: the inverse of every a in 1..m coprime to m (-1: none) *)
EXTENDS EC, Json, TLC

CONSTANT MaxM

VARIABLES c, done
vars == <<c, done>>

KSmall == [t \in 1..(4 * N + 1) |-> t - 2 * N - 1]
BigKs  == <<2147483647, -2147483647, 1073741824, 1000003, -65537>>
KSeq   == KSmall \o BigKs

Cases == {<<"curve", 0>>, <<"pfx", 0>>}
         \cup {<<"add", i>> : i \in 1..N} \cup {<<"mul", i>> : i \in 1..N}
         \cup {<<"bgm", b>> : b \in 0..(N - 1)} \cup {<<"inv", m>> : m \in 2..MaxM}

Row(kind, a) ==
  CASE kind = "curve" -> [k |-> "curve", P |-> P, A |-> A, B |-> B, G |-> G, N |-> N,
                          pts |-> PtSeq, negs |-> [i \in 1..N |-> Neg(PtSeq[i])]]
    [] kind = "add"   -> [k |-> "add", i |-> a,
                          sums  |-> [j \in 1..N |-> Add(PtSeq[a], PtSeq[j])],
                          diffs |-> [j \in 1..N |-> Sub(PtSeq[a], PtSeq[j])]]
    [] kind = "mul"   -> [k |-> "mul", i |-> a, ks |-> KSeq,
                          prods |-> [t \in 1..Len(KSeq) |-> SMul(KSeq[t], PtSeq[a])]]
    [] kind = "bgm"   -> [k |-> "bgm", b |-> a, ks |-> KSmall,
                          prods |-> [t \in 1..Len(KSmall) |-> BlindedGenMul(KSmall[t], a)]]
    [] kind = "pfx"   -> [k |-> "pfx", res |-> [i \in 1..P |-> PointsForX(i - 1)]]
    [] kind = "inv"   -> [k |-> "inv", m |-> a, tab |-> [x \in 1..a |-> InvMod(x, a)]]

Init == c \in Cases /\ done = FALSE
Emit == /\ ~done /\ done' = TRUE /\ UNCHANGED c
        /\ PrintT(ToJson(Row(c[1], c[2])))
Next == Emit
Spec == Init /\ [][Next]_vars
=============================================================================
