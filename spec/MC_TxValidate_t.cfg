CONSTANTS MaxSteps = 2  MaxInserts = 1  Mode = "model"  Cases <- ModelCasesT
SPECIFICATION MSpec
INVARIANTS FreshlySignedValid ReportedIsCurrent UnknownNeverValid CommitmentTable
CHECK_DEADLOCK FALSE
