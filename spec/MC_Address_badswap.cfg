CONSTANTS Table = {"swap"}  Mode = "lemma"  Fill = 17
SPECIFICATION Spec
INVARIANTS LemmaRoundTrip LemmaKindsApart LemmaCross LemmaEquiv
CHECK_DEADLOCK FALSE
