CONSTANTS U = "q"  MaxOps = 4  MaxGet = 2  Ops <- OpsUp
          Roots <- URoots  Info <- UInfo  Ranges <- URanges  Singles <- USingles  Scripts <- UScripts  QKeys <- UQKeys
          RootSets <- MCRootSetsQ  SecSets <- MCSecSetsUp  AskSet <- MCAskUp  NoDerivCheck <- No  Logging <- Yes
          PathRoots <- RAB  PathForms <- Forms  RangeIdx <- RI12  BackedSet <- Both
INIT MKInit
NEXT MKNextE
VIEW KView
CHECK_DEADLOCK FALSE
