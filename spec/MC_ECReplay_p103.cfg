CONSTANTS P = 103  A = 0  B = 5  Gx = 2  Gy = 42  N = 97  MaxM = 104
SPECIFICATION Spec
CHECK_DEADLOCK FALSE
