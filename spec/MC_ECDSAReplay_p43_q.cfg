CONSTANTS P = 43  A = 0  B = 7  Gx = 2  Gy = 12  N = 31
          SignZ = {1, 2, 3, 4, 5, 6, 7, 8, 9, 10, 11, 12, 13, 14, 15, 16, 30, 31}  VerZ = {1, 32}  VerQ = {2, 3, 5, 7, 9, 11, 13, 15, 17, 19, 21, 23, 25, 27, 29, 31}  RecZ = {1, 30, 31}
SPECIFICATION Spec
INVARIANT ReturnedVerifies
CHECK_DEADLOCK FALSE
