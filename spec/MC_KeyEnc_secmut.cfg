CONSTANTS P = 43  A = 0  B = 7  Gx = 2  Gy = 12  N = 31
          SecLens <- LensQ
          Stage = "secmut"
          SecPfx = {2, 3}  SecXs <- FieldEdge  SecYs = {}  SecLongYs = {} DerPos <- PosNone  DerExt <- One0  DerExtLen = 0
SPECIFICATION Spec
INVARIANT NoBad
CHECK_DEADLOCK FALSE
