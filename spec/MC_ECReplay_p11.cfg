CONSTANTS P = 11  A = 1  B = 6  Gx = 2  Gy = 4  N = 13  MaxM = 14
SPECIFICATION Spec
CHECK_DEADLOCK FALSE
