------------------------------ MODULE Trace_C11 ------------------------------
(* Code -> spec binding for C11: recorded sessions of pycoin's codecs are      *)
(* validated against Base58.tla / Bech32.tla.  One event = one call with its   *)
(* input and what pycoin answered; TLC recomputes the answer the rule books    *)
(* demand and takes the step only if the logged one is it.                     *)
(*                                                                             *)
(* Base58Check needs SHA256d: in phase "terms" TLC prints, for each event, the *)
(* term H4Term(x) whose value decides it (x chosen by the spec: the payload to *)
(* encode, or the candidate payload Split58Check finds in the string to        *)
(* decode); the stdlib evaluator stores the value in the event (hq); in phase  *)
(* "check" the spec verifies hq answers the right term and uses its value.     *)
EXTENDS Base58, Bech32, Json, IOUtils, TLC, TLCExt
CONSTANT Phase
Traces == JsonDeserialize(IOEnv.TRACE_FILE)
VARIABLES tid, l
tvars == <<tid, l>>
Ev == Traces[tid].ev

NeedsHash(e) == CASE e.op = "b2a58h" -> TRUE
                  [] e.op = "a2b58h" -> Split58Check(e.in).ok
                  [] OTHER -> FALSE
HashArg(e) == IF e.op = "b2a58h" THEN e.in ELSE Split58Check(e.in).payload

Explains(e) ==
  CASE e.op = "b2a58" -> e.ok /\ e.out = Enc58(e.in)
    [] e.op = "a2b58" -> LET d == Dec58(e.in) IN
         /\ e.ok = d.ok
         /\ d.ok => e.out = d.b
         /\ ~d.ok => e.tag = "EncodingError"
    [] e.op = "b2a58h" -> /\ e.hq.arg = e.in
                          /\ e.ok /\ e.out = Enc58Check(e.in, e.hq.h4)
    [] e.op = "a2b58h" ->
         LET sp == Split58Check(e.in) IN
         IF ~sp.ok THEN ~e.ok /\ e.tag = "EncodingError" /\ ~e.valid /\ ~e.parsed
         ELSE /\ e.hq.arg = sp.payload
              /\ LET v == Dec58Check(e.in, e.hq.h4) IN
                 /\ e.ok = v.ok /\ e.valid = v.ok /\ e.parsed = v.ok
                 /\ v.ok => e.out = v.p
                 /\ ~v.ok => e.tag = "EncodingError"
    [] e.op = "segenc" ->
         IF Encodable(e.hrp, e.ver, e.prog) THEN e.ok /\ e.out = SegwitRaw(e.hrp, e.ver, e.prog)
         ELSE ~e.ok /\ e.tag = "ok"
    [] e.op = "segdec" -> LET d == SegwitDecode(e.hrp, e.in) IN
         /\ e.tag = "ok" /\ e.ok = d.ok
         /\ d.ok => e.ver = d.ver /\ e.prog = d.prog
    [] e.op = "b32dec" -> LET d == Bech32Decode(e.in) IN
         /\ e.tag = "ok" /\ e.ok = d.ok
         /\ d.ok => e.hrp = d.hrp /\ e.data = d.data /\ e.spec = (IF d.const = BECH32 THEN 1 ELSE 2)

TInit == TLCSet(1, {}) /\ tid \in 1..Len(Traces) /\ l = 1
TStep == /\ l <= Len(Ev)
         /\ IF Phase = "terms"
            THEN NeedsHash(Ev[l]) => PrintT(ToJson([k |-> "tterm", tid |-> tid, l |-> l, t |-> H4Term(HashArg(Ev[l]))]))
            ELSE Explains(Ev[l])
         /\ l' = l + 1 /\ UNCHANGED tid
TSpec == TInit /\ [][TStep]_tvars
Reached == IF l = Len(Ev) + 1 THEN TLCSet(1, TLCGet(1) \cup {tid}) ELSE TRUE
\* one JSON line (a long set printed as a TLA+ value is wrapped over several lines)
Post == PrintT(ToJson([k |-> "rejected", n |-> Len(Traces), ids |-> (1..Len(Traces)) \ TLCGet(1)]))
=============================================================================
