CONSTANTS P = 43  A = 0  B = 7  Gx = 2  Gy = 12  N = 31
          R = 2  Concrete = TRUE  B1 = 16  B2 = 23  MaxCoef = 100000  MaxSteps = 3  Emit = FALSE  Family = "wide"
SPECIFICATION CSpec
INVARIANTS RegsRepresent EqualScalarsEqualPoints
CHECK_DEADLOCK FALSE
