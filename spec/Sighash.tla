------------------------------- MODULE Sighash -------------------------------
(* C04: the message digest an ECDSA signature in a transaction input commits   *)
(* to, for every hash-type byte 0..255, transcribed from the consensus rules:  *)
(*   - legacy: Bitcoin Core script/interpreter.cpp  SignatureHash(),           *)
(*     CTransactionSignatureSerializer, FindAndDelete in OP_CHECKSIG /         *)
(*     OP_CHECKMULTISIG, the "one" value of the SIGHASH_SINGLE bug;            *)
(*   - witness v0: BIP143;                                                     *)
(*   - Bitcoin Cash: replay-protected-sighash.md (BIP143 digest for every      *)
(*     input, fork value 0, signatures without SIGHASH_FORKID refused, and     *)
(*     note 1 of that document: FindAndDelete is NOT used);                    *)
(*   - Bitcoin Gold: BTCGPU SignatureHash (BIP143 digest when SIGHASH_FORKID   *)
(*     is set, hash type field = ht | 79 << 8; FORKID mandatory);              *)
(*   - Groestlcoin: the same algorithms with single SHA-256 in every place     *)
(*     Bitcoin uses double SHA-256.                                            *)
(* Nothing here is computed with SHA-256: a digest is a blob chunk             *)
(* [k |-> "sha256d", x |-> preimage blob] (see SighashTx), evaluated outside.  *)
EXTENDS SighashTx, FiniteSets

Coins == {"BTC", "LTC", "BCH", "BTG", "GRS"}
SigVersionsOf(coin) == IF coin = "BCH" THEN {"base"} ELSE {"base", "witness_v0"}
HashFn(coin) == IF coin = "GRS" THEN "sha256" ELSE "sha256d"
UsesForkId(coin) == coin \in {"BCH", "BTG"}
ForkValue(coin) == IF coin = "BTG" THEN 79 ELSE 0

----------------------------------------------------------------------------
(* hash type byte *)
SIGHASH_ALL == 1
SIGHASH_NONE == 2
SIGHASH_SINGLE == 3
BaseType(ht) == ht % 32                      \* nHashType & 0x1f
IsNone(ht) == BaseType(ht) = SIGHASH_NONE
IsSingle(ht) == BaseType(ht) = SIGHASH_SINGLE
AnyoneCanPay(ht) == (ht \div 128) % 2 = 1    \* nHashType & 0x80
HasForkIdBit(ht) == (ht \div 64) % 2 = 1     \* nHashType & 0x40
\* every other value of the low five bits (0, 1, 4..31) signs like SIGHASH_ALL

\* the 4-byte field appended to / ending the preimage
HtField(coin, ht) == IF UsesForkId(coin) /\ HasForkIdBit(ht) THEN <<ht, ForkValue(coin), 0, 0>>
                     ELSE <<ht, 0, 0, 0>>

One == Lit(<<1>> \o Rep(0, 31))              \* uint256 "one": bytes 01 00 .. 00

----------------------------------------------------------------------------
(* script code *)
\* the part of the executing script after the most recently executed OP_CODESEPARATOR
\* (begin = offset of the first byte kept; 0 when no separator was executed)
ScriptCode(script, begin) == SubSeq(script, begin + 1, Len(script))

\* does the interpreter remove the pushes of the signatures being checked?
\*   Core: "Drop the signature in pre-segwit scripts but not segwit scripts"
\*   BCH : never under SIGHASH_FORKID (and FORKID is mandatory)
RemovesSignatures(coin, sv) == sv = "base" /\ coin # "BCH"
DropSignatures(sc, sigs) == FoldLeft(LAMBDA s, sig : FindAndDelete(s, PushOf(sig)), sc, sigs)

----------------------------------------------------------------------------
(* Legacy algorithm, in the serializer form of Core *)
LegacyPreimage(tx, i, sc, htfield, ht) ==
    LET n == Len(tx.ins)
        m == Len(tx.outs)
        inputs == IF AnyoneCanPay(ht) THEN <<i>> ELSE [j \in 1..n |-> j]
        SerInput(j) ==
            Cat(<<tx.ins[j].prev,
                  Lit(tx.ins[j].idx
                      \o (IF j = i THEN VarBytes(StripCodeSep(sc)) ELSE <<0>>)
                      \o (IF j # i /\ (IsNone(ht) \/ IsSingle(ht)) THEN Zero4 ELSE tx.ins[j].seq))>>)
        nOuts == IF IsNone(ht) THEN 0 ELSE IF IsSingle(ht) THEN i ELSE m
        SerOutput(j) == IF IsSingle(ht) /\ j # i THEN SerOut(NullOut) ELSE SerOut(tx.outs[j])
    IN Cat(<<Lit(tx.ver \o CompactSize(Len(inputs)))>>
           \o [k \in 1..Len(inputs) |-> SerInput(inputs[k])]
           \o <<Lit(CompactSize(nOuts))>>
           \o [j \in 1..nOuts |-> SerOutput(j)]
           \o <<Lit(tx.lock \o htfield)>>)

\* SIGHASH_SINGLE with no output at the input's position signs the constant 1
SingleBug(tx, i, ht) == IsSingle(ht) /\ i > Len(tx.outs)

LegacyDigest(h, tx, i, sc, htfield, ht) ==
    IF SingleBug(tx, i, ht) THEN One
    ELSE Hash(h, LegacyPreimage(tx, i, sc, htfield, ht))

(* The same algorithm in Satoshi's original form: modify a copy of the        *)
(* transaction, serialise it, append the hash type.  MC_Sighash checks        *)
(* LegacyPreimage = LegacyByCopy wherever the SINGLE bug does not apply.      *)
TxCopy(tx, i, sc, ht) ==
    LET blanked == [j \in 1..Len(tx.ins) |->
                      [tx.ins[j] EXCEPT !.script = IF j = i THEN StripCodeSep(sc) ELSE <<>>,
                                        !.seq = IF j # i /\ (IsNone(ht) \/ IsSingle(ht)) THEN Zero4 ELSE @]]
        outs == IF IsNone(ht) THEN <<>>
                ELSE IF IsSingle(ht) THEN [j \in 1..i |-> IF j = i THEN tx.outs[j] ELSE NullOut]
                ELSE tx.outs
        ins == IF AnyoneCanPay(ht) THEN <<blanked[i]>> ELSE blanked
    IN Tx(tx.ver, ins, outs, tx.lock)
LegacyByCopy(tx, i, sc, htfield, ht) == Cat2(SerTx(TxCopy(tx, i, sc, ht)), Lit(htfield))

----------------------------------------------------------------------------
(* BIP143 *)
ZeroHash == Lit(Zero32)
HashPrevouts(h, tx, ht) ==
    IF AnyoneCanPay(ht) THEN ZeroHash
    ELSE Hash(h, Cat([j \in 1..Len(tx.ins) |-> SerOutPoint(tx.ins[j])]))
HashSequence(h, tx, ht) ==
    IF ~AnyoneCanPay(ht) /\ ~IsSingle(ht) /\ ~IsNone(ht)
    THEN Hash(h, Cat([j \in 1..Len(tx.ins) |-> Lit(tx.ins[j].seq)]))
    ELSE ZeroHash
HashOutputs(h, tx, i, ht) ==
    IF ~IsSingle(ht) /\ ~IsNone(ht) THEN Hash(h, Cat([j \in 1..Len(tx.outs) |-> SerOut(tx.outs[j])]))
    ELSE IF IsSingle(ht) /\ i <= Len(tx.outs) THEN Hash(h, SerOut(tx.outs[i]))
    ELSE ZeroHash
\* scriptCode goes in as it is: no separator removal, no FindAndDelete
Bip143Preimage(h, tx, i, sc, amount, htfield, ht) ==
    Cat(<<Lit(tx.ver), HashPrevouts(h, tx, ht), HashSequence(h, tx, ht),
          SerOutPoint(tx.ins[i]), Lit(VarBytes(sc) \o amount \o tx.ins[i].seq),
          HashOutputs(h, tx, i, ht), Lit(tx.lock \o htfield)>>)
Bip143Digest(h, tx, i, sc, amount, htfield, ht) == Hash(h, Bip143Preimage(h, tx, i, sc, amount, htfield, ht))

----------------------------------------------------------------------------
(* which algorithm a coin uses for a signature version *)
Algo(coin, sv) == IF sv = "witness_v0" \/ UsesForkId(coin) THEN "bip143" ELSE "legacy"
Refuse == << [k |-> "refuse", v |-> <<>>, x |-> <<>>] >>
\* Outcome the rule book leaves open (R1): a witness signature without the FORKID bit on
\* a fork-id coin is rejected by the signature-encoding rule before any digest is needed.
Unconstrained == << [k |-> "any", v |-> <<>>, x |-> <<>>] >>

(* THE function of C04.  tx: transaction; i: input index (1-based); script:    *)
(* the executing script; begin: code-separator offset; sigs: the signature     *)
(* blobs of the CHECKSIG / CHECKMULTISIG being evaluated; amount: 8 bytes;     *)
(* ht: hash type byte.  Result: a one-chunk blob denoting the 32 digest bytes, *)
(* or Refuse.                                                                  *)
Digest(coin, sv, tx, i, script, begin, sigs, amount, ht) ==
    LET sc0 == ScriptCode(script, begin)
        sc == IF RemovesSignatures(coin, sv) THEN DropSignatures(sc0, sigs) ELSE sc0
        h == HashFn(coin)
        htf == HtField(coin, ht)
    IN IF UsesForkId(coin) /\ ~HasForkIdBit(ht)
       THEN (IF sv = "base" THEN Refuse ELSE Unconstrained)
       ELSE IF Algo(coin, sv) = "legacy" THEN LegacyDigest(h, tx, i, sc, htf, ht)
       ELSE Bip143Digest(h, tx, i, sc, amount, htf, ht)

(* Named deviations: digests that an implementation following a known wrong    *)
(* rule would produce.  They never make a disagreement acceptable; the harness *)
(* uses them only to give a disagreement its name (one finding key per wrong   *)
(* rule instead of one per hash-type class).  Listed only where they differ    *)
(* from Digest.                                                                *)
\*  "bch-removes-signatures": FindAndDelete applied on Bitcoin Cash although the
\*   signature carries SIGHASH_FORKID
\*  "number-push-pattern": the pattern searched by FindAndDelete is built with the
\*   shortest push of the blob AS A NUMBER (the one-byte blobs 01..10 become OP_1..OP_16
\*   and 81 becomes OP_1NEGATE) instead of the length-prefixed push of PushOf
NumberPushOf(d) == IF Len(d) = 1 /\ d[1] >= 1 /\ d[1] <= 16 THEN <<80 + d[1]>>
                   ELSE IF d = <<129>> THEN <<79>>
                   ELSE PushOf(d)
Deviations(coin, sv, tx, i, script, begin, sigs, amount, ht) ==
    LET sc0 == ScriptCode(script, begin)
        right == Digest(coin, sv, tx, i, script, begin, sigs, amount, ht)
        scN == FoldLeft(LAMBDA s, sig : FindAndDelete(s, NumberPushOf(sig)), sc0, sigs)
        cand == (IF coin = "BCH" /\ sv = "base" /\ HasForkIdBit(ht)
                 THEN << [name |-> "bch-removes-signatures",
                          d |-> Bip143Digest(HashFn(coin), tx, i, DropSignatures(sc0, sigs), amount,
                                             HtField(coin, ht), ht)] >>
                 ELSE <<>>)
             \o (IF RemovesSignatures(coin, sv) /\ ~(UsesForkId(coin) /\ ~HasForkIdBit(ht))
                 THEN << [name |-> "number-push-pattern",
                          d |-> IF Algo(coin, sv) = "legacy"
                                THEN LegacyDigest(HashFn(coin), tx, i, scN, HtField(coin, ht), ht)
                                ELSE Bip143Digest(HashFn(coin), tx, i, scN, amount, HtField(coin, ht), ht)] >>
                 ELSE <<>>)
    IN SelectSeq(cand, LAMBDA c : c.d # right)

----------------------------------------------------------------------------
(* What a signature commits to.  A "field" is [f |-> name, j |-> position].    *)
(* Committed(..) is the set of fields whose change must change the digest;     *)
(* every other field must leave it unchanged (MC_Sighash: CommitmentLemma).    *)
Fld(f, j) == [f |-> f, j |-> j]
Fields(tx) ==
    {Fld("ver", 0), Fld("lock", 0), Fld("amount", 0), Fld("sc.op", 0), Fld("sc.sep", 0),
     Fld("ins.append", 0), Fld("outs.append", 0)}
    \cup {Fld(f, j) : f \in {"in.prev", "in.idx", "in.sigscript", "in.seq"}, j \in 1..Len(tx.ins)}
    \cup {Fld(f, j) : f \in {"out.val", "out.script"}, j \in 1..Len(tx.outs)}
    \cup (IF Len(tx.outs) > 0 THEN {Fld("outs.droplast", 0)} ELSE {})

Committed(coin, sv, tx, i, ht) ==
    LET n == Len(tx.ins)
        m == Len(tx.outs)
        legacy == Algo(coin, sv) = "legacy"
        allLike == ~IsNone(ht) /\ ~IsSingle(ht)
        others == (1..n) \ {i}
    IN IF UsesForkId(coin) /\ ~HasForkIdBit(ht) THEN {}       \* refused: nothing is signed
       ELSE IF legacy /\ SingleBug(tx, i, ht)
            \* the notorious consequence of the bug: the "digest" 1 commits to nothing at
            \* all, except that appending the missing output makes it a real digest again
            THEN (IF i = m + 1 THEN {Fld("outs.append", 0)} ELSE {})
       ELSE {Fld("ver", 0), Fld("lock", 0), Fld("sc.op", 0),
             Fld("in.prev", i), Fld("in.idx", i), Fld("in.seq", i)}
            \cup (IF legacy THEN {} ELSE {Fld("amount", 0), Fld("sc.sep", 0)})
            \cup (IF AnyoneCanPay(ht) THEN {}
                  ELSE {Fld("ins.append", 0)}
                       \cup {Fld(f, j) : f \in {"in.prev", "in.idx"}, j \in others}
                       \cup (IF allLike THEN {Fld("in.seq", j) : j \in others} ELSE {}))
            \cup (IF allLike
                  THEN {Fld(f, j) : f \in {"out.val", "out.script"}, j \in 1..m}
                       \cup {Fld("outs.append", 0)}
                       \cup (IF m > 0 THEN {Fld("outs.droplast", 0)} ELSE {})
                  ELSE IF IsSingle(ht)
                  THEN (IF i <= m THEN {Fld("out.val", i), Fld("out.script", i)} ELSE {})
                       \cup (IF i = m THEN {Fld("outs.droplast", 0)} ELSE {})
                       \cup (IF i = m + 1 THEN {Fld("outs.append", 0)} ELSE {})
                  ELSE {})
=============================================================================
