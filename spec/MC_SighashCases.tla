--------------------------- MODULE MC_SighashCases ---------------------------
(* Prints the digest blob Sighash.tla demands for each concrete request of a   *)
(* JSON file (environment variable CASE_FILE): used for the ground-truth        *)
(* vectors (signatures of real transactions must verify on the printed digest) *)
(* and as the first pass of trace validation (the hash table of a trace is the *)
(* evaluation of the hash nodes printed here).                                 *)
EXTENDS SighashIO, TLC, Json, IOUtils

Cases == JsonDeserialize(IOEnv.CASE_FILE)
VARIABLES id, done
Init == id \in 1..Len(Cases) /\ done = FALSE
Emit == /\ ~done /\ done' = TRUE /\ UNCHANGED id
        /\ LET c == Cases[id]
               tx == TxOfJson(c.tx)
           IN PrintT(ToJson([k |-> "term", id |-> id,
                             d |-> DigestOf(c.r, tx, c.tx.amts),
                             dev |-> DeviationsOf(c.r, tx, c.tx.amts)]))
Next == Emit
Spec == Init /\ [][Next]_<<id, done>>
=============================================================================
