CONSTANTS MaxIn = 3  MaxOut = 3
CONSTANT HtSet <- HtAll
SPECIFICATION Spec
INVARIANTS CommitmentLemma TwoFormsLemma MaskLemma CoinLemma SingleBugLemma ShapeLemma
PROPERTY Frame
CHECK_DEADLOCK FALSE
