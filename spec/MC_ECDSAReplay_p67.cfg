CONSTANTS P = 67  A = 0  B = 2  Gx = 2  Gy = 12  N = 73
          SignZ = {1, 2, 72, 73, 74}  VerZ = {1, 73, 74}  VerQ = {2, 3, 30, 50, 72, 73}  RecZ = {1, 73}
SPECIFICATION Spec
INVARIANT ReturnedVerifies
CHECK_DEADLOCK FALSE
