--------------------------- MODULE X02_AnnotateRun ---------------------------
(* X02 (b) on cases read from a JSON file (the idiom of MC_ScriptRun): spends  *)
(* concretised by the harness from TLC-enumerated shapes, Bitcoin Core's       *)
(* script vectors, the signed transactions of X02 (a), seeded random scripts.  *)
(* One TLC state per interpreter step (scripts may be long).                   *)
(*   - a case without `rep`: TLC prints the listing demanded (spec -> code);   *)
(*   - a case with `rep` = the rows annotate_scripts reported: TLC judges them *)
(*     with Accepts / TextOK / the role rule and prints the verdict            *)
(*     (code -> spec): index of the first wrong row, rows with a wrong text,   *)
(*     rows with a wrong label, and the row demanded at the first wrong one.   *)
(* A missing oracle entry (hash / signature) is reported as "need".            *)
EXTENDS X02_Annotate, Json, IOUtils

Cases == JsonDeserialize(IOEnv.CASES_FILE)
VARIABLES cid, w, rest, rc
rvars == <<cid, w, rest, rc>>
Case(c) == [kind |-> "spend", sig |-> c.sig, pk |-> c.pk, wit |-> c.wit, stack |-> <<>>, sv |-> "base",
            flags |-> ToSet(c.flags), ctx |-> c.ctx, hashes |-> c.hashes, sigs |-> c.sigs, sigmode |-> c.sigmode]
SP == Case(Cases[cid])
Done == [phase |-> "done", pc |-> 0]

\* the rows never reached, one per TLC step (Rest of X02_Annotate, iteratively)
RestStart(x) == IF x.st.status = "fail" /\ x.cur.phase \in {"sig", "pk"} THEN x.cur ELSE Done
ScriptOf(ph) == IF ph = "sig" THEN SP.sig ELSE SP.pk
NextScript(ph) == IF ph = "sig" THEN [phase |-> "pk", pc |-> 1] ELSE Done

Report(rs) ==
    LET L == [ListingOf(w, SP) EXCEPT !.rest = Strip(rs)]
        c == Cases[cid]
    IN IF L.status = "need" THEN PrintT(ToJson([k |-> "need", id |-> cid, need |-> L.need]))
       ELSE IF "rep" \in DOMAIN c
       THEN LET fb == FirstBad(L, c.rep)
                F == Full(L)
            IN PrintT(ToJson([k |-> "jud", id |-> cid, status |-> L.status, err |-> L.err, endphase |-> L.endphase,
                              nexec |-> Len(L.exec), nfull |-> Len(F), bad |-> fb,
                              want |-> IF fb # 0 /\ fb <= Len(F) THEN <<[pc |-> F[fb].pc, op |-> F[fb].op, phase |-> F[fb].phase]>> ELSE <<>>,
                              malformed_before |-> (fb # 0 /\ \E i \in 1..(fb - 1) : i <= Len(F) /\ ~F[i].ok),
                              textbad |-> TextBad(L, c.rep), rolebad |-> RoleBad(L, c.rep),
                              textwant |-> {[i |-> i, op |-> F[i].op, data |-> F[i].data, names |-> F[i].names, alias |-> F[i].alias] :
                                            i \in TextBad(L, c.rep)},
                              rolewant |-> {[i |-> i, key |-> F[i].data[1] \in L.keys, sig |-> F[i].data[1] \in L.sigs] : i \in RoleBad(L, c.rep)}]))
       ELSE PrintT(ToJson([k |-> "lst", id |-> cid, lst |-> L]))

RInit == /\ cid \in 1..Len(Cases)
         /\ w = StartWalk(Case(Cases[cid]))
         /\ rest = <<>> /\ rc = [phase |-> "walk", pc |-> 0]
RWalk == /\ rc.phase = "walk" /\ ~WalkDone(w)
         /\ w' = WalkStep(w, SP)
         /\ UNCHANGED <<cid, rest, rc>>
RTurn == /\ rc.phase = "walk" /\ WalkDone(w)
         /\ rc' = RestStart(w)
         /\ UNCHANGED <<cid, w, rest>>
         /\ (rc' = Done => Report(rest))
RRest == /\ rc.phase \in {"sig", "pk"}
         /\ LET s == ScriptOf(rc.phase) IN
            IF rc.pc > Len(s) THEN rest' = rest /\ rc' = NextScript(rc.phase)
            ELSE LET row == RowOf(s, rc.pc, rc.phase) IN
                 /\ rest' = Append(rest, row)
                 /\ rc' = IF row.ok THEN [phase |-> rc.phase, pc |-> row.next] ELSE NextScript(rc.phase)
         /\ UNCHANGED <<cid, w>>
         /\ (rc' = Done => Report(rest'))
RNext == RWalk \/ RTurn \/ RRest
RSpec == RInit /\ [][RNext]_rvars

\* the iterative reading of the rows never reached is the recursive one of X02_Annotate (checked where it is short)
RestAgrees == (rc = Done /\ Len(rest) <= 30) => Strip(rest) = Strip(Rest(w, SP))
=============================================================================
