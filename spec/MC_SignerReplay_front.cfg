CONSTANTS NK = 5  NM = 2  MaxPasses = 1  Mode = "front"  PruneNoop = FALSE  WithPairs = FALSE
          Cases <- FrontCases  Shapes <- NoShapes  Coins <- AllCoins  HashTypes <- StdHashTypes
SPECIFICATION RSpec
CHECK_DEADLOCK FALSE
