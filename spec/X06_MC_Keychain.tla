---------------------------- MODULE X06_MC_Keychain ----------------------------
(* Model checking and spec -> code export for X06_Keychain over the worlds of  *)
(* X06_KcUniverse.                                                             *)
(*  - MODEL runs (VIEW KViewM): every history of at most MaxOps calls keeps    *)
(*    the lemmas of X06_Keychain; the model mutation NoDerivCheck must break   *)
(*    PubOnlyPublic.                                                           *)
(*  - EXPORT runs (VIEW KView, which leaves the printed history out but keeps  *)
(*    the ghost `asked`: what has been asked of the long-lived object since    *)
(*    its secrets last changed hands, with the answers then - exactly what a   *)
(*    cache inside an implementation could remember): TLC prints, for every    *)
(*    transition, the behaviour leading there; every call with what the rule   *)
(*    allows as its answer, what the observers must report after it, and at    *)
(*    the end the allowed answers to EVERY query.  The harness runs each on a  *)
(*    real Keychain over a real SQLite file (or an in-memory database).        *)
EXTENDS X06_KcUniverse, X06_Keychain, Json

CONSTANTS MaxOps, MaxGet,
          Ops,          \* call kinds explored
          RootSets,     \* sets of roots registered together with one path
          SecSets,      \* sets of <<root, form>> handed over in one call
          AskSet,       \* the queries put DURING a history (all queries are put at its end)
          Logging,      \* keep the printed history (export runs) or not (model runs)
          PathRoots,    \* roots whose ranges are registered
          PathForms,    \* forms they are held in when registering
          RangeIdx      \* which ranges
Yes == TRUE
No == FALSE
OnFile == {TRUE}
InMemory == {FALSE}
Both == BOOLEAN

OpsAll == {"addpaths", "addkeyspath", "addsecrets", "clearsecrets", "addscript", "addscripts", "commit", "reopen", "get"}
OpsMem == OpsAll \ {"commit", "reopen", "addscripts"}

K01 == <<"A", <<N(0), N(1)>>>>
RI12 == {1, 2}
RIq == 1..4
RIt == 1..6
RAB == {"A", "B"}
RAP == {"A", "P"}
FPrv == {"prv"}
OpsUp == {"addpaths", "addsecrets", "clearsecrets", "get"}
OpsPersist == {"addpaths", "addkeyspath", "addscript", "addscripts", "commit", "reopen", "addsecrets"}
MCSecSetsUp == {{<<"A", "prv">>}, {<<"A", "pub">>}, {<<"B", "prv">>}, {<<"B", "pub">>}}
MCSecSetsP == {{<<"A", "prv">>}, {<<"P", "prv">>}}
MCAskUp == {<<"k", K01, "c">>, <<"k", K01, "u">>, <<"k", <<"A", <<N(0)>>>>, "c">>}
MCRootSetsP == {{"A", "P"}}
MCRootSetsQ == {{"A", "B"}, {"C"}, {"P", "A"}}
MCRootSetsT == {{"A", "B"}, {"C"}, {"P", "A"}, {"E"}, {"A", "B", "C", "P", "E"}}
MCSecSetsQ == {{<<"A", "prv">>}, {<<"A", "pub">>}, {<<"B", "prv">>}, {<<"B", "pub">>}, {<<"C", "prv">>}, {<<"P", "prv">>}}
MCSecSetsT == {{<<r, f>>} : r \in URoots, f \in Forms} \cup {{<<"A", "prv">>, <<"A", "pub">>}, {<<"A", "prv">>, <<"C", "prv">>, <<"P", "pub">>}}
MCAskQ == {<<"k", K01, "c">>, <<"k", K01, "u">>, <<"k", <<"A", <<N(0)>>>>, "c">>, <<"k", <<"A", <<H(0), N(1)>>>>, "c">>,
           <<"s160", "S1">>, <<"unknown">>}
MCAskT == Queries

VARIABLES ng, acts
mkvars == <<kvars, ng, acts>>

\* the export prints raw values (a key is <<master, path>>, a path a list of [h, v]); the harness names them
LastOut(l) == CASE l.op = "addpaths" -> [op |-> "addpaths", r |-> l.r, form |-> l.form, g |-> l.g, ok |-> l.ok, count |-> l.count]
                [] l.op = "addkeyspath" -> [op |-> "addkeyspath", rs |-> l.rs, form |-> l.form, s |-> l.s, ok |-> l.ok, count |-> l.count]
                [] OTHER -> l
\* what the observers must say after the last call of the behaviour (every prefix of a printed behaviour is
\* itself printed: the histories form a tree)
ObsNow == [interest |-> Interest(reg', scr'), hs |-> HasSecretsAllowed(sec'),
           pf |-> {<<k, PathsFor(reg', k)>> : k \in RegKeys(reg') \cap QKeys}]
\* the allowed answers at the end, to every query: per key asked about the allowed kinds (the same for both of
\* its hashes) with the circumstance tags - only keys where something other than a miss is allowed are listed -
\* and the scripts that must be found (by either hash); everything else must be a miss
Fin == [keys |-> {x \in {<<k, KeyAllowed(reg', sec', k), Tags(reg', sec', <<"k", k, "c">>)>> : k \in QKeys} : x[2] # {"miss"} \/ x[3] # {}},
        scripts |-> scr']
Log == acts' = IF Logging THEN Append(acts, LastOut(last')) ELSE acts
Emit == PrintT(ToJson([k |-> "beh", backed |-> backed, acts |-> acts', obs |-> ObsNow, fin |-> Fin]))

MKInit == KInit /\ ng = 0 /\ acts = <<>>
On(o) == o \in Ops
MAddPaths == \E r \in PathRoots : \E f \in PathForms : \E g \in RangeIdx : AddPaths(r, f, g) /\ UNCHANGED ng /\ Log
MAddKeysPath == \E rs \in RootSets : \E f \in Forms : \E s \in 1..Len(Singles) : AddKeysPath(rs, f, s) /\ UNCHANGED ng /\ Log
MAddSecrets == \E cs \in SecSets : AddSecrets(cs) /\ UNCHANGED ng /\ Log
MClear == ClearSecrets /\ UNCHANGED ng /\ Log
MAddScript == \E s \in Scripts : AddScript(s) /\ UNCHANGED ng /\ Log
MAddScripts == \E ss \in {{"S1"}, {"S1", "S2"}} : AddScripts(ss) /\ UNCHANGED ng /\ Log
MCommit == Commit /\ UNCHANGED ng /\ Log
MReopen == Reopen /\ UNCHANGED ng /\ Log
MGet == ng < MaxGet /\ \E q \in AskSet : Get(q) /\ ng' = ng + 1 /\ Log
MKNext == n < MaxOps /\ (\/ (On("addpaths") /\ MAddPaths) \/ (On("addkeyspath") /\ MAddKeysPath)
                         \/ (On("addsecrets") /\ MAddSecrets) \/ (On("clearsecrets") /\ MClear)
                         \/ (On("addscript") /\ MAddScript) \/ (On("addscripts") /\ MAddScripts)
                         \/ (On("commit") /\ MCommit) \/ (On("reopen") /\ MReopen) \/ (On("get") /\ MGet))
MKNextE == MKNext /\ Emit
KView == <<backed, reg, scr, sec, preg, pscr, asked, n, ng>>
KViewM == <<backed, reg, scr, sec, preg, pscr, n, ng, last>>

PKPersist == [][(last.op \in {"commit", "addscripts"} /\ last'.op = "reopen") => reg' = reg /\ scr' = scr]_mkvars
PKMonotone == [][(last'.op \in {"addpaths", "addkeyspath", "addsecrets", "addscript", "addscripts", "commit", "get"}) =>
                  \A k \in QKeys : KeyAllowed(reg, sec, k) = {"prv"} => KeyAllowed(reg', sec', k) = {"prv"}]_mkvars
PKIdempotent == [][(last.op \in {"addpaths", "addkeyspath", "addsecrets", "addscript"} /\ last' = last) =>
                    reg' = reg /\ scr' = scr /\ sec' = sec]_mkvars
\* every path a range denotes is found, nothing outside: right after registering range g of root r on an empty store
\* the store is interested in exactly the keys of the range
RangeExact == (last.op = "addpaths" /\ last.ok /\ n = 1) =>
                 RegKeys(reg) = {KeyOf(last.r, p) : p \in RangePaths(last.g)} /\ Cardinality(RangePaths(last.g)) = last.count
=============================================================================
