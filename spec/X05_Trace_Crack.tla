---------------------------- MODULE X05_Trace_Crack ----------------------------
(* Code -> spec binding for X05 (a) and the toy side of (b): recorded seeded   *)
(* sessions on curves beyond the enumerated grid (p = 251, n = 241 / 271;      *)
(* thorough: p = 1019) are runs of X05_Crack.tla.                              *)
(*                                                                            *)
(* A session: a victim key d (public key Q) signs digests through the          *)
(* library's own signing path with a forced nonce; the attacker sees           *)
(* signatures (some low-s normalised), runs the recovery helpers, and the      *)
(* session ends with the key he believes he has.  Toy BIP32: derive a child    *)
(* (the HMAC outputs the library consumed are logged), ascend.                 *)
(*   victim  d, Q                                                              *)
(*   sign    z, k -> r, s                 (d is the victim's)                  *)
(*   crackk  r1, s1, z1, r2, s2, z2 -> k | raised                              *)
(*   fromk   r, s, z, k -> d | raised                                          *)
(*   claim   d                            the attacker's result: d G = Q       *)
(*   derive  kpar, ils (left halves of the HMAC outputs consumed) -> kc        *)
(*   ascend  K, kc, il -> k | raised                                           *)
EXTENDS X05_Crack, Json, IOUtils

Traces == JsonDeserialize(IOEnv.TRACE_FILE)
VARIABLES tid, evn, vd, vq
tvars == <<tid, evn, vd, vq>>
Ev == Traces[tid].ev

TVictim(e) == /\ e.op = "victim" /\ e.d \in ZnStar
              /\ PtTabX[e.d] = <<e.Q[1], e.Q[2]>>
              /\ vd' = e.d /\ vq' = <<e.Q[1], e.Q[2]>>
\* the forced nonce gives SigOf's signature; an unusable nonce (r or s zero) is retried by the library (C01): not judged here
TSign(e) == /\ e.op = "sign" /\ vd # 0 /\ e.k \in ZnStar /\ UNCHANGED <<vd, vq>>
            /\ \A a \in {SigT(vd, e.z % N, e.k)} : SigUsable(a) => (a.r = e.r /\ a.s = e.s)
TCrackK(e) == /\ e.op = "crackk" /\ UNCHANGED <<vd, vq>>
              /\ \A o \in {IF e.r1 \in ZnStar /\ e.r2 \in ZnStar /\ e.s1 \in ZnStar /\ e.s2 \in ZnStar
                           THEN Outcome(e.r1, e.s1, e.z1 % N, e.r2, e.s2, e.z2 % N) ELSE [must |-> 0, may |-> {}]} :
                   IF o.must # 0 THEN e.raised = 0 /\ e.k = o.must
                   ELSE e.raised = 1 \/ e.k \in o.may
TFromK(e) == /\ e.op = "fromk" /\ UNCHANGED <<vd, vq>>
             /\ IF FromKDetermined(e.r) THEN e.raised = 0 /\ e.d = FromK(e.r, e.s, e.z, e.k)
                ELSE e.raised = 1
TClaim(e) == /\ e.op = "claim" /\ UNCHANGED <<vd, vq>>
             /\ e.d \in ZnStar /\ PtTabX[e.d] = vq /\ e.d = vd
\* toy BIP32 (the HMAC is an oracle: the values the library consumed are in the event)
TDerive(e) == /\ e.op = "derive" /\ UNCHANGED <<vd, vq>> /\ e.kpar \in ZnStar /\ Len(e.ils) >= 1
              /\ IF ToyValid(e.kpar, e.ils[1]) THEN e.raised = 0 /\ e.kc = ToyCKD(e.kpar, e.ils[1])
                 ELSE TRUE          \* BIP32: no child at this index; what the library does instead is not specified here
TAscend(e) == /\ e.op = "ascend" /\ UNCHANGED <<vd, vq>>
              /\ \A a \in {ToyAscend(<<e.K[1], e.K[2]>>, e.kc, e.il)} :
                   IF a # 0 THEN e.raised = 0 /\ e.k = a
                   ELSE e.raised = 1 \/ (e.k \in ZnStar /\ PtTabX[e.k] = <<e.K[1], e.K[2]>>)

TInit == tid \in 1..Len(Traces) /\ evn = 1 /\ vd = 0 /\ vq = <<>>
TNext == /\ evn <= Len(Ev)
         /\ LET e == Ev[evn] IN TVictim(e) \/ TSign(e) \/ TCrackK(e) \/ TFromK(e) \/ TClaim(e) \/ TDerive(e) \/ TAscend(e)
         /\ evn' = evn + 1 /\ UNCHANGED tid
         /\ PrintT(ToJson([k |-> "l", tid |-> tid, l |-> evn]))                  \* progress: event evn is explained
         /\ (evn' = Len(Ev) + 1 => PrintT(ToJson([k |-> "acc", tid |-> tid])))
TSpec == TInit /\ [][TNext]_tvars
ASSUME PrintT(ToJson([k |-> "hdr", n |-> Len(Traces)]))
=============================================================================
