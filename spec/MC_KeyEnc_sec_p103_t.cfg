CONSTANTS P = 103  A = 0  B = 5  Gx = 2  Gy = 42  N = 97
          SecLens <- LensQ
          Stage = "sec"
          SecPfx <- SlicePfx32  SecXs <- AllBytes  SecYs <- AllBytes  SecLongYs = {0, 12, 255} DerPos <- PosNone  DerExt <- One0  DerExtLen = 0
SPECIFICATION Spec
INVARIANT NoBad
CHECK_DEADLOCK FALSE
