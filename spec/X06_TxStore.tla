----------------------------- MODULE X06_TxStore -----------------------------
(* X06 (1): a layered local store of transactions, and the consumers that      *)
(* fill in the outputs a transaction spends from it.                           *)
(*                                                                             *)
(* The store answers "give me the transaction with id i" from, in this order,  *)
(*   the read-only directories 1..nro,                                         *)
(*   the writable cache directory (if there is one),                           *)
(*   the lookup methods 1..nl (callables: a network service in real life).     *)
(* A directory holds at most one file per id (the file NAME is the id); what   *)
(* the file CONTAINS is outside the store's control: another program, an       *)
(* interrupted write, a disk error.  So the content of the file named i is a   *)
(* BLOB CLASS:                                                                 *)
(*    none      no such file                                                   *)
(*    full(t)   the standard serialisation of transaction t (with its witness  *)
(*              data when t has any)                                           *)
(*    strip(t)  t serialised without witness data (only for t in SegIds; it    *)
(*              has the same id)                                               *)
(*    trail(t)  full(t) followed by further bytes                              *)
(*    trunc(t)  a proper prefix of full(t)                                     *)
(*    empty     zero bytes                                                     *)
(*    junk      bytes that are not a transaction                               *)
(* (X06_MC_Blobs ties every class to bytes through TxWire/TxParse.)  A lookup  *)
(* method, asked for i, answers with an ANSWER CLASS: none (None), full(t),    *)
(* strip(t), obj (some object that is no transaction), falsy (0, "", []),      *)
(* raise (an exception).                                                       *)
(*                                                                             *)
(* THE RULE (what a user may rely on; tx_db.py's code comments, the `tx`       *)
(* tool's use of it, plain sanity):                                            *)
(*  - Get(i) answers with a transaction whose id is i, or with "miss" - never  *)
(*    with another transaction, never with an exception because of what lies   *)
(*    in a directory or what a lookup method does.                             *)
(*  - the first layer (in the order above) that HAS a transaction with id i    *)
(*    answers; files and lookup answers that do not are skipped;               *)
(*  - an answer of a lookup method is written to the writable directory (as    *)
(*    the lookup method gave it), so the next Get(i) needs no lookup method;   *)
(*  - nothing else is ever written: a miss leaves every layer as it was, the   *)
(*    read-only directories are never written;                                 *)
(*  - Put(t) writes full(t) to the writable directory (no-op without one).     *)
(* The store has no memory of its own: every answer is a function of what the  *)
(* directories hold and what the lookup methods answer NOW.                    *)
(*                                                                             *)
(* NAMED DEVIATIONS (how a tree may differ; each is shown by TLC to break the  *)
(* properties below; the harness finds out which ones the tree under test has  *)
(* and reports them as findings):                                              *)
(*   BadFileRaises  Get raises when the scan reaches a file that does not      *)
(*                  parse (trunc, empty, junk) before it reaches an answer     *)
(*   OobIndexError  Validate: an input naming output index = number of outputs *)
(*                  escapes as an index error instead of the documented one    *)
EXTENDS Integers, Sequences, SequencesExt, FiniteSets, FiniteSetsExt, TLC

CONSTANTS Ids,            \* transaction ids, a set of small positive integers
          SegIds,         \* those whose transaction carries witness data
          NOut(_),        \* number of outputs of transaction t
          Confs,          \* store shapes [nro, w, nl]: read-only dirs, writable dir?, lookup methods
          Spenders,       \* the spending transactions handed to Fill / Validate (see below)
          BadFileRaises, OobIndexError

\* ----------------------------------------------------------------- values
None == [c |-> "none", t |-> 0]
Full(t)  == [c |-> "full", t |-> t]
Strip(t) == [c |-> "strip", t |-> t]
Trail(t) == [c |-> "trail", t |-> t]
Trunc(t) == [c |-> "trunc", t |-> t]
Empty == [c |-> "empty", t |-> 0]
Junk  == [c |-> "junk", t |-> 0]

Blobs == {None, Empty, Junk} \cup {Full(t) : t \in Ids} \cup {Strip(t) : t \in SegIds}
         \cup {Trail(t) : t \in Ids} \cup {Trunc(t) : t \in Ids}

LNone == [c |-> "none", t |-> 0]
LObj == [c |-> "obj", t |-> 0]
LFalsy == [c |-> "falsy", t |-> 0]
LRaise == [c |-> "raise", t |-> 0]
LookAnswers == {LNone, LObj, LFalsy, LRaise} \cup {Full(t) : t \in Ids} \cup {Strip(t) : t \in SegIds}

\* what a blob / a lookup answer IS when read as a transaction: [ok, t, form]
NoTx == [ok |-> FALSE, t |-> 0, form |-> "-"]
AsTx(b) == CASE b.c \in {"full", "trail"} -> [ok |-> TRUE, t |-> b.t, form |-> "full"]
             [] b.c = "strip" -> [ok |-> TRUE, t |-> b.t, form |-> "strip"]
             [] OTHER -> NoTx
\* a file that is there but cannot be read as a transaction at all
Unparsable(b) == b.c \in {"trunc", "empty", "junk"}
\* THE check: the thing found under the name i is handed out only if it is a transaction with id i
Usable(i, b) == AsTx(b).ok /\ AsTx(b).t = i

\* ----------------------------------------------------------------- the layers
\* ds: sequence of directories (each a function Ids -> Blobs), scan order; the writable one is last
\* lk: sequence of lookup methods (each a function Ids -> LookAnswers)
NDirs(cf) == cf.nro + (IF cf.w THEN 1 ELSE 0)
WIdx(cf) == cf.nro + 1
EmptyDir == [i \in Ids |-> None]
NoLook == [i \in Ids |-> LNone]

FirstIn(S) == IF S = {} THEN 0 ELSE Min(S)

\* Get(i): [res, t, form, src, layer, calls, ds]
\*   res    "hit" | "miss" | "raise"        t, form: the transaction handed out
\*   src    "dir" | "look" | "-"            layer: which directory / lookup method answered
\*   calls  the lookup methods consulted, in order
\*   ds     the directories afterwards
GetOutcome(cf, ds, lk, i) ==
  LET n == NDirs(cf)
      d == FirstIn({x \in 1..n : Usable(i, ds[x][i])})
      scanned == IF d = 0 THEN 1..n ELSE 1..(d - 1)
      bad == \E x \in scanned : Unparsable(ds[x][i])
      m == FirstIn({x \in 1..cf.nl : Usable(i, lk[x][i])})
  IN IF BadFileRaises /\ bad
     THEN [res |-> "raise", t |-> 0, form |-> "-", src |-> "-", layer |-> 0, calls |-> <<>>, ds |-> ds]
     ELSE IF d > 0
     THEN [res |-> "hit", t |-> AsTx(ds[d][i]).t, form |-> AsTx(ds[d][i]).form, src |-> "dir", layer |-> d,
           calls |-> <<>>, ds |-> ds]
     ELSE IF m > 0
     THEN [res |-> "hit", t |-> AsTx(lk[m][i]).t, form |-> AsTx(lk[m][i]).form, src |-> "look", layer |-> m,
           calls |-> [x \in 1..m |-> x],
           ds |-> IF cf.w THEN [ds EXCEPT ![WIdx(cf)][i] = [c |-> AsTx(lk[m][i]).form, t |-> i]] ELSE ds]
     ELSE [res |-> "miss", t |-> 0, form |-> "-", src |-> "-", layer |-> 0, calls |-> [x \in 1..cf.nl |-> x], ds |-> ds]

\* has the scan for i to pass an unparsable file (the circumstance of deviation BadFileRaises)
PassesBadFile(cf, ds, i) ==
  LET n == NDirs(cf)
      d == FirstIn({x \in 1..n : Usable(i, ds[x][i])})
  IN \E x \in (IF d = 0 THEN 1..n ELSE 1..(d - 1)) : Unparsable(ds[x][i])

PutOutcome(cf, ds, t) == IF cf.w THEN [ds EXCEPT ![WIdx(cf)][t] = Full(t)] ELSE ds

\* ----------------------------------------------------------------- consumers
(* A spender is a transaction given by its inputs: a sequence of [t, x, cl]:   *)
(*   t   id of the transaction whose output is spent (0: the null outpoint of  *)
(*       a coinbase input)          x   the output index, from 0               *)
(*   cl  what the caller CLAIMS the spent output to be (only for Validate):    *)
(*       "right" | "amt" (wrong amount) | "scr" (wrong script)                 *)
(*       | "other" (another output altogether)                                 *)
(* and `out`, the total amount of its own outputs.  An output is named         *)
(* <<t, x>>; Amt(t, x) is its amount.                                          *)
Amt(t, x) == 1000 * t + 100 * x + 50
InRange(inp) == inp.x < NOut(inp.t)
IsCb(inp) == inp.t = 0

\* Fill(sp, ign) = "unspents from the db": the gets happen input by input, each with its write-through.
\* acc: [ds, us, calls, st]  st: "ok" | "keyerror" | "oob"
FillStep(cf, lk, ign, acc, inp) ==
    IF acc.st # "ok" THEN acc
    ELSE IF IsCb(inp) THEN [acc EXCEPT !.us = Append(@, <<0, 0>>)]
    ELSE LET g == GetOutcome(cf, acc.ds, lk, inp.t) IN
         IF g.res = "raise" THEN [acc EXCEPT !.st = "raise"]
         ELSE IF g.res = "hit"
              THEN IF InRange(inp)
                   THEN [ds |-> g.ds, us |-> Append(acc.us, <<inp.t, inp.x>>), calls |-> acc.calls \o <<g.calls>>, st |-> "ok"]
                   ELSE [ds |-> g.ds, us |-> acc.us, calls |-> acc.calls \o <<g.calls>>, st |-> "oob"]
              ELSE IF ign
                   THEN [ds |-> g.ds, us |-> Append(acc.us, <<0, 0>>), calls |-> acc.calls \o <<g.calls>>, st |-> "ok"]
                   ELSE [ds |-> g.ds, us |-> acc.us, calls |-> acc.calls \o <<g.calls>>, st |-> "keyerror"]
\* st "ok": the unspents are us (<<0,0>> = none);  "keyerror": the documented failure, nothing filled in;
\* "oob": the transaction is there, the output is not - must not yield any output (an exception of any
\* type, or, when missing ones are to be ignored, none at that position);  "raise": deviation only
FillOutcome(cf, ds, lk, sp, ign) ==
  FoldLeft(LAMBDA a, x : FillStep(cf, lk, ign, a, x), [ds |-> ds, us |-> <<>>, calls |-> <<>>, st |-> "ok"], sp.ins)
FillMissing(sp, us) == ~(Len(sp.ins) = 1 /\ IsCb(sp.ins[1])) /\ \E k \in 1..Len(us) : us[k] = <<0, 0>>

\* Validate(sp): every distinct referenced transaction is fetched (in SOME order), then every claim is compared
DistinctPrev(sp) == {sp.ins[k].t : k \in 1..Len(sp.ins)} \ {0}
ValStep(cf, lk, acc, t) ==
    IF acc.st # "ok" THEN acc
    ELSE LET g == GetOutcome(cf, acc.ds, lk, t) IN
         IF g.res = "raise" THEN [acc EXCEPT !.st = "raise"]
         ELSE IF g.res = "hit" THEN [acc EXCEPT !.ds = g.ds] ELSE [acc EXCEPT !.ds = g.ds, !.st = "keyerror"]
ClaimedAmt(inp) == CASE IsCb(inp) -> 0
                     [] inp.cl = "amt" -> Amt(inp.t, inp.x) + 1
                     [] inp.cl = "other" -> Amt(inp.t, inp.x) + 7
                     [] OTHER -> Amt(inp.t, inp.x)
\* res: the set of ALLOWED verdicts ("fee" | "keyerror" | "badspendable" | "indexerror" | "raise")
ValidateOutcome(cf, ds, lk, sp, order) ==
  LET f == FoldLeft(LAMBDA a, x : ValStep(cf, lk, a, x), [ds |-> ds, st |-> "ok"], order)
      ins == [k \in 1..Len(sp.ins) |-> sp.ins[k]]
      noncb == {k \in 1..Len(ins) : ~IsCb(ins[k])}
      oob == {k \in noncb : ~InRange(ins[k])}
      edge == {k \in oob : ins[k].x = NOut(ins[k].t)}
      wrong == {k \in noncb : ins[k].cl # "right"}
      firstbad == FirstIn(oob \cup wrong)
      fee == FoldLeft(LAMBDA a, inp : a + ClaimedAmt(inp), 0, ins) - sp.out
  IN [ds |-> f.ds,
      res |-> IF f.st = "raise" THEN {"raise"}
              ELSE IF f.st = "keyerror" THEN {"keyerror"}
              ELSE IF firstbad = 0 THEN {"fee"}
              ELSE IF OobIndexError /\ firstbad \in edge THEN {"indexerror"}
              ELSE {"badspendable"},
      fee |-> fee]
Orders(sp) == {o \in [1..Cardinality(DistinctPrev(sp)) -> DistinctPrev(sp)] : \A a, b \in DOMAIN o : a # b => o[a] # o[b]}

\* ----------------------------------------------------------------- the state machine
VARIABLES conf, dirs, look,
          last,      \* the last operation with its outcome (observation)
          asked,     \* ghost: what has been asked of this store object so far, with the answer then
          n          \* operations so far
svars == <<conf, dirs, look, last, asked, n>>

NoOp == [op |-> "init"]
SInit == /\ conf \in Confs
         /\ dirs = [d \in 1..NDirs(conf) |-> EmptyDir]
         /\ look = [m \in 1..conf.nl |-> NoLook]
         /\ last = NoOp /\ asked = {} /\ n = 0

Put(t) == /\ dirs' = PutOutcome(conf, dirs, t)
          /\ last' = [op |-> "put", t |-> t]
          /\ UNCHANGED <<conf, look, asked>> /\ n' = n + 1
\* store[k] = t : refused unless k is t's id
SetItem(k, t) == /\ dirs' = IF k = t THEN PutOutcome(conf, dirs, t) ELSE dirs
                 /\ last' = [op |-> "setitem", k |-> k, t |-> t, ok |-> (k = t)]
                 /\ UNCHANGED <<conf, look, asked>> /\ n' = n + 1
Get(i) == LET g == GetOutcome(conf, dirs, look, i) IN
          /\ dirs' = g.ds
          /\ last' = [op |-> "get", i |-> i, res |-> g.res, t |-> g.t, form |-> g.form, src |-> g.src,
                      layer |-> g.layer, calls |-> g.calls, bad |-> PassesBadFile(conf, dirs, i)]
          /\ asked' = asked \cup {<<i, g.res, g.form>>}
          /\ UNCHANGED <<conf, look>> /\ n' = n + 1
\* files change behind the store's back
Edit(d, i, b) == /\ d \in 1..NDirs(conf) /\ dirs[d][i] # b
                 /\ dirs' = [dirs EXCEPT ![d][i] = b]
                 /\ last' = [op |-> "edit", d |-> d, i |-> i, b |-> b]
                 /\ UNCHANGED <<conf, look, asked>> /\ n' = n + 1
\* a lookup method changes its mind (the service's answer for i is now a)
SetLook(m, i, a) == /\ m \in 1..conf.nl /\ look[m][i] # a
                    /\ look' = [look EXCEPT ![m][i] = a]
                    /\ last' = [op |-> "setlook", m |-> m, i |-> i, a |-> a]
                    /\ UNCHANGED <<conf, dirs, asked>> /\ n' = n + 1
\* (sp: the spender, s: how the observation names it)
FillX(sp, s, ign) ==
                LET f == FillOutcome(conf, dirs, look, sp, ign) IN
                /\ dirs' = f.ds
                /\ last' = [op |-> "fill", s |-> s, ign |-> ign, st |-> f.st, us |-> f.us, calls |-> f.calls,
                            missing |-> FillMissing(sp, f.us)]
                /\ asked' = asked \cup {<<sp.ins[k].t, "fill", "-">> : k \in 1..Len(sp.ins)}
                /\ UNCHANGED <<conf, look>> /\ n' = n + 1
Fill(s, ign) == FillX(Spenders[s], s, ign)
\* the verdict allowed is that of ANY fetch order; the directories afterwards are those of the order taken
ValidateX(sp, s) ==
               \E o \in Orders(sp) :
                 LET v == ValidateOutcome(conf, dirs, look, sp, o)
                     all == {ValidateOutcome(conf, dirs, look, sp, oo) : oo \in Orders(sp)} IN
                 /\ dirs' = v.ds
                 /\ last' = [op |-> "validate", s |-> s, res |-> UNION {x.res : x \in all}, fee |-> v.fee,
                             orders |-> Cardinality({<<x.ds, x.res>> : x \in all})]
                 /\ asked' = asked \cup {<<sp.ins[k].t, "fill", "-">> : k \in 1..Len(sp.ins)}
                 /\ UNCHANGED <<conf, look>> /\ n' = n + 1
Validate(s) == ValidateX(Spenders[s], s)

\* ----------------------------------------------------------------- the property
\* (a) what comes back is what was asked for, or a clean miss
AnswerIsAsked == last.op = "get" => /\ last.res \in {"hit", "miss"}
                                    /\ last.res = "hit" => last.t = last.i
\* written through: after a lookup method answered, the same question needs no lookup method
WrittenThrough ==
  (last.op = "get" /\ last.res = "hit" /\ last.src = "look" /\ conf.w) =>
     LET g == GetOutcome(conf, dirs, look, last.i) IN
     g.res = "hit" /\ g.src = "dir" /\ g.calls = <<>> /\ g.form = last.form
\* put then get, on a store over the writable directory alone, hands back the full transaction
PutThenGet ==
  (last.op \in {"put", "setitem"} /\ conf.w /\ (last.op = "setitem" => last.ok)) =>
     LET g == GetOutcome([nro |-> 0, w |-> TRUE, nl |-> 0], <<dirs[WIdx(conf)]>>, <<>>, last.t) IN
     g.res = "hit" /\ g.t = last.t /\ g.form = "full"
\* the consumers: an unspent handed out is the referenced output of the referenced transaction
FilledRight ==
  last.op = "fill" =>
     /\ last.st \in {"ok", "keyerror", "oob"}
     /\ last.st = "ok" => /\ Len(last.us) = Len(Spenders[last.s].ins)
                          /\ \A k \in 1..Len(last.us) :
                               LET inp == Spenders[last.s].ins[k] IN
                               \/ last.us[k] = <<inp.t, inp.x>> /\ ~IsCb(inp) /\ InRange(inp)
                               \/ last.us[k] = <<0, 0>> /\ (IsCb(inp) \/ last.ign)
ValidatedRight ==
  last.op = "validate" =>
     /\ last.res \subseteq {"fee", "keyerror", "badspendable"}
     /\ "fee" \in last.res => \A k \in 1..Len(Spenders[last.s].ins) :
                                LET inp == Spenders[last.s].ins[k] IN IsCb(inp) \/ (InRange(inp) /\ inp.cl = "right")
\* action properties: a miss (or any failure) writes nothing; read-only directories are never written by the store
MissWritesNothing ==
  [][(last'.op = "get" /\ last'.res # "hit") => dirs' = dirs]_svars
ReadOnlyKept ==
  [][(last'.op \in {"get", "put", "setitem", "fill", "validate"}) => \A d \in 1..conf.nro : dirs'[d] = dirs[d]]_svars
\* only the asked id's file in the writable directory may change in a get, and only to what the lookup method gave
GetWritesOnlyAsked ==
  [][(last'.op = "get") => \A d \in 1..NDirs(conf) : \A j \in Ids :
        dirs'[d][j] # dirs[d][j] => (d = WIdx(conf) /\ j = last'.i /\ last'.src = "look" /\ Usable(j, dirs'[d][j]))]_svars
\* the answer is a function of the layers now: asking again changes nothing and gives the same transaction
AskAgainSame ==
  last.op = "get" /\ last.res = "hit" =>
     LET g == GetOutcome(conf, dirs, look, last.i) IN g.res = "hit" /\ g.t = last.t /\ g.form = last.form /\ g.ds = dirs

TypeOK == /\ conf \in Confs
          /\ \A d \in 1..Len(dirs) : \A i \in Ids : dirs[d][i] \in Blobs
          /\ \A m \in 1..Len(look) : \A i \in Ids : look[m][i] \in LookAnswers
=============================================================================
