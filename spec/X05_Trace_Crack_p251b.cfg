CONSTANTS P = 251  A = 1  B = 4  Gx = 0  Gy = 2  N = 271
SPECIFICATION TSpec
CHECK_DEADLOCK FALSE
